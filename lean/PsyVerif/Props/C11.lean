import PsyVerif.Lemmas.Access
import PsyVerif.Gen.Intrinsics
/-! # C11 — variable access information covers every actual read and write

`refAcc c s` is the model of `VariablesAccessInfo(s)` (Model/Access.lean), `execT` the tracing
semantics (element-level read/write events; its store component is `MiniF.exec`).  The
context `c` carries the decision rule of `Call`/`IntrinsicCall.reference_accesses`
(`pinnedRule`: the pinned code, `fixedRule`: the code with
fixes/C11-intrinsic-subroutine-args-written.patch, `idealRule`: what the property needs) and the
intrinsic table translated from the live `IntrinsicCall.Intrinsic` enum (`Gen.attrs`). -/
namespace C11
open MiniF (Store Loc)

/-- variables reported as read (`is_read`) / written (`is_written`) -/
def readVars (A : List Access) : List Nat := (A.filter (·.kind.isRead)).map (·.var)
def writtenVars (A : List Access) : List Nat := (A.filter (·.kind.isWrite)).map (·.var)

theorem mem_readVars {A : List Access} {x : Nat} :
    x ∈ readVars A ↔ ∃ a ∈ A, a.var = x ∧ a.kind.isRead = true := by
  simp only [readVars, List.mem_map, List.mem_filter]
  constructor
  · rintro ⟨a, ⟨h1, h2⟩, h3⟩; exact ⟨a, h1, h3, h2⟩
  · rintro ⟨a, h1, h3, h2⟩; exact ⟨a, ⟨h1, h2⟩, h3⟩

theorem mem_writtenVars {A : List Access} {x : Nat} :
    x ∈ writtenVars A ↔ ∃ a ∈ A, a.var = x ∧ a.kind.isWrite = true := by
  simp only [writtenVars, List.mem_map, List.mem_filter]
  constructor
  · rintro ⟨a, ⟨h1, h2⟩, h3⟩; exact ⟨a, h1, h3, h2⟩
  · rintro ⟨a, h1, h3, h2⟩; exact ⟨a, ⟨h1, h2⟩, h3⟩

def pinnedCtx : Ctx := ⟨pinnedRule, Gen.attrs⟩
def fixed1Ctx : Ctx := ⟨fixed1Rule, Gen.attrs⟩
def fixed3Ctx : Ctx := ⟨fixed3Rule, Gen.attrs⟩
def fixedCtx : Ctx := ⟨fixedRule, Gen.attrs⟩
def fixed5Ctx : Ctx := ⟨fixed5Rule, Gen.attrs⟩
def idealCtx : Ctx := ⟨idealRule, Gen.attrs⟩

/-- no CALL statement of a PURE subroutine -/
def noPureSub : Stmt → Bool
  | .skip => true
  | .seq a b => noPureSub a && noPureSub b
  | .asg _ _ => true
  | .ifThen _ t => noPureSub t
  | .ite _ t f => noPureSub t && noPureSub f
  | .loop _ _ _ _ b => noPureSub b
  | .while _ b => noPureSub b
  | .ret => true
  | .opaque _ _ _ _ => true
  | .call p _ _ _ => !p
  | .icall _ _ _ => true

/-- no CALL statement of a PURE subroutine whose definition is not in the same Container -/
def noPureUnresolved : Stmt → Bool
  | .skip => true
  | .seq a b => noPureUnresolved a && noPureUnresolved b
  | .asg _ _ => true
  | .ifThen _ t => noPureUnresolved t
  | .ite _ t f => noPureUnresolved t && noPureUnresolved f
  | .loop _ _ _ _ b => noPureUnresolved b
  | .while _ b => noPureUnresolved b
  | .ret => true
  | .opaque _ _ _ _ => true
  | .call p mods _ _ => !p || mods.isSome
  | .icall _ _ _ => true

/-- no intrinsic used as a statement (intrinsic subroutine, ALLOCATE, DEALLOCATE) -/
def noIntrStmt : Stmt → Bool
  | .skip => true
  | .seq a b => noIntrStmt a && noIntrStmt b
  | .asg _ _ => true
  | .ifThen _ t => noIntrStmt t
  | .ite _ t f => noIntrStmt t && noIntrStmt f
  | .loop _ _ _ _ b => noIntrStmt b
  | .while _ b => noIntrStmt b
  | .ret => true
  | .opaque _ _ _ _ => true
  | .call _ _ _ _ => true
  | .icall _ _ _ => false

theorem okS_ideal (tb : Nat → IAttr) (s : Stmt) : okS ⟨idealRule, tb⟩ s = true := by
  induction s with
  | seq a b iha ihb => simp [okS, iha, ihb]
  | ifThen c t ih => simpa [okS] using ih
  | ite c t f iht ihf => simp [okS, iht, ihf]
  | loop v lo hi st b ih => simpa [okS] using ih
  | «while» c b ih => simpa [okS] using ih
  | call p mods f args => cases p <;> simp [okS, idealRule]
  | _ => rfl

theorem okS_fixed (tb : Nat → IAttr) (s : Stmt) : okS ⟨fixedRule, tb⟩ s = noPureUnresolved s := by
  induction s with
  | seq a b iha ihb => simp [okS, noPureUnresolved, iha, ihb]
  | ifThen c t ih => simpa [okS, noPureUnresolved] using ih
  | ite c t f iht ihf => simp [okS, noPureUnresolved, iht, ihf]
  | loop v lo hi st b ih => simpa [okS, noPureUnresolved] using ih
  | «while» c b ih => simpa [okS, noPureUnresolved] using ih
  | call p mods f args => cases p <;> simp [okS, noPureUnresolved, fixedRule]
  | _ => rfl

theorem okS_fixed5 (tb : Nat → IAttr) (s : Stmt) : okS ⟨fixed5Rule, tb⟩ s = noPureUnresolved s := by
  induction s with
  | seq a b iha ihb => simp [okS, noPureUnresolved, iha, ihb]
  | ifThen c t ih => simpa [okS, noPureUnresolved] using ih
  | ite c t f iht ihf => simp [okS, noPureUnresolved, iht, ihf]
  | loop v lo hi st b ih => simpa [okS, noPureUnresolved] using ih
  | «while» c b ih => simpa [okS, noPureUnresolved] using ih
  | call p mods f args => cases p <;> simp [okS, noPureUnresolved, fixed5Rule]
  | _ => rfl

theorem okS_fixed3 (tb : Nat → IAttr) (s : Stmt) : okS ⟨fixed3Rule, tb⟩ s = noPureUnresolved s := by
  induction s with
  | seq a b iha ihb => simp [okS, noPureUnresolved, iha, ihb]
  | ifThen c t ih => simpa [okS, noPureUnresolved] using ih
  | ite c t f iht ihf => simp [okS, noPureUnresolved, iht, ihf]
  | loop v lo hi st b ih => simpa [okS, noPureUnresolved] using ih
  | «while» c b ih => simpa [okS, noPureUnresolved] using ih
  | call p mods f args => cases p <;> simp [okS, noPureUnresolved, fixed3Rule]
  | _ => rfl

theorem okS_fixed1 (tb : Nat → IAttr) (s : Stmt) : okS ⟨fixed1Rule, tb⟩ s = noPureSub s := by
  induction s with
  | seq a b iha ihb => simp [okS, noPureSub, iha, ihb]
  | ifThen c t ih => simpa [okS, noPureSub] using ih
  | ite c t f iht ihf => simp [okS, noPureSub, iht, ihf]
  | loop v lo hi st b ih => simpa [okS, noPureSub] using ih
  | «while» c b ih => simpa [okS, noPureSub] using ih
  | call p mods f args => cases p <;> simp [okS, noPureSub, fixed1Rule]
  | _ => rfl

theorem okS_pinned (tb : Nat → IAttr) (s : Stmt) :
    okS ⟨pinnedRule, tb⟩ s = (noPureSub s && noIntrStmt s) := by
  induction s with
  | seq a b iha ihb =>
    simp only [okS, noPureSub, noIntrStmt, iha, ihb]
    cases noPureSub a <;> cases noPureSub b <;> cases noIntrStmt a <;> cases noIntrStmt b <;> rfl
  | ifThen c t ih => simpa [okS, noPureSub, noIntrStmt] using ih
  | ite c t f iht ihf =>
    simp only [okS, noPureSub, noIntrStmt, iht, ihf]
    cases noPureSub t <;> cases noPureSub f <;> cases noIntrStmt t <;> cases noIntrStmt f <;> rfl
  | loop v lo hi st b ih => simpa [okS, noPureSub, noIntrStmt] using ih
  | «while» c b ih => simpa [okS, noPureSub, noIntrStmt] using ih
  | call p mods f args => cases p <;> simp [okS, noPureSub, noIntrStmt, pinnedRule]
  | _ => rfl

/-- elements of an argument spine -/
def spineList : Expr → List Expr
  | .cons e rest => e :: spineList rest
  | _ => []

theorem spine_elem_recorded (c : Ctx) (k : Kind) (args : Expr) :
    ∀ (mask n : Nat) (e : Expr), e ∈ spineList args → e.isRef = true →
      ∃ a ∈ (acc c args (.spine (some k) mask false) n).1, a.var = e.refVar ∧
        (a.kind = k ∨ a.kind = .readwrite) := by
  induction args with
  | cons hd rest _ ihr =>
    intro mask n e he href
    simp only [spineList, List.mem_cons] at he
    rcases he with rfl | he
    · have key : ∀ k', ∃ a ∈ (acc c e (.elem k') n).1, a.var = e.refVar ∧ a.kind = k' := by
        intro k'
        cases e <;> simp [Expr.isRef] at href
        · exact ⟨⟨_, k', n, 0⟩, by simp [acc], rfl, rfl⟩
        · exact ⟨⟨_, k', n, 0⟩, by simp [acc], rfl, rfl⟩
        · exact ⟨⟨_, k', n, 0⟩, by simp [acc], rfl, rfl⟩
        · exact ⟨⟨_, k', n, 0⟩, by simp [acc], rfl, rfl⟩
      by_cases hm : mask % 2 = 1
      · obtain ⟨a, ha, h1, h2⟩ := key .readwrite
        refine ⟨a, ?_, h1, Or.inr h2⟩
        simp only [acc, Bool.false_eq_true, if_false, hm, if_true, elemMode, List.mem_append]
        exact Or.inl ha
      · obtain ⟨a, ha, h1, h2⟩ := key k
        refine ⟨a, ?_, h1, Or.inl h2⟩
        simp only [acc, Bool.false_eq_true, if_false, hm, elemMode, List.mem_append]
        exact Or.inl ha
    · obtain ⟨a, ha, h1, h2⟩ := ihr (mask / 2)
        (acc c hd (elemMode (if mask % 2 = 1 then some Kind.readwrite else some k)) n).2 e he href
      refine ⟨a, ?_, h1, h2⟩
      simp only [acc, Bool.false_eq_true, if_false, List.mem_append]
      exact Or.inr ha
  | _ => intro mask n e he; simp [spineList] at he

/-- a designator CodeBlock in an argument list: the designated variable is recorded READWRITE by
a rule that records the names of CodeBlocks -/
theorem spine_cb_recorded (c : Ctx) (hc : c.rule.cbRW = true) (ko : Option Kind) (args : Expr) :
    ∀ (mask n : Nat) (f : Nat) (names rd : List Nat) (x : Nat), .cb f names rd (some x) ∈ spineList args →
      x ∈ names → ∃ a ∈ (acc c args (.spine ko mask false) n).1, a.var = x ∧ a.kind = .readwrite := by
  induction args with
  | cons hd rest _ ihr =>
    intro mask n f names rd x he hx
    simp only [spineList, List.mem_cons] at he
    rcases he with rfl | he
    · refine ⟨⟨x, .readwrite, n, 0⟩, ?_, rfl, rfl⟩
      simp only [acc, Bool.false_eq_true, if_false, List.mem_append]
      left
      have : (acc c (.cb f names rd (some x)) (elemMode (if mask % 2 = 1 then some Kind.readwrite else ko)) n).1
          = cbAcc c names n := by
        cases hem : elemMode (if mask % 2 = 1 then some Kind.readwrite else ko) <;> simp [acc]
        exact (elemMode_ne_subs _ hem).elim
      rw [this]
      exact mem_cbAcc hc hx
    · obtain ⟨a, ha, h1, h2⟩ := ihr (mask / 2)
        (acc c hd (elemMode (if mask % 2 = 1 then some Kind.readwrite else ko)) n).2 f names rd x he hx
      refine ⟨a, ?_, h1, h2⟩
      simp only [acc, Bool.false_eq_true, if_false, List.mem_append]
      exact Or.inr ha
  | _ => intro mask n f names rd x he; simp [spineList] at he

/-! ## The property -/

/-- **C11 for one statement** in context `c`: whenever the access collection does not raise,
every element read by any execution of the statement (any store, any behaviour of the
callees, any number of DO WHILE iterations) belongs to a variable reported as read, and
every element written to a variable reported as written. -/
def C11_holds_for (c : Ctx) (s : Stmt) : Prop :=
  ∀ (A : List Access), refAcc c s = some A →
    ∀ (ω : Oracle) (σ : Store) (l : Loc),
      (Event.rd l ∈ (execT ω c.attrs s σ).2 → l.1 ∈ readVars A) ∧
      (Event.wr l ∈ (execT ω c.attrs s σ).2 → l.1 ∈ writtenVars A)

/-- **C11 at full strength**: for every statement. -/
def C11_statement (c : Ctx) : Prop := ∀ s : Stmt, C11_holds_for c s

/-- The tracing semantics is a refinement of the shared MiniF semantics: on (the embedding
of) every MiniF statement its store component is `MiniF.exec`. -/
theorem C11_execT_agrees (ω : Oracle) (tb : Nat → IAttr) (s : MiniF.Stmt) (σ : Store) :
    (execT ω tb (emb s) σ).1 = MiniF.exec s σ := execT_emb ω tb s σ

/-- Every element read is reported read — for every rule (pinned, fixed, ideal), all stores,
callee behaviours, trip counts and DO WHILE iteration bounds, and every statement satisfying
`okES`: every CodeBlock (statement, or expression in an argument / condition / subscript /
right-hand side / bound) is well-formed for the rule (its variables are among the names of its
text if the rule records those, else it mentions none) and no inquiry intrinsic is applied to an
object whose subscripts the rule does not visit.  Subscripts on every component of a structure
access are included. -/
theorem C11_reads (c : Ctx) (s : Stmt) (hq : okES c s = true) (A : List Access) (h : refAcc c s = some A)
    (ω : Oracle) (σ : Store) (l : Loc) (hev : Event.rd l ∈ (execT ω c.attrs s σ).2) :
    l.1 ∈ readVars A := by
  simp only [refAcc, Option.map_eq_some_iff] at h
  obtain ⟨r, hr, rfl⟩ := h
  have := accS_covers (w := false) c ω (fun hw => by cases hw) s false 0 σ r (fun hw => by cases hw) hq hr
  obtain ⟨a, ha, h1, h2⟩ := this _ hev
  exact mem_readVars.mpr ⟨a, ha, h1, h2⟩

/-- Every element written is reported written, provided (i) impure user functions mark
their by-reference arguments READWRITE and (ii) every call statement / intrinsic statement
occurring in `s` records what its callee may store into (`okS`). -/
theorem C11_writes (c : Ctx) (hfn : c.rule.callRW false false = true) (s : Stmt) (hok : okS c s = true)
    (hq : okES c s = true) (A : List Access) (h : refAcc c s = some A)
    (ω : Oracle) (σ : Store) (l : Loc) (hev : Event.wr l ∈ (execT ω c.attrs s σ).2) :
    l.1 ∈ writtenVars A := by
  simp only [refAcc, Option.map_eq_some_iff] at h
  obtain ⟨r, hr, rfl⟩ := h
  have := accS_covers (w := true) c ω (fun _ => hfn) s false 0 σ r (fun _ => hok) hq hr
  obtain ⟨a, ha, h1, h2⟩ := this _ hev rfl
  exact mem_writtenVars.mpr ⟨a, ha, h1, h2⟩

/-- With the ideal call rule the property holds for every statement with well-formed
CodeBlocks, with any intrinsic table. -/
theorem C11_ideal (tb : Nat → IAttr) (s : Stmt) (hq : okES ⟨idealRule, tb⟩ s = true) :
    C11_holds_for ⟨idealRule, tb⟩ s := by
  intro A h ω σ l
  exact ⟨C11_reads _ s hq A h ω σ l, C11_writes _ rfl s (okS_ideal tb s) hq A h ω σ l⟩

/-- **The code at HEAD (four C11 fixes)**: the property holds for every statement that contains no
CALL of a PURE subroutine defined outside the Container (known finding) and satisfies
`okES fixedCtx`: all CodeBlocks — statements and expressions, wherever they occur — are well-formed
and no inquiry intrinsic is applied to a CodeBlock whose subscripts / sub-string bounds read a
variable (`len(names(k)(1:n))`, known finding). -/
theorem C11_fixed_partial (s : Stmt) (hs : noPureUnresolved s = true) (hq : okES fixedCtx s = true) :
    C11_holds_for fixedCtx s := by
  intro A h ω σ l
  exact ⟨C11_reads _ s hq A h ω σ l,
    C11_writes fixedCtx rfl s (by rw [fixedCtx, okS_fixed]; exact hs) hq A h ω σ l⟩

/-- **With fixes/C11-inquiry-codeblock.patch in addition**: the inquiry restriction disappears
(`okES fixed5Ctx` only asks for well-formed CodeBlocks). -/
theorem C11_fixed5_partial (s : Stmt) (hs : noPureUnresolved s = true) (hq : okES fixed5Ctx s = true) :
    C11_holds_for fixed5Ctx s := by
  intro A h ω σ l
  exact ⟨C11_reads _ s hq A h ω σ l,
    C11_writes fixed5Ctx rfl s (by rw [fixed5Ctx, okS_fixed5]; exact hs) hq A h ω σ l⟩

/-- **Without the CodeBlock fix** (first three fixes): `okES fixed3Ctx` — no CodeBlock mentions a variable. -/
theorem C11_fixed3_partial (s : Stmt) (hs : noPureUnresolved s = true) (hq : okES fixed3Ctx s = true) :
    C11_holds_for fixed3Ctx s := by
  intro A h ω σ l
  exact ⟨C11_reads _ s hq A h ω σ l,
    C11_writes fixed3Ctx rfl s (by rw [fixed3Ctx, okS_fixed3]; exact hs) hq A h ω σ l⟩

/-- `call psub(x)` with `pure subroutine psub` (definition not available) storing into its
argument is reported as `x: READ`. -/
theorem C11_fixed_counterexample : ¬ C11_holds_for fixedCtx (.call true none 0 (.cons (.var 0) .nil)) := by
  intro h
  have := (h [⟨0, .read, 0, 0⟩] (by decide)
    ⟨fun _ _ => 0, fun _ _ _ => some 1, fun _ _ => 0, 0⟩ (MiniF.storeOf []) (0, 0, 0)).2
    (by simp [execT, evalT, applyUpd])
  revert this
  decide

/-- A CodeBlock `write(*,*) x; read(*,*) y` (names x = 0, y = 1; reads 0, defines 1): a rule that
does not record the names of a CodeBlock records nothing (the code before
fixes/C11-codeblock-accesses.patch). -/
theorem C11_codeblock_counterexample (r : Rule) (hr : r.cbRW = false) :
    ¬ C11_holds_for ⟨r, Gen.attrs⟩ (.opaque 0 [0, 1] [0] [1]) := by
  intro h
  have := (h [] (by simp [refAcc, accS, hr, bumpIf])
    ⟨fun _ _ => 0, fun _ _ _ => some 1, fun _ _ => 0, 0⟩ (MiniF.storeOf []) (0, 0, 0)).1
    (by simp [execT])
  revert this
  decide

/-- `call fill(names(k)(1:3))` (names = 0, k = 1): the actual argument is an expression CodeBlock
designating `names`; the callee stores into it.  A rule that records nothing for CodeBlocks
reports nothing at all. -/
theorem C11_exprcb_counterexample (r : Rule) (hr : r.cbRW = false) :
    ¬ C11_holds_for ⟨r, Gen.attrs⟩ (.call false none 0 (.cons (.cb 1 [0, 1] [0, 1] (some 0)) .nil)) := by
  intro h
  have := (h [] (by simp [refAcc, accS, acc, cbAcc, elemMode, hr, bumpIf])
    ⟨fun _ _ => 0, fun _ _ _ => some 1, fun _ _ => 0, 0⟩ (MiniF.storeOf []) (0, 0, 0)).2
    (by simp [execT, evalT, applyUpd])
  revert this
  decide

/-- `n = len(names(k)(1:m))` (names = 0, k = 1, m = 2, n = 3): the length of the sub-string
depends on `m`; a rule that does not visit a CodeBlock that is the inquired argument reports only
`n: WRITE` (the code at HEAD; repaired by fixes/C11-inquiry-codeblock.patch). -/
theorem C11_inquiry_codeblock_counterexample (r : Rule) (hr : r.inqCb = false) :
    ¬ C11_holds_for ⟨r, Gen.attrs⟩
      (.asg (.var 3) (.intr Gen.id_LEN (.cons (.cb 0 [0, 1, 2] [0, 1, 2] (some 0)) .nil))) := by
  intro h
  have hi : (Gen.attrs Gen.id_LEN).inquiry = true := by decide
  have hA : refAcc ⟨r, Gen.attrs⟩
      (.asg (.var 3) (.intr Gen.id_LEN (.cons (.cb 0 [0, 1, 2] [0, 1, 2] (some 0)) .nil)))
      = some [⟨3, .write, 0, 0⟩] := by
    cases hs : r.inqSubs <;>
      simp [refAcc, accS, acc, hi, hr, hs, Expr.isRef, Expr.refVar, changeReadToWrite, project, bumpIf, shift]
  have := (h _ hA ⟨fun _ _ => 0, fun _ _ _ => none, fun _ _ => 0, 0⟩ (MiniF.storeOf []) (2, 0, 0)).1
    (by simp [execT, evalT, lhsT, hi, cbSubs])
  revert this
  decide

/-- Hence the full statement fails for every such rule; for the code with all four fixes it
fails on the PURE subroutine defined elsewhere. -/
theorem C11_statement_fails (r : Rule) (hr : r.cbRW = false) : ¬ C11_statement ⟨r, Gen.attrs⟩ :=
  fun h => C11_codeblock_counterexample r hr (h _)

theorem C11_statement_fails_fixed : ¬ C11_statement fixedCtx :=
  fun h => C11_fixed_counterexample (h _)

/-- **Without the inquiry and pure-subroutine fixes** (intrinsic-subroutine fix only): the
property holds when additionally there is no PURE-subroutine call at all and no inquiry of a
subscripted object. -/
theorem C11_fixed1_partial (s : Stmt) (hs : noPureSub s = true) (hq : okES fixed1Ctx s = true) :
    C11_holds_for fixed1Ctx s := by
  intro A h ω σ l
  exact ⟨C11_reads _ s hq A h ω σ l,
    C11_writes fixed1Ctx rfl s (by rw [fixed1Ctx, okS_fixed1]; exact hs) hq A h ω σ l⟩

/-- **The pinned code**: … and no intrinsic statement. -/
theorem C11_pinned_partial (s : Stmt) (hs : noPureSub s = true) (hn : noIntrStmt s = true)
    (hq : okES pinnedCtx s = true) : C11_holds_for pinnedCtx s := by
  intro A h ω σ l
  exact ⟨C11_reads _ s hq A h ω σ l,
    C11_writes pinnedCtx rfl s (by rw [pinnedCtx, okS_pinned, hs, hn]; rfl) hq A h ω σ l⟩

/-- The pinned code reports `call random_number(x)` (as an `IntrinsicCall`) as `x: READ`. -/
theorem C11_pinned_counterexample :
    ¬ C11_holds_for pinnedCtx (.icall Gen.id_RANDOM_NUMBER 0 (.cons (.var 0) .nil)) := by
  intro h
  have hi : (pinnedCtx.attrs Gen.id_RANDOM_NUMBER).inquiry = false := by decide
  have := (h [⟨0, .read, 0, 0⟩] (by decide)
    ⟨fun _ _ => 0, fun _ _ _ => some 1, fun _ _ => 0, 0⟩ (MiniF.storeOf []) (0, 0, 0)).2
    (by simp [execT, evalT, applyUpd, hi])
  revert this
  decide

/-- `n = size(w(idx(j):10))` (w = 0, idx = 1, j = 2, n = 3): evaluating the section bound reads
`j` and `idx`; a rule that does not visit the subscripts of the inquired argument reports only
`n: WRITE` (the code before fixes/C11-inquiry-subscripts.patch). -/
theorem C11_inquiry_counterexample (r : Rule) (hr : r.inqSubs = false) :
    ¬ C11_holds_for ⟨r, Gen.attrs⟩ (.asg (.var 3) (.intr Gen.id_SIZE
        (.cons (.idxs 0 1 (.cons (.cons (.idx1 1 (.var 2)) (.cons (.lit 10) (.cons (.lit 1) .nil))) .nil)) .nil))) := by
  intro h
  have hi : (Gen.attrs Gen.id_SIZE).inquiry = true := by decide
  have hA : refAcc ⟨r, Gen.attrs⟩ (.asg (.var 3) (.intr Gen.id_SIZE
      (.cons (.idxs 0 1 (.cons (.cons (.idx1 1 (.var 2)) (.cons (.lit 10) (.cons (.lit 1) .nil))) .nil)) .nil)))
      = some [⟨3, .write, 0, 0⟩] := by
    simp [refAcc, accS, acc, hi, hr, Expr.isRef, Expr.refVar, changeReadToWrite, project, bumpIf, shift]
  have := (h _ hA ⟨fun _ _ => 0, fun _ _ _ => none, fun _ _ => 0, 0⟩ (MiniF.storeOf []) (2, 0, 0)).1
    (by simp [execT, evalT, lhsT, hi])
  revert this
  decide

/-- With the fix every by-reference argument of an intrinsic statement is reported written. -/
theorem C11_fixed_intrinsic_stmt (k f : Nat) (args : Expr) (A : List Access)
    (h : refAcc fixedCtx (.icall k f args) = some A) (e : Expr)
    (he : e ∈ spineList args) (href : e.isRef = true) (hinq : (Gen.attrs k).inquiry = false) :
    e.refVar ∈ writtenVars A := by
  simp only [refAcc, accS, fixedCtx, fixedRule, bumpIf, Bool.false_eq_true, if_false, if_true,
    Option.map_some, Option.some.injEq, hinq] at h
  subst h
  obtain ⟨a, ha, h1, h2⟩ := spine_elem_recorded ⟨fixedRule, Gen.attrs⟩ .readwrite args 0 0 e he href
  exact mem_writtenVars.mpr ⟨a, ha, h1, by rcases h2 with h2 | h2 <;> (rw [h2]; rfl)⟩

/-- **Calls**: under by-reference argument passing a callee may modify any argument that is a
reference; whenever the rule answers READWRITE for the call (always for the ideal rule; for
the real code: when the routine is not PURE) every such argument is reported written (and
read). -/
theorem C11_call_args_written (c : Ctx) (p : Bool) (mods : Option Nat) (f : Nat) (args : Expr)
    (hrw : c.rule.callRW p true = true) (A : List Access)
    (h : refAcc c (.call p mods f args) = some A) (e : Expr)
    (he : e ∈ spineList args) (href : e.isRef = true) :
    e.refVar ∈ writtenVars A ∧ e.refVar ∈ readVars A := by
  simp only [refAcc, accS, bumpIf, Bool.false_eq_true, if_false, Option.map_some,
    Option.some.injEq, hrw] at h
  subst h
  obtain ⟨a, ha, h1, h2⟩ := spine_elem_recorded c (kindOf true) args _ 0 e he href
  have hk : a.kind = .readwrite := by rcases h2 with h2 | h2 <;> exact h2
  exact ⟨mem_writtenVars.mpr ⟨a, ha, h1, by rw [hk]; rfl⟩, mem_readVars.mpr ⟨a, ha, h1, by rw [hk]; rfl⟩⟩

/-- **Expression CodeBlocks as actual arguments**: a rule that records the names of CodeBlocks
reports the designated variable of a designator CodeBlock (`names(k)(1:3)`) passed to ANY call
statement — pure or not, whatever the declared intents — as written and read. -/
theorem C11_exprcb_arg_written (c : Ctx) (hc : c.rule.cbRW = true) (p : Bool) (mods : Option Nat)
    (f : Nat) (args : Expr) (A : List Access) (h : refAcc c (.call p mods f args) = some A)
    (g : Nat) (names rd : List Nat) (x : Nat) (he : .cb g names rd (some x) ∈ spineList args)
    (hx : x ∈ names) : x ∈ writtenVars A ∧ x ∈ readVars A := by
  simp only [refAcc, accS, bumpIf, Bool.false_eq_true, if_false, Option.map_some,
    Option.some.injEq] at h
  subst h
  obtain ⟨a, ha, h1, hk⟩ := spine_cb_recorded c hc _ args _ 0 g names rd x he hx
  exact ⟨mem_writtenVars.mpr ⟨a, ha, h1, by rw [hk]; rfl⟩, mem_readVars.mpr ⟨a, ha, h1, by rw [hk]; rfl⟩⟩

/-- … the same for an intrinsic subroutine (`call date_and_time(date=stamp(k)(1:8))`). -/
theorem C11_exprcb_intrinsic_arg_written (c : Ctx) (hc : c.rule.cbRW = true) (k f : Nat) (args : Expr)
    (hinq : (c.attrs k).inquiry = false) (A : List Access) (h : refAcc c (.icall k f args) = some A)
    (g : Nat) (names rd : List Nat) (x : Nat) (he : .cb g names rd (some x) ∈ spineList args)
    (hx : x ∈ names) : x ∈ writtenVars A := by
  simp only [refAcc, accS, bumpIf, Bool.false_eq_true, if_false, Option.map_some,
    Option.some.injEq, hinq] at h
  subst h
  obtain ⟨a, ha, h1, hk⟩ := spine_cb_recorded c hc _ args _ 0 g names rd x he hx
  exact mem_writtenVars.mpr ⟨a, ha, h1, by rw [hk]; rfl⟩

/-- … and dynamically: every store a callee makes through an argument is reported — also for
a PURE subroutine defined in the same Container, when the rule uses its declared intents. -/
theorem C11_call_writes (c : Ctx) (hfn : c.rule.callRW false false = true) (p : Bool) (mods : Option Nat)
    (f : Nat) (args : Expr)
    (hrw : c.rule.callRW p true = true ∨ (c.rule.useIntents = true ∧ p = true ∧ mods.isSome = true))
    (hq : okX c args = true)
    (A : List Access) (h : refAcc c (.call p mods f args) = some A)
    (ω : Oracle) (σ : Store) (l : Loc) (hev : Event.wr l ∈ (execT ω c.attrs (.call p mods f args) σ).2) :
    l.1 ∈ writtenVars A := by
  refine C11_writes c hfn _ ?_ (by simpa [okES] using hq) A h ω σ l hev
  simp only [okS, Bool.or_eq_true, Bool.and_eq_true]
  rcases hrw with h | ⟨h1, h2, h3⟩
  · exact Or.inl h
  · exact Or.inr ⟨⟨h1, h2⟩, h3⟩

/-- **Order inside an assignment (static).**  When the collection does not raise, the access
list is `pre ++ [target]`: the target's WRITE is the last access, `pre` consists of the
accesses of the right-hand side followed by those of the target's subscripts, none of the
subscript accesses touches the target variable, and no access has a larger location number
than the target's write.  (Any rule, any table.) -/
theorem C11_order (c : Ctx) (lhs rhs : Expr) (n : Nat) (r : List Access × Nat)
    (h : accS c (.asg lhs rhs) false n = some r) :
    ∃ (idx : List Access) (tgt : Access),
      r.1 = (acc c rhs .val n).1 ++ idx ++ [tgt] ∧
      tgt.var = lhs.refVar ∧ tgt.kind = .write ∧
      (∀ a ∈ idx, a.var ≠ lhs.refVar) ∧
      (∀ a ∈ (acc c rhs .val n).1 ++ idx, a.loc ≤ tgt.loc) := by
  simp only [accS] at h
  split at h
  · rename_i href
    rw [acc_lhs c lhs href] at h
    split at h
    · cases h
    · rename_i left' hl
      cases h
      obtain ⟨rfl, hne⟩ := changeReadToWrite_ref _ _ _ _ _ hl
      refine ⟨(lhsIdx c lhs).1.map (shift (acc c rhs .val n).2),
        shift (acc c rhs .val n).2 ⟨lhs.refVar, .write, (lhsIdx c lhs).2.1, (lhsIdx c lhs).2.2⟩, ?_, rfl, rfl, ?_, ?_⟩
      · simp [bumpIf, List.append_assoc]
      · intro a ha
        obtain ⟨b, hb, rfl⟩ := List.mem_map.mp ha
        exact hne b hb
      · intro a ha
        have hb := acc_bnd c lhs .val 0
        rw [acc_lhs c lhs href] at hb
        rcases List.mem_append.mp ha with h1 | h1
        · have := ((acc_bnd c rhs .val n).2 a h1).2
          simp only [shift]
          omega
        · obtain ⟨b, hb', rfl⟩ := List.mem_map.mp h1
          have := (hb.2 b (List.mem_append_left _ hb')).2
          simp only [shift]
          simp only at this
          omega
  · cases h

/-- Consequently, in the per-variable view that the real `VariablesAccessInfo` stores, the
target's WRITE comes after every READ of the same variable made by the right-hand side:
`a(i) = a(i) + 1` gives `a: READ, WRITE`. -/
theorem C11_order_projected (c : Ctx) (lhs rhs : Expr) (n : Nat) (r : List Access × Nat)
    (h : accS c (.asg lhs rhs) false n = some r) :
    ∃ tgt : Access, tgt.kind = .write ∧
      project r.1 lhs.refVar = project (acc c rhs .val n).1 lhs.refVar ++ [tgt] := by
  obtain ⟨idx, tgt, h1, h2, h3, h4, -⟩ := C11_order c lhs rhs n r h
  refine ⟨tgt, h3, ?_⟩
  rw [h1, project_append, project_append]
  have hi : project idx lhs.refVar = [] := by
    simp only [project, List.filter_eq_nil_iff, beq_iff_eq]
    exact fun a ha => h4 a ha
  have ht : project [tgt] lhs.refVar = [tgt] := by simp [project, h2]
  rw [hi, ht, List.append_nil]

/-- **Order inside an assignment (dynamic).**  The store of the target is the last event:
every read of the right-hand side and of the subscripts (and every side effect of a function
called there) precedes it. -/
theorem C11_order_dynamic (ω : Oracle) (tb : Nat → IAttr) (lhs rhs : Expr) (σ : Store) (l : Loc)
    (hl : (lhsT ω tb lhs (evalT ω tb rhs false σ).st).2.2 = some l) :
    (execT ω tb (.asg lhs rhs) σ).2 =
      (evalT ω tb rhs false σ).ev ++ (lhsT ω tb lhs (evalT ω tb rhs false σ).st).2.1 ++ [.wr l] := by
  simp only [execT, hl]

/-- **Refusal.**  The collection raises (`NotImplementedError`) for an assignment exactly when
the target is not a reference or one of its own subscript expressions accesses the assigned
variable (`g(g(1)) = …`); this does not depend on the right-hand side. -/
theorem C11_refusal_iff (c : Ctx) (lhs rhs : Expr) :
    refAcc c (.asg lhs rhs) = none ↔
      (lhs.isRef = false ∨ ∃ a ∈ (lhsIdx c lhs).1, a.var = lhs.refVar) := by
  simp only [refAcc, Option.map_eq_none_iff, accS]
  cases href : lhs.isRef with
  | false => simp
  | true =>
    simp only [if_true, Bool.true_eq_false, false_or]
    rw [acc_lhs c lhs href]
    have key := changeReadToWrite_ref_iff (lhsIdx c lhs).1 lhs.refVar (lhsIdx c lhs).2.1 (lhsIdx c lhs).2.2
    cases hc : changeReadToWrite ((lhsIdx c lhs).1 ++
        [⟨lhs.refVar, .read, (lhsIdx c lhs).2.1, (lhsIdx c lhs).2.2⟩]) lhs.refVar with
    | none =>
      rw [hc] at key
      simp only [Option.isSome_none, Bool.false_eq_true, false_iff, true_iff] at key ⊢
      by_cases hex : ∃ a ∈ (lhsIdx c lhs).1, a.var = lhs.refVar
      · exact hex
      · exact absurd (fun a ha hv => hex ⟨a, ha, hv⟩) key
    | some L =>
      rw [hc] at key
      simp only [Option.isSome_some, true_iff] at key
      simp only [reduceCtorEq, false_iff]
      rintro ⟨a, ha, hv⟩
      exact key a ha hv

/-- Loops: the loop variable is reported written first and then read; the bounds are read. -/
theorem C11_loop_variable (c : Ctx) (v : Nat) (lo hi st : Expr) (b : Stmt) (A : List Access)
    (h : refAcc c (.loop v lo hi st b) = some A) :
    ∃ rest, A = ⟨v, .write, 0, 0⟩ :: ⟨v, .read, 0, 0⟩ :: rest ∧
      (acc c lo .val 0).1 <+: rest := by
  simp only [refAcc, accS, Option.map_eq_some_iff] at h
  obtain ⟨r, hr, rfl⟩ := h
  split at hr
  · cases hr
  · cases hr
    exact ⟨_, rfl, by simp [List.append_assoc]⟩

/-- DO WHILE: the accesses of the condition come first (condition reads before the body),
then those of the body. -/
theorem C11_while_order (c : Ctx) (cnd : Expr) (b : Stmt) (A : List Access)
    (h : refAcc c (.while cnd b) = some A) : (acc c cnd .val 0).1 <+: A := by
  simp only [refAcc, accS, Option.map_eq_some_iff] at h
  obtain ⟨r, hr, rfl⟩ := h
  split at hr
  · cases hr
  · cases hr
    simp [bumpIf]

/-! ## every `reference_accesses` override of the tree under check is classified -/

/-- the classes that define `reference_accesses` / `get_signature_and_indices` themselves, with how
the model treats them: `true` = modelled (`Node`: the default recursion over the children —
BinaryOperation, UnaryOperation, Range, Literal, Schedule, Return; `Reference` with the ArrayMixin /
StructureReference / Member signature-and-indices rules: `Expr.var/idx1/idx2/idxs`; `Assignment`,
`Call`, `IntrinsicCall`, `CodeBlock`, `IfBlock`, `Loop`, `WhileLoop`: the constructors of the same
name), `false` = outside the model (PSy-layer kernel nodes: their accesses come from kernel
metadata, not from statements of the program). -/
def classifiedOverrides : List (String × Bool) := [
  ("psyclone.domain.lfric.lfric_builtins.LFRicBuiltIn", false),
  ("psyclone.domain.lfric.lfric_kern.LFRicKern", false),
  ("psyclone.gocean1p0.GOKern", false),
  ("psyclone.psyGen.Kern", false),
  ("psyclone.psyir.nodes.assignment.Assignment", true),
  ("psyclone.psyir.nodes.call.Call", true),
  ("psyclone.psyir.nodes.codeblock.CodeBlock", true),
  ("psyclone.psyir.nodes.if_block.IfBlock", true),
  ("psyclone.psyir.nodes.intrinsic_call.IntrinsicCall", true),
  ("psyclone.psyir.nodes.loop.Loop", true),
  ("psyclone.psyir.nodes.node.Node", true),
  ("psyclone.psyir.nodes.reference.Reference", true),
  ("psyclone.psyir.nodes.while_loop.WhileLoop", true)]

def classifiedSigIdx : List String := [
  "psyclone.psyir.nodes.array_mixin.ArrayMixin",
  "psyclone.psyir.nodes.array_of_structures_mixin.ArrayOfStructuresMixin",
  "psyclone.psyir.nodes.member.Member",
  "psyclone.psyir.nodes.reference.Reference",
  "psyclone.psyir.nodes.structure_member.StructureMember",
  "psyclone.psyir.nodes.structure_reference.StructureReference"]

/-- The table translated from the live class hierarchy on every run is exactly the classified one:
a new (or removed) `reference_accesses` / `get_signature_and_indices` override anywhere under
`psyclone.` breaks this obligation until it is modelled or listed as outside the model. -/
theorem C11_overrides_classified :
    Gen.refAccOverrides = classifiedOverrides.map Prod.fst ∧ Gen.sigIdxOverrides = classifiedSigIdx :=
  ⟨rfl, rfl⟩

/-! ## non-vacuity and sanity evaluations -/

/-- `a(i) = a(i) + 1` (a = 0, i = 1): `i` READ, `a` READ, then `i` READ, `a` WRITE -/
example : refAcc fixedCtx (.asg (.idx1 0 (.var 1)) (.bin .add (.idx1 0 (.var 1)) (.lit 1)))
    = some [⟨1, .read, 0, 0⟩, ⟨0, .read, 0, 1⟩, ⟨1, .read, 0, 0⟩, ⟨0, .write, 0, 1⟩] := by decide

/-- `a(a(1)) = 0` raises -/
example : refAcc fixedCtx (.asg (.idx1 0 (.idx1 0 (.lit 1))) (.lit 0)) = none := by decide

/-- `i = size(a, k)` : the inquired array is skipped, `k` is read (SIZE is an inquiry in the
live table) -/
example : refAcc fixedCtx (.asg (.var 1) (.intr Gen.id_SIZE (.cons (.var 0) (.cons (.var 2) .nil))))
    = some [⟨2, .read, 0, 0⟩, ⟨1, .write, 0, 0⟩] := by decide

/-- `n = size(w(idx(j):10))` with the inquiry fix: `j`, `idx` READ -/
example : refAcc fixedCtx (.asg (.var 3) (.intr Gen.id_SIZE
      (.cons (.idxs 0 1 (.cons (.cons (.idx1 1 (.var 2)) (.cons (.lit 10) (.cons (.lit 1) .nil))) .nil)) .nil)))
    = some [⟨2, .read, 0, 0⟩, ⟨1, .read, 0, 1⟩, ⟨3, .write, 0, 0⟩] := by decide

/-- `do i = j, k; a(i) = i; enddo` -/
example : refAcc fixedCtx (.loop 0 (.var 1) (.var 2) (.lit 1) (.asg (.idx1 3 (.var 0)) (.var 0)))
    = some [⟨0, .write, 0, 0⟩, ⟨0, .read, 0, 0⟩, ⟨1, .read, 0, 0⟩, ⟨2, .read, 0, 0⟩,
            ⟨0, .read, 1, 0⟩, ⟨0, .read, 1, 0⟩, ⟨3, .write, 1, 1⟩] := by decide

/-- `do while (i < n); i = i + 1; enddo` (i = 0, n = 1) -/
example : refAcc fixedCtx (.while (.bin .lt (.var 0) (.var 1)) (.asg (.var 0) (.bin .add (.var 0) (.lit 1))))
    = some [⟨0, .read, 0, 0⟩, ⟨1, .read, 0, 0⟩, ⟨0, .read, 1, 0⟩, ⟨0, .write, 1, 0⟩] := by decide

/-- `call sub(a(i), j+1)` : `a` READWRITE first, then `i`, `j` READ -/
example : refAcc fixedCtx (.call false none 0 (.cons (.idx1 0 (.var 1)) (.cons (.bin .add (.var 2) (.lit 1)) .nil)))
    = some [⟨0, .readwrite, 0, 0⟩, ⟨1, .read, 0, 0⟩, ⟨2, .read, 0, 0⟩] := by decide

/-- `call psub(i, j)`, `pure subroutine psub(x, n)` in the same Container with `x` INTENT(OUT),
`n` INTENT(IN) (mask 1): pinned `i: READ`, with the fix `i: READWRITE, j: READ` -/
example : refAcc pinnedCtx (.call true (some 1) 0 (.cons (.var 0) (.cons (.var 1) .nil)))
    = some [⟨0, .read, 0, 0⟩, ⟨1, .read, 0, 0⟩] := by decide
example : refAcc fixedCtx (.call true (some 1) 0 (.cons (.var 0) (.cons (.var 1) .nil)))
    = some [⟨0, .readwrite, 0, 0⟩, ⟨1, .read, 0, 0⟩] := by decide

/-- ALLOCATE(z(1:n), stat=k): pinned READ only, fixed READWRITE -/
example : refAcc pinnedCtx (.icall Gen.id_ALLOCATE 0
      (.cons (.idxs 0 1 (.cons (.cons (.lit 1) (.cons (.var 1) (.cons (.lit 1) .nil))) .nil)) (.cons (.var 2) .nil)))
    = some [⟨1, .read, 0, 0⟩, ⟨0, .read, 0, 1⟩, ⟨2, .read, 0, 0⟩] := by decide
example : refAcc fixedCtx (.icall Gen.id_ALLOCATE 0
      (.cons (.idxs 0 1 (.cons (.cons (.lit 1) (.cons (.var 1) (.cons (.lit 1) .nil))) .nil)) (.cons (.var 2) .nil)))
    = some [⟨0, .readwrite, 0, 0⟩, ⟨1, .read, 0, 0⟩, ⟨2, .readwrite, 0, 0⟩] := by decide

/-- the hypotheses of the partial theorems are satisfiable on a statement with calls, an
intrinsic statement, loops, a RETURN and a variable-free CodeBlock (`exit`) -/
example : noPureUnresolved (.seq (.call true (some 1) 0 (.cons (.var 0) .nil))
    (.loop 1 (.lit 1) (.var 0) (.lit 1) (.seq (.icall Gen.id_RANDOM_NUMBER 1 (.cons (.idx1 2 (.var 1)) .nil))
      (.ifThen (.var 3) (.seq (.opaque 2 [] [] []) .ret))))) = true := by decide
/-- `write(*,*) a(i), n; read(*,*) j` (a = 0, i = 1, n = 2, j = 3) with the CodeBlock fix -/
example : refAcc fixedCtx (.opaque 0 [0, 1, 2, 3] [0, 1, 2] [3])
    = some [⟨0, .readwrite, 0, 0⟩, ⟨1, .readwrite, 0, 0⟩, ⟨2, .readwrite, 0, 0⟩, ⟨3, .readwrite, 0, 0⟩] := by decide
example : okES fixedCtx (.opaque 0 [0, 1, 2, 3] [0, 1, 2] [3]) = true := by decide
example : okES fixed3Ctx (.seq (.call true (some 1) 0 (.cons (.var 0) .nil))
    (.loop 1 (.lit 1) (.var 0) (.lit 1) (.seq (.icall Gen.id_RANDOM_NUMBER 1 (.cons (.idx1 2 (.var 1)) .nil))
      (.ifThen (.var 3) (.seq (.opaque 2 [] [] []) .ret))))) = true := by decide
example : (refAcc fixedCtx (.seq (.call true (some 1) 0 (.cons (.var 0) .nil))
    (.loop 1 (.lit 1) (.var 0) (.lit 1) (.seq (.icall Gen.id_RANDOM_NUMBER 1 (.cons (.idx1 2 (.var 1)) .nil))
      (.ifThen (.var 3) (.seq (.opaque 2 [] [] []) .ret)))))).isSome = true := by decide
example : okES pinnedCtx (.seq (.call false none 0 (.cons (.idxs 0 3 (.cons (.var 1) (.cons (.var 2) (.cons (.var 3) .nil)))) .nil))
    (.asg (.var 4) (.intr Gen.id_SIZE (.cons (.var 5) (.cons (.var 1) .nil))))) = true := by decide
/-- `call update(g(i)%b(j)%x(k))`: the subscripts of ALL components are reported READ -/
example : refAcc fixedCtx (.call false none 0 (.cons (.idxs 0 3 (.cons (.var 1) (.cons (.var 2) (.cons (.var 3) .nil)))) .nil))
    = some [⟨0, .readwrite, 0, 0⟩, ⟨1, .read, 0, 0⟩, ⟨2, .read, 0, 0⟩, ⟨3, .read, 0, 0⟩] := by decide
example : noIntrStmt (.ite (.var 0) (.call false none 0 (.cons (.var 1) .nil)) .skip) = true := by decide

/-- `call fill(names(k)(1:3))` (names = 0, k = 1) at HEAD: every name of the CodeBlock READWRITE -/
example : refAcc fixedCtx (.call false none 0 (.cons (.cb 1 [0, 1] [0, 1] (some 0)) .nil))
    = some [⟨0, .readwrite, 0, 0⟩, ⟨1, .readwrite, 0, 0⟩] := by decide
/-- `if (names(k)(1:1) == c) a(ichar(names(k)(i:i))) = s + ichar(names(k)(2:2))`
(names = 0, k = 1, c = 2, a = 3, i = 4, s = 5): CodeBlocks in a condition, a subscript and the RHS -/
example : refAcc fixedCtx (.ifThen (.bin .eq (.cb 0 [0, 1] [0, 1] (some 0)) (.var 2))
      (.asg (.idx1 3 (.intr Gen.id_ICHAR (.cons (.cb 1 [0, 1, 4, 4] [0, 1, 4] (some 0)) .nil)))
        (.bin .add (.var 5) (.intr Gen.id_ICHAR (.cons (.cb 2 [0, 1] [0, 1] (some 0)) .nil)))))
    = some [⟨0, .readwrite, 0, 0⟩, ⟨1, .readwrite, 0, 0⟩, ⟨2, .read, 0, 0⟩,
            ⟨5, .read, 1, 0⟩, ⟨0, .readwrite, 1, 0⟩, ⟨1, .readwrite, 1, 0⟩,
            ⟨0, .readwrite, 1, 0⟩, ⟨1, .readwrite, 1, 0⟩, ⟨4, .readwrite, 1, 0⟩, ⟨4, .readwrite, 1, 0⟩,
            ⟨3, .write, 1, 1⟩] := by decide
example : okES fixedCtx (.ifThen (.bin .eq (.cb 0 [0, 1] [0, 1] (some 0)) (.var 2))
      (.asg (.idx1 3 (.intr Gen.id_ICHAR (.cons (.cb 1 [0, 1, 4, 4] [0, 1, 4] (some 0)) .nil)))
        (.bin .add (.var 5) (.intr Gen.id_ICHAR (.cons (.cb 2 [0, 1] [0, 1] (some 0)) .nil))))) = true := by decide
example : okES fixedCtx (.seq (.call false none 0 (.cons (.cb 1 [0, 1] [0, 1] (some 0)) .nil))
    (.icall Gen.id_DATE_AND_TIME 2 (.cons (.cb 3 [4, 1] [4, 1] (some 4)) .nil))) = true := by decide
/-- the inquiry of a CodeBlock with sub-string bounds is excluded at HEAD, admitted with the fifth fix -/
example : okES fixedCtx (.asg (.var 3) (.intr Gen.id_LEN (.cons (.cb 0 [0, 1, 2] [0, 1, 2] (some 0)) .nil))) = false := by decide
example : okES fixed5Ctx (.asg (.var 3) (.intr Gen.id_LEN (.cons (.cb 0 [0, 1, 2] [0, 1, 2] (some 0)) .nil))) = true := by decide
example : refAcc fixed5Ctx (.asg (.var 3) (.intr Gen.id_LEN (.cons (.cb 0 [0, 1, 2] [0, 1, 2] (some 0)) .nil)))
    = some [⟨0, .readwrite, 0, 0⟩, ⟨1, .readwrite, 0, 0⟩, ⟨2, .readwrite, 0, 0⟩, ⟨3, .write, 0, 0⟩] := by decide
/-- a dynamic trace: `call fill(names(k)(1:3))` reads `names`, `k` and the callee stores into `names` -/
example : (execT ⟨fun _ _ => 0, fun _ _ _ => some 7, fun _ _ => 0, 0⟩ Gen.attrs
      (.call false none 0 (.cons (.cb 1 [0, 1] [0, 1] (some 0)) .nil)) (MiniF.storeOf [])).2
    = [.rd (0, 0, 0), .rd (1, 0, 0), .wr (0, 0, 0)] := by
  simp [execT, evalT, applyUpd]

/-- the live table: SIZE/LBOUND are inquiries, ALLOCATE / RANDOM_NUMBER are not pure -/
example : (Gen.attrs Gen.id_SIZE).inquiry = true ∧ (Gen.attrs Gen.id_LBOUND).inquiry = true ∧
    (Gen.attrs Gen.id_ALLOCATE).pure = false ∧ (Gen.attrs Gen.id_RANDOM_NUMBER).pure = false ∧
    (Gen.attrs Gen.id_MAX).inquiry = false := by decide

/-- a dynamic trace: `a(i) = a(i) + 1` from `i = 2` reads `i`, `a(2)`, `i`, writes `a(2)` -/
example : (execT ⟨fun _ _ => 0, fun _ _ _ => none, fun _ _ => 0, 0⟩ Gen.attrs
      (.asg (.idx1 0 (.var 1)) (.bin .add (.idx1 0 (.var 1)) (.lit 1)))
      (MiniF.storeOf [((1, 0, 0), 2)])).2
    = [.rd (1, 0, 0), .rd (0, 2, 0), .rd (1, 0, 0), .wr (0, 2, 0)] := by
  simp [execT, evalT, lhsT, MiniF.storeOf, MiniF.Store.set]

end C11
