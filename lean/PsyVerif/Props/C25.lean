import PsyVerif.Model.GOcean
import PsyVerif.Gen.GOBounds
/-! # C25 — GOcean loops visit exactly the configured grid points

Model: `PsyVerif/Model/GOcean.lean`; table: `PsyVerif/Gen/GOBounds.lean` (regenerated from the live
`GOLoop._bounds_lookup` on every run).

Reading of the statement that is formalised here
* "visits exactly the grid points of its region, each once": `C25_visit_exact`, `C25_visit_sorted`
  (⇒ `C25_visit_nodup`), `C25_visit_length` about the generated `do j / do i` nest for ALL integer bounds
  (empty ranges included), and `C25_build_points`: in the generated invoke every kernel is called on
  exactly `visit` of its own loop bounds.
* "never extends beyond the depth-1 halo": `C25_within_halo` — every bound of every populated built-in
  entry lies in `[S-1, E+1]` for every internal range `S ≤ E`.
* "always contains the internal region" — my reading (the statement admits others, e.g. a U-field's
  internal region on an NE grid is `[S..E-1]×[S..E]`, which does not contain `[S..E]²`):
  for every supported offset and grid-point type the `go_all_pts` region contains the `go_internal_pts`
  region of the same offset/type AND the T-point internal region `[S..E]²` (`C25_all_contains_internal`);
  every populated built-in region contains the core `[S..E-1]²` common to all staggerings
  (`C25_builtin_contains_core`).
* "does not change under fusion / OpenMP / OpenACC / extraction": `C25_history_same_points` — any history of
  fusions (validated as the FIXED `GOceanLoopFuseTrans` does), region wrappers and constant-bounds
  switches, applied anywhere, leaves every kernel's point sequence equal to that of the untransformed
  schedule (for the same bounds setting).  The pinned `validate` (no index-offset comparison) violates this:
  `C25_fuse_pinned_counterexample`.
* "does not change under the constant-loop-bounds setting": `C25_const_bounds_same_region` under the
  documented dl_esm_inf convention `hEnv` (hypothesis, trusted base) for kernels whose index offset is the
  grid's, `go_every` kernels and user-defined iteration spaces.  Outside that class the clause is false on
  the pinned code: `C25_any_offset_const_counterexample`, `C25_override_counterexample` (known findings);
  the full statement is `C25_statement`, refuted by `C25_statement_counterexample`. -/
namespace C25

/-! ## helper lemmas: `iter`, `doLoop` -/

theorem mem_iter {α} {x : α} {n : Nat} {v : Int} {f : Int → List α} :
    x ∈ iter n v f ↔ ∃ k : Nat, k < n ∧ x ∈ f (v + k) := by
  induction n generalizing v with
  | zero => simp [iter]
  | succ n ih =>
    simp only [iter, List.mem_append, ih]
    constructor
    · rintro (h | ⟨k, hk, h⟩)
      · exact ⟨0, by omega, by simpa using h⟩
      · refine ⟨k + 1, by omega, ?_⟩
        have : v + 1 + (k : Int) = v + ((k + 1 : Nat) : Int) := by omega
        rw [← this]; exact h
    · rintro ⟨k, hk, h⟩
      cases k with
      | zero => left; simpa using h
      | succ k =>
        right
        refine ⟨k, by omega, ?_⟩
        have : v + 1 + (k : Int) = v + ((k + 1 : Nat) : Int) := by omega
        rw [this]; exact h

theorem mem_doLoop {α} {x : α} {lo hi : Int} {f : Int → List α} :
    x ∈ doLoop lo hi f ↔ ∃ v, lo ≤ v ∧ v ≤ hi ∧ x ∈ f v := by
  unfold doLoop
  rw [mem_iter]
  constructor
  · rintro ⟨k, hk, h⟩
    exact ⟨lo + k, by omega, by omega, h⟩
  · rintro ⟨v, h1, h2, h⟩
    refine ⟨(v - lo).toNat, by omega, ?_⟩
    have : lo + ((v - lo).toNat : Int) = v := by omega
    rw [this]; exact h

theorem iter_filter {α} (p : α → Bool) (n : Nat) (v : Int) (f : Int → List α) :
    (iter n v f).filter p = iter n v (fun x => (f x).filter p) := by
  induction n generalizing v with
  | zero => simp [iter]
  | succ n ih => simp [iter, List.filter_append, ih]

theorem iter_map {α β} (g : α → β) (n : Nat) (v : Int) (f : Int → List α) :
    (iter n v f).map g = iter n v (fun x => (f x).map g) := by
  induction n generalizing v with
  | zero => simp [iter]
  | succ n ih => simp [iter, ih]

theorem iter_congr {α} {n : Nat} {v : Int} {f g : Int → List α} (h : ∀ x, f x = g x) :
    iter n v f = iter n v g := by
  have : f = g := funext h
  rw [this]

theorem iter_nil {α} (n : Nat) (v : Int) : iter n v (fun _ => ([] : List α)) = [] := by
  induction n generalizing v with
  | zero => simp [iter]
  | succ n ih => simp [iter, ih]

theorem iter_length_const {α} {n : Nat} {v : Int} {f : Int → List α} {m : Nat}
    (h : ∀ x, (f x).length = m) : (iter n v f).length = n * m := by
  induction n generalizing v with
  | zero => simp [iter]
  | succ n ih => simp [iter, ih, h, Nat.succ_mul, Nat.add_comm]

theorem iter_pairwise {α} {R : α → α → Prop} {n : Nat} {v : Int} {f : Int → List α}
    (h1 : ∀ x, (f x).Pairwise R)
    (h2 : ∀ x y, x < y → ∀ a ∈ f x, ∀ b ∈ f y, R a b) : (iter n v f).Pairwise R := by
  induction n generalizing v with
  | zero => simp [iter]
  | succ n ih =>
    simp only [iter]
    rw [List.pairwise_append]
    refine ⟨h1 v, ih, ?_⟩
    intro a ha b hb
    obtain ⟨k, _, hk⟩ := mem_iter.mp hb
    exact h2 v (v + 1 + k) (by omega) a ha b hk

/-- order of the calls: `j` outer, `i` inner -/
def callBefore (a b : Int × Int) : Prop := a.2 < b.2 ∨ (a.2 = b.2 ∧ a.1 < b.1)

/-! ## helper lemmas: sound syntactic comparisons of bounds (lifting `decide` over the table to all grids) -/

/-- `b` lies in `[S-1, E+1]` for all `S ≤ E` -/
def Bnd.inHalo (b : Bnd) : Bool :=
  match b.base with
  | .lit => false
  | .start => decide (-1 ≤ b.off ∧ b.off ≤ 1)
  | .stop => decide (-1 ≤ b.off ∧ b.off ≤ 1)

theorem Bnd.inHalo_sound {b : Bnd} (h : b.inHalo = true) (S E : Int) (hSE : S ≤ E) :
    S - 1 ≤ b.eval S E ∧ b.eval S E ≤ E + 1 := by
  obtain ⟨base, off⟩ := b
  cases base <;> simp [Bnd.inHalo, Bnd.eval] at h ⊢ <;> omega

/-- `a ≤ b` for all `S ≤ E` -/
def Bnd.le (a b : Bnd) : Bool :=
  match a.base, b.base with
  | .start, .start => decide (a.off ≤ b.off)
  | .stop, .stop => decide (a.off ≤ b.off)
  | .start, .stop => decide (a.off ≤ b.off)
  | .lit, .lit => decide (a.off ≤ b.off)
  | _, _ => false

theorem Bnd.le_sound {a b : Bnd} (h : a.le b = true) (S E : Int) (hSE : S ≤ E) :
    a.eval S E ≤ b.eval S E := by
  obtain ⟨ab, ao⟩ := a
  obtain ⟨bb, bo⟩ := b
  cases ab <;> cases bb <;> simp [Bnd.le, Bnd.eval] at h ⊢ <;> omega

def Entry.inHalo (e : Entry) : Bool := e.oLo.inHalo && e.oHi.inHalo && e.iLo.inHalo && e.iHi.inHalo

/-- region of `a` ⊆ region of `b` for all grids -/
def Entry.sub (a b : Entry) : Bool := b.oLo.le a.oLo && a.oHi.le b.oHi && b.iLo.le a.iLo && a.iHi.le b.iHi

def Rect.sub (a b : Rect) : Prop := b.jlo ≤ a.jlo ∧ a.jhi ≤ b.jhi ∧ b.ilo ≤ a.ilo ∧ a.ihi ≤ b.ihi

theorem Entry.sub_sound {a b : Entry} (h : a.sub b = true) (Sx Ex Sy Ey : Int) (hx : Sx ≤ Ex) (hy : Sy ≤ Ey) :
    (a.region Sx Ex Sy Ey).sub (b.region Sx Ex Sy Ey) := by
  simp only [Entry.sub, Bool.and_eq_true] at h
  obtain ⟨⟨⟨h1, h2⟩, h3⟩, h4⟩ := h
  exact ⟨Bnd.le_sound h1 _ _ hy, Bnd.le_sound h2 _ _ hy, Bnd.le_sound h3 _ _ hx, Bnd.le_sound h4 _ _ hx⟩

/-- the T-point internal region `[S..E]²` and the core `[S..E-1]²` as table entries -/
def internalT : Entry := ⟨⟨.start, 0⟩, ⟨.stop, 0⟩, ⟨.start, 0⟩, ⟨.stop, 0⟩⟩
def coreEntry : Entry := ⟨⟨.start, 0⟩, ⟨.stop, -1⟩, ⟨.start, 0⟩, ⟨.stop, -1⟩⟩

theorem tfind_mem {t : Table} {k : Key} {e : Option Entry} (h : tfind t k = some e) : (k, e) ∈ t := by
  induction t with
  | nil => simp [tfind] at h
  | cons x r ih =>
    obtain ⟨k', e'⟩ := x
    simp only [tfind] at h
    split at h
    · rename_i hk; cases h; subst hk; simp
    · exact List.mem_cons_of_mem _ (ih h)

/-! ## helper lemmas: schedules -/

def isK (id : Nat) : Call → Bool := fun c => c.1 == id

section sched
variable (t : Table) (env : Env)

theorem exec_ofList_cons (cb : Bool) (n : Node) (r : List Node) (i j : Int) :
    exec t env cb (ofList (n :: r)) i j = exec t env cb n i j ++ exec t env cb (ofList r) i j := by
  simp [ofList, exec]

theorem exec_ofList_append (cb : Bool) (xs ys : List Node) (i j : Int) :
    exec t env cb (ofList (xs ++ ys)) i j = exec t env cb (ofList xs) i j ++ exec t env cb (ofList ys) i j := by
  induction xs with
  | nil => simp [ofList, exec]
  | cons x r ih => simp [ofList, exec, ih]

theorem exec_ofList_children (cb : Bool) (n : Node) (i j : Int) :
    exec t env cb (ofList (children n)) i j = exec t env cb n i j := by
  induction n generalizing i j with
  | skip => simp [children, ofList, exec]
  | seq a b iha ihb => simp [children, exec_ofList_append, iha, ihb, exec]
  | kern id => simp [children, ofList, exec]
  | loop o k body _ => simp [children, ofList, exec]
  | wrap tag body _ => simp [children, ofList, exec]

theorem kernIds_ofList_cons (n : Node) (r : List Node) :
    kernIds (ofList (n :: r)) = kernIds n ++ kernIds (ofList r) := by
  simp [ofList, kernIds]

theorem kernIds_ofList_append (xs ys : List Node) :
    kernIds (ofList (xs ++ ys)) = kernIds (ofList xs) ++ kernIds (ofList ys) := by
  induction xs with
  | nil => simp [ofList, kernIds]
  | cons x r ih => simp [ofList, kernIds, ih]

theorem kernIds_ofList_children (n : Node) : kernIds (ofList (children n)) = kernIds n := by
  induction n with
  | skip => simp [children, ofList, kernIds]
  | seq a b iha ihb => simp [children, kernIds_ofList_append, iha, ihb, kernIds]
  | kern id => simp [children, ofList, kernIds]
  | loop o k body _ => simp [children, ofList, kernIds]
  | wrap tag body _ => simp [children, ofList, kernIds]

theorem filter_exec_nil (cb : Bool) (id : Nat) (n : Node) (h : id ∉ kernIds n) (i j : Int) :
    (exec t env cb n i j).filter (isK id) = [] := by
  induction n generalizing i j with
  | skip => simp [exec]
  | seq a b iha ihb =>
    simp only [kernIds, List.mem_append, not_or] at h
    simp [exec, List.filter_append, iha h.1, ihb h.2]
  | kern id' =>
    simp only [kernIds, List.mem_singleton] at h
    simp [exec, isK]
    exact fun h' => h h'.symm
  | loop o k body ih =>
    simp only [kernIds] at h
    simp only [exec]
    split
    · simp
    · split
      · unfold doLoop
        rw [iter_filter, iter_congr (fun v => ih h i v), iter_nil]
      · unfold doLoop
        rw [iter_filter, iter_congr (fun v => ih h v j), iter_nil]
  | wrap tag body ih =>
    simp only [kernIds] at h
    simpa [exec] using ih h i j

/-- the two schedules call kernel `id` on the same point sequence, whatever the bounds setting and the
values of `i`, `j` on entry -/
def PKid (id : Nat) (a b : Node) : Prop :=
  ∀ cb i j, (exec t env cb a i j).filter (isK id) = (exec t env cb b i j).filter (isK id)

def PK (a b : Node) : Prop := ∀ id, PKid t env id a b

theorem PKid.refl (id : Nat) (a : Node) : PKid t env id a a := fun _ _ _ => rfl

theorem PKid.trans {id : Nat} {a b c : Node} (h1 : PKid t env id a b) (h2 : PKid t env id b c) :
    PKid t env id a c := fun cb i j => (h1 cb i j).trans (h2 cb i j)

theorem PKid.symm {id : Nat} {a b : Node} (h : PKid t env id a b) : PKid t env id b a :=
  fun cb i j => (h cb i j).symm

theorem PK.refl (a : Node) : PK t env a a := fun id => PKid.refl t env id a

theorem PK.trans {a b c : Node} (h1 : PK t env a b) (h2 : PK t env b c) : PK t env a c :=
  fun id => PKid.trans t env (h1 id) (h2 id)

theorem PKid_loop {id : Nat} {b b' : Node} (o : Bool) (k : Key) (h : PKid t env id b b') :
    PKid t env id (.loop o k b) (.loop o k b') := by
  intro cb i j
  simp only [exec]
  split
  · rfl
  · split
    · unfold doLoop
      rw [iter_filter, iter_filter, iter_congr (fun v => h cb i v)]
    · unfold doLoop
      rw [iter_filter, iter_filter, iter_congr (fun v => h cb v j)]

theorem PKid_wrap {id : Nat} {b b' : Node} (tag : Nat) (h : PKid t env id b b') :
    PKid t env id (.wrap tag b) (.wrap tag b') := by
  intro cb i j
  simpa [exec] using h cb i j

theorem PKid_seq {id : Nat} {a a' b b' : Node} (h1 : PKid t env id a a') (h2 : PKid t env id b b') :
    PKid t env id (.seq a b) (.seq a' b') := by
  intro cb i j
  simp [exec, List.filter_append, h1 cb i j, h2 cb i j]

theorem PK_children (n : Node) : PK t env n (ofList (children n)) :=
  fun _ cb i j => by rw [exec_ofList_children]

theorem PKid_set {id : Nat} (cs : List Node) (c : Nat) (x x' : Node) (hc : cs[c]? = some x)
    (h : PKid t env id x x') : PKid t env id (ofList cs) (ofList (cs.set c x')) := by
  induction cs generalizing c with
  | nil => simp at hc
  | cons n r ih =>
    cases c with
    | zero =>
      simp at hc; subst hc
      simpa [ofList] using PKid_seq t env h (PKid.refl t env id _)
    | succ c =>
      simp at hc
      simpa [ofList] using PKid_seq t env (PKid.refl t env id _) (ih c hc)

theorem kernIds_set (cs : List Node) (c : Nat) (x x' : Node) (hc : cs[c]? = some x)
    (h : kernIds x' = kernIds x) : kernIds (ofList (cs.set c x')) = kernIds (ofList cs) := by
  induction cs generalizing c with
  | nil => simp at hc
  | cons n r ih =>
    cases c with
    | zero => simp at hc; subst hc; simp [ofList, kernIds, h]
    | succ c => simp at hc; simp [ofList, kernIds, ih c hc]

theorem nodup_child (cs : List Node) (c : Nat) (x : Node) (hc : cs[c]? = some x)
    (h : (kernIds (ofList cs)).Nodup) : (kernIds x).Nodup := by
  induction cs generalizing c with
  | nil => simp at hc
  | cons n r ih =>
    rw [kernIds_ofList_cons] at h
    cases c with
    | zero => simp at hc; subst hc; exact (List.nodup_append.mp h).1
    | succ c => simp at hc; exact ih c hc (List.nodup_append.mp h).2.1

/-- an edit of a statement list that keeps the kernels and each kernel's point sequence -/
def ListOK (f : List Node → Option (List Node)) : Prop :=
  ∀ cs cs', f cs = some cs' →
    kernIds (ofList cs') = kernIds (ofList cs) ∧
    ((kernIds (ofList cs)).Nodup → PK t env (ofList cs) (ofList cs'))

theorem modifyAt_ok {f : List Node → Option (List Node)} (hf : ListOK t env f) :
    ∀ (path : List Nat) (n n' : Node), modifyAt path f n = some n' →
      kernIds n' = kernIds n ∧ ((kernIds n).Nodup → PK t env n n') := by
  intro path
  induction path with
  | nil =>
    intro n n' h
    simp only [modifyAt, Option.map_eq_some_iff] at h
    obtain ⟨cs', hcs, rfl⟩ := h
    have := hf _ _ hcs
    rw [kernIds_ofList_children] at this
    exact ⟨this.1, fun hn => PK.trans t env (PK_children t env n) (this.2 hn)⟩
  | cons c rest ih =>
    intro n n' h
    simp only [modifyAt] at h
    split at h
    · rename_i o k body hc
      simp only [Option.map_eq_some_iff] at h
      obtain ⟨b', hb', rfl⟩ := h
      have hb := ih body b' hb'
      refine ⟨?_, fun hn => ?_⟩
      · rw [kernIds_set (children n) c _ _ hc (by simpa [kernIds] using hb.1), kernIds_ofList_children]
      · have hn' : (kernIds (ofList (children n))).Nodup := by rw [kernIds_ofList_children]; exact hn
        have hbody : (kernIds body).Nodup := by
          have := nodup_child (children n) c _ hc hn'
          simpa [kernIds] using this
        refine PK.trans t env (PK_children t env n) (fun id => ?_)
        exact PKid_set t env (children n) c _ _ hc (PKid_loop t env o k (hb.2 hbody id))
    · rename_i tag body hc
      simp only [Option.map_eq_some_iff] at h
      obtain ⟨b', hb', rfl⟩ := h
      have hb := ih body b' hb'
      refine ⟨?_, fun hn => ?_⟩
      · rw [kernIds_set (children n) c _ _ hc (by simpa [kernIds] using hb.1), kernIds_ofList_children]
      · have hn' : (kernIds (ofList (children n))).Nodup := by rw [kernIds_ofList_children]; exact hn
        have hbody : (kernIds body).Nodup := by
          have := nodup_child (children n) c _ hc hn'
          simpa [kernIds] using this
        refine PK.trans t env (PK_children t env n) (fun id => ?_)
        exact PKid_set t env (children n) c _ _ hc (PKid_wrap t env tag (hb.2 hbody id))
    · simp at h

/-- regions are serially transparent -/
theorem wrapAt_ok (tag p len : Nat) : ListOK t env (wrapAt tag p len) := by
  intro cs cs' h
  simp only [wrapAt] at h
  split at h
  · simp at h
  · rename_i hlen
    simp only [Option.some.injEq] at h
    subst h
    have hsplit : cs = cs.take p ++ ((cs.drop p).take len ++ cs.drop (p + len)) := by
      rw [← List.drop_drop, List.take_append_drop, List.take_append_drop]
    constructor
    · conv => rhs; rw [hsplit]
      simp [kernIds_ofList_append, ofList, kernIds]
    · intro _ id cb i j
      conv => lhs; rw [hsplit]
      simp [exec_ofList_append, ofList, exec]

theorem fuseValid_eq {o1 o2 : Bool} {k1 k2 : Key} (h : fuseValid o1 k1 o2 k2 = true) : o1 = o2 ∧ k1 = k2 := by
  obtain ⟨a1, b1, c1⟩ := k1
  obtain ⟨a2, b2, c2⟩ := k2
  simp [fuseValid] at h
  simp [h]

/-- fusing two loops with the same bounds whose bodies call different kernels -/
theorem fuse_PK (o : Bool) (k : Key) (b1 b2 : Node)
    (hd : ∀ id, id ∈ kernIds b1 → id ∉ kernIds b2) (id : Nat) :
    PKid t env id (.seq (.loop o k b1) (.loop o k b2)) (.loop o k (.seq b1 b2)) := by
  by_cases h2 : id ∈ kernIds b2
  · have h1 : id ∉ kernIds b1 := fun h => hd id h h2
    have hb : PKid t env id (.seq b1 b2) b2 := by
      intro cb i j; simp [exec, List.filter_append, filter_exec_nil t env cb id b1 h1]
    have hl := PKid_loop t env o k hb
    intro cb i j
    rw [hl cb i j]
    simp only [exec, List.filter_append]
    have := filter_exec_nil t env cb id (.loop o k b1) (by simpa [kernIds] using h1) i j
    simp only [exec] at this
    rw [this]; simp
  · have hb : PKid t env id (.seq b1 b2) b1 := by
      intro cb i j; simp [exec, List.filter_append, filter_exec_nil t env cb id b2 h2]
    have hl := PKid_loop t env o k hb
    intro cb i j
    rw [hl cb i j]
    simp only [exec, List.filter_append]
    have := filter_exec_nil t env cb id (.loop o k b2) (by simpa [kernIds] using h2) i j
    simp only [exec] at this
    rw [this]; simp

theorem fuseAt_ok (p : Nat) : ListOK t env (fuseAt fuseValid p) := by
  intro cs
  induction cs generalizing p with
  | nil => intro cs' h; simp [fuseAt] at h
  | cons n r ih =>
    intro cs' h
    cases p with
    | zero =>
      simp only [fuseAt] at h
      split at h
      · rename_i o1 k1 b1 o2 k2 b2 r'
        split at h
        · rename_i hv
          obtain ⟨rfl, rfl⟩ := fuseValid_eq hv
          simp only [Option.some.injEq] at h
          subst h
          constructor
          · simp [ofList, kernIds, List.append_assoc]
          · intro hn id
            have hd : ∀ id, id ∈ kernIds b1 → id ∉ kernIds b2 := by
              simp only [ofList, kernIds] at hn
              intro id h1 h2
              have := (List.nodup_append.mp hn).2.2 id h1 id (List.mem_append_left _ h2)
              exact this rfl
            have hf := fuse_PK t env o1 k1 b1 b2 hd id
            intro cb i j
            have := hf cb i j
            simp only [ofList, exec, List.filter_append] at this ⊢
            rw [← List.append_assoc, this]
        · simp at h
      · simp at h
    | succ p =>
      simp only [fuseAt, Option.map_eq_some_iff] at h
      obtain ⟨r', hr, rfl⟩ := h
      have := ih p r' hr
      constructor
      · simp [kernIds_ofList_cons, this.1]
      · intro hn id
        rw [kernIds_ofList_cons] at hn
        have h2 := this.2 (List.nodup_append.mp hn).2.1 id
        simpa [ofList] using PKid_seq t env (PKid.refl t env id n) h2

theorem step_ok (s s' : Sched) (st : Step) (h : step fuseValid t s st = some s') :
    kernIds s'.root = kernIds s.root ∧ ((kernIds s.root).Nodup → PK t env s.root s'.root) := by
  cases st with
  | fuse path p =>
    simp only [step, Option.map_eq_some_iff] at h
    obtain ⟨r, hr, rfl⟩ := h
    exact modifyAt_ok t env (fuseAt_ok t env p) path _ _ hr
  | wrap tag path p len =>
    simp only [step, Option.map_eq_some_iff] at h
    obtain ⟨r, hr, rfl⟩ := h
    exact modifyAt_ok t env (wrapAt_ok t env tag p len) path _ _ hr
  | const =>
    simp only [step] at h
    split at h
    · cases h; exact ⟨rfl, fun _ => PK.refl t env _⟩
    · simp at h

theorem runSteps_ok (steps : List Step) : ∀ s : Sched,
    kernIds (runSteps fuseValid t s steps).1.root = kernIds s.root ∧
    ((kernIds s.root).Nodup → PK t env s.root (runSteps fuseValid t s steps).1.root) := by
  induction steps with
  | nil => intro s; exact ⟨rfl, fun _ => PK.refl t env _⟩
  | cons st r ih =>
    intro s
    simp only [runSteps]
    split
    · rename_i s' hs
      have h1 := step_ok t env s s' st hs
      have h2 := ih s'
      exact ⟨h2.1.trans h1.1, fun hn => PK.trans t env (h1.2 hn) (h2.2 (h1.1 ▸ hn))⟩
    · exact ih s

end sched

theorem kernIds_buildFrom (a : Nat) (ks : List Key) :
    kernIds (ofList (buildFrom a ks)) = List.range' a ks.length := by
  induction ks generalizing a with
  | nil => simp [buildFrom, ofList, kernIds]
  | cons k r ih => simp [buildFrom, ofList, kernIds, nest, ih, List.range'_succ]

theorem perKernel_append (id : Nat) (xs ys : List Call) :
    perKernel id (xs ++ ys) = perKernel id xs ++ perKernel id ys := by
  simp [perKernel, List.filter_append]

/-- the calls made by the untransformed nest of kernel `id` -/
theorem perKernel_nest_self (t : Table) (env : Env) (cb : Bool) (id : Nat) (k : Key) (i j : Int) :
    perKernel id (exec t env cb (nest id k) i j) =
      match bounds t env cb k true, bounds t env cb k false with
      | some (jl, jh), some (il, ih) => visit jl jh il ih
      | _, _ => [] := by
  simp only [nest, exec, perKernel, List.append_nil]
  cases ho : bounds t env cb k true with
  | none => simp
  | some po =>
    obtain ⟨jl, jh⟩ := po
    cases hi : bounds t env cb k false with
    | none => simp [doLoop, iter_nil]
    | some pi =>
      obtain ⟨il, ih⟩ := pi
      simp only [if_true, visit, doLoop, Bool.false_eq_true, if_false]
      rw [iter_filter, iter_map]
      apply iter_congr
      intro v
      rw [iter_filter, iter_map]
      apply iter_congr
      intro u
      simp

theorem perKernel_nil_of_not_mem (t : Table) (env : Env) (cb : Bool) (id : Nat) (n : Node)
    (h : id ∉ kernIds n) (i j : Int) : perKernel id (exec t env cb n i j) = [] := by
  have := filter_exec_nil t env cb id n h i j
  unfold isK at this
  unfold perKernel
  rw [this]; rfl

theorem perKernel_buildFrom (t : Table) (env : Env) (cb : Bool) (i j : Int) (ks : List Key) :
    ∀ (a n : Nat) (k : Key), ks[n]? = some k →
      perKernel (a + n) (exec t env cb (ofList (buildFrom a ks)) i j) =
        match bounds t env cb k true, bounds t env cb k false with
        | some (jl, jh), some (il, ih) => visit jl jh il ih
        | _, _ => [] := by
  induction ks with
  | nil => intro a n k h; simp at h
  | cons k0 r ih =>
    intro a n k h
    simp only [buildFrom, exec_ofList_cons, perKernel_append]
    cases n with
    | zero =>
      simp at h; subst h
      rw [Nat.add_zero, perKernel_nest_self]
      rw [perKernel_nil_of_not_mem t env cb a (ofList (buildFrom (a + 1) r))
        (by rw [kernIds_buildFrom]; simp [List.mem_range']; intro x _; omega) i j]
      simp
    | succ n =>
      simp at h
      rw [perKernel_nil_of_not_mem t env cb (a + (n + 1)) (nest a k0) (by simp [nest, kernIds]) i j]
      have := ih (a + 1) n k h
      rw [show a + 1 + n = a + (n + 1) by omega] at this
      simpa using this

/-! ## The property -/

/-- the translator could express every bound of the live table in the `base ± k` grammar -/
theorem C25_table_parsed : Gen.unparsed = [] := by decide

/-! ### the generated nest visits exactly the product of the two ranges, once, in `j`-outer order -/

theorem C25_visit_exact (jl jh il ih i j : Int) :
    (i, j) ∈ visit jl jh il ih ↔ (jl ≤ j ∧ j ≤ jh) ∧ (il ≤ i ∧ i ≤ ih) := by
  unfold visit
  simp only [mem_doLoop, List.mem_singleton, Prod.mk.injEq]
  constructor
  · rintro ⟨v, h1, h2, u, h3, h4, rfl, rfl⟩
    exact ⟨⟨h1, h2⟩, h3, h4⟩
  · rintro ⟨⟨h1, h2⟩, h3, h4⟩
    exact ⟨j, h1, h2, i, h3, h4, rfl, rfl⟩

theorem C25_visit_sorted (jl jh il ih : Int) : (visit jl jh il ih).Pairwise callBefore := by
  unfold visit doLoop
  apply iter_pairwise
  · intro j
    apply iter_pairwise
    · intro i; simp
    · intro x y hxy a ha b hb
      simp only [List.mem_singleton] at ha hb
      subst ha hb
      right; exact ⟨rfl, hxy⟩
  · intro x y hxy a ha b hb
    obtain ⟨_, _, ha⟩ := mem_iter.mp ha
    obtain ⟨_, _, hb⟩ := mem_iter.mp hb
    simp only [List.mem_singleton] at ha hb
    subst ha hb
    left; exact hxy

theorem C25_visit_nodup (jl jh il ih : Int) : (visit jl jh il ih).Nodup := by
  refine (C25_visit_sorted jl jh il ih).imp ?_
  intro a b h hab
  subst hab
  rcases h with h | ⟨_, h⟩ <;> omega

theorem C25_visit_length (jl jh il ih : Int) :
    (visit jl jh il ih).length = (jh + 1 - jl).toNat * (ih + 1 - il).toNat := by
  unfold visit doLoop
  apply iter_length_const
  intro j
  have := @iter_length_const (Int × Int) (ih + 1 - il).toNat il (fun i => [(i, j)]) 1 (by simp)
  simpa using this

/-- empty ranges: nothing is visited -/
theorem C25_visit_empty (jl jh il ih : Int) (h : jh < jl ∨ ih < il) : visit jl jh il ih = [] := by
  apply List.eq_nil_of_length_eq_zero
  rw [C25_visit_length]
  rcases h with h | h
  · have : (jh + 1 - jl).toNat = 0 := by omega
    simp [this]
  · have : (ih + 1 - il).toNat = 0 := by omega
    simp [this]

example : visit 1 2 4 6 = [(4, 1), (5, 1), (6, 1), (4, 2), (5, 2), (6, 2)] := by decide
example : visit 3 2 4 6 = [] := by decide

/-! ### table invariants, for every grid size -/

theorem C25_within_halo (k : Key) (e : Entry) (h : tfind Gen.table k = some (some e))
    (S E : Int) (hSE : S ≤ E) (b : Bnd) (hb : b = e.oLo ∨ b = e.oHi ∨ b = e.iLo ∨ b = e.iHi) :
    S - 1 ≤ b.eval S E ∧ b.eval S E ≤ E + 1 := by
  have hall : Gen.table.all (fun x => match x.2 with | none => true | some e => e.inHalo) = true := by decide
  have := List.all_eq_true.mp hall _ (tfind_mem h)
  simp only [Entry.inHalo, Bool.and_eq_true] at this
  obtain ⟨⟨⟨h1, h2⟩, h3⟩, h4⟩ := this
  rcases hb with rfl | rfl | rfl | rfl
  · exact Bnd.inHalo_sound h1 S E hSE
  · exact Bnd.inHalo_sound h2 S E hSE
  · exact Bnd.inHalo_sound h3 S E hSE
  · exact Bnd.inHalo_sound h4 S E hSE

/-- decidable form of `C25_all_contains_internal` over the table -/
def allContainsInternalCheck (t : Table) (offs pts : List Nat) : Bool :=
  offs.all fun off => pts.all fun pt =>
    match tfind t ⟨off, pt, itsAll⟩, tfind t ⟨off, pt, itsInternal⟩ with
    | some (some a), some (some i) => i.sub a && internalT.sub a
    | _, _ => false

theorem C25_all_contains_internal (off pt : Nat) (ho : off ∈ Gen.supportedOffsets) (hp : pt ∈ Gen.fieldGridTypes) :
    ∃ a i, tfind Gen.table ⟨off, pt, itsAll⟩ = some (some a) ∧
           tfind Gen.table ⟨off, pt, itsInternal⟩ = some (some i) ∧
           ∀ Sx Ex Sy Ey : Int, Sx ≤ Ex → Sy ≤ Ey →
             (i.region Sx Ex Sy Ey).sub (a.region Sx Ex Sy Ey) ∧
             (internalT.region Sx Ex Sy Ey).sub (a.region Sx Ex Sy Ey) := by
  have hall : allContainsInternalCheck Gen.table Gen.supportedOffsets Gen.fieldGridTypes = true := by decide
  have := List.all_eq_true.mp (List.all_eq_true.mp hall off ho) pt hp
  split at this
  · rename_i a i ha hi
    simp only [Bool.and_eq_true] at this
    exact ⟨a, i, ha, hi, fun Sx Ex Sy Ey hx hy =>
      ⟨Entry.sub_sound this.1 _ _ _ _ hx hy, Entry.sub_sound this.2 _ _ _ _ hx hy⟩⟩
  · simp at this

theorem C25_builtin_contains_core (k : Key) (e : Entry) (h : tfind Gen.table k = some (some e))
    (Sx Ex Sy Ey : Int) (hx : Sx ≤ Ex) (hy : Sy ≤ Ey) :
    (coreEntry.region Sx Ex Sy Ey).sub (e.region Sx Ex Sy Ey) := by
  have hall : Gen.table.all (fun x => match x.2 with | none => true | some e => coreEntry.sub e) = true := by decide
  have := List.all_eq_true.mp hall _ (tfind_mem h)
  exact Entry.sub_sound this _ _ _ _ hx hy

/-- non-vacuity: the table has populated entries, and the invariants are not trivially true of any entry -/
example : tfind Gen.table ⟨0, 0, 1⟩ = some (some ⟨⟨.start, 0⟩, ⟨.stop, 0⟩, ⟨.start, 0⟩, ⟨.stop, -1⟩⟩) := by decide
example : (⟨⟨.start, -2⟩, ⟨.stop, 0⟩, ⟨.start, 0⟩, ⟨.stop, 0⟩⟩ : Entry).inHalo = false := by decide
example : internalT.sub ⟨⟨.start, 0⟩, ⟨.stop, 0⟩, ⟨.start, 0⟩, ⟨.stop, -1⟩⟩ = false := by decide

/-! ### empty table entries lead to a refusal -/

theorem C25_empty_entry_refused (t : Table) (env : Env) (k : Key) (outer : Bool)
    (h : tfind t k = some none ∨ tfind t k = none) :
    constBounds t env k outer = none ∧
    (k.pt ≠ ptEvery → k.its ≠ itsInternal → k.its ≠ itsAll → fieldBounds t env k outer = none) := by
  constructor
  · rcases h with h | h <;> simp [constBounds, h]
  · intro h1 h2 h3
    rcases h with h | h <;> simp [fieldBounds, h1, h2, h3, h]

/-- the eight `go_external_pts` holes of the live table, and what the construction does with them -/
example : tfind Gen.table ⟨offNE, 0, itsExternal⟩ = some none := by decide
example : buildChecked Gen.table Gen.validIteratesOver [⟨offNE, 0, itsExternal⟩] = .generationError := by
  decide
example : buildChecked Gen.table Gen.validIteratesOver [⟨offNE, 0, 7⟩] = .parseError := by decide

/-! ### every kernel of the generated invoke is called on exactly the points of its own loop bounds -/

theorem C25_build_points (t : Table) (env : Env) (cb : Bool) (ks : List Key) (n : Nat) (k : Key)
    (hk : ks[n]? = some k) (i j : Int) :
    perKernel n (exec t env cb (build ks) i j) =
      match bounds t env cb k true, bounds t env cb k false with
      | some (jl, jh), some (il, ih) => visit jl jh il ih
      | _, _ => [] := by
  have := perKernel_buildFrom t env cb i j ks 0 n k hk
  simpa [build] using this

example : perKernel 1 (exec Gen.table (hEnv offNE 4 3) false (build [⟨offNE, 2, itsAll⟩, ⟨offNE, 0, itsInternal⟩]) 0 0)
    = [(2, 2), (3, 2), (2, 3), (3, 3)] := by decide

/-! ### fusion, OpenMP/OpenACC/extraction regions and the constant-bounds switch keep every kernel's points -/

/-- Any history of transformations (refused ones leave the schedule unchanged), applied to the invoke of
any kernel list under any table and any run-time environment: each kernel is still called on the point
sequence of the untransformed schedule (evaluated with the same bounds setting `cb`). -/
theorem C25_history_same_points (t : Table) (env : Env) (ks : List Key) (steps : List Step)
    (cb : Bool) (id : Nat) (i j : Int) :
    perKernel id (exec t env cb (runSteps fuseValid t ⟨false, build ks⟩ steps).1.root i j) =
    perKernel id (exec t env cb (build ks) i j) := by
  have h := runSteps_ok t env steps ⟨false, build ks⟩
  have hn : (kernIds (build ks)).Nodup := by
    rw [build, kernIds_buildFrom]; exact List.nodup_range'
  have := (h.2 hn id cb i j).symm
  unfold isK at this
  unfold perKernel
  rw [this]

/-- `fuse_same_points` in isolation: two adjacent loops accepted by the (fixed) validation -/
theorem C25_fuse_same_points (t : Table) (env : Env) (o1 o2 : Bool) (k1 k2 : Key) (b1 b2 : Node)
    (hv : fuseValid o1 k1 o2 k2 = true) (hd : ∀ id, id ∈ kernIds b1 → id ∉ kernIds b2)
    (cb : Bool) (id : Nat) (i j : Int) :
    perKernel id (exec t env cb (.loop o1 k1 (.seq b1 b2)) i j) =
    perKernel id (exec t env cb (.seq (.loop o1 k1 b1) (.loop o2 k2 b2)) i j) := by
  obtain ⟨rfl, rfl⟩ := fuseValid_eq hv
  have := (fuse_PK t env o1 k1 b1 b2 hd id cb i j).symm
  unfold isK at this
  unfold perKernel
  rw [this]

/-- non-vacuity: a history with two accepted fusions, a region and the constant-bounds switch -/
example : (runSteps fuseValid Gen.table ⟨false, build [⟨0, 0, 1⟩, ⟨0, 0, 1⟩]⟩
    [.fuse [] 0, .fuse [0] 0, .wrap 1 [] 0 1, .const, .fuse [] 0]).2 = [true, true, true, true, false] := by
  decide

/-- The PINNED `GOceanLoopFuseTrans.validate` does not compare index offsets: with constant loop bounds a
`go_offset_any` and a `go_offset_ne` kernel on U points are fused although their bounds differ, and the
second kernel is then called outside its region. -/
theorem C25_fuse_pinned_counterexample :
    let ks : List Key := [⟨offAny, 0, itsInternal⟩, ⟨offNE, 0, itsInternal⟩]
    let steps : List Step := [.const, .fuse [] 0, .fuse [0] 0]
    let env := hEnv offNE 4 4
    (runSteps fuseValidPinned Gen.table ⟨false, build ks⟩ steps).2 = [true, true, true] ∧
    perKernel 1 (exec Gen.table env true (runSteps fuseValidPinned Gen.table ⟨false, build ks⟩ steps).1.root 0 0)
      ≠ perKernel 1 (exec Gen.table env true (build ks) 0 0) := by
  decide

/-! ### the constant-loop-bounds setting -/

/-- `go_every` rows as the table must have them for `1 .. SIZE(data)` = `{start}-1 .. {stop}+1` -/
def everyEntry : Entry := ⟨⟨.start, -1⟩, ⟨.stop, 1⟩, ⟨.start, -1⟩, ⟨.stop, 1⟩⟩

/-- The class of kernels for which the clause is claimed, on a grid with index offset `g`:
(a) built-in iteration space (not redefined by the user) on U/V/T/F points with the grid's offset;
(b) `go_every` kernels on a built-in, not redefined, iteration space;
(c) user-defined iteration spaces (and `go_external_pts`) on U/V/T/F points. -/
def constInvariant (g : Nat) (t : Table) (k : Key) : Prop :=
  (g = offNE ∨ g = offSW) ∧
  ((k.its ≤ 1 ∧ k.pt ≤ 3 ∧ k.off = g ∧ tfind t k = tfind Gen.table k) ∨
   (k.pt = ptEvery ∧ k.its ≤ 2 ∧ k.off ∈ Gen.supportedOffsets ∧ tfind t k = tfind Gen.table k) ∨
   (2 ≤ k.its ∧ k.pt ≠ ptEvery))

theorem table_matches_convention :
    ([0, 1].all fun g => [0, 1, 2, 3].all fun pt => [0, 1].all fun its =>
      tfind Gen.table ⟨g, pt, its⟩ = tfind dlEsmInf ⟨g, pt, its⟩ && (tfind dlEsmInf ⟨g, pt, its⟩).isSome
        && ((tfind dlEsmInf ⟨g, pt, its⟩).getD none).isSome) = true := by decide

theorem table_every_rows :
    (Gen.supportedOffsets.all fun off => [0, 1, 2].all fun its =>
      tfind Gen.table ⟨off, ptEvery, its⟩ = some (some everyEntry)) = true := by decide

theorem const_eq_field_of_conv (t : Table) (g : Nat) (ex ey : Int) (k : Key) (outer : Bool) (e : Entry)
    (hpt : k.pt ≠ ptEvery) (hits : k.its = itsInternal ∨ k.its = itsAll) (hg : k.off = g)
    (h1 : tfind t k = some (some e)) (h2 : tfind dlEsmInf k = some (some e)) :
    constBounds t (hEnv g ex ey) k outer = fieldBounds t (hEnv g ex ey) k outer := by
  obtain ⟨off, pt, its⟩ := k
  simp only at hpt hits hg
  subst hg
  rcases hits with rfl | rfl
  · simp only [constBounds, h1, fieldBounds, hpt, if_false, if_true, hEnv, conformingEnv, rectOf, h2,
      entryBounds, Entry.region, Rect.lo, Rect.hi, Entry.lo, Entry.hi, Env.e]
    cases outer <;> simp
  · have : itsAll ≠ itsInternal := by decide
    simp only [constBounds, h1, fieldBounds, hpt, if_false, if_true, this, hEnv, conformingEnv, rectOf, h2,
      entryBounds, Entry.region, Rect.lo, Rect.hi, Entry.lo, Entry.hi, Env.e]
    cases outer <;> simp

/-- Under the documented dl_esm_inf convention (`hEnv`: grid internal region starts at 2, a field's
`internal`/`whole` regions are `dlEsmInf`, the data array is `(1:xstop+1, 1:ystop+1)`), the bounds
installed by `GOConstLoopBoundsTrans` equal the field-object bounds of the default code. -/
theorem C25_const_bounds_same_region (t : Table) (g : Nat) (ex ey : Int) (k : Key) (outer : Bool)
    (hk : constInvariant g t k) :
    constBounds t (hEnv g ex ey) k outer = fieldBounds t (hEnv g ex ey) k outer := by
  obtain ⟨hg, hk⟩ := hk
  rcases hk with ⟨hits, hpt, hoff, ht⟩ | ⟨hpt, hits, hoff, ht⟩ | ⟨hits, hpt⟩
  · -- built-in space, kernel offset = grid offset
    obtain ⟨off, pt, its⟩ := k
    simp only at hits hpt hoff ht
    subst hoff
    have hmem : ∀ {n : Nat} {l : List Nat}, n ∈ l → n ∈ l := fun h => h
    have hc := table_matches_convention
    have h1 := List.all_eq_true.mp hc off (by rcases hg with rfl | rfl <;> simp [offNE, offSW])
    have h2 := List.all_eq_true.mp h1 pt (by simp; omega)
    have h3 := List.all_eq_true.mp h2 its (by simp; omega)
    simp only [Bool.and_eq_true, decide_eq_true_eq] at h3
    obtain ⟨⟨h3a, h3b⟩, h3c⟩ := h3
    cases hd : tfind dlEsmInf ⟨off, pt, its⟩ with
    | none => simp [hd] at h3b
    | some oe =>
      cases oe with
      | none => simp [hd] at h3c
      | some e =>
        refine const_eq_field_of_conv t off ex ey ⟨off, pt, its⟩ outer e ?_ ?_ rfl ?_ hd
        · simp only [ptEvery]; omega
        · simp only [itsInternal, itsAll]; omega
        · rw [ht, h3a, hd]
  · -- go_every
    obtain ⟨off, pt, its⟩ := k
    simp only at hits hpt hoff ht
    subst hpt
    have h1 := List.all_eq_true.mp table_every_rows off hoff
    have h2 := List.all_eq_true.mp h1 its (by simp; omega)
    simp only [decide_eq_true_eq] at h2
    rw [h2] at ht
    simp only [constBounds, ht, fieldBounds, if_true, entryBounds, everyEntry, Entry.lo, Entry.hi,
      Bnd.eval, hEnv, conformingEnv, Env.e]
    cases outer <;> simp <;> omega
  · -- user-defined space on a staggered field: both settings read the table
    have h1 : k.its ≠ itsInternal := by simp only [itsInternal]; omega
    have h2 : k.its ≠ itsAll := by simp only [itsAll]; omega
    simp only [constBounds, fieldBounds, hpt, h1, h2, if_false]

/-- non-vacuity of the three classes -/
example : constInvariant offNE Gen.table ⟨offNE, 0, itsInternal⟩ := by
  refine ⟨Or.inl rfl, Or.inl ⟨by decide, by decide, rfl, rfl⟩⟩
example : constInvariant offSW Gen.table ⟨offAny, ptEvery, itsAll⟩ := by
  refine ⟨Or.inr rfl, Or.inr (Or.inl ⟨rfl, by decide, by decide, rfl⟩)⟩
example : constInvariant offSW ((⟨offSW, 2, 3⟩, some internalT) :: Gen.table) ⟨offSW, 2, 3⟩ := by
  refine ⟨Or.inr rfl, Or.inr (Or.inr ⟨by decide, by decide⟩)⟩

/-- KNOWN FINDING C25-any-offset-const-bounds.  For a `go_offset_any` kernel on U/V/T/F points the table row
is `{start}-1 .. {stop}` in both dimensions for every iteration space, which is not the field's
`internal` (nor `whole`) region on either supported grid offset (single coincidence: `whole` of F points on an NE grid): the
constant-bounds setting changes the region. -/
theorem C25_any_offset_const_counterexample :
    ∀ g ∈ [offNE, offSW], ∀ pt ∈ [0, 1, 2, 3], ∀ its ∈ [itsAll, itsInternal],
      (g, pt, its) ≠ (offNE, 3, itsAll) →   -- F points, NE grid: `whole` happens to be `{start}-1..{stop}`
      ∃ outer, constBounds Gen.table (hEnv g 5 5) ⟨offAny, pt, its⟩ outer
             ≠ fieldBounds Gen.table (hEnv g 5 5) ⟨offAny, pt, its⟩ outer := by
  decide

/-- KNOWN FINDING C25-userdef-ignored.  A user-defined iteration space that re-uses a built-in name (the
example of the `add_bounds` docstring: `go_offset_ne:go_ct:go_all_pts:{start}-1:{stop}+1:{start}:{stop}`)
or that is defined for `go_every` fields is ignored by the default code but honoured by
`GOConstLoopBoundsTrans`. -/
theorem C25_override_counterexample :
    let t1 : Table := (⟨offNE, 2, itsAll⟩, some ⟨⟨.start, -1⟩, ⟨.stop, 1⟩, ⟨.start, 0⟩, ⟨.stop, 0⟩⟩) :: Gen.table
    let t2 : Table := (⟨offSW, ptEvery, 3⟩, some internalT) :: Gen.table
    constBounds t1 (hEnv offNE 5 5) ⟨offNE, 2, itsAll⟩ false ≠ fieldBounds t1 (hEnv offNE 5 5) ⟨offNE, 2, itsAll⟩ false ∧
    (∀ env : Env, (constBounds t2 env ⟨offSW, ptEvery, 3⟩ false).map Prod.fst = some 2 ∧
                  (fieldBounds t2 env ⟨offSW, ptEvery, 3⟩ false).map Prod.fst = some 1) := by
  refine ⟨by decide, fun env => ⟨?_, ?_⟩⟩
  · simp [constBounds, tfind, entryBounds, internalT, Entry.lo, Bnd.eval]
  · simp [fieldBounds, ptEvery]

/-! ### the composed statement -/

/-- the nest of the region a table entry denotes on a grid with internal region `[2..ex]×[2..ey]` -/
def regionVisit (e : Entry) (ex ey : Int) : List (Int × Int) :=
  let r := e.region 2 ex 2 ey
  visit r.jlo r.jhi r.ilo r.ihi

theorem entryBounds_hEnv (g : Nat) (ex ey : Int) (e : Entry) :
    entryBounds (hEnv g ex ey) e true = ((e.region 2 ex 2 ey).jlo, (e.region 2 ex 2 ey).jhi) ∧
    entryBounds (hEnv g ex ey) e false = ((e.region 2 ex 2 ey).ilo, (e.region 2 ex 2 ey).ihi) := by
  simp [entryBounds, hEnv, conformingEnv, Env.e, Entry.region, Entry.lo, Entry.hi]

/-- MAIN THEOREM (fixed fusion validation).  On a grid with offset `g` and internal region
`[2..ex]×[2..ey]` that follows the documented convention, after ANY history of fusions, regions and
constant-bounds switches, kernel number `n` — with key `k` in the class `constInvariant` and table
entry `e` (built-in or user-defined) — is called exactly on the points of the configured region
`e[{start}↦2, {stop}↦ex/ey]`, each once, `j` outer / `i` inner (see `C25_visit_*`). -/
theorem C25_region_visited (t : Table) (ks : List Key) (steps : List Step) (g : Nat) (ex ey : Int)
    (n : Nat) (k : Key) (e : Entry) (hk : ks[n]? = some k) (he : tfind t k = some (some e))
    (hc : constInvariant g t k) (i j : Int) :
    let s := (runSteps fuseValid t ⟨false, build ks⟩ steps).1
    perKernel n (exec t (hEnv g ex ey) s.cb s.root i j) = regionVisit e ex ey := by
  intro s
  rw [C25_history_same_points, C25_build_points t _ _ ks n k hk]
  have hb : ∀ outer, bounds t (hEnv g ex ey) s.cb k outer = some (entryBounds (hEnv g ex ey) e outer) := by
    intro outer
    have hconst : constBounds t (hEnv g ex ey) k outer = some (entryBounds (hEnv g ex ey) e outer) := by
      simp [constBounds, he]
    unfold bounds
    split
    · exact hconst
    · rw [← C25_const_bounds_same_region t g ex ey k outer hc]; exact hconst
  rw [hb true, hb false, (entryBounds_hEnv g ex ey e).1, (entryBounds_hEnv g ex ey e).2]
  rfl

/-- non-vacuity of `C25_region_visited`: a user-defined space, two kernels, fused, constant bounds -/
example :
    let t : Table := (⟨offSW, 2, 3⟩, some ⟨⟨.start, -1⟩, ⟨.stop, 1⟩, ⟨.start, 0⟩, ⟨.stop, 0⟩⟩) :: Gen.table
    let s := (runSteps fuseValid t ⟨false, build [⟨offSW, 2, 3⟩, ⟨offSW, 2, 3⟩]⟩ [.fuse [] 0, .const]).1
    perKernel 1 (exec t (hEnv offSW 3 3) s.cb s.root 0 0)
      = [(2, 1), (3, 1), (2, 2), (3, 2), (2, 3), (3, 3), (2, 4), (3, 4)] := by decide

/-- The FULL statement read on the pinned code (pinned fusion validation, no restriction on the kernel's
class): every kernel whose key has a table entry is called exactly on the region that entry denotes,
for every history and either bounds setting. -/
def C25_statement : Prop :=
  ∀ (t : Table) (ks : List Key) (steps : List Step) (g : Nat) (ex ey : Int) (n : Nat) (k : Key) (e : Entry),
    (g = offNE ∨ g = offSW) → (∀ k' ∈ ks, k'.off = g ∨ k'.off = offAny) →
    ks[n]? = some k → tfind t k = some (some e) →
    let s := (runSteps fuseValidPinned t ⟨false, build ks⟩ steps).1
    perKernel n (exec t (hEnv g ex ey) s.cb s.root 0 0) = regionVisit e ex ey

/-- refuted by the fusion defect (no dl_esm_inf convention involved: all bounds are constant-bounds ones) -/
theorem C25_statement_counterexample : ¬ C25_statement := by
  intro h
  have := h Gen.table [⟨offAny, 0, itsInternal⟩, ⟨offNE, 0, itsInternal⟩] [.const, .fuse [] 0, .fuse [0] 0]
    offNE 4 4 1 ⟨offNE, 0, itsInternal⟩ ⟨⟨.start, 0⟩, ⟨.stop, 0⟩, ⟨.start, 0⟩, ⟨.stop, -1⟩⟩
    (Or.inl rfl) (by decide) (by decide) (by decide)
  revert this
  decide

end C25
