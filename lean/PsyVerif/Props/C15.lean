import PsyVerif.Lemmas.Copy
import PsyVerif.Lemmas.CopyCase
/-! # C15 — Copies of PSyIR subtrees are independent and equal

Model: `PsyVerif/Model/Copy.lean` — `Node.copy/_refine_copy`, `ScopingNode._refine_copy`,
`SymbolTable.deep_copy` and the symbol `copy` methods.  `copy m W r` copies the subtree with root
identity `r` of the world `W`.  The mode `m` says which repairs the modelled code contains:
`m.dt` = the committed `fix:` from fixes/C15-deepcopy-datatype-refs.patch (symbols reached through
datatypes are re-pointed and the copy owns the expression nodes of its declarations), `m.ifc` =
fixes/C15-deepcopy-interfaces.patch (`deep_copy` copies the interface objects).
`C15.deployed = ⟨true, true⟩` is the mode the harness compares the real code with; `⟨false, _⟩` is
the pinned code, `⟨true, false⟩` the code with the first repair only.

Quantification: every world satisfying `WF` (any number of detached trees of any shape, any
symbol tables at any nodes, any references, any declarations: direct symbol links and expression
forests for array bounds / component initialisers / initial values), every node identity `r`,
every list of edits.  Written code is any function of `view W t` (classes, shape, names of the
symbols used by nodes; per declared symbol its name, the names of the linked symbols, the
expressions of its datatype and initial value with the names they use, the access of its interface).

Statements:
* `C15_copy_equal`        the copy is structurally equal to the original (same `view`);
* `C15_copy_disjoint`     no node identity and no copied-scope symbol identity is shared, and
                           (`C15_copy_decl_disjoint`) the expression nodes inside the declarations
                           of the copy are new as well;
* `C15_copy_refs_internal` every symbol the copy's written code reads is either declared by the
                           copy itself or is an outer-scope symbol (not declared in a copied scope);
* `C15_edit_independent`  `C15_statement deployed`: after the copy, edits addressing only one of the
                           two trees leave the written code of the other unchanged (both directions),
                           for all edit lists (renames, new declarations, new/removed symbols,
                           re-pointed references also inside declarations, interface attributes and
                           interface replacement, class changes, detach/attach) that do not change a
                           helper object held by a node of the copied subtree;
                           `C15_edit_independent_generic`: for subtrees whose nodes hold no such
                           object (generic PSyIR) that is ALL edit lists;
* `C15_case_copy_eq`      identifier case: the copy as the code performs it — every re-pointing is a
                           dict read with the NORMALISED name (`copyL`, `Model/CopyCase.lean`; symbols
                           keep mixed-case spellings given through the API) — is the positional copy
                           whenever the tables have distinct keys, hence `C15_case_copy_equal`,
                           `C15_case_refs_internal`, `C15_case_edit_independent`; the invariant is kept
                           by copy/rename/new_symbol/remove (`C15_case_keys_*`); without `_normalize`
                           the clause is false (`C15_case_raw_misses`, `C15_case_raw_counterexample`);
* `C15_shared_attr_counterexample` `copy.copy` hands the helper objects of nodes on (PSyKAl kernels:
                           `KernelArguments`, OpenCL option dict): `C15_statement_full deployed` is false
                           (known findings C15-psykal-shared-*);
* `C15_shared_interface_counterexample` with the first repair only the statement is false
                           (`TypedSymbol.copy` and its overrides pass the interface object on), and
                           `C15_edit_independent_partial` is what holds then;
* `C15_datatype_ref_counterexample`, `C15_pinned_shares_datatype_nodes` the pinned code violates it;
* `C15_pinned_partial`    the pinned code satisfies it under `NoSymbolInDatatype`. -/
namespace C15

/-! ## helper lemmas: the copied tree -/

/-- the subtree being copied -/
abbrev sub (W : World) (r : Nat) : Forest := findIn r W.trees

theorem sub_ids_lt {W : World} (wf : WF W) (r : Nat) : ∀ i ∈ (sub W r).ids, i < W.nnode :=
  findIn_ids_lt r W.trees W.nnode wf.ids_lt

theorem sub_syms_lt {W : World} (wf : WF W) (r : Nat) :
    ∀ s ∈ (sub W r).syms ++ (sub W r).tsyms ++ (sub W r).owned, s < W.nsym :=
  findIn_syms_lt r W.trees W.nsym wf.syms_lt

theorem copyTree_mem (fx : Mode) (W : World) (r : Nat) : copyTree fx W r ∈ (copy fx W r).trees := by
  simp [copy]

theorem old_tree_mem (fx : Mode) (W : World) (r : Nat) {t : Forest} (h : t ∈ W.trees) :
    t ∈ (copy fx W r).trees := by
  simp [copy, h]

theorem copyTree_ids (fx : Mode) (W : World) (r : Nat) :
    (copyTree fx W r).ids = (sub W r).ids.map (· + W.nnode) := ids_map_copy ..

theorem copyTree_owned (fx : Mode) (W : World) (r : Nat) :
    (copyTree fx W r).owned = (sub W r).owned.map (· + W.nsym) := by
  unfold copyTree
  simp only [owned_map_copy]
  apply List.map_congr_left
  intro s hs
  exact rho_mem hs

/-- where the symbols used by the copy point: `rho` of where the original's pointed -/
theorem rho_target {W : World} (r : Nat) {s : Nat} (hs : s < W.nsym) (fx : Mode) :
    rho (sub W r).owned W.nsym s ∈ (copyTree fx W r).owned ∨
    (rho (sub W r).owned W.nsym s < W.nsym ∧ rho (sub W r).owned W.nsym s ∉ (sub W r).owned) := by
  by_cases hm : s ∈ (sub W r).owned
  · left
    rw [rho_mem hm, copyTree_owned]
    exact List.mem_map.mpr ⟨s, hm, rfl⟩
  · right
    rw [rho_not_mem hm]
    exact ⟨hs, hm⟩

/-- symbols the written code of the copy reads, general form: each is the image of a symbol
read by the original under `rho` (through nodes, tables) or `rhoT` (through datatypes) -/
theorem reads_copy {fx : Mode} {W : World} (wf : WF W) (r : Nat) :
    ∀ s ∈ reads (copy fx W r) (copyTree fx W r),
      (∃ o, o < W.nsym ∧ s = rho (sub W r).owned W.nsym o) ∨
      (∃ o, o < W.nsym ∧ (o ∈ (sub W r).tsyms ∨ ∃ q ∈ (sub W r).owned, o ∈ W.deps q) ∧
            s = rhoT fx.dt (sub W r).owned W.nsym o) := by
  intro s hs
  have hlt := sub_syms_lt wf r
  simp only [List.mem_append] at hlt
  unfold reads at hs
  simp only [List.mem_append, List.mem_flatMap] at hs
  rcases hs with ((hs | hs) | hs) | hs
  · unfold copyTree at hs
    rw [syms_map_copy] at hs
    obtain ⟨o, ho, rfl⟩ := List.mem_map.mp hs
    exact Or.inl ⟨o, hlt o (Or.inl (Or.inl ho)), rfl⟩
  · unfold copyTree at hs
    rw [tsyms_map_copy] at hs
    obtain ⟨o, ho, rfl⟩ := List.mem_map.mp hs
    exact Or.inr ⟨o, hlt o (Or.inl (Or.inr ho)), Or.inl ho, rfl⟩
  · unfold copyTree at hs
    rw [owned_map_copy] at hs
    obtain ⟨o, ho, rfl⟩ := List.mem_map.mp hs
    exact Or.inl ⟨o, hlt o (Or.inr ho), rfl⟩
  · obtain ⟨c, hc, hsc⟩ := hs
    rw [copyTree_owned] at hc
    obtain ⟨q, hq, rfl⟩ := List.mem_map.mp hc
    rw [deps_copy_new fx W r hq] at hsc
    obtain ⟨o, ho, rfl⟩ := List.mem_map.mp hsc
    exact Or.inr ⟨o, wf.deps_lt q o ho, Or.inr ⟨q, hq, ho⟩, rfl⟩

/-! ## helper lemmas: the frame -/

/-- an edit is foreign to a tree with node identities `N` (its own nodes and the expression nodes
of its declarations) whose written code reads the symbols `R` and the interface objects `I` if it
addresses none of them -/
def Edit.foreign (N : List Nat) (R : List Nat) (I : List Nat) (A : List Nat) (e : Edit) : Prop :=
  (∀ p ∈ e.nodes, p ∉ N) ∧ (∀ s ∈ e.symbols, s ∉ R) ∧ (∀ i ∈ e.ifaces, i ∉ I) ∧ (∀ a ∈ e.attrs, a ∉ A)

/-- the node identities that belong to a tree: its nodes and the expression nodes inside the
declarations of its symbols -/
def footN (W : World) (Y : Forest) : List Nat := Y.ids ++ W.declIds Y.owned

theorem mem_declIds {W : World} {l : List Nat} {s i : Nat} (hs : s ∈ l)
    (hi : i ∈ (W.bounds s).ids ++ (W.init s).ids) : i ∈ W.declIds l :=
  List.mem_flatMap.mpr ⟨s, hs, hi⟩

/-- what a foreign edit preserves of a tree `Y` that reads `R` -/
structure Kept (W₀ : World) (Y : Forest) (R : List Nat) (I : List Nat) (A : List Nat) (W : World) : Prop where
  mem : Y ∈ W.trees
  own : ∀ s ∈ Y.owned, s ∈ R
  lt : ∀ s ∈ R, s < W.nsym
  iflt : ∀ i ∈ I, i < W.nif
  name : ∀ s ∈ R, W.name s = W₀.name s
  links : ∀ s ∈ R, W.links s = W₀.links s
  bounds : ∀ s ∈ Y.owned, W.bounds s = W₀.bounds s
  init : ∀ s ∈ Y.owned, W.init s = W₀.init s
  iface : ∀ s ∈ R, W.iface s = W₀.iface s
  acc : ∀ i ∈ I, W.access i = W₀.access i
  attr : ∀ a ∈ A, W.attrVal a = W₀.attrVal a

theorem kept_mapNodes {W₀ W : World} {Y : Forest} {R I A : List Nat} (k : Kept W₀ Y R I A W) (p : Nat)
    (g : NodeRec → NodeRec) (hp : p ∉ footN W₀ Y) : Kept W₀ Y R I A (mapNodes W p g) := by
  have hpY : p ∉ Y.ids := fun h => hp (List.mem_append_left _ h)
  refine ⟨List.mem_map.mpr ⟨Y, k.mem, map_updNode_of_not_mem p _ Y hpY⟩, k.own, k.lt, k.iflt, k.name,
    k.links, fun s hs => ?_, fun s hs => ?_, k.iface, k.acc, k.attr⟩
  · show (W.bounds s).map (updNode p g) = W₀.bounds s
    rw [k.bounds s hs]
    exact map_updNode_of_not_mem p g _ (fun h => hp (List.mem_append_right _
      (mem_declIds hs (List.mem_append_left _ h))))
  · show (W.init s).map (updNode p g) = W₀.init s
    rw [k.init s hs]
    exact map_updNode_of_not_mem p g _ (fun h => hp (List.mem_append_right _
      (mem_declIds hs (List.mem_append_right _ h))))

theorem kept_apply {W₀ W : World} {Y : Forest} {R I A : List Nat} (k : Kept W₀ Y R I A W) (e : Edit)
    (hf : e.foreign (footN W₀ Y) R I A) : Kept W₀ Y R I A (apply W e) := by
  obtain ⟨hn, hsy, hif, hat⟩ := hf
  have hnY : ∀ p ∈ e.nodes, p ∉ Y.ids := fun p hp h => hn p hp (List.mem_append_left _ h)
  cases e with
  | rename p s n =>
    have hs : s ∉ R := hsy s (by simp [Edit.symbols])
    have hp : p ∉ Y.ids := hnY p (by simp [Edit.nodes])
    refine ⟨List.mem_map.mpr ⟨Y, k.mem, map_updNode_of_not_mem p _ Y hp⟩, k.own, k.lt, k.iflt,
      fun x hx => ?_, k.links, k.bounds, k.init, k.iface, k.acc, k.attr⟩
    have : x ≠ s := fun h => hs (h ▸ hx)
    simp [apply, this, k.name x hx]
  | setDecl s ls bs ini =>
    have hs : s ∉ R := hsy s (by simp [Edit.symbols])
    have ne : ∀ x ∈ R, x ≠ s := fun x hx h => hs (h ▸ hx)
    refine ⟨k.mem, k.own, k.lt, k.iflt, k.name, fun x hx => ?_, fun x hx => ?_, fun x hx => ?_, k.iface, k.acc, k.attr⟩
    · simp [apply, ne x hx, k.links x hx]
    · simp [apply, ne x (k.own x hx), k.bounds x hx]
    · simp [apply, ne x (k.own x hx), k.init x hx]
  | setIface s v =>
    have hs : s ∉ R := hsy s (by simp [Edit.symbols])
    have ne : ∀ x ∈ R, x ≠ s := fun x hx h => hs (h ▸ hx)
    refine ⟨k.mem, k.own, k.lt, fun i hi => ?_, k.name, k.links, k.bounds, k.init, fun x hx => ?_,
      fun i hi => ?_, k.attr⟩
    · have := k.iflt i hi; simp only [apply]; omega
    · simp [apply, ne x hx, k.iface x hx]
    · have : i ≠ W.nif := Nat.ne_of_lt (k.iflt i hi)
      simp [apply, this, k.acc i hi]
  | setFresh s b => exact ⟨k.mem, k.own, k.lt, k.iflt, k.name, k.links, k.bounds, k.init, k.iface, k.acc, k.attr⟩
  | setAccess i v =>
    have hi : i ∉ I := hif i (by simp [Edit.ifaces])
    refine ⟨k.mem, k.own, k.lt, k.iflt, k.name, k.links, k.bounds, k.init, k.iface, fun x hx => ?_, k.attr⟩
    have : x ≠ i := fun h => hi (h ▸ hx)
    simp [apply, this, k.acc x hx]
  | setAttr a v =>
    have ha : a ∉ A := hat a (by simp [Edit.attrs])
    refine ⟨k.mem, k.own, k.lt, k.iflt, k.name, k.links, k.bounds, k.init, k.iface, k.acc, fun x hx => ?_⟩
    have : x ≠ a := fun h => ha (h ▸ hx)
    simp [apply, this, k.attr x hx]
  | addSym p n ls bs ini fr =>
    have hp : p ∉ Y.ids := hnY p (by simp [Edit.nodes])
    have ne : ∀ x ∈ R, x ≠ W.nsym := fun x hx => Nat.ne_of_lt (k.lt x hx)
    refine ⟨?_, k.own, fun x hx => ?_, fun i hi => ?_, fun x hx => ?_, fun x hx => ?_, fun x hx => ?_,
      fun x hx => ?_, fun x hx => ?_, k.acc, k.attr⟩
    · simp only [apply]
      exact List.mem_map.mpr ⟨Y, k.mem, map_updNode_of_not_mem p _ Y hp⟩
    · have := k.lt x hx; simp only [apply]; omega
    · have := k.iflt i hi; simp only [apply]; omega
    · simp [apply, ne x hx, k.name x hx]
    · simp [apply, ne x hx, k.links x hx]
    · simp [apply, ne x (k.own x hx), k.bounds x hx]
    · simp [apply, ne x (k.own x hx), k.init x hx]
    · simp [apply, ne x hx, k.iface x hx]
  | removeSym p s =>
    have hp : p ∉ Y.ids := hnY p (by simp [Edit.nodes])
    exact ⟨List.mem_map.mpr ⟨Y, k.mem, map_updNode_of_not_mem p _ Y hp⟩, k.own, k.lt, k.iflt, k.name,
      k.links, k.bounds, k.init, k.iface, k.acc, k.attr⟩
  | setSym p s => exact kept_mapNodes k p _ (hn p (by simp [Edit.nodes]))
  | setTSym p s => exact kept_mapNodes k p _ (hn p (by simp [Edit.nodes]))
  | detach x =>
    have hx : x ∉ Y.ids := hnY x (by simp [Edit.nodes])
    simp only [apply]
    split
    · exact k
    · refine ⟨?_, k.own, k.lt, k.iflt, k.name, k.links, k.bounds, k.init, k.iface, k.acc, k.attr⟩
      exact List.mem_append_left _ (List.mem_map.mpr ⟨Y, k.mem, remove_of_not_mem x Y hx⟩)
  | attach p i x =>
    have hp : p ∉ Y.ids := hnY p (by simp [Edit.nodes])
    have hx : x ∉ Y.ids := hnY x (by simp [Edit.nodes])
    simp only [apply]
    split
    · refine ⟨?_, k.own, k.lt, k.iflt, k.name, k.links, k.bounds, k.init, k.iface, k.acc, k.attr⟩
      refine List.mem_map.mpr ⟨Y, List.mem_map.mpr ⟨Y, k.mem, remove_of_not_mem x Y hx⟩, ?_⟩
      exact attach_of_not_mem p i _ Y hp
    · exact k

theorem kept_run {W₀ : World} {Y : Forest} {R I A : List Nat} (es : List Edit) :
    ∀ W, Kept W₀ Y R I A W → (∀ e ∈ es, e.foreign (footN W₀ Y) R I A) → Kept W₀ Y R I A (run W es) := by
  induction es with
  | nil => intro W k _; exact k
  | cons e es ih =>
    intro W k h
    exact ih (apply W e) (kept_apply k e (h e (by simp))) (fun e' he' => h e' (by simp [he']))

theorem owned_mem_reads (W : World) (Y : Forest) : ∀ s ∈ Y.owned, s ∈ reads W Y := by
  intro s hs
  unfold reads; simp only [List.mem_append]; exact Or.inl (Or.inr hs)

theorem deps_mem_reads (W : World) (Y : Forest) {s d : Nat} (hs : s ∈ Y.owned) (hd : d ∈ W.deps s) :
    d ∈ reads W Y := by
  unfold reads; simp only [List.mem_append, List.mem_flatMap]; exact Or.inr ⟨s, hs, hd⟩

theorem kept_view {W₀ W : World} {Y : Forest}
    (k : Kept W₀ Y (reads W₀ Y) (Y.owned.map W₀.iface) Y.attrs W) :
    view W Y = view W₀ Y := by
  refine view_congr _ _ _ ?_ ?_ k.attr
  · intro s hs
    exact k.name s (by unfold reads; exact List.mem_append_left _ hs)
  · intro s hs
    have hs' : s ∈ reads W₀ Y := owned_mem_reads W₀ Y s hs
    refine ⟨?_, ?_, ?_, ?_⟩
    · rw [k.links s hs']
      apply List.map_congr_left
      intro d hd
      exact k.name d (deps_mem_reads W₀ Y hs (by simp [World.deps, hd]))
    · rw [k.bounds s hs]
      apply viewE_congr
      intro d hd
      exact k.name d (deps_mem_reads W₀ Y hs (by simp [World.deps, hd]))
    · rw [k.init s hs]
      apply viewE_congr
      intro d hd
      exact k.name d (deps_mem_reads W₀ Y hs (by simp [World.deps, hd]))
    · rw [k.iface s hs']
      exact k.acc _ (List.mem_map.mpr ⟨s, hs, rfl⟩)

/-- **Frame.**  Edits that address neither a node of the tree `Y` (or an expression node inside
one of its declarations), nor a symbol its written code reads, nor an interface object of its
symbols leave `Y` in place and its written code unchanged. -/
theorem frame {W : World} {Y : Forest} (hY : Y ∈ W.trees) (hlt : ∀ s ∈ reads W Y, s < W.nsym)
    (hif : ∀ s, W.iface s < W.nif)
    (es : List Edit) (h : ∀ e ∈ es, e.foreign (footN W Y) (reads W Y) (Y.owned.map W.iface) Y.attrs) :
    Y ∈ (run W es).trees ∧ view (run W es) Y = view W Y := by
  have k := kept_run es W ⟨hY, owned_mem_reads W Y, hlt,
    (fun i hi => by obtain ⟨s, _, rfl⟩ := List.mem_map.mp hi; exact hif s),
    fun _ _ => rfl, fun _ _ => rfl, fun _ _ => rfl, fun _ _ => rfl, fun _ _ => rfl, fun _ _ => rfl,
    fun _ _ => rfl⟩ h
  exact ⟨k.mem, kept_view k⟩

theorem reads_lt {W : World} (wf : WF W) {t : Forest} (ht : t ∈ W.trees) :
    ∀ s ∈ reads W t, s < W.nsym := by
  intro s hs
  unfold reads at hs
  rcases List.mem_append.mp hs with hs | hs
  · exact wf.syms_lt t ht s hs
  · obtain ⟨q, _, hd⟩ := List.mem_flatMap.mp hs
    exact wf.deps_lt q s hd

/-! ## edits "on one tree" after a copy -/

/-- an edit of the ORIGINAL side after `copy m W r`: it addresses nodes that existed before the
copy (tree nodes or expression nodes of declarations), changes (renames, retypes, gives a new
interface) only symbols declared in the copied scopes or symbols created after the copy, and
changes attributes only of interface objects that existed before or were created after the copy.
(Outer-scope symbols are shared with the copy by design: the copy of a subtree keeps referring to
them, so renaming them is an edit of both trees.) -/
def Edit.onOriginal (W : World) (r : Nat) (e : Edit) : Prop :=
  (∀ p ∈ e.nodes, p < W.nnode) ∧
  (∀ s ∈ e.symbols, s ∈ (sub W r).owned ∨ W.nsym + W.nsym ≤ s) ∧
  (∀ i ∈ e.ifaces, i < W.nif ∨ W.nif + W.nif ≤ i)

/-- the same for a subtree that is closed (uses no outer-scope symbol, e.g. a whole program):
any symbol that existed before the copy may be changed -/
def Edit.onOriginalAny (W : World) (e : Edit) : Prop :=
  (∀ p ∈ e.nodes, p < W.nnode) ∧ (∀ s ∈ e.symbols, s < W.nsym ∨ W.nsym + W.nsym ≤ s) ∧
  (∀ i ∈ e.ifaces, i < W.nif ∨ W.nif + W.nif ≤ i)

/-- an edit of the COPY side: it addresses only nodes and symbols created by the copy or later, and
the interface objects of the copy's symbols (new ones, or — unrepaired code — the shared ones) -/
def Edit.onCopy (m : Mode) (W : World) (r : Nat) (e : Edit) : Prop :=
  (∀ p ∈ e.nodes, W.nnode ≤ p) ∧ (∀ s ∈ e.symbols, W.nsym ≤ s) ∧
  (∀ i ∈ e.ifaces, W.nif ≤ i ∨ i ∈ sharedIfaces m W (sub W r)) ∧
  (∀ a ∈ e.attrs, a ∈ (copyTree m W r).attrs)

/-- the edit changes no attribute of an interface object that the copy shares with the original
(`TypedSymbol.copy` and its overrides pass the interface object of the original on; repaired by
fixes/C15-deepcopy-interfaces.patch) -/
def Edit.noSharedIface (m : Mode) (W : World) (r : Nat) (e : Edit) : Prop :=
  ∀ i ∈ e.ifaces, i ∉ sharedIfaces m W (sub W r)

/-- the edit changes the state of no helper object that the copy shares with the original
(`copy.copy` hands on every attribute that `_refine_copy` does not refine: the `KernelArguments`
and the OpenCL option dict of a PSyKAl kernel; known findings C15-psykal-shared-*) -/
def Edit.noSharedAttr (W : World) (r : Nat) (e : Edit) : Prop :=
  ∀ a ∈ e.attrs, a ∉ (sub W r).attrs

theorem copyTree_attrs (m : Mode) (W : World) (r : Nat) : (copyTree m W r).attrs = (sub W r).attrs :=
  attrs_map_copy ..

/-- with the interface repair nothing is shared -/
theorem sharedIfaces_fixed (dt : Bool) (W : World) (S : Forest) : sharedIfaces ⟨dt, true⟩ W S = [] := by
  simp [sharedIfaces, ownIface]

/-- the subtree uses no symbol of an outer scope -/
def Closed (W : World) (S : Forest) : Prop :=
  (∀ s ∈ S.syms ++ S.tsyms, s ∈ S.owned) ∧ (∀ s ∈ S.owned, ∀ d ∈ W.deps s, d ∈ S.owned)

/-- the datatype-borne symbols are re-pointed (repaired code), or there are none to re-point and
no datatype holds expression nodes -/
def Sound (m : Mode) (W : World) (r : Nat) : Prop :=
  m.dt = true ∨ NoSymbolInDatatype W (sub W r)

theorem rhoT_target {m : Mode} {W : World} (r : Nat) (hs : Sound m W r) {o : Nat}
    (ho : o ∈ (sub W r).tsyms ∨ ∃ q ∈ (sub W r).owned, o ∈ W.deps q) :
    rhoT m.dt (sub W r).owned W.nsym o = rho (sub W r).owned W.nsym o := by
  unfold rhoT
  split
  · rfl
  · rename_i hfx
    rcases hs with h | h
    · exact absurd h hfx
    · have : o ∉ (sub W r).owned := by
        rcases ho with ho | ⟨q, hq, ho⟩
        · exact h.1 o ho
        · exact h.2.1 q hq o ho
      rw [rho_not_mem this]

/-- the expression nodes inside the declarations of the copy are new objects -/
theorem declIds_copy_ge {m : Mode} {W : World} (r : Nat) (hs : Sound m W r) :
    ∀ i ∈ (copy m W r).declIds (copyTree m W r).owned, W.nnode ≤ i := by
  intro i hi
  obtain ⟨c, hc, hi⟩ := List.mem_flatMap.mp hi
  rw [copyTree_owned] at hc
  obtain ⟨s, hsm, rfl⟩ := List.mem_map.mp hc
  rw [bounds_copy_new m W r hsm, init_copy_new m W r hsm] at hi
  rcases List.mem_append.mp hi with hi | hi
  · split at hi
    · rw [ids_map_ecopy] at hi
      obtain ⟨j, _, rfl⟩ := List.mem_map.mp hi
      omega
    · rename_i hdt
      rcases hs with h | h
      · exact absurd h hdt
      · rw [h.2.2 s hsm] at hi
        simp [Forest.ids] at hi
  · rw [ids_map_ecopy] at hi
    obtain ⟨j, _, rfl⟩ := List.mem_map.mp hi
    omega

/-! ## The property -/

/-- **Equal.**  The copy has the same classes, shape, symbol names and declarations as the
subtree it was copied from (all modes: at copy time the names still agree). -/
theorem C15_copy_equal (m : Mode) {W : World} (wf : WF W) (r : Nat) :
    view (copy m W r) (copyTree m W r) = view W (sub W r) := by
  have hlt := sub_syms_lt wf r
  simp only [List.mem_append] at hlt
  unfold copyTree
  apply view_map_copy W (copy m W r) (rho (sub W r).owned W.nsym) (rhoT m.dt (sub W r).owned W.nsym)
  · intro _; rfl
  · intro _; rfl
  · intro s hs; exact name_copy_rho m W r (hlt s (Or.inl (Or.inl hs)))
  · intro s hs; exact name_copy_rhoT m m.dt W r (hlt s (Or.inl (Or.inr hs)))
  · intro s hs
    have hd : ∀ d ∈ W.deps s, d < W.nsym := fun d hd => wf.deps_lt s d hd
    refine ⟨name_copy_rho m W r (hlt s (Or.inr hs)), ?_, ?_, ?_, ?_⟩
    · rw [rho_mem hs, links_copy_new m W r hs, List.map_map]
      apply List.map_congr_left
      intro d hdm
      exact name_copy_rhoT m m.dt W r (hd d (by simp [World.deps, hdm]))
    · rw [rho_mem hs, bounds_copy_new m W r hs]
      split
      · apply viewE_map_ecopy
        intro d hdm
        exact name_copy_rhoT m true W r (hd d (by simp [World.deps, hdm]))
      · apply viewE_congr
        intro d hdm
        exact name_copy_old m W r (hd d (by simp [World.deps, hdm]))
    · rw [rho_mem hs, init_copy_new m W r hs]
      apply viewE_map_ecopy
      intro d hdm
      exact name_copy_rhoT m m.dt W r (hd d (by simp [World.deps, hdm]))
    · rw [rho_mem hs]
      exact access_iface_copy_new m W r hs (wf.iface_lt s)
  · intro _ _; rfl

/-- the original trees are not touched by the copy: still there, same written code -/
theorem C15_copy_keeps_original (m : Mode) {W : World} (wf : WF W) (r : Nat) {t : Forest}
    (ht : t ∈ W.trees) :
    t ∈ (copy m W r).trees ∧ view (copy m W r) t = view W t := by
  refine ⟨old_tree_mem m W r ht, view_congr _ _ _ ?_ ?_ (fun _ _ => rfl)⟩
  · intro s hs; exact name_copy_old m W r (wf.syms_lt t ht s hs)
  · intro s hs
    have hs' : s < W.nsym := wf.syms_lt t ht s (List.mem_append_right _ hs)
    have hd : ∀ d ∈ W.deps s, (copy m W r).name d = W.name d :=
      fun d hd => name_copy_old m W r (wf.deps_lt s d hd)
    refine ⟨?_, ?_, ?_, ?_⟩
    · rw [links_copy_old m W r hs']
      apply List.map_congr_left
      intro d hdm
      exact hd d (by simp [World.deps, hdm])
    · rw [bounds_copy_old m W r hs']
      apply viewE_congr
      intro d hdm
      exact hd d (by simp [World.deps, hdm])
    · rw [init_copy_old m W r hs']
      apply viewE_congr
      intro d hdm
      exact hd d (by simp [World.deps, hdm])
    · rw [iface_copy_old m W r hs']
      exact access_copy_old m W r (wf.iface_lt s)

/-- **Disjoint.**  The copy shares no node identity with any tree that existed before, and the
symbols of its tables are new: none existed before, in particular none is a symbol of the
original's copied scopes (all modes). -/
theorem C15_copy_disjoint (m : Mode) {W : World} (wf : WF W) (r : Nat) :
    (∀ t ∈ W.trees, ∀ i ∈ (copyTree m W r).ids, i ∉ t.ids) ∧
    (∀ s ∈ (copyTree m W r).owned, W.nsym ≤ s ∧ s ∉ (sub W r).owned) ∧
    (∀ t ∈ W.trees, ∀ s ∈ (copyTree m W r).owned, s ∉ t.syms ++ t.tsyms ++ t.owned) := by
  refine ⟨?_, ?_, ?_⟩
  · intro t ht i hi hit
    rw [copyTree_ids] at hi
    obtain ⟨j, _, rfl⟩ := List.mem_map.mp hi
    have := wf.ids_lt t ht _ hit
    omega
  · intro s hs
    rw [copyTree_owned] at hs
    obtain ⟨o, ho, rfl⟩ := List.mem_map.mp hs
    refine ⟨by omega, fun h => ?_⟩
    have := sub_syms_lt wf r _ (List.mem_append_right _ h)
    omega
  · intro t ht s hs hst
    rw [copyTree_owned] at hs
    obtain ⟨o, ho, rfl⟩ := List.mem_map.mp hs
    have := wf.syms_lt t ht _ hst
    omega

/-- **Disjoint, inside declarations.**  With the datatype repair the expression nodes inside the
declarations of the copy (array bounds, default initialisers of derived-type components, initial
values) are new objects: none is a node of a tree that existed before, none belongs to the
declaration of any symbol that existed before. -/
theorem C15_copy_decl_disjoint {m : Mode} {W : World} (wf : WF W) (r : Nat) (hs : Sound m W r) :
    ∀ i ∈ (copy m W r).declIds (copyTree m W r).owned,
      (∀ t ∈ W.trees, i ∉ t.ids) ∧ (∀ s, i ∉ (W.bounds s).ids ++ (W.init s).ids) := by
  intro i hi
  have hge := declIds_copy_ge r hs i hi
  refine ⟨fun t ht h => ?_, fun s h => ?_⟩
  · have := wf.ids_lt t ht i h; omega
  · have := wf.decl_lt s i h; omega

/-- the copy has as many nodes and as many declared symbols as the original subtree -/
theorem C15_copy_same_size (m : Mode) (W : World) (r : Nat) :
    (copyTree m W r).ids.length = (sub W r).ids.length ∧
    (copyTree m W r).owned.length = (sub W r).owned.length := by
  rw [copyTree_ids, copyTree_owned]; simp

/-- **References internal.**  Every symbol that the written code of the copy reads — through a
reference, a loop variable, the kind of a literal, a table entry, or the datatype / initial value
of a declared symbol — is either declared by the copy itself or is an outer-scope symbol that
existed before and is not declared in the copied scopes.  Holds for the repaired code, and for the
pinned code when no datatype uses a symbol of the copied scopes. -/
theorem C15_copy_refs_internal {m : Mode} {W : World} (wf : WF W) (r : Nat)
    (hs : Sound m W r) :
    ∀ s ∈ reads (copy m W r) (copyTree m W r),
      s ∈ (copyTree m W r).owned ∨ (s < W.nsym ∧ s ∉ (sub W r).owned) := by
  intro s hsr
  rcases reads_copy wf r s hsr with ⟨o, ho, rfl⟩ | ⟨o, ho, hwhere, rfl⟩
  · exact rho_target r ho m
  · rw [rhoT_target r hs hwhere]
    exact rho_target r ho m

/-- in particular no symbol of the original's copied scopes is read by the copy -/
theorem C15_copy_reads_no_original {m : Mode} {W : World} (wf : WF W) (r : Nat)
    (hs : Sound m W r) :
    ∀ s ∈ reads (copy m W r) (copyTree m W r), s ∉ (sub W r).owned := by
  intro s hsr hmem
  rcases C15_copy_refs_internal wf r hs s hsr with h | h
  · exact ((C15_copy_disjoint m wf r).2.1 s h).2 hmem
  · exact h.2 hmem

/-- the interface objects of the copy's symbols: new ones, or the shared ones -/
theorem C15_copy_ifaces (m : Mode) {W : World} (wf : WF W) (r : Nat) :
    ∀ i ∈ (copyTree m W r).owned.map (copy m W r).iface,
      (W.nif ≤ i ∧ i < W.nif + W.nif) ∨ i ∈ sharedIfaces m W (sub W r) := by
  intro i hi
  obtain ⟨c, hc, rfl⟩ := List.mem_map.mp hi
  rw [copyTree_owned] at hc
  obtain ⟨s, hs, rfl⟩ := List.mem_map.mp hc
  rw [iface_copy_new m W r hs]
  have := wf.iface_lt s
  split
  · left; omega
  · rename_i hfr
    right
    unfold sharedIfaces
    exact List.mem_map.mpr ⟨s, List.mem_filter.mpr ⟨hs, by simp [hfr]⟩, rfl⟩

/-- a closed subtree (e.g. a whole program) is copied to a tree that reads only its own symbols -/
theorem C15_copy_closed {m : Mode} {W : World} (wf : WF W) (r : Nat)
    (hs : Sound m W r) (hc : Closed W (sub W r)) :
    ∀ s ∈ reads (copy m W r) (copyTree m W r), s ∈ (copyTree m W r).owned := by
  intro s hsr
  have inOwn : ∀ o, o ∈ (sub W r).owned → rho (sub W r).owned W.nsym o ∈ (copyTree m W r).owned := by
    intro o ho
    rw [rho_mem ho, copyTree_owned]
    exact List.mem_map.mpr ⟨o, ho, rfl⟩
  have hlt := sub_syms_lt wf r
  rcases reads_copy wf r s hsr with ⟨o, ho, rfl⟩ | ⟨o, ho, hwhere, rfl⟩
  · by_cases hm : o ∈ (sub W r).owned
    · exact inOwn o hm
    · exfalso
      unfold reads at hsr
      have key : ∀ x ∈ (sub W r).syms ++ (sub W r).tsyms ++ (sub W r).owned, x ∈ (sub W r).owned := by
        intro x hx
        rcases List.mem_append.mp hx with hx | hx
        · exact hc.1 x hx
        · exact hx
      rw [rho_not_mem hm] at hsr
      simp only [List.mem_append, List.mem_flatMap] at hsr
      have himg : ∀ x ∈ (sub W r).owned, rho (sub W r).owned W.nsym x ≠ o := by
        intro x hx; rw [rho_mem hx]; omega
      have himgT : ∀ x ∈ (sub W r).owned, rhoT m.dt (sub W r).owned W.nsym x ≠ o := by
        intro x hx hxo
        unfold rhoT at hxo
        split at hxo
        · exact himg x hx hxo
        · exact hm (hxo ▸ hx)
      rcases hsr with ((h | h) | h) | h
      · unfold copyTree at h; rw [syms_map_copy] at h
        obtain ⟨x, hx, hxo⟩ := List.mem_map.mp h
        exact himg x (key x (by simp [hx])) hxo
      · unfold copyTree at h; rw [tsyms_map_copy] at h
        obtain ⟨x, hx, hxo⟩ := List.mem_map.mp h
        exact himgT x (key x (by simp [hx])) hxo
      · unfold copyTree at h; rw [owned_map_copy] at h
        obtain ⟨x, hx, hxo⟩ := List.mem_map.mp h
        exact himg x hx hxo
      · obtain ⟨c, hcm, hd⟩ := h
        rw [copyTree_owned] at hcm
        obtain ⟨q, hq, rfl⟩ := List.mem_map.mp hcm
        rw [deps_copy_new m W r hq] at hd
        obtain ⟨x, hx, hxo⟩ := List.mem_map.mp hd
        exact himgT x (hc.2 q hq x hx) hxo
  · rw [rhoT_target r hs hwhere]
    have : o ∈ (sub W r).owned := by
      rcases hwhere with h | ⟨q, hq, h⟩
      · exact hc.1 o (by simp [h])
      · exact hc.2 q hq o h
    exact inOwn o this

theorem isNew_mem {own : List Nat} {off x : Nat} (h : isNew own off x = true) :
    ∃ q ∈ own, x = q + off := by
  simp [isNew] at h
  exact ⟨x - off, h.2, by omega⟩

/-- copies can be copied and edited again: the allocation invariant survives a copy -/
theorem C15_copy_wf (m : Mode) {W : World} (wf : WF W) (r : Nat) : WF (copy m W r) := by
  have hlt := sub_syms_lt wf r
  have hr : ∀ o, o < W.nsym → rho (sub W r).owned W.nsym o < W.nsym + W.nsym := by
    intro o ho; unfold rho; split <;> omega
  have hrT : ∀ b o, o < W.nsym → rhoT b (sub W r).owned W.nsym o < W.nsym + W.nsym := by
    intro b o ho; unfold rhoT; split
    · exact hr o ho
    · omega
  refine ⟨?_, ?_, ?_, ?_, ?_⟩
  · intro t ht i hi
    show i < W.nnode + W.nnode
    simp only [copy, List.mem_append, List.mem_singleton] at ht
    rcases ht with ht | rfl
    · have := wf.ids_lt t ht i hi; omega
    · rw [copyTree_ids] at hi
      obtain ⟨j, hj, rfl⟩ := List.mem_map.mp hi
      have := sub_ids_lt wf r j hj; omega
  · intro t ht s hs
    show s < W.nsym + W.nsym
    simp only [copy, List.mem_append, List.mem_singleton] at ht
    rcases ht with ht | rfl
    · have := wf.syms_lt t ht s hs; omega
    · simp only [List.mem_append] at hs hlt
      unfold copyTree at hs
      rw [syms_map_copy, tsyms_map_copy, owned_map_copy] at hs
      rcases hs with (hs | hs) | hs
      · obtain ⟨o, ho, rfl⟩ := List.mem_map.mp hs
        exact hr o (hlt o (Or.inl (Or.inl ho)))
      · obtain ⟨o, ho, rfl⟩ := List.mem_map.mp hs
        exact hrT _ o (hlt o (Or.inl (Or.inr ho)))
      · obtain ⟨o, ho, rfl⟩ := List.mem_map.mp hs
        exact hr o (hlt o (Or.inr ho))
  · intro s d hd
    show d < W.nsym + W.nsym
    by_cases hn : isNew (sub W r).owned W.nsym s = true
    · obtain ⟨q, hq, rfl⟩ := isNew_mem hn
      rw [deps_copy_new m W r hq] at hd
      obtain ⟨o, ho, rfl⟩ := List.mem_map.mp hd
      exact hrT _ o (wf.deps_lt q o ho)
    · have hn' : isNew (sub W r).owned W.nsym s = false := by simpa using hn
      have : (copy m W r).deps s = W.deps s := by
        simp [World.deps, copy, hn']
      rw [this] at hd
      have := wf.deps_lt s d hd; omega
  · intro s
    show (copy m W r).iface s < W.nif + W.nif
    simp only [copy]
    split
    · have := wf.iface_lt (s - W.nsym)
      split <;> omega
    · have := wf.iface_lt s; omega
  · intro s i hi
    show i < W.nnode + W.nnode
    by_cases hn : isNew (sub W r).owned W.nsym s = true
    · obtain ⟨q, hq, rfl⟩ := isNew_mem hn
      rw [bounds_copy_new m W r hq, init_copy_new m W r hq] at hi
      have hq' := wf.decl_lt q
      rcases List.mem_append.mp hi with hi | hi
      · split at hi
        · rw [ids_map_ecopy] at hi
          obtain ⟨j, hj, rfl⟩ := List.mem_map.mp hi
          have := hq' j (List.mem_append_left _ hj); omega
        · have := hq' i (List.mem_append_left _ hi); omega
      · rw [ids_map_ecopy] at hi
        obtain ⟨j, hj, rfl⟩ := List.mem_map.mp hi
        have := hq' j (List.mem_append_right _ hj); omega
    · have hn' : isNew (sub W r).owned W.nsym s = false := by simpa using hn
      have hb : (copy m W r).bounds s = W.bounds s := by simp [copy, hn']
      have hi' : (copy m W r).init s = W.init s := by simp [copy, hn']
      rw [hb, hi'] at hi
      have := wf.decl_lt s i hi; omega

theorem C15_copy_wf_iface (m : Mode) {W : World} (wf : WF W) (r : Nat) :
    ∀ s, (copy m W r).iface s < (copy m W r).nif := (C15_copy_wf m wf r).iface_lt

/-- the last clause of the property for one mode and one class of edit lists `ok`: after
`c = node.copy()`, (1) edits of the original side leave the written code of the copy equal to
that of the original subtree at copy time, and (2) edits of the copy side leave every original
tree in place with its written code unchanged. -/
def Independent (m : Mode) (ok : World → Nat → Edit → Prop) : Prop :=
  ∀ (W : World), WF W → ∀ (r : Nat) (es : List Edit), (∀ e ∈ es, ok W r e) →
    ((∀ e ∈ es, e.onOriginal W r) →
      copyTree m W r ∈ (run (copy m W r) es).trees ∧
      view (run (copy m W r) es) (copyTree m W r) = view W (sub W r)) ∧
    ((∀ e ∈ es, e.onCopy m W r) →
      ∀ t ∈ W.trees, t ∈ (run (copy m W r) es).trees ∧
        view (run (copy m W r) es) t = view W t)

/-- the FULL statement: all edits, including changes of the state of the helper objects held by
nodes (PSyKAl kernels) -/
def C15_statement_full (m : Mode) : Prop := Independent m (fun _ _ _ => True)

/-- the statement for all edits that do not change a helper object shared by a node and its copy
(for trees of the generic PSyIR, whose nodes hold none, that is all edits:
`C15_edit_independent_generic`) -/
def C15_statement (m : Mode) : Prop := Independent m (fun W r e => e.noSharedAttr W r)

/-- …and that change no attribute of a shared interface object either -/
def C15_statement_partial (m : Mode) : Prop :=
  Independent m (fun W r e => e.noSharedAttr W r ∧ e.noSharedIface m W r)

/-- edits of the original leave the copy's written code unchanged (needs `Sound`) -/
theorem C15_edit_original_keeps_copy {m : Mode} {W : World} (wf : WF W) (r : Nat)
    (hs : Sound m W r) (es : List Edit) (hna : ∀ e ∈ es, e.noSharedAttr W r)
    (hno : ∀ e ∈ es, e.noSharedIface m W r)
    (h : ∀ e ∈ es, e.onOriginal W r) :
    copyTree m W r ∈ (run (copy m W r) es).trees ∧
    view (run (copy m W r) es) (copyTree m W r) = view W (sub W r) := by
  have hint := C15_copy_refs_internal wf r hs
  have hnew := (C15_copy_disjoint m wf r).2.1
  have hlt : ∀ s ∈ reads (copy m W r) (copyTree m W r), s < (copy m W r).nsym := by
    intro s hsr
    show s < W.nsym + W.nsym
    rcases hint s hsr with h' | h'
    · rw [copyTree_owned] at h'
      obtain ⟨o, ho, rfl⟩ := List.mem_map.mp h'
      have := sub_syms_lt wf r o (List.mem_append_right _ ho)
      omega
    · omega
  have hf : ∀ e ∈ es, e.foreign (footN (copy m W r) (copyTree m W r))
      (reads (copy m W r) (copyTree m W r)) ((copyTree m W r).owned.map (copy m W r).iface)
      (copyTree m W r).attrs := by
    intro e he
    obtain ⟨h1, h2, h3⟩ := h e he
    refine ⟨fun p hp hmem => ?_, fun s hsy hmem => ?_, fun i hi hmem => ?_,
      fun a ha hmem => hna e he a ha (copyTree_attrs m W r ▸ hmem)⟩
    · have := h1 _ hp
      rcases List.mem_append.mp hmem with hmem | hmem
      · rw [copyTree_ids] at hmem
        obtain ⟨j, _, rfl⟩ := List.mem_map.mp hmem
        omega
      · have := declIds_copy_ge r hs p hmem
        omega
    · rcases h2 s hsy with hown | hbig
      · exact C15_copy_reads_no_original wf r hs s hmem hown
      · have := hlt s hmem
        have : s < W.nsym + W.nsym := this
        omega
    · rcases C15_copy_ifaces m wf r i hmem with hr | hsh
      · rcases h3 i hi with h' | h' <;> omega
      · exact hno e he i hi hsh
  have := frame (copyTree_mem m W r) hlt (C15_copy_wf_iface m wf r) es hf
  exact ⟨this.1, this.2.trans (C15_copy_equal m wf r)⟩

/-- edits of the copy leave every original tree's written code unchanged (all modes) -/
theorem C15_edit_copy_keeps_original (m : Mode) {W : World} (wf : WF W) (r : Nat)
    (es : List Edit) (hna : ∀ e ∈ es, e.noSharedAttr W r)
    (hno : ∀ e ∈ es, e.noSharedIface m W r) (h : ∀ e ∈ es, e.onCopy m W r)
    {t : Forest} (ht : t ∈ W.trees) :
    t ∈ (run (copy m W r) es).trees ∧ view (run (copy m W r) es) t = view W t := by
  obtain ⟨hmem, hview⟩ := C15_copy_keeps_original m wf r ht
  have hown : ∀ s ∈ t.owned, s < W.nsym := fun s hs => wf.syms_lt t ht s (List.mem_append_right _ hs)
  have hlt0 : ∀ s ∈ reads (copy m W r) t, s < W.nsym := by
    intro s hs
    unfold reads at hs
    rcases List.mem_append.mp hs with hs | hs
    · exact wf.syms_lt t ht s hs
    · obtain ⟨q, hq, hd⟩ := List.mem_flatMap.mp hs
      rw [deps_copy_old m W r (hown q hq)] at hd
      exact wf.deps_lt q s hd
  have hlt : ∀ s ∈ reads (copy m W r) t, s < (copy m W r).nsym := by
    intro s hs
    have := hlt0 s hs
    show s < W.nsym + W.nsym
    omega
  have hf : ∀ e ∈ es, e.foreign (footN (copy m W r) t) (reads (copy m W r) t)
      (t.owned.map (copy m W r).iface) t.attrs := by
    intro e he
    obtain ⟨h1, h2, h3, h4⟩ := h e he
    refine ⟨fun p hp hmem' => ?_, fun s hsy hmem' => ?_, fun i hi hmem' => ?_,
      fun a ha _ => hna e he a ha (copyTree_attrs m W r ▸ h4 a ha)⟩
    · have := h1 p hp
      rcases List.mem_append.mp hmem' with hmem' | hmem'
      · have := wf.ids_lt t ht p hmem'
        omega
      · obtain ⟨s, hs, hp'⟩ := List.mem_flatMap.mp hmem'
        rw [bounds_copy_old m W r (hown s hs), init_copy_old m W r (hown s hs)] at hp'
        have := wf.decl_lt s p hp'
        omega
    · have := hlt0 s hmem'
      have := h2 s hsy
      omega
    · obtain ⟨s, hs, rfl⟩ := List.mem_map.mp hmem'
      rw [iface_copy_old m W r (hown s hs)] at hi
      rcases h3 _ hi with h' | h'
      · have := wf.iface_lt s; omega
      · exact hno e he _ hi h'
  have := frame hmem hlt (C15_copy_wf_iface m wf r) es hf
  exact ⟨this.1, this.2.trans hview⟩

/-- the code with the datatype repair satisfies the statement for all edit lists that change no
attribute of a shared interface object (and no shared helper object) -/
theorem C15_edit_independent_partial (ifc : Bool) : C15_statement_partial ⟨true, ifc⟩ := by
  intro W wf r es hok
  exact ⟨C15_edit_original_keeps_copy wf r (Or.inl rfl) es (fun e he => (hok e he).1) (fun e he => (hok e he).2),
         fun h t ht => C15_edit_copy_keeps_original _ wf r es (fun e he => (hok e he).1)
           (fun e he => (hok e he).2) h ht⟩

/-- **Independent.**  The deployed code (both repairs) satisfies the statement: after
`c = node.copy()`, any edits addressing one side — that do not change a helper object shared by a
node and its copy — leave the written code of the other unchanged. -/
theorem C15_edit_independent : C15_statement deployed := by
  intro W wf r es hna
  have hno : ∀ e ∈ es, e.noSharedIface deployed W r := by
    intro e _ i _ hmem
    simp [deployed, sharedIfaces_fixed] at hmem
  exact C15_edit_independent_partial true W wf r es (fun e he => ⟨hna e he, hno e he⟩)

/-- **Independent, generic PSyIR.**  When no node of the copied subtree holds a helper object (all
trees of the generic PSyIR: checked on the real objects by the attribute walk of the harness),
the deployed code satisfies the statement for ALL edit lists. -/
theorem C15_edit_independent_generic {W : World} (wf : WF W) (r : Nat) (hg : (sub W r).attrs = [])
    (es : List Edit) :
    ((∀ e ∈ es, e.onOriginal W r) →
      copyTree deployed W r ∈ (run (copy deployed W r) es).trees ∧
      view (run (copy deployed W r) es) (copyTree deployed W r) = view W (sub W r)) ∧
    ((∀ e ∈ es, e.onCopy deployed W r) →
      ∀ t ∈ W.trees, t ∈ (run (copy deployed W r) es).trees ∧
        view (run (copy deployed W r) es) t = view W t) :=
  C15_edit_independent W wf r es (fun e _ a _ hmem => by rw [hg] at hmem; simp at hmem)

/-- **Independent, closed subtree** (e.g. the copy of a whole program): the edits of the original
may rename or retype *any* symbol that existed before the copy. -/
theorem C15_edit_independent_closed {m : Mode} {W : World} (wf : WF W) (r : Nat)
    (hs : Sound m W r) (hc : Closed W (sub W r)) (es : List Edit)
    (hna : ∀ e ∈ es, e.noSharedAttr W r)
    (hno : ∀ e ∈ es, e.noSharedIface m W r) (h : ∀ e ∈ es, e.onOriginalAny W) :
    copyTree m W r ∈ (run (copy m W r) es).trees ∧
    view (run (copy m W r) es) (copyTree m W r) = view W (sub W r) := by
  have hown := C15_copy_closed wf r hs hc
  have hnew := (C15_copy_disjoint m wf r).2.1
  have hrange : ∀ s ∈ reads (copy m W r) (copyTree m W r), W.nsym ≤ s ∧ s < W.nsym + W.nsym := by
    intro s hsr
    have h' := hown s hsr
    refine ⟨(hnew s h').1, ?_⟩
    rw [copyTree_owned] at h'
    obtain ⟨o, ho, rfl⟩ := List.mem_map.mp h'
    have := sub_syms_lt wf r o (List.mem_append_right _ ho)
    omega
  have hf : ∀ e ∈ es, e.foreign (footN (copy m W r) (copyTree m W r))
      (reads (copy m W r) (copyTree m W r)) ((copyTree m W r).owned.map (copy m W r).iface)
      (copyTree m W r).attrs := by
    intro e he
    obtain ⟨h1, h2, h3⟩ := h e he
    refine ⟨fun p hp hmem => ?_, fun s hsy hmem => ?_, fun i hi hmem => ?_,
      fun a ha hmem => hna e he a ha (copyTree_attrs m W r ▸ hmem)⟩
    · have := h1 _ hp
      rcases List.mem_append.mp hmem with hmem | hmem
      · rw [copyTree_ids] at hmem
        obtain ⟨j, _, rfl⟩ := List.mem_map.mp hmem
        omega
      · have := declIds_copy_ge r hs p hmem
        omega
    · have := hrange s hmem
      rcases h2 s hsy with h' | h' <;> omega
    · rcases C15_copy_ifaces m wf r i hmem with hr | hsh
      · rcases h3 i hi with h' | h' <;> omega
      · exact hno e he i hi hsh
  have := frame (copyTree_mem m W r) (fun s hsr => (hrange s hsr).2) (C15_copy_wf_iface m wf r) es hf
  exact ⟨this.1, this.2.trans (C15_copy_equal m wf r)⟩

/-- **Partial (pinned code).**  Without the repairs the statement holds for every subtree in which
no datatype uses a symbol declared inside the subtree (kind parameter, array bound, initial value,
kind of a literal) or holds expression nodes, and for edits that change no shared interface. -/
theorem C15_pinned_partial {W : World} (wf : WF W) (r : Nat) (ifc : Bool)
    (hn : NoSymbolInDatatype W (sub W r)) (es : List Edit) (hna : ∀ e ∈ es, e.noSharedAttr W r)
    (hno : ∀ e ∈ es, e.noSharedIface ⟨false, ifc⟩ W r) :
    ((∀ e ∈ es, e.onOriginal W r) →
      copyTree ⟨false, ifc⟩ W r ∈ (run (copy ⟨false, ifc⟩ W r) es).trees ∧
      view (run (copy ⟨false, ifc⟩ W r) es) (copyTree ⟨false, ifc⟩ W r) = view W (sub W r)) ∧
    ((∀ e ∈ es, e.onCopy ⟨false, ifc⟩ W r) →
      ∀ t ∈ W.trees, t ∈ (run (copy ⟨false, ifc⟩ W r) es).trees ∧
        view (run (copy ⟨false, ifc⟩ W r) es) t = view W t) :=
  ⟨C15_edit_original_keeps_copy wf r (Or.inr hn) es hna hno,
   fun h _ ht => C15_edit_copy_keeps_original _ wf r es hna hno h ht⟩

/-! ## The pinned code violates the property: kernel-checked witnesses

`subroutine s(n); integer, intent(in) :: n; integer, parameter :: m = 10; real, dimension(m) :: t;
t(1) = 0; end`: symbols `0 = m` (name 10), `1 = t` (name 11; the bound of its array type is the
expression node 2, a Reference to `m`), `2 = n` (name 12, an argument: interface object 2 with
access 1 = READ); node 0 is the Routine with table `[m, t, n]`, node 1 a Reference to `t`.  After
`c = s.copy()` on the pinned code the copy's `t` has the very datatype object of the original's
`t`: its bound is the same node and still refers to the original's `m`;
`rename_symbol(m, "mm")` in the original changes the declaration of `t` written for the copy. -/

def witnessWorld : World :=
  { name := fun s => if s = 0 then 10 else if s = 1 then 11 else if s = 2 then 12 else 0
    links := fun _ => []
    bounds := fun s => if s = 1 then .cons ⟨2, 2, some 0, none, none, none⟩ .nil .nil else .nil
    init := fun _ => .nil
    iface := fun s => if s < 3 then s else 0
    freshIface := fun _ => false
    access := fun i => if i = 2 then 1 else 0
    attrVal := fun _ => 0
    nsym := 3
    nif := 3
    nnode := 3
    trees := [.cons ⟨0, 0, none, none, some [0, 1, 2], none⟩ (.cons ⟨1, 1, some 1, none, none, none⟩ .nil .nil) .nil] }

def witnessEdits : List Edit := [.rename 0 0 99]

theorem witness_wf : WF witnessWorld := by
  refine ⟨?_, ?_, ?_, ?_, ?_⟩
  · intro t ht i hi
    simp only [witnessWorld, List.mem_singleton] at ht
    subst ht
    simp [Forest.ids] at hi
    rcases hi with rfl | rfl <;> simp [witnessWorld]
  · intro t ht s hs
    simp only [witnessWorld, List.mem_singleton] at ht
    subst ht
    simp [Forest.syms, Forest.tsyms, Forest.owned, NodeRec.tab] at hs
    rcases hs with rfl | rfl | rfl | rfl <;> simp [witnessWorld]
  · intro s d hd
    simp only [witnessWorld, World.deps] at hd
    split at hd
    · simp [Forest.uses, Forest.syms, Forest.tsyms] at hd; subst hd; simp [witnessWorld]
    · simp [Forest.uses, Forest.syms, Forest.tsyms] at hd
  · intro s
    simp only [witnessWorld]
    split <;> omega
  · intro s i hi
    simp only [witnessWorld] at hi
    split at hi
    · simp [Forest.ids] at hi; subst hi; simp [witnessWorld]
    · simp [Forest.ids] at hi

theorem witness_onOriginal : ∀ e ∈ witnessEdits, e.onOriginal witnessWorld 0 := by
  intro e he
  simp only [witnessEdits, List.mem_singleton] at he
  subst he
  refine ⟨by simp [Edit.nodes, witnessWorld], ?_, by simp [Edit.ifaces]⟩
  intro s hs
  simp only [Edit.symbols, List.mem_singleton] at hs
  subst hs
  left
  decide

theorem witness_noSharedIface (m : Mode) :
    ∀ e ∈ witnessEdits, e.noSharedAttr witnessWorld 0 ∧ e.noSharedIface m witnessWorld 0 := by
  intro e he
  simp only [witnessEdits, List.mem_singleton] at he
  subst he
  refine ⟨fun a ha => ?_, fun i hi => ?_⟩
  · simp [Edit.attrs] at ha
  · simp [Edit.ifaces] at hi

/-- on the pinned code the copy's written code changes when the original's `m` is renamed -/
theorem C15_datatype_ref_witness (ifc : Bool) :
    view (run (copy ⟨false, ifc⟩ witnessWorld 0) witnessEdits) (copyTree ⟨false, ifc⟩ witnessWorld 0)
      ≠ view witnessWorld (sub witnessWorld 0) := by
  cases ifc <;> decide

/-- and the repaired code does not have the problem on the same input -/
theorem C15_datatype_ref_witness_fixed :
    view (run (copy deployed witnessWorld 0) witnessEdits) (copyTree deployed witnessWorld 0)
      = view witnessWorld (sub witnessWorld 0) := by
  decide

/-- the pinned code violates even the partial statement -/
theorem C15_datatype_ref_counterexample (ifc : Bool) : ¬ C15_statement_partial ⟨false, ifc⟩ := by
  intro h
  exact C15_datatype_ref_witness ifc
    ((h witnessWorld witness_wf 0 witnessEdits (witness_noSharedIface _)).1 witness_onOriginal).2

/-- the defect is a broken `copy_refs_internal`: the pinned copy reads the original's `m` … -/
theorem C15_pinned_reads_original :
    0 ∈ reads (copy ⟨false, true⟩ witnessWorld 0) (copyTree ⟨false, true⟩ witnessWorld 0) ∧
    0 ∈ (sub witnessWorld 0).owned := by
  decide

/-- … and a broken disjointness inside declarations: the bound expression (node 2) of the copy's
`t` IS the node of the original's `t`, so re-pointing that Reference in the original (an edit of
an original node) changes the copy's declaration; the repaired code gives the copy its own node -/
theorem C15_pinned_shares_datatype_nodes :
    2 ∈ (copy ⟨false, true⟩ witnessWorld 0).declIds (copyTree ⟨false, true⟩ witnessWorld 0).owned ∧
    2 ∈ ((witnessWorld.bounds 1).ids) ∧
    view (run (copy ⟨false, true⟩ witnessWorld 0) [.setSym 2 (some 2)]) (copyTree ⟨false, true⟩ witnessWorld 0)
      ≠ view witnessWorld (sub witnessWorld 0) ∧
    (copy deployed witnessWorld 0).declIds (copyTree deployed witnessWorld 0).owned = [5] ∧
    view (run (copy deployed witnessWorld 0) [.setSym 2 (some 2)]) (copyTree deployed witnessWorld 0)
      = view witnessWorld (sub witnessWorld 0) := by
  decide

/-! ## With the datatype repair only: interface objects are shared

`n.interface.access = READWRITE` on the original's argument `n` changes the `intent` written for
the copy, because `DataSymbol.copy` passed the same `ArgumentInterface` object on.  Repaired by
fixes/C15-deepcopy-interfaces.patch (`deep_copy` copies the interface of every copied symbol). -/

def ifaceEdits : List Edit := [.setAccess 2 3]

theorem ifaceEdits_onOriginal : ∀ e ∈ ifaceEdits, e.onOriginal witnessWorld 0 := by
  intro e he
  simp only [ifaceEdits, List.mem_singleton] at he
  subst he
  refine ⟨by simp [Edit.nodes], by simp [Edit.symbols], ?_⟩
  intro i hi
  simp only [Edit.ifaces, List.mem_singleton] at hi
  subst hi
  left
  decide

theorem C15_shared_interface_witness :
    view (run (copy ⟨true, false⟩ witnessWorld 0) ifaceEdits) (copyTree ⟨true, false⟩ witnessWorld 0)
      ≠ view witnessWorld (sub witnessWorld 0) := by
  decide

/-- the code without the interface repair violates the FULL statement -/
theorem C15_shared_interface_counterexample : ¬ C15_statement ⟨true, false⟩ := by
  intro h
  exact C15_shared_interface_witness
    ((h witnessWorld witness_wf 0 ifaceEdits (fun e he a ha => by
        simp only [ifaceEdits, List.mem_singleton] at he
        subst he
        simp [Edit.attrs] at ha)).1 ifaceEdits_onOriginal).2

/-- …and the deployed code does not have the problem on the same input -/
theorem C15_shared_interface_witness_fixed :
    view (run (copy deployed witnessWorld 0) ifaceEdits) (copyTree deployed witnessWorld 0)
      = view witnessWorld (sub witnessWorld 0) := by
  decide

example : sharedIfaces ⟨true, false⟩ witnessWorld (sub witnessWorld 0) = [0, 1, 2] := by decide
example : sharedIfaces deployed witnessWorld (sub witnessWorld 0) = [] := by decide

/-! ## Helper objects held by nodes are shared (PSyKAl kernels; known findings)

A schedule (node 0) with one kernel call (node 1) that holds its `KernelArguments` object
(helper object 0, state 7).  `copy.copy` hands the same object to the copy of the kernel, so
`kern.arguments.args[i].access = …` (or `kern.set_opencl_options(…)`) on the original changes
what is written for the copy. -/

def kernWorld : World :=
  { name := fun _ => 0
    links := fun _ => []
    bounds := fun _ => .nil
    init := fun _ => .nil
    iface := fun _ => 0
    freshIface := fun _ => false
    access := fun _ => 0
    attrVal := fun a => if a = 0 then 7 else 0
    nsym := 0
    nif := 1
    nnode := 2
    trees := [.cons ⟨0, 0, none, none, some [], none⟩ (.cons ⟨1, 1, none, none, none, some 0⟩ .nil .nil) .nil] }

theorem kernWorld_wf : WF kernWorld := by
  refine ⟨?_, ?_, ?_, ?_, ?_⟩
  · intro t ht i hi
    simp only [kernWorld, List.mem_singleton] at ht
    subst ht
    simp [Forest.ids] at hi
    rcases hi with rfl | rfl <;> simp [kernWorld]
  · intro t ht s hs
    simp only [kernWorld, List.mem_singleton] at ht
    subst ht
    simp [Forest.syms, Forest.tsyms, Forest.owned, NodeRec.tab] at hs
  · intro s d hd
    simp [kernWorld, World.deps, Forest.uses, Forest.syms, Forest.tsyms] at hd
  · intro s; simp [kernWorld]
  · intro s i hi
    simp [kernWorld, Forest.ids] at hi

def attrEdits : List Edit := [.setAttr 0 9]

theorem C15_shared_attr_witness :
    view (run (copy deployed kernWorld 0) attrEdits) (copyTree deployed kernWorld 0)
      ≠ view kernWorld (sub kernWorld 0) := by
  decide

/-- the deployed code violates the FULL statement on trees whose nodes hold helper objects -/
theorem C15_shared_attr_counterexample : ¬ C15_statement_full deployed := by
  intro h
  refine C15_shared_attr_witness
    ((h kernWorld kernWorld_wf 0 attrEdits (fun _ _ => trivial)).1 ?_).2
  intro e he
  simp only [attrEdits, List.mem_singleton] at he
  subst he
  exact ⟨by simp [Edit.nodes], by simp [Edit.symbols], by simp [Edit.ifaces]⟩

/-- `attrEdits` is exactly what `noSharedAttr` excludes -/
example : (sub kernWorld 0).attrs = [0] ∧ (copyTree deployed kernWorld 0).attrs = [0] := by decide

/-! ## Non-vacuity and sanity evaluations

`module; contains; subroutine s(a); integer, parameter :: m, k = 8; real(kind=k), dimension(m) :: t;
real(kind=wp) :: a … 1.0_k … do i … (inner scope with a symbol whose bound uses m)`:
symbols 0 = `wp` (module level, imported: its copy gets a new interface in every mode), 1 = `m`,
2 = `k` (initial value: Literal node 10), 3 = `t` (link to its kind `k`, bound = Reference node 8
to `m`), 4 = `a` (link to `wp`), 5 = `i`, 6 = `tmp` (declared in the loop body's table, bound =
Reference node 9 to `m`).
Nodes: 0 Container (table [wp]) > 1 Routine (table [m,k,t,a,i]) > 2 Loop (variable i) >
3 Schedule (table [tmp]) > 4 Reference t, 5 Literal of kind k, 6 Reference a, 7 Reference tmp. -/

def demoWorld : World :=
  { name := fun s => 100 + s
    links := fun s => if s = 3 then [2] else if s = 4 then [0] else []
    bounds := fun s => if s = 3 then .cons ⟨8, 4, some 1, none, none, none⟩ .nil .nil
                       else if s = 6 then .cons ⟨9, 4, some 1, none, none, none⟩ .nil .nil else .nil
    init := fun s => if s = 2 then .cons ⟨10, 5, none, none, none, none⟩ .nil .nil else .nil
    iface := fun s => if s < 7 then s else 0
    freshIface := fun s => s = 0
    access := fun i => if i = 4 then 2 else 0
    attrVal := fun _ => 0
    nsym := 7
    nif := 7
    nnode := 11
    trees := [.cons ⟨0, 0, none, none, some [0], none⟩
      (.cons ⟨1, 1, none, none, some [1, 2, 3, 4, 5], none⟩
        (.cons ⟨2, 2, some 5, none, none, none⟩
          (.cons ⟨3, 3, none, none, some [6], none⟩
            (.cons ⟨4, 4, some 3, none, none, none⟩ .nil
              (.cons ⟨5, 5, none, some 2, none, none⟩ .nil
                (.cons ⟨6, 4, some 4, none, none, none⟩ .nil
                  (.cons ⟨7, 4, some 6, none, none, none⟩ .nil .nil)))) .nil) .nil) .nil) .nil] }

example : wfCheck demoWorld = true := by decide
example : wfCheck (copy deployed demoWorld 1) = true := by decide

/-- the routine (node 1) is found, has 7 nodes and declares 6 symbols (its own and the inner scope's) -/
example : (sub demoWorld 1).ids = [1, 2, 3, 4, 5, 6, 7] ∧ (sub demoWorld 1).owned = [1, 2, 3, 4, 5, 6] := by
  decide

/-- deployed copy of the routine: new nodes 12..18, new symbols 8..13, the link of `a` to its kind
`wp` (outer scope) still points outward, everything else at the copy's own symbols; the expression
nodes of the copied declarations are new (21 = initial value of `k`, 19 = bound of `t`, 20 = bound
of `tmp`) -/
example : (copyTree deployed demoWorld 1).ids = [12, 13, 14, 15, 16, 17, 18] ∧
    (copyTree deployed demoWorld 1).owned = [8, 9, 10, 11, 12, 13] ∧
    (copyTree deployed demoWorld 1).syms = [12, 10, 11, 13] ∧
    (copyTree deployed demoWorld 1).tsyms = [9] ∧
    (copy deployed demoWorld 1).deps 10 = [9, 8] ∧ (copy deployed demoWorld 1).deps 11 = [0] ∧
    (copy deployed demoWorld 1).deps 13 = [8] ∧
    (copy deployed demoWorld 1).declIds (copyTree deployed demoWorld 1).owned = [21, 19, 20] := by decide

/-- copying the whole program (node 0): every copied symbol gets its own interface object in the
deployed code; with the datatype repair only, just the imported `wp` does -/
example : (copy deployed demoWorld 0).iface 7 = 7 ∧ (copy deployed demoWorld 0).iface 11 = 11 ∧
    (copy ⟨true, false⟩ demoWorld 0).iface 11 = 4 ∧
    sharedIfaces ⟨true, false⟩ demoWorld (sub demoWorld 0) = [1, 2, 3, 4, 5, 6] := by decide

/-- pinned copy: the kind of the literal, the kind link and the bounds in the tables still point at
the original's `m` (1) and `k` (2); the bound nodes 8 and 9 are shared -/
example : (copyTree ⟨false, false⟩ demoWorld 1).tsyms = [2] ∧
    (copy ⟨false, false⟩ demoWorld 1).deps 10 = [2, 1] ∧ (copy ⟨false, false⟩ demoWorld 1).deps 13 = [1] ∧
    (copy ⟨false, false⟩ demoWorld 1).declIds (copyTree ⟨false, false⟩ demoWorld 1).owned = [21, 8, 9] := by
  decide

/-- `Sound`'s second alternative is satisfiable by a non-trivial subtree: the Loop (node 2) below
a routine whose symbols it uses; and it fails for the routine -/
example : noSymbolInDatatypeB demoWorld (sub demoWorld 4) = true := by decide
example : noSymbolInDatatypeB demoWorld (sub demoWorld 1) = false := by decide

/-- edit hypotheses are satisfiable: renaming `m` and `k`, adding a symbol to the routine, changing
the access of the argument's interface, giving `t` a new interface, re-declaring `t`, re-pointing
the bound expression of the original's `t` (node 8), detaching the loop, re-pointing a reference
are edits of the original side; they leave the view of the deployed copy unchanged, and change
that of the pinned copy -/
def demoEdits : List Edit :=
  [.rename 1 1 901, .rename 1 2 902, .addSym 1 77 [1] .nil .nil false, .setAccess 4 5, .setIface 3 9,
   .setSym 8 (some 5), .detach 2, .setSym 4 (some 5), .setDecl 3 [1] .nil .nil, .setFresh 3 true]

example : view (run (copy deployed demoWorld 1) demoEdits) (copyTree deployed demoWorld 1)
    = view demoWorld (sub demoWorld 1) := by decide
example : view (run (copy ⟨false, false⟩ demoWorld 1) demoEdits) (copyTree ⟨false, false⟩ demoWorld 1)
    ≠ view demoWorld (sub demoWorld 1) := by decide
/-- …and they do change the original -/
example : view (run (copy deployed demoWorld 1) demoEdits) (sub demoWorld 0) ≠ view demoWorld (sub demoWorld 0) := by
  decide

/-- the closed case is satisfiable: the whole program (node 0) uses no outer symbol -/
example : (sub demoWorld 0).syms ++ (sub demoWorld 0).tsyms = [5, 3, 4, 6, 2] ∧
    (sub demoWorld 0).owned = [0, 1, 2, 3, 4, 5, 6] := by decide
example : Closed demoWorld (sub demoWorld 0) := by unfold Closed; decide
/-- …while the routine alone is not closed (it uses the module's `wp`) -/
example : ¬ Closed demoWorld (sub demoWorld 1) := by unfold Closed; decide
example : ∀ e ∈ demoEdits, e.onOriginal demoWorld 1 := by
  unfold demoEdits Edit.onOriginal; decide
example : ∀ e ∈ [Edit.rename 13 8 5, .detach 14, .addSym 13 3 [8] .nil .nil false, .attach 13 0 14,
    .setAccess 11 1, .setSym 19 none], e.onCopy deployed demoWorld 0 := by
  unfold Edit.onCopy; decide


/-! ## Identifier case: the code re-points by normalised name

`copyL lower` is the copy as the code performs it: every re-pointing is a dict read in the new table
with the NORMALISED name of the symbol (`Model/CopyCase.lean`); symbols keep their spelling, so tables
may hold mixed-case names (`new_symbol("iCell")`, `rename_symbol(s, "tmpVal")`).  For any lower-casing
function and any spellings: when every table of the copied subtree has pairwise distinct keys (the
symbol-table invariant, C16; preserved by copy and by the edits, below), the code's copy IS the
positional copy of `Model/Copy.lean`, so every theorem above holds for it. -/

/-- **by-name = positional.** -/
theorem C15_case_copy_eq (lower : Nat → Nat) (ifc : Bool) {W : World} (r : Nat)
    (hk : TablesKeyed lower W (sub W r)) :
    copyL lower ifc W r = copy ⟨true, ifc⟩ W r ∧ copyTreeL lower W r = copyTree ⟨true, ifc⟩ W r := by
  have h1 : rhoL lower W (findIn r W.trees).tables W.nsym = rho (findIn r W.trees).owned W.nsym := by
    funext s; rw [rhoL_eq lower W hk, owned_eq_tables]
  have h2 : rhoTL lower W (findIn r W.trees).tables W.nsym = rho (findIn r W.trees).owned W.nsym := by
    funext s; rw [rhoTL_eq lower W hk, owned_eq_tables]
  constructor
  · unfold copyL; simp only [h1, h2]; exact copyG_rho W ifc r
  · unfold copyTreeL; simp only [h1, h2]; exact copyTreeG_rho W ifc r

/-- **Equal**, for the by-name copy with arbitrary spellings -/
theorem C15_case_copy_equal (lower : Nat → Nat) {W : World} (wf : WF W) (r : Nat)
    (hk : TablesKeyed lower W (sub W r)) :
    view (copyL lower true W r) (copyTreeL lower W r) = view W (sub W r) := by
  rw [(C15_case_copy_eq lower true r hk).1, (C15_case_copy_eq lower true r hk).2]
  exact C15_copy_equal deployed wf r

/-- **Internal references**, for the by-name copy: no symbol of the original's copied scopes is read -/
theorem C15_case_refs_internal (lower : Nat → Nat) {W : World} (wf : WF W) (r : Nat)
    (hk : TablesKeyed lower W (sub W r)) :
    ∀ s ∈ reads (copyL lower true W r) (copyTreeL lower W r),
      (s ∈ (copyTreeL lower W r).owned ∨ (s < W.nsym ∧ s ∉ (sub W r).owned)) ∧ s ∉ (sub W r).owned := by
  rw [(C15_case_copy_eq lower true r hk).1, (C15_case_copy_eq lower true r hk).2]
  intro s hs
  exact ⟨C15_copy_refs_internal (m := deployed) wf r (Or.inl rfl) s hs,
         C15_copy_reads_no_original (m := deployed) wf r (Or.inl rfl) s hs⟩

/-- **Independent**, for the by-name copy: the statement of `C15_statement` with `copyL` -/
theorem C15_case_edit_independent (lower : Nat → Nat) {W : World} (wf : WF W) (r : Nat)
    (hk : TablesKeyed lower W (sub W r)) (es : List Edit) (hna : ∀ e ∈ es, e.noSharedAttr W r) :
    ((∀ e ∈ es, e.onOriginal W r) →
      copyTreeL lower W r ∈ (run (copyL lower true W r) es).trees ∧
      view (run (copyL lower true W r) es) (copyTreeL lower W r) = view W (sub W r)) ∧
    ((∀ e ∈ es, e.onCopy deployed W r) →
      ∀ t ∈ W.trees, t ∈ (run (copyL lower true W r) es).trees ∧
        view (run (copyL lower true W r) es) t = view W t) := by
  rw [(C15_case_copy_eq lower true r hk).1, (C15_case_copy_eq lower true r hk).2]
  exact C15_edit_independent W wf r es hna

/-! ### the invariant is kept -/

/-- the tables of the copy have distinct keys again (the copies keep the spellings) -/
theorem C15_case_keys_copy (lower : Nat → Nat) (m : Mode) {W : World} (wf : WF W) (r : Nat)
    (hk : TablesKeyed lower W (sub W r)) :
    TablesKeyed lower (copy m W r) (copyTree m W r) := by
  intro l' hl'
  unfold copyTree at hl'
  rw [tables_map_copy] at hl'
  obtain ⟨l, hl, rfl⟩ := List.mem_map.mp hl'
  have := hk l hl
  unfold KeysDistinct at this ⊢
  rw [List.map_map]
  have hc : l.map (key lower (copy m W r) ∘ rho (findIn r W.trees).owned W.nsym) = l.map (key lower W) := by
    apply List.map_congr_left
    intro s hs
    have hlt : s < W.nsym := by
      have := sub_syms_lt wf r s
      simp only [List.mem_append] at this
      exact this (Or.inr (mem_tables_owned hl hs))
    simp only [Function.comp, key, name_copy_rho m W r hlt]
  rw [hc]; exact this

/-- `rename_symbol(s, n)` accepted (the normalised new name is not a key of the table): the table,
with `s` re-inserted at its end under the new name, has distinct keys -/
theorem C15_case_keys_rename (lower : Nat → Nat) (W : World) (p s n : Nat) {l : List Nat}
    (hk : KeysDistinct lower W l) (hok : renameOK lower W l n = true) :
    KeysDistinct lower (apply W (.rename p s n)) (l.erase s ++ [s]) := by
  unfold KeysDistinct at hk ⊢
  have hnd : l.Nodup := List.Pairwise.of_map (key lower W) (fun a b h e => h (e ▸ rfl)) hk
  have hname : ∀ t ∈ l.erase s, key lower (apply W (.rename p s n)) t = key lower W t := by
    intro t ht
    have : t ≠ s := fun h => (List.Nodup.mem_erase_iff hnd).mp ht |>.1 h
    simp [key, apply, this]
  rw [List.map_append, List.map_congr_left hname]
  have hsub : (l.erase s).map (key lower W) |>.Sublist (l.map (key lower W)) :=
    List.Sublist.map _ List.erase_sublist
  rw [List.nodup_append]
  refine ⟨List.Nodup.sublist hsub hk, by simp, ?_⟩
  intro a ha b hb
  simp only [List.map_cons, List.map_nil, List.mem_singleton] at hb
  subst hb
  intro hab
  subst hab
  have : lower n ∈ l.map (key lower W) := by
    have h := hsub.subset ha
    simpa [key, apply] using h
  simp [renameOK] at hok
  obtain ⟨t, ht, hkt⟩ := List.mem_map.mp this
  exact hok t ht hkt

/-- … and the tables that do not hold `s` keep their keys -/
theorem C15_case_keys_rename_other (lower : Nat → Nat) (W : World) (p s n : Nat) {l : List Nat}
    (hs : s ∉ l) :
    KeysDistinct lower (apply W (.rename p s n)) l ↔ KeysDistinct lower W l := by
  unfold KeysDistinct
  have : l.map (key lower (apply W (.rename p s n))) = l.map (key lower W) := by
    apply List.map_congr_left
    intro t ht
    have : t ≠ s := fun h => hs (h ▸ ht)
    simp [key, apply, this]
  rw [this]

/-- `new_symbol(n)` with a name whose key is free: the extended table has distinct keys -/
theorem C15_case_keys_add (lower : Nat → Nat) (W : World) (p n : Nat) (ls : List Nat) (bs ini : Forest)
    (fr : Bool) {l : List Nat} (hk : KeysDistinct lower W l) (hlt : ∀ t ∈ l, t < W.nsym)
    (hok : renameOK lower W l n = true) :
    KeysDistinct lower (apply W (.addSym p n ls bs ini fr)) (l ++ [W.nsym]) := by
  unfold KeysDistinct at hk ⊢
  have hname : ∀ t ∈ l, key lower (apply W (.addSym p n ls bs ini fr)) t = key lower W t := by
    intro t ht
    have : t ≠ W.nsym := Nat.ne_of_lt (hlt t ht)
    simp [key, apply, this]
  rw [List.map_append, List.map_congr_left hname, List.nodup_append]
  refine ⟨hk, by simp, ?_⟩
  intro a ha b hb
  simp only [List.map_cons, List.map_nil, List.mem_singleton] at hb
  subst hb
  intro hab
  subst hab
  simp [renameOK] at hok
  obtain ⟨t, ht, hkt⟩ := List.mem_map.mp ha
  exact hok t ht (by simpa [key, apply] using hkt)

/-- `remove(s)` keeps the keys distinct -/
theorem C15_case_keys_remove (lower : Nat → Nat) (W : World) (p s : Nat) {l : List Nat}
    (hk : KeysDistinct lower W l) :
    KeysDistinct lower (apply W (.removeSym p s)) (l.erase s) := by
  unfold KeysDistinct at hk ⊢
  have : (l.erase s).map (key lower (apply W (.removeSym p s))) = (l.erase s).map (key lower W) := by
    apply List.map_congr_left; intro t _; simp [key, apply, mapTrees]
  rw [this]
  exact List.Nodup.sublist (List.Sublist.map _ List.erase_sublist) hk

/-! ### without normalisation the copy is wrong

`copyRaw` reads the dict of the old table with the SPELLING of the symbol
(`old_symbols.get(node.symbol.name) is node.symbol`).  Every use of a symbol spelled with an upper-case
letter is then left on the original's symbol. -/

/-- a node of the copied subtree that uses a mixed-case symbol still uses the ORIGINAL's symbol in the
raw copy -/
theorem C15_case_raw_misses (lower : Nat → Nat) (W : World) (r : Nat) {s : Nat}
    (hs : s ∈ (sub W r).syms) (hm : MixedCase lower W s)
    (hidem : lower (lower (W.name s)) = lower (W.name s)) :
    s ∈ (copyTreeRaw lower W r).syms := by
  unfold copyTreeRaw copyTreeG
  simp only [syms_map_copyG]
  exact List.mem_map.mpr ⟨s, hs, rhoRaw_mixed lower W _ _ hm hidem⟩

/-- lower-casing for the witness: name 11 is `tVal`, 21 is `tval` -/
def caseLower (n : Nat) : Nat := if n = 11 then 21 else n

theorem caseWorld_keyed : TablesKeyed caseLower witnessWorld (sub witnessWorld 0) := by
  intro l hl
  have : l = [0, 1, 2] := by
    simpa [sub, findIn, Forest.find, witnessWorld, Forest.tables] using hl
  subst this
  unfold KeysDistinct
  decide

/-- `subroutine s(n); integer :: m; real :: tVal(m); tVal(1) = 0`: the keys are distinct, `tVal` is
spelled in mixed case; the raw copy's Reference still uses the original's `tVal` (symbol 1), and
renaming it in the original changes the code written for the copy; the code's copy is right -/
theorem C15_case_raw_witness :
    MixedCase caseLower witnessWorld 1 ∧
    1 ∈ reads (copyRaw caseLower true witnessWorld 0) (copyTreeRaw caseLower witnessWorld 0) ∧
    1 ∈ (sub witnessWorld 0).owned ∧
    view (run (copyRaw caseLower true witnessWorld 0) [.rename 0 1 99]) (copyTreeRaw caseLower witnessWorld 0)
      ≠ view witnessWorld (sub witnessWorld 0) ∧
    (copyTreeL caseLower witnessWorld 0).syms = [4] ∧
    view (run (copyL caseLower true witnessWorld 0) [.rename 0 1 99]) (copyTreeL caseLower witnessWorld 0)
      = view witnessWorld (sub witnessWorld 0) := by
  refine ⟨by unfold MixedCase; decide, by decide, by decide, by decide, by decide, by decide⟩

/-- so the clause "references inside the copy use the copy's own symbols" is FALSE of the raw variant -/
theorem C15_case_raw_counterexample :
    ¬ (∀ (W : World), WF W → ∀ r, TablesKeyed caseLower W (sub W r) →
        ∀ s ∈ reads (copyRaw caseLower true W r) (copyTreeRaw caseLower W r), s ∉ (sub W r).owned) := by
  intro h
  exact h witnessWorld witness_wf 0 caseWorld_keyed 1 C15_case_raw_witness.2.1 C15_case_raw_witness.2.2.1

/-- non-vacuity: the hypotheses of the case theorems hold on the witness (a table with a mixed-case name) -/
example : TablesKeyed caseLower witnessWorld (sub witnessWorld 0) ∧ MixedCase caseLower witnessWorld 1 ∧
    WF witnessWorld := ⟨caseWorld_keyed, C15_case_raw_witness.1, witness_wf⟩
example : renameOK caseLower witnessWorld [0, 1, 2] 11 = false ∧ renameOK caseLower witnessWorld [0, 1, 2] 21 = false ∧
    renameOK caseLower witnessWorld [0, 1, 2] 99 = true := by decide
example : tablesKeyedB caseLower witnessWorld (sub witnessWorld 0) = true := by decide
/-- two spellings of one key in a table: not keyed, and the by-name copy re-points to the wrong symbol -/
example : tablesKeyedB (fun _ => 0) witnessWorld (sub witnessWorld 0) = false ∧
    (copyTreeL (fun _ => 0) witnessWorld 0).syms = [3] := by decide

end C15
