import PsyVerif.Lemmas.Copy
/-! # C15 — Copies of PSyIR subtrees are independent and equal

Model: `PsyVerif/Model/Copy.lean` — `Node.copy/_refine_copy`, `ScopingNode._refine_copy`,
`SymbolTable.deep_copy` and the symbol `copy` methods.  `copy fixed W r` copies the subtree with
root identity `r` of the world `W`; `fixed = true` is the code **with
fixes/C15-deepcopy-datatype-refs.patch applied** (`C15.deployed`, the mode the harness compares
the real code with), `fixed = false` is the pinned code, which leaves the symbols reached
through datatypes (kind parameters, array bounds, initial values, kinds of literals) pointing at
the original's symbols.

Quantification: every world satisfying `WF` (any number of detached trees of any shape, any
symbol tables at any nodes, any references and datatype dependencies), every node identity `r`,
every list of edits.  Written code is any function of `view W t` (classes, shape, names of the
symbols used by nodes, declarations = names of table symbols and of the symbols their datatypes
use).

Statements:
* `C15_copy_equal`        the copy is structurally equal to the original (same `view`);
* `C15_copy_disjoint`     no node identity and no copied-scope symbol identity is shared;
* `C15_copy_refs_internal` every symbol the copy's written code reads is either declared by the
                           copy itself or is an outer-scope symbol (not declared in a copied scope);
* `C15_edit_independent`  after the copy, edits addressing only one of the two trees leave the
                           written code of the other unchanged (both directions) — for all edit
                           lists that do not change an attribute of an interface object shared by
                           a symbol and its copy (`Edit.noSharedIface`);
* `C15_shared_interface_counterexample` without that restriction the statement (`C15_statement`)
                           is false of the deployed code: `TypedSymbol.copy` and its overrides pass
                           the interface object on (known finding C15-shared-interface);
* `C15_datatype_ref_counterexample` the pinned code violates even the restricted statement;
* `C15_pinned_partial`    the pinned code satisfies it under `NoSymbolInDatatype`. -/
namespace C15

/-! ## helper lemmas: the copied tree -/

/-- the subtree being copied -/
abbrev sub (W : World) (r : Nat) : Forest := findIn r W.trees

theorem sub_ids_lt {W : World} (wf : WF W) (r : Nat) : ∀ i ∈ (sub W r).ids, i < W.nnode :=
  findIn_ids_lt r W.trees W.nnode wf.ids_lt

theorem sub_syms_lt {W : World} (wf : WF W) (r : Nat) :
    ∀ s ∈ (sub W r).syms ++ (sub W r).tsyms ++ (sub W r).owned, s < W.nsym :=
  findIn_syms_lt r W.trees W.nsym wf.syms_lt

theorem copyTree_mem (fx : Bool) (W : World) (r : Nat) : copyTree fx W r ∈ (copy fx W r).trees := by
  simp [copy]

theorem old_tree_mem (fx : Bool) (W : World) (r : Nat) {t : Forest} (h : t ∈ W.trees) :
    t ∈ (copy fx W r).trees := by
  simp [copy, h]

theorem copyTree_ids (fx : Bool) (W : World) (r : Nat) :
    (copyTree fx W r).ids = (sub W r).ids.map (· + W.nnode) := ids_map_copy ..

theorem copyTree_owned (fx : Bool) (W : World) (r : Nat) :
    (copyTree fx W r).owned = (sub W r).owned.map (· + W.nsym) := by
  unfold copyTree
  simp only [owned_map_copy]
  apply List.map_congr_left
  intro s hs
  exact rho_mem hs

/-- where the symbols used by the copy point: `rho` of where the original's pointed -/
theorem rho_target {W : World} (r : Nat) {s : Nat} (hs : s < W.nsym) (fx : Bool) :
    rho (sub W r).owned W.nsym s ∈ (copyTree fx W r).owned ∨
    (rho (sub W r).owned W.nsym s < W.nsym ∧ rho (sub W r).owned W.nsym s ∉ (sub W r).owned) := by
  by_cases hm : s ∈ (sub W r).owned
  · left
    rw [rho_mem hm, copyTree_owned]
    exact List.mem_map.mpr ⟨s, hm, rfl⟩
  · right
    rw [rho_not_mem hm]
    exact ⟨hs, hm⟩

/-- symbols the written code of the copy reads, general form: each is the image of a symbol
read by the original under `rho` (through nodes, tables) or `rhoT` (through datatypes) -/
theorem reads_copy {fx : Bool} {W : World} (wf : WF W) (r : Nat) :
    ∀ s ∈ reads (copy fx W r) (copyTree fx W r),
      (∃ o, o < W.nsym ∧ s = rho (sub W r).owned W.nsym o) ∨
      (∃ o, o < W.nsym ∧ (o ∈ (sub W r).tsyms ∨ ∃ q ∈ (sub W r).owned, o ∈ W.deps q) ∧
            s = rhoT fx (sub W r).owned W.nsym o) := by
  intro s hs
  have hlt := sub_syms_lt wf r
  simp only [List.mem_append] at hlt
  unfold reads at hs
  simp only [List.mem_append, List.mem_flatMap] at hs
  rcases hs with ((hs | hs) | hs) | hs
  · unfold copyTree at hs
    rw [syms_map_copy] at hs
    obtain ⟨o, ho, rfl⟩ := List.mem_map.mp hs
    exact Or.inl ⟨o, hlt o (Or.inl (Or.inl ho)), rfl⟩
  · unfold copyTree at hs
    rw [tsyms_map_copy] at hs
    obtain ⟨o, ho, rfl⟩ := List.mem_map.mp hs
    exact Or.inr ⟨o, hlt o (Or.inl (Or.inr ho)), Or.inl ho, rfl⟩
  · unfold copyTree at hs
    rw [owned_map_copy] at hs
    obtain ⟨o, ho, rfl⟩ := List.mem_map.mp hs
    exact Or.inl ⟨o, hlt o (Or.inr ho), rfl⟩
  · obtain ⟨c, hc, hsc⟩ := hs
    rw [copyTree_owned] at hc
    obtain ⟨q, hq, rfl⟩ := List.mem_map.mp hc
    rw [deps_copy_new fx W r hq] at hsc
    obtain ⟨o, ho, rfl⟩ := List.mem_map.mp hsc
    exact Or.inr ⟨o, wf.deps_lt q o ho, Or.inr ⟨q, hq, ho⟩, rfl⟩

/-! ## helper lemmas: the frame -/

/-- an edit is foreign to a tree with node identities `N` whose written code reads the symbols
`R` if it addresses none of them -/
def Edit.foreign (N : List Nat) (R : List Nat) (I : List Nat) (e : Edit) : Prop :=
  (∀ p ∈ e.nodes, p ∉ N) ∧ (∀ s ∈ e.symbols, s ∉ R) ∧ (∀ i ∈ e.ifaces, i ∉ I)

/-- what a foreign edit preserves of a tree `Y` that reads `R` -/
structure Kept (W₀ : World) (Y : Forest) (R : List Nat) (I : List Nat) (W : World) : Prop where
  mem : Y ∈ W.trees
  lt : ∀ s ∈ R, s < W.nsym
  name : ∀ s ∈ R, W.name s = W₀.name s
  deps : ∀ s ∈ R, W.deps s = W₀.deps s
  iface : ∀ s ∈ R, W.iface s = W₀.iface s
  acc : ∀ i ∈ I, W.access i = W₀.access i

theorem kept_apply {W₀ W : World} {Y : Forest} {R I : List Nat} (k : Kept W₀ Y R I W) (e : Edit)
    (hf : e.foreign Y.ids R I) : Kept W₀ Y R I (apply W e) := by
  obtain ⟨hn, hsy, hif⟩ := hf
  cases e with
  | rename p s n =>
    have hs : s ∉ R := hsy s (by simp [Edit.symbols])
    have hp : p ∉ Y.ids := hn p (by simp [Edit.nodes])
    refine ⟨List.mem_map.mpr ⟨Y, k.mem, map_updNode_of_not_mem p _ Y hp⟩, k.lt, fun x hx => ?_, k.deps,
      k.iface, k.acc⟩
    have : x ≠ s := fun h => hs (h ▸ hx)
    simp [apply, this, k.name x hx]
  | setDeps s ds =>
    have hs : s ∉ R := hsy s (by simp [Edit.symbols])
    refine ⟨k.mem, k.lt, k.name, fun x hx => ?_, k.iface, k.acc⟩
    have : x ≠ s := fun h => hs (h ▸ hx)
    simp [apply, this, k.deps x hx]
  | setAccess i v =>
    have hi : i ∉ I := hif i (by simp [Edit.ifaces])
    refine ⟨k.mem, k.lt, k.name, k.deps, k.iface, fun x hx => ?_⟩
    have : x ≠ i := fun h => hi (h ▸ hx)
    simp [apply, this, k.acc x hx]
  | addSym p n ds fr =>
    have hp : p ∉ Y.ids := hn p (by simp [Edit.nodes])
    refine ⟨?_, fun x hx => ?_, fun x hx => ?_, fun x hx => ?_, fun x hx => ?_, k.acc⟩
    · simp only [apply]
      exact List.mem_map.mpr ⟨Y, k.mem, map_updNode_of_not_mem p _ Y hp⟩
    · have := k.lt x hx; simp only [apply]; omega
    · have : x ≠ W.nsym := Nat.ne_of_lt (k.lt x hx)
      simp [apply, this, k.name x hx]
    · have : x ≠ W.nsym := Nat.ne_of_lt (k.lt x hx)
      simp [apply, this, k.deps x hx]
    · have : x ≠ W.nsym := Nat.ne_of_lt (k.lt x hx)
      simp [apply, this, k.iface x hx]
  | removeSym p s =>
    have hp : p ∉ Y.ids := hn p (by simp [Edit.nodes])
    exact ⟨List.mem_map.mpr ⟨Y, k.mem, map_updNode_of_not_mem p _ Y hp⟩, k.lt, k.name, k.deps, k.iface, k.acc⟩
  | setSym p s =>
    have hp : p ∉ Y.ids := hn p (by simp [Edit.nodes])
    exact ⟨List.mem_map.mpr ⟨Y, k.mem, map_updNode_of_not_mem p _ Y hp⟩, k.lt, k.name, k.deps, k.iface, k.acc⟩
  | setTSym p s =>
    have hp : p ∉ Y.ids := hn p (by simp [Edit.nodes])
    exact ⟨List.mem_map.mpr ⟨Y, k.mem, map_updNode_of_not_mem p _ Y hp⟩, k.lt, k.name, k.deps, k.iface, k.acc⟩
  | detach x =>
    have hx : x ∉ Y.ids := hn x (by simp [Edit.nodes])
    simp only [apply]
    split
    · exact k
    · refine ⟨?_, k.lt, k.name, k.deps, k.iface, k.acc⟩
      exact List.mem_append_left _ (List.mem_map.mpr ⟨Y, k.mem, remove_of_not_mem x Y hx⟩)
  | attach p i x =>
    have hp : p ∉ Y.ids := hn p (by simp [Edit.nodes])
    have hx : x ∉ Y.ids := hn x (by simp [Edit.nodes])
    simp only [apply]
    split
    · refine ⟨?_, k.lt, k.name, k.deps, k.iface, k.acc⟩
      refine List.mem_map.mpr ⟨Y, List.mem_map.mpr ⟨Y, k.mem, remove_of_not_mem x Y hx⟩, ?_⟩
      exact attach_of_not_mem p i _ Y hp
    · exact k

theorem kept_run {W₀ : World} {Y : Forest} {R I : List Nat} (es : List Edit) :
    ∀ W, Kept W₀ Y R I W → (∀ e ∈ es, e.foreign Y.ids R I) → Kept W₀ Y R I (run W es) := by
  induction es with
  | nil => intro W k _; exact k
  | cons e es ih =>
    intro W k h
    exact ih (apply W e) (kept_apply k e (h e (by simp))) (fun e' he' => h e' (by simp [he']))

theorem kept_view {W₀ W : World} {Y : Forest} (k : Kept W₀ Y (reads W₀ Y) (Y.owned.map W₀.iface) W) :
    view W Y = view W₀ Y := by
  apply view_congr
  · intro s hs
    exact k.name s (by unfold reads; exact List.mem_append_left _ hs)
  · intro s hs
    have hs' : s ∈ reads W₀ Y := by
      unfold reads; simp only [List.mem_append]; exact Or.inl (Or.inr hs)
    refine ⟨?_, ?_⟩
    · rw [k.deps s hs']
      apply List.map_congr_left
      intro d hd
      exact k.name d (by
        unfold reads; simp only [List.mem_append, List.mem_flatMap]; exact Or.inr ⟨s, hs, hd⟩)
    · rw [k.iface s hs']
      exact k.acc _ (List.mem_map.mpr ⟨s, hs, rfl⟩)

/-- **Frame.**  Edits that address neither a node of the tree `Y` nor a symbol its written code
reads leave `Y` in place and its written code unchanged. -/
theorem frame {W : World} {Y : Forest} (hY : Y ∈ W.trees) (hlt : ∀ s ∈ reads W Y, s < W.nsym)
    (es : List Edit) (h : ∀ e ∈ es, e.foreign Y.ids (reads W Y) (Y.owned.map W.iface)) :
    Y ∈ (run W es).trees ∧ view (run W es) Y = view W Y := by
  have k := kept_run es W ⟨hY, hlt, fun _ _ => rfl, fun _ _ => rfl, fun _ _ => rfl, fun _ _ => rfl⟩ h
  exact ⟨k.mem, kept_view k⟩

theorem reads_lt {W : World} (wf : WF W) {t : Forest} (ht : t ∈ W.trees) :
    ∀ s ∈ reads W t, s < W.nsym := by
  intro s hs
  unfold reads at hs
  rcases List.mem_append.mp hs with hs | hs
  · exact wf.syms_lt t ht s hs
  · obtain ⟨q, _, hd⟩ := List.mem_flatMap.mp hs
    exact wf.deps_lt q s hd

/-! ## edits "on one tree" after a copy -/

/-- an edit of the ORIGINAL side after `copy fixed W r`: it addresses nodes that existed before the
copy, and changes (renames, retypes) only symbols declared in the copied scopes or symbols created
after the copy.  (Outer-scope symbols are shared with the copy by design: the copy of a subtree
keeps referring to them, so renaming them is an edit of both trees.) -/
def Edit.onOriginal (W : World) (r : Nat) (e : Edit) : Prop :=
  (∀ p ∈ e.nodes, p < W.nnode) ∧
  (∀ s ∈ e.symbols, s ∈ (sub W r).owned ∨ W.nsym + W.nsym ≤ s) ∧
  (∀ i ∈ e.ifaces, i < W.nif ∨ W.nif + W.nif ≤ i)

/-- the same for a subtree that is closed (uses no outer-scope symbol, e.g. a whole program):
any symbol that existed before the copy may be changed -/
def Edit.onOriginalAny (W : World) (e : Edit) : Prop :=
  (∀ p ∈ e.nodes, p < W.nnode) ∧ (∀ s ∈ e.symbols, s < W.nsym ∨ W.nsym + W.nsym ≤ s) ∧
  (∀ i ∈ e.ifaces, i < W.nif ∨ W.nif + W.nif ≤ i)

/-- an edit of the COPY side: it addresses only nodes and symbols created by the copy or later -/
def Edit.onCopy (W : World) (r : Nat) (e : Edit) : Prop :=
  (∀ p ∈ e.nodes, W.nnode ≤ p) ∧ (∀ s ∈ e.symbols, W.nsym ≤ s) ∧
  (∀ i ∈ e.ifaces, W.nif ≤ i ∨ i ∈ sharedIfaces W (sub W r))

/-- the edit changes no attribute of an interface object that the copy shares with the original
(known finding C15-shared-interface: `TypedSymbol.copy` and its overrides pass the interface
object of the original on) -/
def Edit.noSharedIface (W : World) (r : Nat) (e : Edit) : Prop :=
  ∀ i ∈ e.ifaces, i ∉ sharedIfaces W (sub W r)

/-- the subtree uses no symbol of an outer scope -/
def Closed (W : World) (S : Forest) : Prop :=
  (∀ s ∈ S.syms ++ S.tsyms, s ∈ S.owned) ∧ (∀ s ∈ S.owned, ∀ d ∈ W.deps s, d ∈ S.owned)

/-- the datatype-borne symbols are re-pointed (fixed code), or there are none to re-point -/
def Sound (fixed : Bool) (W : World) (r : Nat) : Prop :=
  fixed = true ∨ NoSymbolInDatatype W (sub W r)

theorem rhoT_target {fx : Bool} {W : World} (r : Nat) (hs : Sound fx W r) {o : Nat}
    (ho : o ∈ (sub W r).tsyms ∨ ∃ q ∈ (sub W r).owned, o ∈ W.deps q) :
    rhoT fx (sub W r).owned W.nsym o = rho (sub W r).owned W.nsym o := by
  unfold rhoT
  split
  · rfl
  · rename_i hfx
    rcases hs with h | h
    · exact absurd h hfx
    · have : o ∉ (sub W r).owned := by
        rcases ho with ho | ⟨q, hq, ho⟩
        · exact h.1 o ho
        · exact h.2 q hq o ho
      rw [rho_not_mem this]

/-! ## The property -/

/-- **Equal.**  The copy has the same classes, shape, symbol names and declarations as the
subtree it was copied from (both modes: at copy time the names still agree). -/
theorem C15_copy_equal (fixed : Bool) {W : World} (wf : WF W) (r : Nat) :
    view (copy fixed W r) (copyTree fixed W r) = view W (sub W r) := by
  have hlt := sub_syms_lt wf r
  simp only [List.mem_append] at hlt
  unfold copyTree
  apply view_map_copy W (copy fixed W r) (rho (sub W r).owned W.nsym) (rhoT fixed (sub W r).owned W.nsym)
  · intro _; rfl
  · intro _; rfl
  · intro s hs; exact name_copy_rho fixed W r (hlt s (Or.inl (Or.inl hs)))
  · intro s hs; exact name_copy_rhoT fixed W r (hlt s (Or.inl (Or.inr hs)))
  · intro s hs
    refine ⟨name_copy_rho fixed W r (hlt s (Or.inr hs)), ?_, ?_⟩
    · rw [rho_mem hs, deps_copy_new fixed W r hs, List.map_map]
      apply List.map_congr_left
      intro d hd
      exact name_copy_rhoT fixed W r (wf.deps_lt s d hd)
    · rw [rho_mem hs]
      exact access_iface_copy_new fixed W r hs (wf.iface_lt s)

/-- the original trees are not touched by the copy: still there, same written code -/
theorem C15_copy_keeps_original (fixed : Bool) {W : World} (wf : WF W) (r : Nat) {t : Forest}
    (ht : t ∈ W.trees) :
    t ∈ (copy fixed W r).trees ∧ view (copy fixed W r) t = view W t := by
  refine ⟨old_tree_mem fixed W r ht, view_congr _ _ _ ?_ ?_⟩
  · intro s hs; exact name_copy_old fixed W r (wf.syms_lt t ht s hs)
  · intro s hs
    have hs' : s < W.nsym := wf.syms_lt t ht s (List.mem_append_right _ hs)
    refine ⟨?_, ?_⟩
    · rw [deps_copy_old fixed W r hs']
      apply List.map_congr_left
      intro d hd
      exact name_copy_old fixed W r (wf.deps_lt s d hd)
    · rw [iface_copy_old fixed W r hs']
      exact access_copy_old fixed W r (wf.iface_lt s)

/-- **Disjoint.**  The copy shares no node identity with any tree that existed before, and the
symbols of its tables are new: none existed before, in particular none is a symbol of the
original's copied scopes (both modes). -/
theorem C15_copy_disjoint (fixed : Bool) {W : World} (wf : WF W) (r : Nat) :
    (∀ t ∈ W.trees, ∀ i ∈ (copyTree fixed W r).ids, i ∉ t.ids) ∧
    (∀ s ∈ (copyTree fixed W r).owned, W.nsym ≤ s ∧ s ∉ (sub W r).owned) ∧
    (∀ t ∈ W.trees, ∀ s ∈ (copyTree fixed W r).owned, s ∉ t.syms ++ t.tsyms ++ t.owned) := by
  refine ⟨?_, ?_, ?_⟩
  · intro t ht i hi hit
    rw [copyTree_ids] at hi
    obtain ⟨j, _, rfl⟩ := List.mem_map.mp hi
    have := wf.ids_lt t ht _ hit
    omega
  · intro s hs
    rw [copyTree_owned] at hs
    obtain ⟨o, ho, rfl⟩ := List.mem_map.mp hs
    refine ⟨by omega, fun h => ?_⟩
    have := sub_syms_lt wf r _ (List.mem_append_right _ h)
    omega
  · intro t ht s hs hst
    rw [copyTree_owned] at hs
    obtain ⟨o, ho, rfl⟩ := List.mem_map.mp hs
    have := wf.syms_lt t ht _ hst
    omega

/-- the copy has as many nodes and as many declared symbols as the original subtree -/
theorem C15_copy_same_size (fixed : Bool) (W : World) (r : Nat) :
    (copyTree fixed W r).ids.length = (sub W r).ids.length ∧
    (copyTree fixed W r).owned.length = (sub W r).owned.length := by
  rw [copyTree_ids, copyTree_owned]; simp

/-- **References internal.**  Every symbol that the written code of the copy reads — through a
reference, a loop variable, the kind of a literal, a table entry, or the datatype / initial value
of a declared symbol — is either declared by the copy itself or is an outer-scope symbol that
existed before and is not declared in the copied scopes.  Holds for the fixed code, and for the
pinned code when no datatype uses a symbol of the copied scopes. -/
theorem C15_copy_refs_internal {fixed : Bool} {W : World} (wf : WF W) (r : Nat)
    (hs : Sound fixed W r) :
    ∀ s ∈ reads (copy fixed W r) (copyTree fixed W r),
      s ∈ (copyTree fixed W r).owned ∨ (s < W.nsym ∧ s ∉ (sub W r).owned) := by
  intro s hsr
  rcases reads_copy wf r s hsr with ⟨o, ho, rfl⟩ | ⟨o, ho, hwhere, rfl⟩
  · exact rho_target r ho fixed
  · rw [rhoT_target r hs hwhere]
    exact rho_target r ho fixed

/-- in particular no symbol of the original's copied scopes is read by the copy -/
theorem C15_copy_reads_no_original {fixed : Bool} {W : World} (wf : WF W) (r : Nat)
    (hs : Sound fixed W r) :
    ∀ s ∈ reads (copy fixed W r) (copyTree fixed W r), s ∉ (sub W r).owned := by
  intro s hsr hmem
  rcases C15_copy_refs_internal wf r hs s hsr with h | h
  · exact ((C15_copy_disjoint fixed wf r).2.1 s h).2 hmem
  · exact h.2 hmem

/-- the interface objects of the copy's symbols: new ones, or the shared ones -/
theorem C15_copy_ifaces (fixed : Bool) {W : World} (wf : WF W) (r : Nat) :
    ∀ i ∈ (copyTree fixed W r).owned.map (copy fixed W r).iface,
      (W.nif ≤ i ∧ i < W.nif + W.nif) ∨ i ∈ sharedIfaces W (sub W r) := by
  intro i hi
  obtain ⟨c, hc, rfl⟩ := List.mem_map.mp hi
  rw [copyTree_owned] at hc
  obtain ⟨s, hs, rfl⟩ := List.mem_map.mp hc
  rw [iface_copy_new fixed W r hs]
  have := wf.iface_lt s
  split
  · left; omega
  · rename_i hfr
    right
    unfold sharedIfaces
    exact List.mem_map.mpr ⟨s, List.mem_filter.mpr ⟨hs, by simp [hfr]⟩, rfl⟩

/-- a closed subtree (e.g. a whole program) is copied to a tree that reads only its own symbols -/
theorem C15_copy_closed {fixed : Bool} {W : World} (wf : WF W) (r : Nat)
    (hs : Sound fixed W r) (hc : Closed W (sub W r)) :
    ∀ s ∈ reads (copy fixed W r) (copyTree fixed W r), s ∈ (copyTree fixed W r).owned := by
  intro s hsr
  have inOwn : ∀ o, o ∈ (sub W r).owned → rho (sub W r).owned W.nsym o ∈ (copyTree fixed W r).owned := by
    intro o ho
    rw [rho_mem ho, copyTree_owned]
    exact List.mem_map.mpr ⟨o, ho, rfl⟩
  have hlt := sub_syms_lt wf r
  rcases reads_copy wf r s hsr with ⟨o, ho, rfl⟩ | ⟨o, ho, hwhere, rfl⟩
  · by_cases hm : o ∈ (sub W r).owned
    · exact inOwn o hm
    · exfalso
      unfold reads at hsr
      have key : ∀ x ∈ (sub W r).syms ++ (sub W r).tsyms ++ (sub W r).owned, x ∈ (sub W r).owned := by
        intro x hx
        rcases List.mem_append.mp hx with hx | hx
        · exact hc.1 x hx
        · exact hx
      rw [rho_not_mem hm] at hsr
      simp only [List.mem_append, List.mem_flatMap] at hsr
      have himg : ∀ x ∈ (sub W r).owned, rho (sub W r).owned W.nsym x ≠ o := by
        intro x hx; rw [rho_mem hx]; omega
      have himgT : ∀ x ∈ (sub W r).owned, rhoT fixed (sub W r).owned W.nsym x ≠ o := by
        intro x hx hxo
        unfold rhoT at hxo
        split at hxo
        · exact himg x hx hxo
        · exact hm (hxo ▸ hx)
      rcases hsr with ((h | h) | h) | h
      · unfold copyTree at h; rw [syms_map_copy] at h
        obtain ⟨x, hx, hxo⟩ := List.mem_map.mp h
        exact himg x (key x (by simp [hx])) hxo
      · unfold copyTree at h; rw [tsyms_map_copy] at h
        obtain ⟨x, hx, hxo⟩ := List.mem_map.mp h
        exact himgT x (key x (by simp [hx])) hxo
      · unfold copyTree at h; rw [owned_map_copy] at h
        obtain ⟨x, hx, hxo⟩ := List.mem_map.mp h
        exact himg x hx hxo
      · obtain ⟨c, hcm, hd⟩ := h
        rw [copyTree_owned] at hcm
        obtain ⟨q, hq, rfl⟩ := List.mem_map.mp hcm
        rw [deps_copy_new fixed W r hq] at hd
        obtain ⟨x, hx, hxo⟩ := List.mem_map.mp hd
        exact himgT x (hc.2 q hq x hx) hxo
  · rw [rhoT_target r hs hwhere]
    have : o ∈ (sub W r).owned := by
      rcases hwhere with h | ⟨q, hq, h⟩
      · exact hc.1 o (by simp [h])
      · exact hc.2 q hq o h
    exact inOwn o this

/-- the last clause of the property for one copy mode and one class of edit lists `ok`: after
`c = node.copy()`, (1) edits of the original side leave the written code of the copy equal to
that of the original subtree at copy time, and (2) edits of the copy side leave every original
tree in place with its written code unchanged. -/
def Independent (fixed : Bool) (ok : World → Nat → Edit → Prop) : Prop :=
  ∀ (W : World), WF W → ∀ (r : Nat) (es : List Edit), (∀ e ∈ es, ok W r e) →
    ((∀ e ∈ es, e.onOriginal W r) →
      copyTree fixed W r ∈ (run (copy fixed W r) es).trees ∧
      view (run (copy fixed W r) es) (copyTree fixed W r) = view W (sub W r)) ∧
    ((∀ e ∈ es, e.onCopy W r) →
      ∀ t ∈ W.trees, t ∈ (run (copy fixed W r) es).trees ∧
        view (run (copy fixed W r) es) t = view W t)

/-- the FULL statement: all edits, including changes of the attributes of interface objects -/
def C15_statement (fixed : Bool) : Prop := Independent fixed (fun _ _ _ => True)

/-- the statement for edits that change no attribute of a shared interface object -/
def C15_statement_partial (fixed : Bool) : Prop := Independent fixed Edit.noSharedIface

/-- edits of the original leave the copy's written code unchanged (needs `Sound`) -/
theorem C15_edit_original_keeps_copy {fixed : Bool} {W : World} (wf : WF W) (r : Nat)
    (hs : Sound fixed W r) (es : List Edit) (hno : ∀ e ∈ es, e.noSharedIface W r)
    (h : ∀ e ∈ es, e.onOriginal W r) :
    copyTree fixed W r ∈ (run (copy fixed W r) es).trees ∧
    view (run (copy fixed W r) es) (copyTree fixed W r) = view W (sub W r) := by
  have hint := C15_copy_refs_internal wf r hs
  have hnew := (C15_copy_disjoint fixed wf r).2.1
  have hlt : ∀ s ∈ reads (copy fixed W r) (copyTree fixed W r), s < (copy fixed W r).nsym := by
    intro s hsr
    show s < W.nsym + W.nsym
    rcases hint s hsr with h' | h'
    · rw [copyTree_owned] at h'
      obtain ⟨o, ho, rfl⟩ := List.mem_map.mp h'
      have := sub_syms_lt wf r o (List.mem_append_right _ ho)
      omega
    · omega
  have hf : ∀ e ∈ es, e.foreign (copyTree fixed W r).ids (reads (copy fixed W r) (copyTree fixed W r))
      ((copyTree fixed W r).owned.map (copy fixed W r).iface) := by
    intro e he
    obtain ⟨h1, h2, h3⟩ := h e he
    refine ⟨fun p hp hmem => ?_, fun s hsy hmem => ?_, fun i hi hmem => ?_⟩
    · rw [copyTree_ids] at hmem
      obtain ⟨j, _, rfl⟩ := List.mem_map.mp hmem
      have := h1 _ hp
      omega
    · rcases h2 s hsy with hown | hbig
      · exact C15_copy_reads_no_original wf r hs s hmem hown
      · have := hlt s hmem
        have : s < W.nsym + W.nsym := this
        omega
    · rcases C15_copy_ifaces fixed wf r i hmem with hr | hsh
      · rcases h3 i hi with h' | h' <;> omega
      · exact hno e he i hi hsh
  have := frame (copyTree_mem fixed W r) hlt es hf
  exact ⟨this.1, this.2.trans (C15_copy_equal fixed wf r)⟩

/-- edits of the copy leave every original tree's written code unchanged (both modes) -/
theorem C15_edit_copy_keeps_original (fixed : Bool) {W : World} (wf : WF W) (r : Nat)
    (es : List Edit) (hno : ∀ e ∈ es, e.noSharedIface W r) (h : ∀ e ∈ es, e.onCopy W r)
    {t : Forest} (ht : t ∈ W.trees) :
    t ∈ (run (copy fixed W r) es).trees ∧ view (run (copy fixed W r) es) t = view W t := by
  obtain ⟨hmem, hview⟩ := C15_copy_keeps_original fixed wf r ht
  have hlt0 : ∀ s ∈ reads (copy fixed W r) t, s < W.nsym := by
    intro s hs
    unfold reads at hs
    rcases List.mem_append.mp hs with hs | hs
    · exact wf.syms_lt t ht s hs
    · obtain ⟨q, hq, hd⟩ := List.mem_flatMap.mp hs
      have hq' : q < W.nsym := wf.syms_lt t ht q (List.mem_append_right _ hq)
      rw [deps_copy_old fixed W r hq'] at hd
      exact wf.deps_lt q s hd
  have hlt : ∀ s ∈ reads (copy fixed W r) t, s < (copy fixed W r).nsym := by
    intro s hs
    have := hlt0 s hs
    show s < W.nsym + W.nsym
    omega
  have hf : ∀ e ∈ es, e.foreign t.ids (reads (copy fixed W r) t) (t.owned.map (copy fixed W r).iface) := by
    intro e he
    obtain ⟨h1, h2, h3⟩ := h e he
    refine ⟨fun p hp hmem' => ?_, fun s hsy hmem' => ?_, fun i hi hmem' => ?_⟩
    · have := wf.ids_lt t ht p hmem'
      have := h1 p hp
      omega
    · have := hlt0 s hmem'
      have := h2 s hsy
      omega
    · obtain ⟨s, hs, rfl⟩ := List.mem_map.mp hmem'
      have hs' : s < W.nsym := wf.syms_lt t ht s (List.mem_append_right _ hs)
      rw [iface_copy_old fixed W r hs'] at hi
      rcases h3 _ hi with h' | h'
      · have := wf.iface_lt s; omega
      · exact hno e he _ hi h'
  have := frame hmem hlt es hf
  exact ⟨this.1, this.2.trans hview⟩

/-- **Independent.**  The fixed code satisfies the statement for all edit lists that change no
attribute of a shared interface object. -/
theorem C15_edit_independent : C15_statement_partial true := by
  intro W wf r es hno
  exact ⟨C15_edit_original_keeps_copy wf r (Or.inl rfl) es hno,
         fun h t ht => C15_edit_copy_keeps_original true wf r es hno h ht⟩

/-- **Independent, closed subtree** (e.g. the copy of a whole program): the edits of the original
may rename or retype *any* symbol that existed before the copy. -/
theorem C15_edit_independent_closed {fixed : Bool} {W : World} (wf : WF W) (r : Nat)
    (hs : Sound fixed W r) (hc : Closed W (sub W r)) (es : List Edit)
    (hno : ∀ e ∈ es, e.noSharedIface W r) (h : ∀ e ∈ es, e.onOriginalAny W) :
    copyTree fixed W r ∈ (run (copy fixed W r) es).trees ∧
    view (run (copy fixed W r) es) (copyTree fixed W r) = view W (sub W r) := by
  have hown := C15_copy_closed wf r hs hc
  have hnew := (C15_copy_disjoint fixed wf r).2.1
  have hrange : ∀ s ∈ reads (copy fixed W r) (copyTree fixed W r), W.nsym ≤ s ∧ s < W.nsym + W.nsym := by
    intro s hsr
    have h' := hown s hsr
    refine ⟨(hnew s h').1, ?_⟩
    rw [copyTree_owned] at h'
    obtain ⟨o, ho, rfl⟩ := List.mem_map.mp h'
    have := sub_syms_lt wf r o (List.mem_append_right _ ho)
    omega
  have hf : ∀ e ∈ es, e.foreign (copyTree fixed W r).ids (reads (copy fixed W r) (copyTree fixed W r))
      ((copyTree fixed W r).owned.map (copy fixed W r).iface) := by
    intro e he
    obtain ⟨h1, h2, h3⟩ := h e he
    refine ⟨fun p hp hmem => ?_, fun s hsy hmem => ?_, fun i hi hmem => ?_⟩
    · rw [copyTree_ids] at hmem
      obtain ⟨j, _, rfl⟩ := List.mem_map.mp hmem
      have := h1 _ hp
      omega
    · have := hrange s hmem
      rcases h2 s hsy with h' | h' <;> omega
    · rcases C15_copy_ifaces fixed wf r i hmem with hr | hsh
      · rcases h3 i hi with h' | h' <;> omega
      · exact hno e he i hi hsh
  have := frame (copyTree_mem fixed W r) (fun s hsr => (hrange s hsr).2) es hf
  exact ⟨this.1, this.2.trans (C15_copy_equal fixed wf r)⟩

/-- **Partial (pinned code).**  Without the fix the statement holds for every subtree in which no
datatype (kind parameter, array bound, initial value, kind of a literal) uses a symbol declared
inside the subtree. -/
theorem C15_pinned_partial {W : World} (wf : WF W) (r : Nat)
    (hn : NoSymbolInDatatype W (sub W r)) (es : List Edit) (hno : ∀ e ∈ es, e.noSharedIface W r) :
    ((∀ e ∈ es, e.onOriginal W r) →
      copyTree false W r ∈ (run (copy false W r) es).trees ∧
      view (run (copy false W r) es) (copyTree false W r) = view W (sub W r)) ∧
    ((∀ e ∈ es, e.onCopy W r) →
      ∀ t ∈ W.trees, t ∈ (run (copy false W r) es).trees ∧
        view (run (copy false W r) es) t = view W t) :=
  ⟨C15_edit_original_keeps_copy wf r (Or.inr hn) es hno,
   fun h _ ht => C15_edit_copy_keeps_original false wf r es hno h ht⟩

/-- copies can be copied and edited again: the allocation invariant survives a copy -/
theorem C15_copy_wf (fixed : Bool) {W : World} (wf : WF W) (r : Nat) : WF (copy fixed W r) := by
  have hlt := sub_syms_lt wf r
  refine ⟨?_, ?_, ?_, ?_⟩
  · intro t ht i hi
    show i < W.nnode + W.nnode
    simp only [copy, List.mem_append, List.mem_singleton] at ht
    rcases ht with ht | rfl
    · have := wf.ids_lt t ht i hi; omega
    · rw [copyTree_ids] at hi
      obtain ⟨j, hj, rfl⟩ := List.mem_map.mp hi
      have := sub_ids_lt wf r j hj; omega
  · intro t ht s hs
    show s < W.nsym + W.nsym
    simp only [copy, List.mem_append, List.mem_singleton] at ht
    rcases ht with ht | rfl
    · have := wf.syms_lt t ht s hs; omega
    · have hr : ∀ o, o < W.nsym → rho (sub W r).owned W.nsym o < W.nsym + W.nsym := by
        intro o ho; unfold rho; split <;> omega
      have hrT : ∀ o, o < W.nsym → rhoT fixed (sub W r).owned W.nsym o < W.nsym + W.nsym := by
        intro o ho; unfold rhoT; split
        · exact hr o ho
        · omega
      simp only [List.mem_append] at hs hlt
      unfold copyTree at hs
      rw [syms_map_copy, tsyms_map_copy, owned_map_copy] at hs
      rcases hs with (hs | hs) | hs
      · obtain ⟨o, ho, rfl⟩ := List.mem_map.mp hs
        exact hr o (hlt o (Or.inl (Or.inl ho)))
      · obtain ⟨o, ho, rfl⟩ := List.mem_map.mp hs
        exact hrT o (hlt o (Or.inl (Or.inr ho)))
      · obtain ⟨o, ho, rfl⟩ := List.mem_map.mp hs
        exact hr o (hlt o (Or.inr ho))
  · intro s d hd
    show d < W.nsym + W.nsym
    simp only [copy] at hd
    split at hd
    · obtain ⟨o, ho, rfl⟩ := List.mem_map.mp hd
      have := wf.deps_lt _ o ho
      unfold rhoT rho
      split
      · split <;> omega
      · omega
    · have := wf.deps_lt s d hd; omega
  · intro s
    show (copy fixed W r).iface s < W.nif + W.nif
    simp only [copy]
    split
    · have := wf.iface_lt (s - W.nsym)
      split <;> omega
    · have := wf.iface_lt s; omega

/-! ## The pinned code violates the property: kernel-checked witness

`subroutine s(n); integer, intent(in) :: n; integer, parameter :: m = 10; real, dimension(m) :: t;
t(1) = 0; end`: symbols `0 = m` (name 10), `1 = t` (name 11, its array bound refers to `m`),
`2 = n` (name 12, an argument: interface object 2 with access 1 = READ); node 0 is the Routine
with table `[m, t, n]`, node 1 a Reference to `t`.  After `c = s.copy()` on the pinned code the
bound of the copy's `t` still refers to the original's `m`; `rename_symbol(m, "mm")` in the
original changes the declaration of `t` written for the copy. -/

def witnessWorld : World :=
  { name := fun s => if s = 0 then 10 else if s = 1 then 11 else if s = 2 then 12 else 0
    deps := fun s => if s = 1 then [0] else []
    iface := fun s => if s < 3 then s else 0
    freshIface := fun _ => false
    access := fun i => if i = 2 then 1 else 0
    nsym := 3
    nif := 3
    nnode := 2
    trees := [.cons ⟨0, 0, none, none, some [0, 1, 2]⟩ (.cons ⟨1, 1, some 1, none, none⟩ .nil .nil) .nil] }

def witnessEdits : List Edit := [.rename 0 0 99]

theorem witness_wf : WF witnessWorld := by
  refine ⟨?_, ?_, ?_, ?_⟩
  · intro t ht i hi
    simp only [witnessWorld, List.mem_singleton] at ht
    subst ht
    simp [Forest.ids] at hi
    rcases hi with rfl | rfl <;> simp [witnessWorld]
  · intro t ht s hs
    simp only [witnessWorld, List.mem_singleton] at ht
    subst ht
    simp [Forest.syms, Forest.tsyms, Forest.owned, NodeRec.tab] at hs
    rcases hs with rfl | rfl | rfl | rfl <;> simp [witnessWorld]
  · intro s d hd
    simp only [witnessWorld] at hd
    split at hd
    · simp at hd; subst hd; simp [witnessWorld]
    · simp at hd
  · intro s
    simp only [witnessWorld]
    split <;> omega

theorem witness_onOriginal : ∀ e ∈ witnessEdits, e.onOriginal witnessWorld 0 := by
  intro e he
  simp only [witnessEdits, List.mem_singleton] at he
  subst he
  refine ⟨by simp [Edit.nodes, witnessWorld], ?_, by simp [Edit.ifaces]⟩
  intro s hs
  simp only [Edit.symbols, List.mem_singleton] at hs
  subst hs
  left
  decide

theorem witness_noSharedIface : ∀ e ∈ witnessEdits, e.noSharedIface witnessWorld 0 := by
  intro e he
  simp only [witnessEdits, List.mem_singleton] at he
  subst he
  intro i hi
  simp [Edit.ifaces] at hi

/-- on the pinned code the copy's written code changes when the original's `m` is renamed -/
theorem C15_datatype_ref_witness :
    view (run (copy false witnessWorld 0) witnessEdits) (copyTree false witnessWorld 0)
      ≠ view witnessWorld (sub witnessWorld 0) := by
  decide

/-- and the fixed code does not have the problem on the same input -/
theorem C15_datatype_ref_witness_fixed :
    view (run (copy true witnessWorld 0) witnessEdits) (copyTree true witnessWorld 0)
      = view witnessWorld (sub witnessWorld 0) := by
  decide

/-- the pinned code violates even the partial statement -/
theorem C15_datatype_ref_counterexample : ¬ C15_statement_partial false := by
  intro h
  exact C15_datatype_ref_witness
    ((h witnessWorld witness_wf 0 witnessEdits witness_noSharedIface).1 witness_onOriginal).2

/-- the defect is exactly a broken `copy_refs_internal`: the pinned copy reads the original's `m` -/
theorem C15_pinned_reads_original :
    0 ∈ reads (copy false witnessWorld 0) (copyTree false witnessWorld 0) ∧
    0 ∈ (sub witnessWorld 0).owned := by
  decide

/-! ## Known finding: interface objects are shared (both pinned and fixed code)

`n.interface.access = READWRITE` on the original's argument `n` changes the `intent` written for
the copy, because `DataSymbol.copy` passed the same `ArgumentInterface` object on. -/

def ifaceEdits : List Edit := [.setAccess 2 3]

theorem ifaceEdits_onOriginal : ∀ e ∈ ifaceEdits, e.onOriginal witnessWorld 0 := by
  intro e he
  simp only [ifaceEdits, List.mem_singleton] at he
  subst he
  refine ⟨by simp [Edit.nodes], by simp [Edit.symbols], ?_⟩
  intro i hi
  simp only [Edit.ifaces, List.mem_singleton] at hi
  subst hi
  left
  decide

theorem C15_shared_interface_witness :
    view (run (copy true witnessWorld 0) ifaceEdits) (copyTree true witnessWorld 0)
      ≠ view witnessWorld (sub witnessWorld 0) := by
  decide

/-- the deployed (fixed) code violates the FULL statement -/
theorem C15_shared_interface_counterexample : ¬ C15_statement true := by
  intro h
  exact C15_shared_interface_witness
    ((h witnessWorld witness_wf 0 ifaceEdits (fun _ _ => trivial)).1 ifaceEdits_onOriginal).2

/-- the interface object of `n` is indeed one of the shared ones, so `ifaceEdits` is excluded by
`noSharedIface` — and only such edits are -/
example : sharedIfaces witnessWorld (sub witnessWorld 0) = [0, 1, 2] := by decide
example : ¬ (∀ e ∈ ifaceEdits, e.noSharedIface witnessWorld 0) := by
  unfold ifaceEdits Edit.noSharedIface; decide

/-! ## Non-vacuity and sanity evaluations

`module; contains; subroutine s(a); integer, parameter :: m, k; real(kind=k), dimension(m) :: t;
real(kind=wp) :: a … 1.0_k … do i … (inner scope with a symbol whose bound uses m)`:
symbols 0 = `wp` (module level, imported: its copy gets a new interface), 1 = `m`, 2 = `k`,
3 = `t` (deps m, k), 4 = `a` (deps wp), 5 = `i`, 6 = `tmp` (declared in the loop body's table,
bound uses `m`).
Nodes: 0 Container (table [wp]) > 1 Routine (table [m,k,t,a,i]) > 2 Loop (variable i) >
3 Schedule (table [tmp]) > 4 Reference t, 5 Literal of kind k, 6 Reference a, 7 Reference tmp. -/

def demoWorld : World :=
  { name := fun s => 100 + s
    deps := fun s => if s = 3 then [1, 2] else if s = 4 then [0] else if s = 6 then [1] else []
    iface := fun s => if s < 7 then s else 0
    freshIface := fun s => s = 0
    access := fun i => if i = 4 then 2 else 0
    nsym := 7
    nif := 7
    nnode := 8
    trees := [.cons ⟨0, 0, none, none, some [0]⟩
      (.cons ⟨1, 1, none, none, some [1, 2, 3, 4, 5]⟩
        (.cons ⟨2, 2, some 5, none, none⟩
          (.cons ⟨3, 3, none, none, some [6]⟩
            (.cons ⟨4, 4, some 3, none, none⟩ .nil
              (.cons ⟨5, 5, none, some 2, none⟩ .nil
                (.cons ⟨6, 4, some 4, none, none⟩ .nil
                  (.cons ⟨7, 4, some 6, none, none⟩ .nil .nil)))) .nil) .nil) .nil) .nil] }

example : wfCheck demoWorld = true := by decide
example : wfCheck (copy true demoWorld 1) = true := by decide

/-- the routine (node 1) is found, has 7 nodes and declares 6 symbols (its own and the inner scope's) -/
example : (sub demoWorld 1).ids = [1, 2, 3, 4, 5, 6, 7] ∧ (sub demoWorld 1).owned = [1, 2, 3, 4, 5, 6] := by
  decide

/-- fixed copy of the routine: new nodes 9..15, new symbols 8..13, the reference to `a`'s kind `wp`
(outer scope) still points outward, everything else at the copy's own symbols -/
example : (copyTree true demoWorld 1).ids = [9, 10, 11, 12, 13, 14, 15] ∧
    (copyTree true demoWorld 1).owned = [8, 9, 10, 11, 12, 13] ∧
    (copyTree true demoWorld 1).syms = [12, 10, 11, 13] ∧
    (copyTree true demoWorld 1).tsyms = [9] ∧
    (copy true demoWorld 1).deps 10 = [8, 9] ∧ (copy true demoWorld 1).deps 11 = [0] ∧
    (copy true demoWorld 1).deps 13 = [8] := by decide

/-- copying the whole program (node 0): the imported `wp` gets a new interface object (7 + 0),
the other symbols share theirs -/
example : (copy true demoWorld 0).iface 7 = 7 ∧ (copy true demoWorld 0).iface 11 = 4 ∧
    sharedIfaces demoWorld (sub demoWorld 0) = [1, 2, 3, 4, 5, 6] := by decide

/-- pinned copy: the kind of the literal and the bounds/kinds in the tables still point at the
original's `m` (1) and `k` (2) -/
example : (copyTree false demoWorld 1).tsyms = [2] ∧
    (copy false demoWorld 1).deps 10 = [1, 2] ∧ (copy false demoWorld 1).deps 13 = [1] := by decide

/-- `Sound`'s second alternative is satisfiable by a non-trivial subtree: the loop body (node 3)
declares `tmp` whose bound uses the *outer* `m` -/
example : noSymbolInDatatypeB demoWorld (sub demoWorld 3) = true ∧ (sub demoWorld 3).owned = [6] := by decide
example : noSymbolInDatatypeB demoWorld (sub demoWorld 1) = false := by decide

/-- edit hypotheses are satisfiable: renaming `m` and `k`, adding a symbol to the routine,
detaching the loop, re-pointing a reference, changing the access of a symbol created after the copy
are edits of the original side that touch no shared interface; they leave the view of the fixed
copy unchanged, and change that of the pinned copy -/
def demoEdits : List Edit :=
  [.rename 1 1 901, .rename 1 2 902, .addSym 1 77 [1] false, .setAccess 14 5, .detach 2,
   .setSym 4 (some 5), .setDeps 3 [1]]

example : view (run (copy true demoWorld 1) demoEdits) (copyTree true demoWorld 1)
    = view demoWorld (sub demoWorld 1) := by decide
example : view (run (copy false demoWorld 1) demoEdits) (copyTree false demoWorld 1)
    ≠ view demoWorld (sub demoWorld 1) := by decide
/-- …and they do change the original -/
example : view (run (copy true demoWorld 1) demoEdits) (sub demoWorld 0) ≠ view demoWorld (sub demoWorld 0) := by
  decide

/-- the closed case is satisfiable: the whole program (node 0) uses no outer symbol -/
example : (sub demoWorld 0).syms ++ (sub demoWorld 0).tsyms = [5, 3, 4, 6, 2] ∧
    (sub demoWorld 0).owned = [0, 1, 2, 3, 4, 5, 6] := by decide
example : Closed demoWorld (sub demoWorld 0) := by unfold Closed; decide
/-- …while the routine alone is not closed (it uses the module's `wp`) -/
example : ¬ Closed demoWorld (sub demoWorld 1) := by unfold Closed; decide
example : ∀ e ∈ demoEdits, e.onOriginal demoWorld 1 ∧ e.noSharedIface demoWorld 1 := by
  unfold demoEdits Edit.onOriginal Edit.noSharedIface; decide
example : ∀ e ∈ [Edit.rename 9 8 5, .detach 10, .addSym 9 3 [8] false, .attach 9 0 10, .setAccess 7 1],
    e.onCopy demoWorld 0 ∧ e.noSharedIface demoWorld 0 := by
  unfold Edit.onCopy Edit.noSharedIface; decide

end C15
