import PsyVerif.Lemmas.ArrayLowerNest
/-! # C06 — array-syntax and intrinsic lowering preserve semantics

Model: `Model/ArrayLower.lean` (namespace `C06`).  The model follows the code with the repairs of
`fixes/C06-arrayassign-overlap-stride-reduction-result.patch` (now in /repo); the behaviour of the pinned
`validate` is kept as `validateAA_pinned` with kernel-checked counterexamples.  Stores are compared on
every variable except the fresh names the transformation introduces (`AgreeOn (fun y => y ≠ idx …)`).

Proved here, for all stores / extents (incl. empty) / bounds / strides, and tied to the real code by the
correspondence check of `harness/props/c06.py` (real accept/refuse + exported output = model):
* ArrayAssignment2LoopsTrans, one range (`C06_arrayassign_sound`) and two ranges → loop nest
  (`C06_arrayassign2_sound`); pinned-code counterexamples (overlap, stride);
* Abs/Sign/Min/Max2CodeTrans (`C06_abs2code_sound`, `C06_sign2code_sound`, `C06_minmax2code_sound`);
* Sum/Product/Minval/Maxval2LoopTrans with mask, context, both accumulator modes
  (`C06_reduction2loop_sound`, `C06_reduction_accumulator_sound`, in-place counterexample); DIM refused;
* DotProduct2CodeTrans, whole arrays and slices, under equal lower bounds (`C06_dot_sound_partial`,
  `C06_dotslice_sound_partial`); Matmul2CodeTrans matrix-vector and matrix-matrix under `matvecAligned` /
  `matmatAligned` (`C06_matvec_sound_partial`, `C06_matmul_sound_partial`); the negations are the known
  findings, with kernel-checked counterexamples;
* ArrayAccess2LoopTrans (`C06_arrayaccess2loop_sound`); Reference2ArrayRangeTrans on declared bounds
  (`C06_ref2range_sound`).
Evaluated with gfortran only (no Lean statement): sections with more than two ranges or on arrays of rank > 2,
structure members, reductions over rank-2 sections (the loop nest is the one of `C06_arrayassign2_sound`
around the accumulator statement), matrix operands with extra fixed dimensions, AllArrayAccess2LoopTrans. -/
namespace C06
open MiniF

theorem validateAA_none (a : AAIn) (hv : validateAA a = none) (hno : a.allowOverlap = false) :
    a.badCall = false ∧ (∀ s ∈ a.rhs.secs, s.st = a.lhs.st) ∧
    (∀ s ∈ a.rhs.secs, s.arr = a.lhs.arr → s.fix.kind = a.lhs.fix.kind ∧ s.lo = a.lhs.lo) ∧
    a.lhs.arr ∉ a.rhs.svars ++ a.lhs.svars := by
  unfold validateAA at hv
  split at hv; · simp at hv
  split at hv; · simp at hv
  split at hv; · simp at hv
  rename_i h1 h2 h3
  simp only [hno, Bool.not_false, Bool.true_and, Bool.not_eq_true', Bool.not_eq_false] at h3
  simp only [Bool.not_eq_true', Bool.not_eq_false, strideOK, List.all_eq_true, decide_eq_true_eq] at h2
  simp only [overlapOK, Bool.and_eq_true, List.all_eq_true, Bool.or_eq_true, bne_iff_ne, ne_eq,
    Bool.not_eq_true', List.contains_eq_mem, decide_eq_false_iff_not] at h3
  refine ⟨by simpa using h1, h2, ?_, h3.2⟩
  intro s hs harr
  rcases h3.1 s hs with h | h
  · exact absurd harr h
  · simp only [sameRanges, Bool.and_eq_true, beq_iff_eq, decide_eq_true_eq] at h
    exact ⟨h.1.1.1, h.1.1.2⟩

/-! ## The property -/

/-- the full statement for array assignments, parametrised by the `validate` in force -/
def C06_arrayassign_statement (validate : AAIn → Option Refusal) : Prop :=
  ∀ (idx : Nat) (a : AAIn), validate a = none → a.allowOverlap = false →
    idx ∉ a.lhs.arr :: (a.lhs.svars ++ a.rhs.allvars) →
    ∀ σ : Store, AgreeOn (fun y => y ≠ idx) (exec (applyAA idx a) σ) (execAA a σ)

/-- **ArrayAssignment2LoopsTrans (fixed validate)**: whenever the assignment is accepted, the
generated loop computes the Fortran array assignment (rhs evaluated before any store), for
every store, every extent (including empty and negative-stride sections) and arbitrary bounds. -/
theorem C06_arrayassign_sound : C06_arrayassign_statement validateAA := by
  intro idx a hv hno hidx σ
  obtain ⟨_, hstride, hsame, hsc⟩ := validateAA_none a hv hno
  intro y hy i j
  simp only [applyAA, exec, runIters_eq_iters, execAA, Sec.count]
  rw [Store.set_other _ _ (loc_ne i j hy)]
  by_cases hst : eval a.lhs.st σ = 0
  · simp [trip, hst, iters, writeVals]
  · exact applyAA_iters idx a σ hstride hsame hsc hidx hst _ y hy i j

/-- `a(2:10) = a(1:9)` (array 0) -/
def overlapWitness : AAIn :=
  { lhs := ⟨0, .r1, .lit 2, .lit 10, .lit 1⟩, rhs := .sec ⟨0, .r1, .lit 1, .lit 9, .lit 1⟩,
    badCall := false, allowOverlap := false }

/-- `a(1:9:2) = b(1:5)` (arrays 0, 1) -/
def strideWitness : AAIn :=
  { lhs := ⟨0, .r1, .lit 1, .lit 9, .lit 2⟩, rhs := .sec ⟨1, .r1, .lit 1, .lit 5, .lit 1⟩,
    badCall := false, allowOverlap := false }

def witnessStore : Store :=
  storeOf [((0, 1, 0), 1), ((0, 2, 0), 2), ((0, 3, 0), 3), ((1, 1, 0), 11), ((1, 2, 0), 12), ((1, 3, 0), 13)]

/-- the pinned `validate` accepts `a(2:10) = a(1:9)` and the forward loop smears `a(1)`:
Fortran gives `a(3) = 2`, the loop gives `a(3) = 1`. -/
theorem C06_arrayassign_overlap_counterexample : ¬ C06_arrayassign_statement validateAA_pinned := by
  intro h
  have := h 7 overlapWitness (by decide) rfl (by decide) witnessStore 0 (by decide) 3 0
  revert this
  decide

/-- the pinned `validate` accepts `a(1:9:2) = b(1:5)` and the loop reads `b(3)` instead of `b(2)`. -/
theorem C06_arrayassign_stride_counterexample :
    validateAA_pinned strideWitness = none ∧
    (exec (applyAA 7 strideWitness) witnessStore) (0, 3, 0) ≠ (execAA strideWitness witnessStore) (0, 3, 0) := by
  decide

/-- the fixed `validate` refuses both witnesses -/
theorem C06_arrayassign_refuses_witnesses :
    validateAA overlapWitness = some .overlap ∧ validateAA strideWitness = some .stride := by decide

/-- **Abs2CodeTrans**: `tmp = X; IF (tmp > 0) res = tmp ELSE res = tmp * -1; S` computes `S[res := ABS(X)]`. -/
theorem C06_abs2code_sound (res tmp : Nat) (x : Expr) (s : Asg)
    (htmp : tmp ∉ s.vars) (hres : res ∉ s.tgt.iarrs ++ arrs s.rhs) (σ : Store) :
    AgreeOn (fun y => y ≠ tmp ∧ y ≠ res) (exec (abs2code res tmp x s) σ) (exec (absOrig res x s) σ) := by
  exact prefix_then_asg (absCode res tmp x) s res (.un .abs x) (fun y => y = tmp) σ
    (by
      rw [exec_absCode]
      intro y hy i j
      simp only [Store.set_apply, eval]
      split
      · rfl
      · rw [if_neg]; intro h; exact hy (congrArg Prod.fst h))
    (fun y hy h => htmp (h ▸ hy)) hres

/-- **Sign2CodeTrans** (including the nested Abs2CodeTrans): computes `S[res := SIGN(A, B)]`,
in particular `SIGN(A, 0) = |A|`. -/
theorem C06_sign2code_sound (res tmp ares atmp : Nat) (a b : Expr) (s : Asg) (h1 : res ≠ tmp)
    (hb : ∀ y ∈ vars b, y ≠ res ∧ y ≠ ares ∧ y ≠ atmp)
    (hs : ∀ y ∈ s.vars, y ≠ tmp ∧ y ≠ ares ∧ y ≠ atmp)
    (hres : res ∉ s.tgt.iarrs ++ arrs s.rhs) (σ : Store) :
    AgreeOn (fun y => ¬ (y = tmp ∨ y = ares ∨ y = atmp) ∧ y ≠ res)
      (exec (sign2code res tmp ares atmp a b s) σ) (exec (signOrig res a b s) σ) := by
  exact prefix_then_asg (signCode res tmp ares atmp a b) s res (.bin .sign a b) _ σ
    (exec_signCode_agree res tmp ares atmp a b σ h1 hb)
    (fun y hy h => by have := hs y hy; rcases h with h | h | h <;> simp_all) hres

/-- **Min2CodeTrans / Max2CodeTrans** for any number of arguments: computes
`S[res := MIN(A, B, C, …)]` (resp. MAX). -/
theorem C06_minmax2code_sound (isMax : Bool) (res tmp : Nat) (a : Expr) (rest : List Expr) (s : Asg)
    (hne : res ≠ tmp) (hargs : ∀ b ∈ rest, ∀ y ∈ vars b, y ≠ res ∧ y ≠ tmp)
    (htmp : tmp ∉ s.vars) (hres : res ∉ s.tgt.iarrs ++ arrs s.rhs) (σ : Store) :
    AgreeOn (fun y => y ≠ tmp ∧ y ≠ res) (exec (minmax2code isMax res tmp a rest s) σ)
      (exec (minmaxOrig isMax res a rest s) σ) := by
  exact prefix_then_asg (mmCode isMax res tmp a rest) s res (mmExpr isMax a rest) (fun y => y = tmp) σ
    (exec_mmCode isMax res tmp a rest σ hne hargs) (fun y hy h => htmp (h ▸ hy)) hres


/-- **Sum/Product/Minval/Maxval2LoopTrans (with the repairs of the patch)**: whenever the
transformation succeeds, `acc = init; DO idx …; [IF (mask)] acc = acc ⊕ expr(idx); [tgt = ctx[acc]]`
computes the original assignment `tgt = ctx[INTRINSIC(expr, mask)]`, where the value of the intrinsic
is the fold of ⊕ over the (masked) elements of the section in element order, starting from
0 / 1 / HUGE / -HUGE — for all stores, all extents (including empty) and all bounds/strides. -/
theorem C06_reduction2loop_sound (idx tmp : Nat) (r : RedIn) (lead : Sec) (rest : List Sec) (s : Stmt)
    (hlead : r.expr.secs = lead :: rest) (ht : transRed idx tmp r = .ok s)
    (hf : RedFresh idx tmp r) (σ : Store) :
    AgreeOn (fun y => y ≠ idx ∧ y ≠ tmp ∧ y ≠ r.hole) (exec s σ) (execRedOrig r lead σ) :=
  reduction2loop_sound_aux idx tmp r lead rest s hlead ht hf σ


/-- **both accumulator modes**: initialisation + loop leave the value of the reduction in ANY accumulator
`acc` — the target itself (in place) or the temporary — under the side condition that the accumulator's
symbol is read neither by the reduced expression, nor by the mask, nor by its own index expressions.
`transRed` accumulates in place exactly when `RedIn.increment = false`, which implies this condition for
`acc = tgt`; otherwise it uses the fresh temporary, for which the condition is freshness. -/
theorem C06_reduction_accumulator_sound (idx : Nat) (r : RedIn) (lead : Sec) (acc : Tgt) (σ : Store)
    (hlead : lead ∈ r.expr.secs)
    (hstride : ∀ s ∈ r.expr.secs, s.st = lead.st) (hstrideM : ∀ s ∈ maskSecs r.mask, s.st = lead.st)
    (hacc : acc.sym ∉ r.expr.allvars ++ maskVars r.mask ++ acc.ivars) (hai : acc.sym ≠ idx)
    (hidx : idx ∉ r.expr.allvars ++ maskVars r.mask ++ acc.ivars) :
    AgreeOn (fun y => y ≠ idx)
      (exec (.seq (acc.assign (r.kind.init r.huge)) (redLoop idx r lead acc)) σ)
      (σ.set (acc.loc σ) (redVal r lead σ)) :=
  red_core idx r lead acc σ hlead hstride hstrideM hacc hai hidx

/-- `a(1) = SUM(a(1:3))` (array 0): the target is an element of the reduced array -/
def selfWitness : RedIn :=
  ⟨.sum, .sec ⟨0, .r1, .lit 1, .lit 3, .lit 1⟩, none, false, .e1 0 (.lit 1), 9, .var 9, 1000⟩

def selfStore : Store := storeOf [((0, 1, 0), 5), ((0, 2, 0), 7), ((0, 3, 0), 11)]

/-- the side condition is necessary: accumulating `a(1) = SUM(a(1:3))` in place overwrites `a(1)` with the
initial value before the loop reads it (18 instead of 23) … -/
theorem C06_reduction_inplace_counterexample :
    (exec (.seq (selfWitness.tgt.assign (selfWitness.kind.init selfWitness.huge))
        (redLoop 7 selfWitness ⟨0, .r1, .lit 1, .lit 3, .lit 1⟩ selfWitness.tgt)) selfStore) (0, 1, 0)
      ≠ redVal selfWitness ⟨0, .r1, .lit 1, .lit 3, .lit 1⟩ selfStore := by decide

/-- … which is why the (symbol-based) rule of the real code selects the temporary here, and the result is right -/
theorem C06_reduction_self_target_uses_temporary :
    selfWitness.increment = true ∧
    (match transRed 7 8 selfWitness with
     | .ok s => (exec s selfStore) (0, 1, 0)
     | .error _ => 0) = 23 := by decide

/-- DIM arguments are refused -/
theorem C06_reduction_dim_refused (idx tmp : Nat) (r : RedIn) (h : r.dim = true) :
    transRed idx tmp r = .error .dim := by simp [transRed, h]

/-- the fold that defines MAXVAL is the maximum: it bounds every unmasked element from above
(for element values ≥ -HUGE the initial value never wins over a present element) -/
theorem C06_foldRed_max_ge (f m : Int → Int) (n : Nat) (init : Int) (k : Nat) (hk : k < n) (hm : m k ≠ 0) :
    f k ≤ foldRed .max f m n init := by
  induction n with
  | zero => omega
  | succ n ih =>
    simp only [foldRed]
    by_cases hkn : k = n
    · subst hkn; rw [if_pos hm]; simp only [evalBin]; split <;> omega
    · have := ih (by omega)
      split
      · simp only [evalBin]; split <;> omega
      · exact this

/-- **DotProduct2CodeTrans (partial)**: sound when both vectors have the same declared lower bound. -/
theorem C06_dot_sound_partial (res i : Nat) (v1 v2 : Vec) (s : Asg) (hlb : v1.lb = v2.lb) (hri : res ≠ i)
    (hr : res ≠ v1.arr ∧ res ≠ v2.arr) (hi : i ∉ s.vars) (hi2 : i ≠ v1.arr ∧ i ≠ v2.arr) (σ : Store) :
    AgreeOn (fun y => y ≠ i) (exec (dot2code res i v1 v2 s) σ) (execDotOrig res v1 v2 s σ) :=
  dot_sound_partial res i v1 v2 s hlb hri hr hi hi2 σ

def dotStore : Store := storeOf [((0, 1, 0), 1), ((0, 2, 0), 2), ((0, 3, 0), 3), ((1, 0, 0), 5), ((1, 1, 0), 7), ((1, 2, 0), 11)]

/-- `x = DOT_PRODUCT(a, c)` with `a(1:3)`, `c(0:2)`: the generated loop reads `c(1:3)`. -/
theorem C06_dot_lower_bound_counterexample :
    (exec (dot2code 9 8 ⟨0, 1, 3⟩ ⟨1, 0, 2⟩ ⟨.sc 2, .var 9⟩) dotStore) (2, 0, 0)
      ≠ (execDotOrig 9 ⟨0, 1, 3⟩ ⟨1, 0, 2⟩ ⟨.sc 2, .var 9⟩ dotStore) (2, 0, 0) := by decide

def mvStore : Store :=
  storeOf [((1, 0, 2), 1), ((1, 0, 3), 2), ((1, 1, 2), 3), ((1, 1, 3), 4), ((2, 1, 0), 5), ((2, 2, 0), 6)]

/-- `r = MATMUL(q, v)` with `r(1:2)`, `q(0:1,2:3)`, `v(1:2)`: the loop writes `r(0:1)` and reads `q(:,1:2)`. -/
theorem C06_matvec_lower_bound_counterexample :
    matvecAligned ⟨0, 1, 2⟩ ⟨1, 0, 1, 2, 3⟩ ⟨2, 1, 2⟩ = false ∧
    (exec (matvecCode 8 9 ⟨0, 1, 2⟩ ⟨1, 0, 1, 2, 3⟩ ⟨2, 1, 2⟩) mvStore) (0, 2, 0)
      ≠ (execMatvec ⟨0, 1, 2⟩ ⟨1, 0, 1, 2, 3⟩ ⟨2, 1, 2⟩ mvStore) (0, 2, 0) := by decide

example : (execMatvec ⟨0, 1, 2⟩ ⟨1, 0, 1, 2, 3⟩ ⟨2, 1, 2⟩ mvStore) (0, 2, 0) = 39 := by decide
example : (execDotOrig 9 ⟨0, 1, 3⟩ ⟨1, 0, 2⟩ ⟨.sc 2, .var 9⟩ dotStore) (2, 0, 0) = 52 := by decide



/-- **ArrayAssignment2LoopsTrans, two ranges**: an accepted rank-2 section assignment is executed by the
generated loop nest (outer loop over the 2nd range) exactly as Fortran requires. -/
theorem C06_arrayassign2_sound (idx2 idx1 : Nat) (a : AAIn2) (hv : validateAA2 a = none) (hne : idx2 ≠ idx1)
    (h2 : idx2 ∉ a.lhs.arr :: (a.lhs.svars ++ a.rhs.allvars))
    (h1 : idx1 ∉ a.lhs.arr :: (a.lhs.svars ++ a.rhs.allvars)) (σ : Store) :
    AgreeOn (fun y => y ≠ idx2 ∧ y ≠ idx1) (exec (applyAA2 idx2 idx1 a) σ) (execAA2 a σ) :=
  arrayassign2_sound idx2 idx1 a hv hne h2 h1 σ

/-- **Matmul2CodeTrans, matrix-vector (partial)**: the loop nest computes `r = MATMUL(A, x)` for all extents
when the declared lower bounds are aligned (`matvecAligned`); otherwise see the counterexample. -/
theorem C06_matvec_sound_partial (i j : Nat) (r : Vec) (a : Mat) (x : Vec) (hal : matvecAligned r a x = true)
    (hij : i ≠ j) (hr : r.arr ≠ a.arr ∧ r.arr ≠ x.arr)
    (hi : i ≠ r.arr ∧ i ≠ a.arr ∧ i ≠ x.arr) (hj : j ≠ r.arr ∧ j ≠ a.arr ∧ j ≠ x.arr) (σ : Store) :
    AgreeOn (fun y => y ≠ i ∧ y ≠ j) (exec (matvecCode i j r a x) σ) (execMatvec r a x σ) :=
  matvec_sound_partial i j r a x hal hij hr hi hj σ

/-- **Matmul2CodeTrans, matrix-matrix (partial)**: the three-deep loop nest computes `r = MATMUL(A, B)` for
all extents under `matmatAligned`. -/
theorem C06_matmul_sound_partial (i j ii : Nat) (r a b : Mat) (hal : matmatAligned r a b = true)
    (hne : i ≠ j ∧ i ≠ ii ∧ j ≠ ii) (hr : r.arr ≠ a.arr ∧ r.arr ≠ b.arr)
    (hi : i ≠ r.arr ∧ i ≠ a.arr ∧ i ≠ b.arr) (hj : j ≠ r.arr ∧ j ≠ a.arr ∧ j ≠ b.arr)
    (hii : ii ≠ r.arr ∧ ii ≠ a.arr ∧ ii ≠ b.arr) (σ : Store) :
    AgreeOn (fun y => y ≠ i ∧ y ≠ j ∧ y ≠ ii) (exec (matmatCode i j ii r a b) σ) (execMatmat r a b σ) :=
  matmat_sound_partial i j ii r a b hal hne hr hi hj hii σ

/-- **DotProduct2CodeTrans with sliced operands (partial)**: `a(:)`, `m(:,j)` … — sound when both operands
start at the same lower bound. -/
theorem C06_dotslice_sound_partial (res i : Nat) (s1 s2 : Sec) (s : Asg)
    (h1 : s1.st = .lit 1) (h2 : s2.st = .lit 1) (hlo : s2.lo = s1.lo)
    (hres : res ∉ s1.arr :: s2.arr :: (s1.svars ++ s2.svars)) (hri : res ≠ i)
    (hi : i ∉ s1.arr :: s2.arr :: (s1.svars ++ s2.svars)) (his : i ∉ s.vars) (σ : Store) :
    AgreeOn (fun y => y ≠ i) (exec (dot2codeS res i s1 s2 s) σ) (execDotOrigS res s1 s2 s σ) :=
  dotS_sound_partial res i s1 s2 s h1 h2 hlo hres hri hi his σ

/-- **ArrayAccess2LoopTrans**: the single-trip loop `do idx = e, e, 1; a(idx) = rhs[e := idx]` computes `a(e) = rhs`. -/
theorem C06_arrayaccess2loop_sound (idx : Nat) (a : AccIn) (hidx : idx ∉ a.arr :: (vars a.index ++ vars a.rhs))
    (hhole : a.hole ∉ arrs a.rhs) (σ : Store) :
    AgreeOn (fun y => y ≠ idx) (exec (applyAcc idx a) σ) (exec (accOrig a) σ) :=
  arrayaccess2loop_sound idx a hidx hhole σ

/-- **Reference2ArrayRangeTrans**: `a(lb:ub:1)` with the declared bounds denotes the whole array `a`
(same number of elements, same element order). -/
theorem C06_ref2range_sound (v : Vec) (σ : Store) :
    (ref2range v).count σ = v.count ∧ ∀ k : Int, (ref2range v).at σ k = v.at σ k :=
  ref2range_sound v σ

/-! ## Non-vacuity and sanity evaluations -/

/-- `a(2:6) = a(2:6) + b(1:5) * s` with `m(i, 1:3) = m(j, 1:3)`-style same-range self reference: accepted -/
def okWitness : AAIn :=
  { lhs := ⟨0, .r1, .lit 2, .lit 6, .lit 1⟩,
    rhs := .bin .add (.sec ⟨0, .r1, .lit 2, .lit 6, .lit 1⟩)
      (.bin .mul (.sec ⟨1, .r1, .lit 1, .lit 5, .lit 1⟩) (.sc (.var 2))),
    badCall := false, allowOverlap := false }

example : validateAA okWitness = none ∧ okWitness.allowOverlap = false ∧
    7 ∉ okWitness.lhs.arr :: (okWitness.lhs.svars ++ okWitness.rhs.allvars) := by decide

example : (exec (applyAA 7 okWitness) (witnessStore.set (2, 0, 0) 2)) (0, 2, 0) = 24 := by decide
example : (execAA okWitness (witnessStore.set (2, 0, 0) 2)) (0, 2, 0) = 24 := by decide
-- empty extent: nothing is written
example : (execAA { overlapWitness with lhs := ⟨0, .r1, .lit 5, .lit 4, .lit 1⟩ } witnessStore) (0, 5, 0) = 0 := by decide

/-- `x = y + ABS(y * x)` with x = var 0, y = var 1, res = 8, tmp = 9 -/
def absWitness : Asg := ⟨.sc 0, .bin .add (.var 1) (.var 8)⟩
example : 9 ∉ absWitness.vars ∧ 8 ∉ absWitness.tgt.iarrs ++ arrs absWitness.rhs := by decide
example : (exec (abs2code 8 9 (.bin .mul (.var 1) (.var 0)) absWitness)
    (storeOf [((0, 0, 0), 2), ((1, 0, 0), -3)])) (0, 0, 0) = 3 := by decide
example : (exec (sign2code 8 9 10 11 (.var 0) (.lit 0) absWitness)
    (storeOf [((0, 0, 0), -2), ((1, 0, 0), -3)])) (0, 0, 0) = -1 := by decide
example : (exec (minmax2code true 8 9 (.var 0) [.var 1, .lit 7, .lit 4] absWitness)
    (storeOf [((0, 0, 0), 2), ((1, 0, 0), -3)])) (0, 0, 0) = 4 := by decide


/-- `x = 1 + MAXVAL(a(2:6) + c(1:5), mask = b(3:7) > 0) * 2` (a,b,c = arrays 0,1,2; x = var 3; hole = 9) -/
def redWitness : RedIn :=
  { kind := .maxval,
    expr := .bin .add (.sec ⟨0, .r1, .lit 2, .lit 6, .lit 1⟩) (.sec ⟨2, .r1, .lit 1, .lit 5, .lit 1⟩),
    mask := some (.bin .gt (.sec ⟨1, .r1, .lit 3, .lit 7, .lit 1⟩) (.sc (.lit 0))),
    dim := false, tgt := .sc 3, hole := 9,
    ctx := .bin .add (.lit 1) (.bin .mul (.var 9) (.lit 2)), huge := 1000 }

example : RedFresh 7 8 redWitness :=
  ⟨by decide, by decide, by decide, by decide, by decide, by decide, by decide⟩
example : ∃ s, transRed 7 8 redWitness = .ok s := ⟨_, rfl⟩
example : (match transRed 7 8 redWitness with
    | .ok s => (exec s (storeOf [((0, 2, 0), 4), ((0, 3, 0), 9), ((2, 1, 0), 1), ((2, 2, 0), 1), ((1, 3, 0), 1)])) (3, 0, 0)
    | .error _ => 0) = 11 := by decide
-- increment: `x = x + SUM(a(1:3))` goes through a temporary and ends with `x = x + tmp`
example : (match transRed 7 8 ⟨.sum, .sec ⟨0, .r1, .lit 1, .lit 3, .lit 1⟩, none, false, .sc 3, 9,
      .bin .add (.var 3) (.var 9), 1000⟩ with
    | .ok s => (exec s (storeOf [((0, 2, 0), 4), ((0, 3, 0), 9), ((3, 0, 0), 100)])) (3, 0, 0)
    | .error _ => 0) = 113 := by decide
-- differently strided sections are refused
example : transRed 7 8 ⟨.sum, .bin .mul (.sec ⟨0, .r1, .lit 1, .lit 9, .lit 2⟩) (.sec ⟨1, .r1, .lit 1, .lit 5, .lit 1⟩),
    none, false, .sc 3, 9, .var 9, 1000⟩ = .error .stride := rfl
example : (⟨0, 1, 3⟩ : Vec).lb = (⟨1, 1, 3⟩ : Vec).lb := rfl


/-- `m(1:2, 1:2) = m(1:2, 1:2) + q(0:1, 2:3) * x` (arrays 0, 1; x = var 2) -/
def aa2Witness : AAIn2 :=
  { lhs := ⟨0, .lit 1, .lit 2, .lit 1, .lit 1, .lit 2, .lit 1⟩,
    rhs := .bin .add (.sec ⟨0, .lit 1, .lit 2, .lit 1, .lit 1, .lit 2, .lit 1⟩)
      (.bin .mul (.sec ⟨1, .lit 0, .lit 1, .lit 1, .lit 2, .lit 3, .lit 1⟩) (.sc (.var 2))) }

example : validateAA2 aa2Witness = none ∧ 7 ∉ aa2Witness.lhs.arr :: (aa2Witness.lhs.svars ++ aa2Witness.rhs.allvars) := by
  decide
example : (exec (applyAA2 7 8 aa2Witness) (storeOf [((0, 2, 2), 5), ((1, 1, 3), 4), ((2, 0, 0), 3)])) (0, 2, 2) = 17 := by
  decide
example : (execAA2 aa2Witness (storeOf [((0, 2, 2), 5), ((1, 1, 3), 4), ((2, 0, 0), 3)])) (0, 2, 2) = 17 := by decide
-- a shifted self reference is refused: `m(1:2,1:2) = m(1:2,2:3)`
example : validateAA2 ⟨aa2Witness.lhs, .sec ⟨0, .lit 1, .lit 2, .lit 1, .lit 2, .lit 3, .lit 1⟩⟩ = some .overlap := by decide
example : matvecAligned ⟨0, 1, 2⟩ ⟨1, 1, 2, 1, 2⟩ ⟨2, 1, 2⟩ = true ∧ matmatAligned ⟨0, 1, 2, 1, 2⟩ ⟨1, 1, 2, 0, 1⟩ ⟨2, 0, 1, 1, 2⟩ = true := by
  decide
example : (exec (matmatCode 7 8 9 ⟨0, 1, 2, 1, 2⟩ ⟨1, 1, 2, 0, 1⟩ ⟨2, 0, 1, 1, 2⟩)
    (storeOf [((1, 2, 0), 2), ((1, 2, 1), 3), ((2, 0, 2), 5), ((2, 1, 2), 7)])) (0, 2, 2) = 31 := by decide
example : (exec (applyAcc 7 ⟨0, .var 3, .bin .add (.idx1 1 (.var 9)) (.var 2), 9⟩)
    (storeOf [((3, 0, 0), 4), ((1, 4, 0), 10), ((2, 0, 0), 1)])) (0, 4, 0) = 11 := by decide

end C06
