import PsyVerif.Lemmas.ArrayLowerNest
import PsyVerif.Lemmas.SameRange
/-! # C06 — array-syntax and intrinsic lowering preserve semantics

Model: `Model/ArrayLower.lean` (namespace `C06`).  The model follows the code with the repairs of
`fixes/C06-arrayassign-overlap-stride-reduction-result.patch` (now in /repo); the behaviour of the pinned
`validate` is kept as `validateAA_pinned` with kernel-checked counterexamples.  Stores are compared on
every variable except the fresh names the transformation introduces (`AgreeOn (fun y => y ≠ idx …)`).

Proved here, for all stores / extents (incl. empty) / bounds / strides, and tied to the real code by the
correspondence check of `harness/props/c06.py` (real accept/refuse + exported output = model):
* ArrayAssignment2LoopsTrans, one range (`C06_arrayassign_sound`) and two ranges → loop nest
  (`C06_arrayassign2_sound`); pinned-code counterexamples (overlap, stride);
* Abs/Sign/Min/Max2CodeTrans (`C06_abs2code_sound`, `C06_sign2code_sound`, `C06_minmax2code_sound`);
* Sum/Product/Minval/Maxval2LoopTrans with mask, context, both accumulator modes
  (`C06_reduction2loop_sound`, `C06_reduction_accumulator_sound`, in-place counterexample); DIM refused;
* DotProduct2CodeTrans, whole arrays and slices, under equal lower bounds (`C06_dot_sound_partial`,
  `C06_dotslice_sound_partial`); Matmul2CodeTrans matrix-vector and matrix-matrix under `matvecAligned` /
  `matmatAligned` (`C06_matvec_sound_partial`, `C06_matmul_sound_partial`); the negations are the known
  findings, with kernel-checked counterexamples;
* ArrayAccess2LoopTrans (`C06_arrayaccess2loop_sound`); Reference2ArrayRangeTrans on declared bounds
  (`C06_ref2range_sound`);
* `ArrayMixin.is_lower_bound / is_upper_bound / is_full_range / same_range` (`Model/SameRange.lean`, any rank,
  explicit / `lo:` / assumed-shape / deferred declarations, LBOUND/UBOUND or explicit range bounds, ranges in
  different dimension positions) with `SymbolicMaths.equal` as a parameter that only has to be sound:
  `C06_is_lower_bound_sound`, `C06_same_range_start_sound` (fixed shortcut) / `_partial` (HEAD) +
  `C06_same_range_shortcut_counterexample`, `C06_same_range_step_sound`, `C06_index_expr_sound` (the emitted index
  is right whether `same_range` said True or False), `C06_arrayassign_decision_sound` and
  `C06_arrayassign_cross_sound(_partial)` (element-wise semantics of the loop built from those decisions),
  `C06_linEq_sound` (the stand-in for SymbolicMaths the driver uses).
Evaluated with gfortran only (no Lean statement): sections with more than two ranges or on arrays of rank > 2,
structure members, reductions over rank-2 sections (the loop nest is the one of `C06_arrayassign2_sound`
around the accumulator statement), matrix operands with extra fixed dimensions, AllArrayAccess2LoopTrans. -/
namespace C06
open MiniF

theorem validateAA_none (a : AAIn) (hv : validateAA a = none) (hno : a.allowOverlap = false) :
    a.badCall = false ∧ (∀ s ∈ a.rhs.secs, s.st = a.lhs.st) ∧
    (∀ s ∈ a.rhs.secs, s.arr = a.lhs.arr → s.fix.kind = a.lhs.fix.kind ∧ s.lo = a.lhs.lo) ∧
    a.lhs.arr ∉ a.rhs.svars ++ a.lhs.svars := by
  unfold validateAA at hv
  split at hv; · simp at hv
  split at hv; · simp at hv
  split at hv; · simp at hv
  rename_i h1 h2 h3
  simp only [hno, Bool.not_false, Bool.true_and, Bool.not_eq_true', Bool.not_eq_false] at h3
  simp only [Bool.not_eq_true', Bool.not_eq_false, strideOK, List.all_eq_true, decide_eq_true_eq] at h2
  simp only [overlapOK, Bool.and_eq_true, List.all_eq_true, Bool.or_eq_true, bne_iff_ne, ne_eq,
    Bool.not_eq_true', List.contains_eq_mem, decide_eq_false_iff_not] at h3
  refine ⟨by simpa using h1, h2, ?_, h3.2⟩
  intro s hs harr
  rcases h3.1 s hs with h | h
  · exact absurd harr h
  · simp only [sameRanges, Bool.and_eq_true, beq_iff_eq, decide_eq_true_eq] at h
    exact ⟨h.1.1.1, h.1.1.2⟩

/-! ## The property -/

/-- the full statement for array assignments, parametrised by the `validate` in force -/
def C06_arrayassign_statement (validate : AAIn → Option Refusal) : Prop :=
  ∀ (idx : Nat) (a : AAIn), validate a = none → a.allowOverlap = false →
    idx ∉ a.lhs.arr :: (a.lhs.svars ++ a.rhs.allvars) →
    ∀ σ : Store, AgreeOn (fun y => y ≠ idx) (exec (applyAA idx a) σ) (execAA a σ)

/-- **ArrayAssignment2LoopsTrans (fixed validate)**: whenever the assignment is accepted, the
generated loop computes the Fortran array assignment (rhs evaluated before any store), for
every store, every extent (including empty and negative-stride sections) and arbitrary bounds. -/
theorem C06_arrayassign_sound : C06_arrayassign_statement validateAA := by
  intro idx a hv hno hidx σ
  obtain ⟨_, hstride, hsame, hsc⟩ := validateAA_none a hv hno
  intro y hy i j
  simp only [applyAA, exec, runIters_eq_iters, execAA, Sec.count]
  rw [Store.set_other _ _ (loc_ne i j hy)]
  by_cases hst : eval a.lhs.st σ = 0
  · simp [trip, hst, iters, writeVals]
  · exact applyAA_iters idx a σ hstride hsame hsc hidx hst _ y hy i j

/-- `a(2:10) = a(1:9)` (array 0) -/
def overlapWitness : AAIn :=
  { lhs := ⟨0, .r1, .lit 2, .lit 10, .lit 1⟩, rhs := .sec ⟨0, .r1, .lit 1, .lit 9, .lit 1⟩,
    badCall := false, allowOverlap := false }

/-- `a(1:9:2) = b(1:5)` (arrays 0, 1) -/
def strideWitness : AAIn :=
  { lhs := ⟨0, .r1, .lit 1, .lit 9, .lit 2⟩, rhs := .sec ⟨1, .r1, .lit 1, .lit 5, .lit 1⟩,
    badCall := false, allowOverlap := false }

def witnessStore : Store :=
  storeOf [((0, 1, 0), 1), ((0, 2, 0), 2), ((0, 3, 0), 3), ((1, 1, 0), 11), ((1, 2, 0), 12), ((1, 3, 0), 13)]

/-- the pinned `validate` accepts `a(2:10) = a(1:9)` and the forward loop smears `a(1)`:
Fortran gives `a(3) = 2`, the loop gives `a(3) = 1`. -/
theorem C06_arrayassign_overlap_counterexample : ¬ C06_arrayassign_statement validateAA_pinned := by
  intro h
  have := h 7 overlapWitness (by decide) rfl (by decide) witnessStore 0 (by decide) 3 0
  revert this
  decide

/-- the pinned `validate` accepts `a(1:9:2) = b(1:5)` and the loop reads `b(3)` instead of `b(2)`. -/
theorem C06_arrayassign_stride_counterexample :
    validateAA_pinned strideWitness = none ∧
    (exec (applyAA 7 strideWitness) witnessStore) (0, 3, 0) ≠ (execAA strideWitness witnessStore) (0, 3, 0) := by
  decide

/-- the fixed `validate` refuses both witnesses -/
theorem C06_arrayassign_refuses_witnesses :
    validateAA overlapWitness = some .overlap ∧ validateAA strideWitness = some .stride := by decide

/-- **Abs2CodeTrans**: `tmp = X; IF (tmp > 0) res = tmp ELSE res = tmp * -1; S` computes `S[res := ABS(X)]`. -/
theorem C06_abs2code_sound (res tmp : Nat) (x : Expr) (s : Asg)
    (htmp : tmp ∉ s.vars) (hres : res ∉ s.tgt.iarrs ++ arrs s.rhs) (σ : Store) :
    AgreeOn (fun y => y ≠ tmp ∧ y ≠ res) (exec (abs2code res tmp x s) σ) (exec (absOrig res x s) σ) := by
  exact prefix_then_asg (absCode res tmp x) s res (.un .abs x) (fun y => y = tmp) σ
    (by
      rw [exec_absCode]
      intro y hy i j
      simp only [Store.set_apply, eval]
      split
      · rfl
      · rw [if_neg]; intro h; exact hy (congrArg Prod.fst h))
    (fun y hy h => htmp (h ▸ hy)) hres

/-- **Sign2CodeTrans** (including the nested Abs2CodeTrans): computes `S[res := SIGN(A, B)]`,
in particular `SIGN(A, 0) = |A|`. -/
theorem C06_sign2code_sound (res tmp ares atmp : Nat) (a b : Expr) (s : Asg) (h1 : res ≠ tmp)
    (hb : ∀ y ∈ vars b, y ≠ res ∧ y ≠ ares ∧ y ≠ atmp)
    (hs : ∀ y ∈ s.vars, y ≠ tmp ∧ y ≠ ares ∧ y ≠ atmp)
    (hres : res ∉ s.tgt.iarrs ++ arrs s.rhs) (σ : Store) :
    AgreeOn (fun y => ¬ (y = tmp ∨ y = ares ∨ y = atmp) ∧ y ≠ res)
      (exec (sign2code res tmp ares atmp a b s) σ) (exec (signOrig res a b s) σ) := by
  exact prefix_then_asg (signCode res tmp ares atmp a b) s res (.bin .sign a b) _ σ
    (exec_signCode_agree res tmp ares atmp a b σ h1 hb)
    (fun y hy h => by have := hs y hy; rcases h with h | h | h <;> simp_all) hres

/-- **Min2CodeTrans / Max2CodeTrans** for any number of arguments: computes
`S[res := MIN(A, B, C, …)]` (resp. MAX). -/
theorem C06_minmax2code_sound (isMax : Bool) (res tmp : Nat) (a : Expr) (rest : List Expr) (s : Asg)
    (hne : res ≠ tmp) (hargs : ∀ b ∈ rest, ∀ y ∈ vars b, y ≠ res ∧ y ≠ tmp)
    (htmp : tmp ∉ s.vars) (hres : res ∉ s.tgt.iarrs ++ arrs s.rhs) (σ : Store) :
    AgreeOn (fun y => y ≠ tmp ∧ y ≠ res) (exec (minmax2code isMax res tmp a rest s) σ)
      (exec (minmaxOrig isMax res a rest s) σ) := by
  exact prefix_then_asg (mmCode isMax res tmp a rest) s res (mmExpr isMax a rest) (fun y => y = tmp) σ
    (exec_mmCode isMax res tmp a rest σ hne hargs) (fun y hy h => htmp (h ▸ hy)) hres


/-- **Sum/Product/Minval/Maxval2LoopTrans (with the repairs of the patch)**: whenever the
transformation succeeds, `acc = init; DO idx …; [IF (mask)] acc = acc ⊕ expr(idx); [tgt = ctx[acc]]`
computes the original assignment `tgt = ctx[INTRINSIC(expr, mask)]`, where the value of the intrinsic
is the fold of ⊕ over the (masked) elements of the section in element order, starting from
0 / 1 / HUGE / -HUGE — for all stores, all extents (including empty) and all bounds/strides. -/
theorem C06_reduction2loop_sound (idx tmp : Nat) (r : RedIn) (lead : Sec) (rest : List Sec) (s : Stmt)
    (hlead : r.expr.secs = lead :: rest) (ht : transRed idx tmp r = .ok s)
    (hf : RedFresh idx tmp r) (σ : Store) :
    AgreeOn (fun y => y ≠ idx ∧ y ≠ tmp ∧ y ≠ r.hole) (exec s σ) (execRedOrig r lead σ) :=
  reduction2loop_sound_aux idx tmp r lead rest s hlead ht hf σ


/-- **both accumulator modes**: initialisation + loop leave the value of the reduction in ANY accumulator
`acc` — the target itself (in place) or the temporary — under the side condition that the accumulator's
symbol is read neither by the reduced expression, nor by the mask, nor by its own index expressions.
`transRed` accumulates in place exactly when `RedIn.increment = false`, which implies this condition for
`acc = tgt`; otherwise it uses the fresh temporary, for which the condition is freshness. -/
theorem C06_reduction_accumulator_sound (idx : Nat) (r : RedIn) (lead : Sec) (acc : Tgt) (σ : Store)
    (hlead : lead ∈ r.expr.secs)
    (hstride : ∀ s ∈ r.expr.secs, s.st = lead.st) (hstrideM : ∀ s ∈ maskSecs r.mask, s.st = lead.st)
    (hacc : acc.sym ∉ r.expr.allvars ++ maskVars r.mask ++ acc.ivars) (hai : acc.sym ≠ idx)
    (hidx : idx ∉ r.expr.allvars ++ maskVars r.mask ++ acc.ivars) :
    AgreeOn (fun y => y ≠ idx)
      (exec (.seq (acc.assign (r.kind.init r.huge)) (redLoop idx r lead acc)) σ)
      (σ.set (acc.loc σ) (redVal r lead σ)) :=
  red_core idx r lead acc σ hlead hstride hstrideM hacc hai hidx

/-- `a(1) = SUM(a(1:3))` (array 0): the target is an element of the reduced array -/
def selfWitness : RedIn :=
  ⟨.sum, .sec ⟨0, .r1, .lit 1, .lit 3, .lit 1⟩, none, false, .e1 0 (.lit 1), 9, .var 9, 1000⟩

def selfStore : Store := storeOf [((0, 1, 0), 5), ((0, 2, 0), 7), ((0, 3, 0), 11)]

/-- the side condition is necessary: accumulating `a(1) = SUM(a(1:3))` in place overwrites `a(1)` with the
initial value before the loop reads it (18 instead of 23) … -/
theorem C06_reduction_inplace_counterexample :
    (exec (.seq (selfWitness.tgt.assign (selfWitness.kind.init selfWitness.huge))
        (redLoop 7 selfWitness ⟨0, .r1, .lit 1, .lit 3, .lit 1⟩ selfWitness.tgt)) selfStore) (0, 1, 0)
      ≠ redVal selfWitness ⟨0, .r1, .lit 1, .lit 3, .lit 1⟩ selfStore := by decide

/-- … which is why the (symbol-based) rule of the real code selects the temporary here, and the result is right -/
theorem C06_reduction_self_target_uses_temporary :
    selfWitness.increment = true ∧
    (match transRed 7 8 selfWitness with
     | .ok s => (exec s selfStore) (0, 1, 0)
     | .error _ => 0) = 23 := by decide

/-- DIM arguments are refused -/
theorem C06_reduction_dim_refused (idx tmp : Nat) (r : RedIn) (h : r.dim = true) :
    transRed idx tmp r = .error .dim := by simp [transRed, h]

/-- the fold that defines MAXVAL is the maximum: it bounds every unmasked element from above
(for element values ≥ -HUGE the initial value never wins over a present element) -/
theorem C06_foldRed_max_ge (f m : Int → Int) (n : Nat) (init : Int) (k : Nat) (hk : k < n) (hm : m k ≠ 0) :
    f k ≤ foldRed .max f m n init := by
  induction n with
  | zero => omega
  | succ n ih =>
    simp only [foldRed]
    by_cases hkn : k = n
    · subst hkn; rw [if_pos hm]; simp only [evalBin]; split <;> omega
    · have := ih (by omega)
      split
      · simp only [evalBin]; split <;> omega
      · exact this

/-- **DotProduct2CodeTrans (partial)**: sound when both vectors have the same declared lower bound. -/
theorem C06_dot_sound_partial (res i : Nat) (v1 v2 : Vec) (s : Asg) (hlb : v1.lb = v2.lb) (hri : res ≠ i)
    (hr : res ≠ v1.arr ∧ res ≠ v2.arr) (hi : i ∉ s.vars) (hi2 : i ≠ v1.arr ∧ i ≠ v2.arr) (σ : Store) :
    AgreeOn (fun y => y ≠ i) (exec (dot2code res i v1 v2 s) σ) (execDotOrig res v1 v2 s σ) :=
  dot_sound_partial res i v1 v2 s hlb hri hr hi hi2 σ

def dotStore : Store := storeOf [((0, 1, 0), 1), ((0, 2, 0), 2), ((0, 3, 0), 3), ((1, 0, 0), 5), ((1, 1, 0), 7), ((1, 2, 0), 11)]

/-- `x = DOT_PRODUCT(a, c)` with `a(1:3)`, `c(0:2)`: the generated loop reads `c(1:3)`. -/
theorem C06_dot_lower_bound_counterexample :
    (exec (dot2code 9 8 ⟨0, 1, 3⟩ ⟨1, 0, 2⟩ ⟨.sc 2, .var 9⟩) dotStore) (2, 0, 0)
      ≠ (execDotOrig 9 ⟨0, 1, 3⟩ ⟨1, 0, 2⟩ ⟨.sc 2, .var 9⟩ dotStore) (2, 0, 0) := by decide

def mvStore : Store :=
  storeOf [((1, 0, 2), 1), ((1, 0, 3), 2), ((1, 1, 2), 3), ((1, 1, 3), 4), ((2, 1, 0), 5), ((2, 2, 0), 6)]

/-- `r = MATMUL(q, v)` with `r(1:2)`, `q(0:1,2:3)`, `v(1:2)`: the loop writes `r(0:1)` and reads `q(:,1:2)`. -/
theorem C06_matvec_lower_bound_counterexample :
    matvecAligned ⟨0, 1, 2⟩ ⟨1, 0, 1, 2, 3⟩ ⟨2, 1, 2⟩ = false ∧
    (exec (matvecCode 8 9 ⟨0, 1, 2⟩ ⟨1, 0, 1, 2, 3⟩ ⟨2, 1, 2⟩) mvStore) (0, 2, 0)
      ≠ (execMatvec ⟨0, 1, 2⟩ ⟨1, 0, 1, 2, 3⟩ ⟨2, 1, 2⟩ mvStore) (0, 2, 0) := by decide

example : (execMatvec ⟨0, 1, 2⟩ ⟨1, 0, 1, 2, 3⟩ ⟨2, 1, 2⟩ mvStore) (0, 2, 0) = 39 := by decide
example : (execDotOrig 9 ⟨0, 1, 3⟩ ⟨1, 0, 2⟩ ⟨.sc 2, .var 9⟩ dotStore) (2, 0, 0) = 52 := by decide



/-- **ArrayAssignment2LoopsTrans, two ranges**: an accepted rank-2 section assignment is executed by the
generated loop nest (outer loop over the 2nd range) exactly as Fortran requires. -/
theorem C06_arrayassign2_sound (idx2 idx1 : Nat) (a : AAIn2) (hv : validateAA2 a = none) (hne : idx2 ≠ idx1)
    (h2 : idx2 ∉ a.lhs.arr :: (a.lhs.svars ++ a.rhs.allvars))
    (h1 : idx1 ∉ a.lhs.arr :: (a.lhs.svars ++ a.rhs.allvars)) (σ : Store) :
    AgreeOn (fun y => y ≠ idx2 ∧ y ≠ idx1) (exec (applyAA2 idx2 idx1 a) σ) (execAA2 a σ) :=
  arrayassign2_sound idx2 idx1 a hv hne h2 h1 σ

/-- **Matmul2CodeTrans, matrix-vector (partial)**: the loop nest computes `r = MATMUL(A, x)` for all extents
when the declared lower bounds are aligned (`matvecAligned`); otherwise see the counterexample. -/
theorem C06_matvec_sound_partial (i j : Nat) (r : Vec) (a : Mat) (x : Vec) (hal : matvecAligned r a x = true)
    (hij : i ≠ j) (hr : r.arr ≠ a.arr ∧ r.arr ≠ x.arr)
    (hi : i ≠ r.arr ∧ i ≠ a.arr ∧ i ≠ x.arr) (hj : j ≠ r.arr ∧ j ≠ a.arr ∧ j ≠ x.arr) (σ : Store) :
    AgreeOn (fun y => y ≠ i ∧ y ≠ j) (exec (matvecCode i j r a x) σ) (execMatvec r a x σ) :=
  matvec_sound_partial i j r a x hal hij hr hi hj σ

/-- **Matmul2CodeTrans, matrix-matrix (partial)**: the three-deep loop nest computes `r = MATMUL(A, B)` for
all extents under `matmatAligned`. -/
theorem C06_matmul_sound_partial (i j ii : Nat) (r a b : Mat) (hal : matmatAligned r a b = true)
    (hne : i ≠ j ∧ i ≠ ii ∧ j ≠ ii) (hr : r.arr ≠ a.arr ∧ r.arr ≠ b.arr)
    (hi : i ≠ r.arr ∧ i ≠ a.arr ∧ i ≠ b.arr) (hj : j ≠ r.arr ∧ j ≠ a.arr ∧ j ≠ b.arr)
    (hii : ii ≠ r.arr ∧ ii ≠ a.arr ∧ ii ≠ b.arr) (σ : Store) :
    AgreeOn (fun y => y ≠ i ∧ y ≠ j ∧ y ≠ ii) (exec (matmatCode i j ii r a b) σ) (execMatmat r a b σ) :=
  matmat_sound_partial i j ii r a b hal hne hr hi hj hii σ

/-- **DotProduct2CodeTrans with sliced operands (partial)**: `a(:)`, `m(:,j)` … — sound when both operands
start at the same lower bound. -/
theorem C06_dotslice_sound_partial (res i : Nat) (s1 s2 : Sec) (s : Asg)
    (h1 : s1.st = .lit 1) (h2 : s2.st = .lit 1) (hlo : s2.lo = s1.lo)
    (hres : res ∉ s1.arr :: s2.arr :: (s1.svars ++ s2.svars)) (hri : res ≠ i)
    (hi : i ∉ s1.arr :: s2.arr :: (s1.svars ++ s2.svars)) (his : i ∉ s.vars) (σ : Store) :
    AgreeOn (fun y => y ≠ i) (exec (dot2codeS res i s1 s2 s) σ) (execDotOrigS res s1 s2 s σ) :=
  dotS_sound_partial res i s1 s2 s h1 h2 hlo hres hri hi his σ

/-- **ArrayAccess2LoopTrans**: the single-trip loop `do idx = e, e, 1; a(idx) = rhs[e := idx]` computes `a(e) = rhs`. -/
theorem C06_arrayaccess2loop_sound (idx : Nat) (a : AccIn) (hidx : idx ∉ a.arr :: (vars a.index ++ vars a.rhs))
    (hhole : a.hole ∉ arrs a.rhs) (σ : Store) :
    AgreeOn (fun y => y ≠ idx) (exec (applyAcc idx a) σ) (exec (accOrig a) σ) :=
  arrayaccess2loop_sound idx a hidx hhole σ

/-- **Reference2ArrayRangeTrans**: `a(lb:ub:1)` with the declared bounds denotes the whole array `a`
(same number of elements, same element order). -/
theorem C06_ref2range_sound (v : Vec) (σ : Store) :
    (ref2range v).count σ = v.count ∧ ∀ k : Int, (ref2range v).at σ k = v.at σ k :=
  ref2range_sound v σ

/-! ## Non-vacuity and sanity evaluations -/

/-- `a(2:6) = a(2:6) + b(1:5) * s` with `m(i, 1:3) = m(j, 1:3)`-style same-range self reference: accepted -/
def okWitness : AAIn :=
  { lhs := ⟨0, .r1, .lit 2, .lit 6, .lit 1⟩,
    rhs := .bin .add (.sec ⟨0, .r1, .lit 2, .lit 6, .lit 1⟩)
      (.bin .mul (.sec ⟨1, .r1, .lit 1, .lit 5, .lit 1⟩) (.sc (.var 2))),
    badCall := false, allowOverlap := false }

example : validateAA okWitness = none ∧ okWitness.allowOverlap = false ∧
    7 ∉ okWitness.lhs.arr :: (okWitness.lhs.svars ++ okWitness.rhs.allvars) := by decide

example : (exec (applyAA 7 okWitness) (witnessStore.set (2, 0, 0) 2)) (0, 2, 0) = 24 := by decide
example : (execAA okWitness (witnessStore.set (2, 0, 0) 2)) (0, 2, 0) = 24 := by decide
-- empty extent: nothing is written
example : (execAA { overlapWitness with lhs := ⟨0, .r1, .lit 5, .lit 4, .lit 1⟩ } witnessStore) (0, 5, 0) = 0 := by decide

/-- `x = y + ABS(y * x)` with x = var 0, y = var 1, res = 8, tmp = 9 -/
def absWitness : Asg := ⟨.sc 0, .bin .add (.var 1) (.var 8)⟩
example : 9 ∉ absWitness.vars ∧ 8 ∉ absWitness.tgt.iarrs ++ arrs absWitness.rhs := by decide
example : (exec (abs2code 8 9 (.bin .mul (.var 1) (.var 0)) absWitness)
    (storeOf [((0, 0, 0), 2), ((1, 0, 0), -3)])) (0, 0, 0) = 3 := by decide
example : (exec (sign2code 8 9 10 11 (.var 0) (.lit 0) absWitness)
    (storeOf [((0, 0, 0), -2), ((1, 0, 0), -3)])) (0, 0, 0) = -1 := by decide
example : (exec (minmax2code true 8 9 (.var 0) [.var 1, .lit 7, .lit 4] absWitness)
    (storeOf [((0, 0, 0), 2), ((1, 0, 0), -3)])) (0, 0, 0) = 4 := by decide


/-- `x = 1 + MAXVAL(a(2:6) + c(1:5), mask = b(3:7) > 0) * 2` (a,b,c = arrays 0,1,2; x = var 3; hole = 9) -/
def redWitness : RedIn :=
  { kind := .maxval,
    expr := .bin .add (.sec ⟨0, .r1, .lit 2, .lit 6, .lit 1⟩) (.sec ⟨2, .r1, .lit 1, .lit 5, .lit 1⟩),
    mask := some (.bin .gt (.sec ⟨1, .r1, .lit 3, .lit 7, .lit 1⟩) (.sc (.lit 0))),
    dim := false, tgt := .sc 3, hole := 9,
    ctx := .bin .add (.lit 1) (.bin .mul (.var 9) (.lit 2)), huge := 1000 }

example : RedFresh 7 8 redWitness :=
  ⟨by decide, by decide, by decide, by decide, by decide, by decide, by decide⟩
example : ∃ s, transRed 7 8 redWitness = .ok s := ⟨_, rfl⟩
example : (match transRed 7 8 redWitness with
    | .ok s => (exec s (storeOf [((0, 2, 0), 4), ((0, 3, 0), 9), ((2, 1, 0), 1), ((2, 2, 0), 1), ((1, 3, 0), 1)])) (3, 0, 0)
    | .error _ => 0) = 11 := by decide
-- increment: `x = x + SUM(a(1:3))` goes through a temporary and ends with `x = x + tmp`
example : (match transRed 7 8 ⟨.sum, .sec ⟨0, .r1, .lit 1, .lit 3, .lit 1⟩, none, false, .sc 3, 9,
      .bin .add (.var 3) (.var 9), 1000⟩ with
    | .ok s => (exec s (storeOf [((0, 2, 0), 4), ((0, 3, 0), 9), ((3, 0, 0), 100)])) (3, 0, 0)
    | .error _ => 0) = 113 := by decide
-- differently strided sections are refused
example : transRed 7 8 ⟨.sum, .bin .mul (.sec ⟨0, .r1, .lit 1, .lit 9, .lit 2⟩) (.sec ⟨1, .r1, .lit 1, .lit 5, .lit 1⟩),
    none, false, .sc 3, 9, .var 9, 1000⟩ = .error .stride := rfl
example : (⟨0, 1, 3⟩ : Vec).lb = (⟨1, 1, 3⟩ : Vec).lb := rfl


/-- `m(1:2, 1:2) = m(1:2, 1:2) + q(0:1, 2:3) * x` (arrays 0, 1; x = var 2) -/
def aa2Witness : AAIn2 :=
  { lhs := ⟨0, .lit 1, .lit 2, .lit 1, .lit 1, .lit 2, .lit 1⟩,
    rhs := .bin .add (.sec ⟨0, .lit 1, .lit 2, .lit 1, .lit 1, .lit 2, .lit 1⟩)
      (.bin .mul (.sec ⟨1, .lit 0, .lit 1, .lit 1, .lit 2, .lit 3, .lit 1⟩) (.sc (.var 2))) }

example : validateAA2 aa2Witness = none ∧ 7 ∉ aa2Witness.lhs.arr :: (aa2Witness.lhs.svars ++ aa2Witness.rhs.allvars) := by
  decide
example : (exec (applyAA2 7 8 aa2Witness) (storeOf [((0, 2, 2), 5), ((1, 1, 3), 4), ((2, 0, 0), 3)])) (0, 2, 2) = 17 := by
  decide
example : (execAA2 aa2Witness (storeOf [((0, 2, 2), 5), ((1, 1, 3), 4), ((2, 0, 0), 3)])) (0, 2, 2) = 17 := by decide
-- a shifted self reference is refused: `m(1:2,1:2) = m(1:2,2:3)`
example : validateAA2 ⟨aa2Witness.lhs, .sec ⟨0, .lit 1, .lit 2, .lit 1, .lit 2, .lit 3, .lit 1⟩⟩ = some .overlap := by decide
example : matvecAligned ⟨0, 1, 2⟩ ⟨1, 1, 2, 1, 2⟩ ⟨2, 1, 2⟩ = true ∧ matmatAligned ⟨0, 1, 2, 1, 2⟩ ⟨1, 1, 2, 0, 1⟩ ⟨2, 0, 1, 1, 2⟩ = true := by
  decide
example : (exec (matmatCode 7 8 9 ⟨0, 1, 2, 1, 2⟩ ⟨1, 1, 2, 0, 1⟩ ⟨2, 0, 1, 1, 2⟩)
    (storeOf [((1, 2, 0), 2), ((1, 2, 1), 3), ((2, 0, 2), 5), ((2, 1, 2), 7)])) (0, 2, 2) = 31 := by decide
example : (exec (applyAcc 7 ⟨0, .var 3, .bin .add (.idx1 1 (.var 9)) (.var 2), 9⟩)
    (storeOf [((3, 0, 0), 4), ((1, 4, 0), 10), ((2, 0, 0), 1)])) (0, 4, 0) = 11 := by decide


/-! ## `same_range` and the index offset (section positions, declared lower bounds) -/

/-- the linear normal form the driver uses in place of `SymbolicMaths.equal` is sound -/
theorem C06_linEq_sound : EqSound linEq := linEq_sound

/-- **`is_lower_bound`**: a range for which it answers True starts at the run-time LBOUND of its dimension
(explicit, `lo:`, assumed-shape and deferred declarations; `LBOUND(a, d)` or an expression `SymbolicMaths`
proves equal to the declared lower bound). -/
theorem C06_is_lower_bound_sound {eq : Expr → Expr → Bool} (heq : EqSound eq) (D : Decls) (σ : Store) (a : Acc)
    (i : Nat) (s t : Bnd) (p : Expr) (hD : a.shape = D a.arr) (hix : a.idx[i]? = some (.rng s t p))
    (h : isLower eq a i = true) : s.val D σ = (Bnd.lb a.arr i).val D σ :=
  isLower_sound heq D σ a i s t p hD hix h

/-- the full statement for `same_range`, parametrised by the variant of the same-array shortcut -/
def C06_same_range_statement (fixed : Bool) : Prop :=
  ∀ (eq : Expr → Expr → Bool), EqSound eq → ∀ (D : Decls) (σ : Store) (sameStmt : Bool) (a1 a2 : Acc) (i1 i2 : Nat)
    (s1 t1 s2 t2 : Bnd) (p1 p2 : Expr), a1.shape = D a1.arr → a2.shape = D a2.arr →
    a1.idx[i1]? = some (.rng s1 t1 p1) → a2.idx[i2]? = some (.rng s2 t2 p2) →
    sameRange fixed eq sameStmt a1 i1 a2 i2 = some true → s1.val D σ = s2.val D σ

/-- **`same_range` (shortcut restricted to the same dimension, fixes/C06-same-range-same-dimension.patch)**:
whenever it answers True the two ranges start at the same value, for every store, every declaration kind,
every rank and every pair of dimension positions — the loop index can be shared. -/
theorem C06_same_range_start_sound : C06_same_range_statement true := by
  intro eq heq D σ ss a1 a2 i1 i2 s1 t1 s2 t2 p1 p2 hD1 hD2 h1 h2 h
  exact sameRange_start_sound heq D σ true ss a1 a2 i1 i2 s1 t1 s2 t2 p1 p2 hD1 hD2 h1 h2 (Or.inl rfl) h

/-- **`same_range` at HEAD (partial)**: sound when two accesses to the SAME array are only compared in the same
dimension position. -/
theorem C06_same_range_start_sound_partial {eq : Expr → Expr → Bool} (heq : EqSound eq) (D : Decls) (σ : Store)
    (sameStmt : Bool) (a1 a2 : Acc) (i1 i2 : Nat) (s1 t1 s2 t2 : Bnd) (p1 p2 : Expr)
    (hD1 : a1.shape = D a1.arr) (hD2 : a2.shape = D a2.arr)
    (h1 : a1.idx[i1]? = some (.rng s1 t1 p1)) (h2 : a2.idx[i2]? = some (.rng s2 t2 p2))
    (hside : a1.arr = a2.arr → i1 = i2)
    (h : sameRange false eq sameStmt a1 i1 a2 i2 = some true) : s1.val D σ = s2.val D σ :=
  sameRange_start_sound heq D σ false sameStmt a1 a2 i1 i2 s1 t1 s2 t2 p1 p2 hD1 hD2 h1 h2 (Or.inr hside) h

/-- `real :: a(0:3, 1:4)` (array 0): the accesses `a(:, 1)` and `a(0, :)` -/
def crossShape : List DimDecl := [.bounds (.lit 0) (.lit 3), .bounds (.lit 1) (.lit 4)]
def crossA1 : Acc := ⟨0, crossShape, [.rng (.lb 0 0) (.ub 0 0) (.lit 1), .at (.lit 1)]⟩
def crossA2 : Acc := ⟨0, crossShape, [.at (.lit 0), .rng (.lb 0 1) (.ub 0 1) (.lit 1)]⟩
def crossD : Decls := fun a => if a = 0 then crossShape else []

/-- the side condition is necessary: at HEAD `same_range` answers True for `a(:,1)` / `a(0,:)` of
`a(0:3,1:4)` (same array, both ranges start at "the" lower bound) although the ranges start at 0 and 1;
with the shortcut restricted to the same dimension it answers False.  (`x = SUM(a(:,1) * a(0,:))` is lowered to
`a(idx,1) * a(0,idx)`, idx = 0..3: known finding C06-same-array-cross-dimension.) -/
theorem C06_same_range_shortcut_counterexample : ¬ C06_same_range_statement false := by
  intro h
  have := h linEq linEq_sound crossD (storeOf []) true crossA1 crossA2 0 1 (.lb 0 0) (.ub 0 0) (.lb 0 1) (.ub 0 1)
    (.lit 1) (.lit 1) rfl rfl rfl rfl (by decide)
  revert this
  decide

example : sameRange true linEq true crossA1 0 crossA2 1 = some false := by decide

/-- outside the shortcut a True answer also means the steps were proved equal -/
theorem C06_same_range_step_sound {eq : Expr → Expr → Bool} (heq : EqSound eq) (σ : Store)
    (fixed sameStmt : Bool) (a1 a2 : Acc) (i1 i2 : Nat) (s1 t1 s2 t2 : Bnd) (p1 p2 : Expr)
    (h1 : a1.idx[i1]? = some (.rng s1 t1 p1)) (h2 : a2.idx[i2]? = some (.rng s2 t2 p2))
    (hno : (isLower eq a1 i1 && (a1.arr == a2.arr) && (!fixed || i1 == i2) && isLower eq a2 i2) = false)
    (h : sameRange fixed eq sameStmt a1 i1 a2 i2 = some true) : eval p1 σ = eval p2 σ :=
  sameRange_step_sound heq σ fixed sameStmt a1 a2 i1 i2 s1 t1 s2 t2 p1 p2 h1 h2 hno h

/-- **the emitted index expression is right, whatever `same_range` answered** (any rank, any positions): in
iteration `n` of the loop over the lhs range, `idx` (answer True) resp. `idx + (start₂ - start₁)` (answer False)
evaluates to start₂ + n·step, the index of element `n` of the other range. -/
theorem C06_index_expr_sound {eq : Expr → Expr → Bool} (heq : EqSound eq) (D : Decls) (τ : Store)
    (sameStmt : Bool) (a1 a2 : Acc) (i1 i2 : Nat) (s1 t1 s2 t2 : Bnd) (p1 p2 : Expr) (same : Bool)
    (hD1 : a1.shape = D a1.arr) (hD2 : a2.shape = D a2.arr)
    (h1 : a1.idx[i1]? = some (.rng s1 t1 p1)) (h2 : a2.idx[i2]? = some (.rng s2 t2 p2))
    (h : sameRange true eq sameStmt a1 i1 a2 i2 = some same) (idx : Nat) (n st : Int)
    (hidx : τ (idx, 0, 0) = s1.val D τ + n * st) :
    eval (idxExprB D same idx s1 s2) τ = s2.val D τ + n * st :=
  idxExprB_eval D same idx s1 s2 τ n st hidx
    (fun hs => sameRange_start_sound heq D τ true sameStmt a1 a2 i1 i2 s1 t1 s2 t2 p1 p2 hD1 hD2 h1 h2
      (Or.inl rfl) (hs ▸ h))

/-- **ArrayAssignment2LoopsTrans with explicit `same_range` decisions**: for ANY decision table that says True
only for sections starting where the lhs section starts, the generated loop (shared index where True, offset
index where False) computes the Fortran array assignment. -/
theorem C06_arrayassign_decision_sound (dec : Sec → Bool) (idx : Nat) (a : AAIn) (hv : validateAA a = none)
    (hno : a.allowOverlap = false) (hidx : idx ∉ a.lhs.arr :: (a.lhs.svars ++ a.rhs.allvars)) (σ : Store)
    (hdec : ∀ s ∈ a.rhs.secs, dec s = true → eval s.lo σ = eval a.lhs.lo σ) :
    AgreeOn (fun y => y ≠ idx) (exec (applyAAD dec idx a) σ) (execAA a σ) := by
  obtain ⟨_, hstride, hsame, hsc⟩ := validateAA_none a hv hno
  intro y hy i j
  simp only [applyAAD, exec, runIters_eq_iters, execAA, Sec.count]
  rw [Store.set_other _ _ (loc_ne i j hy)]
  by_cases hst : eval a.lhs.st σ = 0
  · simp [trip, hst, iters, writeVals]
  · exact applyAAD_iters dec idx a σ hdec hstride hsame hsc hidx hst _ y hy i j

/-- **sections in different dimension positions, declared bounds of every kind** (rank ≤ 2 semantics): the loop
`ArrayAssignment2LoopsTrans` builds from the `same_range` answers on the PSyIR accesses (`decOf`) computes the
array assignment — with the same-dimension shortcut unconditionally … -/
theorem C06_arrayassign_cross_sound {eq : Expr → Expr → Bool} (heq : EqSound eq) (D : Decls) (l : Acc)
    (accs : List Acc) (idx : Nat) (a : AAIn) (s : Stmt)
    (hDl : l.shape = D l.arr) (hD : ∀ x ∈ accs, x.shape = D x.arr) (hl : l.toSec D = some a.lhs)
    (ht : transAAacc D true eq idx l accs a = .ok s) (hno : a.allowOverlap = false)
    (hidx : idx ∉ a.lhs.arr :: (a.lhs.svars ++ a.rhs.allvars)) (σ : Store) :
    AgreeOn (fun y => y ≠ idx) (exec s σ) (execAA a σ) := by
  unfold transAAacc at ht
  cases hv : validateAA a with
  | some r => simp [hv] at ht
  | none =>
    simp only [hv, Except.ok.injEq] at ht
    subst ht
    exact C06_arrayassign_decision_sound _ idx a hv hno hidx σ
      (fun s _ h => decOf_sound heq D true l accs a.lhs s σ hDl hD (Or.inl rfl) hl h)

/-- … and at HEAD when no rhs access to the lhs ARRAY has its range in another position (always the case for
an assignment `validate` accepts without `allow_overlap`; not for the synthetic assignment of the reductions). -/
theorem C06_arrayassign_cross_sound_partial {eq : Expr → Expr → Bool} (heq : EqSound eq) (D : Decls) (l : Acc)
    (accs : List Acc) (idx : Nat) (a : AAIn) (s : Stmt)
    (hDl : l.shape = D l.arr) (hD : ∀ x ∈ accs, x.shape = D x.arr) (hl : l.toSec D = some a.lhs)
    (hside : ∀ x ∈ accs, l.arr = x.arr → l.rpos = x.rpos)
    (ht : transAAacc D false eq idx l accs a = .ok s) (hno : a.allowOverlap = false)
    (hidx : idx ∉ a.lhs.arr :: (a.lhs.svars ++ a.rhs.allvars)) (σ : Store) :
    AgreeOn (fun y => y ≠ idx) (exec s σ) (execAA a σ) := by
  unfold transAAacc at ht
  cases hv : validateAA a with
  | some r => simp [hv] at ht
  | none =>
    simp only [hv, Except.ok.injEq] at ht
    subst ht
    exact C06_arrayassign_decision_sound _ idx a hv hno hidx σ
      (fun s _ h => decOf_sound heq D false l accs a.lhs s σ hDl hD (Or.inr hside) hl h)

/-- `v(:) = e2(2,:) + m(2,:)` with `v(1:4)`, `e2(1:4,0:3)`, `m(1:4,1:4)` (arrays 1, 2, 3) -/
def xD : Decls := fun a =>
  if a = 1 then [.bounds (.lit 1) (.lit 4)]
  else if a = 2 then [.bounds (.lit 1) (.lit 4), .bounds (.lit 0) (.lit 3)]
  else if a = 3 then [.bounds (.lit 1) (.lit 4), .bounds (.lit 1) (.lit 4)] else []
def xL : Acc := ⟨1, xD 1, [.rng (.lb 1 0) (.ub 1 0) (.lit 1)]⟩
def xE : Acc := ⟨2, xD 2, [.at (.lit 2), .rng (.lb 2 1) (.ub 2 1) (.lit 1)]⟩
def xM : Acc := ⟨3, xD 3, [.at (.lit 2), .rng (.lb 3 1) (.ub 3 1) (.lit 1)]⟩
def xLs : Sec := ⟨1, .r1, .lit 1, .lit 4, .lit 1⟩
def xEs : Sec := ⟨2, .col (.lit 2), .lit 0, .lit 3, .lit 1⟩
def xMs : Sec := ⟨3, .col (.lit 2), .lit 1, .lit 4, .lit 1⟩
def xAA : AAIn := ⟨xLs, .bin .add (.sec xEs) (.sec xMs), false, false⟩

-- non-vacuity: the hypotheses of `C06_arrayassign_cross_sound` hold on this input and the two answers differ
example : xL.toSec xD = some xAA.lhs ∧ xE.toSec xD = some xEs ∧ xM.toSec xD = some xMs := by decide
example : sameRange true linEq true xL 0 xE 1 = some false ∧ sameRange true linEq true xL 0 xM 1 = some true := by
  decide
example : (match transAAacc xD true linEq 7 xL [xE, xM] xAA with
    | .ok s => decide (s = .loop 7 (.lit 1) (.lit 4) (.lit 1) (.store1 1 (.var 7)
        (.bin .add (.idx2 2 (.lit 2) (.bin .add (.var 7) (.bin .sub (.lit 0) (.lit 1)))) (.idx2 3 (.lit 2) (.var 7)))))
    | .error _ => false) = true := by
  decide
example : 7 ∉ xAA.lhs.arr :: (xAA.lhs.svars ++ xAA.rhs.allvars) := by decide
-- reading the declared lower bound of the WRONG dimension (e2's first, 1) would share the index: e2(2,1) instead of e2(2,0)
example : (exec (applyAAD (fun _ => true) 7 xAA) (storeOf [((2, 2, 0), 5), ((2, 2, 1), 9)])) (1, 1, 0) = 9
    ∧ (execAA xAA (storeOf [((2, 2, 0), 5), ((2, 2, 1), 9)])) (1, 1, 0) = 5 := by decide
-- assumed-shape (`e(:)`, LBOUND 1), `f(0:)`, symbolic `g(n:)` and allocatable declarations
example : sameRange true linEq true ⟨1, [.bounds (.lit 1) (.lit 4)], [.rng (.lb 1 0) (.ub 1 0) (.lit 1)]⟩ 0
    ⟨2, [.attribute (.var 9)], [.rng (.lb 2 0) (.ub 2 0) (.lit 1)]⟩ 0 = some true := by decide
example : sameRange true linEq true ⟨1, [.bounds (.lit 1) (.lit 4)], [.rng (.lb 1 0) (.ub 1 0) (.lit 1)]⟩ 0
    ⟨2, [.lowerOnly (.lit 0) (.var 9)], [.rng (.lb 2 0) (.ub 2 0) (.lit 1)]⟩ 0 = some false := by decide
example : sameRange true linEq true ⟨1, [.lowerOnly (.var 5) (.var 9)], [.rng (.lb 1 0) (.ub 1 0) (.lit 1)]⟩ 0
    ⟨2, [.bounds (.bin .add (.var 5) (.lit 0)) (.var 8)], [.rng (.e (.var 5)) (.e (.var 8)) (.lit 1)]⟩ 0 = some true := by decide
example : sameRange true linEq true ⟨1, [.bounds (.lit 1) (.lit 4)], [.rng (.lb 1 0) (.ub 1 0) (.lit 1)]⟩ 0
    ⟨2, [.deferred (.var 8) (.var 9)], [.rng (.lb 2 0) (.ub 2 0) (.lit 1)]⟩ 0 = some false := by decide
example : isFullRange linEq ⟨1, [.bounds (.lit 1) (.lit 4)], [.rng (.e (.lit 1)) (.e (.lit 4)) (.lit 1)]⟩ 0 = some true
    ∧ isFullRange linEq ⟨1, [.bounds (.lit 1) (.lit 4)], [.rng (.e (.lit 1)) (.e (.lit 4)) (.lit 2)]⟩ 0 = some false
    ∧ isUpper linEq ⟨1, [.lowerOnly (.lit 0) (.var 9)], [.rng (.lb 1 0) (.e (.lit 3)) (.lit 1)]⟩ 0 = none := by decide
example : linEq (.bin .add (.var 1) (.lit 1)) (.bin .sub (.bin .add (.lit 2) (.var 1)) (.lit 1)) = true
    ∧ linEq (.var 1) (.var 2) = false ∧ linEq (.bin .mul (.lit 2) (.var 1)) (.bin .add (.var 1) (.var 1)) = true := by decide

end C06
