import PsyVerif.Lemmas.ArrayLowerSem
/-! # C06 — array-syntax and intrinsic lowering preserve semantics

Model: `Model/ArrayLower.lean` (namespace `C06`).  The model follows the code with the
repairs of `fixes/C06-arrayassign-overlap-stride.patch` (refuse overlapping / differently
strided sections) and `fixes/C06-reduction-result.patch`; the behaviour of the pinned
`validate` is kept as `validateAA_pinned` with kernel-checked counterexamples.

Stores are compared on every variable except the fresh names the transformation
introduces (`AgreeOn (fun y => y ≠ idx …)`). -/
namespace C06
open MiniF

theorem validateAA_none (a : AAIn) (hv : validateAA a = none) (hno : a.allowOverlap = false) :
    a.badCall = false ∧ (∀ s ∈ a.rhs.secs, s.st = a.lhs.st) ∧
    (∀ s ∈ a.rhs.secs, s.arr = a.lhs.arr → s.fix.kind = a.lhs.fix.kind ∧ s.lo = a.lhs.lo) ∧
    a.lhs.arr ∉ a.rhs.svars ++ a.lhs.svars := by
  unfold validateAA at hv
  split at hv; · simp at hv
  split at hv; · simp at hv
  split at hv; · simp at hv
  rename_i h1 h2 h3
  simp only [hno, Bool.not_false, Bool.true_and, Bool.not_eq_true', Bool.not_eq_false] at h3
  simp only [Bool.not_eq_true', Bool.not_eq_false, strideOK, List.all_eq_true, decide_eq_true_eq] at h2
  simp only [overlapOK, Bool.and_eq_true, List.all_eq_true, Bool.or_eq_true, bne_iff_ne, ne_eq,
    Bool.not_eq_true', List.contains_eq_mem, decide_eq_false_iff_not] at h3
  refine ⟨by simpa using h1, h2, ?_, h3.2⟩
  intro s hs harr
  rcases h3.1 s hs with h | h
  · exact absurd harr h
  · simp only [sameRanges, Bool.and_eq_true, beq_iff_eq, decide_eq_true_eq] at h
    exact ⟨h.1.1.1, h.1.1.2⟩

/-! ## The property -/

/-- the full statement for array assignments, parametrised by the `validate` in force -/
def C06_arrayassign_statement (validate : AAIn → Option Refusal) : Prop :=
  ∀ (idx : Nat) (a : AAIn), validate a = none → a.allowOverlap = false →
    idx ∉ a.lhs.arr :: (a.lhs.svars ++ a.rhs.allvars) →
    ∀ σ : Store, AgreeOn (fun y => y ≠ idx) (exec (applyAA idx a) σ) (execAA a σ)

/-- **ArrayAssignment2LoopsTrans (fixed validate)**: whenever the assignment is accepted, the
generated loop computes the Fortran array assignment (rhs evaluated before any store), for
every store, every extent (including empty and negative-stride sections) and arbitrary bounds. -/
theorem C06_arrayassign_sound : C06_arrayassign_statement validateAA := by
  intro idx a hv hno hidx σ
  obtain ⟨_, hstride, hsame, hsc⟩ := validateAA_none a hv hno
  intro y hy i j
  simp only [applyAA, exec, runIters_eq_iters, execAA, Sec.count]
  rw [Store.set_other _ _ (loc_ne i j hy)]
  by_cases hst : eval a.lhs.st σ = 0
  · simp [trip, hst, iters, writeVals]
  · exact applyAA_iters idx a σ hstride hsame hsc hidx hst _ y hy i j

/-- `a(2:10) = a(1:9)` (array 0) -/
def overlapWitness : AAIn :=
  { lhs := ⟨0, .r1, .lit 2, .lit 10, .lit 1⟩, rhs := .sec ⟨0, .r1, .lit 1, .lit 9, .lit 1⟩,
    badCall := false, allowOverlap := false }

/-- `a(1:9:2) = b(1:5)` (arrays 0, 1) -/
def strideWitness : AAIn :=
  { lhs := ⟨0, .r1, .lit 1, .lit 9, .lit 2⟩, rhs := .sec ⟨1, .r1, .lit 1, .lit 5, .lit 1⟩,
    badCall := false, allowOverlap := false }

def witnessStore : Store :=
  storeOf [((0, 1, 0), 1), ((0, 2, 0), 2), ((0, 3, 0), 3), ((1, 1, 0), 11), ((1, 2, 0), 12), ((1, 3, 0), 13)]

/-- the pinned `validate` accepts `a(2:10) = a(1:9)` and the forward loop smears `a(1)`:
Fortran gives `a(3) = 2`, the loop gives `a(3) = 1`. -/
theorem C06_arrayassign_overlap_counterexample : ¬ C06_arrayassign_statement validateAA_pinned := by
  intro h
  have := h 7 overlapWitness (by decide) rfl (by decide) witnessStore 0 (by decide) 3 0
  revert this
  decide

/-- the pinned `validate` accepts `a(1:9:2) = b(1:5)` and the loop reads `b(3)` instead of `b(2)`. -/
theorem C06_arrayassign_stride_counterexample :
    validateAA_pinned strideWitness = none ∧
    (exec (applyAA 7 strideWitness) witnessStore) (0, 3, 0) ≠ (execAA strideWitness witnessStore) (0, 3, 0) := by
  decide

/-- the fixed `validate` refuses both witnesses -/
theorem C06_arrayassign_refuses_witnesses :
    validateAA overlapWitness = some .overlap ∧ validateAA strideWitness = some .stride := by decide

/-- **Abs2CodeTrans**: `tmp = X; IF (tmp > 0) res = tmp ELSE res = tmp * -1; S` computes `S[res := ABS(X)]`. -/
theorem C06_abs2code_sound (res tmp : Nat) (x : Expr) (s : Asg)
    (htmp : tmp ∉ s.vars) (hres : res ∉ s.tgt.iarrs ++ arrs s.rhs) (σ : Store) :
    AgreeOn (fun y => y ≠ tmp ∧ y ≠ res) (exec (abs2code res tmp x s) σ) (exec (absOrig res x s) σ) := by
  exact prefix_then_asg (absCode res tmp x) s res (.un .abs x) (fun y => y = tmp) σ
    (by
      rw [exec_absCode]
      intro y hy i j
      simp only [Store.set_apply, eval]
      split
      · rfl
      · rw [if_neg]; intro h; exact hy (congrArg Prod.fst h))
    (fun y hy h => htmp (h ▸ hy)) hres

/-- **Sign2CodeTrans** (including the nested Abs2CodeTrans): computes `S[res := SIGN(A, B)]`,
in particular `SIGN(A, 0) = |A|`. -/
theorem C06_sign2code_sound (res tmp ares atmp : Nat) (a b : Expr) (s : Asg) (h1 : res ≠ tmp)
    (hb : ∀ y ∈ vars b, y ≠ res ∧ y ≠ ares ∧ y ≠ atmp)
    (hs : ∀ y ∈ s.vars, y ≠ tmp ∧ y ≠ ares ∧ y ≠ atmp)
    (hres : res ∉ s.tgt.iarrs ++ arrs s.rhs) (σ : Store) :
    AgreeOn (fun y => ¬ (y = tmp ∨ y = ares ∨ y = atmp) ∧ y ≠ res)
      (exec (sign2code res tmp ares atmp a b s) σ) (exec (signOrig res a b s) σ) := by
  exact prefix_then_asg (signCode res tmp ares atmp a b) s res (.bin .sign a b) _ σ
    (exec_signCode_agree res tmp ares atmp a b σ h1 hb)
    (fun y hy h => by have := hs y hy; rcases h with h | h | h <;> simp_all) hres

/-- **Min2CodeTrans / Max2CodeTrans** for any number of arguments: computes
`S[res := MIN(A, B, C, …)]` (resp. MAX). -/
theorem C06_minmax2code_sound (isMax : Bool) (res tmp : Nat) (a : Expr) (rest : List Expr) (s : Asg)
    (hne : res ≠ tmp) (hargs : ∀ b ∈ rest, ∀ y ∈ vars b, y ≠ res ∧ y ≠ tmp)
    (htmp : tmp ∉ s.vars) (hres : res ∉ s.tgt.iarrs ++ arrs s.rhs) (σ : Store) :
    AgreeOn (fun y => y ≠ tmp ∧ y ≠ res) (exec (minmax2code isMax res tmp a rest s) σ)
      (exec (minmaxOrig isMax res a rest s) σ) := by
  exact prefix_then_asg (mmCode isMax res tmp a rest) s res (mmExpr isMax a rest) (fun y => y = tmp) σ
    (exec_mmCode isMax res tmp a rest σ hne hargs) (fun y hy h => htmp (h ▸ hy)) hres

/-! ## Non-vacuity and sanity evaluations -/

/-- `a(2:6) = a(2:6) + b(1:5) * s` with `m(i, 1:3) = m(j, 1:3)`-style same-range self reference: accepted -/
def okWitness : AAIn :=
  { lhs := ⟨0, .r1, .lit 2, .lit 6, .lit 1⟩,
    rhs := .bin .add (.sec ⟨0, .r1, .lit 2, .lit 6, .lit 1⟩)
      (.bin .mul (.sec ⟨1, .r1, .lit 1, .lit 5, .lit 1⟩) (.sc (.var 2))),
    badCall := false, allowOverlap := false }

example : validateAA okWitness = none ∧ okWitness.allowOverlap = false ∧
    7 ∉ okWitness.lhs.arr :: (okWitness.lhs.svars ++ okWitness.rhs.allvars) := by decide

example : (exec (applyAA 7 okWitness) (witnessStore.set (2, 0, 0) 2)) (0, 2, 0) = 24 := by decide
example : (execAA okWitness (witnessStore.set (2, 0, 0) 2)) (0, 2, 0) = 24 := by decide
-- empty extent: nothing is written
example : (execAA { overlapWitness with lhs := ⟨0, .r1, .lit 5, .lit 4, .lit 1⟩ } witnessStore) (0, 5, 0) = 0 := by decide

/-- `x = y + ABS(y * x)` with x = var 0, y = var 1, res = 8, tmp = 9 -/
def absWitness : Asg := ⟨.sc 0, .bin .add (.var 1) (.var 8)⟩
example : 9 ∉ absWitness.vars ∧ 8 ∉ absWitness.tgt.iarrs ++ arrs absWitness.rhs := by decide
example : (exec (abs2code 8 9 (.bin .mul (.var 1) (.var 0)) absWitness)
    (storeOf [((0, 0, 0), 2), ((1, 0, 0), -3)])) (0, 0, 0) = 3 := by decide
example : (exec (sign2code 8 9 10 11 (.var 0) (.lit 0) absWitness)
    (storeOf [((0, 0, 0), -2), ((1, 0, 0), -3)])) (0, 0, 0) = -1 := by decide
example : (exec (minmax2code true 8 9 (.var 0) [.var 1, .lit 7, .lit 4] absWitness)
    (storeOf [((0, 0, 0), 2), ((1, 0, 0), -3)])) (0, 0, 0) = 4 := by decide

end C06
