import PsyVerif.Model.ExprIO
import PsyVerif.Gen.FortranOps
import PsyVerif.Lemmas.ExprIOMain
/-! # C02 — Written expressions keep the operation order of the PSyIR tree

Model: `PsyVerif/Model/ExprIO.lean`.  `render .narrow` is the writer WITH
`fixes/C02-writer-parens-narrow.patch` applied (mode: **fixed, narrow**) — the target of the theorems
and of the correspondence check.  `render .pinned` is the unfixed writer and `render .wide` the wider,
not applied rule (`fixes/C02-writer-parens-wide.notapplied.patch`); both are kept for kernel-checked
witnesses, `wide` also as the proof vehicle (`render_narrow_eq_wide`).  What the narrow patch cannot
repair without editing existing tests — a `+`/`-` sign in front of `*` `/`, a signed literal after
`*` `/` — is the decidable class `exposed` (known finding C02-sign-under-mul), excluded by the side
condition `exposed .top e = false`.  `P`/`parse` is the Fortran 2008 expression grammar R701–R722; parentheses are
dropped as `_parenthesis_handler` does.

Quantification: all trees of unbounded depth.  What is proved for ALL trees of the
operator / unary-operator / literal / scalar-reference fragment (`opFrag`): the written token list
is accepted by the grammar and denotes `norm e` — the original tree, except that a literal is
replaced by what the reader makes of its text (a leading sign becomes a unary operation, the
precision is re-derived from exponent letter and kind suffix).  For trees whose literals are
canonical this is the original tree itself.  Array/structure accesses and intrinsic calls are in
the model, the driver and the correspondence check; the induction does not cover them yet
(`C02_statement` is the full statement). -/
namespace C02

def optoks : List OpTok :=
  [.plus, .minus, .star, .slash, .pow, .eq, .ne, .lt, .le, .gt, .ge, .not, .and, .or, .eqv, .neqv]
def binops : List BinOp :=
  [.add, .sub, .mul, .div, .rem, .pow, .eq, .ne, .gt, .lt, .ge, .le, .and, .or, .eqv, .neqv]
def unops : List UnOp := [.minus, .plus, .not]
def tokIdx (o : OpTok) : Nat := (optoks ++ [OpTok.bad]).idxOf o

/-- the parser, run with any sufficiently large fuel, consumes all of `ts` and returns `e` -/
def ParsesTo (ts : List Tok) (e : Expr) : Prop := ∃ f0, ∀ f, f0 ≤ f → P f (.expr 0) ts = some (e, [])

theorem parse_of_fuel {ts e f} (h : P f (.expr 0) ts = some (e, [])) (hf : f ≤ fuelFor ts) :
    parse ts = some e := by
  simp [parse, P_mono_le h hf]

theorem norm_of_canonical : ∀ e, litsCanonical e = true → norm e = some e := by
  intro e
  induction e with
  | lit l => intro h; simpa [litsCanonical, Lit.canonical, norm] using h
  | un u x ih => intro h; simp [litsCanonical] at h; simp [norm, ih h]
  | bin b l r ihl ihr => intro h; simp [litsCanonical] at h; simp [norm, ihl h.1, ihr h.2]
  | part n a nx iha ihn => intro h; simp [litsCanonical] at h; simp [norm, iha h.1, ihn h.2]
  | call f a ih => intro h; simp [litsCanonical] at h; simp [norm, ih h]
  | nil => intro _; rfl
  | cons k x r ihx ihr => intro h; simp [litsCanonical] at h; simp [norm, ihx h.1, ihr h.2]

/-! sample trees: `a + ((-b)*c)*d`, `(a**b)**c`, `a + Literal("-1.0")`, `(-a)*b`, `(a<b)==c` -/
def va : Expr := .ref 1
def vb : Expr := .ref 2
def vc : Expr := .ref 3
def vd : Expr := .ref 4
def exUnary : Expr := .bin .add va (.bin .mul (.bin .mul (.un .minus vb) vc) vd)
def exPow : Expr := .bin .pow (.bin .pow va vb) vc
def exNegLit : Expr := .bin .add va (.lit (.real .minus 7 true false .undef))
def exLead : Expr := .bin .mul (.un .minus va) vb
def exRel : Expr := .bin .eq (.bin .lt va vb) vc

/-! ## The property -/

/-- Full statement (all constructs of the model, fixed writer): whatever the writer accepts is
written as a sentence of the grammar and reads back as `norm e`; with canonical literals as `e`. -/
def C02_statement : Prop :=
  ∀ e ne, wf .expr e = true → norm e = some ne → ParsesTo (render .narrow .top e) ne

/-- The full statement is FALSE of the narrow-fixed writer: `(-a)*b` is written `-a * b`, which the
grammar reads as `-(a*b)`. -/
theorem C02_statement_counterexample : ¬ C02_statement := by
  intro h
  obtain ⟨f0, hf⟩ := h exLead exLead (by decide) (by decide)
  have h1 := hf (max f0 200) (Nat.le_max_left _ _)
  have h2 : P 200 (.expr 0) (render .narrow .top exLead) = some (.un .minus (.bin .mul va vb), []) := by
    decide
  have h3 := P_mono_le h2 (Nat.le_max_right f0 200)
  rw [h3] at h1
  exact absurd h1 (by decide)

/-- **Round trip, fixed writer, operator fragment, unbounded depth.**  Proved by induction with the
follow-set strengthening `Good` (Lemmas/ExprIORules.lean): at every position the writer's
parenthesisation tests leave a node bare only if its grammar level is at least the level the
position requires (`need_le_lvl`). -/
theorem C02_roundtrip_partial (e ne : Expr) (hf : opFrag e = true) (hw : wf .expr e = true)
    (hx : exposed .top e = false) (hn : norm e = some ne) : ParsesTo (render .narrow .top e) ne := by
  rw [render_narrow_eq_wide e .top hx]
  have g := good_render e hf hw ne hn .top trivial
  have := g.1 0 [] (Nat.zero_le _) trivial
  simp only [List.append_nil] at this
  exact this.all_fuel

/-- With canonical literals the re-read tree is structurally the original tree. -/
theorem C02_roundtrip_exact_partial (e : Expr) (hf : opFrag e = true) (hw : wf .expr e = true)
    (hx : exposed .top e = false) (hc : litsCanonical e = true) : ParsesTo (render .narrow .top e) e :=
  C02_roundtrip_partial e e hf hw hx (norm_of_canonical e hc)

/-- Standard conformance, as far as proved: the written text of every accepted, readable tree of
the fragment is a sentence of the Fortran 2008 expression grammar modelled by `P`. -/
theorem C02_standard_partial (e ne : Expr) (hf : opFrag e = true) (hw : wf .expr e = true)
    (hx : exposed .top e = false) (hn : norm e = some ne) : ∃ e', ParsesTo (render .narrow .top e) e' :=
  ⟨ne, C02_roundtrip_partial e ne hf hw hx hn⟩

/-- The same holds inside any operand position, e.g. under a further operator: grouping is kept. -/
theorem C02_roundtrip_in_context (e ne : Expr) (c : Ctx) (hc : c.ok) (hf : opFrag e = true)
    (hw : wf .expr e = true) (hx : exposed c e = false) (hn : norm e = some ne) (R : List Tok)
    (hR : Follow (need c) R) :
    ∃ f0, ∀ f, f0 ≤ f → P f (.expr (need c)) (render .narrow c e ++ R) = some (ne, R) := by
  rw [render_narrow_eq_wide e c hx]
  exact ((good_render e hf hw ne hn c hc).1 (need c) R
    (need_le_lvl c hc e (wf_not_rem hw)) hR).all_fuel

/-- The wide (not applied) rule needs no side condition: it is the full repair on the fragment. -/
theorem C02_roundtrip_wide_partial (e ne : Expr) (hf : opFrag e = true) (hw : wf .expr e = true)
    (hn : norm e = some ne) : ParsesTo (render .wide .top e) ne := by
  have g := good_render e hf hw ne hn .top trivial
  have := g.1 0 [] (Nat.zero_le _) trivial
  simp only [List.append_nil] at this
  exact this.all_fuel

/-- The excluded class is exactly "a `+`/`-` sign (unary operation or signed literal) directly
below `*` or `/`" at a position where the narrow patch keeps the pinned output. -/
theorem C02_exposed_class (lit : Bool) (u : UnOp) (c : Ctx)
    (h : parenSignM .narrow lit u c ≠ parenSignM .wide lit u c) :
    u ≠ .not ∧ ∃ b right eqR, c.par = .bin b right eqR ∧ (b = .mul ∨ b = .div) :=
  exposed_only_under_mul lit u c h

/-! non-vacuity and sanity evaluations (the concrete `parse` with its fixed fuel) -/
def exGp : Expr := .bin .add va (.bin .mul (.un .minus vb) vc)          -- a + (-b)*c
def exLitMul : Expr := .bin .mul va (.lit (.real .minus 7 true false .undef))   -- a * Literal("-1.0")
example : opFrag exPow = true ∧ wf .expr exPow = true ∧ exposed .top exPow = false ∧
    litsCanonical exPow = true := by decide
example : opFrag exGp = true ∧ wf .expr exGp = true ∧ exposed .top exGp = false ∧
    litsCanonical exGp = true := by decide
example : exposed .top exUnary = true ∧ exposed .top exLead = true ∧ exposed .top exLitMul = true := by decide
example : opFrag exNegLit = true ∧ wf .expr exNegLit = true ∧ norm exNegLit ≠ none := by decide
example : parse (render .narrow .top exGp) = some exGp := by decide
example : parse (render .wide .top exUnary) = some exUnary := by decide
example : parse (render .wide .top exLead) = some exLead := by decide
example : parse (render .narrow .top exPow) = some exPow := by decide
example : parse (render .narrow .top exRel) = some exRel := by decide
example : parse (render .narrow .top exNegLit) = norm exNegLit := by decide
example : noBadAdj (render .narrow .top exGp) = true ∧ noBadAdj (render .narrow .top exNegLit) = true := by
  decide

/-! ### the narrow-fixed writer: kernel-checked witnesses of the remaining class (C02-sign-under-mul) -/

/-- `(-a)*b` is still written `-a * b`, read as `-(a*b)`: valid Fortran, same value, other tree. -/
theorem narrow_leading_sign_counterexample :
    parse (render .narrow .top exLead) = some (.un .minus (.bin .mul va vb)) ∧
    exposed .top exLead = true := by decide

/-- `a * Literal("-1.0")` is still written `a * -1.0` and `a + ((-b)*c)*d` still `a + -b * c * d`:
not sentences of the grammar. -/
theorem narrow_sign_after_operator_counterexample :
    parse (render .narrow .top exLitMul) = none ∧ noBadAdj (render .narrow .top exLitMul) = false ∧
    parse (render .narrow .top exUnary) = none ∧ exposed .top exLitMul = true ∧
    exposed .top exUnary = true := by decide

/-- The writer refuses `REM` (no Fortran operator) and character values holding both quote kinds. -/
theorem C02_refuses :
    wf .expr (.bin .rem va vb) = false ∧ wf .expr (.lit (.char 1 .both .undef)) = false := by decide

/-! ### the pinned (unfixed) writer: kernel-checked witnesses of the three defects -/

/-- `(a**b)**c` is written `a ** b ** c`, which is `a**(b**c)`. -/
theorem pinned_pow_left_nested_counterexample :
    parse (render .pinned .top exPow) = some (.bin .pow va (.bin .pow vb vc)) ∧
    parse (render .pinned .top exPow) ≠ some exPow := by decide

/-- `a + ((-b)*c)*d` is written `a + -b * c * d`: two adjacent operators, not a sentence. -/
theorem pinned_unary_counterexample :
    parse (render .pinned .top exUnary) = none ∧ noBadAdj (render .pinned .top exUnary) = false := by decide

/-- `a + Literal("-1.0")` is written `a + -1.0`. -/
theorem pinned_signed_literal_counterexample :
    parse (render .pinned .top exNegLit) = none ∧ noBadAdj (render .pinned .top exNegLit) = false := by decide

/-- `(-a)*b` is written `-a * b`, which is `-(a*b)`; `(a<b)==c` is written `a < b == c` (not a sentence). -/
theorem pinned_leading_sign_and_relational_counterexample :
    parse (render .pinned .top exLead) = some (.un .minus (.bin .mul va vb)) ∧
    parse (render .pinned .top exRel) = none := by decide

/-! ### literals the reader cannot give back unchanged (known findings, not repaired by the patch) -/

/-- A signed literal comes back as a unary operation on the unsigned literal. -/
theorem C02_signed_literal_counterexample :
    norm (.lit (.int .minus 1 .undef)) = some (.un .minus (.lit (.int .none 1 .undef))) := by decide

/-- `Literal("1.0", DOUBLE)` is written `1.0` and comes back with UNDEFINED precision;
`Literal("1", REAL)` is written `1` and comes back as an integer. -/
theorem C02_literal_precision_counterexample :
    norm (.lit (.real .none 1 true false .double)) = some (.lit (.real .none 1 true false .undef)) ∧
    norm (.lit (.real .none 1 false false .undef)) = some (.lit (.int .none 1 .undef)) := by decide

/-- A character value containing `''` or `""` is written but not read back (CodeBlock). -/
theorem C02_doubled_quote_counterexample :
    wf .expr (.lit (.char 1 .doubled .undef)) = true ∧ norm (.lit (.char 1 .doubled .undef)) = none ∧
    parse (render .narrow .top (.lit (.char 1 .doubled .undef))) = none := by decide

/-- Exactly which literals are canonical. -/
theorem C02_canonical_literals (l : Lit) : l.canonical = true ↔
    match l with
    | .int s _ p => s = .none ∧ p ≠ .single ∧ p ≠ .double
    | .real s _ dot ex p => s = .none ∧ (dot = true ∨ ex = true) ∧
        (match p with
         | .undef => ex = false | .single => ex = true | .double => ex = true | _ => True)
    | .bool _ p => p ≠ .single ∧ p ≠ .double
    | .char _ q p => q ≠ .doubled ∧ p ≠ .single ∧ p ≠ .double := by
  cases l with
  | int s d p => cases s <;> cases p <;> simp [Lit.canonical, normLit, readLit, Lit.tok, Lit.sign, Sign.unop, Prec.suffix]
  | real s d dot ex p =>
    cases s <;> cases p <;> cases dot <;> cases ex <;>
      simp [Lit.canonical, normLit, readLit, Lit.tok, Lit.sign, Sign.unop, Prec.suffix]
  | bool b p => cases p <;> simp [Lit.canonical, normLit, readLit, Lit.tok, Lit.sign, Sign.unop, Prec.suffix]
  | char t q p => cases q <;> cases p <;> simp [Lit.canonical, normLit, readLit, Lit.tok, Lit.sign, Sign.unop, Prec.suffix]


/-- The precedence table extracted from the live `precedence()` equals the model's, whose levels are
the grammar levels of Fortran 2008 used by `P` (R704 `**` 8, R708 mult-op 7, R709 add-op 6,
R713 rel-op 4, R718 not-op 3, R719 and-op 2, R720 or-op 1, R721 equiv-op 0). -/
theorem gen_table_matches_standard :
    Gen.precTable = optoks.map OpTok.prec ∧ Gen.unknownOperators = 0 := by decide

/-- The writer's operator strings, extracted live, are the model's `BinOp.tok`/`UnOp.tok`. -/
theorem gen_writer_ops_match :
    Gen.writerBin = binops.map (fun b => tokIdx b.tok) ∧
    Gen.writerUn = unops.map (fun u => tokIdx u.tok) := by decide

/-- The reader's operator maps, extracted live, send every operator string back to the operator
the parser model uses (`binAt` at the string's own level, `prefixAt`). -/
theorem gen_reader_ops_match :
    Gen.readerBin = optoks.map (fun o => match binAt o.prec o with
      | some b => binops.idxOf b | none => 99) ∧
    Gen.readerUn = optoks.map (fun o => match prefixAt o.prec o with
      | some u => unops.idxOf u | none => 99) := by decide

end C02
