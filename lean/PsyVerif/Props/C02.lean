import PsyVerif.Model.ExprIO
import PsyVerif.Gen.FortranOps
import PsyVerif.Lemmas.ExprIOMain
import PsyVerif.Lemmas.ExprIOFuel
import PsyVerif.Lemmas.ExprIOAdj
import PsyVerif.Lemmas.ExprIOCanon
import PsyVerif.Gen.IntrinsicArgs
/-! # C02 — Written expressions keep the operation order of the PSyIR tree

Model: `PsyVerif/Model/ExprIO.lean`.  `render .narrow` is the writer WITH
`fixes/C02-writer-parens-narrow.patch` applied (mode: **fixed, narrow**) — the target of the theorems
and of the correspondence check.  `render .pinned` is the unfixed writer and `render .wide` the wider,
not applied rule (`fixes/C02-writer-parens-wide.notapplied.patch`); both are kept for kernel-checked
witnesses, `wide` also as the proof vehicle (`render_narrow_eq_wide`).  What the narrow patch cannot
repair without editing existing tests — a `+`/`-` sign in front of `*` `/`, a signed literal after
`*` `/` — is the decidable class `exposed` (known finding C02-sign-under-mul), excluded by the side
condition `exposed .top e = false`.  `P`/`parse` is the Fortran 2008 expression grammar R701–R722; parentheses are
dropped as `_parenthesis_handler` does.

Quantification: ALL trees of the model's `Expr` type that the writer accepts (`wf .expr e`), of
unbounded depth: literals of every kind/precision form, unary and binary operations, scalar references,
array references with subscript lists, structure/member chains (with subscripts at any part), intrinsic
calls with positional and named arguments.

PROVED (kernel-checked, for all such trees with `exposed .top e = false`):
* `C02_roundtrip_partial`: the driver's `parse` (fuel `12*(tokens+1)`) of the written token list
  returns `norm e` — the original tree, except that a literal is replaced by what the reader makes
  of its text (a leading sign becomes a unary operation, the precision is re-derived from exponent
  letter and kind suffix); `C02_roundtrip_exact_partial`: with canonical literals it returns `e` itself;
  `C02_roundtrip_all_fuel_partial`: the same for every sufficiently large fuel; `C02_roundtrip_in_context`.
* `C02_no_bad_adjacent`: the written token list has no two adjacent operators where the standard
  forbids it; `C02_standard_partial` combines both.  For the wide rule both hold unconditionally
  (`C02_roundtrip_wide`, `C02_no_bad_adjacent_wide`).
* `C02_fuel_bound`: whenever `P` succeeds with some fuel, `parse` (fixed fuel) returns that result.
* the extracted operator/precedence tables equal the model's (`gen_*`), by `decide`.
* witnesses of every remaining defect class (`narrow_*`, `pinned_*`, literal findings) and the exact
  characterisations `C02_exposed_class`, `C02_canonical_literals`.

READER-SIDE CANONICALISATION OF INTRINSIC ARGUMENTS (`Model/ExprIOCanon.lean`): `read cfg = parse` followed by the
handler pass `canonTree cfg`, which applies `canonMMS` (= the ordering check of `_process_args` +
`_canonicalise_minmaxsum`) to every MINVAL/MAXVAL/SUM call and leaves every other call alone.  PROVED for every
configuration `cfg`: `C02_read_roundtrip_partial` (read ∘ write = canonTree ∘ norm), `C02_read_roundtrip_exact_partial`
(= identity when, additionally, every MINVAL/MAXVAL/SUM call has its first argument positional and all others named —
ANY names, ANY order, any number), `C02_read_named_args_any_order` (explicitly for every permutation of the named
arguments), `C02_canon_produces_canonical`/`C02_canon_idempotent` (what the reader returns for ≤ 3 arguments is in
canonical form and a fixed point), witnesses for the non-canonical classes (`C02_read_noncanonical_counterexample`).
`C02_literal_tokens_standard`: no written literal token combines the exponent letter `d` with a kind parameter (C412).
`gen_canon_table_matches` (`decide`): the model's `canonMMSCore` equals the LIVE `_canonicalise_minmaxsum` on every
ordered name pattern of length ≤ 3 over {none, array, dim, mask, kind} (table regenerated on every run);
`gen_canon_routes`: exactly the intrinsics of `Gen.mmsFns` are routed through that function, each has the optional
arguments {dim, mask} and one required argument in the live `IntrinsicCall` table.

EVALUATED ONLY (by the harness on every run, not proved): that `render .narrow` equals the real
`FortranWriter` output token by token, that `parse` agrees with the real `FortranReader` (fparser2)
on every written text, the lexing of names/numbers/strings into ids, and the property itself on the
real code (re-read tree `==` original).  Not modelled: array sections (`Range`), user-function
`Call`s, character values containing a newline. -/
namespace C02

def optoks : List OpTok :=
  [.plus, .minus, .star, .slash, .pow, .eq, .ne, .lt, .le, .gt, .ge, .not, .and, .or, .eqv, .neqv]
def binops : List BinOp :=
  [.add, .sub, .mul, .div, .rem, .pow, .eq, .ne, .gt, .lt, .ge, .le, .and, .or, .eqv, .neqv]
def unops : List UnOp := [.minus, .plus, .not]
def tokIdx (o : OpTok) : Nat := (optoks ++ [OpTok.bad]).idxOf o

/-- the parser, run with any sufficiently large fuel, consumes all of `ts` and returns `e` -/
def ParsesTo (ts : List Tok) (e : Expr) : Prop := ∃ f0, ∀ f, f0 ≤ f → P f (.expr 0) ts = some (e, [])

theorem norm_of_canonical : ∀ e, litsCanonical e = true → norm e = some e := by
  intro e
  induction e with
  | lit l => intro h; simpa [litsCanonical, Lit.canonical, norm] using h
  | un u x ih => intro h; simp [litsCanonical] at h; simp [norm, ih h]
  | bin b l r ihl ihr => intro h; simp [litsCanonical] at h; simp [norm, ihl h.1, ihr h.2]
  | part n a nx iha ihn => intro h; simp [litsCanonical] at h; simp [norm, iha h.1, ihn h.2]
  | call f a ih => intro h; simp [litsCanonical] at h; simp [norm, ih h]
  | nil => intro _; rfl
  | cons k x r ihx ihr => intro h; simp [litsCanonical] at h; simp [norm, ihx h.1, ihr h.2]

/-! sample trees: `a + ((-b)*c)*d`, `(a**b)**c`, `a + Literal("-1.0")`, `(-a)*b`, `(a<b)==c` -/
def va : Expr := .ref 1
def vb : Expr := .ref 2
def vc : Expr := .ref 3
def vd : Expr := .ref 4
def exUnary : Expr := .bin .add va (.bin .mul (.bin .mul (.un .minus vb) vc) vd)
def exPow : Expr := .bin .pow (.bin .pow va vb) vc
def exNegLit : Expr := .bin .add va (.lit (.real .minus 7 true false .undef))
def exLead : Expr := .bin .mul (.un .minus va) vb
def exRel : Expr := .bin .eq (.bin .lt va vb) vc

/-! ## The property -/

/-- Full statement (fixed writer, no side condition): whatever the writer accepts is written as a
sentence of the grammar and reads back as `norm e`; with canonical literals as `e`. -/
def C02_statement : Prop :=
  ∀ e ne, wf .expr e = true → norm e = some ne → parse (render .narrow .top e) = some ne

/-- The full statement is FALSE of the narrow-fixed writer: `(-a)*b` is written `-a * b`, which the
grammar reads as `-(a*b)`. -/
theorem C02_statement_counterexample : ¬ C02_statement := by
  intro h
  have := h exLead exLead (by decide) (by decide)
  revert this
  decide

/-- **Fuel bound.**  The fuel the driver gives `parse` is always sufficient: a result obtained with
any fuel is the result of `parse`. -/
theorem C02_fuel_bound {f ts e} (h : P f (.expr 0) ts = some (e, [])) : parse ts = some e :=
  parse_complete h

theorem parse_of_parsesTo {ts e} (h : ParsesTo ts e) : parse ts = some e := by
  obtain ⟨f0, hf⟩ := h
  exact parse_complete (hf f0 (Nat.le_refl _))

/-- Round trip for every sufficiently large fuel (all constructs, unbounded depth).  Proved by
induction over all sorts of the encoding (`good_sorted`) with the follow-set strengthening `Good`:
at every position the writer's parenthesisation tests leave a node bare only if its grammar level is
at least the level the position requires (`need_le_lvl`); `render_narrow_eq_wide` transfers the
result from the wide rule to the narrow writer outside the class `exposed`. -/
theorem C02_roundtrip_all_fuel_partial (e ne : Expr) (hw : wf .expr e = true)
    (hx : exposed .top e = false) (hn : norm e = some ne) : ParsesTo (render .narrow .top e) ne := by
  rw [render_narrow_eq_wide e .top hx]
  have g := good_render e hw ne hn .top trivial
  have := g.1 0 [] (Nat.zero_le _) trivial
  simp only [List.append_nil] at this
  exact this.all_fuel

/-- **Round trip** (narrow-fixed writer, all constructs, unbounded depth, the driver's `parse`). -/
theorem C02_roundtrip_partial (e ne : Expr) (hw : wf .expr e = true)
    (hx : exposed .top e = false) (hn : norm e = some ne) :
    parse (render .narrow .top e) = some ne :=
  parse_of_parsesTo (C02_roundtrip_all_fuel_partial e ne hw hx hn)

/-- With canonical literals the re-read tree is structurally the original tree. -/
theorem C02_roundtrip_exact_partial (e : Expr) (hw : wf .expr e = true)
    (hx : exposed .top e = false) (hc : litsCanonical e = true) :
    parse (render .narrow .top e) = some e :=
  C02_roundtrip_partial e e hw hx (norm_of_canonical e hc)

/-- **No two adjacent operators** where the standard does not allow it (never a sign after
`+ - * / **`, `.NOT.` only after a logical operator). -/
theorem C02_no_bad_adjacent (e : Expr) (hw : wf .expr e = true) (hx : exposed .top e = false) :
    noBadAdj (render .narrow .top e) = true := by
  rw [render_narrow_eq_wide e .top hx]
  exact noBadAdj_wide e hw .top trivial

/-- Standard conformance: the written text is a sentence of the Fortran 2008 expression grammar
modelled by `P` and has no forbidden operator adjacency. -/
theorem C02_standard_partial (e ne : Expr) (hw : wf .expr e = true)
    (hx : exposed .top e = false) (hn : norm e = some ne) :
    (∃ e', parse (render .narrow .top e) = some e') ∧ noBadAdj (render .narrow .top e) = true :=
  ⟨⟨ne, C02_roundtrip_partial e ne hw hx hn⟩, C02_no_bad_adjacent e hw hx⟩

/-- The same holds inside any operand position, e.g. under a further operator: grouping is kept. -/
theorem C02_roundtrip_in_context (e ne : Expr) (c : Ctx) (hc : c.ok)
    (hw : wf .expr e = true) (hx : exposed c e = false) (hn : norm e = some ne) (R : List Tok)
    (hR : Follow (need c) R) :
    ∃ f0, ∀ f, f0 ≤ f → P f (.expr (need c)) (render .narrow c e ++ R) = some (ne, R) := by
  rw [render_narrow_eq_wide e c hx]
  exact ((good_render e hw ne hn c hc).1 (need c) R
    (need_le_lvl c hc e (wf_not_rem hw)) hR).all_fuel

/-- The wide (not applied) rule needs no side condition: it is the full repair. -/
theorem C02_roundtrip_wide (e ne : Expr) (hw : wf .expr e = true)
    (hn : norm e = some ne) : parse (render .wide .top e) = some ne := by
  have g := good_render e hw ne hn .top trivial
  have := g.1 0 [] (Nat.zero_le _) trivial
  simp only [List.append_nil] at this
  exact parse_of_parsesTo this.all_fuel

theorem C02_no_bad_adjacent_wide (e : Expr) (hw : wf .expr e = true) :
    noBadAdj (render .wide .top e) = true :=
  noBadAdj_wide e hw .top trivial

/-- The excluded class is exactly "a `+`/`-` sign (unary operation or signed literal) directly
below `*` or `/`" at a position where the narrow patch keeps the pinned output. -/
theorem C02_exposed_class (lit : Bool) (u : UnOp) (c : Ctx)
    (h : parenSignM .narrow lit u c ≠ parenSignM .wide lit u c) :
    u ≠ .not ∧ ∃ b right eqR, c.par = .bin b right eqR ∧ (b = .mul ∨ b = .div) :=
  exposed_only_under_mul lit u c h

/-! non-vacuity and sanity evaluations (the concrete `parse` with its fixed fuel) -/
def exGp : Expr := .bin .add va (.bin .mul (.un .minus vb) vc)          -- a + (-b)*c
def exLitMul : Expr := .bin .mul va (.lit (.real .minus 7 true false .undef))   -- a * Literal("-1.0")
example : wf .expr exPow = true ∧ exposed .top exPow = false ∧
    litsCanonical exPow = true := by decide
example : wf .expr exGp = true ∧ exposed .top exGp = false ∧
    litsCanonical exGp = true := by decide
example : exposed .top exUnary = true ∧ exposed .top exLead = true ∧ exposed .top exLitMul = true := by decide
example : wf .expr exNegLit = true ∧ norm exNegLit ≠ none := by decide
/-- `arr(i + 1, -j) ** st%h(k)%c`, `MAX(a, -b, kind = c) * (-d)` -/
def exAccess : Expr :=
  .bin .pow (.part 10 (.cons none (.bin .add va (.lit (.int .none 1 .undef))) (.cons none (.un .minus vb) .nil)) .nil)
    (.part 11 .nil (.part 12 (.cons none vc .nil) (.part 13 .nil .nil)))
def exCall : Expr :=
  .bin .div (.call 20 (.cons none va (.cons none (.un .minus vb) (.cons (some 21) vc .nil)))) (.un .minus vd)
example : wf .expr exAccess = true ∧ exposed .top exAccess = false ∧ litsCanonical exAccess = true := by decide
example : wf .expr exCall = true ∧ exposed .top exCall = false ∧ litsCanonical exCall = true := by decide
example : parse (render .narrow .top exAccess) = some exAccess := by decide
example : parse (render .narrow .top exCall) = some exCall := by decide
example : parse (render .narrow .top exGp) = some exGp := by decide
example : parse (render .wide .top exUnary) = some exUnary := by decide
example : parse (render .wide .top exLead) = some exLead := by decide
example : parse (render .narrow .top exPow) = some exPow := by decide
example : parse (render .narrow .top exRel) = some exRel := by decide
example : parse (render .narrow .top exNegLit) = norm exNegLit := by decide
example : noBadAdj (render .narrow .top exGp) = true ∧ noBadAdj (render .narrow .top exNegLit) = true := by
  decide

/-! ### the narrow-fixed writer: kernel-checked witnesses of the remaining class (C02-sign-under-mul) -/

/-- `(-a)*b` is still written `-a * b`, read as `-(a*b)`: valid Fortran, same value, other tree. -/
theorem narrow_leading_sign_counterexample :
    parse (render .narrow .top exLead) = some (.un .minus (.bin .mul va vb)) ∧
    exposed .top exLead = true := by decide

/-- `a * Literal("-1.0")` is still written `a * -1.0` and `a + ((-b)*c)*d` still `a + -b * c * d`:
not sentences of the grammar. -/
theorem narrow_sign_after_operator_counterexample :
    parse (render .narrow .top exLitMul) = none ∧ noBadAdj (render .narrow .top exLitMul) = false ∧
    parse (render .narrow .top exUnary) = none ∧ exposed .top exLitMul = true ∧
    exposed .top exUnary = true := by decide

/-- The writer refuses `REM` (no Fortran operator) and character values holding both quote kinds. -/
theorem C02_refuses :
    wf .expr (.bin .rem va vb) = false ∧ wf .expr (.lit (.char 1 .both .undef)) = false := by decide

/-! ### the pinned (unfixed) writer: kernel-checked witnesses of the three defects -/

/-- `(a**b)**c` is written `a ** b ** c`, which is `a**(b**c)`. -/
theorem pinned_pow_left_nested_counterexample :
    parse (render .pinned .top exPow) = some (.bin .pow va (.bin .pow vb vc)) ∧
    parse (render .pinned .top exPow) ≠ some exPow := by decide

/-- `a + ((-b)*c)*d` is written `a + -b * c * d`: two adjacent operators, not a sentence. -/
theorem pinned_unary_counterexample :
    parse (render .pinned .top exUnary) = none ∧ noBadAdj (render .pinned .top exUnary) = false := by decide

/-- `a + Literal("-1.0")` is written `a + -1.0`. -/
theorem pinned_signed_literal_counterexample :
    parse (render .pinned .top exNegLit) = none ∧ noBadAdj (render .pinned .top exNegLit) = false := by decide

/-- `(-a)*b` is written `-a * b`, which is `-(a*b)`; `(a<b)==c` is written `a < b == c` (not a sentence). -/
theorem pinned_leading_sign_and_relational_counterexample :
    parse (render .pinned .top exLead) = some (.un .minus (.bin .mul va vb)) ∧
    parse (render .pinned .top exRel) = none := by decide

/-! ### literals the reader cannot give back unchanged (known findings, not repaired by the patch) -/

/-- A signed literal comes back as a unary operation on the unsigned literal. -/
theorem C02_signed_literal_counterexample :
    norm (.lit (.int .minus 1 .undef)) = some (.un .minus (.lit (.int .none 1 .undef))) := by decide

/-- `Literal("1.0", DOUBLE)` is written `1.0` and comes back with UNDEFINED precision;
`Literal("1", REAL)` is written `1` and comes back as an integer. -/
theorem C02_literal_precision_counterexample :
    norm (.lit (.real .none 1 true false .double)) = some (.lit (.real .none 1 true false .undef)) ∧
    norm (.lit (.real .none 1 false false .undef)) = some (.lit (.int .none 1 .undef)) := by decide

/-- A character value containing `''` or `""` is written but not read back (CodeBlock). -/
theorem C02_doubled_quote_counterexample :
    wf .expr (.lit (.char 1 .doubled .undef)) = true ∧ norm (.lit (.char 1 .doubled .undef)) = none ∧
    parse (render .narrow .top (.lit (.char 1 .doubled .undef))) = none := by decide

/-- Exactly which literals are canonical. -/
theorem C02_canonical_literals (l : Lit) : l.canonical = true ↔
    match l with
    | .int s _ p => s = .none ∧ p ≠ .single ∧ p ≠ .double
    | .real s _ dot ex p => s = .none ∧ (dot = true ∨ ex = true) ∧
        (match p with
         | .undef => ex = false | .single => ex = true | .double => ex = true | _ => True)
    | .bool _ p => p ≠ .single ∧ p ≠ .double
    | .char _ q p => q ≠ .doubled ∧ p ≠ .single ∧ p ≠ .double := by
  cases l with
  | int s d p => cases s <;> cases p <;> simp [Lit.canonical, normLit, readLit, Lit.tok, Lit.sign, Sign.unop, Prec.suffix]
  | real s d dot ex p =>
    cases s <;> cases p <;> cases dot <;> cases ex <;>
      simp [Lit.canonical, normLit, readLit, Lit.tok, Lit.sign, Sign.unop, Prec.suffix]
  | bool b p => cases p <;> simp [Lit.canonical, normLit, readLit, Lit.tok, Lit.sign, Sign.unop, Prec.suffix]
  | char t q p => cases q <;> cases p <;> simp [Lit.canonical, normLit, readLit, Lit.tok, Lit.sign, Sign.unop, Prec.suffix]


/-! ### reader-side canonicalisation of intrinsic arguments -/

/-- the configuration extracted from the live reader -/
def liveCfg : IntrCfg := ⟨Gen.mmsFns, Gen.kwArray, Gen.kwDim, Gen.kwMask⟩

/-- **Round trip through the full reader** (grammar + handler pass), narrow-fixed writer, all
constructs, unbounded depth: what comes back is `canonTree (norm e)`. -/
theorem C02_read_roundtrip_partial (cfg : IntrCfg) (e ne : Expr) (hw : wf .expr e = true)
    (hx : exposed .top e = false) (hn : norm e = some ne) :
    read cfg (render .narrow .top e) = canonTree cfg ne := by
  simp [read, C02_roundtrip_partial e ne hw hx hn]

/-- With canonical literals and every MINVAL/MAXVAL/SUM call in PSyIR canonical form (first argument
positional, all further arguments named — with any names, in ANY order) the tree read back is
structurally the original. -/
theorem C02_read_roundtrip_exact_partial (cfg : IntrCfg) (e : Expr) (hw : wf .expr e = true)
    (hx : exposed .top e = false) (hc : litsCanonical e = true) (hm : mmsCanonical cfg e = true) :
    read cfg (render .narrow .top e) = some e := by
  rw [C02_read_roundtrip_partial cfg e e hw hx (norm_of_canonical e hc)]
  exact canonTree_canonical_id cfg e hm

/-- The same, spelt out for permutations: if a call `f(x, named…)` is in the domain then so is the
call with its named arguments in any other order, and it reads back unchanged. -/
theorem C02_read_named_args_any_order (cfg : IntrCfg) (f : Nat) (x : Expr)
    (l l' : List (Option Nat × Expr)) (hp : l.Perm l') (hn : l.all (fun p => p.1.isSome) = true)
    (hw : wf .expr (.call f (.cons none x (ofArgs l))) = true)
    (hx : exposed .top (.call f (.cons none x (ofArgs l))) = false)
    (hc : litsCanonical (.call f (.cons none x (ofArgs l))) = true)
    (hm : mmsCanonical cfg (.call f (.cons none x (ofArgs l))) = true) :
    read cfg (render .narrow .top (.call f (.cons none x (ofArgs l')))) =
      some (.call f (.cons none x (ofArgs l'))) := by
  have hn' : allNamed (ofArgs l') = true := by rw [allNamed_ofArgs, ← hp.all_eq]; exact hn
  apply C02_read_roundtrip_exact_partial
  · simp only [wf, wf_ofArgs, argsOrdered, Bool.and_eq_true] at hw ⊢
    refine ⟨⟨trivial, hw.1.2.1, ?_⟩, by simp, ?_⟩
    · rw [← hp.all_eq]; exact hw.1.2.2
    · simpa using argsOrdered_of_allNamed _ false hn'
  · simp only [exposed, exposed_ofArgs, Bool.or_eq_false_iff] at hx ⊢
    exact ⟨hx.1, by rw [← hp.any_eq]; exact hx.2⟩
  · simp only [litsCanonical, litsCanonical_ofArgs, Bool.and_eq_true] at hc ⊢
    exact ⟨hc.1, by rw [← hp.all_eq]; exact hc.2⟩
  · simp only [mmsCanonical, mmsCanonical_ofArgs, mmsArgsCanonical, Bool.and_eq_true] at hm ⊢
    refine ⟨?_, hm.2.1, by rw [← hp.all_eq]; exact hm.2.2⟩
    simp [hn']

/-- What the reader returns for a MINVAL/MAXVAL/SUM call with at most three arguments is in PSyIR
canonical form … -/
theorem C02_canon_produces_canonical (cfg : IntrCfg) {a a' : Expr} (hl : argsLen a ≤ 3)
    (h : canonMMS cfg a = .ok a') : mmsArgsCanonical a' = true :=
  canonMMS_ok_canonical cfg hl h

/-- … and a fixed point: a second write/read cycle changes nothing. -/
theorem C02_canon_idempotent (cfg : IntrCfg) {a a' : Expr} (hl : argsLen a ≤ 3)
    (h : canonMMS cfg a = .ok a') : canonMMS cfg a' = .ok a' :=
  canonMMS_idempotent cfg hl h

/-- Full statement for the complete reader without the call side condition. -/
def C02_read_statement : Prop :=
  ∀ cfg e, wf .expr e = true → exposed .top e = false → litsCanonical e = true →
    read cfg (render .narrow .top e) = some e

/-! sample calls (ids of the live configuration): `SUM(a, mask=b, dim=c)`, `SUM(a, b, c)`,
`SUM(a, b)`, `SUM(dim=b, array=a)`, `SUM(a, b, kind=c)` -/
def fSum : Nat := Gen.mmsFns.headD 0
def exSumNamed : Expr := .call fSum (.cons none va (.cons (some Gen.kwMask) vb (.cons (some Gen.kwDim) vc .nil)))
def exSumPos : Expr := .call fSum (.cons none va (.cons none vb (.cons none vc .nil)))
def exSumTwo : Expr := .call fSum (.cons none va (.cons none vb .nil))
def exSumArrayKw : Expr := .call fSum (.cons (some Gen.kwDim) vb (.cons (some Gen.kwArray) va .nil))
def exSumOneNamed : Expr := .call fSum (.cons none va (.cons none vb (.cons (some Gen.kwOther) vc .nil)))

/-- It is FALSE: a MINVAL/MAXVAL/SUM call with positional optional arguments comes back with the
names added (`SUM(a, b, c)` → `SUM(a, dim=b, mask=c)`), with a named `array` it comes back positional,
with two positional arguments it is not read at all (NotImplementedError → CodeBlock), and with three
arguments of which only the last is named that name is OVERWRITTEN by `mask`. -/
theorem C02_read_noncanonical_counterexample : ¬ C02_read_statement := by
  intro h
  have := h liveCfg exSumPos (by decide) (by decide) (by decide)
  revert this
  decide

theorem C02_read_noncanonical_witnesses :
    read liveCfg (render .narrow .top exSumPos) =
      some (.call fSum (.cons none va (.cons (some Gen.kwDim) vb (.cons (some Gen.kwMask) vc .nil)))) ∧
    read liveCfg (render .narrow .top exSumTwo) = none ∧
    read liveCfg (render .narrow .top exSumArrayKw) =
      some (.call fSum (.cons none va (.cons (some Gen.kwDim) vb .nil))) ∧
    read liveCfg (render .narrow .top exSumOneNamed) =
      some (.call fSum (.cons none va (.cons (some Gen.kwDim) vb (.cons (some Gen.kwMask) vc .nil)))) := by
  decide

/-! non-vacuity: `SUM(a, mask=b, dim=c)` is in the domain of the exact theorem and reads back as itself -/
example : fSum ∈ liveCfg.mms ∧ wf .expr exSumNamed = true ∧ exposed .top exSumNamed = false ∧
    litsCanonical exSumNamed = true ∧ mmsCanonical liveCfg exSumNamed = true := by decide
example : read liveCfg (render .narrow .top exSumNamed) = some exSumNamed := by decide
example : mmsCanonical liveCfg exSumPos = false ∧ mmsCanonical liveCfg exSumArrayKw = false := by decide
example : canonMMS liveCfg (.cons none va (.cons none vb (.cons none vc .nil))) =
    .ok (.cons none va (.cons (some Gen.kwDim) vb (.cons (some Gen.kwMask) vc .nil))) := by decide
example : canonMMS liveCfg (.cons (some 1) va (.cons none vb .nil)) = .err .generation := by decide

/-! ### literal lexemes -/

/-- **Literal tokens are standard lexemes** (Fortran 2008 C412: no kind parameter together with the
exponent letter `d`), for every writer mode, every tree, every position — unconditionally. -/
theorem C02_literal_tokens_standard (m : WMode) (e : Expr) (c : Ctx) :
    litToksStd (render m c e) = true :=
  litToksStd_render m e c

/-! non-vacuity: `1.5d3_8` is not a standard lexeme; `Literal("1.5e3", DOUBLE)` is written `1.5d3` -/
example : litToksStd [.lit (.num 1 true .d (.int 8))] = false := by decide
example : render .narrow .top (.lit (.real .none 1 true true .double)) = [.lit (.num 1 true .d .none)] ∧
    render .narrow .top (.lit (.real .none 1 true true (.kindInt 8))) = [.lit (.num 1 true .e (.int 8))] := by
  decide

/-! #### tie to the live code: generated tables -/

def mkArgs : Nat → List (Option Nat) → Expr
  | _, [] => .nil
  | i, kw :: r => .cons kw (.ref i) (mkArgs (i + 1) r)

def mkOut : List (Nat × Option Nat) → Expr
  | [] => .nil
  | (p, kw) :: r => .cons kw (.ref p) (mkOut r)

/-- the table's result encoding; code 9 ("anything else") maps to a result `canonMMSCore` never gives -/
def resOf (code : Nat) (out : List (Nat × Option Nat)) : CanonRes :=
  match code with
  | 0 => .ok (mkOut out)
  | 2 => .err .internal
  | 3 => .err .notImplemented
  | 4 => .err .index
  | _ => .err .generation

/-- The model of `_canonicalise_minmaxsum` equals the LIVE function on every ordered argument-name
pattern of length ≤ 3 over {none, array, dim, mask, kind} (the table is regenerated from the live
code on every run). -/
theorem gen_canon_table_matches :
    Gen.canonTable.all (fun r => canonMMSCore liveCfg (mkArgs 0 r.1) == resOf r.2.1 r.2.2) = true ∧
    Gen.canonTable.length = 112 := by decide

/-- Exactly the intrinsics `Gen.mmsFns` are routed through `_canonicalise_minmaxsum` (no other
canonicalise function exists); in the live `IntrinsicCall` table each of them has one required
argument and exactly the optional arguments `dim` and `mask` — so a valid call has ≤ 3 arguments. -/
theorem gen_canon_routes :
    Gen.unknownCanonicalisers = 0 ∧ Gen.mmsFns.length = Gen.mmsOptional.length ∧
    Gen.mmsFns.length = Gen.mmsRequired.length ∧
    Gen.mmsOptional.all (fun o => o.length == 2 && o.contains Gen.kwDim && o.contains Gen.kwMask) = true ∧
    Gen.mmsRequired.all (fun r => r == (1, 1)) = true ∧
    [Gen.kwArray, Gen.kwDim, Gen.kwMask].Nodup := by decide

/-- The precedence table extracted from the live `precedence()` equals the model's, whose levels are
the grammar levels of Fortran 2008 used by `P` (R704 `**` 8, R708 mult-op 7, R709 add-op 6,
R713 rel-op 4, R718 not-op 3, R719 and-op 2, R720 or-op 1, R721 equiv-op 0). -/
theorem gen_table_matches_standard :
    Gen.precTable = optoks.map OpTok.prec ∧ Gen.unknownOperators = 0 := by decide

/-- The writer's operator strings, extracted live, are the model's `BinOp.tok`/`UnOp.tok`. -/
theorem gen_writer_ops_match :
    Gen.writerBin = binops.map (fun b => tokIdx b.tok) ∧
    Gen.writerUn = unops.map (fun u => tokIdx u.tok) := by decide

/-- The reader's operator maps, extracted live, send every operator string back to the operator
the parser model uses (`binAt` at the string's own level, `prefixAt`). -/
theorem gen_reader_ops_match :
    Gen.readerBin = optoks.map (fun o => match binAt o.prec o with
      | some b => binops.idxOf b | none => 99) ∧
    Gen.readerUn = optoks.map (fun o => match prefixAt o.prec o with
      | some u => unops.idxOf u | none => 99) := by decide

end C02
