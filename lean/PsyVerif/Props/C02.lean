import PsyVerif.Model.ExprIO
import PsyVerif.Gen.FortranOps
/-! # C02 — Written expressions keep the operation order of the PSyIR tree -/
namespace C02

def optoks : List OpTok :=
  [.plus, .minus, .star, .slash, .pow, .eq, .ne, .lt, .le, .gt, .ge, .not, .and, .or, .eqv, .neqv]
def binops : List BinOp :=
  [.add, .sub, .mul, .div, .rem, .pow, .eq, .ne, .gt, .lt, .ge, .le, .and, .or, .eqv, .neqv]
def unops : List UnOp := [.minus, .plus, .not]
def tokIdx (o : OpTok) : Nat := (optoks ++ [OpTok.bad]).idxOf o

/-! ## The property -/

/-- The precedence table extracted from the live `precedence()` equals the model's, whose levels are
the grammar levels of Fortran 2008 used by `P` (R704 `**` 8, R708 mult-op 7, R709 add-op 6,
R713 rel-op 4, R718 not-op 3, R719 and-op 2, R720 or-op 1, R721 equiv-op 0). -/
theorem gen_table_matches_standard :
    Gen.precTable = optoks.map OpTok.prec ∧ Gen.unknownOperators = 0 := by decide

/-- The writer's operator strings, extracted live, are the model's `BinOp.tok`/`UnOp.tok`. -/
theorem gen_writer_ops_match :
    Gen.writerBin = binops.map (fun b => tokIdx b.tok) ∧
    Gen.writerUn = unops.map (fun u => tokIdx u.tok) := by decide

/-- The reader's operator maps, extracted live, send every operator string back to the operator
the parser model uses (`binAt` at the string's own level, `prefixAt`). -/
theorem gen_reader_ops_match :
    Gen.readerBin = optoks.map (fun o => match binAt o.prec o with
      | some b => binops.idxOf b | none => 99) ∧
    Gen.readerUn = optoks.map (fun o => match prefixAt o.prec o with
      | some u => unops.idxOf u | none => 99) := by decide

end C02
