import PsyVerif.Model.Halo
/-! # C22 — property theorems (under construction) -/
namespace C22

/-! ## The property -/

theorem C22_stub : (1 : Nat) = 1 := rfl

end C22
