import PsyVerif.Lemmas.HaloPlace
import PsyVerif.Lemmas.HaloKnown
import PsyVerif.Lemmas.HaloEdit2
import PsyVerif.Lemmas.HaloColour
import PsyVerif.Lemmas.HaloAsync
/-! # C22 — distributed-memory LFRic code never reads a dirty halo

Model: `PsyVerif/Model/Halo.lean`.  The static side mirrors PSyclone (with the fix
`fixes/C22-required-max-depth-m1.patch`, committed in /repo, applied to `required`), the dynamic
side (`specNeed`, `specAfter`, `stepF`, `runF`) is the independent specification.
Lemma files: `Lemmas/Halo.lean` (marks, aggregation of depths), `HaloStep.lean` (placement
decisions, exchanges), `HaloRun.lean` (running lowered schedules), `HaloSem.lean`,
`HaloSafe.lean` (valid placement `ValidFrom`, invariant `Inv`, the global induction `valid_run`),
`HaloPlace.lean` (the initial placement is valid), `HaloKnown.lean` (`known`),
`HaloEdit.lean`/`HaloEdit2.lean` (redundant computation), `HaloColour.lean`, `HaloAsync.lean`.

PROVED here (all inputs; no bound on the number of kernels, H, extents, initial states):
* `C22_safe_partial` / `C22_safe_placed` — global safety of the generated schedule of every invoke
  (default bounds) / of `create_halo_exchanges` for arbitrary loop bounds: no dirty read,
  recorded ≤ actual wherever observed, no exchange left in flight;
* `C22_valid_safe` + `C22_place_valid` + `C22_rc_preserves_valid` (`C22_rc_preserves_safe`) +
  `C22_colour_preserves_safe`: valid placement is an invariant of the initial placement, of
  redundant computation (`rcEdit` = new bound + `update_halo_exchanges`) and of colouring, and
  implies safety — so any sequence of redundant-computation and colouring steps is safe;
* `C22_async_preserves_run` / `C22_async_preserves_safe`: splitting an exchange into
  start/finish leaves the run unchanged;
* the step lemmas `C22_required_sound`, `C22_required_known_sound`, `C22_hex_establishes`,
  `C22_hex_covers_readers`, `C22_depth_merge_sound`, `C22_no_halo_access_sound`,
  `C22_marks_conservative`;
* the two known defect classes are real on the model (`C22_safe_counterexample*`), hence the full
  statement `C22_safe_statement` is false and the theorems carry the side conditions
  `LoopOK` / `KernOK` / `SemOK` (= `POK`), which exclude exactly those classes and ill-formed inputs.

COVERED ONLY by correspondence with the real code + exhaustive abstract execution of the real
generated code under `stepF` (harness, H ≤ 5, extents ≤ 2): `moveEdit` (validity is decided by
the real dependence analysis), asynchronous exchanges whose start and finish have been moved
apart, redundant computation AFTER an asynchronous split (PSyclone refuses it), OpenMP regions
delaying the marks, vector fields, inter-grid kernels; and that the Lean model agrees with
PSyclone (correspondence on every generated case). -/
namespace C22

/-! ## The property -/

/-- **Marks are conservative.**  After a loop that writes field `a.field`, the state recorded by
the generated `set_dirty`/`set_clean` calls is no cleaner than what the loop computed, and the
actual state stays well formed (a clean level-1 halo includes clean annexed dofs). -/
theorem C22_marks_conservative (H : Nat) (env : Nat → Nat) (cont : Bool) (k : Kern) (b : Bound)
    (a : Arg) (s s1 s2 : RState) (hH : 1 ≤ H) (hb : b.lvl.wf)
    (hd : a.disc = true → cont = false) (hacc : a.accOK)
    (ha : argOf k a.field = some a) (hw : a.access.writes = true)
    (hwf : s.recorded ≤ s.act.cd)
    (h1 : stepF H env cont a.field s (.loop k b) = .ok s1)
    (h2 : stepsF H env cont a.field (marksOf k b a) s1 = .ok s2) :
    s2.recorded ≤ s2.act.cd ∧ (s2.act.cd = 0 ∨ s2.act.ann = true) := by
  obtain ⟨_, rfl⟩ := stepF_loop_writer H env cont k b a s s1 ha hw h1
  rw [stepsF_marksOf] at h2
  cases h2
  exact recAfter_le_specAfter H cont k b a s.recorded s.act hH hb hd hacc hw hwf

/-- non-vacuity: a `GH_INC` loop to halo depth 2 on a continuous field, started with everything
dirty except annexed dofs and halo depth 1, records clean depth 1 and has clean depth 1. -/
example :
    let a : Arg := ⟨0, .inc, false, none⟩
    let k : Kern := ⟨false, [a]⟩
    let b : Bound := ⟨.halo 2, false⟩
    let s : RState := ⟨1, ⟨true, 1⟩, none⟩
    ∃ s1 s2, stepF 3 (fun _ => 1) true 0 s (.loop k b) = .ok s1 ∧
      stepsF 3 (fun _ => 1) true 0 (marksOf k b a) s1 = .ok s2 ∧ s2.recorded = 1 ∧ s2.act.cd = 1 := by
  refine ⟨_, _, rfl, rfl, ?_, ?_⟩ <;> decide

/-- **Fields without a halo exchange are safe.**  When `_halo_read_access` says that an argument
does not read its halo (so `create_halo_exchanges` never considers it), what the kernel needs
according to the specification holds in every well-formed state — except for the defect class
`writeOnlyPattern` (known finding). -/
theorem C22_no_halo_access_sound (cfg : Cfg) (H : Nat) (env : Nat → Nat) (cont : Bool) (k : Kern)
    (b : Bound) (a : Arg) (s : FState)
    (hra : haloReadAccess cfg k b a = false)
    (hpat : writeOnlyPattern cfg k b a = false)
    (hb : b.ok cfg k) (hd : a.disc = true → cont = false)
    (hann : cfg.annexed = true → cont = true → s.ann = true) :
    sat s (specNeed H env cont k b a) = true :=
  noHaloAccess_sound cfg H env cont k b a s hra hpat hb hd hann

/-- the finding is real on the model: with annexed dofs dirty, the kernel of the witness reads them -/
theorem C22_safe_counterexample_write_only :
    runF 1 (fun _ => 1) true 0
      (lower ⟨false⟩ (placeInvoke ⟨false⟩
        [⟨true, [⟨0, .write, false, none⟩]⟩,
         ⟨false, [⟨3, .write, true, none⟩, ⟨0, .read, false, none⟩]⟩]))
      ⟨0, ⟨false, 0⟩, none⟩ = .error .dirtyRead := by
  rfl

/-- **`required()` is sound**: when it answers "not required" after a writer `w`, then either
only annexed dofs are needed and they are clean (always, with COMPUTE_ANNEXED_DOFS, or because `w`
went one level into the halo), or `w` cleaned the whole halo, or — for every halo depth and all
extents — what `w` leaves clean covers the aggregated requirement `req`. -/
theorem C22_required_sound (cfg : Cfg) (req : List HaloDepth) (w : WriteInfo) (kn : Bool)
    (h : required cfg req (some w) = (false, kn)) :
    (∃ r0, req = [r0] ∧ r0.annexedOnly = true ∧
        (cfg.annexed = true ∨ (w.lit = 1 ∧ w.dirtyOuter = true ∧ w.maxDepth = false))) ∨
    (w.maxDepth = true ∧ w.dirtyOuter = false) ∨
    (∀ H env, evalDepths H env req ≤ cleanAfter H w) :=
  required_sound cfg req w kn h

/-- non-vacuity of `required_sound`: a writer to depth 2 of a discontinuous field, a reader of
literal depth 2: no exchange, and indeed 2 ≤ 2. -/
example : required ⟨false⟩ [⟨2, none, false, false, false⟩] (some ⟨2, false, false⟩) = (false, true) ∧
    evalDepths 3 (fun _ => 1) [⟨2, none, false, false, false⟩] ≤ cleanAfter 3 ⟨2, false, false⟩ := by
  decide

/-- with the fix, a `max_depth-1` requirement after a writer to literal depth 1 keeps its
(run-time checked) exchange; the pinned code returned `(false, true)` here. -/
example : required ⟨true⟩ [⟨0, none, false, true, false⟩] (some ⟨1, false, false⟩) = (true, false) := by
  decide

/-- **`known = True` is sound.**  When `required()` answers `(True, True)` for the exchange of
`f` in front of `rest` after the writer `(k, b, a)` — so the generated `halo_exchange` is NOT
guarded by `is_dirty` — then for every halo depth `H ≥ 2`, all extents and whatever was recorded
before, the depth recorded by the writer's `set_dirty`/`set_clean` marks is below the depth of the
exchange: the guard would have been true, so dropping it does not change the behaviour. -/
theorem C22_required_known_sound (cfg : Cfg) (f : Nat) (rest : Sched) (k : Kern) (b : Bound)
    (a : Arg) (h : required cfg (hexDepth f rest) (some (writeInfo k b a)) = (true, true))
    (hne : hexDepth f rest ≠ []) (H : Nat) (env : Nat → Nat) (r : Nat) (hH : 2 ≤ H)
    (henv : ExtOK env) :
    recAfter H (writeInfo k b a) r < evalDepths H env (hexDepth f rest) :=
  required_known_sound cfg _ _ h (writeInfo_norm k b a) (depthList_norm _) hne H env r hH henv

/-- non-vacuity: `setval_c(f)` over owned dofs followed by a stencil reader of extent 2 -/
example :
    let k1 : Kern := ⟨false, [⟨0, .write, true, none⟩, ⟨1, .read, true, some (.lit 2)⟩]⟩
    required ⟨false⟩ (hexDepth 1 [.loop k1 ⟨.owned, false⟩])
      (some (writeInfo ⟨true, [⟨1, .write, false, none⟩]⟩ ⟨.owned, false⟩ ⟨1, .write, false, none⟩))
      = (true, true) ∧ hexDepth 1 [.loop k1 ⟨.owned, false⟩] ≠ [] := by
  decide

/-- **A halo exchange establishes its depth** whether or not it is guarded by `is_dirty`
(`known` only matters for efficiency): afterwards the halo is clean to the computed depth, the
recorded state is still conservative and the state well formed. -/
theorem C22_hex_establishes (H : Nat) (env : Nat → Nat) (cont : Bool) (f : Nat)
    (ds : List HaloDepth) (chk : Bool) (s s' : RState)
    (hwf : s.recorded ≤ s.act.cd) (hann : s.act.cd = 0 ∨ s.act.ann = true)
    (h : stepF H env cont f s (.hex .sync f ds chk) = .ok s') :
    evalDepths H env ds ≤ s'.act.cd ∧ s'.recorded ≤ s'.act.cd ∧
    (s'.act.cd = 0 ∨ s'.act.ann = true) :=
  hex_establishes H env cont f ds chk s s' hwf hann h

/-- **Aggregating read requirements is sound, step by step** (`_create_depth_list`): merging the
requirement `l + var` of one more reader into the list never lowers the depth of the exchange,
and the resulting depth covers that reader — for every halo depth and all extents. -/
theorem C22_depth_merge_sound (H : Nat) (env : Nat → Nat) (acc : List HaloDepth) (v : Option Nat)
    (l : Nat) (hacc : AccNorm acc) :
    evalDepths H env acc ≤ evalDepths H env (mergeDepth acc v l) ∧
    l + envv env v ≤ evalDepths H env (mergeDepth acc v l) ∧
    AccNorm (mergeDepth acc v l) :=
  ⟨mergeDepth_mono H env v l acc, mergeDepth_new H env v l acc hacc, mergeDepth_norm v l acc hacc⟩

/-- non-vacuity: `max(3, ext+1)` from readers needing 3, `ext+1` and 2 -/
example : mergeDepth (mergeDepth (mergeDepth [] none 3) (some 7) 1) none 2 =
    [⟨3, none, false, false, false⟩, ⟨1, some 7, false, false, false⟩] := by decide

/-- **The depth of a halo exchange covers every reader it serves** (`HaloReadAccess` +
`_create_depth_list`, any number of readers): for the exchange of field `f` placed in front of
`rest`, every argument `r` that reads `f` before its next writer needs, according to the
specification, at most the depth the exchange is given — for every halo depth `H` and all
extents (provided the requirement of `r` alone fits into the halo, `ReaderOK`). -/
theorem C22_hex_covers_readers (H : Nat) (env : Nat → Nat) (cont : Bool) (f : Nat) (rest : Sched)
    (r : Kern × Bound × Arg) (hr : r ∈ fwdReaders f rest) (hok : ReaderOK r.2.1 r.2.2)
    (hdeep : infoNeed H env (readInfo r.1 r.2.1 r.2.2) ≤ H) :
    (specNeed H env cont r.1 r.2.1 r.2.2).depth ≤ evalDepths H env (hexDepth f rest) :=
  hex_covers_readers H env cont f rest r hr hok hdeep

/-- non-vacuity: the exchange of field 2 in the probe invoke serves two stencil readers
(`max(3, ext+1)`) -/
example :
    let k1 : Kern := ⟨false, [⟨0, .inc, false, none⟩, ⟨2, .read, true, some (.lit 2)⟩]⟩
    let k2 : Kern := ⟨false, [⟨1, .inc, false, none⟩, ⟨2, .read, true, some (.var 7)⟩]⟩
    (fwdReaders 2 [.loop k1 ⟨.halo 1, false⟩, .loop k2 ⟨.halo 1, false⟩]).length = 2 ∧
    hexDepth 2 [.loop k1 ⟨.halo 1, false⟩, .loop k2 ⟨.halo 1, false⟩] =
      [⟨3, none, false, false, false⟩, ⟨1, some 7, false, false, false⟩] := by
  decide

/-- known finding `C22-inc-to-max-depth-h1` on the model: redundant computation to the maximum
depth for a `GH_INC` kernel, mesh halo depth 1, annexed dofs dirty on entry. -/
theorem C22_safe_counterexample_inc_max_h1 :
    runF 1 (fun _ => 1) true 1
      (lower ⟨false⟩ ((rcEdit ⟨false⟩ (placeInvoke ⟨false⟩
        [⟨false, [⟨1, .inc, false, none⟩, ⟨3, .read, true, none⟩]⟩]) 2 none).getD []))
      ⟨0, ⟨false, 0⟩, none⟩ = .error .dirtyRead := by
  rfl

/-- **C22_safe for placed schedules (any loop bounds).**  Let `loops` be any list of kernel loops
(any number; bounds arbitrary: owned / annexed / halo depth `d` / maximum depth, coloured or not)
and let the exchanges be placed by `create_halo_exchanges` (`placeExchanges`).  Then for every
field `f`, halo depth `H ≥ 1`, extents `≥ 1`, actual continuity and well-formed initial state,
executing the generated code (`lower`) under the dynamic specification never reads a dirty halo or
dirty annexed dofs of `f`, keeps "recorded ≤ actual" wherever the recorded state is observed, and
ends without an exchange in flight.

Side conditions (`LoopOK`, `SemOK`) — what is EXCLUDED:
* the two known defect classes: `writeOnlyPattern` (unless COMPUTE_ANNEXED_DOFS) and
  `incMaxPattern` when `H = 1`;
* kernels that name a field twice; metadata violating the LFRic rules (`GH_INC`/`GH_READINC` on a
  discontinuous space, stencil on a modified argument, literal extent 0); a stencil in a loop to
  the maximum depth (PSyclone refuses it); bounds that `LFRicLoop.load` + redundant computation
  cannot produce (`nannexed` without COMPUTE_ANNEXED_DOFS, an incrementing cell kernel on a
  continuous space not going into the halo, `ncolour` for a kernel that is not write-only);
* configurations whose computed exchange depth for some access exceeds the halo depth `H`;
* (model scope) vector fields, inter-grid kernels, operators, several kernels per loop. -/
theorem C22_safe_placed (cfg : Cfg) (H : Nat) (env : Nat → Nat) (cont : Bool) (f : Nat)
    (loops : List (Kern × Bound)) (init : RState) (hH : 1 ≤ H) (henv : ExtOK env)
    (hok : ∀ k b, (k, b) ∈ loops → LoopOK cfg k b ∧ SemOK H env cont f k b)
    (hwf : wfState cfg cont init = true) (hi : init.inflight = none) :
    SafeF H env cont f (lower cfg (placeExchanges cfg loops)) init :=
  placed_safe cfg H env cont f loops init hH henv hok hwf hi

/-- **C22_safe for the core fragment** (`_partial`: see the exclusions of `C22_safe_placed`):
every invoke — any number of kernels / built-ins with read, write, inc, readwrite, readinc
arguments on continuous or discontinuous spaces, literal or variable stencil extents, the default
loop bounds of `LFRicLoop.load`, COMPUTE_ANNEXED_DOFS on or off — is safe for every field, every
initial halo state, every `H` and all extents.  Proof: induction over the schedule
(`valid_run`) with the invariant `Inv`, using `required_sound`, `hex_establishes`,
`hex_covers_readers`, `noHaloAccess_sound` and `recAfter_le_specAfter` as step lemmas, and
validity of the placement (`placeTail_valid`). -/
theorem C22_safe_partial (cfg : Cfg) (H : Nat) (env : Nat → Nat) (cont : Bool) (f : Nat)
    (ks : List Kern) (init : RState) (hH : 1 ≤ H) (henv : ExtOK env)
    (hok : ∀ k ∈ ks, KernOK cfg k ∧ SemOK H env cont f k (defaultBound cfg k))
    (hwf : wfState cfg cont init = true) (hi : init.inflight = none) :
    SafeF H env cont f (lower cfg (placeInvoke cfg ks)) init :=
  invoke_safe cfg H env cont f ks init hH henv hok hwf hi

/-- non-vacuity: `setval_c(f1); kern(f0: gh_inc, f1: gh_read stencil extent 1, f2: gh_read w3
stencil extent variable)` satisfies the hypotheses for field 1 (continuous, everything dirty on
entry, `H = 3`), so the theorem applies. -/
example :
    SafeF 3 (fun _ => 1) true 1
      (lower ⟨false⟩ (placeInvoke ⟨false⟩
        [⟨true, [⟨1, .write, false, none⟩]⟩,
         ⟨false, [⟨0, .inc, false, none⟩, ⟨1, .read, false, some (.lit 1)⟩,
                  ⟨2, .read, true, some (.var 7)⟩]⟩]))
      ⟨0, ⟨false, 0⟩, none⟩ := by
  apply C22_safe_partial ⟨false⟩ 3 (fun _ => 1) true 1 _ _ (by decide) (fun _ => Nat.le_refl 1)
    _ (by decide) rfl
  intro k hk
  simp only [List.mem_cons, List.not_mem_nil, or_false] at hk
  rcases hk with rfl | rfl
  · refine ⟨⟨by decide, ?_⟩, ?_⟩
    · intro a ha
      simp only [List.mem_cons, List.not_mem_nil, or_false] at ha
      subst ha
      exact ⟨⟨by simp [Arg.accOK], by simp, by simp [Arg.extOK]⟩, by decide⟩
    · intro a ha
      simp [argOf] at ha
      subst ha
      exact ⟨by simp, by decide, by decide, by decide⟩
  · refine ⟨⟨by decide, ?_⟩, ?_⟩
    · intro a ha
      simp only [List.mem_cons, List.not_mem_nil, or_false] at ha
      rcases ha with rfl | rfl | rfl <;>
        exact ⟨⟨by simp [Arg.accOK], by simp, by simp [Arg.extOK]⟩, by decide⟩
    · intro a ha
      simp [argOf] at ha
      subst ha
      exact ⟨by simp, by decide, by decide, by decide⟩

/-- **Valid placement** (`ValidFrom … [] s`, for field `f`): every exchange of `f` is synchronous
and first serves a reader PSyclone considers for an exchange; every reader of `f` that PSyclone
considers for an exchange has an exchange of `f` as its previous write dependence, or its
previous writer leaves enough (`Suff`) for an aggregated reader list containing it.
The initial placement is valid, redundant computation keeps it valid, and valid schedules are
safe — so any number of redundant-computation steps after the initial placement is safe. -/
theorem C22_place_valid (cfg : Cfg) (H : Nat) (env : Nat → Nat) (cont : Bool) (f : Nat)
    (loops : List (Kern × Bound))
    (hok : ∀ k b, (k, b) ∈ loops → POK cfg H env cont f k b) :
    ValidFrom cfg H env cont f [] (placeExchanges cfg loops) ∧
    (∀ k b, Item.loop k b ∈ placeExchanges cfg loops → POK cfg H env cont f k b) :=
  placeExchanges_valid cfg H env cont f loops hok

/-- **Redundant computation preserves valid placement.**  `rcEdit` = set the loop bound of the
`i`-th item to halo depth `d` / maximum depth (`Dynamo0p3RedundantComputationTrans.apply`, with
its `validate`), then `update_halo_exchanges`: `create_halo_exchanges` for the loop (new
exchanges in front of it, a replaced following exchange dropped) and removal of following
exchanges of the fields it writes that are no longer required.  Side conditions: all loops
satisfy `POK` (before), and the edited loop satisfies it with its new bound. -/
theorem C22_rc_preserves_valid (cfg : Cfg) (H : Nat) (env : Nat → Nat) (cont : Bool) (f : Nat)
    (s s' : Sched) (i : Nat) (depth : Option Nat)
    (hrc : rcEdit cfg s i depth = some s')
    (hall : ∀ k b, Item.loop k b ∈ s → POK cfg H env cont f k b)
    (hnew : ∀ k b R, s.drop i = .loop k b :: R → POK cfg H env cont f k (rcBound b depth))
    (hv : ValidFrom cfg H env cont f [] s) :
    ValidFrom cfg H env cont f [] s' ∧
    (∀ k b, Item.loop k b ∈ s' → POK cfg H env cont f k b) :=
  rcEdit_valid cfg H env cont f s s' i depth hrc hall hnew hv

/-- **Valid schedules are safe** (the global induction `valid_run`). -/
theorem C22_valid_safe (cfg : Cfg) (H : Nat) (env : Nat → Nat) (cont : Bool) (f : Nat)
    (s : Sched) (init : RState) (hH : 1 ≤ H) (henv : ExtOK env)
    (hall : ∀ k b, Item.loop k b ∈ s → POK cfg H env cont f k b)
    (hv : ValidFrom cfg H env cont f [] s)
    (hwf : wfState cfg cont init = true) (hi : init.inflight = none) :
    SafeF H env cont f (lower cfg s) init :=
  valid_safe cfg H env cont f s init hH henv hall hv hwf hi

/-- **C22_rc_preserves_safe**: after redundant computation on a validly placed schedule, the
generated code is still safe for field `f`, every initial state, `H` and extents. -/
theorem C22_rc_preserves_safe (cfg : Cfg) (H : Nat) (env : Nat → Nat) (cont : Bool) (f : Nat)
    (s s' : Sched) (i : Nat) (depth : Option Nat) (init : RState) (hH : 1 ≤ H) (henv : ExtOK env)
    (hrc : rcEdit cfg s i depth = some s')
    (hall : ∀ k b, Item.loop k b ∈ s → POK cfg H env cont f k b)
    (hnew : ∀ k b R, s.drop i = .loop k b :: R → POK cfg H env cont f k (rcBound b depth))
    (hv : ValidFrom cfg H env cont f [] s)
    (hwf : wfState cfg cont init = true) (hi : init.inflight = none) :
    SafeF H env cont f (lower cfg s') init := by
  obtain ⟨hv', hall'⟩ := rcEdit_valid cfg H env cont f s s' i depth hrc hall hnew hv
  exact valid_safe cfg H env cont f s' init hH henv hall' hv' hwf hi

/-! ### Non-vacuity of `C22_rc_preserves_safe`: `setval_c(f1); kern(f0: gh_inc, f1: gh_read stencil 1)`,
redundant computation to depth 1 on the `setval_c` loop -/

def exSetval : Kern := ⟨true, [⟨1, .write, false, none⟩]⟩
def exKern : Kern := ⟨false, [⟨0, .inc, false, none⟩, ⟨1, .read, false, some (.lit 1)⟩]⟩

/-- packaging of the side conditions for the examples below -/
theorem C22_example_pok (cfg : Cfg) (k : Kern) (b : Bound)
    (hn : (k.args.map (·.field)).Nodup)
    (hargs : ∀ a ∈ k.args, ArgOK a ∧ (b.lvl = .haloMax → a.stencil = none) ∧ writeOnlyPattern cfg k b a = false)
    (hb : b.ok cfg k)
    (hd : ∀ a ∈ k.args, a.access.writes = true → k.dofKernel = true → cfg.annexed = true → b.lvl ≠ .owned)
    (hc : ∀ a ∈ k.args, a.access.writes = true → k.dofKernel = false → a.disc = false → a.access ≠ .write → b.lvl.isHalo = true)
    (hs : SemOK 3 (fun _ => 1) true 1 k b) : POK cfg 3 (fun _ => 1) true 1 k b :=
  ⟨⟨hn, hargs, hb, hd, hc⟩, hs⟩

example : ∀ s', rcEdit ⟨false⟩ (placeInvoke ⟨false⟩ [exSetval, exKern]) 0 (some 1) = some s' →
    SafeF 3 (fun _ => 1) true 1 (lower ⟨false⟩ s') ⟨0, ⟨false, 0⟩, none⟩ := by
  intro s' hrc
  have hpl := C22_place_valid ⟨false⟩ 3 (fun _ => 1) true 1
    ([exSetval, exKern].map fun k => (k, defaultBound ⟨false⟩ k)) (by
      intro k b hmem
      simp only [List.map_cons, List.map_nil, List.mem_cons, List.not_mem_nil, or_false,
        Prod.mk.injEq] at hmem
      rcases hmem with ⟨rfl, rfl⟩ | ⟨rfl, rfl⟩
      · apply C22_example_pok
        · decide
        · intro a ha
          simp [exSetval] at ha
          subst ha
          exact ⟨⟨by simp [Arg.accOK], by simp, by simp [Arg.extOK]⟩, by decide, by decide⟩
        · exact ⟨by decide, by decide, (by show True; trivial)⟩
        · intro a _ _ _ h; cases h
        · intro a _ _ h; cases h
        · intro a ha
          simp [argOf, exSetval] at ha
          subst ha
          exact ⟨by simp, by decide, by decide, by decide⟩
      · apply C22_example_pok
        · decide
        · intro a ha
          simp [exKern] at ha
          rcases ha with rfl | rfl <;>
            exact ⟨⟨by simp [Arg.accOK], by simp, by simp [Arg.extOK]⟩, by decide, by decide⟩
        · exact ⟨by decide, by decide, (by show (1 : Nat) ≤ 1; decide)⟩
        · intro a _ _ h; cases h
        · intro a _ _ _ _ _; decide
        · intro a ha
          simp [argOf, exKern] at ha
          subst ha
          exact ⟨by simp, by decide, by decide, by decide⟩)
  apply C22_rc_preserves_safe ⟨false⟩ 3 (fun _ => 1) true 1 _ s' 0 (some 1) _ (by decide)
    (fun _ => Nat.le_refl 1) hrc hpl.2 _ hpl.1 (by decide) rfl
  intro k b R hd
  have : k = exSetval ∧ b = defaultBound ⟨false⟩ exSetval := by
    have h0 : (placeInvoke ⟨false⟩ [exSetval, exKern]).head? =
        some (Item.loop exSetval (defaultBound ⟨false⟩ exSetval)) := by decide
    simp only [List.drop_zero] at hd
    rw [hd] at h0
    simp only [List.head?_cons, Option.some.injEq, Item.loop.injEq] at h0
    exact h0
  obtain ⟨rfl, rfl⟩ := this
  apply C22_example_pok
  · decide
  · intro a ha
    simp [exSetval] at ha
    subst ha
    exact ⟨⟨by simp [Arg.accOK], by simp, by simp [Arg.extOK]⟩, by decide, by decide⟩
  · exact ⟨by decide, by decide, (by show (1 : Nat) ≤ 1; decide)⟩
  · intro a _ _ _ h; cases h
  · intro a _ _ h; cases h
  · intro a ha
    simp [argOf, exSetval] at ha
    subst ha
    exact ⟨by simp, by decide, by decide, by decide⟩

example : (rcEdit ⟨false⟩ (placeInvoke ⟨false⟩ [exSetval, exKern]) 0 (some 1)).isSome = true := by
  decide

/-- **Colouring preserves valid placement, hence safety.**  `colourEdit` marks a cell-column loop
as coloured (upper bound `ncells`→`ncolour`, `cell_halo(d)`→`colour_halo(d)`); under `Bound.ok`
(`ncolour` only for kernels whose updates are all `GH_WRITE`) `_halo_read_access`,
`HaloReadAccess` and `HaloWriteAccess` are unchanged (`hra_col`, `readInfo_col`,
`writeInfo_col`), and the dynamic specification does not mention colouring at all. -/
theorem C22_colour_preserves_safe (cfg : Cfg) (H : Nat) (env : Nat → Nat) (cont : Bool) (f : Nat)
    (s s' : Sched) (i : Nat) (init : RState) (hH : 1 ≤ H) (henv : ExtOK env)
    (hc : colourEdit s i = some s')
    (hall : ∀ k b, Item.loop k b ∈ s → POK cfg H env cont f k b)
    (hnew : ∀ k b R, s.drop i = .loop k b :: R → POK cfg H env cont f k (colBound b))
    (hv : ValidFrom cfg H env cont f [] s)
    (hwf : wfState cfg cont init = true) (hi : init.inflight = none) :
    ValidFrom cfg H env cont f [] s' ∧
    (∀ k b, Item.loop k b ∈ s' → POK cfg H env cont f k b) ∧
    SafeF H env cont f (lower cfg s') init := by
  obtain ⟨hv', hall'⟩ := colourEdit_valid cfg H env cont f s s' i hc hall hnew hv
  exact ⟨hv', hall', valid_safe cfg H env cont f s' init hH henv hall' hv' hwf hi⟩

/-- non-vacuity: colouring the `gh_inc` loop of the example invoke is accepted by the model -/
example : (colourEdit (placeInvoke ⟨false⟩ [exSetval, exKern]) 3).isSome = true := by decide

/-- **Asynchronous halo exchange: start/finish pairing.**  `asyncEdit` replaces the synchronous
exchange at position `i` by `halo_exchange_start` immediately followed by `halo_exchange_finish`
(`Dynamo0p3AsyncHaloExchangeTrans.apply`).  The generated code of the new schedule runs EXACTLY
like that of the old one, for every field, `H`, extents and state (same result state, same
failure if any): both parts get the depth and `is_dirty` guard of the synchronous exchange, the
start only records the exchange in flight and the finish completes it.  (Provided no earlier
`halo_exchange_start` of the same field precedes it, whose end would be looked up through the
edited position.)  In particular safety is preserved. -/
theorem C22_async_preserves_run (cfg : Cfg) (H : Nat) (env : Nat → Nat) (cont : Bool) (f : Nat)
    (s s' : Sched) (i : Nat) (h : asyncEdit s i = some s')
    (hP : ∀ g R, s.drop i = .hex .sync g :: R → ∀ x ∈ s.take i, x ≠ .hex .start g)
    (init : RState) :
    runF H env cont f (lower cfg s') init = runF H env cont f (lower cfg s) init :=
  asyncEdit_run cfg H env cont f s s' i h hP init

theorem C22_async_preserves_safe (cfg : Cfg) (H : Nat) (env : Nat → Nat) (cont : Bool) (f : Nat)
    (s s' : Sched) (i : Nat) (h : asyncEdit s i = some s')
    (hP : ∀ g R, s.drop i = .hex .sync g :: R → ∀ x ∈ s.take i, x ≠ .hex .start g)
    (init : RState) (hs : SafeF H env cont f (lower cfg s) init) :
    SafeF H env cont f (lower cfg s') init := by
  unfold SafeF at hs ⊢
  rw [asyncEdit_run cfg H env cont f s s' i h hP init]
  exact hs

/-- non-vacuity: the exchange of field 1 in the example invoke (position 2) can be split, and the
split schedule runs to the same state as the synchronous one from an all-dirty start -/
example :
    (asyncEdit (placeInvoke ⟨false⟩ [exSetval, exKern]) 2).isSome = true ∧
    runF 3 (fun _ => 1) true 1
      (lower ⟨false⟩ ((asyncEdit (placeInvoke ⟨false⟩ [exSetval, exKern]) 2).getD []))
      ⟨0, ⟨false, 0⟩, none⟩ = .ok ⟨2, ⟨true, 2⟩, none⟩ := by
  constructor
  · decide
  · rfl

/-- the full property, for the record: every generated schedule is safe for every field, halo
depth, extents, continuity and initial state.  It is FALSE of the pinned model (the two
counterexamples above); what is proved instead is `C22_safe_partial` / `C22_safe_placed`, which
exclude exactly these two defect classes (plus ill-formed inputs). -/
def C22_safe_statement : Prop :=
  ∀ (cfg : Cfg) (ks : List Kern) (H : Nat) (env : Nat → Nat) (cont : Bool) (f : Nat) (init : RState),
    1 ≤ H → ExtOK env → wfState cfg cont init = true → init.inflight = none →
    deepEnough H env (lower cfg (placeInvoke cfg ks)) = true →
    consistentF cont f (lower cfg (placeInvoke cfg ks)) = true →
    SafeF H env cont f (lower cfg (placeInvoke cfg ks)) init

theorem C22_safe_counterexample : ¬ C22_safe_statement := by
  intro h
  have := h ⟨false⟩ [⟨true, [⟨0, .write, false, none⟩]⟩,
         ⟨false, [⟨3, .write, true, none⟩, ⟨0, .read, false, none⟩]⟩] 1 (fun _ => 1) true 0
         ⟨0, ⟨false, 0⟩, none⟩ (by decide) (fun _ => Nat.le_refl 1) (by decide) rfl (by decide) (by decide)
  obtain ⟨s, hs⟩ := this
  rw [C22_safe_counterexample_write_only] at hs
  cases hs

end C22
