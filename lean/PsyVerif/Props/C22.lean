import PsyVerif.Lemmas.Halo
/-! # C22 — distributed-memory LFRic code never reads a dirty halo

Model: `PsyVerif/Model/Halo.lean`.  The static side mirrors PSyclone (with the fix
`fixes/C22-required-max-depth-m1.patch` applied to `required`), the dynamic side
(`specNeed`, `specAfter`, `stepF`) is the independent specification. -/
namespace C22

/-- the defect class of known finding `C22-write-only-kernel-reads-annexed`: a cell-column kernel
whose updates are all `GH_WRITE`, iterating over owned cells, reads a field that is not known to
be discontinuous without a stencil, while annexed dofs are not computed redundantly -/
def writeOnlyPattern (cfg : Cfg) (k : Kern) (b : Bound) (a : Arg) : Bool :=
  !cfg.annexed && !k.dofKernel && k.allWrites && b.lvl == .owned && !a.disc && a.stencil.isNone

/-- bounds that `LFRicLoop.load` and the transformations can produce: `nannexed` only for dof
loops with COMPUTE_ANNEXED_DOFS, `ncolour` only for kernels whose updates are all `GH_WRITE`
(any other kernel on a continuous space iterates into the halo) -/
def Bound.ok (cfg : Cfg) (k : Kern) (b : Bound) : Prop :=
  (b.lvl = .annexed → k.dofKernel = true ∧ cfg.annexed = true) ∧
  (b.coloured = true → b.lvl = .owned → k.allWrites = true) ∧ b.lvl.wf

/-! ## The property -/

/-- **Marks are conservative.**  After a loop that writes field `a.field`, the state recorded by
the generated `set_dirty`/`set_clean` calls is no cleaner than what the loop computed, and the
actual state stays well formed (a clean level-1 halo includes clean annexed dofs). -/
theorem C22_marks_conservative (H : Nat) (env : Nat → Nat) (cont : Bool) (k : Kern) (b : Bound)
    (a : Arg) (s s1 s2 : RState) (hH : 1 ≤ H) (hb : b.lvl.wf)
    (hd : a.disc = true → cont = false) (hacc : a.accOK)
    (ha : argOf k a.field = some a) (hw : a.access.writes = true)
    (hwf : s.recorded ≤ s.act.cd)
    (h1 : stepF H env cont a.field s (.loop k b) = .ok s1)
    (h2 : stepsF H env cont a.field (marksOf k b a) s1 = .ok s2) :
    s2.recorded ≤ s2.act.cd ∧ (s2.act.cd = 0 ∨ s2.act.ann = true) := by
  obtain ⟨_, rfl⟩ := stepF_loop_writer H env cont k b a s s1 ha hw h1
  rw [stepsF_marksOf] at h2
  cases h2
  exact recAfter_le_specAfter H cont k b a s.recorded s.act hH hb hd hacc hw hwf

/-- non-vacuity: a `GH_INC` loop to halo depth 2 on a continuous field, started with everything
dirty except annexed dofs and halo depth 1, records clean depth 1 and has clean depth 1. -/
example :
    let a : Arg := ⟨0, .inc, false, none⟩
    let k : Kern := ⟨false, [a]⟩
    let b : Bound := ⟨.halo 2, false⟩
    let s : RState := ⟨1, ⟨true, 1⟩, none⟩
    ∃ s1 s2, stepF 3 (fun _ => 1) true 0 s (.loop k b) = .ok s1 ∧
      stepsF 3 (fun _ => 1) true 0 (marksOf k b a) s1 = .ok s2 ∧ s2.recorded = 1 ∧ s2.act.cd = 1 := by
  refine ⟨_, _, rfl, rfl, ?_, ?_⟩ <;> decide

/-- **Fields without a halo exchange are safe.**  When `_halo_read_access` says that an argument
does not read its halo (so `create_halo_exchanges` never considers it), what the kernel needs
according to the specification holds in every well-formed state — except for the defect class
`writeOnlyPattern` (known finding). -/
theorem C22_no_halo_access_sound (cfg : Cfg) (H : Nat) (env : Nat → Nat) (cont : Bool) (k : Kern)
    (b : Bound) (a : Arg) (s : FState)
    (hra : haloReadAccess cfg k b a = false)
    (hpat : writeOnlyPattern cfg k b a = false)
    (hb : b.ok cfg k) (hd : a.disc = true → cont = false)
    (hann : cfg.annexed = true → cont = true → s.ann = true) :
    sat s (specNeed H env cont k b a) = true := by
  obtain ⟨lvl, col⟩ := b
  obtain ⟨f, acc, disc, st⟩ := a
  obtain ⟨dof, args⟩ := k
  obtain ⟨ann⟩ := cfg
  obtain ⟨hb1, hb2, hb3⟩ := hb
  obtain ⟨sa, scd⟩ := s
  generalize haw : Kern.allWrites ⟨dof, args⟩ = aw at *
  simp only [Level.wf] at hb3
  cases acc <;> cases st <;> cases lvl <;> cases dof <;>
    simp [haloReadAccess, Level.isHalo, Access.reads] at hra <;>
    simp [specNeed, sat, lvlOf, Access.reads] <;>
    (try simp [writeOnlyPattern, haw] at hpat) <;> (try simp [haw] at hra) <;>
    (try simp at hb1) <;> (try simp at hb2) <;> (try simp at hann) <;> (try simp at hd) <;>
    (cases cont <;> cases disc <;> cases ann <;> cases col <;> cases aw <;> simp_all)

/-- the finding is real on the model: with annexed dofs dirty, the kernel of the witness reads them -/
theorem C22_safe_counterexample_write_only :
    runF 1 (fun _ => 1) true 0
      (lower ⟨false⟩ (placeInvoke ⟨false⟩
        [⟨true, [⟨0, .write, false, none⟩]⟩,
         ⟨false, [⟨3, .write, true, none⟩, ⟨0, .read, false, none⟩]⟩]))
      ⟨0, ⟨false, 0⟩, none⟩ = .error .dirtyRead := by
  rfl

end C22
