import PsyVerif.Lemmas.Halo
/-! # C22 — distributed-memory LFRic code never reads a dirty halo

Model: `PsyVerif/Model/Halo.lean`.  The static side mirrors PSyclone (with the fix
`fixes/C22-required-max-depth-m1.patch` applied to `required`), the dynamic side
(`specNeed`, `specAfter`, `stepF`) is the independent specification. -/
namespace C22

/-- the defect class of known finding `C22-write-only-kernel-reads-annexed`: a cell-column kernel
whose updates are all `GH_WRITE`, iterating over owned cells, reads a field that is not known to
be discontinuous without a stencil, while annexed dofs are not computed redundantly -/
def writeOnlyPattern (cfg : Cfg) (k : Kern) (b : Bound) (a : Arg) : Bool :=
  !cfg.annexed && !k.dofKernel && k.allWrites && b.lvl == .owned && !a.disc && a.stencil.isNone

/-- bounds that `LFRicLoop.load` and the transformations can produce: `nannexed` only for dof
loops with COMPUTE_ANNEXED_DOFS, `ncolour` only for kernels whose updates are all `GH_WRITE`
(any other kernel on a continuous space iterates into the halo) -/
def Bound.ok (cfg : Cfg) (k : Kern) (b : Bound) : Prop :=
  (b.lvl = .annexed → k.dofKernel = true ∧ cfg.annexed = true) ∧
  (b.coloured = true → b.lvl = .owned → k.allWrites = true) ∧ b.lvl.wf

/-! ## The property -/

/-- **Marks are conservative.**  After a loop that writes field `a.field`, the state recorded by
the generated `set_dirty`/`set_clean` calls is no cleaner than what the loop computed, and the
actual state stays well formed (a clean level-1 halo includes clean annexed dofs). -/
theorem C22_marks_conservative (H : Nat) (env : Nat → Nat) (cont : Bool) (k : Kern) (b : Bound)
    (a : Arg) (s s1 s2 : RState) (hH : 1 ≤ H) (hb : b.lvl.wf)
    (hd : a.disc = true → cont = false) (hacc : a.accOK)
    (ha : argOf k a.field = some a) (hw : a.access.writes = true)
    (hwf : s.recorded ≤ s.act.cd)
    (h1 : stepF H env cont a.field s (.loop k b) = .ok s1)
    (h2 : stepsF H env cont a.field (marksOf k b a) s1 = .ok s2) :
    s2.recorded ≤ s2.act.cd ∧ (s2.act.cd = 0 ∨ s2.act.ann = true) := by
  obtain ⟨_, rfl⟩ := stepF_loop_writer H env cont k b a s s1 ha hw h1
  rw [stepsF_marksOf] at h2
  cases h2
  exact recAfter_le_specAfter H cont k b a s.recorded s.act hH hb hd hacc hw hwf

/-- non-vacuity: a `GH_INC` loop to halo depth 2 on a continuous field, started with everything
dirty except annexed dofs and halo depth 1, records clean depth 1 and has clean depth 1. -/
example :
    let a : Arg := ⟨0, .inc, false, none⟩
    let k : Kern := ⟨false, [a]⟩
    let b : Bound := ⟨.halo 2, false⟩
    let s : RState := ⟨1, ⟨true, 1⟩, none⟩
    ∃ s1 s2, stepF 3 (fun _ => 1) true 0 s (.loop k b) = .ok s1 ∧
      stepsF 3 (fun _ => 1) true 0 (marksOf k b a) s1 = .ok s2 ∧ s2.recorded = 1 ∧ s2.act.cd = 1 := by
  refine ⟨_, _, rfl, rfl, ?_, ?_⟩ <;> decide

/-- **Fields without a halo exchange are safe.**  When `_halo_read_access` says that an argument
does not read its halo (so `create_halo_exchanges` never considers it), what the kernel needs
according to the specification holds in every well-formed state — except for the defect class
`writeOnlyPattern` (known finding). -/
theorem C22_no_halo_access_sound (cfg : Cfg) (H : Nat) (env : Nat → Nat) (cont : Bool) (k : Kern)
    (b : Bound) (a : Arg) (s : FState)
    (hra : haloReadAccess cfg k b a = false)
    (hpat : writeOnlyPattern cfg k b a = false)
    (hb : b.ok cfg k) (hd : a.disc = true → cont = false)
    (hann : cfg.annexed = true → cont = true → s.ann = true) :
    sat s (specNeed H env cont k b a) = true := by
  obtain ⟨lvl, col⟩ := b
  obtain ⟨f, acc, disc, st⟩ := a
  obtain ⟨dof, args⟩ := k
  obtain ⟨ann⟩ := cfg
  obtain ⟨hb1, hb2, hb3⟩ := hb
  obtain ⟨sa, scd⟩ := s
  generalize haw : Kern.allWrites ⟨dof, args⟩ = aw at *
  simp only [Level.wf] at hb3
  cases acc <;> cases st <;> cases lvl <;> cases dof <;>
    simp [haloReadAccess, Level.isHalo, Access.reads] at hra <;>
    simp [specNeed, sat, lvlOf, Access.reads] <;>
    (try simp [writeOnlyPattern, haw] at hpat) <;> (try simp [haw] at hra) <;>
    (try simp at hb1) <;> (try simp at hb2) <;> (try simp at hann) <;> (try simp at hd) <;>
    (cases cont <;> cases disc <;> cases ann <;> cases col <;> cases aw <;> simp_all)

/-- the finding is real on the model: with annexed dofs dirty, the kernel of the witness reads them -/
theorem C22_safe_counterexample_write_only :
    runF 1 (fun _ => 1) true 0
      (lower ⟨false⟩ (placeInvoke ⟨false⟩
        [⟨true, [⟨0, .write, false, none⟩]⟩,
         ⟨false, [⟨3, .write, true, none⟩, ⟨0, .read, false, none⟩]⟩]))
      ⟨0, ⟨false, 0⟩, none⟩ = .error .dirtyRead := by
  rfl

/-- what the previous writer is statically known to leave clean (`gen_mark_halos_clean_dirty`
starting from a dirty halo) -/
def cleanAfter (H : Nat) (w : WriteInfo) : Nat := recAfter H w 0

theorem evalDepths_single (H : Nat) (env : Nat → Nat) (d : HaloDepth) :
    evalDepths H env [d] = evalDepth H env d := by
  simp [evalDepths]

theorem required_sound (cfg : Cfg) (req : List HaloDepth) (w : WriteInfo) (kn : Bool)
    (h : required cfg req (some w) = (false, kn)) :
    (∃ r0, req = [r0] ∧ r0.annexedOnly = true ∧
        (cfg.annexed = true ∨ (w.lit = 1 ∧ w.dirtyOuter = true ∧ w.maxDepth = false))) ∨
    (w.maxDepth = true ∧ w.dirtyOuter = false) ∨
    (∀ H env, evalDepths H env req ≤ cleanAfter H w) := by
  obtain ⟨l, m, d⟩ := w
  rcases req with _ | ⟨r0, _ | ⟨r1, rs⟩⟩
  · -- empty requirement list
    right; right
    intro H env
    simp [evalDepths]
  · obtain ⟨rl, rv, rm, rm1, ra⟩ := r0
    simp only [evalDepths_single]
    cases m <;> cases d <;> cases ra <;> cases rm <;> cases rm1 <;> cases rv <;>
      simp [required] at h <;> (repeat' (split at h)) <;>
      simp_all [evalDepth, cleanAfter, recAfter] <;> (try omega)
  · cases m <;> cases d <;> simp [required] at h <;> (repeat' (split at h)) <;> simp_all

/-- non-vacuity of `required_sound`: a writer to depth 2 of a discontinuous field, a reader of
literal depth 2: no exchange, and indeed 2 ≤ 2. -/
example : required ⟨false⟩ [⟨2, none, false, false, false⟩] (some ⟨2, false, false⟩) = (false, true) ∧
    evalDepths 3 (fun _ => 1) [⟨2, none, false, false, false⟩] ≤ cleanAfter 3 ⟨2, false, false⟩ := by
  decide

/-- with the fix, a `max_depth-1` requirement after a writer to literal depth 1 keeps its
(run-time checked) exchange; the pinned code returned `(false, true)` here. -/
example : required ⟨true⟩ [⟨0, none, false, true, false⟩] (some ⟨1, false, false⟩) = (true, false) := by
  decide

/-- **A halo exchange establishes its depth** whether or not it is guarded by `is_dirty`
(`known` only matters for efficiency): afterwards the halo is clean to the computed depth, the
recorded state is still conservative and the state well formed. -/
theorem C22_hex_establishes (H : Nat) (env : Nat → Nat) (cont : Bool) (f : Nat)
    (ds : List HaloDepth) (chk : Bool) (s s' : RState)
    (hwf : s.recorded ≤ s.act.cd) (hann : s.act.cd = 0 ∨ s.act.ann = true)
    (h : stepF H env cont f s (.hex .sync f ds chk) = .ok s') :
    evalDepths H env ds ≤ s'.act.cd ∧ s'.recorded ≤ s'.act.cd ∧
    (s'.act.cd = 0 ∨ s'.act.ann = true) := by
  obtain ⟨r, ⟨a, cd⟩, infl⟩ := s
  simp only [stepF] at h
  simp at hwf hann
  have h0 : ¬ (cd < r) := by omega
  cases infl <;> simp [h0] at h
  subst h
  by_cases hd : evalDepths H env ds = 0
  · simp [exchanged, hd]
    exact ⟨hwf, hann⟩
  · cases chk <;> simp [exchanged, hd]
    · refine ⟨by omega, by omega⟩
    · by_cases hr : r < evalDepths H env ds
      · simp [hr, hd]; refine ⟨by omega, by omega⟩
      · simp [hr]; refine ⟨by omega, by omega, hann⟩

/-- **Aggregating read requirements is sound, step by step** (`_create_depth_list`): merging the
requirement `l + var` of one more reader into the list never lowers the depth of the exchange,
and the resulting depth covers that reader — for every halo depth and all extents. -/
theorem C22_depth_merge_sound (H : Nat) (env : Nat → Nat) (acc : List HaloDepth) (v : Option Nat)
    (l : Nat) (hacc : AccNorm acc) :
    evalDepths H env acc ≤ evalDepths H env (mergeDepth acc v l) ∧
    l + envv env v ≤ evalDepths H env (mergeDepth acc v l) ∧
    AccNorm (mergeDepth acc v l) :=
  ⟨mergeDepth_mono H env v l acc, mergeDepth_new H env v l acc hacc, mergeDepth_norm v l acc hacc⟩

/-- non-vacuity: `max(3, ext+1)` from readers needing 3, `ext+1` and 2 -/
example : mergeDepth (mergeDepth (mergeDepth [] none 3) (some 7) 1) none 2 =
    [⟨3, none, false, false, false⟩, ⟨1, some 7, false, false, false⟩] := by decide

/-- **The depth of a halo exchange covers every reader it serves** (`HaloReadAccess` +
`_create_depth_list`, any number of readers): for the exchange of field `f` placed in front of
`rest`, every argument `r` that reads `f` before its next writer needs, according to the
specification, at most the depth the exchange is given — for every halo depth `H` and all
extents (provided the requirement of `r` alone fits into the halo, `ReaderOK`). -/
theorem C22_hex_covers_readers (H : Nat) (env : Nat → Nat) (cont : Bool) (f : Nat) (rest : Sched)
    (r : Kern × Bound × Arg) (hr : r ∈ fwdReaders f rest) (hok : ReaderOK r.2.1 r.2.2)
    (hdeep : infoNeed H env (readInfo r.1 r.2.1 r.2.2) ≤ H) :
    (specNeed H env cont r.1 r.2.1 r.2.2).depth ≤ evalDepths H env (hexDepth f rest) := by
  obtain ⟨h1, h2⟩ := readInfo_need H env cont r.1 r.2.1 r.2.2 hok
  refine Nat.le_trans h1 ?_
  unfold hexDepth
  exact depthList_covers H env _ _ (List.mem_map_of_mem hr) h2 hdeep

/-- non-vacuity: the exchange of field 2 in the probe invoke serves two stencil readers
(`max(3, ext+1)`) -/
example :
    let k1 : Kern := ⟨false, [⟨0, .inc, false, none⟩, ⟨2, .read, true, some (.lit 2)⟩]⟩
    let k2 : Kern := ⟨false, [⟨1, .inc, false, none⟩, ⟨2, .read, true, some (.var 7)⟩]⟩
    (fwdReaders 2 [.loop k1 ⟨.halo 1, false⟩, .loop k2 ⟨.halo 1, false⟩]).length = 2 ∧
    hexDepth 2 [.loop k1 ⟨.halo 1, false⟩, .loop k2 ⟨.halo 1, false⟩] =
      [⟨3, none, false, false, false⟩, ⟨1, some 7, false, false, false⟩] := by
  decide

/-- known finding `C22-inc-to-max-depth-h1` on the model: redundant computation to the maximum
depth for a `GH_INC` kernel, mesh halo depth 1, annexed dofs dirty on entry. -/
theorem C22_safe_counterexample_inc_max_h1 :
    runF 1 (fun _ => 1) true 1
      (lower ⟨false⟩ ((rcEdit ⟨false⟩ (placeInvoke ⟨false⟩
        [⟨false, [⟨1, .inc, false, none⟩, ⟨3, .read, true, none⟩]⟩]) 2 none).getD []))
      ⟨0, ⟨false, 0⟩, none⟩ = .error .dirtyRead := by
  rfl

/-- the full property, for the record: every generated schedule is safe for every field, halo
depth, extents, continuity and initial state.  It is FALSE of the pinned model (the two
counterexamples above); what is proved instead are the component theorems
`required_sound`, `C22_hex_establishes`, `C22_no_halo_access_sound`, `C22_marks_conservative`. -/
def C22_safe_statement : Prop :=
  ∀ (cfg : Cfg) (ks : List Kern) (H : Nat) (env : Nat → Nat) (cont : Bool) (f : Nat) (init : RState),
    1 ≤ H → ExtOK env → wfState cfg cont init = true → init.inflight = none →
    deepEnough H env (lower cfg (placeInvoke cfg ks)) = true →
    consistentF cont f (lower cfg (placeInvoke cfg ks)) = true →
    SafeF H env cont f (lower cfg (placeInvoke cfg ks)) init

theorem C22_safe_counterexample : ¬ C22_safe_statement := by
  intro h
  have := h ⟨false⟩ [⟨true, [⟨0, .write, false, none⟩]⟩,
         ⟨false, [⟨3, .write, true, none⟩, ⟨0, .read, false, none⟩]⟩] 1 (fun _ => 1) true 0
         ⟨0, ⟨false, 0⟩, none⟩ (by decide) (fun _ => Nat.le_refl 1) (by decide) rfl (by decide) (by decide)
  obtain ⟨s, hs⟩ := this
  rw [C22_safe_counterexample_write_only] at hs
  cases hs

end C22
