import PsyVerif.Model.Colour
import PsyVerif.Gen.Access
/-! # C23 — LFRic shared-DoF increments are only parallelised over colours

Model: `PsyVerif/Model/Colour.lean` (FIXED code: `fixes/C23-readinc.patch`).  The access tables of
the live code are regenerated on every run into `PsyVerif/Gen/Access.lean`; the theorems that mention
`Gen.tables` stop compiling when `PSyLoop.has_inc_arg` no longer recognises INC *and* READINC.

Quantification: every schedule tree (any nesting, any kernels with any argument lists, any access codes and
function-space ids) and every finite history of the seven modelled transformations applied to arbitrary
targets.  No bound on sizes. -/
namespace C23
open Forest

/-! ## The property's predicates (`safe1`, `sharedInc`, `Spec.*` are defined in the model file so that the driver
can evaluate them; they do not depend on PSyclone's tables) -/

abbrev Safe1 (s : Forest) : Prop := safe1 false s = true
/-- clause 2: no loop over colours inside an OpenMP parallel region -/
abbrev Safe2 (s : Forest) : Prop := noColoursInOmpPar false s = true
abbrev Safe (s : Forest) : Prop := Safe1 s ∧ Safe2 s

/-- The full statement: for schedules as built by PSyclone (no directives yet), every accepted history (any
transformations, any targets, any option values except "force") leads to a state satisfying clause 1, and every such
state that passes generation also satisfies clause 2.  FALSE of the pinned code because of the known finding
C23-sequential-generic-omp (`C23_fails_sequential_generic_omp`); `C23_holds_partial` proves it under the side condition
`Step.seqOk` that excludes exactly that class. -/
def C23_statement (T : Tables) : Prop :=
  ∀ (s0 s : Forest) (h : List Step), noDirs s0 = true → run T s0 h = some s →
    Safe1 s ∧ (genOK T s = true → Safe s)

/-! ## helper lemmas -/

/-- the model-level invariant: like `safe1` but with the code's own `has_inc_arg` -/
def inv (T : Tables) (p : Bool) : Forest → Bool
  | nil => true
  | halo nx | gsum nx | other nx | kern _ _ nx => inv T p nx
  | loop ty _ b nx => (!p || ty == ltColour || !hasInc T b) && inv T false b && inv T p nx
  | dir k b nx => inv T (isParLoopDir k) b && inv T p nx

theorem inv_false_of_inv {T : Tables} {p : Bool} {f : Forest} (h : inv T p f = true) : inv T false f = true := by
  induction f with
  | nil => rfl
  | halo nx ih | gsum nx ih | other nx ih => simpa [inv] using ih (by simpa [inv] using h)
  | kern c a nx ih => simpa [inv] using ih (by simpa [inv] using h)
  | loop ty fd b nx _ ih2 =>
    simp only [inv, Bool.and_eq_true] at h ⊢
    exact ⟨⟨by simp, h.1.2⟩, ih2 h.2⟩
  | dir k b nx _ ih2 =>
    simp only [inv, Bool.and_eq_true] at h ⊢
    exact ⟨h.1, ih2 h.2⟩

theorem sharedInc_hasInc {T : Tables} (hT : ∀ a, Spec.incrementing a = true → T.incAcc a = true)
    {f : Forest} (h : sharedInc f = true) : hasInc T f = true := by
  induction f with
  | nil => simp [sharedInc] at h
  | halo nx ih | gsum nx ih | other nx ih => simpa [hasInc] using ih (by simpa [sharedInc] using h)
  | kern c a nx ih =>
    simp only [sharedInc, Bool.or_eq_true, Bool.and_eq_true, List.any_eq_true] at h
    simp only [hasInc, Bool.or_eq_true, Bool.and_eq_true, List.any_eq_true]
    rcases h with ⟨hc, x, hx, hx1, _⟩ | h
    · exact Or.inl ⟨hc, x, hx, hT _ hx1⟩
    · exact Or.inr (ih h)
  | loop ty fd b nx ih1 ih2 =>
    simp only [sharedInc, Bool.or_eq_true] at h
    simp only [hasInc, Bool.or_eq_true]
    exact h.imp ih1 ih2
  | dir k b nx ih1 ih2 =>
    simp only [sharedInc, Bool.or_eq_true] at h
    simp only [hasInc, Bool.or_eq_true]
    exact h.imp ih1 ih2

theorem safe1_of_inv {T : Tables} (hT : ∀ a, Spec.incrementing a = true → T.incAcc a = true)
    {p : Bool} {f : Forest} (h : inv T p f = true) : safe1 p f = true := by
  induction f generalizing p with
  | nil => rfl
  | halo nx ih | gsum nx ih | other nx ih => simpa [safe1] using ih (by simpa [inv] using h)
  | kern c a nx ih => simpa [safe1] using ih (by simpa [inv] using h)
  | loop ty fd b nx ih1 ih2 =>
    simp only [inv, Bool.and_eq_true, Bool.or_eq_true] at h
    simp only [safe1, Bool.and_eq_true, Bool.or_eq_true]
    refine ⟨⟨?_, ih1 h.1.2⟩, ih2 h.2⟩
    rcases h.1.1 with h1 | h1
    · exact Or.inl h1
    · right
      cases hs : sharedInc b with
      | false => rfl
      | true => simp [sharedInc_hasInc hT hs] at h1
  | dir k b nx ih1 ih2 =>
    simp only [inv, Bool.and_eq_true] at h
    simp only [safe1, Bool.and_eq_true]
    exact ⟨ih1 h.1, ih2 h.2⟩

theorem inv_of_noDirs {T : Tables} {f : Forest} (h : noDirs f = true) : inv T false f = true := by
  induction f with
  | nil => rfl
  | halo nx ih | gsum nx ih | other nx ih => simpa [inv] using ih (by simpa [noDirs] using h)
  | kern c a nx ih => simpa [inv] using ih (by simpa [noDirs] using h)
  | loop ty fd b nx ih1 ih2 =>
    simp only [noDirs, Bool.and_eq_true] at h
    simp only [inv, Bool.and_eq_true]
    exact ⟨⟨by simp, ih1 h.1⟩, ih2 h.2⟩
  | dir k b nx _ _ => simp [noDirs] at h

/-- a transformation body leaves `has_inc_arg` of the enclosing loops unchanged -/
def KeepsInc (T : Tables) (g : Ctx → Forest → Option Forest) : Prop :=
  ∀ (c : Ctx) (f f' : Forest), g c f = some f' → hasInc T f' = hasInc T f

/-- a transformation body preserves the invariant at the position it is applied to -/
def Preserves (T : Tables) (g : Ctx → Forest → Option Forest) : Prop :=
  ∀ (c : Ctx) (f f' : Forest), inv T c.parPar f = true → g c f = some f' → inv T c.parPar f' = true

theorem atIdx_hasInc {T : Tables} {g : Ctx → Forest → Option Forest} (hk : KeepsInc T g) :
    ∀ (f : Forest) (i : Nat) (c : Ctx) (f' : Forest),
      atIdx g f i c = some f' → hasInc T f' = hasInc T f := by
  intro f
  induction f with
  | nil => intro i c f' h; simp [atIdx] at h
  | halo nx ih | gsum nx ih | other nx ih =>
    intro i c f' h
    simp only [atIdx] at h
    split at h
    · exact hk _ _ _ h
    · obtain ⟨x, hx, rfl⟩ := Option.map_eq_some_iff.mp h
      simpa [hasInc] using ih _ _ _ hx
  | kern cd as nx ih =>
    intro i c f' h
    simp only [atIdx] at h
    split at h
    · exact hk _ _ _ h
    · obtain ⟨x, hx, rfl⟩ := Option.map_eq_some_iff.mp h
      simp only [hasInc]
      rw [ih _ _ _ hx]
  | loop ty fd b nx ih1 ih2 =>
    intro i c f' h
    simp only [atIdx] at h
    split at h
    · exact hk _ _ _ h
    · split at h
      · obtain ⟨x, hx, rfl⟩ := Option.map_eq_some_iff.mp h
        simp only [hasInc]
        rw [ih1 _ _ _ hx]
      · obtain ⟨x, hx, rfl⟩ := Option.map_eq_some_iff.mp h
        simp only [hasInc]
        rw [ih2 _ _ _ hx]
  | dir k b nx ih1 ih2 =>
    intro i c f' h
    simp only [atIdx] at h
    split at h
    · exact hk _ _ _ h
    · split at h
      · obtain ⟨x, hx, rfl⟩ := Option.map_eq_some_iff.mp h
        simp only [hasInc]
        rw [ih1 _ _ _ hx]
      · obtain ⟨x, hx, rfl⟩ := Option.map_eq_some_iff.mp h
        simp only [hasInc]
        rw [ih2 _ _ _ hx]

theorem atIdx_inv {T : Tables} {g : Ctx → Forest → Option Forest} (hk : KeepsInc T g) (hg : Preserves T g) :
    ∀ (f : Forest) (i : Nat) (c : Ctx) (f' : Forest),
      inv T c.parPar f = true → atIdx g f i c = some f' → inv T c.parPar f' = true := by
  intro f
  induction f with
  | nil => intro i c f' _ h; simp [atIdx] at h
  | halo nx ih | gsum nx ih | other nx ih =>
    intro i c f' hi h
    simp only [atIdx] at h
    split at h
    · exact hg _ _ _ hi h
    · obtain ⟨x, hx, rfl⟩ := Option.map_eq_some_iff.mp h
      simpa [inv] using ih _ _ _ (by simpa [inv] using hi) hx
  | kern cd as nx ih =>
    intro i c f' hi h
    simp only [atIdx] at h
    split at h
    · exact hg _ _ _ hi h
    · obtain ⟨x, hx, rfl⟩ := Option.map_eq_some_iff.mp h
      simpa [inv] using ih _ _ _ (by simpa [inv] using hi) hx
  | loop ty fd b nx ih1 ih2 =>
    intro i c f' hi h
    simp only [atIdx] at h
    split at h
    · exact hg _ _ _ hi h
    · simp only [inv, Bool.and_eq_true] at hi
      split at h
      · obtain ⟨x, hx, rfl⟩ := Option.map_eq_some_iff.mp h
        have hb := ih1 (i - 1) c.loopBody x (by simpa [Ctx.loopBody] using hi.1.2) hx
        simp only [inv, Bool.and_eq_true]
        refine ⟨⟨?_, by simpa [Ctx.loopBody] using hb⟩, hi.2⟩
        rw [atIdx_hasInc hk _ _ _ _ hx]
        exact hi.1.1
      · obtain ⟨x, hx, rfl⟩ := Option.map_eq_some_iff.mp h
        have hn := ih2 _ c x hi.2 hx
        simp only [inv, Bool.and_eq_true]
        exact ⟨hi.1, hn⟩
  | dir k b nx ih1 ih2 =>
    intro i c f' hi h
    simp only [atIdx] at h
    split at h
    · exact hg _ _ _ hi h
    · simp only [inv, Bool.and_eq_true] at hi
      split at h
      · obtain ⟨x, hx, rfl⟩ := Option.map_eq_some_iff.mp h
        have hb := ih1 (i - 1) (c.dirBody k) x (by simpa [Ctx.dirBody] using hi.1) hx
        simp only [inv, Bool.and_eq_true]
        exact ⟨by simpa [Ctx.dirBody] using hb, hi.2⟩
      · obtain ⟨x, hx, rfl⟩ := Option.map_eq_some_iff.mp h
        have hn := ih2 _ c x hi.2 hx
        simp only [inv, Bool.and_eq_true]
        exact ⟨hi.1, hn⟩


theorem splitSibs_hasInc {T : Tables} : ∀ (n : Nat) (f t r : Forest),
    splitSibs n f = some (t, r) → hasInc T f = (hasInc T t || hasInc T r) := by
  intro n
  induction n with
  | zero => intro f t r h; simp [splitSibs] at h; obtain ⟨rfl, rfl⟩ := h; simp [hasInc]
  | succ n ih =>
    intro f t r h
    cases f with
    | nil => simp [splitSibs] at h
    | halo nx | gsum nx | other nx =>
      simp only [splitSibs] at h
      obtain ⟨⟨t', r'⟩, hx, heq⟩ := Option.map_eq_some_iff.mp h
      simp only [Prod.mk.injEq] at heq; obtain ⟨rfl, rfl⟩ := heq
      simpa [hasInc] using ih _ _ _ hx
    | kern cd as nx =>
      simp only [splitSibs] at h
      obtain ⟨⟨t', r'⟩, hx, heq⟩ := Option.map_eq_some_iff.mp h
      simp only [Prod.mk.injEq] at heq; obtain ⟨rfl, rfl⟩ := heq
      simp only [hasInc, ih _ _ _ hx, Bool.or_assoc]
    | loop ty fd b nx =>
      simp only [splitSibs] at h
      obtain ⟨⟨t', r'⟩, hx, heq⟩ := Option.map_eq_some_iff.mp h
      simp only [Prod.mk.injEq] at heq; obtain ⟨rfl, rfl⟩ := heq
      simp only [hasInc, ih _ _ _ hx, Bool.or_assoc]
    | dir k b nx =>
      simp only [splitSibs] at h
      obtain ⟨⟨t', r'⟩, hx, heq⟩ := Option.map_eq_some_iff.mp h
      simp only [Prod.mk.injEq] at heq; obtain ⟨rfl, rfl⟩ := heq
      simp only [hasInc, ih _ _ _ hx, Bool.or_assoc]

theorem splitSibs_inv {T : Tables} {p : Bool} : ∀ (n : Nat) (f t r : Forest),
    splitSibs n f = some (t, r) → inv T p f = true → inv T p t = true ∧ inv T p r = true := by
  intro n
  induction n with
  | zero => intro f t r h hi; simp [splitSibs] at h; obtain ⟨rfl, rfl⟩ := h; exact ⟨rfl, hi⟩
  | succ n ih =>
    intro f t r h hi
    cases f with
    | nil => simp [splitSibs] at h
    | halo nx | gsum nx | other nx =>
      simp only [splitSibs] at h
      obtain ⟨⟨t', r'⟩, hx, heq⟩ := Option.map_eq_some_iff.mp h
      simp only [Prod.mk.injEq] at heq; obtain ⟨rfl, rfl⟩ := heq
      simpa [inv] using ih _ _ _ hx (by simpa [inv] using hi)
    | kern cd as nx =>
      simp only [splitSibs] at h
      obtain ⟨⟨t', r'⟩, hx, heq⟩ := Option.map_eq_some_iff.mp h
      simp only [Prod.mk.injEq] at heq; obtain ⟨rfl, rfl⟩ := heq
      simpa [inv] using ih _ _ _ hx (by simpa [inv] using hi)
    | loop ty fd b nx =>
      simp only [splitSibs] at h
      obtain ⟨⟨t', r'⟩, hx, heq⟩ := Option.map_eq_some_iff.mp h
      simp only [Prod.mk.injEq] at heq; obtain ⟨rfl, rfl⟩ := heq
      simp only [inv, Bool.and_eq_true] at hi ⊢
      have := ih _ _ _ hx hi.2
      exact ⟨⟨hi.1, this.1⟩, this.2⟩
    | dir k b nx =>
      simp only [splitSibs] at h
      obtain ⟨⟨t', r'⟩, hx, heq⟩ := Option.map_eq_some_iff.mp h
      simp only [Prod.mk.injEq] at heq; obtain ⟨rfl, rfl⟩ := heq
      simp only [inv, Bool.and_eq_true] at hi ⊢
      have := ih _ _ _ hx hi.2
      exact ⟨⟨hi.1, this.1⟩, this.2⟩

/-- what an accepted loop-parallelising transformation did -/
theorem parLoopG_some {T : Tables} {t : LoopTrans} {o : LoopOpts} {c : Ctx} {f f' : Forest}
    (h : parLoopG T t o c f = some f') :
    ∃ ty fd b nx, f = loop ty fd b nx ∧ f' = dir (t.emitted o) (loop ty fd b nil) nx ∧
      (t.isDynamo = true → (ty = ltColour ∨ hasInc T b = false)) ∧
      (t.usesDA = true → o.sequential = false → (ty = ltColour ∨ hasInc T b = false)) ∧
      (o.sequential = false → ty ≠ ltColours) ∧ ty ≠ ltNull := by
  cases f with
  | loop ty fd b nx =>
    simp only [parLoopG] at h
    split at h; · simp at h
    split at h; · simp at h
    split at h; · simp at h
    split at h; · simp at h
    split at h; · simp at h
    split at h; · simp at h
    split at h; · simp at h
    rename_i h1 _ h3 _ h5 h6 _
    refine ⟨ty, fd, b, nx, rfl, by simpa using h.symm, ?_, ?_, ?_, by simpa using h1⟩
    · intro hd
      simp only [hd, bne_iff_ne, ne_eq, Bool.and_eq_true, Bool.true_and, not_and,
        Bool.not_eq_true] at h5
      by_cases hc : ty = ltColour
      · exact Or.inl hc
      · exact Or.inr (h5 (by simpa using hc))
    · intro hu hs
      simp only [hu, hs, bne_iff_ne, ne_eq, Bool.and_eq_true, Bool.true_and, not_and,
        Bool.not_eq_true, Bool.not_false] at h6
      by_cases hc : ty = ltColour
      · exact Or.inl hc
      · exact Or.inr (h6 (by simpa using hc))
    · intro hs
      simpa [hs] using h3
  | _ => simp [parLoopG] at h

theorem colourG_some {c : Ctx} {f f' : Forest} (h : colourG c f = some f') :
    ∃ fd b nx, f = loop ltCells fd b nx ∧ f' = loop ltColours fd (loop ltColour fd b nil) nx ∧
      c.inOmp = false ∧ fd = false := by
  cases f with
  | loop ty fd b nx =>
    simp only [colourG] at h
    split at h; · simp at h
    split at h; · simp at h
    split at h; · simp at h
    split at h; · simp at h
    rename_i _ h2 h3 h4
    have hty : ty = ltCells := by simpa using h3
    subst hty
    exact ⟨fd, b, nx, rfl, by simpa using h.symm, by simpa using h4, by simpa using h2⟩
  | _ => simp [colourG] at h

theorem regionG_some {t : RegionTrans} {o : RegionOpts} {i0 : Nat} {targets : List Nat} {c : Ctx} {f f' : Forest}
    (h : regionG t o i0 targets c f = some f') :
    ∃ taken rest, splitSibs targets.length f = some (taken, rest) ∧ f' = dir t.dirKind taken rest ∧
      (t = .ompParallel → c.inOmp = false) := by
  simp only [regionG] at h
  split at h; · simp at h
  split at h; · simp at h
  rename_i h1 _
  split at h; · simp at h
  rename_i taken rest hs
  split at h; · simp at h
  split at h; · simp at h
  split at h; · simp at h
  refine ⟨taken, rest, hs, by simpa using h.symm, ?_⟩
  intro ht
  subst ht
  simpa using h1

theorem keepsInc_parLoopG (T : Tables) (t : LoopTrans) (o : LoopOpts) : KeepsInc T (parLoopG T t o) := by
  intro c f f' h
  obtain ⟨ty, fd, b, nx, rfl, rfl, -⟩ := parLoopG_some h
  simp [hasInc]

theorem keepsInc_colourG (T : Tables) : KeepsInc T colourG := by
  intro c f f' h
  obtain ⟨fd, b, nx, rfl, rfl, -⟩ := colourG_some h
  simp [hasInc]

theorem keepsInc_regionG (T : Tables) (t : RegionTrans) (o : RegionOpts) (i0 : Nat) (tg : List Nat) :
    KeepsInc T (regionG t o i0 tg) := by
  intro c f f' h
  obtain ⟨taken, rest, hs, rfl, -⟩ := regionG_some h
  simp [hasInc, splitSibs_hasInc (T := T) _ _ _ _ hs]

/-- Side condition of the partial theorem: options["sequential"] is not passed to a *generic* OpenMP loop
transformation (psyir `OMPLoopTrans` / `OMPParallelLoopTrans`).  Decidable; satisfied by every history that
only uses the LFRic-specific OpenMP transformations and/or ACCLoopTrans with any options. -/
def Step.seqOk : Step → Bool
  | .parLoop t o _ => !(t.isGenericOmp && o.sequential)
  | _ => true

/-- a loop-parallelising transformation only emits a *parallel* directive on a loop that is over a single colour
or has no INC/READINC argument - provided "sequential" is not given to a generic OpenMP transformation -/
theorem parLoopG_parallel_ok {T : Tables} {t : LoopTrans} {o : LoopOpts} {c : Ctx} {ty : LoopType} {fd : Bool}
    {b nx : Forest} {f' : Forest} (hs : (t.isGenericOmp && o.sequential) = false)
    (h : parLoopG T t o c (loop ty fd b nx) = some f') (hp : isParLoopDir (t.emitted o) = true) :
    ty = ltColour ∨ hasInc T b = false := by
  obtain ⟨ty', fd', b', nx', heq, -, hd, hu, -⟩ := parLoopG_some h
  cases heq
  cases t with
  | ompParallelDo => exact hd rfl
  | ompDo => exact hd rfl
  | accLoop =>
    cases hseq : o.sequential with
    | false => exact hu rfl hseq
    | true => simp [LoopTrans.emitted, hseq, dAccLoopSeq, isParLoopDir] at hp
  | genOmpDo => exact hu rfl (by simpa [LoopTrans.isGenericOmp] using hs)
  | genOmpParallelDo => exact hu rfl (by simpa [LoopTrans.isGenericOmp] using hs)

theorem preserves_parLoopG (T : Tables) (t : LoopTrans) (o : LoopOpts)
    (hs : (t.isGenericOmp && o.sequential) = false) : Preserves T (parLoopG T t o) := by
  intro c f f' hi h
  obtain ⟨ty, fd, b, nx, rfl, rfl, -⟩ := parLoopG_some h
  have hok := fun hp => parLoopG_parallel_ok hs h hp
  simp only [inv, Bool.and_eq_true, Bool.or_eq_true] at hi ⊢
  refine ⟨⟨⟨?_, hi.1.2⟩, trivial⟩, hi.2⟩
  cases hp : isParLoopDir (t.emitted o) with
  | false => simp
  | true =>
    rcases hok hp with rfl | hno
    · simp
    · simp [hno]

theorem preserves_colourG (T : Tables) : Preserves T colourG := by
  intro c f f' hi h
  obtain ⟨fd, b, nx, rfl, rfl, -⟩ := colourG_some h
  simp only [inv, Bool.and_eq_true, Bool.or_eq_true] at hi ⊢
  refine ⟨⟨?_, ⟨⟨by simp, hi.1.2⟩, trivial⟩⟩, hi.2⟩
  rcases hi.1.1 with (h1 | h1) | h1
  · exact Or.inl (Or.inl h1)
  · simp [ltCells, ltColour] at h1
  · right; simpa [hasInc] using h1

theorem preserves_regionG (T : Tables) (t : RegionTrans) (o : RegionOpts) (i0 : Nat) (tg : List Nat) :
    Preserves T (regionG t o i0 tg) := by
  intro c f f' hi h
  obtain ⟨taken, rest, hs, rfl, -⟩ := regionG_some h
  obtain ⟨h1, h2⟩ := splitSibs_inv (T := T) _ _ _ _ hs hi
  simp only [inv, Bool.and_eq_true]
  refine ⟨?_, h2⟩
  cases t <;> simpa [RegionTrans.dirKind, isParLoopDir, dOmpParallel, dAccParallel, dAccKernels]
    using inv_false_of_inv h1

theorem step_inv {T : Tables} {s s' : Forest} {st : Step} (hok : st.seqOk = true) (hi : inv T false s = true)
    (h : step T s st = some s') : inv T false s' = true := by
  cases st with
  | colour i => exact atIdx_inv (keepsInc_colourG T) (preserves_colourG T) s i Ctx.top s' hi h
  | parLoop t o i =>
    have hs : (t.isGenericOmp && o.sequential) = false := by
      simp only [Step.seqOk, Bool.not_eq_true'] at hok
      exact hok
    exact atIdx_inv (keepsInc_parLoopG T t o) (preserves_parLoopG T t o hs) s i Ctx.top s' hi h
  | region t o tg =>
    cases tg with
    | nil => simp [step] at h
    | cons i0 rest =>
      exact atIdx_inv (keepsInc_regionG T t o i0 _) (preserves_regionG T t o i0 _) s i0 Ctx.top s' hi h

theorem run_inv {T : Tables} : ∀ (h : List Step) (s s' : Forest), (∀ st ∈ h, st.seqOk = true) →
    inv T false s = true → run T s h = some s' → inv T false s' = true := by
  intro h
  induction h with
  | nil => intro s s' _ hi hr; simp [run] at hr; subst hr; exact hi
  | cons st rest ih =>
    intro s s' hok hi hr
    simp only [run] at hr
    split at hr
    · simp at hr
    · rename_i s1 hs1
      exact ih s1 s' (fun x hx => hok x (List.mem_cons_of_mem _ hx))
        (step_inv (hok st (List.mem_cons_self ..)) hi hs1) hr

theorem runSkip_inv {T : Tables} : ∀ (h : List Step) (s : Forest), (∀ st ∈ h, st.seqOk = true) →
    inv T false s = true → inv T false (runSkip T s h).1 = true := by
  intro h
  induction h with
  | nil => intro s _ hi; simpa [runSkip] using hi
  | cons st rest ih =>
    intro s hok hi
    simp only [runSkip]
    split
    · exact ih s (fun x hx => hok x (List.mem_cons_of_mem _ hx)) hi
    · rename_i s1 hs1
      exact ih s1 (fun x hx => hok x (List.mem_cons_of_mem _ hx))
        (step_inv (hok st (List.mem_cons_self ..)) hi hs1)

/-! ## The property -/

/-- The live tables recognise both incrementing access modes (INC and READINC).  This is the proof obligation that
fails to compile when `PSyLoop.has_inc_arg` ignores READINC. -/
theorem C23_tables_inc : ∀ a, Spec.incrementing a = true → Gen.tables.incAcc a = true := by
  intro a h
  simp only [Spec.incrementing, Bool.or_eq_true, beq_iff_eq] at h
  rcases h with rfl | rfl <;> decide

/-- The member values used by the specification are those of the live `AccessType`. -/
theorem C23_tables_members : Gen.accINC = 4 ∧ Gen.accREADINC = 5 ∧ Gen.accSUM = 6 := by decide

/-- PSyclone's list of discontinuous function-space names agrees with the specification-level table. -/
theorem C23_tables_spaces : ∀ i, i < 40 → Gen.fsDisc i = Spec.fsDisc i := by decide

/-- The statement restricted to histories that satisfy the side condition `Step.seqOk`. -/
def C23_statement_partial (T : Tables) : Prop :=
  ∀ (s0 s : Forest) (h : List Step), noDirs s0 = true → (∀ st ∈ h, st.seqOk = true) → run T s0 h = some s →
    Safe1 s ∧ (genOK T s = true → Safe s)

/-- **Invariant (clause 1), any tables, any option values** (side condition: no "sequential" on a generic OpenMP
loop transformation).  From any state satisfying the invariant, every accepted history ends in a state in which every
loop below a parallel loop directive (omp do, omp parallel do, acc loop without `seq`) that increments shared DoFs is a
single-colour loop. -/
theorem C23_invariant_general (T : Tables) (hT : ∀ a, Spec.incrementing a = true → T.incAcc a = true)
    (s0 s : Forest) (h : List Step) (hok : ∀ st ∈ h, st.seqOk = true) (h0 : inv T false s0 = true)
    (hr : run T s0 h = some s) : Safe1 s :=
  safe1_of_inv hT (run_inv h s0 s hok h0 hr)

/-- **Invariant (clause 1) for the live tables**, from any freshly built schedule. -/
theorem C23_invariant (s0 s : Forest) (h : List Step) (hok : ∀ st ∈ h, st.seqOk = true) (h0 : noDirs s0 = true)
    (hr : run Gen.tables s0 h = some s) : Safe1 s :=
  C23_invariant_general Gen.tables C23_tables_inc s0 s h hok (inv_of_noDirs h0) hr

/-- The same for scripts that catch refusals and carry on (refused steps leave the schedule unchanged). -/
theorem C23_invariant_skip (s0 : Forest) (h : List Step) (hok : ∀ st ∈ h, st.seqOk = true) (h0 : noDirs s0 = true) :
    Safe1 (runSkip Gen.tables s0 h).1 :=
  safe1_of_inv C23_tables_inc (runSkip_inv h s0 hok (inv_of_noDirs h0))

/-- **Clause 2**: whatever the history and options, a state that passes (the modelled part of) generation has no loop
over colours inside an OpenMP parallel region. -/
theorem C23_generated (T : Tables) (s : Forest) (hg : genOK T s = true) : Safe2 s := by
  simp only [genOK, Bool.and_eq_true] at hg
  exact hg.1

/-- The statement holds for the live code for all histories and all option values satisfying the side condition. -/
theorem C23_holds_partial : C23_statement_partial Gen.tables := by
  intro s0 s h h0 hok hr
  exact ⟨C23_invariant s0 s h hok h0 hr, fun hg => ⟨C23_invariant s0 s h hok h0 hr, C23_generated _ s hg⟩⟩

/-- one loop over cells, kernel with `gh_inc` on w0 (id 5) and `gh_read` on w3 (id 0) -/
def exInc : Forest := loop ltCells false (kern true [(4, 5), (1, 0)] nil) nil
/-- the same with `gh_readinc` -/
def exReadInc : Forest := loop ltCells false (kern true [(5, 5), (1, 0)] nil) nil
/-- a discontinuous kernel -/
def exDisc : Forest := loop ltCells true (kern true [(3, 0), (1, 5)] nil) nil

/-- **Known finding C23-sequential-generic-omp**: the full statement is false of the (faithful) model, because the
generic `OMPLoopTrans`/`OMPParallelLoopTrans` honour options["sequential"] (inherited `ParallelLoopTrans.validate`
skips the colours check and the dependence analysis) although the directive they emit is parallel.  Witness: the
uncoloured READINC loop, generic OMPLoopTrans with sequential=True, then a parallel region: accepted, passes the modelled
generation checks, not Safe. -/
theorem C23_fails_sequential_generic_omp : ¬ C23_statement Gen.tables := by
  intro h
  have := (h exReadInc (dir dOmpParallel (dir dOmpDo exReadInc nil) nil)
    [.parLoop .genOmpDo { sequential := true } 0, .region .ompParallel {} [0]] (by decide) (by decide)).1
  revert this
  decide

/-- **Refusal is complete**: a loop that is not a single-colour loop and for which `has_inc_arg` holds is refused by
the LFRic-specific transformations whatever the options, and by ACCLoopTrans and the generic transformations unless
"sequential" is given. -/
theorem C23_refusal_complete (T : Tables) (t : LoopTrans) (o : LoopOpts) (c : Ctx) (ty : LoopType) (fd : Bool)
    (b nx : Forest) (ht : t.isDynamo = true ∨ o.sequential = false)
    (hty : ty ≠ ltColour) (hinc : hasInc T b = true) : parLoopG T t o c (loop ty fd b nx) = none := by
  cases hp : parLoopG T t o c (loop ty fd b nx) with
  | none => rfl
  | some f' =>
    obtain ⟨ty', fd', b', nx', heq, -, hd, hu, -⟩ := parLoopG_some hp
    cases heq
    have : ty = ltColour ∨ hasInc T b = false := by
      rcases ht with ht | ht
      · exact hd ht
      · cases t with
        | ompParallelDo => exact hd rfl
        | ompDo => exact hd rfl
        | accLoop => exact hu rfl ht
        | genOmpDo => exact hu rfl ht
        | genOmpParallelDo => exact hu rfl ht
    rcases this with h | h
    · exact absurd h hty
    · simp [hinc] at h

/-- With "sequential" ACCLoopTrans accepts such a loop, but the directive it emits carries `seq`, which is not a
parallel loop directive; without "sequential" every directive emitted is parallel (whatever gang/vector say). -/
theorem C23_sequential_acc_is_serial (o : LoopOpts) :
    isParLoopDir (LoopTrans.emitted .accLoop o) = !o.sequential := by
  cases hs : o.sequential <;> simp [LoopTrans.emitted, hs, LoopTrans.dirKind, dAccLoop, dAccLoopSeq, isParLoopDir]

/-- A loop over colours is never given a loop directive unless "sequential" is passed. -/
theorem C23_colours_never_parallel (T : Tables) (t : LoopTrans) (o : LoopOpts) (c : Ctx) (fd : Bool) (b nx : Forest)
    (hs : o.sequential = false) : parLoopG T t o c (loop ltColours fd b nx) = none := by
  cases hp : parLoopG T t o c (loop ltColours fd b nx) with
  | none => rfl
  | some f' =>
    obtain ⟨ty', fd', b', nx', heq, -, -, -, h, -⟩ := parLoopG_some hp
    cases heq
    exact absurd rfl (h hs)

/-- Colouring is refused inside any OpenMP directive, so the colouring transformation itself never creates a loop
over colours inside an OpenMP region. -/
theorem C23_no_colouring_in_omp (c : Ctx) (f : Forest) (h : c.inOmp = true) : colourG c f = none := by
  cases hp : colourG c f with
  | none => rfl
  | some f' =>
    obtain ⟨fd, b, nx, -, -, h2, -⟩ := colourG_some hp
    simp [h] at h2

/-- Transformations never change which kernels (with which accesses) a schedule contains, as far as
`has_inc_arg` can see. -/
theorem C23_step_keeps_inc (T : Tables) (s s' : Forest) (st : Step) (h : step T s st = some s') :
    hasInc T s' = hasInc T s := by
  cases st with
  | colour i => exact atIdx_hasInc (keepsInc_colourG T) s i Ctx.top s' h
  | parLoop t o i => exact atIdx_hasInc (keepsInc_parLoopG T t o) s i Ctx.top s' h
  | region t o tg =>
    cases tg with
    | nil => simp [step] at h
    | cons i0 rest => exact atIdx_hasInc (keepsInc_regionG T t o i0 _) s i0 Ctx.top s' h

/-! ## Non-vacuity and sanity evaluations -/

-- hypotheses of C23_invariant / C23_holds_partial are satisfiable by a non-trivial accepted history: colour, then
-- parallelise the colour loop (node 1); the result is Safe and passes generation
example : noDirs exInc = true := by decide
example : ∀ st ∈ [Step.colour 0, .parLoop .ompParallelDo {} 1], st.seqOk = true := by decide
example : ∃ s, run Gen.tables exInc [.colour 0, .parLoop .ompParallelDo {} 1] = some s ∧ Safe s ∧ genOK Gen.tables s = true :=
  ⟨loop ltColours false (dir dOmpParallelDo (loop ltColour false (kern true [(4, 5), (1, 0)] nil) nil) nil) nil,
   by decide, by decide, by decide⟩
-- colour, omp do on the colour loop, parallel region around the omp do *inside* the colours loop
example : ∃ s, run Gen.tables exReadInc [.colour 0, .parLoop .ompDo {} 1, .region .ompParallel {} [1]] = some s ∧
    Safe s ∧ genOK Gen.tables s = true :=
  ⟨loop ltColours false (dir dOmpParallel (dir dOmpDo (loop ltColour false (kern true [(5, 5), (1, 0)] nil) nil) nil) nil) nil,
   by decide, by decide, by decide⟩
-- parallelising the uncoloured INC / READINC loop is refused by all five transformations (default options) ...
example : step Gen.tables exInc (.parLoop .ompParallelDo {} 0) = none := by decide
example : step Gen.tables exReadInc (.parLoop .ompParallelDo {} 0) = none := by decide
example : step Gen.tables exReadInc (.parLoop .ompDo {} 0) = none := by decide
example : step Gen.tables exReadInc (.parLoop .accLoop {} 0) = none := by decide
example : step Gen.tables exReadInc (.parLoop .genOmpDo {} 0) = none := by decide
example : step Gen.tables exInc (.parLoop .genOmpParallelDo {} 0) = none := by decide
-- ... by ACCLoopTrans also with gang/vector, and by the LFRic-specific ones even with "sequential"
example : step Gen.tables exReadInc (.parLoop .accLoop { gang := true, vector := true } 0) = none := by decide
example : step Gen.tables exReadInc (.parLoop .ompDo { sequential := true } 0) = none := by decide
example : step Gen.tables exInc (.parLoop .ompParallelDo { sequential := true } 0) = none := by decide
-- ACCLoopTrans with sequential (even together with gang/vector) is accepted and emits the serial `acc loop seq`: Safe
example : step Gen.tables exReadInc (.parLoop .accLoop { sequential := true, vector := true } 0) =
    some (dir dAccLoopSeq exReadInc nil) := by decide
example : Safe (dir dAccLoopSeq exReadInc nil) := by decide
-- had the directive been emitted as a parallel `acc loop` the state would not be Safe (seeded mutation C23-2)
example : ¬ Safe (dir dAccLoop exReadInc nil) := by decide
-- collapse: refused on a single loop, accepted on the colours/colour nest when "sequential"
example : step Gen.tables exDisc (.parLoop .accLoop { collapse := 2 } 0) = none := by decide
-- hypotheses of C23_refusal_complete are satisfiable
example : ltCells ≠ ltColour ∧ hasInc Gen.tables (kern true [(5, 5), (1, 0)] nil) = true := by decide
-- a discontinuous loop is parallelised without colouring and cannot be coloured
example : (step Gen.tables exDisc (.parLoop .ompParallelDo {} 0)).isSome = true := by decide
example : step Gen.tables exDisc (.colour 0) = none := by decide
-- clause 2 is not vacuous: a parallel region around the loop over colours is accepted by the transformation
-- but refused by generation; and Safe2 fails there
example : ∃ s, run Gen.tables exInc [.colour 0, .region .ompParallel {} [0]] = some s ∧ genOK Gen.tables s = false ∧ ¬ Safe2 s :=
  ⟨dir dOmpParallel (loop ltColours false (loop ltColour false (kern true [(4, 5), (1, 0)] nil) nil) nil) nil,
   by decide, by decide, by decide⟩
-- colouring inside an OpenMP region is refused (gh_write kernel on w0: parallel do accepted, then colour refused)
example : run Gen.tables (loop ltCells false (kern true [(2, 5)] nil) nil) [.parLoop .ompParallelDo {} 0, .colour 1] = none := by
  decide
-- the unfixed table (INC only) makes even the partial statement false: witness for the (repaired) READINC defect
def unfixedTables : Tables := { incAcc := fun a => a == 4, incrementedAcc := fun a => a == 4, redAcc := fun a => a == 6 }
theorem C23_unfixed_counterexample : ¬ C23_statement_partial unfixedTables := by
  intro h
  have := (h exReadInc (dir dOmpParallelDo exReadInc nil) [.parLoop .ompParallelDo {} 0] (by decide) (by decide)
    (by decide)).1
  revert this
  decide

end C23
