import PsyVerif.Lemmas.DeclsPos
import PsyVerif.Lemmas.DeclsMerge
import PsyVerif.Lemmas.DeclsSort
/-! # C04 — Generated code declares every entity it uses, in a valid order

Model: `PsyVerif/Model/Decls.lean` (`orderParams` = `_gen_parameter_decls`, `genDecls` = `gen_decls`,
`writeUnit` = `routine_node`/`container_node` for one scoping unit, `mergeScopes` = the merging of
inner-scope symbol tables with `_handle_symbol_clash`).  Quantification: every symbol table (any number
of symbols, any dependencies, any argument list), every list of inner scopes.

What is proved
* `_gen_parameter_decls`: every constant exactly once (`C04_orderParams_perm`), each after the
  constants it depends on (`C04_orderParams_respects_deps`), it raises exactly when no admissible order
  exists (`C04_orderParams_fails_only_on_cycle`), an already valid listing is kept
  (`C04_orderParams_sorted_id`) — for all dependency graphs.
* `gen_decls`: every declarable symbol is declared exactly once (`C04_decls_unique`); every symbol of
  the table is declared, imported by a `use`, covered by a wildcard import or needs no declaration
  (`C04_decls_cover_uses`).
* declaration order: the full statement `C04_statement` (a table whose own order is a valid
  declaration order is written in a valid order) is FALSE of the pinned code —
  `C04_order_counterexample` (a constant whose initial value inquires about a variable, as in LFRic's
  `constants_mod.f90`).  `C04_order_valid_iff`: the written order is valid IF AND ONLY IF the decidable
  condition `LaterFree` holds — no declaration reads a symbol that `gen_decls` places in a later group
  (interfaces < constants < arguments < derived types < the rest) or later within its own group
  (constants: the order computed by `_gen_parameter_decls`; other groups: table order).  The four known
  findings are exactly the complement of `LaterFree`.  `C04_order_partial` / `C04_groupMonotone_laterFree`:
  `GroupMonotone`, a sufficient condition that does not mention the computed order of the constants.
* scope merging (`routine_node`, and `SymbolTable.merge` as used by InlineTrans):
  `C04_merge_rename_no_capture` — names stay distinct (every written name denotes the object it was
  written for), objects keep identity and kind, only renamable symbols whose name does not occur
  (case-insensitively) in a CodeBlock of their scope are renamed, new names never hide a host name;
  `C04_codeblock_names_not_captured`; `C04_merge_complete` / `C04_merge_table_complete` — every input
  symbol survives the merge (possibly renamed), or is an imported / unresolved duplicate dropped in
  favour of an entry of the same name and kind; `C04_merge_table_no_capture`.

Not modelled: the text of a declaration (only which names it reads), references in executable
statements (the PSyIR refers to symbol objects; after merging, distinct names make the text
unambiguous), `check_for_clashes`' extra refusals (a refusal writes nothing). -/
namespace C04
open Decls

/-! ## definitions used by the statements -/

/-- in the written order every declaration comes after the declarations it reads -/
def DepsOrdered (ds : List Sym) : Prop :=
  ∀ s ∈ ds, ∀ d ∈ s.deps, d ∈ names ds → (names ds).idxOf d < (names ds).idxOf s.name

instance (ds : List Sym) : Decidable (DepsOrdered ds) := by unfold DepsOrdered; infer_instance

/-- requirement on two symbols of the same `gen_decls` group -/
def withinOk (u : Decls.Unit) (s : Sym) (d : Name) : Prop :=
  if s.cls = .param then d ∈ s.ideps
  else (names u.syms).idxOf d < (names u.syms).idxOf s.name

instance (u : Decls.Unit) (s : Sym) (d : Name) : Decidable (withinOk u s d) := by unfold withinOk; infer_instance

/-- side condition of the partial theorem: no declaration reads a symbol of a later group -/
def GroupMonotone (u : Decls.Unit) : Prop :=
  ∀ s ∈ u.syms, s.cls.declarable = true → ∀ d ∈ s.deps, ∀ t ∈ u.syms, t.name = d → t.cls.declarable = true →
    t.cls.group < s.cls.group ∨ (t.cls = s.cls ∧ withinOk u s d)

instance (u : Decls.Unit) : Decidable (GroupMonotone u) := by unfold GroupMonotone; infer_instance

/-- how a symbol of the table is made known to the compiler by the written unit -/
def Covered (u : Decls.Unit) (items : List Item) (s : Sym) : Prop :=
  match s.cls with
  | .container w => ∃ only, Item.use s.name w only ∈ items
  | .imported c => ∃ w only, Item.use c w only ∈ items ∧ s.name ∈ only
  | .unresolved => hasWildcard u = true
  | .skipped => True
  | .routineBad => False
  | _ => Item.decl (normVis u.isModule s) ∈ items

/-- every imported symbol's container is in the table -/
def ImportsClosed (u : Decls.Unit) : Prop :=
  ∀ s ∈ u.syms, ∀ c, s.cls = .imported c → ∃ t ∈ u.syms, t.name = c ∧ isContainer t = true

theorem same_group_same_cls {a b : Cls} (ha : a.declarable = true) (hb : b.declarable = true)
    (h : a.group = b.group) : a = b := by
  rcases declarable_cases ha with rfl | rfl | rfl | rfl | rfl <;>
    rcases declarable_cases hb with rfl | rfl | rfl | rfl | rfl <;> simp [Cls.group] at h <;> rfl

/-! ## The property -/

/-- `_gen_parameter_decls` emits every constant exactly once. -/
theorem C04_orderParams_perm (g : PGraph) (hnd : (pkeys g).Nodup) (out : List Name)
    (h : orderParams g = some out) : out.Perm (pkeys g) :=
  orderAux_perm _ _ _ _ hnd h

/-- `_gen_parameter_decls` emits each constant after all local constants it depends on. -/
theorem C04_orderParams_respects_deps (g : PGraph) (hnd : (pkeys g).Nodup) (out : List Name)
    (h : orderParams g = some out) : ∀ m ds d, (m, ds) ∈ g → d ∈ ds → Before out d m := by
  intro m ds d hm hd
  rcases orderAux_respects _ _ _ _ hnd h m ds d hm hd with h1 | h1
  · simp at h1
  · exact h1

/-- `_gen_parameter_decls` raises iff no admissible order exists (a dependency cycle). -/
theorem C04_orderParams_fails_only_on_cycle (g : PGraph) (hnd : (pkeys g).Nodup) :
    orderParams g = none ↔ ¬ ∃ σ, Admissible [] g σ := by
  constructor
  · intro h; exact orderAux_none _ _ _ hnd (Nat.le_refl _) h
  · intro h
    cases ho : orderParams g with
    | none => rfl
    | some out =>
      exfalso; apply h
      exact ⟨out, C04_orderParams_perm g hnd out ho, fun m ds d hm hd =>
        Or.inr (C04_orderParams_respects_deps g hnd out ho m ds d hm hd)⟩

/-- a graph listed in an order that already satisfies its dependencies is written in that order
(used by C03: the second write reproduces the first) -/
theorem C04_orderParams_sorted_id (g : PGraph) (hnd : (pkeys g).Nodup)
    (hs : ∀ pre e post, g = pre ++ e :: post → ∀ d ∈ e.2, d ∈ pkeys pre) :
    orderParams g = some (pkeys g) :=
  orderAux_sorted_id _ _ _ hnd (Nat.le_refl _) (fun pre e post hg d hd => Or.inr (hs pre e post hg d hd))

/-- every declarable symbol is declared exactly once, under distinct names -/
theorem C04_decls_unique (u : Decls.Unit) (w : Wf u) (ds : List Sym) (h : genDecls u = .ok ds) :
    (names ds).Nodup ∧ ds.Perm (u.syms.filter (fun s => s.cls.declarable)) :=
  ⟨genDecls_names_nodup w h, genDecls_perm w h⟩

theorem writeUnit_ok {u : Decls.Unit} {items : List Item} (h : writeUnit u = .ok items) :
    ∃ ds, genDecls u = .ok ds ∧ items = genUses u.syms ++ ds.map (fun s => .decl (normVis u.isModule s))
      ++ (if u.isModule then .defaultAccess u.defPrivate :: genAccess u else [])
      ++ u.body.map .stmt ++ (if u.isModule then u.routines.map .routineDef else []) := by
  unfold writeUnit writeWith at h
  split at h
  · cases h
  · rename_i ds hd; cases h; exact ⟨ds, hd, rfl⟩

/-- every symbol of the table is declared, imported through a `use`, reachable through a wildcard
import, or needs no declaration -/
theorem C04_decls_cover_uses (u : Decls.Unit) (w : Wf u) (hc : ImportsClosed u) (items : List Item)
    (h : writeUnit u = .ok items) : ∀ s ∈ u.syms, Covered u items s := by
  obtain ⟨ds, hd, rfl⟩ := writeUnit_ok h
  obtain ⟨_, _, _, hw, hb, _⟩ := genDecls_ok hd
  have hperm := genDecls_perm w hd
  intro s hs
  have hdecl : s.cls.declarable = true → Item.decl (normVis u.isModule s) ∈
      genUses u.syms ++ ds.map (fun s => .decl (normVis u.isModule s))
      ++ (if u.isModule then .defaultAccess u.defPrivate :: genAccess u else [])
      ++ u.body.map .stmt ++ (if u.isModule then u.routines.map .routineDef else []) := by
    intro hdc
    have : s ∈ ds := hperm.symm.subset (List.mem_filter.mpr ⟨hs, by simpa using hdc⟩)
    simp only [List.mem_append, List.mem_map]
    left; left; left; right
    exact ⟨s, this, rfl⟩
  have huse : ∀ t ∈ u.syms, isContainer t = true → Item.use t.name (containerWild t)
      (isort (names (u.syms.filter fun s => s.cls == .imported t.name))) ∈
      genUses u.syms ++ ds.map (fun s => .decl (normVis u.isModule s))
      ++ (if u.isModule then .defaultAccess u.defPrivate :: genAccess u else [])
      ++ u.body.map .stmt ++ (if u.isModule then u.routines.map .routineDef else []) := by
    intro t ht htc
    simp only [List.mem_append]
    left; left; left; left
    unfold genUses
    exact List.mem_map.mpr ⟨t, List.mem_filter.mpr ⟨ht, htc⟩, rfl⟩
  unfold Covered
  cases hcl : s.cls with
  | container wd =>
    have := huse s hs (by simp [isContainer, hcl])
    exact ⟨_, by simpa [containerWild, hcl] using this⟩
  | imported c =>
    obtain ⟨t, ht, htn, htc⟩ := hc s hs c hcl
    refine ⟨containerWild t, _, by rw [← htn]; exact huse t ht htc, ?_⟩
    rw [mem_isort]
    exact List.mem_map.mpr ⟨s, List.mem_filter.mpr ⟨hs, by simp [hcl, htn]⟩, rfl⟩
  | skipped => trivial
  | unresolved => exact hw ⟨s, hs, hcl⟩
  | routineBad => exact hb s hs hcl
  | iface => exact hdecl (by simp [hcl, Cls.declarable])
  | param => exact hdecl (by simp [hcl, Cls.declarable])
  | arg => exact hdecl (by simp [hcl, Cls.declarable])
  | dtype => exact hdecl (by simp [hcl, Cls.declarable])
  | other => exact hdecl (by simp [hcl, Cls.declarable])

/-- The full ordering statement: whenever the table's own order is a valid declaration order (as it
is for a table read from valid source), the written declarations are in a valid order. -/
def C04_statement : Prop :=
  ∀ u : Decls.Unit, Wf u → DepsOrdered (u.syms.filter (fun s => s.cls.declarable)) →
    ∀ ds, genDecls u = .ok ds → DepsOrdered ds

/-- `real :: v;  integer, parameter :: p = kind(v)` — shape of LFRic's constants_mod.f90 -/
def cexOrder : Decls.Unit :=
  { syms := [{ name := 1, cls := .other }, { name := 2, cls := .param, ideps := [1] }] }

/-- The pinned `gen_decls` writes the constant before the variable it inquires about. -/
theorem C04_order_counterexample : ¬ C04_statement := by
  intro h
  have := h cexOrder (by decide) (by decide) _ (by decide : genDecls cexOrder = .ok
    [{ name := 2, cls := .param, ideps := [1] }, { name := 1, cls := .other }])
  revert this; decide

/-- Under `GroupMonotone` the written declarations are in a valid order. -/
theorem C04_order_partial (u : Decls.Unit) (w : Wf u) (hg : GroupMonotone u) (ds : List Sym)
    (h : genDecls u = .ok ds) : DepsOrdered ds := by
  obtain ⟨order, ho, hds, _, _, _⟩ := genDecls_ok h
  have hperm := genDecls_perm w h
  intro s hs d hd hdn
  have hs' := List.mem_filter.mp (hperm.subset hs)
  obtain ⟨t, ht, htn⟩ := List.mem_map.mp hdn
  have ht' := List.mem_filter.mp (hperm.subset ht)
  have hsd : s.cls.declarable = true := by simpa using hs'.2
  have htd : t.cls.declarable = true := by simpa using ht'.2
  rw [hds, names_genDecls w ho]
  obtain ⟨ps, ps2⟩ := pos_eq w ho hs'.1 hsd
  obtain ⟨pt, pt2⟩ := pos_eq w ho ht'.1 htd
  rw [← htn, ps, pt]
  rcases hg s hs'.1 hsd d hd t ht'.1 htn htd with hlt | ⟨hc, hw⟩
  · have := offset_mono u order htd hsd hlt; omega
  · rw [hc]
    suffices (seg u order s.cls).idxOf t.name < (seg u order s.cls).idxOf s.name by omega
    unfold withinOk at hw
    split at hw
    · -- constants: the order computed by `_gen_parameter_decls`
      rename_i hp
      rw [hp]; show order.idxOf t.name < order.idxOf s.name
      have hnd := names_filter_nodup w.nodup isParam
      have hsP : s ∈ u.syms.filter isParam := List.mem_filter.mpr ⟨hs'.1, by simp [isParam, hp]⟩
      have htP : t ∈ u.syms.filter isParam := List.mem_filter.mpr ⟨ht'.1, by simp [isParam, hc, hp]⟩
      have hmem : (s.name, s.ideps.filter fun d => (names (u.syms.filter isParam)).contains d) ∈ paramGraph u.syms :=
        List.mem_map.mpr ⟨s, hsP, rfl⟩
      have hin : t.name ∈ s.ideps.filter fun d => (names (u.syms.filter isParam)).contains d := by
        refine List.mem_filter.mpr ⟨by rw [htn]; exact hw, ?_⟩
        simp only [List.contains_iff_mem]
        exact List.mem_map.mpr ⟨t, htP, rfl⟩
      exact (C04_orderParams_respects_deps _ (by rw [pkeys_paramGraph]; exact hnd) order ho _ _ _ hmem hin).2
    · rename_i hnp
      have hseg : seg u order s.cls = names (ofCls u.syms s.cls) := by
        rcases declarable_cases hsd with h | h | h | h | h <;> simp_all [seg]
      rw [hseg]
      refine idxOf_filter_mono w.nodup _ ht'.1 hs'.1 (by simp [hc]) (by simp) ?_
      rw [htn]; exact hw

/-- `d` is placed before `s` inside their common `gen_decls` group: constants in the order computed
by `_gen_parameter_decls`, every other group in symbol-table order -/
def withinBefore (u : Decls.Unit) (s : Sym) (d : Name) : Prop :=
  if s.cls = .param then
    match orderParams (paramGraph u.syms) with
    | some order => order.idxOf d < order.idxOf s.name
    | none => True
  else (names u.syms).idxOf d < (names u.syms).idxOf s.name

instance (u : Decls.Unit) (s : Sym) (d : Name) : Decidable (withinBefore u s d) := by
  unfold withinBefore
  split
  · split <;> infer_instance
  · infer_instance

/-- the weakest condition: no declaration reads a symbol that `gen_decls` places in a later group, or
later (or at the same place) within its own group.  Decidable. -/
def LaterFree (u : Decls.Unit) : Prop :=
  ∀ s ∈ u.syms, s.cls.declarable = true → ∀ d ∈ s.deps, ∀ t ∈ u.syms, t.name = d → t.cls.declarable = true →
    t.cls.group < s.cls.group ∨ (t.cls = s.cls ∧ withinBefore u s d)

instance (u : Decls.Unit) : Decidable (LaterFree u) := by unfold LaterFree; infer_instance

/-- **The written declaration order is valid exactly when no declaration reads a symbol that
`gen_decls` places later**: the four known findings (constant reads a variable / unsupported-type
constant, interface reads a later entity, argument of a local type, untracked constant-to-constant
dependency placed later) are precisely the complement of `LaterFree`. -/
theorem C04_order_valid_iff (u : Decls.Unit) (w : Wf u) (ds : List Sym) (h : genDecls u = .ok ds) :
    DepsOrdered ds ↔ LaterFree u := by
  obtain ⟨order, ho, hds, _, _, _⟩ := genDecls_ok h
  have hperm := genDecls_perm w h
  have hsegeq : ∀ c : Cls, c.declarable = true → c ≠ .param → seg u order c = names (ofCls u.syms c) := by
    intro c hc hne
    rcases declarable_cases hc with h | h | h | h | h <;> simp_all [seg]
  constructor
  · -- valid order ⇒ nothing is read from a later place
    intro hord s hs hsd d hd t ht htn htd
    have hsds : s ∈ ds := hperm.symm.subset (List.mem_filter.mpr ⟨hs, by simpa using hsd⟩)
    have htds : t ∈ ds := hperm.symm.subset (List.mem_filter.mpr ⟨ht, by simpa using htd⟩)
    have hlt := hord s hsds d hd (by rw [← htn]; exact List.mem_map.mpr ⟨t, htds, rfl⟩)
    rw [hds, names_genDecls w ho] at hlt
    obtain ⟨ps, ps2⟩ := pos_eq w ho hs hsd
    obtain ⟨pt, pt2⟩ := pos_eq w ho ht htd
    rw [← htn, ps, pt] at hlt
    rcases Nat.lt_trichotomy t.cls.group s.cls.group with hg | hg | hg
    · left; exact hg
    · right
      have hc : t.cls = s.cls := same_group_same_cls htd hsd hg
      refine ⟨hc, ?_⟩
      rw [hc] at hlt pt2
      have hin : (seg u order s.cls).idxOf t.name < (seg u order s.cls).idxOf s.name := by omega
      unfold withinBefore
      split
      · rename_i hp
        rw [ho]
        simp only
        rw [hp] at hin
        rw [← htn]; exact hin
      · rename_i hnp
        rw [hsegeq s.cls hsd hnp] at hin
        -- order inside a filtered list reflects the order in the table
        rw [← htn]
        rcases Nat.lt_trichotomy ((names u.syms).idxOf t.name) ((names u.syms).idxOf s.name) with h1 | h1 | h1
        · exact h1
        · exfalso
          have hmem : t.name ∈ names u.syms := List.mem_map.mpr ⟨t, ht, rfl⟩
          have : t.name = s.name := by
            have e1 := List.getElem_idxOf (List.idxOf_lt_length_iff.mpr hmem)
            have hmem2 : s.name ∈ names u.syms := List.mem_map.mpr ⟨s, hs, rfl⟩
            have e2 := List.getElem_idxOf (List.idxOf_lt_length_iff.mpr hmem2)
            rw [← e1, ← e2]; congr 1
          rw [this] at hin; omega
        · exfalso
          have := idxOf_filter_mono w.nodup (fun x => x.cls == s.cls) hs ht (by simp) (by simp [hc]) h1
          unfold ofCls at hin
          omega
    · exfalso
      have := offset_mono u order hsd htd hg
      omega
  · -- nothing read from a later place ⇒ valid order
    intro hg s hs d hd hdn
    have hs' := List.mem_filter.mp (hperm.subset hs)
    obtain ⟨t, ht, htn⟩ := List.mem_map.mp hdn
    have ht' := List.mem_filter.mp (hperm.subset ht)
    have hsd : s.cls.declarable = true := by simpa using hs'.2
    have htd : t.cls.declarable = true := by simpa using ht'.2
    rw [hds, names_genDecls w ho]
    obtain ⟨ps, ps2⟩ := pos_eq w ho hs'.1 hsd
    obtain ⟨pt, pt2⟩ := pos_eq w ho ht'.1 htd
    rw [← htn, ps, pt]
    rcases hg s hs'.1 hsd d hd t ht'.1 htn htd with hlt | ⟨hc, hw⟩
    · have := offset_mono u order htd hsd hlt; omega
    · rw [hc]
      suffices (seg u order s.cls).idxOf t.name < (seg u order s.cls).idxOf s.name by omega
      unfold withinBefore at hw
      split at hw
      · rename_i hp
        rw [ho] at hw
        simp only at hw
        rw [hp]; show order.idxOf t.name < order.idxOf s.name
        rw [htn]; exact hw
      · rename_i hnp
        rw [hsegeq s.cls hsd hnp]
        refine idxOf_filter_mono w.nodup _ ht'.1 hs'.1 (by simp [hc]) (by simp) ?_
        rw [htn]; exact hw

/-- `GroupMonotone` (a condition that does not mention the computed order of the constants) implies
the weakest condition. -/
theorem C04_groupMonotone_laterFree (u : Decls.Unit) (w : Wf u) (hg : GroupMonotone u) (ds : List Sym)
    (h : genDecls u = .ok ds) : LaterFree u :=
  (C04_order_valid_iff u w ds h).mp (C04_order_partial u w hg ds h)

/-- After the inner scopes have been merged into the routine scope (or a callee's table into the
caller's, as `InlineTrans` does): all names are distinct, so every written name denotes (in the
merged, single scope) the symbol object it was written for; every entry is one of the original objects
with its kind unchanged; it keeps its name unless it is renamable AND its name does not occur —
compared after `norm` (lower-casing) — in a CodeBlock of its own scope; a new name never hides a name
of the host scope.  `CbSub`: the CodeBlocks of the merged-in scopes lie below the receiving node. -/
theorem C04_merge_rename_no_capture {N : Type} [DecidableEq N] (fresh : List N → N → N)
    (hfresh : ∀ ex root, fresh ex root ∉ ex) (norm : N → N) (outer cbSelf : List N) (self : List (MSym N))
    (inner : List (List (MSym N))) (r : List (MSym N)) (hnd : (mnames self).Nodup)
    (hs1 : CbSub cbSelf self) (hs2 : CbSub cbSelf inner.flatten)
    (h : mergeScopes fresh norm outer cbSelf self inner = some r) :
    (mnames r).Nodup ∧ (∀ s' ∈ r, resolve r s'.name = some s'.id) ∧
      (∀ s' ∈ r, ∃ x ∈ self ++ inner.flatten, Prov norm outer x s') := by
  obtain ⟨h1, h2⟩ := mergeScopes_spec fresh hfresh norm inner self r hnd hs1 hs2 h
  exact ⟨h1, fun s' hs' => resolve_of_nodup h1 hs', h2⟩

/-- A name that occurs in a CodeBlock keeps denoting the same object: a symbol whose name occurs
(case-insensitively) in a CodeBlock of its scope is written under its original name, and that name
denotes it in the merged scope. -/
theorem C04_codeblock_names_not_captured {N : Type} [DecidableEq N] (fresh : List N → N → N)
    (hfresh : ∀ ex root, fresh ex root ∉ ex) (norm : N → N) (outer cbSelf : List N) (self : List (MSym N))
    (inner : List (List (MSym N))) (r : List (MSym N)) (hnd : (mnames self).Nodup)
    (hs1 : CbSub cbSelf self) (hs2 : CbSub cbSelf inner.flatten)
    (h : mergeScopes fresh norm outer cbSelf self inner = some r) :
    ∀ s' ∈ r, ∃ x ∈ self ++ inner.flatten, x.id = s'.id ∧
      (mentioned norm x.cb x.name → s'.name = x.name ∧ resolve r x.name = some x.id) := by
  obtain ⟨h1, h2, h3⟩ := C04_merge_rename_no_capture fresh hfresh norm outer cbSelf self inner r hnd hs1 hs2 h
  intro s' hs'
  obtain ⟨x, hx, hid, _, _, hn⟩ := h3 s' hs'
  refine ⟨x, hx, hid, fun hm => ?_⟩
  rcases hn with hn | ⟨_, hnm, _⟩
  · exact ⟨hn, by rw [← hn, hid]; exact h2 s' hs'⟩
  · exact absurd hm hnm

/-- **Merge completeness**: every symbol of the routine table survives the merge as an entry with a
provenance (same object, same kind, possibly renamed); every symbol of an inner scope survives likewise,
or is an imported / unresolved duplicate dropped in favour of an entry of the same name and kind that
denotes the same entity. -/
theorem C04_merge_complete {N : Type} [DecidableEq N] (fresh : List N → N → N)
    (hfresh : ∀ ex root, fresh ex root ∉ ex) (norm : N → N) (outer cbSelf : List N) (self : List (MSym N))
    (inner : List (List (MSym N))) (r : List (MSym N)) (hnd : (mnames self).Nodup)
    (hs1 : CbSub cbSelf self) (hs2 : CbSub cbSelf inner.flatten)
    (h : mergeScopes fresh norm outer cbSelf self inner = some r) :
    (∀ x ∈ self, ∃ s' ∈ r, Prov norm outer x s') ∧ ∀ x ∈ inner.flatten, Survives norm outer r x :=
  mergeScopes_complete fresh hfresh norm inner self r hnd hs1 hs2 h

/-- completeness of a single `merge` (InlineTrans) -/
theorem C04_merge_table_complete {N : Type} [DecidableEq N] (fresh : List N → N → N)
    (hfresh : ∀ ex root, fresh ex root ∉ ex) (norm : N → N) (outer cbSelf : List N)
    (self other r : List (MSym N)) (hnd : (mnames self).Nodup) (hs1 : CbSub cbSelf self)
    (hs2 : CbSub cbSelf other) (h : mergeTable fresh norm outer cbSelf self other = some r) :
    ∀ x ∈ self ++ other, Survives norm outer r x :=
  mergeTable_complete fresh hfresh norm hnd hs1 hs2 h

/-- `SymbolTable.merge` as used by `InlineTrans` (one table into another): same guarantees. -/
theorem C04_merge_table_no_capture {N : Type} [DecidableEq N] (fresh : List N → N → N)
    (hfresh : ∀ ex root, fresh ex root ∉ ex) (norm : N → N) (outer cbSelf : List N)
    (self other r : List (MSym N)) (hnd : (mnames self).Nodup) (hs1 : CbSub cbSelf self)
    (hs2 : CbSub cbSelf other) (h : mergeTable fresh norm outer cbSelf self other = some r) :
    (mnames r).Nodup ∧ ∀ s' ∈ r, ∃ x ∈ self ++ other, Prov norm outer x s' :=
  mergeTable_spec fresh hfresh norm hnd hs1 hs2 h

/-! ## non-vacuity and sanity evaluations -/

/-- imports, an interface, constants with a dependency chain given in reverse, arguments, a derived
type and locals -/
def uOk : Decls.Unit :=
  { syms := [{ name := 10, cls := .container false }, { name := 11, cls := .imported 10 },
             { name := 5, cls := .other, xdeps := [2, 7] }, { name := 3, cls := .param, ideps := [2, 11] },
             { name := 2, cls := .param, ideps := [1] }, { name := 1, cls := .param },
             { name := 7, cls := .arg }, { name := 6, cls := .arg, xdeps := [7, 1] },
             { name := 8, cls := .dtype, xdeps := [1] }, { name := 9, cls := .other, xdeps := [8] },
             { name := 4, cls := .iface }],
    args := [6, 7] }

example : Wf uOk := by decide
example : GroupMonotone uOk := by decide
example : (genDecls uOk).toOption.map names = some [4, 1, 2, 3, 7, 6, 8, 5, 9] := by decide
example : orderParams [(3, [2]), (2, [1]), (1, [])] = some [1, 2, 3] := by decide
example : orderParams [(1, [2]), (2, [1]), (3, [])] = none := by decide
example : (pkeys [(3, [2]), (2, [1]), (1, ([] : List Name))]).Nodup := by decide
/-- the counterexample table is well-formed and its own order is valid -/
example : Wf cexOrder ∧ DepsOrdered (cexOrder.syms.filter (fun s => s.cls.declarable)) := by decide
example : ¬ GroupMonotone cexOrder := by decide
example : LaterFree uOk ∧ ¬ LaterFree cexOrder := by decide

/-- merging: the routine has `x`(1) and an argument `y`(2); an inner scope has its own `x` and `y` -/
def freshNat (ex : List Nat) (root : Nat) : Nat := ex.foldl max root + 1

theorem freshNat_fresh (ex : List Nat) (root : Nat) : freshNat ex root ∉ ex := by
  have key : ∀ (l : List Nat) (a x : Nat), x ∈ l → x ≤ l.foldl max a := by
    intro l
    induction l with
    | nil => intro a x hx; simp at hx
    | cons b r ih =>
      intro a x hx
      simp only [List.foldl_cons]
      rcases List.mem_cons.mp hx with rfl | hx
      · have mono : ∀ (l : List Nat) (a : Nat), a ≤ l.foldl max a := by
          intro l
          induction l with
          | nil => intro a; exact Nat.le_refl _
          | cons c r ih2 => intro a; simp only [List.foldl_cons]; exact Nat.le_trans (Nat.le_max_left a c) (ih2 _)
        exact Nat.le_trans (Nat.le_max_right a x) (mono r _)
      · exact ih _ x hx
  intro h
  have := key ex root _ h
  unfold freshNat at this; omega

example : mergeScopes freshNat id [50] [] [⟨0, 1, .free, []⟩, ⟨1, 2, .fixed, []⟩]
    [[⟨2, 1, .free, []⟩, ⟨3, 2, .free, []⟩]]
    = some [⟨0, 1, .free, []⟩, ⟨1, 2, .fixed, []⟩, ⟨2, 51, .free, []⟩, ⟨3, 52, .free, []⟩] := by decide

/-- names are (spelling, case) pairs here: `norm` forgets the case.  The caller's local `tmp`(id 0) is
printed by a CodeBlock as `Tmp`; the callee imports a different `tmp`(id 1): the merge is refused … -/
def normPair (n : Nat × Nat) : Nat × Nat := (n.1, 0)
def freshPair (ex : List (Nat × Nat)) (root : Nat × Nat) : Nat × Nat := (freshNat (ex.map Prod.fst) root.1, 0)

example : mergeTable freshPair normPair [] [(7, 1)] [⟨0, (7, 0), .free, [(7, 1)]⟩] [⟨1, (7, 0), .shared, []⟩]
    = none := by decide
/-- … whereas a guard that compares the spellings without normalising them (`norm = id`, the seeded
mutation of `rename_symbol`) renames the local, and `Tmp` in the CodeBlock is captured by the import -/
example : mergeTable freshPair id [] [(7, 1)] [⟨0, (7, 0), .free, [(7, 1)]⟩] [⟨1, (7, 0), .shared, []⟩]
    = some [⟨0, (8, 0), .free, [(7, 1)]⟩, ⟨1, (7, 0), .shared, []⟩] := by decide

end C04
