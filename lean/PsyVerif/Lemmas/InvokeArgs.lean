import PsyVerif.Model.Invoke
/-! Helper lemmas for C24: first-occurrence de-duplication, name allocation, symbol-table invariant. -/
namespace C24

/-! ## `uniq` -/

/-- Reference definition: keep first occurrences. -/
def dedup {α} [DecidableEq α] : List α → List α
  | [] => []
  | x :: xs => x :: (dedup xs).filter (fun y => decide (y ≠ x))

theorem mem_dedup {α} [DecidableEq α] {a : α} : ∀ {l : List α}, a ∈ dedup l ↔ a ∈ l
  | [] => by simp [dedup]
  | x :: xs => by
    have ih := @mem_dedup α _ a xs
    simp only [dedup, List.mem_cons, List.mem_filter, ih, decide_eq_true_eq]
    by_cases h : a = x <;> simp [h]

theorem nodup_dedup {α} [DecidableEq α] : ∀ (l : List α), (dedup l).Nodup
  | [] => by simp [dedup]
  | x :: xs => by
    simp only [dedup, List.nodup_cons, List.mem_filter, decide_eq_true_eq]
    exact ⟨fun h => h.2 rfl, (nodup_dedup xs).filter _⟩

theorem uniqAcc_eq {α} [DecidableEq α] : ∀ (l acc : List α),
    uniqAcc acc l = acc ++ (dedup l).filter (fun y => decide (y ∉ acc))
  | [], acc => by simp [uniqAcc, dedup]
  | x :: xs, acc => by
    simp only [uniqAcc, dedup]
    by_cases hx : x ∈ acc
    · rw [if_pos hx, uniqAcc_eq xs acc]
      congr 1
      rw [List.filter_cons_of_neg (by simpa using hx), List.filter_filter]
      apply List.filter_congr
      intro y _
      by_cases hy : y ∈ acc
      · simp [hy]
      · have : y ≠ x := fun e => hy (e ▸ hx)
        simp [hy, this]
    · rw [if_neg hx, uniqAcc_eq xs (acc ++ [x])]
      rw [List.filter_cons_of_pos (by simpa using hx), List.filter_filter, List.append_assoc]
      congr 1
      simp only [List.singleton_append, List.cons.injEq, true_and]
      apply List.filter_congr
      intro y _
      by_cases hy : y ∈ acc <;> by_cases hyx : y = x <;> simp [hy, hyx]

theorem uniq_eq_dedup {α} [DecidableEq α] (l : List α) : uniq l = dedup l := by
  simp [uniq, uniqAcc_eq]

theorem mem_uniq {α} [DecidableEq α] {a : α} {l : List α} : a ∈ uniq l ↔ a ∈ l := by
  rw [uniq_eq_dedup]; exact mem_dedup

theorem nodup_uniq {α} [DecidableEq α] (l : List α) : (uniq l).Nodup := by
  rw [uniq_eq_dedup]; exact nodup_dedup l

theorem dedup_map {α β} [DecidableEq α] [DecidableEq β] (f : α → β) :
    ∀ (l : List α), (∀ a ∈ l, ∀ b ∈ l, f a = f b → a = b) → dedup (l.map f) = (dedup l).map f
  | [], _ => by simp [dedup]
  | x :: xs, h => by
    have ih := dedup_map f xs (fun a ha b hb => h a (List.mem_cons_of_mem _ ha) b (List.mem_cons_of_mem _ hb))
    simp only [List.map_cons, dedup, ih, List.cons.injEq, true_and]
    rw [List.filter_map]
    congr 1
    apply List.filter_congr
    intro y hy
    have hy' : y ∈ xs := mem_dedup.mp hy
    have : f y = f x ↔ y = x :=
      ⟨h y (List.mem_cons_of_mem _ hy') x (List.mem_cons_self ..), fun e => e ▸ rfl⟩
    simp [this]

theorem uniq_map {α β} [DecidableEq α] [DecidableEq β] (f : α → β) (l : List α)
    (h : ∀ a ∈ l, ∀ b ∈ l, f a = f b → a = b) : uniq (l.map f) = (uniq l).map f := by
  rw [uniq_eq_dedup, uniq_eq_dedup, dedup_map f l h]

theorem dedup_of_nodup {α} [DecidableEq α] : ∀ {l : List α}, l.Nodup → dedup l = l
  | [], _ => rfl
  | x :: xs, h => by
    simp only [List.nodup_cons] at h
    simp only [dedup, dedup_of_nodup h.2, List.cons.injEq, true_and]
    apply List.filter_eq_self.mpr
    intro y hy
    have : y ≠ x := fun e => h.1 (e ▸ hy)
    simp [this]

theorem uniq_of_nodup {α} [DecidableEq α] {l : List α} (h : l.Nodup) : uniq l = l := by
  rw [uniq_eq_dedup, dedup_of_nodup h]

theorem uniqAcc_append {α} [DecidableEq α] : ∀ (a b acc : List α),
    uniqAcc acc (a ++ b) = uniqAcc (uniqAcc acc a) b
  | [], _, _ => rfl
  | x :: xs, b, acc => by
    simp only [List.cons_append, uniqAcc]
    split <;> exact uniqAcc_append xs b _

theorem uniq_append {α} [DecidableEq α] (a b : List α) : uniq (a ++ b) = uniqAcc (uniq a) b :=
  uniqAcc_append a b []

theorem uniqAcc_uniq {α} [DecidableEq α] (acc l : List α) : uniqAcc acc (uniq l) = uniqAcc acc l := by
  rw [uniqAcc_eq, uniqAcc_eq, uniq_eq_dedup, dedup_of_nodup (nodup_dedup l)]

theorem mem_uniqAcc {α} [DecidableEq α] {a : α} {acc l : List α} :
    a ∈ uniqAcc acc l ↔ a ∈ acc ∨ a ∈ l := by
  rw [uniqAcc_eq]
  simp only [List.mem_append, List.mem_filter, mem_dedup, decide_eq_true_eq]
  by_cases h : a ∈ acc <;> simp [h]

theorem nodup_uniqAcc {α} [DecidableEq α] {acc : List α} (l : List α) (h : acc.Nodup) :
    (uniqAcc acc l).Nodup := by
  rw [uniqAcc_eq, List.nodup_append]
  refine ⟨h, (nodup_dedup l).filter _, ?_⟩
  intro a ha b hb e
  subst e
  simp only [List.mem_filter, decide_eq_true_eq] at hb
  exact hb.2 ha

/-! ## name allocation is fresh -/

theorem allocFrom_spec (used : List Name) (r : Root) : ∀ (fuel k : Nat),
    (r, allocFrom used r fuel k) ∈ used →
      ∀ j, k ≤ j → j ≤ k + fuel → (r, j) ∈ used
  | 0, k, h, j, h1, h2 => by
    have : j = k := by omega
    subst this; simpa [allocFrom] using h
  | fuel + 1, k, h, j, h1, h2 => by
    simp only [allocFrom] at h
    split at h
    · rename_i hk
      by_cases hj : j = k
      · subst hj; exact hk
      · exact allocFrom_spec used r fuel (k + 1) h j (by omega) (by omega)
    · rename_i hk; exact absurd h hk

theorem alloc_fresh (used : List Name) (r : Root) : alloc used r ∉ used := by
  intro h
  have hall := allocFrom_spec used r (used.length + 1) 0 h
  let l : List Name := (List.range (used.length + 1)).map fun j => (r, j)
  have hnd : l.Nodup :=
    List.Pairwise.map (fun j => (r, j)) (fun a b hab e => hab (Prod.mk.inj e).2) List.nodup_range
  have hsub : l ⊆ used := by
    intro x hx
    obtain ⟨j, hj, rfl⟩ := List.mem_map.mp hx
    exact hall j (Nat.zero_le _) (by have := List.mem_range.mp hj; omega)
  have := hnd.length_le_of_subset hsub
  simp [l] at this
  omega

theorem alloc_root (used : List Name) (r : Root) : (alloc used r).1 = r := rfl

/-! ## symbol-table invariant -/

structure Inv (st : SymTab) : Prop where
  names_nodup : (st.tags.map Prod.snd).Nodup
  names_used : ∀ p ∈ st.tags, p.2 ∈ st.used

def Registered (st : SymTab) (t : Text) : Prop := (lookupTag st.tags t).isSome

theorem lookupTag_append (l : List (Text × Name)) (t t' : Text) (n : Name) :
    lookupTag (l ++ [(t', n)]) t =
      match lookupTag l t with
      | some m => some m
      | none => if t' = t then some n else none := by
  induction l with
  | nil => simp [lookupTag]
  | cons p rest ih =>
    obtain ⟨a, b⟩ := p
    simp only [List.cons_append, lookupTag]
    split
    · rfl
    · exact ih

theorem lookupTag_mem {l : List (Text × Name)} {t : Text} {n : Name} (h : lookupTag l t = some n) :
    (t, n) ∈ l := by
  induction l with
  | nil => simp [lookupTag] at h
  | cons p rest ih =>
    obtain ⟨a, b⟩ := p
    simp only [lookupTag] at h
    split at h
    · rename_i e; cases h; subst e; simp
    · exact List.mem_cons_of_mem _ (ih h)

theorem reg_inv {st : SymTab} (p : Text × Root) (k : SymKind) (h : Inv st) : Inv (reg st p k) := by
  unfold reg
  split
  · exact h
  · refine ⟨?_, ?_⟩
    · simp only [List.map_append, List.map_cons, List.map_nil]
      rw [List.nodup_append]
      refine ⟨h.names_nodup, by simp, ?_⟩
      intro a ha b hb
      simp only [List.mem_singleton] at hb
      subst hb
      intro e
      obtain ⟨q, hq, rfl⟩ := List.mem_map.mp ha
      exact alloc_fresh st.used p.2 (e ▸ h.names_used q hq)
    · intro q hq
      rcases List.mem_append.mp hq with hq | hq
      · exact List.mem_cons_of_mem _ (h.names_used q hq)
      · simp only [List.mem_singleton] at hq
        subst hq; simp

theorem reg_keeps {st : SymTab} (p : Text × Root) (k : SymKind) {t : Text} {n : Name}
    (h : lookupTag st.tags t = some n) : lookupTag (reg st p k).tags t = some n := by
  unfold reg
  split
  · exact h
  · simp only [lookupTag_append, h]

theorem reg_registers (st : SymTab) (p : Text × Root) (k : SymKind) : Registered (reg st p k) p.1 := by
  unfold Registered reg
  split
  · rename_i n hn; simp [hn]
  · rename_i hn
    simp only [lookupTag_append, hn]
    simp

theorem regR_some {st st' : SymTab} {q : (Text × Root) × Role} (h : regR st q = some st') :
    st' = reg st q.1 (kindFor q.2) := by
  unfold regR at h
  split at h
  · cases h; rfl
  · cases h

theorem regAll_inv : ∀ (l : List ((Text × Root) × Role)) (st st' : SymTab),
    regAll st l = some st' → Inv st → Inv st'
  | [], st, st', h, hi => by simp only [regAll, Option.some.injEq] at h; exact h ▸ hi
  | q :: rest, st, st', h, hi => by
    simp only [regAll] at h
    split at h
    · cases h
    · rename_i st1 h1
      exact regAll_inv rest st1 st' h (regR_some h1 ▸ reg_inv _ _ hi)

theorem regAll_keeps : ∀ (l : List ((Text × Root) × Role)) (st st' : SymTab) {t : Text} {n : Name},
    regAll st l = some st' → lookupTag st.tags t = some n → lookupTag st'.tags t = some n
  | [], st, st', _, _, h, hl => by simp only [regAll, Option.some.injEq] at h; exact h ▸ hl
  | q :: rest, st, st', _, _, h, hl => by
    simp only [regAll] at h
    split at h
    · cases h
    · rename_i st1 h1
      exact regAll_keeps rest st1 st' h (regR_some h1 ▸ reg_keeps _ _ hl)

theorem regAll_registers : ∀ (l : List ((Text × Root) × Role)) (st st' : SymTab),
    regAll st l = some st' → ∀ q ∈ l, Registered st' q.1.1
  | [], _, _, _, q, hq => by simp at hq
  | q0 :: rest, st, st', h, q, hq => by
    simp only [regAll] at h
    split at h
    · cases h
    · rename_i st1 h1
      rcases List.mem_cons.mp hq with e | hq
      · subst e
        have := reg_registers st q.1 (kindFor q.2)
        rw [← regR_some h1] at this
        unfold Registered at this ⊢
        obtain ⟨n, hn⟩ := Option.isSome_iff_exists.mp this
        rw [regAll_keeps rest st1 st' h hn]; rfl
      · exact regAll_registers rest st1 st' h q hq

theorem tag_unique : ∀ {l : List (Text × Name)} {a b : Text} {n : Name},
    (l.map Prod.snd).Nodup → (a, n) ∈ l → (b, n) ∈ l → a = b
  | [], _, _, _, _, h, _ => by simp at h
  | (t', n') :: rest, a, b, n, hnd, h1, h2 => by
    simp only [List.map_cons, List.nodup_cons] at hnd
    rcases List.mem_cons.mp h1 with e1 | h1 <;> rcases List.mem_cons.mp h2 with e2 | h2
    · cases e1; cases e2; rfl
    · cases e1; exact absurd (List.mem_map.mpr ⟨_, h2, rfl⟩) hnd.1
    · cases e2; exact absurd (List.mem_map.mpr ⟨_, h1, rfl⟩) hnd.1
    · exact tag_unique hnd.2 h1 h2

/-- In a table satisfying the invariant two registered texts never share a name. -/
theorem nameOf_inj {st : SymTab} (h : Inv st) {a b : Text} (ha : Registered st a) (hb : Registered st b)
    (e : nameOf st a = nameOf st b) : a = b := by
  unfold Registered at ha hb
  obtain ⟨na, hna⟩ := Option.isSome_iff_exists.mp ha
  obtain ⟨nb, hnb⟩ := Option.isSome_iff_exists.mp hb
  simp only [nameOf, hna, hnb, Option.getD_some] at e
  subst e
  have h1 := lookupTag_mem hna
  have h2 := lookupTag_mem hnb
  exact tag_unique h.names_nodup h1 h2

theorem sourceAux_of_mem : ∀ {l : List (Text × Name)} {t : Text} {n : Name},
    (l.map Prod.snd).Nodup → (t, n) ∈ l → sourceAux l n = some t
  | [], _, _, _, h => by simp at h
  | (t', n') :: rest, t, n, hnd, h => by
    simp only [List.map_cons, List.nodup_cons] at hnd
    simp only [sourceAux]
    rcases List.mem_cons.mp h with e | h
    · cases e; simp
    · have hne : n' ≠ n := by
        intro e; subst e
        exact hnd.1 (List.mem_map.mpr ⟨_, h, rfl⟩)
      rw [if_neg hne]
      exact sourceAux_of_mem hnd.2 h

theorem sourceOf_nameOf {st : SymTab} (h : Inv st) {t : Text} (ht : Registered st t) :
    sourceOf st (nameOf st t) = t := by
  unfold Registered at ht
  obtain ⟨n, hn⟩ := Option.isSome_iff_exists.mp ht
  simp only [nameOf, hn, Option.getD_some, sourceOf]
  rw [sourceAux_of_mem h.names_nodup (lookupTag_mem hn)]; rfl

theorem nodup_map_of_injOn {α β} (f : α → β) : ∀ (l : List α),
    (∀ a ∈ l, ∀ b ∈ l, f a = f b → a = b) → l.Nodup → (l.map f).Nodup
  | [], _, _ => by simp
  | x :: xs, h, hn => by
    simp only [List.nodup_cons] at hn
    simp only [List.map_cons, List.nodup_cons, List.mem_map]
    refine ⟨?_, nodup_map_of_injOn f xs
      (fun a ha b hb => h a (List.mem_cons_of_mem _ ha) b (List.mem_cons_of_mem _ hb)) hn.2⟩
    rintro ⟨y, hy, e⟩
    have := h y (List.mem_cons_of_mem _ hy) x (List.mem_cons_self ..) e
    exact hn.1 (this ▸ hy)

end C24
