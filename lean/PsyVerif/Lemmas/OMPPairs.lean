import PsyVerif.Model.OMPPairs
import PsyVerif.Lemmas.OMPSem
import PsyVerif.Lemmas.MiniFSem
import PsyVerif.Lemmas.OMPStatic
/-! # The pair loop: completeness, and soundness of the static acceptance test `pairsIndepB`
(every dynamic array access of an iteration is *explained* by a static access of the body; a pair
that passes `pairTest` never meets in two different iterations).  Core Lean only. -/
namespace C09
open MiniF

/-! ## completeness of the double loop -/

theorem firstOther_none {skip test : SAcc → SAcc → Bool} {w : SAcc} {accs : List SAcc} :
    firstOther skip test w accs = none ↔
      ∀ o ∈ accs, o.arr = w.arr → skip w o = true ∨ test w o = true := by
  simp only [firstOther, List.find?_eq_none, Bool.and_eq_true, beq_iff_eq, Bool.not_eq_true', not_and,
    Bool.not_eq_false]
  constructor
  · intro h o ho ha
    cases hs : skip w o with
    | true => exact Or.inl rfl
    | false => exact Or.inr (h o ho ⟨ha, hs⟩)
  · intro h o ho hc
    rcases h o ho hc.1 with h' | h'
    · rw [hc.2] at h'; cases h'
    · exact h'

theorem firstFailWith_none {skip test : SAcc → SAcc → Bool} {accs : List SAcc} :
    firstFailWith skip test accs = none ↔
      ∀ w ∈ accs, w.write = true → ∀ o ∈ accs, o.arr = w.arr → skip w o = true ∨ test w o = true := by
  simp only [firstFailWith, List.findSome?_eq_none_iff]
  constructor
  · intro h w hw hwr
    have := h w hw
    rw [if_pos hwr, Option.map_eq_none_iff] at this
    exact firstOther_none.mp this
  · intro h w hw
    by_cases hwr : w.write = true
    · rw [if_pos hwr, Option.map_eq_none_iff]
      exact firstOther_none.mpr (h w hw hwr)
    · rw [if_neg hwr]

/-- the reported pair is a genuine failing pair of the access list -/
theorem firstFailWith_some {skip test : SAcc → SAcc → Bool} {accs : List SAcc} {w o : SAcc}
    (h : firstFailWith skip test accs = some (w, o)) :
    w ∈ accs ∧ w.write = true ∧ o ∈ accs ∧ o.arr = w.arr ∧ skip w o = false ∧ test w o = false := by
  obtain ⟨w', hw', hf⟩ := List.exists_of_findSome?_eq_some h
  by_cases hwr : w'.write = true
  · rw [if_pos hwr] at hf
    obtain ⟨o', ho', he⟩ := Option.map_eq_some_iff.mp hf
    cases he
    have hp := List.find?_some ho'
    have hm := List.mem_of_find?_eq_some ho'
    simp only [Bool.and_eq_true, beq_iff_eq, Bool.not_eq_true'] at hp
    exact ⟨hw', hwr, hm, hp.1.1, hp.1.2, hp.2⟩
  · rw [if_neg hwr] at hf; cases hf

/-! ## a passing pair is separated at one subscript position -/

/-- position-wise separation: two different literals, or `v + c` on both sides -/
def posIndep (v : Nat) : Sub → Sub → Bool
  | .lit c, .lit c' => c ≠ c'
  | .lv x c, .lv y c' => x = v && y = v && c = c'
  | _, _ => false

theorem oneSub_yes {v : Nat} {a b : Sub} (h : oneSub v a b = .yes) : posIndep v a b = true := by
  match a, b with
  | .lit c, .lit c' =>
    simp only [oneSub] at h
    by_cases hc : c ≠ c'
    · simpa [posIndep] using hc
    · rw [if_neg hc] at h; cases h
  | .lv x c, .lv y c' =>
    simp only [oneSub] at h
    by_cases hxy : x ≠ y
    · rw [if_pos hxy] at h; cases h
    · rw [if_neg hxy] at h
      have hxy' : x = y := by simpa using hxy
      by_cases hv : x = v ∧ c = c'
      · simp [posIndep, ← hxy', hv.1, hv.2]
      · rw [if_neg hv] at h; cases h
  | .lit _, .lv _ _ => simp [oneSub] at h
  | .lit _, .other => simp [oneSub] at h
  | .lv _ _, .lit _ => simp [oneSub] at h
  | .lv _ _, .other => simp [oneSub] at h
  | .other, _ => simp [oneSub] at h

theorem multiSub_pos {v : Nat} {a b : Sub} (h : multiSub v a b = true) : posIndep v a b = true := by
  cases a <;> cases b <;> simp only [multiSub, posIndep] at h ⊢ <;> first | exact h | cases h

theorem pairTest_sound {v : Nat} {w o : List Sub} (h : pairTest v w o = true) :
    ∃ (p : Nat) (a b : Sub), w[p]? = some a ∧ o[p]? = some b ∧ posIndep v a b = true := by
  unfold pairTest at h
  split at h
  · rename_i a b
    exact ⟨0, a, b, rfl, rfl, oneSub_yes (by simpa using h)⟩
  · rename_i a0 a1 b0 b1
    split at h
    · simp only [Bool.or_eq_true] at h
      rcases h with h | h
      · exact ⟨0, a0, b0, rfl, rfl, multiSub_pos h⟩
      · exact ⟨1, a1, b1, rfl, rfl, multiSub_pos h⟩
    · split at h
      · rename_i hy
        exact ⟨0, a0, b0, rfl, rfl, oneSub_yes hy⟩
      · cases h
      · exact ⟨1, a1, b1, rfl, rfl, oneSub_yes (by simpa using h)⟩
  · cases h

/-! ## static accesses explain the dynamic footprint -/

/-- what a subscript class says about the value `z` of the subscript when the parallel variable is `val` -/
def SubHolds (v : Nat) (val : Int) (s : Sub) (z : Int) : Prop :=
  match s with
  | .lit c => z = c
  | .lv x c => x = v → z = val + c
  | .other => True

theorem subOf_holds {v : Nat} (e : Expr) {τ : Store} {val : Int} (hv : τ (v, 0, 0) = val) :
    SubHolds v val (subOf e) (eval e τ) := by
  unfold subOf
  split <;> simp only [SubHolds]
  · simp [eval]
  · intro hx; subst hx; simp [eval, hv]
  · intro hx; subst hx; simp [eval, evalBin, hv]
  · intro hx; subst hx; simp [eval, evalBin, hv]; omega
  · intro hx; subst hx; simp [eval, evalBin, hv]; omega

theorem posIndep_sep {v : Nat} {a b : Sub} (h : posIndep v a b = true) {val val' z z' : Int}
    (ha : SubHolds v val a z) (hb : SubHolds v val' b z') (hne : val ≠ val') : z ≠ z' := by
  cases a <;> cases b <;> simp only [posIndep, SubHolds] at h ha hb <;> try cases h
  · subst ha; subst hb; simpa using h
  · simp only [Bool.and_eq_true, decide_eq_true_eq] at h
    obtain ⟨⟨hx, hy⟩, hc⟩ := h
    rw [ha hx, hb hy, hc]
    omega

/-- location `l` is an element the static access `o` can touch when the parallel variable is `val` -/
def Explains (v : Nat) (val : Int) (o : SAcc) (l : Loc) : Prop :=
  o.arr = l.1 ∧ ∀ p s, (o.subs.map subOf)[p]? = some s → SubHolds v val s (comp p l)

def FpCov (v : Nat) (privs : List Nat) (A : List SAcc) (val : Int) (g : Fp) : Prop :=
  (∀ l ∈ g.1, ∃ o ∈ A, Explains v val o l) ∧
  (∀ l ∈ g.2, l.1 ∈ privs ∨ ∃ o ∈ A, o.write = true ∧ Explains v val o l)

theorem FpCov.mono {v : Nat} {privs : List Nat} {A A' : List SAcc} {val : Int} {g : Fp}
    (h : FpCov v privs A val g) (hs : ∀ o ∈ A, o ∈ A') : FpCov v privs A' val g :=
  ⟨fun l hl => by obtain ⟨o, ho, he⟩ := h.1 l hl; exact ⟨o, hs o ho, he⟩,
   fun l hl => by
    rcases h.2 l hl with hp | ⟨o, ho, he⟩
    · exact Or.inl hp
    · exact Or.inr ⟨o, hs o ho, he⟩⟩

theorem FpCov.seq {v : Nat} {privs : List Nat} {A : List SAcc} {val : Int} {a b : Fp}
    (ha : FpCov v privs A val a) (hb : FpCov v privs A val b) : FpCov v privs A val (fpSeq a b) := by
  constructor
  · intro l hl
    rcases mem_fpSeq_reads.mp hl with h | h
    · exact ha.1 l h
    · exact hb.1 l h.1
  · intro l hl
    rcases mem_fpSeq_writes.mp hl with h | h
    · exact ha.2 l h
    · exact hb.2 l h

theorem explains1 {v : Nat} {val : Int} {a : Nat} {i : Expr} {wr : Bool} {n : Nat} {τ : Store}
    (hv : τ (v, 0, 0) = val) : Explains v val ⟨a, wr, [i], n⟩ (a, eval i τ, 0) := by
  refine ⟨rfl, fun p s hp => ?_⟩
  match p with
  | 0 =>
    simp only [List.map_cons, List.map_nil, List.getElem?_cons_zero, Option.some.injEq] at hp
    subst hp
    simpa [comp] using subOf_holds i hv
  | p + 1 => simp at hp

theorem explains2 {v : Nat} {val : Int} {a : Nat} {i j : Expr} {wr : Bool} {n : Nat} {τ : Store}
    (hv : τ (v, 0, 0) = val) : Explains v val ⟨a, wr, [i, j], n⟩ (a, eval i τ, eval j τ) := by
  refine ⟨rfl, fun p s hp => ?_⟩
  match p with
  | 0 =>
    simp only [List.map_cons, List.map_nil, List.getElem?_cons_zero, Option.some.injEq] at hp
    subst hp
    simpa [comp] using subOf_holds i hv
  | 1 =>
    simp only [List.map_cons, List.map_nil, List.getElem?_cons_succ, List.getElem?_cons_zero,
      Option.some.injEq] at hp
    subst hp
    simpa [comp] using subOf_holds j hv
  | p + 2 => simp at hp

theorem erd_cov {v : Nat} {val : Int} (e : Expr) (n : Nat) {τ : Store} (hv : τ (v, 0, 0) = val) :
    ∀ l ∈ erd e τ, ∃ o ∈ exprSAcc n e, Explains v val o l := by
  induction e with
  | lit c => intro l hl; simp [erd] at hl
  | var x =>
    intro l hl
    simp only [erd, List.mem_singleton] at hl
    subst hl
    exact ⟨⟨x, false, [], n⟩, by simp [exprSAcc], rfl, fun p s hp => by simp at hp⟩
  | idx1 a i ih =>
    intro l hl
    simp only [erd, List.mem_cons] at hl
    rcases hl with hl | hl
    · subst hl
      exact ⟨⟨a, false, [i], n⟩, by simp [exprSAcc], explains1 hv⟩
    · obtain ⟨o, ho, he⟩ := ih l hl
      exact ⟨o, by simp only [exprSAcc, List.mem_append]; exact Or.inl ho, he⟩
  | idx2 a i j ihi ihj =>
    intro l hl
    simp only [erd, List.mem_cons, List.mem_append] at hl
    rcases hl with hl | hl | hl
    · subst hl
      exact ⟨⟨a, false, [i, j], n⟩, by simp [exprSAcc], explains2 hv⟩
    · obtain ⟨o, ho, he⟩ := ihi l hl
      exact ⟨o, by simp only [exprSAcc, List.mem_append]; exact Or.inl (Or.inl ho), he⟩
    · obtain ⟨o, ho, he⟩ := ihj l hl
      exact ⟨o, by simp only [exprSAcc, List.mem_append]; exact Or.inl (Or.inr ho), he⟩
  | un op e ih => exact ih
  | bin op a b iha ihb =>
    intro l hl
    simp only [erd, List.mem_append] at hl
    rcases hl with hl | hl
    · obtain ⟨o, ho, he⟩ := iha l hl
      exact ⟨o, by simp only [exprSAcc, List.mem_append]; exact Or.inl ho, he⟩
    · obtain ⟨o, ho, he⟩ := ihb l hl
      exact ⟨o, by simp only [exprSAcc, List.mem_append]; exact Or.inr ho, he⟩

theorem scalarsOK_v_not_written {v : Nat} {privs : List Nat} {s : Stmt}
    (h : scalarsOK v privs s = true) : v ∉ wvars s := by
  induction s with
  | skip => simp [wvars]
  | seq a b iha ihb =>
    simp only [scalarsOK, Bool.and_eq_true] at h
    simp only [wvars, List.mem_append, not_or]
    exact ⟨iha h.1, ihb h.2⟩
  | assign x e =>
    simp only [scalarsOK, Bool.and_eq_true, bne_iff_ne] at h
    simp only [wvars, List.mem_singleton]
    exact fun e => h.1 e.symm
  | store1 a i e =>
    simp only [scalarsOK, bne_iff_ne] at h
    simp only [wvars, List.mem_singleton]
    exact fun e => h e.symm
  | store2 a i j e =>
    simp only [scalarsOK, bne_iff_ne] at h
    simp only [wvars, List.mem_singleton]
    exact fun e => h e.symm
  | ite c t f iht ihf =>
    simp only [scalarsOK, Bool.and_eq_true] at h
    simp only [wvars, List.mem_append, not_or]
    exact ⟨iht h.1, ihf h.2⟩
  | loop w lo hi st b ih =>
    simp only [scalarsOK, Bool.and_eq_true, bne_iff_ne] at h
    simp only [wvars, List.mem_cons, not_or]
    exact ⟨fun e => h.1.1 e.symm, ih h.2⟩

/-- reads only: covered by the accesses of the expressions they come from -/
theorem fpCov_reads {v : Nat} {privs : List Nat} {A : List SAcc} {val : Int} {R : List Loc}
    (h : ∀ l ∈ R, ∃ o ∈ A, Explains v val o l) : FpCov v privs A val (R, []) :=
  ⟨h, fun l hl => by simp at hl⟩

theorem fpIters_cov {v w : Nat} {privs : List Nat} {A : List SAcc} {b : Stmt} {val : Int}
    (hwv : w ≠ v) (hwp : w ∈ privs) (hvb : v ∉ wvars b)
    (ih : ∀ τ : Store, τ (v, 0, 0) = val → FpCov v privs A val (fp b τ)) (lo st : Int) :
    ∀ n k (τ : Store), τ (v, 0, 0) = val →
      FpCov v privs A val (fpIters (exec b) (fp b) w lo st n k τ) := by
  have hset : FpCov v privs A val ([], [(w, 0, 0)]) :=
    ⟨fun l hl => by simp at hl, fun l hl => by
      simp only [List.mem_singleton] at hl; subst hl; exact Or.inl hwp⟩
  intro n
  induction n with
  | zero => intro k τ _; exact hset
  | succ n ihn =>
    intro k τ hτ
    have hne : ((v, 0, 0) : Loc) ≠ (w, 0, 0) := fun e => hwv (congrArg Prod.fst e).symm
    have h1 : (τ.set (w, 0, 0) (lo + k * st)) (v, 0, 0) = val := by
      rw [set_apply, if_neg hne]; exact hτ
    have h2 : (exec b (τ.set (w, 0, 0) (lo + k * st))) (v, 0, 0) = val := by
      rw [exec_frame hvb]; exact h1
    exact hset.seq ((ih _ h1).seq (ihn (k + 1) _ h2))

/-- **every dynamic access is explained by a static one**: at any store in which the parallel
variable has the value `val`, the exposed reads of `s` are elements some access of `stmtSAcc n s`
can touch, and the writes are privatised scalars or elements some WRITE access can touch -/
theorem fp_cov {v : Nat} {privs : List Nat} {s : Stmt} (h : scalarsOK v privs s = true) {val : Int} :
    ∀ (n : Nat) (τ : Store), τ (v, 0, 0) = val → FpCov v privs (stmtSAcc n s) val (fp s τ) := by
  induction s with
  | skip => intro n τ _; exact ⟨fun l hl => by simp [fp] at hl, fun l hl => by simp [fp] at hl⟩
  | seq a b iha ihb =>
    simp only [scalarsOK, Bool.and_eq_true] at h
    intro n τ hτ
    have hb : (exec a τ) (v, 0, 0) = val := by rw [exec_frame (scalarsOK_v_not_written h.1)]; exact hτ
    simp only [fp, stmtSAcc]
    exact ((iha h.1 n τ hτ).mono (fun o ho => List.mem_append.mpr (Or.inl ho))).seq
      ((ihb h.2 _ _ hb).mono (fun o ho => List.mem_append.mpr (Or.inr ho)))
  | assign x e =>
    simp only [scalarsOK, Bool.and_eq_true, List.contains_eq_mem, decide_eq_true_eq] at h
    intro n τ hτ
    refine ⟨fun l hl => ?_, fun l hl => ?_⟩
    · obtain ⟨o, ho, he⟩ := erd_cov e n hτ l hl
      exact ⟨o, by simp only [stmtSAcc, List.mem_append]; exact Or.inl ho, he⟩
    · simp only [fp, List.mem_singleton] at hl
      subst hl
      exact Or.inl h.2
  | store1 a i e =>
    intro n τ hτ
    refine ⟨fun l hl => ?_, fun l hl => ?_⟩
    · simp only [fp, List.mem_append] at hl
      rcases hl with hl | hl
      · obtain ⟨o, ho, he⟩ := erd_cov i n hτ l hl
        exact ⟨o, by simp only [stmtSAcc, List.mem_append]; exact Or.inl (Or.inr ho), he⟩
      · obtain ⟨o, ho, he⟩ := erd_cov e n hτ l hl
        exact ⟨o, by simp only [stmtSAcc, List.mem_append]; exact Or.inl (Or.inl ho), he⟩
    · simp only [fp, List.mem_singleton] at hl
      subst hl
      exact Or.inr ⟨⟨a, true, [i], n⟩, by simp [stmtSAcc], rfl, explains1 hτ⟩
  | store2 a i j e =>
    intro n τ hτ
    refine ⟨fun l hl => ?_, fun l hl => ?_⟩
    · simp only [fp, List.mem_append] at hl
      rcases hl with (hl | hl) | hl
      · obtain ⟨o, ho, he⟩ := erd_cov i n hτ l hl
        exact ⟨o, by simp only [stmtSAcc, List.mem_append]; exact Or.inl (Or.inl (Or.inr ho)), he⟩
      · obtain ⟨o, ho, he⟩ := erd_cov j n hτ l hl
        exact ⟨o, by simp only [stmtSAcc, List.mem_append]; exact Or.inl (Or.inr ho), he⟩
      · obtain ⟨o, ho, he⟩ := erd_cov e n hτ l hl
        exact ⟨o, by simp only [stmtSAcc, List.mem_append]; exact Or.inl (Or.inl (Or.inl ho)), he⟩
    · simp only [fp, List.mem_singleton] at hl
      subst hl
      exact Or.inr ⟨⟨a, true, [i, j], n⟩, by simp [stmtSAcc], rfl, explains2 hτ⟩
  | ite c t f iht ihf =>
    simp only [scalarsOK, Bool.and_eq_true] at h
    intro n τ hτ
    simp only [fp, stmtSAcc]
    refine (fpCov_reads (fun l hl => ?_)).seq ?_
    · obtain ⟨o, ho, he⟩ := erd_cov c n hτ l hl
      exact ⟨o, by simp only [List.mem_append]; exact Or.inl (Or.inl ho), he⟩
    · split
      · exact (iht h.1 _ τ hτ).mono (fun o ho => by simp only [List.mem_append]; exact Or.inl (Or.inr ho))
      · exact (ihf h.2 _ τ hτ).mono (fun o ho => by simp only [List.mem_append]; exact Or.inr ho)
  | loop w lo hi st b ih =>
    simp only [scalarsOK, Bool.and_eq_true, bne_iff_ne, List.contains_eq_mem, decide_eq_true_eq] at h
    intro n τ hτ
    simp only [fp, stmtSAcc]
    refine (fpCov_reads (fun l hl => ?_)).seq
      (fpIters_cov h.1.1 h.1.2 (scalarsOK_v_not_written h.2)
        (fun τ' hτ' => (ih h.2 (n + 1) τ' hτ').mono (fun o ho => by
          simp only [List.mem_append]; exact Or.inr ho)) _ _ _ _ τ hτ)
    simp only [List.mem_append] at hl
    rcases hl with (hl | hl) | hl
    · obtain ⟨o, ho, he⟩ := erd_cov lo n hτ l hl
      exact ⟨o, by simp only [List.mem_append]; exact Or.inl (Or.inl (Or.inl (Or.inr ho))), he⟩
    · obtain ⟨o, ho, he⟩ := erd_cov hi n hτ l hl
      exact ⟨o, by simp only [List.mem_append]; exact Or.inl (Or.inl (Or.inr ho)), he⟩
    · obtain ⟨o, ho, he⟩ := erd_cov st n hτ l hl
      exact ⟨o, by simp only [List.mem_append]; exact Or.inl (Or.inr ho), he⟩

/-- two accesses that pass `pairTestA` never touch the same element in iterations with different
values of the parallel variable -/
theorem pair_separates {v : Nat} {w o : SAcc} (h : pairTestA v w o = true) {val val' : Int}
    (hne : val ≠ val') {l : Loc} (hw : Explains v val w l) (ho : Explains v val' o l) : False := by
  obtain ⟨p, a, b, ha, hb, hp⟩ := pairTest_sound h
  exact posIndep_sep hp (hw.2 p a ha) (ho.2 p b hb) hne rfl

/-- **the static acceptance test implies Bernstein independence of the iterations, at every store** -/
theorem iterIndep_of_pairs (P : ParDo) (h : pairsIndepB P = true) (σ : Store) : IterIndep P σ := by
  simp only [pairsIndepB, Bool.and_eq_true, Option.isNone_iff_eq_none, firstFail] at h
  obtain ⟨hsc, hpl⟩ := h
  have hall := firstFailWith_none.mp hpl
  intro k hk k' hk' hne l hw hp
  have hst : eval P.step σ ≠ 0 := by
    intro h0
    simp [ParDo.trips, trip, h0] at hk
  have gk := fp_cov hsc (val := eval P.lo σ + (k : Int) * eval P.step σ) 1 (P.iterStore σ k)
    (by simp [ParDo.iterStore])
  have gk' := fp_cov hsc (val := eval P.lo σ + (k' : Int) * eval P.step σ) 1 (P.iterStore σ k')
    (by simp [ParDo.iterStore])
  have hvals : eval P.lo σ + (k : Int) * eval P.step σ ≠ eval P.lo σ + (k' : Int) * eval P.step σ := by
    intro e
    have e' : (k : Int) * eval P.step σ = (k' : Int) * eval P.step σ := by omega
    have := Int.eq_of_mul_eq_mul_right hst e'
    exact hne (by omega)
  have shared : ∀ o ∈ stmtSAcc 1 P.body, o.arr = l.1 → o ∈ sharedAccs P := by
    intro o ho ha
    simp only [sharedAccs, List.mem_filter, Bool.not_eq_true', List.contains_eq_mem, decide_eq_false_iff_not]
    exact ⟨ho, ha ▸ hp⟩
  rcases gk.2 l hw with hpr | ⟨w, hwm, hwr, hwe⟩
  · exact absurd hpr hp
  · have key : ∀ o ∈ stmtSAcc 1 P.body, Explains P.v (eval P.lo σ + (k' : Int) * eval P.step σ) o l → False := by
      intro o hom hoe
      rcases hall w (shared w hwm hwe.1) hwr o (shared o hom hoe.1) (hoe.1.trans hwe.1.symm) with hs | ht
      · cases hs
      · exact pair_separates ht hvals hwe hoe
    constructor
    · intro hr
      obtain ⟨o, hom, hoe⟩ := gk'.1 l hr
      exact key o hom hoe
    · intro hw'
      rcases gk'.2 l hw' with hpr | ⟨o, hom, _, hoe⟩
      · exact hp hpr
      · exact key o hom hoe

/-! ## the model of `validate` implies the static acceptance test -/

theorem exprSAcc_read (n : Nat) (e : Expr) : ∀ a ∈ exprSAcc n e, a.write = false := by
  induction e with
  | lit c => intro a ha; simp [exprSAcc] at ha
  | var x => intro a ha; simp only [exprSAcc, List.mem_singleton] at ha; subst ha; rfl
  | idx1 b i ih =>
    intro a ha
    simp only [exprSAcc, List.mem_append, List.mem_singleton] at ha
    rcases ha with ha | ha
    · exact ih a ha
    · subst ha; rfl
  | idx2 b i j ihi ihj =>
    intro a ha
    simp only [exprSAcc, List.mem_append, List.mem_singleton] at ha
    rcases ha with (ha | ha) | ha
    · exact ihi a ha
    · exact ihj a ha
    · subst ha; rfl
  | un op e ih => exact ih
  | bin op x y ihx ihy =>
    intro a ha
    simp only [exprSAcc, List.mem_append] at ha
    rcases ha with ha | ha
    · exact ihx a ha
    · exact ihy a ha

/-- a write access without subscripts is an assignment to a privatised scalar (or inner loop variable) -/
theorem scalar_writes_private {v : Nat} {privs : List Nat} {s : Stmt} (h : scalarsOK v privs s = true) :
    ∀ n, ∀ a ∈ stmtSAcc n s, a.write = true → a.subs = [] → a.arr ∈ privs := by
  induction s with
  | skip => intro n a ha; simp [stmtSAcc] at ha
  | seq x y ihx ihy =>
    simp only [scalarsOK, Bool.and_eq_true] at h
    intro n a ha
    simp only [stmtSAcc, List.mem_append] at ha
    rcases ha with ha | ha
    · exact ihx h.1 n a ha
    · exact ihy h.2 _ a ha
  | assign x e =>
    simp only [scalarsOK, Bool.and_eq_true, List.contains_eq_mem, decide_eq_true_eq] at h
    intro n a ha hw _
    simp only [stmtSAcc, List.mem_append, List.mem_singleton] at ha
    rcases ha with ha | ha
    · rw [exprSAcc_read n e a ha] at hw; cases hw
    · subst ha; exact h.2
  | store1 b i e =>
    intro n a ha hw hs
    simp only [stmtSAcc, List.mem_append, List.mem_singleton] at ha
    rcases ha with (ha | ha) | ha
    · rw [exprSAcc_read n e a ha] at hw; cases hw
    · rw [exprSAcc_read n i a ha] at hw; cases hw
    · subst ha; cases hs
  | store2 b i j e =>
    intro n a ha hw hs
    simp only [stmtSAcc, List.mem_append, List.mem_singleton] at ha
    rcases ha with ((ha | ha) | ha) | ha
    · rw [exprSAcc_read n e a ha] at hw; cases hw
    · rw [exprSAcc_read n i a ha] at hw; cases hw
    · rw [exprSAcc_read n j a ha] at hw; cases hw
    · subst ha; cases hs
  | ite c t f iht ihf =>
    simp only [scalarsOK, Bool.and_eq_true] at h
    intro n a ha hw hs
    simp only [stmtSAcc, List.mem_append] at ha
    rcases ha with (ha | ha) | ha
    · rw [exprSAcc_read n c a ha] at hw; cases hw
    · exact iht h.1 _ a ha hw hs
    · exact ihf h.2 _ a ha hw hs
  | loop w lo hi st b ih =>
    simp only [scalarsOK, Bool.and_eq_true, List.contains_eq_mem, decide_eq_true_eq] at h
    intro n a ha hw hs
    simp only [stmtSAcc, List.mem_append, List.mem_cons, List.not_mem_nil, or_false] at ha
    rcases ha with ((((ha | ha) | ha) | ha) | ha) | ha
    · subst ha; exact h.1.2
    · subst ha; cases hw
    · rw [exprSAcc_read n lo a ha] at hw; cases hw
    · rw [exprSAcc_read n hi a ha] at hw; cases hw
    · rw [exprSAcc_read n st a ha] at hw; cases hw
    · exact ih h.2 _ a ha hw hs

/-- **the model of `validate` implies the static acceptance test**: if the array pair loop of
`validateArrays` reports nothing and the written scalars are privatised, `pairsIndepB` holds -/
theorem pairsIndepB_of_validate (P : ParDo) (hs : scalarsOK P.v P.privs P.body = true)
    (hv : validateArrays P.v P.lo P.hi P.step P.body = true) : pairsIndepB P = true := by
  simp only [pairsIndepB, hs, Bool.true_and, Option.isNone_iff_eq_none, firstFail]
  simp only [validateArrays, Option.isNone_iff_eq_none, firstFail] at hv
  have hall := firstFailWith_none.mp hv
  refine firstFailWith_none.mpr (fun w hw hwr o ho ha => ?_)
  simp only [sharedAccs, List.mem_filter, Bool.not_eq_true', List.contains_eq_mem, decide_eq_false_iff_not] at hw ho
  have hsub : w.subs ≠ [] := fun e => hw.2 (scalar_writes_private hs 1 w hw.1 hwr e)
  have hne : (!w.subs.isEmpty) = true := by
    cases hws : w.subs with
    | nil => exact absurd hws hsub
    | cons _ _ => rfl
  have inLoop : ∀ a ∈ stmtSAcc 1 P.body, a ∈ loopSAcc P.lo P.hi P.step P.body := fun a ha => by
    simp only [loopSAcc, List.mem_append]; exact Or.inr ha
  have inArr : ∀ a ∈ stmtSAcc 1 P.body, a.arr = w.arr → a ∈ arrayAccs (loopSAcc P.lo P.hi P.step P.body) := by
    intro a ha hae
    simp only [arrayAccs, List.mem_filter, List.any_eq_true, Bool.and_eq_true, beq_iff_eq]
    exact ⟨inLoop a ha, w, inLoop w hw.1, hae.symm, hne⟩
  exact hall w (inArr w hw.1 rfl) hwr o (inArr o ho.1 ha) ha

end C09
