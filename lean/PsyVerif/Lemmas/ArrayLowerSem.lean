import PsyVerif.Lemmas.ArrayLowerBase
/-! # C06 lemmas: the IF code of ABS/SIGN/MIN/MAX, evaluation of lowered elementwise expressions -/
namespace C06
open MiniF

theorem exec_absCode (res tmp : Nat) (x : Expr) (σ : Store) :
    exec (absCode res tmp x) σ
      = ((σ.set (tmp, 0, 0) (eval x σ)).set (res, 0, 0) (evalUn .abs (eval x σ))) := by
  simp only [absCode, exec, eval, evalBin, Store.set_same, b2i]
  have hv := abs_val (eval x σ)
  by_cases h : eval x σ > 0
  · simp only [h, decide_true, if_true]
    rw [← hv, if_pos h]; simp
  · simp only [h, decide_false]
    rw [← hv, if_neg h]; simp

theorem loc_ne {a r : Nat} (i j : Int) (h : a ≠ r) : ((a, i, j) : Loc) ≠ (r, 0, 0) :=
  fun hh => h (congrArg Prod.fst hh)

theorem sign_val (va vb : Int) :
    (if vb < 0 then evalUn .abs va * -1 else evalUn .abs va) = evalBin .sign va vb := by
  simp only [evalUn, evalBin]
  split <;> split <;> split <;> omega

theorem exec_signCode_agree (res tmp ares atmp : Nat) (a b : Expr) (σ : Store)
    (h1 : res ≠ tmp)
    (hb : ∀ y ∈ vars b, y ≠ res ∧ y ≠ ares ∧ y ≠ atmp) :
    AgreeOn (fun y => ¬ (y = tmp ∨ y = ares ∨ y = atmp)) (exec (signCode res tmp ares atmp a b) σ)
      (σ.set (res, 0, 0) (eval (.bin .sign a b) σ)) := by
  have hbv : eval b (((σ.set (atmp, 0, 0) (eval a σ)).set (ares, 0, 0) (evalUn .abs (eval a σ))).set (res, 0, 0)
      (evalUn .abs (eval a σ))) = eval b σ := by
    apply eval_agree (V := fun y => y ≠ res ∧ y ≠ ares ∧ y ≠ atmp) hb
    intro y hy i j
    rw [Store.set_other _ _ (loc_ne i j hy.1), Store.set_other _ _ (loc_ne i j hy.2.1),
      Store.set_other _ _ (loc_ne i j hy.2.2)]
  intro y hy i j
  simp only [not_or] at hy
  simp only [signCode, exec, exec_absCode, eval, evalBin, Store.set_same, b2i]
  rw [hbv]
  have hs := sign_val (eval a σ) (eval b σ)
  simp only [evalBin] at hs
  rw [← hs]
  by_cases hl : ((y, i, j) : Loc) = (res, 0, 0)
  · rw [hl]
    by_cases hv : eval b σ < 0
    · simp [hv, exec, eval, evalBin, Store.set_other _ _ (loc_ne 0 0 h1)]
    · simp [hv, exec, Store.set_other _ _ (loc_ne 0 0 h1)]
  · rw [Store.set_other _ _ hl]
    by_cases hv : eval b σ < 0
    · simp [hv, exec, Store.set_other _ _ hl, Store.set_other _ _ (loc_ne i j hy.1),
        Store.set_other _ _ (loc_ne i j hy.2.1), Store.set_other _ _ (loc_ne i j hy.2.2)]
    · simp [hv, exec, Store.set_other _ _ hl, Store.set_other _ _ (loc_ne i j hy.1),
        Store.set_other _ _ (loc_ne i j hy.2.1), Store.set_other _ _ (loc_ne i j hy.2.2)]


theorem eval_mmExpr (isMax : Bool) (a : Expr) (rest : List Expr) (σ : Store) :
    eval (mmExpr isMax a rest) σ
      = rest.foldl (fun acc b => evalBin (mmOp isMax) acc (eval b σ)) (eval a σ) := by
  induction rest generalizing a with
  | nil => rfl
  | cons b rest ih =>
    simp only [mmExpr, List.foldl] at ih ⊢
    rw [ih]; rfl

theorem mm_val (isMax : Bool) (r vb : Int) :
    (if (if isMax then decide (vb > r) else decide (vb < r)) = true then vb else r) = evalBin (mmOp isMax) r vb := by
  cases isMax <;> simp only [mmOp, evalBin] <;> split <;> split <;> simp_all <;> omega

theorem exec_mmStep (isMax : Bool) (res tmp : Nat) (b : Expr) (σ τ : Store) (r : Int) (hne : res ≠ tmp)
    (hb : ∀ y ∈ vars b, y ≠ res ∧ y ≠ tmp)
    (hτ : AgreeOn (fun y => y ≠ tmp) τ (σ.set (res, 0, 0) r)) :
    AgreeOn (fun y => y ≠ tmp) (exec (mmStep isMax res tmp b) τ)
      (σ.set (res, 0, 0) (evalBin (mmOp isMax) r (eval b σ))) := by
  have hbv : eval b τ = eval b σ := by
    apply eval_agree (V := fun y => y ≠ res ∧ y ≠ tmp) hb
    intro y hy i j
    rw [hτ y hy.2 i j, Store.set_other _ _ (loc_ne i j hy.1)]
  have hres : τ (res, 0, 0) = r := by rw [hτ res hne 0 0, Store.set_same]
  have hc : eval (.bin (if isMax then BinOp.gt else BinOp.lt) (.var tmp) (.var res)) (τ.set (tmp, 0, 0) (eval b σ))
      = b2i (if isMax then decide (eval b σ > r) else decide (eval b σ < r)) := by
    simp only [eval, Store.set_same, Store.set_other _ _ (loc_ne 0 0 hne), hres]
    cases isMax <;> simp [evalBin]
  rw [← mm_val]
  intro y hy i j
  simp only [mmStep, exec, hbv]
  rw [hc]
  by_cases hcond : (if isMax then decide (eval b σ > r) else decide (eval b σ < r)) = true
  · simp only [hcond, b2i, if_true]
    rw [if_pos (by decide)]
    simp only [exec, eval, Store.set_same, Store.set_apply]
    split
    · rfl
    · rw [if_neg (loc_ne i j hy)]; rw [hτ y hy i j, Store.set_apply, if_neg (by assumption)]
  · simp only [hcond, b2i]
    rw [if_neg (by decide)]
    simp only [exec, Store.set_apply]
    rw [if_neg (loc_ne i j hy), hτ y hy i j, Store.set_apply]
    simp

theorem exec_mmSteps (isMax : Bool) (res tmp : Nat) (rest : List Expr) (σ : Store) (hne : res ≠ tmp)
    (hargs : ∀ b ∈ rest, ∀ y ∈ vars b, y ≠ res ∧ y ≠ tmp) :
    ∀ (τ : Store) (r : Int), AgreeOn (fun y => y ≠ tmp) τ (σ.set (res, 0, 0) r) →
    AgreeOn (fun y => y ≠ tmp) (exec (mmSteps isMax res tmp rest) τ)
      (σ.set (res, 0, 0) (rest.foldl (fun acc b => evalBin (mmOp isMax) acc (eval b σ)) r)) := by
  induction rest with
  | nil => intro τ r h; exact h
  | cons b rest ih =>
    intro τ r h
    simp only [mmSteps, exec, List.foldl]
    apply ih (fun b' hb' => hargs b' (List.mem_cons_of_mem _ hb'))
    exact exec_mmStep isMax res tmp b σ τ r hne (hargs b List.mem_cons_self) h

theorem exec_mmCode (isMax : Bool) (res tmp : Nat) (a : Expr) (rest : List Expr) (σ : Store) (hne : res ≠ tmp)
    (hargs : ∀ b ∈ rest, ∀ y ∈ vars b, y ≠ res ∧ y ≠ tmp) :
    AgreeOn (fun y => ¬ (y = tmp)) (exec (mmCode isMax res tmp a rest) σ)
      (σ.set (res, 0, 0) (eval (mmExpr isMax a rest) σ)) := by
  rw [eval_mmExpr]
  simp only [mmCode, exec]
  exact exec_mmSteps isMax res tmp rest σ hne hargs _ _ (AgreeOn.refl _ _)


theorem Sec.eval_ref (s : Sec) (e : Expr) (τ : Store) : eval (s.ref e) τ = τ (s.loc (eval e τ) τ) := by
  unfold Sec.ref Sec.loc; cases s.fix <;> rfl

theorem Sec.exec_store (s : Sec) (e rhs : Expr) (τ : Store) :
    exec (s.store e rhs) τ = τ.set (s.loc (eval e τ) τ) (eval rhs τ) := by
  unfold Sec.store Sec.loc; cases s.fix <;> rfl

theorem Sec.loc_fst (s : Sec) (v : Int) (σ : Store) : (s.loc v σ).1 = s.arr := by
  unfold Sec.loc; cases s.fix <;> rfl

theorem Sec.loc_agree {s : Sec} {σ τ : Store} {V : Nat → Prop} (v : Int) (hV : ∀ x ∈ s.fix.vars, V x)
    (h : AgreeOn V σ τ) : s.loc v σ = s.loc v τ := by
  unfold Sec.loc
  cases hf : s.fix with
  | r1 => rfl
  | row j => simp only; rw [eval_agree (e := j) (by simpa [hf, Fix.vars] using hV) h]
  | col i => simp only; rw [eval_agree (e := i) (by simpa [hf, Fix.vars] using hV) h]

/-- the lowered elementwise expression, evaluated in iteration `n` of the loop, is element `n` -/
theorem lower_eval (e : AExpr) (l : Sec) (idx : Nat) (σ τ : Store) (n : Nat) (V : Nat → Prop)
    (hstride : ∀ s ∈ e.secs, s.st = l.st)
    (hidx : τ (idx, 0, 0) = eval l.lo σ + n * eval l.st σ)
    (hV : ∀ x ∈ e.svars ++ vars l.lo, V x) (hag : AgreeOn V τ σ)
    (hsec : ∀ s ∈ e.secs, τ (s.loc (eval s.lo σ + n * eval s.st σ) σ)
        = σ (s.loc (eval s.lo σ + n * eval s.st σ) σ)) :
    eval (e.lower idx l) τ = e.evalAt σ n := by
  induction e with
  | sc x =>
    simp only [AExpr.lower, AExpr.evalAt]
    exact eval_agree (fun y hy => hV y (by simp [AExpr.svars, hy])) hag
  | sec s =>
    have hst : s.st = l.st := hstride s (by simp [AExpr.secs])
    have hlo : eval s.lo τ = eval s.lo σ :=
      eval_agree (fun y hy => hV y (by simp [AExpr.svars, Sec.svars, hy])) hag
    have hllo : eval l.lo τ = eval l.lo σ := eval_agree (fun y hy => hV y (by simp [hy])) hag
    have hi : eval (idxExpr idx l s) τ = eval s.lo σ + n * eval s.st σ := by
      unfold idxExpr
      split
      · next h => simp only [eval, hidx, h.1, hst]
      · simp only [eval, evalBin, hidx, hlo, hllo, hst]; omega
    simp only [AExpr.lower, AExpr.evalAt, Sec.at, Sec.eval_ref, hi]
    rw [Sec.loc_agree (σ := τ) (τ := σ) _ (fun y hy => hV y (by simp [AExpr.svars, Sec.svars, hy])) hag]
    exact hsec s (by simp [AExpr.secs])
  | un op a ih =>
    simp only [AExpr.lower, AExpr.evalAt, eval]
    rw [ih (fun s hs => hstride s (by simpa [AExpr.secs] using hs))
      (fun y hy => hV y (by simpa [AExpr.svars] using hy))
      (fun s hs => hsec s (by simpa [AExpr.secs] using hs))]
  | bin op a b iha ihb =>
    simp only [AExpr.lower, AExpr.evalAt, eval]
    rw [iha (fun s hs => hstride s (by simp [AExpr.secs, hs]))
      (fun y hy => hV y (by simp only [AExpr.svars, List.mem_append] at hy ⊢; rcases hy with h | h <;> simp [h]))
      (fun s hs => hsec s (by simp [AExpr.secs, hs])),
      ihb (fun s hs => hstride s (by simp [AExpr.secs, hs]))
      (fun y hy => hV y (by simp only [AExpr.svars, List.mem_append] at hy ⊢; rcases hy with h | h <;> simp [h]))
      (fun s hs => hsec s (by simp [AExpr.secs, hs]))]

theorem writeVals_other (f : Int → Loc) (g : Int → Int) (n : Nat) (σ : Store) (l : Loc)
    (h : ∀ k : Nat, k < n → f k ≠ l) : writeVals f g n σ l = σ l := by
  induction n with
  | zero => rfl
  | succ n ih =>
    simp only [writeVals]
    rw [Store.set_other _ _ (Ne.symm (h n (by omega)))]
    exact ih (fun k hk => h k (by omega))

end C06

namespace C06
open MiniF

/-- distinct elements of sections with the same ranges are distinct locations -/
theorem Sec.loc_ne_of_sameRanges (l s : Sec) (σ : Store) (lo st : Int) (n k : Nat)
    (hk : s.fix.kind = l.fix.kind) (hst : st ≠ 0) (hkn : k ≠ n) :
    l.loc (lo + k * st) σ ≠ s.loc (lo + n * st) σ := by
  have hne : lo + (k:Int) * st ≠ lo + (n:Int) * st := by
    intro h
    have h' : ((k:Int) - n) * st = 0 := by rw [Int.sub_mul]; omega
    rcases Int.mul_eq_zero.mp h' with h0 | h0
    · omega
    · exact hst h0
  unfold Sec.loc
  cases hl : l.fix <;> cases hs : s.fix <;> simp_all [Fix.kind]

theorem AExpr.svars_sub_allvars (e : AExpr) (x : Nat) (hx : x ∈ e.svars) : x ∈ e.allvars := by
  induction e with
  | sc e => simpa [AExpr.svars, AExpr.allvars] using hx
  | sec s => simp only [AExpr.svars] at hx; simp [AExpr.allvars, hx]
  | un op e ih => exact ih hx
  | bin op p q ihp ihq =>
    simp only [AExpr.svars, AExpr.allvars, List.mem_append] at hx ⊢
    rcases hx with h | h
    · exact Or.inl (ihp h)
    · exact Or.inr (ihq h)

theorem AExpr.secs_arr_allvars (e : AExpr) (s : Sec) (hs : s ∈ e.secs) : s.arr ∈ e.allvars := by
  induction e with
  | sc e => simp [AExpr.secs] at hs
  | sec s' => simp only [AExpr.secs, List.mem_singleton] at hs; subst hs; simp [AExpr.allvars]
  | un op e ih => exact ih hs
  | bin op p q ihp ihq =>
    simp only [AExpr.secs, AExpr.allvars, List.mem_append] at hs ⊢
    rcases hs with h | h
    · exact Or.inl (ihp h)
    · exact Or.inr (ihq h)

/-- the loop produced by ArrayAssignment2LoopsTrans, iteration by iteration -/
theorem applyAA_iters (idx : Nat) (a : AAIn) (σ : Store)
    (hstride : ∀ s ∈ a.rhs.secs, s.st = a.lhs.st)
    (hsame : ∀ s ∈ a.rhs.secs, s.arr = a.lhs.arr → s.fix.kind = a.lhs.fix.kind ∧ s.lo = a.lhs.lo)
    (hsc : a.lhs.arr ∉ a.rhs.svars ++ a.lhs.svars)
    (hidx : idx ∉ a.lhs.arr :: (a.lhs.svars ++ a.rhs.allvars))
    (hst : eval a.lhs.st σ ≠ 0) (n : Nat) :
    AgreeOn (fun y => y ≠ idx)
      (iters (exec (a.lhs.store (.var idx) (a.rhs.lower idx a.lhs))) idx (eval a.lhs.lo σ) (eval a.lhs.st σ) n 0 σ)
      (writeVals (fun k => a.lhs.loc (eval a.lhs.lo σ + k * eval a.lhs.st σ) σ)
        (fun k => a.rhs.evalAt σ k) n σ) := by
  induction n with
  | zero => exact AgreeOn.refl _ _
  | succ n ih =>
    rw [iters_succ_last]
    simp only [writeVals, Int.zero_add]
    generalize hτ : iters (exec (a.lhs.store (.var idx) (a.rhs.lower idx a.lhs))) idx (eval a.lhs.lo σ)
      (eval a.lhs.st σ) n 0 σ = τn at ih ⊢
    generalize hw : writeVals (fun k => a.lhs.loc (eval a.lhs.lo σ + k * eval a.lhs.st σ) σ)
      (fun k => a.rhs.evalAt σ k) n σ = wn at ih
    simp only [List.mem_cons, List.mem_append, not_or] at hidx hsc
    -- the store at the start of iteration n
    let τ := τn.set (idx, 0, 0) (eval a.lhs.lo σ + n * eval a.lhs.st σ)
    have hτw : AgreeOn (fun y => y ≠ idx) τ wn := by
      intro y hy i j
      show (τn.set _ _) _ = _
      rw [Store.set_other _ _ (loc_ne i j hy)]; exact ih y hy i j
    -- outside the lhs array and idx nothing changed
    have hwσ : ∀ l : Loc, l.1 ≠ a.lhs.arr → wn l = σ l := by
      intro l hl
      rw [← hw]
      apply writeVals_other
      intro k _ h
      apply hl; rw [← h, Sec.loc_fst]
    have hτσ : AgreeOn (fun y => y ≠ idx ∧ y ≠ a.lhs.arr) τ σ := by
      intro y hy i j
      rw [hτw y hy.1 i j]; exact hwσ _ hy.2
    have hval : eval (a.rhs.lower idx a.lhs) τ = a.rhs.evalAt σ n := by
      apply lower_eval a.rhs a.lhs idx σ τ n (fun y => y ≠ idx ∧ y ≠ a.lhs.arr) hstride
      · show (τn.set _ _) _ = _; rw [Store.set_same]
      · intro x hx
        simp only [List.mem_append] at hx
        constructor
        · intro h; subst h
          rcases hx with hx | hx
          · exact hidx.2.2 (AExpr.svars_sub_allvars _ _ hx)
          · exact hidx.2.1 (by simp [Sec.svars, hx])
        · intro h; subst h
          rcases hx with hx | hx
          · exact hsc.1 hx
          · exact hsc.2 (by simp [Sec.svars, hx])
      · exact hτσ
      · intro s hs
        have hsi : s.arr ≠ idx := by
          intro h; apply hidx.2.2; rw [← h]; exact AExpr.secs_arr_allvars _ _ hs
        have hl1 : (s.loc (eval s.lo σ + n * eval s.st σ) σ).1 = s.arr := Sec.loc_fst _ _ _
        generalize hL : s.loc (eval s.lo σ + n * eval s.st σ) σ = L at hl1
        obtain ⟨y, i, j⟩ := L
        simp only at hl1
        rw [hτw y (by rw [hl1]; exact hsi) i j]
        by_cases hA : s.arr = a.lhs.arr
        · rw [← hw]
          apply writeVals_other
          intro k hk
          have := hsame s hs hA
          rw [← hL, hstride s hs, this.2]
          exact Sec.loc_ne_of_sameRanges a.lhs s σ _ _ n k this.1 hst (by omega)
        · exact hwσ _ (by simp only; rw [hl1]; exact hA)
    rw [Sec.exec_store]
    have hloc : a.lhs.loc (eval (.var idx) τ) τ = a.lhs.loc (eval a.lhs.lo σ + n * eval a.lhs.st σ) σ := by
      have : eval (.var idx) τ = eval a.lhs.lo σ + n * eval a.lhs.st σ := by
        show (τn.set _ _) _ = _; rw [Store.set_same]
      rw [this]
      apply Sec.loc_agree _ _ hτσ
      intro x hx
      constructor
      · intro h; subst h; exact hidx.2.1 (by simp [Sec.svars, hx])
      · intro h; subst h; exact hsc.2 (by simp [Sec.svars, hx])
    rw [hloc, hval]
    exact hτw.set _ _

end C06
