import PsyVerif.Lemmas.HaloRun
/-! # C22 — semantic step lemmas for the global induction -/
namespace C22

/-- reads for which only annexed dofs matter (`_create_depth_list`, first loop) -/
def annexedType (i : ReadInfo) : Prop :=
  i.annexedOnly = true ∨ (i.lit = 1 ∧ i.needsCleanOuter = false)

theorem mergeDepth_noAnnexed (v : Option Nat) (l : Nat) : ∀ acc : List HaloDepth,
    (∀ e ∈ acc, e.annexedOnly = false) → ∀ e ∈ mergeDepth acc v l, e.annexedOnly = false
  | [], _ => by
    simp only [mergeDepth]
    split <;> simp
  | d :: ds, h => by
    simp only [mergeDepth]
    split
    · intro e he
      simp at he
      rcases he with rfl | he
      · exact h d (by simp)
      · exact h e (by simp [he])
    · intro e he
      simp at he
      rcases he with rfl | he
      · exact h e (by simp)
      · exact mergeDepth_noAnnexed v l ds (fun e he' => h e (by simp [he'])) e he

theorem foldl_dstep_noAnnexed : ∀ (infos : List ReadInfo) (acc : List HaloDepth),
    (∀ e ∈ acc, e.annexedOnly = false) → ∀ e ∈ infos.foldl dstep acc, e.annexedOnly = false
  | [], acc, h => by simpa using h
  | j :: js, acc, h => by
    simp only [List.foldl_cons]
    apply foldl_dstep_noAnnexed js
    unfold dstep
    split
    · exact h
    · exact mergeDepth_noAnnexed _ _ acc h

theorem depthList_annexed (infos : List ReadInfo) (r0 : HaloDepth) (h : depthList infos = [r0])
    (ha : r0.annexedOnly = true) : ∀ i ∈ infos, annexedType i := by
  rw [depthList_eq] at h
  split at h
  · rename_i hall
    intro i hi
    have := List.all_eq_true.mp hall i hi
    simp at this
    exact this
  · split at h
    · cases h; simp at ha
    · have : r0 ∈ infos.foldl dstep
          (if infos.any (fun i => i.maxDepth) then [⟨0, none, false, true, false⟩] else []) := by
        rw [h]; simp
      have hno := foldl_dstep_noAnnexed infos _ (by split <;> simp) r0 this
      rw [hno] at ha
      cases ha

theorem required_none (cfg : Cfg) (req : List HaloDepth) (kn : Bool)
    (h : required cfg req none = (false, kn)) :
    cfg.annexed = true ∧ ∃ r0, req = [r0] ∧ r0.annexedOnly = true := by
  unfold required at h
  rcases req with _ | ⟨r0, _ | ⟨r1, rs⟩⟩ <;> simp at h
  · split at h <;> simp_all

/-- the defect class of known finding `C22-inc-to-max-depth-h1` -/
def incMaxPattern (k : Kern) (b : Bound) (a : Arg) : Bool :=
  !k.dofKernel && b.lvl == .haloMax && a.access == .inc

/-- a reader for which only annexed dofs matter needs no halo depth -/
theorem annexedType_need (H : Nat) (env : Nat → Nat) (cont : Bool) (k : Kern) (b : Bound) (a : Arg)
    (hok : ReaderOK b a) (ht : annexedType (readInfo k b a)) :
    (specNeed H env cont k b a).depth = 0 := by
  obtain ⟨lvl, col⟩ := b
  obtain ⟨f, acc, disc, st⟩ := a
  obtain ⟨dof, args⟩ := k
  obtain ⟨h1, h2, h3⟩ := hok
  generalize haw : Kern.allWrites ⟨dof, args⟩ = aw
  unfold annexedType at ht
  cases lvl
  case halo d =>
    have hd0 : d ≠ 0 := by simp [Level.wf] at h2; omega
    rcases st with _ | ⟨n | v⟩ <;> cases dof <;> cases acc <;>
      simp_all [specNeed, readInfo, lvlOf, Level.isHalo, Level.litDepth, Access.reads, extentVal] <;>
      omega
  all_goals
    rcases st with _ | ⟨n | v⟩ <;> cases dof <;> cases acc <;> cases col <;> cases disc <;> cases aw <;>
      simp_all [specNeed, readInfo, lvlOf, Level.isHalo, Level.litDepth, Access.reads, extentVal]

/-- a reader that PSyclone considers for a halo exchange either is a `GH_INC` argument one level
into the halo (annexed dofs only; it also writes) or requires a positive depth -/
theorem hra_cases (cfg : Cfg) (H : Nat) (env : Nat → Nat) (k : Kern) (b : Bound) (a : Arg)
    (hra : haloReadAccess cfg k b a = true) (hok : ReaderOK b a) (hext : a.extOK)
    (henv : ExtOK env) (hH : 1 ≤ H) (hmax : incMaxPattern k b a = true → 2 ≤ H)
    (hb : b.ok cfg k) :
    ((readInfo k b a).lit = 1 ∧ (readInfo k b a).needsCleanOuter = false ∧
        a.access.writes = true) ∨ 1 ≤ infoNeed H env (readInfo k b a) := by
  obtain ⟨lvl, col⟩ := b
  obtain ⟨f, acc, disc, st⟩ := a
  obtain ⟨dof, args⟩ := k
  obtain ⟨h1, h2, h3⟩ := hok
  obtain ⟨hb1, hb2, hb3⟩ := hb
  obtain ⟨ann⟩ := cfg
  generalize haw : Kern.allWrites ⟨dof, args⟩ = aw at *
  cases lvl
  case halo d =>
    have hd0 : d ≠ 0 := by simp [Level.wf] at h2; omega
    rcases st with _ | ⟨n | v⟩ <;> cases dof <;> cases acc <;>
      simp_all [haloReadAccess, readInfo, infoNeed, infoAdj, lvlOf, Level.isHalo, Level.litDepth,
        Access.reads, Access.writes, envv, Arg.extOK, incMaxPattern] <;>
      (try (have := henv v)) <;> omega
  all_goals
    rcases st with _ | ⟨n | v⟩ <;> cases dof <;> cases acc <;> cases col <;> cases disc <;> cases aw <;>
      cases ann <;>
      simp_all [haloReadAccess, readInfo, infoNeed, infoAdj, lvlOf, Level.isHalo, Level.litDepth,
        Access.reads, Access.writes, envv, Arg.extOK, incMaxPattern] <;>
      (try (have := henv v)) <;> omega

/-- the depth of an exchange whose first reader is considered for an exchange is positive -/
theorem depthList_head_pos (H : Nat) (env : Nat → Nat) (i : ReadInfo) (is : List ReadInfo)
    (h : (i.lit = 1 ∧ i.needsCleanOuter = false ∧ is = []) ∨
         (1 ≤ infoNeed H env i ∧ InfoWF i ∧ infoNeed H env i ≤ H)) :
    1 ≤ evalDepths H env (depthList (i :: is)) := by
  rcases h with ⟨h1, h2, rfl⟩ | ⟨h1, h2, h3⟩
  · rw [depthList_eq]
    simp [h1, h2, evalDepths, evalDepth]
  · exact Nat.le_trans h1 (depthList_covers H env (i :: is) i (by simp) h2 h3)

/-- case "only annexed dofs, writer one level into the halo" of `required_sound` -/
theorem specAfter_halo1_ann (H : Nat) (k : Kern) (b : Bound) (a : Arg) (old : FState)
    (hH : 1 ≤ H) (hb : b.lvl.wf) (hl : (writeInfo k b a).lit = 1)
    (hd : (writeInfo k b a).dirtyOuter = true) :
    (specAfter H true k b a old).ann = true := by
  obtain ⟨lvl, col⟩ := b
  obtain ⟨f, acc, disc, st⟩ := a
  obtain ⟨dof, args⟩ := k
  cases lvl
  case halo d =>
    have hd0 : d ≠ 0 := by simp [Level.wf] at hb; omega
    cases dof <;> cases disc <;> cases acc <;>
      simp_all [writeInfo, specAfter, lvlOf, Level.isHalo, Level.litDepth]
  all_goals simp_all [writeInfo, Level.isHalo, Level.litDepth]

/-- a cell loop into the halo that modifies a field not known to be discontinuous leaves its
annexed dofs clean -/
theorem specAfter_dirty_ann (H : Nat) (k : Kern) (b : Bound) (a : Arg) (old : FState)
    (hH : 1 ≤ H) (hb : b.lvl.wf) (hd : (writeInfo k b a).dirtyOuter = true) :
    (specAfter H true k b a old).ann = true := by
  obtain ⟨lvl, col⟩ := b
  obtain ⟨f, acc, disc, st⟩ := a
  obtain ⟨dof, args⟩ := k
  have hH0 : H ≠ 0 := by omega
  cases lvl
  case halo d =>
    have hd0 : d ≠ 0 := by simp [Level.wf] at hb; omega
    cases dof <;> cases disc <;> cases acc <;>
      simp_all [writeInfo, specAfter, lvlOf, Level.isHalo, Level.litDepth]
  all_goals
    cases dof <;> cases disc <;> cases acc <;>
      simp_all [writeInfo, specAfter, lvlOf, Level.isHalo, Level.litDepth]

/-- case "the writer cleaned the whole halo" of `required_sound` -/
theorem specAfter_whole (H : Nat) (cont : Bool) (k : Kern) (b : Bound) (a : Arg) (old : FState)
    (hb : b.lvl.wf) (hdc : a.disc = true → cont = false) (hacc : a.accOK)
    (hw : a.access.writes = true)
    (hm : (writeInfo k b a).maxDepth = true) (hd : (writeInfo k b a).dirtyOuter = false) :
    H ≤ (specAfter H cont k b a old).cd ∧ (specAfter H cont k b a old).ann = true := by
  obtain ⟨lvl, col⟩ := b
  obtain ⟨f, acc, disc, st⟩ := a
  obtain ⟨dof, args⟩ := k
  obtain ⟨oa, ocd⟩ := old
  cases lvl
  case halo d =>
    have hd0 : d ≠ 0 := by simp [Level.wf] at hb; omega
    simp_all [writeInfo, Level.isHalo, Level.litDepth]
  case haloMax =>
    cases dof <;> cases disc <;> cases cont <;> cases acc <;>
      simp_all [writeInfo, specAfter, lvlOf, Level.isHalo, Level.litDepth, Access.writes,
        Arg.accOK] <;> omega
  all_goals simp_all [writeInfo, Level.isHalo, Level.litDepth]

/-- with COMPUTE_ANNEXED_DOFS every writer of a continuous field leaves its annexed dofs clean -/
theorem specAfter_mode (H : Nat) (k : Kern) (b : Bound) (a : Arg) (old : FState)
    (hH : 1 ≤ H) (hb : b.lvl.wf) (hnd : a.disc = false)
    (hdof : k.dofKernel = true → b.lvl ≠ .owned)
    (hcell : k.dofKernel = false → a.access ≠ .write → b.lvl.isHalo = true) :
    (specAfter H true k b a old).ann = true := by
  obtain ⟨lvl, col⟩ := b
  obtain ⟨f, acc, disc, st⟩ := a
  obtain ⟨dof, args⟩ := k
  have hH0 : H ≠ 0 := by omega
  cases lvl
  case halo d =>
    have hd0 : d ≠ 0 := by simp [Level.wf] at hb; omega
    cases dof <;> cases acc <;>
      simp_all [specAfter, lvlOf, Level.isHalo]
  all_goals
    cases dof <;> cases acc <;> simp_all [specAfter, lvlOf, Level.isHalo]

end C22
