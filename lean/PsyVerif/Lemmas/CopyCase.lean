import PsyVerif.Model.CopyCase
import PsyVerif.Lemmas.Copy
/-! C15: lemmas about re-pointing by (normalised) name; see `Model/CopyCase.lean`. -/
namespace C15

variable (lower : Nat → Nat) (W : World)

theorem getKey_mem {l : List Nat} {k t : Nat} (h : getKey lower W l k = some t) :
    t ∈ l ∧ key lower W t = k := by
  unfold getKey at h
  refine ⟨List.mem_of_find?_eq_some h, ?_⟩
  have := List.find?_some h
  simpa using this

/-- a dict read with the key of one of the table's own symbols returns that very symbol -/
theorem getKey_self {l : List Nat} (hk : KeysDistinct lower W l) {s : Nat} (hs : s ∈ l) :
    getKey lower W l (key lower W s) = some s := by
  induction l with
  | nil => cases hs
  | cons a l ih =>
    unfold KeysDistinct at hk
    rw [List.map_cons, List.nodup_cons] at hk
    unfold getKey
    rw [List.find?_cons]
    by_cases ha : a = s
    · subst ha; simp
    · have hs' : s ∈ l := by
        rcases List.mem_cons.mp hs with h | h
        · exact absurd h.symm ha
        · exact h
      have hne : key lower W a ≠ key lower W s := by
        intro he
        exact hk.1 (he ▸ List.mem_map.mpr ⟨s, hs', rfl⟩)
      have : (key lower W a == key lower W s) = false := by simpa using hne
      rw [this]
      exact ih hk.2 hs'

theorem getKey_is_iff {l : List Nat} (hk : KeysDistinct lower W l) (s : Nat) :
    (getKey lower W l (key lower W s) == some s) = l.contains s := by
  by_cases hs : s ∈ l
  · rw [getKey_self lower W hk hs]; simp [hs]
  · have : getKey lower W l (key lower W s) ≠ some s := fun h => hs (getKey_mem lower W h).1
    simp [hs, this]

theorem lookupNew_self {l : List Nat} (hk : KeysDistinct lower W l) {s : Nat} (hs : s ∈ l) (off : Nat) :
    lookupNew lower W l off (W.name s) = some (s + off) := by
  unfold lookupNew
  have := getKey_self lower W hk hs
  unfold key at this
  rw [this]; rfl

theorem repoint_eq {l : List Nat} (hk : KeysDistinct lower W l) (off s : Nat) :
    repoint lower W l off s = rho l off s := by
  unfold repoint rho
  by_cases hs : s ∈ l
  · simp [hs, lookupNew_self lower W hk hs]
  · simp [hs]

theorem localise_eq {l : List Nat} (hk : KeysDistinct lower W l) (off s : Nat) :
    localise lower W l off s = rho l off s := by
  unfold localise rho
  rw [getKey_is_iff lower W hk]
  by_cases hs : s ∈ l
  · simp [hs, lookupNew_self lower W hk hs]
  · simp [hs]

theorem rho_flatten_mem {ts : List (List Nat)} {l : List Nat} (hl : l ∈ ts) {s : Nat} (hs : s ∈ l) (off : Nat) :
    rho ts.flatten off s = s + off :=
  rho_mem (List.mem_flatten.mpr ⟨l, hl, hs⟩)

/-- re-pointing by name = positional re-pointing, when the tables have distinct keys -/
theorem rhoL_eq {ts : List (List Nat)} (hk : ∀ l ∈ ts, KeysDistinct lower W l) (off s : Nat) :
    rhoL lower W ts off s = rho ts.flatten off s := by
  unfold rhoL
  cases hf : ts.find? (·.contains s) with
  | some l =>
    have hl : l ∈ ts := List.mem_of_find?_eq_some hf
    have hs : s ∈ l := by simpa using List.find?_some hf
    simp only
    rw [repoint_eq lower W (hk l hl), rho_mem hs, rho_flatten_mem hl hs]
  | none =>
    simp only
    have : s ∉ ts.flatten := by
      intro h
      obtain ⟨l, hl, hs⟩ := List.mem_flatten.mp h
      have := List.find?_eq_none.mp hf l hl
      simp [hs] at this
    rw [rho_not_mem this]

theorem rhoTL_eq {ts : List (List Nat)} (hk : ∀ l ∈ ts, KeysDistinct lower W l) (off s : Nat) :
    rhoTL lower W ts off s = rho ts.flatten off s := by
  unfold rhoTL
  cases hf : ts.find? (fun l => getKey lower W l (key lower W s) == some s) with
  | some l =>
    have hl : l ∈ ts := List.mem_of_find?_eq_some hf
    have hs : s ∈ l := by
      have := List.find?_some hf
      rw [getKey_is_iff lower W (hk l hl)] at this
      simpa using this
    simp only
    rw [localise_eq lower W (hk l hl), rho_mem hs, rho_flatten_mem hl hs]
  | none =>
    simp only
    have : s ∉ ts.flatten := by
      intro h
      obtain ⟨l, hl, hs⟩ := List.mem_flatten.mp h
      have := List.find?_eq_none.mp hf l hl
      rw [getKey_is_iff lower W (hk l hl)] at this
      simp [hs] at this
    rw [rho_not_mem this]

/-- a dict read with the spelling of a mixed-case symbol never returns that symbol -/
theorem getKey_raw_mixed {l : List Nat} {s : Nat} (hm : MixedCase lower W s)
    (hidem : lower (lower (W.name s)) = lower (W.name s)) :
    getKey lower W l (W.name s) ≠ some s := by
  intro h
  have := (getKey_mem lower W h).2
  unfold key at this
  unfold MixedCase at hm
  exact hm (by rw [← this]; exact hidem)

/-- hence the raw variant leaves every use of a mixed-case symbol where it was -/
theorem rhoRaw_mixed (ts : List (List Nat)) (off : Nat) {s : Nat} (hm : MixedCase lower W s)
    (hidem : lower (lower (W.name s)) = lower (W.name s)) :
    rhoRaw lower W ts off s = s := by
  unfold rhoRaw
  cases hf : ts.find? (fun l => getKey lower W l (W.name s) == some s) with
  | some l =>
    have := List.find?_some hf
    simp only [beq_iff_eq] at this
    exact absurd this (getKey_raw_mixed lower W hm hidem)
  | none => rfl

theorem owned_eq_tables (F : Forest) : F.owned = F.tables.flatten := by
  induction F with
  | nil => rfl
  | cons n k r ihk ihr =>
    simp only [Forest.owned, Forest.tables, List.flatten_append, ihk, ihr, NodeRec.tab]
    cases n.table <;> simp

theorem rhoT_true (own : List Nat) (off : Nat) : rhoT true own off = rho own off := by
  funext s; simp [rhoT]

/-- `copyG` with the positional maps is `copy` (mode: datatype repair present) -/
theorem copyG_rho (ifc : Bool) (r : Nat) :
    copyG (rho (findIn r W.trees).owned W.nsym) (rho (findIn r W.trees).owned W.nsym) ifc W r
      = copy ⟨true, ifc⟩ W r := by
  have hn : copyNodeG (rho (findIn r W.trees).owned W.nsym) (rho (findIn r W.trees).owned W.nsym)
      (findIn r W.trees).owned W.nnode W.nsym = copyNode true (findIn r W.trees).owned W.nnode W.nsym := by
    funext n; simp [copyNodeG, copyNode, rhoT_true]
  have he : copyENodeG (rho (findIn r W.trees).owned W.nsym) W.nnode
      = copyENode true (findIn r W.trees).owned W.nnode W.nsym := by
    funext n; simp [copyENodeG, copyENode, rhoT_true]
  unfold copyG copy copyTreeG copyTree
  simp only [hn, he, rhoT_true, if_true]

theorem copyTreeG_rho (ifc : Bool) (r : Nat) :
    copyTreeG (rho (findIn r W.trees).owned W.nsym) (rho (findIn r W.trees).owned W.nsym) W r
      = copyTree ⟨true, ifc⟩ W r := by
  have hn : copyNodeG (rho (findIn r W.trees).owned W.nsym) (rho (findIn r W.trees).owned W.nsym)
      (findIn r W.trees).owned W.nnode W.nsym = copyNode true (findIn r W.trees).owned W.nnode W.nsym := by
    funext n; simp [copyNodeG, copyNode, rhoT_true]
  unfold copyTreeG copyTree
  simp only [hn]

theorem syms_map_copyG (ρ ρT : Nat → Nat) (own : List Nat) (no so : Nat) (F : Forest) :
    (F.map (copyNodeG ρ ρT own no so)).syms = F.syms.map ρ := by
  induction F with
  | nil => rfl
  | cons n k r ihk ihr =>
    simp only [Forest.map, Forest.syms, ihk, ihr, List.map_append, copyNodeG]
    cases n.sym <;> simp

theorem tables_map_copy (fx : Bool) (own : List Nat) (no so : Nat) (F : Forest) :
    (F.map (copyNode fx own no so)).tables = F.tables.map (·.map (rho own so)) := by
  induction F with
  | nil => rfl
  | cons n k r ihk ihr =>
    simp only [Forest.map, Forest.tables, ihk, ihr, List.map_append, copyNode]
    cases n.table <;> simp

theorem mem_tables_owned {F : Forest} {l : List Nat} (hl : l ∈ F.tables) {s : Nat} (hs : s ∈ l) :
    s ∈ F.owned := by
  rw [owned_eq_tables]
  exact List.mem_flatten.mpr ⟨l, hl, hs⟩

end C15
