import PsyVerif.Lemmas.DeclsModule
/-! C03, module scope: the visibility recovered from the access statements, and the access statements
of the re-read table are a permutation of the original ones. -/
namespace Decls

/-- the container of an imported symbol is in the table -/
def importOk (syms : List Sym) (s : Sym) : Bool :=
  match s.cls with
  | .imported c => syms.any (fun t => t.name == c && isContainer t)
  | _ => true

/-- side conditions on a module table (all decidable):
routine symbols are interface blocks or the contained routines; the contained routines are listed
once and have a symbol; unresolved symbols have the default visibility (they are not named by an
access statement); the container of every imported symbol is in the table. -/
structure ModuleCanon (u : Unit) : Prop where
  routinesNodup : u.routines.Nodup
  routineSyms : ∀ s ∈ u.syms, s.routine = true → s.cls = .iface ∨ (s.cls = .skipped ∧ s.name ∈ u.routines)
  routinesHave : ∀ n ∈ u.routines, ∃ s ∈ u.syms, s.name = n ∧ s.cls = .skipped ∧ s.routine = true
  unresolvedDefault : ∀ s ∈ u.syms, s.cls = .unresolved → s.pub = !u.defPrivate
  importsOk : ∀ s ∈ u.syms, importOk u.syms s = true

instance (u : Unit) : Decidable (ModuleCanon u) :=
  if h : u.routines.Nodup ∧
      (∀ s ∈ u.syms, s.routine = true → s.cls = .iface ∨ (s.cls = .skipped ∧ s.name ∈ u.routines)) ∧
      (∀ n ∈ u.routines, ∃ s ∈ u.syms, s.name = n ∧ s.cls = .skipped ∧ s.routine = true) ∧
      (∀ s ∈ u.syms, s.cls = .unresolved → s.pub = !u.defPrivate) ∧
      (∀ s ∈ u.syms, importOk u.syms s = true)
  then isTrue ⟨h.1, h.2.1, h.2.2.1, h.2.2.2.1, h.2.2.2.2⟩
  else isFalse (fun m => h ⟨m.routinesNodup, m.routineSyms, m.routinesHave, m.unresolvedDefault, m.importsOk⟩)

theorem ModuleCanon.importsClosed {u : Unit} (m : ModuleCanon u) {s : Sym} (hs : s ∈ u.syms) {c : Name}
    (hc : s.cls = .imported c) : ∃ t ∈ u.syms, t.name = c ∧ isContainer t = true := by
  have := m.importsOk s hs
  unfold importOk at this
  rw [hc] at this
  simp only [List.any_eq_true, Bool.and_eq_true, beq_iff_eq] at this
  exact this

variable {u : Unit} {ds : List Sym} {items : List Item}

theorem mem_accessNames {l : List Sym} {p : Sym → Bool} {n : Name} :
    n ∈ names ((l.filter accessible).filter p) ↔ ∃ s ∈ l, s.name = n ∧ accessible s = true ∧ p s = true := by
  simp only [names, List.mem_map, List.mem_filter]
  constructor
  · rintro ⟨s, ⟨⟨h1, h2⟩, h3⟩, h4⟩; exact ⟨s, h1, h4, h2, h3⟩
  · rintro ⟨s, h1, h4, h2, h3⟩; exact ⟨s, ⟨⟨h1, h2⟩, h3⟩, h4⟩

/-- the visibility the reader gives to a name is the visibility of the (accessible) symbol of that name -/
theorem visOf_accessible (w : Wf u) (h : ModText u ds items) {s : Sym} (hs : s ∈ u.syms)
    (ha : accessible s = true) : visOf items s.name = s.pub := by
  obtain ⟨e1, e2⟩ := h.explicit
  unfold visOf
  rw [e1, e2, h.defPrivate]
  unfold accessLists
  have hnil : ∀ n : Name, (isort ([] : List Name)).contains n = false := fun n => by simp [isort]
  have cpos : ∀ {X : List Name}, s.name ∈ X → (isort X).contains s.name = true := fun hX =>
    List.contains_iff_mem.mpr (mem_isort.mpr hX)
  have cneg : ∀ {X : List Name}, s.name ∉ X → (isort X).contains s.name = false := fun hX => by
    rw [Bool.eq_false_iff]; intro h'; exact hX (mem_isort.mp (List.contains_iff_mem.mp h'))
  cases hdp : u.defPrivate with
  | true =>
    simp only [if_true]
    cases hp : s.pub with
    | true =>
      have : s.name ∈ names ((u.syms.filter accessible).filter (·.pub)) :=
        mem_accessNames.mpr ⟨s, hs, rfl, ha, hp⟩
      rw [cpos this]; rfl
    | false =>
      have : s.name ∉ names ((u.syms.filter accessible).filter (·.pub)) := by
        intro hc
        obtain ⟨t, ht, htn, _, htp⟩ := mem_accessNames.mp hc
        rw [eq_of_name_eq w.nodup ht hs htn] at htp
        rw [hp] at htp; cases htp
      rw [cneg this, hnil]; rfl
  | false =>
    simp only [Bool.false_eq_true, if_false]
    cases hp : s.pub with
    | true =>
      have : s.name ∉ names ((u.syms.filter accessible).filter (fun s => !s.pub)) := by
        intro hc
        obtain ⟨t, ht, htn, _, htp⟩ := mem_accessNames.mp hc
        rw [eq_of_name_eq w.nodup ht hs htn] at htp
        rw [hp] at htp; cases htp
      rw [hnil, cneg this]; rfl
    | false =>
      have : s.name ∈ names ((u.syms.filter accessible).filter (fun s => !s.pub)) :=
        mem_accessNames.mpr ⟨s, hs, rfl, ha, by simp [hp]⟩
      rw [hnil, cpos this]; rfl

/-- `use` statements: symbols before the first container / import do not matter -/
theorem genUses_prefix {A S : List Sym} (hA : ∀ s ∈ A, isContainer s = false ∧ ∀ c, isImp c s = false) :
    genUses (A ++ S) = genUses S := by
  have h1 : A.filter isContainer = [] := List.filter_eq_nil_iff.mpr (fun s hs => by simp [(hA s hs).1])
  have h2 : ∀ c, A.filter (fun s => s.cls == Cls.imported c) = [] := fun c =>
    List.filter_eq_nil_iff.mpr (fun s hs => by
      have := (hA s hs).2 c; unfold isImp at this; simp [this])
  unfold genUses
  simp only [List.filter_append, h1, h2, List.nil_append]

/-- symbols the reader creates for the contained routines -/
def routineTab (items : List Item) (rs : List Name) : List Sym :=
  rs.map fun n => { name := n, cls := .skipped, routine := true, pub := visOf items n }

/-- symbols the reader creates for the `use` statements of `u` -/
def useTab (u : Unit) (items : List Item) : List Sym :=
  (u.syms.filter isContainer).flatMap
    (blk (visOf items) fun c => isort (names (u.syms.filter fun s => s.cls == .imported c.name)))

theorem ModText.canon (h : ModText u ds items) :
    canonSyms items = routineTab items u.routines ++ useTab u items ++ ds.filter isDtype
      ++ ds.filter (fun s => !isDtype s) := by
  unfold canonSyms routineTab useTab
  rw [h.routines, h.uses, h.decls]

theorem mem_canon (h : ModText u ds items) {s : Sym} :
    s ∈ canonSyms items ↔ s ∈ routineTab items u.routines ∨ s ∈ useTab u items ∨ s ∈ ds := by
  rw [h.canon]
  simp only [List.mem_append, List.mem_filter]
  constructor
  · rintro (((h1 | h1) | h1) | h1)
    · exact Or.inl h1
    · exact Or.inr (Or.inl h1)
    · exact Or.inr (Or.inr h1.1)
    · exact Or.inr (Or.inr h1.1)
  · rintro (h1 | h1 | h1)
    · exact Or.inl (Or.inl (Or.inl h1))
    · exact Or.inl (Or.inl (Or.inr h1))
    · by_cases hd : isDtype s = true
      · exact Or.inl (Or.inr ⟨h1, hd⟩)
      · exact Or.inr ⟨h1, by simpa using hd⟩

/-- The access statements of the re-read module name the same symbols as those of the original one. -/
theorem access_perm (w : Wf u) (mc : ModuleCanon u) (hd : genDecls u = .ok ds) (h : ModText u ds items)
    (hnd : (names (canonSyms items)).Nodup) (p : Sym → Bool) (hp : ∀ a b : Sym, a.pub = b.pub → p a = p b)
    (hun : ∀ s ∈ u.syms, s.cls = .unresolved → p s = false) :
    (names (((canonSyms items).filter accessible).filter p)).Perm
      (names ((u.syms.filter accessible).filter p)) := by
  have hperm := genDecls_perm w hd
  have sub : ∀ l : List Sym, (names l).Nodup → (names ((l.filter accessible).filter p)).Nodup := fun l hl =>
    hl.sublist ((List.filter_sublist.trans List.filter_sublist).map _)
  rw [List.perm_ext_iff_of_nodup (sub _ hnd) (sub _ w.nodup)]
  intro n
  rw [mem_accessNames, mem_accessNames]
  constructor
  · rintro ⟨s', hs', rfl, ha', hp'⟩
    rcases (mem_canon h).mp hs' with h1 | h1 | h1
    · obtain ⟨n, hn, rfl⟩ := List.mem_map.mp h1
      obtain ⟨s, hs, hsn, _, hsr⟩ := mc.routinesHave n hn
      have hacc : accessible s = true := by simp [accessible, hsr]
      refine ⟨s, hs, hsn, hacc, ?_⟩
      rw [← hp', hp s _ ?_]
      show s.pub = visOf items n
      rw [← hsn]; exact (visOf_accessible w h hs hacc).symm
    · obtain ⟨c, hc, hsc⟩ := List.mem_flatMap.mp h1
      simp only [blk, List.mem_cons] at hsc
      rcases hsc with rfl | hsc
      · simp [accessible, headSym] at ha'
      · obtain ⟨n, hn, rfl⟩ := List.mem_map.mp hsc
        rw [mem_isort] at hn
        obtain ⟨s, hsf, hsn⟩ := List.mem_map.mp hn
        obtain ⟨hs, hcl⟩ := List.mem_filter.mp hsf
        have hcl' : s.cls = .imported c.name := by simpa using hcl
        have hacc : accessible s = true := by simp [accessible, hcl']
        refine ⟨s, hs, hsn, hacc, ?_⟩
        rw [← hp', hp s _ ?_]
        show s.pub = visOf items n
        rw [← hsn]; exact (visOf_accessible w h hs hacc).symm
    · have := List.mem_filter.mp (hperm.subset h1)
      exact ⟨s', this.1, rfl, ha', hp'⟩
  · rintro ⟨s, hs, rfl, ha, hps⟩
    by_cases hcu : s.cls = .unresolved
    · rw [hun s hs hcu] at hps; cases hps
    by_cases hr : s.routine = true
    · rcases mc.routineSyms s hs hr with hi | ⟨hsk, hin⟩
      · have : s ∈ ds := hperm.symm.subset (List.mem_filter.mpr ⟨hs, by simp [hi, Cls.declarable]⟩)
        exact ⟨s, (mem_canon h).mpr (Or.inr (Or.inr this)), rfl, ha, hps⟩
      · refine ⟨{ name := s.name, cls := .skipped, routine := true, pub := visOf items s.name },
          (mem_canon h).mpr (Or.inl (List.mem_map.mpr ⟨s.name, hin, rfl⟩)), rfl, by simp [accessible], ?_⟩
        rw [← hps]; apply hp
        exact visOf_accessible w h hs ha
    · cases hcl : s.cls with
      | imported c =>
        obtain ⟨t, ht, htn, htc⟩ := mc.importsClosed hs hcl
        refine ⟨{ name := s.name, cls := .imported t.name, pub := visOf items s.name }, ?_, rfl,
          by simp [accessible], ?_⟩
        · refine (mem_canon h).mpr (Or.inr (Or.inl ?_))
          unfold useTab
          refine List.mem_flatMap.mpr ⟨t, List.mem_filter.mpr ⟨ht, htc⟩, ?_⟩
          simp only [blk, List.mem_cons]
          right
          refine List.mem_map.mpr ⟨s.name, ?_, rfl⟩
          rw [mem_isort]
          exact List.mem_map.mpr ⟨s, List.mem_filter.mpr ⟨hs, by simp [hcl, htn]⟩, rfl⟩
        · rw [← hps]; apply hp
          exact visOf_accessible w h hs ha
      | unresolved => exact absurd hcl hcu
      | container wd => simp [accessible, hr, hcl] at ha
      | skipped => simp [accessible, hr, hcl] at ha
      | routineBad => simp [accessible, hr, hcl] at ha
      | iface => simp [accessible, hr, hcl] at ha
      | param => simp [accessible, hr, hcl] at ha
      | arg => simp [accessible, hr, hcl] at ha
      | dtype => simp [accessible, hr, hcl] at ha
      | other => simp [accessible, hr, hcl] at ha

end Decls
