import PsyVerif.Lemmas.HaloPlace
/-! # C22 — redundant computation (`rcEdit`) preserves valid placement -/
namespace C22

variable (cfg : Cfg) (H : Nat) (env : Nat → Nat) (cont : Bool) (f : Nat)

/-! ## Validity depends on the prefix only through the dependence state of `f` -/

/-- two reversed prefixes give the same dependence state for `f` -/
def Rel (p1 p2 : Sched) : Prop :=
  (bwdDep f p1 = .hex ↔ bwdDep f p2 = .hex) ∧
  (bwdDep f p1 ≠ .hex → bwdWriter f p1 = bwdWriter f p2)

theorem rel_refl (p : Sched) : Rel f p p := ⟨Iff.rfl, fun _ => rfl⟩

theorem rel_cons {p1 p2 : Sched} (x : Item) (h : Rel f p1 p2) : Rel f (x :: p1) (x :: p2) := by
  obtain ⟨h1, h2⟩ := h
  cases x with
  | hex kind g =>
    by_cases hc : (g == f && kind != .start) = true
    · simp [Rel, bwdDep, hc]
    · simp only [Rel, bwdDep, hc, bwdWriter]
      exact ⟨h1, h2⟩
  | loop k b =>
    cases ha : argOf k f with
    | none =>
      simp only [Rel, bwdDep, bwdWriter, ha]
      exact ⟨h1, h2⟩
    | some a =>
      by_cases hw : a.access.writes = true
      · simp [Rel, bwdDep, bwdWriter, ha, hw]
      · simp only [Rel, bwdDep, bwdWriter, ha, hw]
        exact ⟨h1, h2⟩

theorem readOK_congr {p1 p2 : Sched} (h : Rel f p1 p2) (k : Kern) (b : Bound) (a : Arg)
    (hr : ReadOK cfg H env cont f p1 k b a) : ReadOK cfg H env cont f p2 k b a := by
  obtain ⟨h1, h2⟩ := h
  by_cases hx : bwdDep f p1 = .hex
  · exact Or.inl (h1.mp hx)
  · rcases hr with hr | ⟨L, hL, hg, hs⟩
    · exact absurd hr hx
    · right
      refine ⟨L, hL, hg, ?_⟩
      rw [← h2 hx]
      exact hs

theorem validFrom_congr : ∀ (X : Sched) (p1 p2 : Sched), Rel f p1 p2 →
    ValidFrom cfg H env cont f p1 X → ValidFrom cfg H env cont f p2 X
  | [], _, _, _, _ => by simp [ValidFrom]
  | .hex kind g :: X, p1, p2, hrel, hv => by
    simp only [ValidFrom] at hv ⊢
    exact ⟨hv.1, validFrom_congr X _ _ (rel_cons f _ hrel) hv.2⟩
  | .loop k b :: X, p1, p2, hrel, hv => by
    simp only [ValidFrom] at hv ⊢
    refine ⟨fun a ha hra => readOK_congr cfg H env cont f hrel k b a (hv.1 a ha hra), ?_⟩
    exact validFrom_congr X _ _ (rel_cons f _ hrel) hv.2

/-! ## Deleting exchanges of other fields -/

/-- `Y` is `X` with some exchanges of fields other than `f` deleted -/
inductive DropOther : Sched → Sched → Prop
  | nil : DropOther [] []
  | keep (x : Item) {X Y : Sched} : DropOther X Y → DropOther (x :: X) (x :: Y)
  | drop (kind : HexKind) {g : Nat} {X Y : Sched} : g ≠ f → DropOther X Y →
      DropOther (.hex kind g :: X) Y

theorem dropOther_refl : ∀ X : Sched, DropOther f X X
  | [] => .nil
  | x :: X => .keep x (dropOther_refl X)

theorem dropOther_trans {X Y Z : Sched} (h1 : DropOther f X Y) : DropOther f Y Z → DropOther f X Z := by
  induction h1 generalizing Z with
  | nil => intro h; exact h
  | keep x _ ih =>
    intro h2
    cases h2 with
    | keep _ h2' => exact .keep x (ih h2')
    | drop kind hg h2' => exact .drop kind hg (ih h2')
  | drop kind hg _ ih => intro h2; exact .drop kind hg (ih h2)

theorem fwdReaders_dropOther {X Y : Sched} (h : DropOther f X Y) :
    fwdReaders f Y = fwdReaders f X := by
  induction h with
  | nil => rfl
  | keep x _ ih =>
    cases x with
    | hex kind g => simp only [fwdReaders, ih]
    | loop k b => simp only [fwdReaders, ih]
  | @drop kind g _ _ hg _ ih =>
    have : (g == f) = false := by simpa using hg
    simp only [fwdReaders, this, Bool.false_and, Bool.false_eq_true, if_false]
    exact ih

theorem rel_hex_other (kind : HexKind) {g : Nat} (hg : g ≠ f) (p : Sched) :
    Rel f (.hex kind g :: p) p := by
  have : (g == f) = false := by simpa using hg
  simp [Rel, bwdDep, bwdWriter, this]

theorem validFrom_dropOther {X Y : Sched} (h : DropOther f X Y) : ∀ p : Sched,
    ValidFrom cfg H env cont f p X → ValidFrom cfg H env cont f p Y := by
  induction h with
  | nil => intro p h; exact h
  | keep x hxy ih =>
    intro p hv
    cases x with
    | hex kind g =>
      simp only [ValidFrom] at hv ⊢
      rw [fwdReaders_dropOther f hxy]
      exact ⟨hv.1, ih _ hv.2⟩
    | loop k b =>
      simp only [ValidFrom] at hv ⊢
      exact ⟨hv.1, ih _ hv.2⟩
  | drop kind hg _ ih =>
    intro p hv
    simp only [ValidFrom] at hv
    exact ih p (validFrom_congr cfg H env cont f _ _ _ (rel_hex_other f kind hg p) hv.2)

theorem dropNextHex_other {g : Nat} (hg : g ≠ f) : ∀ X : Sched, DropOther f X (dropNextHex g X)
  | [] => by simp [dropNextHex]; exact .nil
  | .hex kind g' :: X => by
    simp only [dropNextHex]
    split
    · rename_i hc
      simp only [Bool.and_eq_true, beq_iff_eq] at hc
      exact .drop kind (by rw [hc.1]; exact hg) (dropOther_refl f X)
    · exact .keep _ (dropNextHex_other hg X)
  | .loop k b :: X => by
    simp only [dropNextHex]
    split
    · split
      · exact dropOther_refl f _
      · exact .keep _ (dropNextHex_other hg X)
    · exact .keep _ (dropNextHex_other hg X)

end C22
