import PsyVerif.Lemmas.HaloPlace
/-! # C22 — redundant computation (`rcEdit`) preserves valid placement -/
namespace C22

variable (cfg : Cfg) (H : Nat) (env : Nat → Nat) (cont : Bool) (f : Nat)

/-! ## Validity depends on the prefix only through the dependence state of `f` -/

/-- two reversed prefixes give the same dependence state for `f` -/
def Rel (p1 p2 : Sched) : Prop :=
  (bwdDep f p1 = .hex ↔ bwdDep f p2 = .hex) ∧
  (bwdDep f p1 ≠ .hex → bwdWriter f p1 = bwdWriter f p2)

theorem rel_refl (p : Sched) : Rel f p p := ⟨Iff.rfl, fun _ => rfl⟩

theorem rel_cons {p1 p2 : Sched} (x : Item) (h : Rel f p1 p2) : Rel f (x :: p1) (x :: p2) := by
  obtain ⟨h1, h2⟩ := h
  cases x with
  | hex kind g =>
    by_cases hc : (g == f && kind != .start) = true
    · simp [Rel, bwdDep, hc]
    · simp only [Rel, bwdDep, hc, bwdWriter]
      exact ⟨h1, h2⟩
  | loop k b =>
    cases ha : argOf k f with
    | none =>
      simp only [Rel, bwdDep, bwdWriter, ha]
      exact ⟨h1, h2⟩
    | some a =>
      by_cases hw : a.access.writes = true
      · simp [Rel, bwdDep, bwdWriter, ha, hw]
      · simp only [Rel, bwdDep, bwdWriter, ha, hw]
        exact ⟨h1, h2⟩

theorem readOK_congr {p1 p2 : Sched} (h : Rel f p1 p2) (k : Kern) (b : Bound) (a : Arg)
    (hr : ReadOK cfg H env cont f p1 k b a) : ReadOK cfg H env cont f p2 k b a := by
  obtain ⟨h1, h2⟩ := h
  by_cases hx : bwdDep f p1 = .hex
  · exact Or.inl (h1.mp hx)
  · rcases hr with hr | ⟨L, hL, hg, hs⟩
    · exact absurd hr hx
    · right
      refine ⟨L, hL, hg, ?_⟩
      rw [← h2 hx]
      exact hs

theorem validFrom_congr : ∀ (X : Sched) (p1 p2 : Sched), Rel f p1 p2 →
    ValidFrom cfg H env cont f p1 X → ValidFrom cfg H env cont f p2 X
  | [], _, _, _, _ => by simp [ValidFrom]
  | .hex kind g :: X, p1, p2, hrel, hv => by
    simp only [ValidFrom] at hv ⊢
    exact ⟨hv.1, validFrom_congr X _ _ (rel_cons f _ hrel) hv.2⟩
  | .loop k b :: X, p1, p2, hrel, hv => by
    simp only [ValidFrom] at hv ⊢
    refine ⟨fun a ha hra => readOK_congr cfg H env cont f hrel k b a (hv.1 a ha hra), ?_⟩
    exact validFrom_congr X _ _ (rel_cons f _ hrel) hv.2

/-! ## Deleting exchanges of other fields -/

/-- `Y` is `X` with some exchanges of fields other than `f` deleted -/
inductive DropOther : Sched → Sched → Prop
  | nil : DropOther [] []
  | keep (x : Item) {X Y : Sched} : DropOther X Y → DropOther (x :: X) (x :: Y)
  | drop (kind : HexKind) {g : Nat} {X Y : Sched} : g ≠ f → DropOther X Y →
      DropOther (.hex kind g :: X) Y

theorem dropOther_refl : ∀ X : Sched, DropOther f X X
  | [] => .nil
  | x :: X => .keep x (dropOther_refl X)

theorem dropOther_trans {X Y Z : Sched} (h1 : DropOther f X Y) : DropOther f Y Z → DropOther f X Z := by
  induction h1 generalizing Z with
  | nil => intro h; exact h
  | keep x _ ih =>
    intro h2
    cases h2 with
    | keep _ h2' => exact .keep x (ih h2')
    | drop kind hg h2' => exact .drop kind hg (ih h2')
  | drop kind hg _ ih => intro h2; exact .drop kind hg (ih h2)

theorem fwdReaders_dropOther {X Y : Sched} (h : DropOther f X Y) :
    fwdReaders f Y = fwdReaders f X := by
  induction h with
  | nil => rfl
  | keep x _ ih =>
    cases x with
    | hex kind g => simp only [fwdReaders, ih]
    | loop k b => simp only [fwdReaders, ih]
  | @drop kind g _ _ hg _ ih =>
    have : (g == f) = false := by simpa using hg
    simp only [fwdReaders, this, Bool.false_and, Bool.false_eq_true, if_false]
    exact ih

theorem rel_hex_other (kind : HexKind) {g : Nat} (hg : g ≠ f) (p : Sched) :
    Rel f (.hex kind g :: p) p := by
  have : (g == f) = false := by simpa using hg
  simp [Rel, bwdDep, bwdWriter, this]

theorem validFrom_dropOther {X Y : Sched} (h : DropOther f X Y) : ∀ p : Sched,
    ValidFrom cfg H env cont f p X → ValidFrom cfg H env cont f p Y := by
  induction h with
  | nil => intro p h; exact h
  | keep x hxy ih =>
    intro p hv
    cases x with
    | hex kind g =>
      simp only [ValidFrom] at hv ⊢
      rw [fwdReaders_dropOther f hxy]
      exact ⟨hv.1, ih _ hv.2⟩
    | loop k b =>
      simp only [ValidFrom] at hv ⊢
      exact ⟨hv.1, ih _ hv.2⟩
  | drop kind hg _ ih =>
    intro p hv
    simp only [ValidFrom] at hv
    exact ih p (validFrom_congr cfg H env cont f _ _ _ (rel_hex_other f kind hg p) hv.2)

theorem dropNextHex_other {g : Nat} (hg : g ≠ f) : ∀ X : Sched, DropOther f X (dropNextHex g X)
  | [] => by simp [dropNextHex]; exact .nil
  | .hex kind g' :: X => by
    simp only [dropNextHex]
    split
    · rename_i hc
      simp only [Bool.and_eq_true, beq_iff_eq] at hc
      exact .drop kind (by rw [hc.1]; exact hg) (dropOther_refl f X)
    · exact .keep _ (dropNextHex_other hg X)
  | .loop k b :: X => by
    simp only [dropNextHex]
    split
    · split
      · exact dropOther_refl f _
      · exact .keep _ (dropNextHex_other hg X)
    · exact .keep _ (dropNextHex_other hg X)

/-! ## Removing an exchange of `f` itself -/

theorem rel_both_hex {p1 p2 : Sched} (h1 : bwdDep f p1 = .hex) (h2 : bwdDep f p2 = .hex) :
    Rel f p1 p2 := ⟨⟨fun _ => h2, fun _ => h1⟩, fun h => absurd h1 h⟩

theorem rel_writer (k : Kern) (b : Bound) (a : Arg) (p1 p2 : Sched) (ha : argOf k f = some a)
    (hw : a.access.writes = true) : Rel f (.loop k b :: p1) (.loop k b :: p2) := by
  simp [Rel, bwdDep, bwdWriter, ha, hw]

/-- the replaced exchange: once an exchange of `f` precedes, the next exchange of `f` (met before
another writer) can go -/
theorem validFrom_dropNextHex_self : ∀ (X p1 p2 : Sched), bwdDep f p2 = .hex →
    ValidFrom cfg H env cont f p1 X → ValidFrom cfg H env cont f p2 (dropNextHex f X)
  | [], _, _, _, _ => by simp [dropNextHex, ValidFrom]
  | .hex kind g :: r, p1, p2, h2, hv => by
    simp only [ValidFrom] at hv
    simp only [dropNextHex]
    by_cases hc : (g == f && kind != .start) = true
    · simp only [hc, if_true]
      have h1 : bwdDep f (.hex kind g :: p1) = .hex := by simp [bwdDep, hc]
      exact validFrom_congr cfg H env cont f r _ _ (rel_both_hex f h1 h2) hv.2
    · have hc' : (g == f && kind != .start) = false := by simpa using hc
      simp only [hc', Bool.false_eq_true, if_false, ValidFrom]
      refine ⟨?_, ?_⟩
      · intro hg
        exfalso
        obtain ⟨hk, _⟩ := hv.1 hg
        subst hg hk
        simp at hc'
      · apply validFrom_dropNextHex_self r _ _ _ hv.2
        simp [bwdDep, hc', h2]
  | .loop k b :: r, p1, p2, h2, hv => by
    simp only [ValidFrom] at hv
    simp only [dropNextHex]
    cases ha : argOf k f with
    | none =>
      simp only [ValidFrom]
      refine ⟨fun a ha' _ => (by first | cases ha' | (rw [ha] at ha'; cases ha')), ?_⟩
      apply validFrom_dropNextHex_self r _ _ _ hv.2
      simp [bwdDep, ha, h2]
    | some a =>
      simp only
      by_cases hw : a.access.writes = true
      · simp only [hw, if_true, ValidFrom]
        refine ⟨fun a' _ _ => Or.inl h2, ?_⟩
        exact validFrom_congr cfg H env cont f r _ _ (rel_writer f k b a p1 p2 ha hw) hv.2
      · simp only [hw, Bool.false_eq_true, if_false, ValidFrom]
        refine ⟨fun a' _ _ => Or.inl h2, ?_⟩
        apply validFrom_dropNextHex_self r _ _ _ hv.2
        simp [bwdDep, ha, hw, h2]

/-- after an exchange of `f` that is no longer required has been removed: the readers it served
are covered by the (sufficient) previous writer -/
theorem validFrom_after_removed (L : List Reader) (w' : WriteInfo)
    (hL : L ≠ [] → GoodList cfg H env cont f L ∧ Suff cfg H env (depthList (L.map infoOf)) w') :
    ∀ (Y q1 q2 : Sched), bwdDep f q1 = .hex → bwdDep f q2 ≠ .hex → bwdWriter f q2 = some w' →
    (∀ x ∈ fwdReaders f Y, x ∈ L) →
    ValidFrom cfg H env cont f q1 Y → ValidFrom cfg H env cont f q2 Y
  | [], _, _, _, _, _, _, _ => by simp [ValidFrom]
  | .hex kind g :: r, q1, q2, h1, h2, hw, hsub, hv => by
    simp only [ValidFrom] at hv ⊢
    refine ⟨hv.1, ?_⟩
    by_cases hc : (g == f && kind != .start) = true
    · have ha : bwdDep f (.hex kind g :: q1) = .hex := by simp [bwdDep, hc]
      have hb : bwdDep f (.hex kind g :: q2) = .hex := by simp [bwdDep, hc]
      exact validFrom_congr cfg H env cont f r _ _ (rel_both_hex f ha hb) hv.2
    · have hc' : (g == f && kind != .start) = false := by simpa using hc
      apply validFrom_after_removed L w' hL r _ _ _ _ _ _ hv.2
      · simp [bwdDep, hc', h1]
      · simp [bwdDep, hc', h2]
      · simp [bwdWriter, hw]
      · intro x hx
        apply hsub
        simp [fwdReaders, hc', hx]
  | .loop k b :: r, q1, q2, h1, h2, hw, hsub, hv => by
    simp only [ValidFrom] at hv ⊢
    cases ha : argOf k f with
    | none =>
      refine ⟨fun a ha' _ => (by first | cases ha' | (rw [ha] at ha'; cases ha')), ?_⟩
      apply validFrom_after_removed L w' hL r _ _ _ _ _ _ hv.2
      · simp [bwdDep, ha, h1]
      · simp [bwdDep, ha, h2]
      · simp [bwdWriter, ha, hw]
      · intro x hx
        apply hsub
        simp [fwdReaders, ha, hx]
    | some a =>
      constructor
      · intro a' ha' hra
        cases ha'
        have hr := hra_reads hra
        have hmem : (k, b, a) ∈ L := hsub _ (by simp [fwdReaders, ha, hr])
        have hne : L ≠ [] := by intro h; rw [h] at hmem; simp at hmem
        obtain ⟨hg, hs⟩ := hL hne
        right
        refine ⟨L, hmem, hg, ?_⟩
        rw [hw]
        exact hs
      · by_cases hwr : a.access.writes = true
        · exact validFrom_congr cfg H env cont f r _ _ (rel_writer f k b a q1 q2 ha hwr) hv.2
        · apply validFrom_after_removed L w' hL r _ _ _ _ _ _ hv.2
          · simp [bwdDep, ha, hwr, h1]
          · simp [bwdDep, ha, hwr, h2]
          · simp [bwdWriter, ha, hwr, hw]
          · intro x hx
            apply hsub
            by_cases hr : a.access.reads = true
            · simp [fwdReaders, ha, hr, hwr, hx]
            · have hwr' : a.access.writes = false := by simpa using hwr
              have hr' : a.access.reads = false := by simpa using hr
              cases hacc : a.access <;> simp_all [Access.reads, Access.writes]

theorem go_other {g : Nat} (hg : g ≠ f) : ∀ (X p : Sched), DropOther f X (removeStale.go cfg g p X)
  | [], _ => by simp [removeStale.go]; exact .nil
  | .hex kind g' :: X, p => by
    simp only [removeStale.go]
    split
    · rename_i hc
      simp only [Bool.and_eq_true, beq_iff_eq] at hc
      split
      · exact dropOther_refl f _
      · exact .drop kind (by rw [hc.1]; exact hg) (dropOther_refl f X)
    · exact .keep _ (go_other hg X _)
  | .loop k b :: X, p => by
    simp only [removeStale.go]
    split
    · split
      · exact dropOther_refl f _
      · exact .keep _ (go_other hg X _)
    · exact .keep _ (go_other hg X _)

/-- second half of `update_halo_exchanges` for `f` itself: the writer now leaves at least as much
as before (`hmono`); the first following exchange of `f` is removed when not required -/
theorem validFrom_go_self (w w' : WriteInfo)
    (hmono : ∀ req, Suff cfg H env req w → Suff cfg H env req w') :
    ∀ (X p1 p2 : Sched), bwdDep f p1 ≠ .hex → bwdDep f p2 ≠ .hex →
    bwdWriter f p1 = some w → bwdWriter f p2 = some w' →
    (∀ k b, Item.loop k b ∈ X → POK cfg H env cont f k b) →
    ValidFrom cfg H env cont f p1 X →
    ValidFrom cfg H env cont f p2 (removeStale.go cfg f p2 X)
  | [], _, _, _, _, _, _, _, _ => by simp [removeStale.go, ValidFrom]
  | .hex kind g :: r, p1, p2, h1, h2, hw1, hw2, hall, hv => by
    simp only [ValidFrom] at hv
    simp only [removeStale.go]
    have hall' : ∀ k b, Item.loop k b ∈ r → POK cfg H env cont f k b :=
      fun k b h => hall k b (by simp [h])
    by_cases hc : (g == f && kind != .start) = true
    · simp only [hc, if_true]
      have hgf : g = f := by
        simp only [Bool.and_eq_true, beq_iff_eq] at hc
        exact hc.1
      have ha : bwdDep f (.hex kind g :: p1) = .hex := by simp [bwdDep, hc]
      by_cases hreq : (hexRequired cfg f p2 r).1 = true
      · simp only [hreq, if_true, ValidFrom]
        refine ⟨hv.1, ?_⟩
        have hb : bwdDep f (.hex kind g :: p2) = .hex := by simp [bwdDep, hc]
        exact validFrom_congr cfg H env cont f r _ _ (rel_both_hex f ha hb) hv.2
      · have hreq' : (hexRequired cfg f p2 r).1 = false := by simpa using hreq
        simp only [hreq', Bool.false_eq_true, if_false]
        apply validFrom_after_removed cfg H env cont f (fwdReaders f r) w' _ r _ _ ha h2 hw2
          (fun x hx => hx) hv.2
        intro hne
        obtain ⟨_, hhead⟩ := hv.1 hgf
        constructor
        · constructor
          · cases hfr : fwdReaders f r with
            | nil => exact absurd hfr hne
            | cons r1 rs =>
              rw [hfr] at hhead
              exact ⟨r1, rs, rfl, hhead, fun hw => fwdReaders_head_writes hfr hw⟩
          · intro x hx
            obtain ⟨hloop, hargx, _⟩ := fwdReaders_mem hx
            exact ⟨hall' _ _ hloop, hargx⟩
        · have := suff_of_required cfg H env (hexDepth f r) (bwdWriter f p2) hreq'
          rw [hw2] at this
          exact this
    · have hc' : (g == f && kind != .start) = false := by simpa using hc
      simp only [hc', Bool.false_eq_true, if_false, ValidFrom]
      refine ⟨?_, ?_⟩
      · intro hg
        exfalso
        obtain ⟨hk, _⟩ := hv.1 hg
        subst hg hk
        simp at hc'
      · apply validFrom_go_self w w' hmono r _ _ _ _ _ _ hall' hv.2
        · simp [bwdDep, hc', h1]
        · simp [bwdDep, hc', h2]
        · simp [bwdWriter, hw1]
        · simp [bwdWriter, hw2]
  | .loop k b :: r, p1, p2, h1, h2, hw1, hw2, hall, hv => by
    simp only [ValidFrom] at hv
    simp only [removeStale.go]
    have hall' : ∀ k b, Item.loop k b ∈ r → POK cfg H env cont f k b :=
      fun k b h => hall k b (by simp [h])
    have hclause : ∀ a, argOf k f = some a → haloReadAccess cfg k b a = true →
        ReadOK cfg H env cont f p2 k b a := by
      intro a ha hra
      rcases hv.1 a ha hra with hx | ⟨L, hL, hg, hs⟩
      · exact absurd hx h1
      · right
        refine ⟨L, hL, hg, ?_⟩
        rw [hw1] at hs
        rw [hw2]
        exact hmono _ hs
    cases ha : argOf k f with
    | none =>
      simp only [ValidFrom]
      refine ⟨fun a ha' hra => hclause a ha' hra, ?_⟩
      apply validFrom_go_self w w' hmono r _ _ _ _ _ _ hall' hv.2
      · simp [bwdDep, ha, h1]
      · simp [bwdDep, ha, h2]
      · simp [bwdWriter, ha, hw1]
      · simp [bwdWriter, ha, hw2]
    | some a =>
      simp only
      by_cases hwr : a.access.writes = true
      · simp only [hwr, if_true, ValidFrom]
        refine ⟨fun a ha' hra => hclause a ha' hra, ?_⟩
        exact validFrom_congr cfg H env cont f r _ _ (rel_writer f k b a p1 p2 ha hwr) hv.2
      · simp only [hwr, Bool.false_eq_true, if_false, ValidFrom]
        refine ⟨fun a ha' hra => hclause a ha' hra, ?_⟩
        apply validFrom_go_self w w' hmono r _ _ _ _ _ _ hall' hv.2
        · simp [bwdDep, ha, hwr, h1]
        · simp [bwdDep, ha, hwr, h2]
        · simp [bwdWriter, ha, hwr, hw1]
        · simp [bwdWriter, ha, hwr, hw2]

/-! ## A deeper loop leaves at least as much -/

/-- the new bound of `Dynamo0p3RedundantComputationTrans.apply` -/
def rcBound (b : Bound) (depth : Option Nat) : Bound :=
  ⟨match depth with | some d => .halo d | none => .haloMax, b.coloured⟩

theorem writeInfo_dirtyOuter (k : Kern) (b : Bound) (a : Arg) :
    (writeInfo k b a).dirtyOuter = (!a.disc && !k.dofKernel && b.lvl.isHalo) := by
  unfold writeInfo
  split
  · split <;> rfl
  · rfl

theorem rcBound_isHalo (b : Bound) (depth : Option Nat) : (rcBound b depth).lvl.isHalo = true := by
  cases depth <;> rfl

theorem suff_mono (k : Kern) (b : Bound) (a : Arg) (depth : Option Nat)
    (hval : rcValid k b depth = true) (hwf : b.lvl.wf) (hlvl : lvlOf H b.lvl ≤ H) :
    ∀ req, Suff cfg H env req (writeInfo k b a) →
      Suff cfg H env req (writeInfo k (rcBound b depth) a) := by
  intro req hs
  obtain ⟨lvl, col⟩ := b
  obtain ⟨fa, acc, disc, st⟩ := a
  obtain ⟨dof, args⟩ := k
  unfold Suff at hs ⊢
  rcases hs with ⟨r0, h1, h2, h3⟩ | ⟨h1, h2⟩ | h
  · left
    refine ⟨r0, h1, h2, ?_⟩
    rcases h3 with h3 | h3
    · exact Or.inl h3
    · right
      rw [writeInfo_dirtyOuter] at h3 ⊢
      rw [rcBound_isHalo]
      simp only [Bool.and_eq_true] at h3 ⊢
      exact ⟨h3.1, trivial⟩
  · exfalso
    cases depth <;> cases lvl <;>
      simp_all [writeInfo, rcValid, Level.isHalo, Level.litDepth, Level.wf]
  · cases depth with
    | none =>
      cases lvl
      case halo l =>
        have hl0 : l ≠ 0 := by simp [Level.wf] at hwf; omega
        cases disc <;> cases dof <;>
          simp_all [writeInfo, rcBound, rcValid, cleanAfter, recAfter, Level.isHalo,
            Level.litDepth, lvlOf] <;> omega
      all_goals
        cases disc <;> cases dof <;>
          simp_all [writeInfo, rcBound, rcValid, cleanAfter, recAfter, Level.isHalo,
            Level.litDepth, lvlOf]
    | some d =>
      have hd1 : 1 ≤ d := by
        simp only [rcValid, Bool.and_eq_true, decide_eq_true_eq] at hval
        exact hval.1
      have hd0 : d ≠ 0 := by omega
      cases lvl
      case halo l =>
        have hl0 : l ≠ 0 := by simp [Level.wf] at hwf; omega
        have hld : l < d := by
          simp [rcValid, Level.isHalo, Level.litDepth] at hval
          exact of_decide_eq_true hval.2.2
        cases disc <;> cases dof <;>
          simp_all [writeInfo, rcBound, cleanAfter, recAfter, Level.isHalo,
            Level.litDepth, lvlOf] <;> omega
      all_goals
        cases disc <;> cases dof <;>
          simp_all [writeInfo, rcBound, rcValid, cleanAfter, recAfter, Level.isHalo,
            Level.litDepth, lvlOf] <;> (try omega)

/-! ## What the two halves of `update_halo_exchanges` do to the suffix -/

theorem nodup_eraseDups : ∀ (l : List Nat), l.eraseDups.Nodup
  | [] => by simp
  | a :: as => by
    rw [List.eraseDups_cons, List.nodup_cons]
    refine ⟨?_, nodup_eraseDups _⟩
    intro h
    rw [List.mem_eraseDups] at h
    simp at h
  termination_by l => l.length
  decreasing_by
    simp only [List.length_cons]
    exact Nat.lt_succ_of_le (List.length_filter_le _ _)

theorem restAfterDrop_other {g : Nat} (hg : g ≠ f) (k : Kern) (b : Bound) (X : Sched) :
    DropOther f X (restAfterDrop g k b X) := by
  rw [restAfterDrop_eq]
  cases argOf k g with
  | none => exact dropNextHex_other f hg X
  | some a =>
    simp only
    split
    · exact dropOther_refl f X
    · exact dropNextHex_other f hg X

/-- the suffix returned by `createHex`, seen by field `f` -/
theorem createHex_snd (k : Kern) (b : Bound) : ∀ (fs : List Nat) (pre rest : Sched), fs.Nodup →
    (f ∉ newHexes cfg k b fs pre rest → DropOther f rest (createHex cfg k b fs pre rest).2) ∧
    (f ∈ newHexes cfg k b fs pre rest → ∃ R1, DropOther f rest R1 ∧
      DropOther f (restAfterDrop f k b R1) (createHex cfg k b fs pre rest).2)
  | [], pre, rest, _ => by
    simp [newHexes, createHex]
    exact dropOther_refl f rest
  | g :: fs, pre, rest, hnd => by
    simp only [List.nodup_cons] at hnd
    obtain ⟨hgfs, hnd'⟩ := hnd
    have hskip : (f ∉ newHexes cfg k b fs pre rest →
          DropOther f rest (createHex cfg k b fs pre rest).2) ∧
        (f ∈ newHexes cfg k b fs pre rest → ∃ R1, DropOther f rest R1 ∧
          DropOther f (restAfterDrop f k b R1) (createHex cfg k b fs pre rest).2) :=
      createHex_snd k b fs pre rest hnd'
    have hadd : (hexRequired cfg g pre (.loop k b :: rest)).1 = true →
        (f ∉ g :: newHexes cfg k b fs (.hex .sync g :: pre) (restAfterDrop g k b rest) →
          DropOther f rest
            (createHex cfg k b fs (.hex .sync g :: pre) (restAfterDrop g k b rest)).2) ∧
        (f ∈ g :: newHexes cfg k b fs (.hex .sync g :: pre) (restAfterDrop g k b rest) →
          ∃ R1, DropOther f rest R1 ∧ DropOther f (restAfterDrop f k b R1)
            (createHex cfg k b fs (.hex .sync g :: pre) (restAfterDrop g k b rest)).2) := by
      intro _
      obtain ⟨ih1, ih2⟩ := createHex_snd k b fs (.hex .sync g :: pre) (restAfterDrop g k b rest) hnd'
      by_cases hg : g = f
      · subst hg
        have hnot : g ∉ newHexes cfg k b fs (.hex .sync g :: pre) (restAfterDrop g k b rest) :=
          fun h => hgfs (newHexes_sub cfg k b fs _ _ g h)
        constructor
        · intro h; simp at h
        · intro _
          exact ⟨rest, dropOther_refl g rest, ih1 hnot⟩
      · have hd := restAfterDrop_other f hg k b rest
        constructor
        · intro h
          simp only [List.mem_cons, not_or] at h
          exact dropOther_trans f hd (ih1 h.2)
        · intro h
          simp only [List.mem_cons] at h
          rcases h with h | h
          · exact absurd h.symm hg
          · obtain ⟨R1, h1, h2⟩ := ih2 h
            exact ⟨R1, dropOther_trans f hd h1, h2⟩
    cases hb : bwdDep g pre with
    | hex => simp only [createHex, newHexes, hb]; exact hskip
    | none =>
      by_cases hreq : (hexRequired cfg g pre (.loop k b :: rest)).1 = true
      · simp only [createHex, newHexes, hb, hreq, if_true]
        exact hadd hreq
      · simp only [createHex, newHexes, hb, hreq, Bool.false_eq_true, if_false]
        exact hskip
    | writer kw bw aw =>
      by_cases hreq : (hexRequired cfg g pre (.loop k b :: rest)).1 = true
      · simp only [createHex, newHexes, hb, hreq, if_true]
        exact hadd hreq
      · simp only [createHex, newHexes, hb, hreq, Bool.false_eq_true, if_false]
        exact hskip

/-- the result of `removeStale`, seen by field `f` -/
theorem removeStale_shape (p : Sched) : ∀ (ws : List Nat) (X : Sched), ws.Nodup →
    (f ∉ ws → DropOther f X (removeStale cfg p ws X)) ∧
    (f ∈ ws → ∃ X1, DropOther f X X1 ∧
      DropOther f (removeStale.go cfg f p X1) (removeStale cfg p ws X))
  | [], X, _ => by
    simp [removeStale]
    exact dropOther_refl f X
  | g :: ws, X, hnd => by
    simp only [List.nodup_cons] at hnd
    obtain ⟨hgws, hnd'⟩ := hnd
    obtain ⟨ih1, ih2⟩ := removeStale_shape p ws (removeStale.go cfg g p X) hnd'
    simp only [removeStale]
    by_cases hg : g = f
    · subst hg
      constructor
      · intro h; simp at h
      · intro _
        exact ⟨X, dropOther_refl g X, ih1 hgws⟩
    · have hd := go_other cfg f hg X p
      constructor
      · intro h
        simp only [List.mem_cons, not_or] at h
        exact dropOther_trans f hd (ih1 h.2)
      · intro h
        simp only [List.mem_cons] at h
        rcases h with h | h
        · exact absurd h.symm hg
        · obtain ⟨X1, h1, h2⟩ := ih2 h
          exact ⟨X1, dropOther_trans f hd h1, h2⟩

/-! ## The prefix in front of the edited loop -/

/-- `fwdReaders` over a prefix, with the readers of the rest as continuation -/
def fwdC (f : Nat) : Sched → List Reader → List Reader
  | [], c => c
  | .hex kind g :: r, c => if g == f && kind != .start then [] else fwdC f r c
  | .loop k b :: r, c =>
    match argOf k f with
    | none => fwdC f r c
    | some a =>
      if a.access.reads then (k, b, a) :: (if a.access.writes then [] else fwdC f r c) else []

theorem fwdReaders_append (S : Sched) : ∀ P : Sched,
    fwdReaders f (P ++ S) = fwdC f P (fwdReaders f S)
  | [] => rfl
  | .hex kind g :: P => by
    simp only [List.cons_append, fwdReaders, fwdC, fwdReaders_append S P]
  | .loop k b :: P => by
    simp only [List.cons_append, fwdReaders, fwdC, fwdReaders_append S P]
    cases argOf k f <;> rfl

theorem headHra_fwdC (c c' : List Reader) (h : headHra cfg c → headHra cfg c') : ∀ P : Sched,
    headHra cfg (fwdC f P c) → headHra cfg (fwdC f P c')
  | [] => h
  | .hex kind g :: P => by
    simp only [fwdC]
    split
    · exact fun x => x
    · exact headHra_fwdC c c' h P
  | .loop k b :: P => by
    simp only [fwdC]
    cases argOf k f with
    | none => exact headHra_fwdC c c' h P
    | some a =>
      simp only
      split
      · exact fun x => x
      · exact fun x => x

theorem validFrom_prefix (S S' : Sched)
    (hc : headHra cfg (fwdReaders f S) → headHra cfg (fwdReaders f S')) :
    ∀ (P pre : Sched),
    (ValidFrom cfg H env cont f (P.reverse ++ pre) S →
      ValidFrom cfg H env cont f (P.reverse ++ pre) S') →
    ValidFrom cfg H env cont f pre (P ++ S) → ValidFrom cfg H env cont f pre (P ++ S')
  | [], pre, h, hv => by simpa using h (by simpa using hv)
  | .hex kind g :: P, pre, h, hv => by
    simp only [List.cons_append, ValidFrom] at hv ⊢
    refine ⟨?_, ?_⟩
    · intro hg
      obtain ⟨hk, hh⟩ := hv.1 hg
      refine ⟨hk, ?_⟩
      rw [fwdReaders_append] at hh ⊢
      exact headHra_fwdC cfg f _ _ hc P hh
    · apply validFrom_prefix S S' hc P _ _ hv.2
      simpa using h
  | .loop k b :: P, pre, h, hv => by
    simp only [List.cons_append, ValidFrom] at hv ⊢
    refine ⟨hv.1, ?_⟩
    apply validFrom_prefix S S' hc P _ _ hv.2
    simpa using h

/-! ## Small facts used in the assembly -/

theorem dropOther_sub {X Y : Sched} (h : DropOther f X Y) : ∀ x ∈ Y, x ∈ X := by
  induction h with
  | nil => intro x hx; exact hx
  | keep y _ ih =>
    intro x hx
    simp only [List.mem_cons] at hx ⊢
    rcases hx with hx | hx
    · exact Or.inl hx
    · exact Or.inr (ih x hx)
  | drop kind _ _ ih =>
    intro x hx
    simp only [List.mem_cons]
    exact Or.inr (ih x hx)

theorem rel_trans {p1 p2 p3 : Sched} (h12 : Rel f p1 p2) (h23 : Rel f p2 p3) : Rel f p1 p3 := by
  obtain ⟨a1, a2⟩ := h12
  obtain ⟨b1, b2⟩ := h23
  refine ⟨a1.trans b1, fun h => ?_⟩
  rw [a2 h]
  exact b2 (fun h2 => h (a1.mpr h2))

theorem rel_hexes_other : ∀ (hs : List Nat) (pre : Sched), f ∉ hs →
    Rel f pre ((hs.map hexSync).reverse ++ pre)
  | [], pre, _ => by simpa using rel_refl f pre
  | g :: hs, pre, h => by
    simp only [List.mem_cons, not_or] at h
    have hg : g ≠ f := fun e => h.1 e.symm
    have h1 : Rel f pre (hexSync g :: pre) := by
      have : (g == f) = false := by simpa using hg
      simp [Rel, hexSync, bwdDep, bwdWriter, this]
    have h2 := rel_hexes_other hs (hexSync g :: pre) h.2
    have : (List.map hexSync (g :: hs)).reverse ++ pre =
        (hs.map hexSync).reverse ++ (hexSync g :: pre) := by simp
    rw [this]
    exact rel_trans f h1 h2

theorem bwdDep_hexes_mem : ∀ (hs : List Nat) (pre : Sched), f ∈ hs →
    bwdDep f ((hs.map hexSync).reverse ++ pre) = .hex
  | [], _, h => by simp at h
  | g :: hs, pre, h => by
    have : (List.map hexSync (g :: hs)).reverse ++ pre =
        (hs.map hexSync).reverse ++ (hexSync g :: pre) := by simp
    rw [this]
    by_cases hg : g = f
    · apply bwdDep_hexes_keep
      subst hg
      simp [hexSync, bwdDep]
    · simp only [List.mem_cons] at h
      rcases h with h | h
      · exact absurd h.symm hg
      · exact bwdDep_hexes_mem hs _ h

theorem rel_loop_nonwriter (k : Kern) (b b' : Bound) (p1 p2 : Sched)
    (h : ∀ a, argOf k f = some a → a.access.writes = false) (hr : Rel f p1 p2) :
    Rel f (.loop k b :: p1) (.loop k b' :: p2) := by
  cases ha : argOf k f with
  | none => simpa [Rel, bwdDep, bwdWriter, ha] using hr
  | some a =>
    have := h a ha
    simpa [Rel, bwdDep, bwdWriter, ha, this] using hr

theorem hra_rcBound (k : Kern) (b : Bound) (a : Arg) (depth : Option Nat)
    (hr : a.access.reads = true) : haloReadAccess cfg k (rcBound b depth) a = true := by
  unfold haloReadAccess
  simp only [hr, Bool.not_true, Bool.false_eq_true, if_false, rcBound_isHalo]
  split <;> rfl

theorem mem_written {k : Kern} :
    f ∈ ((k.args.filter (fun a => a.access.writes)).map (·.field)).eraseDups ↔
      ∃ a ∈ k.args, a.access.writes = true ∧ a.field = f := by
  rw [List.mem_eraseDups]
  simp [and_assoc]

end C22
