import PsyVerif.Model.LoopTrans
import PsyVerif.Lemmas.MiniFSem
import Mathlib.Tactic.Ring
import Mathlib.Tactic.Linarith
/-! # C05 — lemmas for ChunkLoopTrans: trip-count arithmetic and the chunked iteration -/
namespace C05
open MiniF

theorem eVars_eq (e : Expr) : eVars e = evars e := by
  induction e <;> simp [eVars, evars, *]

theorem rVars_eq (s : Stmt) : rVars s = rvars s := by
  induction s <;> simp [rVars, rvars, eVars_eq, *]

theorem wVars_eq (s : Stmt) : wVars s = wvars s := by
  induction s <;> simp [wVars, wvars, *]

/-! ## trip count for a positive step -/

theorem tdiv_neg_pos_nonpos {a b : Int} (ha : a < 0) (hb : 0 < b) : a.tdiv b ≤ 0 := by
  have h := Int.neg_tdiv (-a) b
  rw [Int.neg_neg] at h
  rw [h]
  have : 0 ≤ (-a).tdiv b := Int.tdiv_nonneg (by omega) (by omega)
  omega

/-- for a positive step the iterations are exactly the `j` with `lo + j*s ≤ hi` -/
theorem lt_trip_pos {lo hi s : Int} (hs : 0 < s) (j : Nat) :
    j < trip lo hi s ↔ lo + (j : Int) * s ≤ hi := by
  unfold trip
  rw [if_neg (by omega)]
  by_cases h : 0 ≤ hi - lo + s
  · rw [Int.tdiv_eq_ediv_of_nonneg h, Int.lt_toNat, Int.lt_iff_add_one_le, Int.le_ediv_iff_mul_le hs]
    constructor <;> intro h' <;> nlinarith
  · have h1 : (hi - lo + s).tdiv s ≤ 0 := tdiv_neg_pos_nonpos (by omega) hs
    rw [Int.toNat_of_nonpos h1]
    have : 0 ≤ (j : Int) * s := Int.mul_nonneg (by omega) (by omega)
    constructor
    · intro h'; omega
    · intro h'; omega

theorem nat_eq_of_lt_iff {a b : Nat} (h : ∀ j, j < a ↔ j < b) : a = b := by
  apply Nat.le_antisymm
  · apply Nat.le_of_not_lt; intro hlt; have := (h b).1 hlt; omega
  · apply Nat.le_of_not_lt; intro hlt; have := (h a).2 hlt; omega

/-- trip count of chunk number `K` (positive step `s`, chunk size `q*s`) -/
theorem chunk_inner_trip {lo hi s : Int} (hs : 0 < s) (q : Nat) (K : Nat)
    (hK : K * q < trip lo hi s) :
    trip (lo + (K : Int) * ((q : Int) * s))
         (evalBin .min (lo + (K : Int) * ((q : Int) * s) + ((q : Int) * s - 1)) hi) s
      = min ((K + 1) * q) (trip lo hi s) - K * q := by
  apply nat_eq_of_lt_iff
  intro j
  rw [lt_trip_pos hs]
  have hn := lt_trip_pos (lo := lo) (hi := hi) hs (K * q + j)
  have hjq : (j : Int) * s < (q : Int) * s ↔ (j : Int) < q := Int.mul_lt_mul_right hs
  have hjq' : (j : Int) < q ↔ j < q := by omega
  push_cast at hn
  have e1 : lo + ((K : Int) * q + j) * s = lo + (K : Int) * ((q : Int) * s) + (j : Int) * s := by ring
  rw [e1] at hn
  have e2 : (K + 1) * q = K * q + q := by ring
  simp only [evalBin]
  split
  · rename_i hle
    constructor
    · intro h
      have : (j : Int) * s < (q : Int) * s := by omega
      have hj : j < q := hjq'.1 (hjq.1 this)
      have : K * q + j < trip lo hi s := hn.2 (by omega)
      omega
    · intro h
      have hj : j < q := by omega
      have : (j : Int) * s < (q : Int) * s := hjq.2 (hjq'.2 hj)
      omega
  · rename_i hle
    constructor
    · intro h
      have h1 : K * q + j < trip lo hi s := hn.2 h
      have : (j : Int) * s < (q : Int) * s := by omega
      have hj : j < q := hjq'.1 (hjq.1 this)
      omega
    · intro h
      have h1 : K * q + j < trip lo hi s := by omega
      exact hn.1 h1

/-- number of chunks vs. number of iterations -/
theorem chunk_outer_trip {lo hi s : Int} (hs : 0 < s) (q : Nat) (hq : 0 < q) (K : Nat) :
    K < trip lo hi ((q : Int) * s) ↔ K * q < trip lo hi s := by
  have hC : 0 < (q : Int) * s := Int.mul_pos (by omega) hs
  rw [lt_trip_pos hC, lt_trip_pos hs]
  push_cast
  rw [show (K : Int) * ((q : Int) * s) = (K : Int) * q * s by ring]

/-! ## iteration lemmas -/

theorem iters_shift (f : Store → Store) (v : Nat) (lo s : Int) (a : Int) :
    ∀ (m : Nat) (k : Int) (σ : Store),
      iters f v (lo + a * s) s m k σ = iters f v lo s m (a + k) σ := by
  intro m
  induction m with
  | zero => intro k σ; rfl
  | succ m ih =>
    intro k σ
    simp only [iters]
    rw [ih, show lo + a * s + k * s = lo + (a + k) * s by ring, show a + (k + 1) = a + k + 1 by ring]

/-- iterations only change the loop variable and what the body writes -/
theorem iters_frame {body : Stmt} {v x : Nat} (hv : x ≠ v) (hx : x ∉ wvars body) (lo s : Int) (i j : Int) :
    ∀ (n : Nat) (k : Int) (σ : Store), (iters (exec body) v lo s n k σ) (x, i, j) = σ (x, i, j) := by
  intro n k σ
  have := iters_invariant (fun τ => τ (x, i, j) = σ (x, i, j)) (exec body) v lo s
    (by
      intro τ val hτ
      show (exec body (τ.set (v, 0, 0) val)) (x, i, j) = σ (x, i, j)
      rw [exec_frame hx, Store.set_apply, if_neg (by intro h; exact hv (congrArg Prod.fst h))]
      exact hτ)
  exact this n k σ rfl

/-- agreement on the variables in `U`, except possibly at the scalar location of `v` -/
def AgreeExc (U : Nat → Prop) (v : Nat) (σ τ : Store) : Prop :=
  ∀ x i j, U x → (x, i, j) ≠ ((v, 0, 0) : Loc) → σ (x, i, j) = τ (x, i, j)

theorem AgreeExc.trans {U : Nat → Prop} {v : Nat} {σ τ ρ : Store} (h1 : AgreeExc U v σ τ)
    (h2 : AgreeExc U v τ ρ) : AgreeExc U v σ ρ :=
  fun x i j hx hne => (h1 x i j hx hne).trans (h2 x i j hx hne)

theorem AgreeExc.set_left {U : Nat → Prop} {v : Nat} {σ τ : Store} (h : AgreeExc U v σ τ)
    (l : Loc) (val : Int) (hl : ¬ U l.1 ∨ l = (v, 0, 0)) : AgreeExc U v (σ.set l val) τ := by
  intro x i j hx hne
  rw [Store.set_apply]
  split
  · rename_i heq
    rcases hl with hl | hl
    · exact absurd hx (by rw [← heq] at hl; exact hl)
    · exact absurd (heq.trans hl) hne
  · exact h x i j hx hne

/-- congruence of the iterations for stores that agree except at the loop variable: the
loop variable is set before the body runs -/
theorem iters_congr_exc {f : Store → Store} {U : Nat → Prop} (v : Nat) (lo step : Int)
    (hf : ∀ σ τ, AgreeOn U σ τ → AgreeOn U (f σ) (f τ)) :
    ∀ n k σ τ, AgreeExc U v σ τ → AgreeExc U v (iters f v lo step n k σ) (iters f v lo step n k τ) := by
  intro n
  induction n with
  | zero => intro k σ τ h; exact h
  | succ n ih =>
    intro k σ τ h
    simp only [iters]
    apply ih
    have h1 : AgreeOn U (σ.set (v, 0, 0) (lo + k * step)) (τ.set (v, 0, 0) (lo + k * step)) := by
      intro x hx i j
      simp only [Store.set_apply]
      split
      · rfl
      · rename_i hne
        exact h x i j hx hne
    intro x i j hx _
    exact hf _ _ h1 x hx i j

/-! ## the chunked loop (positive step) -/

/-- one chunk: the statement `el = MIN(out + (C - 1), hi); do v = out, el, s; body` run from a
store in which `out` holds `o` and the stop expression evaluates to `hi0` -/
theorem chunk_G_eq (v out el : Nat) (C s : Int) (hi : Expr) (body : Stmt) (hoe : out ≠ el)
    (τ : Store) :
    exec (.seq (.assign el (.bin .min (.bin .add (.var out) (.bin .sub (.lit C) (.lit 1))) hi))
            (.loop v (.var out) (.var el) (.lit s) body)) τ
      = (iters (exec body) v (τ (out, 0, 0)) s
          (trip (τ (out, 0, 0)) (evalBin .min (τ (out, 0, 0) + (C - 1)) (eval hi τ)) s) 0
          (τ.set (el, 0, 0) (evalBin .min (τ (out, 0, 0) + (C - 1)) (eval hi τ)))).set (v, 0, 0)
          (τ (out, 0, 0) + ((0 : Int) +
            (trip (τ (out, 0, 0)) (evalBin .min (τ (out, 0, 0) + (C - 1)) (eval hi τ)) s : Nat)) * s) := by
  have hne : ((out, 0, 0) : Loc) ≠ (el, 0, 0) := fun h => hoe (congrArg Prod.fst h)
  simp only [exec, eval, runIters_eq_iters, Store.set_same, Store.set_other _ _ hne]
  rfl

theorem chunk_pos_sound (t : ChunkTarget) (s : Int) (q : Nat)
    (hst : t.l.st = .lit s) (hs : 0 < s) (hq : 0 < q) (hC : t.chunk = (q : Int) * s)
    (hoe : t.out ≠ t.el) (hov : t.out ≠ t.l.v) (hev : t.el ≠ t.l.v)
    (hrb : t.out ∉ rvars t.l.body ∧ t.el ∉ rvars t.l.body)
    (hhi : ∀ x ∈ evars t.l.hi, x ≠ t.out ∧ x ≠ t.el ∧ x ≠ t.l.v ∧ x ∉ wvars t.l.body)
    (σ : Store) :
    ∀ x i j, x ≠ t.out → x ≠ t.el →
      ((x, i, j) = ((t.l.v, 0, 0) : Loc) → 0 < trip (eval t.l.lo σ) (eval t.l.hi σ) s) →
      (exec (chunkApplyStep t s) σ) (x, i, j) = (exec t.l.stmt σ) (x, i, j) := by
  obtain ⟨⟨v, lo, hi, st, body⟩, chunk, chunked, out, el⟩ := t
  simp only at hst hC hoe hov hev hrb hhi ⊢
  subst hst
  subst hC
  -- abbreviations
  generalize hlo0 : eval lo σ = lo0
  generalize hhi0 : eval hi σ = hi0
  let U : Nat → Prop := fun x => x ≠ out ∧ x ≠ el
  let f := exec body
  let G := exec (.seq (.assign el (.bin .min (.bin .add (.var out) (.bin .sub (.lit ((q : Int) * s)) (.lit 1))) hi))
            (.loop v (.var out) (.var el) (.lit s) body))
  let n := trip lo0 hi0 s
  let N := trip lo0 hi0 ((q : Int) * s)
  have hf : ∀ σ τ, AgreeOn U σ τ → AgreeOn U (f σ) (f τ) := fun σ τ h =>
    exec_congr (s := body) (V := U) (fun x hx => ⟨fun h => hrb.1 (h ▸ hx), fun h => hrb.2 (h ▸ hx)⟩) h
  -- stop expression is invariant
  have hhi_inv : ∀ (τ ρ : Store), AgreeExc U v τ ρ →
      (∀ x ∈ evars hi, ∀ i j, ρ (x, i, j) = σ (x, i, j)) → eval hi τ = hi0 := by
    intro τ ρ h1 h2
    rw [← hhi0]
    apply eval_congr (V := fun x => x ∈ evars hi) (fun x hx => hx)
    intro x hx i j
    rw [h1 x i j ⟨(hhi x hx).1, (hhi x hx).2.1⟩ (fun h => (hhi x hx).2.2.1 (congrArg Prod.fst h)), h2 x hx i j]
  -- the reference state after the first `m` iterations of the original loop
  let Y : Nat → Store := fun m => iters f v lo0 s m 0 σ
  have hY : ∀ m, ∀ x ∈ evars hi, ∀ i j, (Y m) (x, i, j) = σ (x, i, j) := fun m x hx i j =>
    iters_frame (hhi x hx).2.2.1 (hhi x hx).2.2.2 lo0 s i j m 0 σ
  -- invariant after K chunks
  have key : ∀ K, K ≤ N →
      AgreeExc U v (iters G out lo0 ((q : Int) * s) K 0 σ) (Y (min (K * q) n)) ∧
      (0 < K → (iters G out lo0 ((q : Int) * s) K 0 σ) (v, 0, 0) = lo0 + ((min (K * q) n : Nat) : Int) * s) := by
    intro K
    induction K with
    | zero =>
      intro _
      refine ⟨?_, fun h => absurd h (by omega)⟩
      simp only [Nat.zero_mul, Nat.zero_min]
      intro x i j _ _
      rfl
    | succ K ih =>
      intro hK
      have hKN : K < N := by omega
      obtain ⟨ih1, _⟩ := ih (by omega)
      have hKq : K * q < n := (chunk_outer_trip hs q hq K).1 hKN
      have hmin : min (K * q) n = K * q := by omega
      rw [hmin] at ih1
      rw [iters_succ_last]
      generalize hτ : iters G out lo0 ((q : Int) * s) K 0 σ = τ at ih1
      -- state at the start of chunk K
      obtain ⟨τ', hτ'def⟩ : ∃ τ', τ' = τ.set (out, 0, 0) (lo0 + ((0 : Int) + (K : Nat)) * ((q : Int) * s)) := ⟨_, rfl⟩
      rw [← hτ'def]
      have hτ'out : τ' (out, 0, 0) = lo0 + ((K * q : Nat) : Int) * s := by
        rw [hτ'def, Store.set_same]; push_cast; ring
      have hτ'agree : AgreeExc U v τ' (Y (K * q)) := by
        rw [hτ'def]
        exact ih1.set_left (out, 0, 0) _ (Or.inl (fun h => h.1 rfl))
      have hτ'hi : eval hi τ' = hi0 := hhi_inv τ' _ hτ'agree (hY _)
      have hG : G τ' = _ := chunk_G_eq v out el ((q : Int) * s) s hi body hoe τ'
      have hm := chunk_inner_trip (lo := lo0) (hi := hi0) hs q K hKq
      rw [show lo0 + (K : Int) * ((q : Int) * s) = lo0 + ((K * q : Nat) : Int) * s by push_cast; ring] at hm
      rw [hτ'out, hτ'hi, hm, iters_shift] at hG
      have e2 : (K + 1) * q = K * q + q := by ring
      obtain ⟨m, hmdef⟩ : ∃ m, m = min ((K + 1) * q) n - K * q := ⟨_, rfl⟩
      have hmin2 : min ((K + 1) * q) n = K * q + m := by omega
      rw [← hmdef] at hG
      rw [hG, hmin2]
      constructor
      · have hYadd : Y (K * q + m) = iters f v lo0 s m (((K * q : Nat) : Int) + 0) (Y (K * q)) := by
          show iters f v lo0 s (K * q + m) 0 σ = _
          rw [iters_add, Int.zero_add, Int.add_zero]
        rw [hYadd]
        apply AgreeExc.set_left _ _ _ (Or.inr rfl)
        apply iters_congr_exc v lo0 s hf
        exact hτ'agree.set_left (el, 0, 0) _ (Or.inl (fun h => h.2 rfl))
      · intro _
        rw [Store.set_same]
        push_cast
        ring
  -- conclusion
  intro x i j hxo hxe hxv
  obtain ⟨k1, k2⟩ := key N (Nat.le_refl N)
  have hnN : min (N * q) n = n := by
    have : ¬ (N * q < n) := fun h => by
      have := (chunk_outer_trip (lo := lo0) (hi := hi0) hs q hq N).2 h
      omega
    omega
  rw [hnN] at k1 k2
  have hL : exec (chunkApplyStep ⟨⟨v, lo, hi, .lit s, body⟩, (q : Int) * s, chunked, out, el⟩ s) σ
      = (iters G out lo0 ((q : Int) * s) N 0 σ).set (out, 0, 0) (lo0 + ((0 : Int) + (N : Nat)) * ((q : Int) * s)) := by
    simp only [chunkApplyStep, if_pos hs]
    show runIters G out (eval lo σ) (eval (.lit ((q : Int) * s)) σ) (trip (eval lo σ) (eval hi σ) (eval (.lit ((q : Int) * s)) σ)) 0 σ = _
    rw [runIters_eq_iters, hlo0, hhi0]
    rfl
  have hR : exec (LoopN.stmt ⟨v, lo, hi, .lit s, body⟩) σ
      = (Y n).set (v, 0, 0) (lo0 + ((0 : Int) + (n : Nat)) * s) := by
    show runIters f v (eval lo σ) (eval (.lit s) σ) (trip (eval lo σ) (eval hi σ) (eval (.lit s) σ)) 0 σ = _
    rw [runIters_eq_iters, hlo0, hhi0]
    rfl
  rw [hL, hR, Store.set_apply, if_neg (fun h => hxo (congrArg Prod.fst h)), Store.set_apply]
  split
  · rename_i heq
    have hn0 : 0 < n := hxv heq
    have hN0 : 0 < N := (chunk_outer_trip (lo := lo0) (hi := hi0) hs q hq 0).2 (by omega)
    rw [heq, k2 hN0]
    ring
  · rename_i hne
    exact k1 x i j ⟨hxo, hxe⟩ hne

end C05
