import PsyVerif.Model.Access
/-! # C11 lemmas: the access list of an expression / statement covers every event of its
tracing semantics (all expressions, statements, stores, oracles, trip counts). -/
namespace C11
open MiniF (Store Loc)

/-- an event is covered by an access list: a read event by an access of the same variable
whose kind is a read kind, a write event by one whose kind is a write kind -/
def covers (w : Bool) (A : List Access) : Event → Prop
  | .rd l => ∃ a ∈ A, a.var = l.1 ∧ a.kind.isRead = true
  | .wr l => w = true → ∃ a ∈ A, a.var = l.1 ∧ a.kind.isWrite = true

/-- `w = false`: only the read events have to be covered -/
def Covers (w : Bool) (A : List Access) (E : List Event) : Prop := ∀ e ∈ E, covers w A e

variable {w : Bool}

theorem covers_mono {A B : List Access} {e : Event} (h : ∀ a ∈ A, a ∈ B) (hc : covers w A e) :
    covers w B e := by
  cases e with
  | rd l => obtain ⟨a, ha, h1, h2⟩ := hc; exact ⟨a, h a ha, h1, h2⟩
  | wr l => intro hw; obtain ⟨a, ha, h1, h2⟩ := hc hw; exact ⟨a, h a ha, h1, h2⟩

theorem Covers.mono {A B : List Access} {E : List Event} (h : ∀ a ∈ A, a ∈ B) (hc : Covers w A E) :
    Covers w B E := fun e he => covers_mono h (hc e he)

theorem Covers.nil (A : List Access) : Covers w A [] := by
  intro e he; cases he

theorem Covers.append {A : List Access} {E F : List Event} (h1 : Covers w A E) (h2 : Covers w A F) :
    Covers w A (E ++ F) := by
  intro e he
  rcases List.mem_append.mp he with h | h
  · exact h1 e h
  · exact h2 e h

theorem Covers.left {A B : List Access} {E : List Event} (h : Covers w A E) : Covers w (A ++ B) E :=
  h.mono (fun _ ha => List.mem_append_left _ ha)

theorem Covers.right {A B : List Access} {E : List Event} (h : Covers w B E) : Covers w (A ++ B) E :=
  h.mono (fun _ ha => List.mem_append_right _ ha)

theorem Covers.cons {a : Access} {A : List Access} {E : List Event} (h : Covers w A E) :
    Covers w (a :: A) E := h.mono (fun _ ha => List.mem_cons_of_mem _ ha)

theorem Covers.both {A B : List Access} {E F : List Event} (h1 : Covers w A E) (h2 : Covers w B F) :
    Covers w (A ++ B) (E ++ F) := h1.left.append h2.right

theorem Covers.rd_single {A : List Access} {a : Access} {l : Loc} (ha : a ∈ A) (hv : a.var = l.1)
    (hk : a.kind.isRead = true) : Covers w A [.rd l] := by
  intro e he
  rw [List.mem_singleton] at he
  subst he
  exact ⟨a, ha, hv, hk⟩

theorem Covers.wr_single {A : List Access} {a : Access} {l : Loc} (ha : a ∈ A) (hv : a.var = l.1)
    (hk : a.kind.isWrite = true) : Covers w A [.wr l] := by
  intro e he
  rw [List.mem_singleton] at he
  subst he
  exact fun _ => ⟨a, ha, hv, hk⟩

theorem covers_map_shift {A : List Access} {e : Event} (d : Nat) (h : covers w A e) :
    covers w (A.map (shift d)) e := by
  cases e with
  | rd l =>
    obtain ⟨a, ha, h1, h2⟩ := h
    exact ⟨shift d a, List.mem_map_of_mem ha, h1, h2⟩
  | wr l =>
    intro hw
    obtain ⟨a, ha, h1, h2⟩ := h hw
    exact ⟨shift d a, List.mem_map_of_mem ha, h1, h2⟩

theorem Covers.map_shift {A : List Access} {E : List Event} (d : Nat) (h : Covers w A E) :
    Covers w (A.map (shift d)) E := fun e he => covers_map_shift d (h e he)

/-! ## callee updates -/

/-- every event of `applyUpd` is a write to the location of a by-reference argument -/
theorem applyUpd_events (u : Nat → Option Int) (args : List (Int × Option Loc)) (p : Nat) (σ : Store) :
    ∀ e ∈ (applyUpd u args p σ).2, ∃ l v, e = .wr l ∧ (v, some l) ∈ args := by
  induction args generalizing p σ with
  | nil => intro e he; simp [applyUpd] at he
  | cons hd tl ih =>
    obtain ⟨v, ol⟩ := hd
    cases ol with
    | none =>
      intro e he
      simp only [applyUpd] at he
      obtain ⟨l, v', h1, h2⟩ := ih _ _ e he
      exact ⟨l, v', h1, List.mem_cons_of_mem _ h2⟩
    | some l =>
      intro e he
      simp only [applyUpd] at he
      split at he
      · obtain ⟨l', v', h1, h2⟩ := ih _ _ e he
        exact ⟨l', v', h1, List.mem_cons_of_mem _ h2⟩
      · simp only [List.mem_cons] at he
        rcases he with rfl | he
        · exact ⟨l, v, rfl, List.mem_cons_self⟩
        · obtain ⟨l', v', h1, h2⟩ := ih _ _ e he
          exact ⟨l', v', h1, List.mem_cons_of_mem _ h2⟩

/-- the masked version only stores into by-reference arguments, too -/
theorem applyUpdM_events (u : Nat → Option Int) (args : List (Int × Option Loc)) (p m : Nat) (σ : Store) :
    ∀ e ∈ (applyUpdM u args p m σ).2, ∃ l v, e = .wr l ∧ (v, some l) ∈ args := by
  induction args generalizing p m σ with
  | nil => intro e he; simp [applyUpdM] at he
  | cons hd tl ih =>
    obtain ⟨v, ol⟩ := hd
    cases ol with
    | none =>
      intro e he
      simp only [applyUpdM] at he
      obtain ⟨l, v', h1, h2⟩ := ih _ _ _ e he
      exact ⟨l, v', h1, List.mem_cons_of_mem _ h2⟩
    | some l =>
      intro e he
      simp only [applyUpdM] at he
      split at he
      · split at he
        · obtain ⟨l', v', h1, h2⟩ := ih _ _ _ e he
          exact ⟨l', v', h1, List.mem_cons_of_mem _ h2⟩
        · simp only [List.mem_cons] at he
          rcases he with rfl | he
          · exact ⟨l, v, rfl, List.mem_cons_self⟩
          · obtain ⟨l', v', h1, h2⟩ := ih _ _ _ e he
            exact ⟨l', v', h1, List.mem_cons_of_mem _ h2⟩
      · obtain ⟨l', v', h1, h2⟩ := ih _ _ _ e he
        exact ⟨l', v', h1, List.mem_cons_of_mem _ h2⟩

/-- a reference that carries subscript expressions -/
def indexed : Expr → Bool
  | .idx1 _ _ => true | .idx2 _ _ _ => true | .idxs _ _ _ => true
  | _ => false

/-- well-formedness of one CodeBlock w.r.t. the rule: when the rule records the names of the text,
the variables the CodeBlock may read / designates are among them; when it records nothing, the
CodeBlock mentions no variable at all -/
def cbNode (c : Ctx) (names rd : List Nat) (dv : Option Nat) : Bool :=
  if c.rule.cbRW then (rd ++ dv.toList).all (fun x => names.contains x) else rd.isEmpty && dv.isNone

/-- `e` as the (skipped) first argument of an inquiry intrinsic: the rule visits what has to be
evaluated to locate the inquired object, or there is nothing to evaluate -/
def firstOk1 (c : Ctx) : Expr → Bool
  | .cb _ _ rd dv => (c.rule.inqSubs && c.rule.inqCb) || (cbSubs rd dv).isEmpty
  | e => c.rule.inqSubs || !indexed e

def firstOk (c : Ctx) : Expr → Bool
  | .cons e _ => firstOk1 c e
  | _ => true

/-- side condition on an expression: every CodeBlock in it is well-formed (`cbNode`) and every
inquiry intrinsic is applied to an object whose subscripts the rule visits (`firstOk`): without
fixes/C11-inquiry-subscripts.patch `IntrinsicCall.reference_accesses` skips the whole first
argument of an inquiry (`size(w(idx(j):))`), also the subscripts that have to be evaluated; a
CodeBlock there (`len(names(k)(1:n))`) is still skipped -/
def okE (c : Ctx) : Expr → Bool
  | .lit _ => true
  | .var _ => true
  | .nil => true
  | .idx1 _ i => okE c i
  | .idx2 _ i j => okE c i && okE c j
  | .idxs _ _ is => okE c is
  | .un _ e => okE c e
  | .bin _ a b => okE c a && okE c b
  | .intr k args => (!(c.attrs k).inquiry || firstOk c args) && okE c args
  | .fcall _ _ args => okE c args
  | .cb _ names rd dv => cbNode c names rd dv
  | .cons e rest => okE c e && okE c rest

theorem mem_cbAcc {c : Ctx} {names : List Nat} {n x : Nat} (hc : c.rule.cbRW = true) (hx : x ∈ names) :
    (⟨x, .readwrite, n, 0⟩ : Access) ∈ cbAcc c names n := by
  simp only [cbAcc, hc, if_true]
  exact List.mem_map.mpr ⟨x, hx, rfl⟩

/-- a well-formed CodeBlock's READWRITE accesses cover the reads of any of its variables -/
theorem cbAcc_covers_rd (c : Ctx) (names rd : List Nat) (dv : Option Nat) (n : Nat)
    (h : cbNode c names rd dv = true) (xs : List Nat) (hx : ∀ x ∈ xs, x ∈ rd) :
    Covers w (cbAcc c names n) (xs.map (fun x => Event.rd (x, 0, 0))) := by
  intro ev hev
  obtain ⟨x, hxs, rfl⟩ := List.mem_map.mp hev
  by_cases hc : c.rule.cbRW = true
  · simp only [cbNode, hc, if_true, List.all_eq_true, List.mem_append, List.contains_iff_mem] at h
    exact ⟨⟨x, .readwrite, n, 0⟩, mem_cbAcc hc (h x (Or.inl (hx x hxs))), rfl, rfl⟩
  · simp only [cbNode, hc, Bool.false_eq_true, if_false, Bool.and_eq_true, List.isEmpty_iff] at h
    have := hx x hxs
    rw [h.1] at this
    cases this

/-! ## unfolding of `evalT` on a spine -/

theorem evalT_cons_false (ω : Oracle) (tb : Nat → IAttr) (e rest : Expr) (σ : Store) :
    evalT ω tb (.cons e rest) false σ =
      ⟨(evalT ω tb e false σ).val, (evalT ω tb rest false (evalT ω tb e false σ).st).st,
       (evalT ω tb e false σ).ev ++ (evalT ω tb rest false (evalT ω tb e false σ).st).ev, none,
       ((evalT ω tb e false σ).val, (evalT ω tb e false σ).loc) ::
         (evalT ω tb rest false (evalT ω tb e false σ).st).args⟩ := by
  cases e <;> simp [evalT]

/-- with the first argument skipped only its subscripts are evaluated (`subsT`) -/
theorem evalT_cons_true (ω : Oracle) (tb : Nat → IAttr) (e rest : Expr) (σ : Store) :
    evalT ω tb (.cons e rest) true σ =
      ⟨0, (evalT ω tb rest false (subsT ω tb e σ).1).st,
       (subsT ω tb e σ).2 ++ (evalT ω tb rest false (subsT ω tb e σ).1).ev, none,
       (0, none) :: (evalT ω tb rest false (subsT ω tb e σ).1).args⟩ := by
  cases e <;> simp [evalT, subsT]

theorem subsT_plain (ω : Oracle) (tb : Nat → IAttr) (e : Expr) (σ : Store) (h : indexed e = false)
    (hcb : ∀ f names rd dv, e = .cb f names rd dv → cbSubs rd dv = []) :
    subsT ω tb e σ = (σ, []) := by
  cases e with
  | cb f names rd dv => simp [subsT, hcb f names rd dv rfl]
  | idx1 _ _ => simp [indexed] at h
  | idx2 _ _ _ => simp [indexed] at h
  | idxs _ _ _ => simp [indexed] at h
  | _ => rfl

/-- a rule that does not visit the subscripts of inquired objects is only right when there are none -/
theorem subsT_quiet (c : Ctx) (ω : Oracle) (e : Expr) (σ : Store) (h : firstOk1 c e = true)
    (hs : ¬ c.rule.inqSubs = true) : subsT ω c.attrs e σ = (σ, []) := by
  have hs' : c.rule.inqSubs = false := by cases hq : c.rule.inqSubs <;> simp_all
  apply subsT_plain
  · cases e <;> simp_all [firstOk1, indexed]
  · intro f names rd dv he
    subst he
    simpa [firstOk1, hs'] using h

/-- only a spine has argument values -/
theorem args_nil (ω : Oracle) (tb : Nat → IAttr) (e : Expr) (sk : Bool) (σ : Store)
    (h : ∀ a b, e ≠ .cons a b) : (evalT ω tb e sk σ).args = [] := by
  cases e with
  | cons a b => exact absurd rfl (h a b)
  | fcall p f args => simp only [evalT]; split <;> rfl
  | _ => simp [evalT]

/-! ## by-reference arguments are recorded with the call's kind -/

/-- the location of a reference expression belongs to the variable that the argument
visit (`Mode.elem k`) records with kind `k` -/
theorem loc_elem (c : Ctx) (ω : Oracle) (e : Expr) (k : Kind) (n : Nat) (σ : Store) (l : Loc)
    (hq : okE c e = true) (h : (evalT ω c.attrs e false σ).loc = some l) :
    ∃ a ∈ (acc c e (.elem k) n).1, a.var = l.1 ∧ (a.kind = k ∨ a.kind = .readwrite) := by
  cases e with
  | var x =>
    simp only [evalT, Option.some.injEq] at h
    subst h; exact ⟨⟨x, k, n, 0⟩, by simp [acc], rfl, Or.inl rfl⟩
  | idx1 a i =>
    simp only [evalT, Option.some.injEq] at h
    subst h; exact ⟨⟨a, k, n, 0⟩, by simp [acc], rfl, Or.inl rfl⟩
  | idx2 a i j =>
    simp only [evalT, Option.some.injEq] at h
    subst h; exact ⟨⟨a, k, n, 0⟩, by simp [acc], rfl, Or.inl rfl⟩
  | idxs a cnt is =>
    simp only [evalT, Option.some.injEq] at h
    subst h; exact ⟨⟨a, k, n, 0⟩, by simp [acc], rfl, Or.inl rfl⟩
  | cb f names rd dv =>
    -- a designator CodeBlock: the designated variable is among the names recorded READWRITE
    cases dv with
    | none => simp [evalT] at h
    | some x =>
      simp only [evalT, Option.map_some, Option.some.injEq] at h
      subst h
      simp only [okE] at hq
      by_cases hc : c.rule.cbRW = true
      · simp only [cbNode, hc, if_true, List.all_eq_true, List.mem_append, List.contains_iff_mem,
          Option.toList_some, List.mem_singleton] at hq
        exact ⟨⟨x, .readwrite, n, 0⟩, by simpa only [acc] using mem_cbAcc hc (hq x (Or.inr rfl)), rfl, Or.inr rfl⟩
      · simp [cbNode, hc] at hq
  | fcall p f args =>
    simp only [evalT] at h
    split at h <;> simp at h
  | cons e rest =>
    rw [evalT_cons_false] at h
    simp at h
  | _ => simp [evalT] at h

/-- kind given to the head of a spine -/
def headKind (ko : Option Kind) (mask : Nat) : Option Kind := if mask % 2 = 1 then some .readwrite else ko

/-- every by-reference element of an evaluated argument spine is recorded with kind `k` or
READWRITE -/
theorem args_spine (c : Ctx) (ω : Oracle) (k : Kind) (e : Expr) :
    ∀ (sk : Bool) (mask n : Nat) (σ : Store) (v : Int) (l : Loc), okE c e = true →
      (v, some l) ∈ (evalT ω c.attrs e sk σ).args →
      ∃ a ∈ (acc c e (.spine (some k) mask sk) n).1, a.var = l.1 ∧ (a.kind = k ∨ a.kind = .readwrite) := by
  induction e with
  | cons e rest _ ihr =>
    intro sk mask n σ v l hq h
    simp only [okE, Bool.and_eq_true] at hq
    cases sk with
    | true =>
      rw [evalT_cons_true] at h
      simp only [List.mem_cons, Prod.mk.injEq, reduceCtorEq, and_false, false_or] at h
      obtain ⟨a, ha, h1, h2⟩ := ihr false (mask / 2)
        (if c.rule.inqSubs = true then acc c e .subs n else ([], n)).2 _ v l hq.2 h
      refine ⟨a, ?_, h1, h2⟩
      simp only [acc, if_true, List.mem_append]
      exact Or.inr ha
    | false =>
      rw [evalT_cons_false] at h
      simp only [List.mem_cons, Prod.mk.injEq] at h
      rcases h with ⟨_, h⟩ | h
      · by_cases hm : mask % 2 = 1
        · obtain ⟨a, ha, h1, h2⟩ := loc_elem c ω e .readwrite n σ l hq.1 h.symm
          refine ⟨a, ?_, h1, Or.inr (by rcases h2 with h2 | h2 <;> exact h2)⟩
          simp only [acc, Bool.false_eq_true, if_false, hm, if_true, elemMode, List.mem_append]
          exact Or.inl ha
        · obtain ⟨a, ha, h1, h2⟩ := loc_elem c ω e k n σ l hq.1 h.symm
          refine ⟨a, ?_, h1, h2⟩
          simp only [acc, Bool.false_eq_true, if_false, hm, elemMode, List.mem_append]
          exact Or.inl ha
      · obtain ⟨a, ha, h1, h2⟩ := ihr false (mask / 2)
          (acc c e (elemMode (if mask % 2 = 1 then some .readwrite else some k)) n).2 _ v l hq.2 h
        refine ⟨a, ?_, h1, h2⟩
        simp only [acc, Bool.false_eq_true, if_false, List.mem_append]
        exact Or.inr ha
  | _ =>
    intro sk mask n σ v l _ h
    rw [args_nil _ _ _ _ _ (by intro a b hab; cases hab)] at h
    cases h

/-- the callee's stores are covered when by-reference arguments are recorded READWRITE -/
theorem applyUpd_covered (c : Ctx) (ω : Oracle) (u : Nat → Option Int) (e : Expr) (sk : Bool) (k : Kind)
    (hk : w = true → k = .readwrite) (mask n p : Nat) (σ τ : Store) (hq : okE c e = true) :
    Covers w (acc c e (.spine (some k) mask sk) n).1
      (applyUpd u (evalT ω c.attrs e sk σ).args p τ).2 := by
  intro ev hev
  obtain ⟨l, v, rfl, hmem⟩ := applyUpd_events u _ p τ ev hev
  intro hw
  obtain ⟨a, ha, h1, h2⟩ := args_spine c ω k e sk mask n σ v l hq hmem
  refine ⟨a, ha, h1, ?_⟩
  rcases h2 with h2 | h2
  · rw [h2, hk hw]; rfl
  · rw [h2]; rfl

/-- … also when the callee can only store into the arguments selected by a mask -/
theorem applyUpdM_covered_all (c : Ctx) (ω : Oracle) (u : Nat → Option Int) (e : Expr) (k : Kind)
    (hk : w = true → k = .readwrite) (mask m n p : Nat) (σ τ : Store) (hq : okE c e = true) :
    Covers w (acc c e (.spine (some k) mask false) n).1
      (applyUpdM u (evalT ω c.attrs e false σ).args p m τ).2 := by
  intro ev hev
  obtain ⟨l, v, rfl, hmem⟩ := applyUpdM_events u _ p m τ ev hev
  intro hw
  obtain ⟨a, ha, h1, h2⟩ := args_spine c ω k e false mask n σ v l hq hmem
  refine ⟨a, ha, h1, ?_⟩
  rcases h2 with h2 | h2
  · rw [h2, hk hw]; rfl
  · rw [h2]; rfl

/-- the arguments selected by the mask are exactly those the static visit marks READWRITE:
the stores of a callee with declared intents are covered whatever kind the others get -/
theorem applyUpdM_covered (c : Ctx) (ω : Oracle) (u : Nat → Option Int) (ko : Option Kind) (e : Expr) :
    ∀ (mask n p : Nat) (σ τ : Store), okE c e = true →
      Covers w (acc c e (.spine ko mask false) n).1
        (applyUpdM u (evalT ω c.attrs e false σ).args p mask τ).2 := by
  induction e with
  | cons e rest _ ihr =>
    intro mask n p σ τ hq
    simp only [okE, Bool.and_eq_true] at hq
    rw [evalT_cons_false]
    simp only [acc, Bool.false_eq_true, if_false]
    cases hl : (evalT ω c.attrs e false σ).loc with
    | none =>
      simp only [applyUpdM]
      exact Covers.right (ihr _ _ _ _ _ hq.2)
    | some l =>
      simp only [applyUpdM]
      split
      · rename_i hm
        have hhead : Covers w (acc c e (elemMode (some Kind.readwrite)) n).1 [Event.wr l] := by
          obtain ⟨a, ha, h1, h2⟩ := loc_elem c ω e .readwrite n σ l hq.1 hl
          simp only [elemMode]
          exact Covers.wr_single ha h1 (by rcases h2 with h2 | h2 <;> (rw [h2]; rfl))
        split
        · exact Covers.right (ihr _ _ _ _ _ hq.2)
        · have := Covers.both hhead (ihr (mask / 2) (acc c e (elemMode (some Kind.readwrite)) n).2 (p + 1)
            (evalT ω c.attrs e false σ).st (τ.set l ‹Int›) hq.2)
          simpa only [List.singleton_append] using this
      · exact Covers.right (ihr _ _ _ _ _ hq.2)
  | _ =>
    intro mask n p σ τ _
    rw [args_nil _ _ _ _ _ (by intro a b hab; cases hab)]
    simp only [applyUpdM]
    exact Covers.nil _

/-! ## side condition of the coverage lemma -/

/-- hypothesis of the coverage lemma for an expression evaluated with `skip` flag `sk` -/
def OkAt (c : Ctx) (e : Expr) (sk : Bool) : Prop :=
  okE c e = true ∧ (sk = true → firstOk c e = true)

theorem OkAt.sub {c : Ctx} {e e' : Expr} {sk : Bool} (h : OkAt c e sk)
    (hs : okE c e = true → okE c e' = true) : OkAt c e' false :=
  ⟨hs h.1, fun h => by cases h⟩

theorem elemMode_ne_subs (ko : Option Kind) : elemMode ko = .subs → False := by
  cases ko <;> simp [elemMode]

/-! ## expressions -/

/-- mode of the static visit and `skip` flag of the evaluation describe the same situation,
and argument kinds are read kinds -/
def ModeOk : Mode → Bool → Prop
  | .val, sk => sk = false
  | .elem k, sk => sk = false ∧ k.isRead = true
  | .subs, _ => True
  | .spine ko _ sk', sk => sk' = sk ∧ ∀ k, ko = some k → k.isRead = true

/-- the events the static visit in mode `m` has to cover -/
def evOf (ω : Oracle) (tb : Nat → IAttr) (e : Expr) : Mode → Bool → Store → List Event
  | .subs, _, σ => (subsT ω tb e σ).2
  | _, sk, σ => (evalT ω tb e sk σ).ev

theorem kindOf_isRead (b : Bool) : (kindOf b).isRead = true := by cases b <;> rfl

theorem elemMode_ok {ko : Option Kind} (h : ∀ k, ko = some k → k.isRead = true) :
    ModeOk (elemMode ko) false := by
  cases ko with
  | none => rfl
  | some k => exact ⟨rfl, h k rfl⟩

theorem headKind_ok {ko : Option Kind} (mask : Nat) (h : ∀ k, ko = some k → k.isRead = true) :
    ∀ k, (if mask % 2 = 1 then some Kind.readwrite else ko) = some k → k.isRead = true := by
  intro k hk
  split at hk
  · cases hk; rfl
  · exact h k hk

/-- **expression coverage**: the accesses recorded for an expression cover every read and
every write event of its evaluation, provided impure user functions mark their
by-reference arguments READWRITE -/
theorem acc_covers (c : Ctx) (ω : Oracle) (hfn : w = true → c.rule.callRW false false = true) (e : Expr) :
    ∀ (m : Mode) (sk : Bool) (n : Nat) (σ : Store), ModeOk m sk → OkAt c e sk →
      (m = .subs → firstOk1 c e = true) →
      Covers w (acc c e m n).1 (evOf ω c.attrs e m sk σ) := by
  induction e with
  | lit v => intro m sk n σ _ _ _; cases m <;> exact Covers.nil _
  | var x =>
    intro m sk n σ hm _ _
    cases m with
    | val => exact Covers.rd_single (a := ⟨x, .read, n, 0⟩) (by simp [acc]) rfl rfl
    | elem k => exact Covers.rd_single (a := ⟨x, k, n, 0⟩) (by simp [acc]) rfl hm.2
    | subs => exact Covers.nil _
    | spine ko mask s => exact Covers.rd_single (a := ⟨x, .read, n, 0⟩) (by simp [acc]) rfl rfl
  | idx1 a i ih =>
    intro m sk n σ hm hq hsub
    have hi := ih .val false n σ rfl (hq.sub (fun h => by simpa only [okE] using h)) (by intro h; cases h)
    simp only [evOf] at hi
    cases m with
    | val =>
      simp only [acc, evOf, evalT]
      exact hi.both (Covers.rd_single (a := ⟨a, .read, (acc c i .val n).2, 1⟩) (by simp) rfl rfl)
    | elem k =>
      simp only [acc, evOf, evalT]
      exact (Covers.cons hi).append (Covers.rd_single (a := ⟨a, k, n, 0⟩) (by simp) rfl hm.2)
    | subs =>
      simp only [acc, evOf, subsT]
      exact hi
    | spine ko mask s =>
      simp only [acc, evOf, evalT]
      exact hi.both (Covers.rd_single (a := ⟨a, .read, (acc c i .val n).2, 1⟩) (by simp) rfl rfl)
  | idx2 a i j ihi ihj =>
    intro m sk n σ hm hq hsub
    have hi := ihi .val false n σ rfl
      (hq.sub (fun h => by simp only [okE, Bool.and_eq_true] at h; exact h.1)) (by intro h; cases h)
    have hj := ihj .val false (acc c i .val n).2 (evalT ω c.attrs i false σ).st rfl
      (hq.sub (fun h => by simp only [okE, Bool.and_eq_true] at h; exact h.2)) (by intro h; cases h)
    simp only [evOf] at hi hj
    cases m with
    | val =>
      simp only [acc, evOf, evalT]
      exact (hi.both hj).both (Covers.rd_single (a := ⟨a, .read, (acc c j .val (acc c i .val n).2).2, 2⟩) (by simp) rfl rfl)
    | elem k =>
      simp only [acc, evOf, evalT]
      exact (Covers.cons (hi.both hj)).append
        (Covers.rd_single (a := ⟨a, k, n, 0⟩) (by simp) rfl hm.2)
    | subs =>
      simp only [acc, evOf, subsT]
      exact hi.both hj
    | spine ko mask s =>
      simp only [acc, evOf, evalT]
      exact (hi.both hj).both (Covers.rd_single (a := ⟨a, .read, (acc c j .val (acc c i .val n).2).2, 2⟩) (by simp) rfl rfl)
  | idxs a cnt is ih =>
    intro m sk n σ hm hq hsub
    have hi := ih .val false n σ rfl (hq.sub (fun h => by simpa only [okE] using h)) (by intro h; cases h)
    simp only [evOf] at hi
    cases m with
    | val =>
      simp only [acc, evOf, evalT]
      exact hi.both (Covers.rd_single (a := ⟨a, .read, (acc c is .val n).2, cnt⟩) (by simp) rfl rfl)
    | elem k =>
      simp only [acc, evOf, evalT]
      exact (Covers.cons hi).append (Covers.rd_single (a := ⟨a, k, n, 0⟩) (by simp) rfl hm.2)
    | subs =>
      simp only [acc, evOf, subsT]
      exact hi
    | spine ko mask s =>
      simp only [acc, evOf, evalT]
      exact hi.both (Covers.rd_single (a := ⟨a, .read, (acc c is .val n).2, cnt⟩) (by simp) rfl rfl)
  | un op e ih =>
    intro m sk n σ _ hq _
    have h := ih .val false n σ rfl (hq.sub (fun h => by simpa only [okE] using h)) (by intro h; cases h)
    simp only [evOf] at h
    cases m with
    | subs => exact Covers.nil _
    | val => simpa only [acc, evOf, evalT] using h
    | elem k => simpa only [acc, evOf, evalT] using h
    | spine ko mask s => simpa only [acc, evOf, evalT] using h
  | bin op a b iha ihb =>
    intro m sk n σ _ hq _
    have ha := iha .val false n σ rfl
      (hq.sub (fun h => by simp only [okE, Bool.and_eq_true] at h; exact h.1)) (by intro h; cases h)
    have hb := ihb .val false (acc c a .val n).2 (evalT ω c.attrs a false σ).st rfl
      (hq.sub (fun h => by simp only [okE, Bool.and_eq_true] at h; exact h.2)) (by intro h; cases h)
    simp only [evOf] at ha hb
    cases m with
    | subs => exact Covers.nil _
    | val => simp only [acc, evOf, evalT]; exact ha.both hb
    | elem k => simp only [acc, evOf, evalT]; exact ha.both hb
    | spine ko mask s => simp only [acc, evOf, evalT]; exact ha.both hb
  | intr k args ih =>
    intro m sk n σ _ hq _
    have hq' : OkAt c args (c.attrs k).inquiry := by
      have := hq.1
      simp only [okE, Bool.and_eq_true, Bool.or_eq_true, Bool.not_eq_true'] at this
      refine ⟨this.2, fun hi => ?_⟩
      rcases this.1 with h | h
      · rw [hi] at h; cases h
      · exact h
    have hok : ModeOk (.spine (if c.rule.intrRW (c.attrs k).pure (c.attrs k).inquiry false = true
        then some Kind.readwrite else none) 0 (c.attrs k).inquiry) (c.attrs k).inquiry := by
      refine ⟨rfl, ?_⟩
      intro k' hk'
      split at hk'
      · cases hk'; rfl
      · cases hk'
    have h := ih _ (c.attrs k).inquiry n σ hok hq' (by intro h; cases h)
    simp only [evOf] at h
    cases m with
    | subs => exact Covers.nil _
    | val => simpa only [acc, evOf, evalT] using h
    | elem k => simpa only [acc, evOf, evalT] using h
    | spine ko mask s => simpa only [acc, evOf, evalT] using h
  | fcall p f args ih =>
    intro m sk n σ _ hq _
    have hok : ModeOk (.spine (some (kindOf (c.rule.callRW p false))) 0 false) false :=
      ⟨rfl, fun k hk => by cases hk; exact kindOf_isRead _⟩
    have hqa : okE c args = true := by simpa only [okE] using hq.1
    have h := ih _ false n σ hok (hq.sub (fun h => by simpa only [okE] using h)) (by intro h; cases h)
    simp only [evOf] at h
    have key : Covers w (acc c args (.spine (some (kindOf (c.rule.callRW p false))) 0 false) n).1
        (evalT ω c.attrs (.fcall p f args) sk σ).ev := by
      simp only [evalT]
      cases p with
      | true => simpa using h
      | false =>
        simp only [Bool.false_eq_true, if_false]
        refine h.append ?_
        exact applyUpd_covered c ω _ args false _ (fun hw => by rw [hfn hw]; rfl) 0 n 0 σ _ hqa
    cases m with
    | subs => exact Covers.nil _
    | val => simpa only [acc, evOf] using key
    | elem k => simpa only [acc, evOf] using key
    | spine ko mask s => simpa only [acc, evOf] using key
  | cb f names rd dv =>
    intro m sk n σ _ hq hsub
    have hwf : cbNode c names rd dv = true := by simpa only [okE] using hq.1
    have hval : Covers w (cbAcc c names n) (rd.map (fun x => Event.rd (x, 0, 0))) :=
      cbAcc_covers_rd c names rd dv n hwf rd (fun _ h => h)
    cases m with
    | val => simpa only [acc, evOf, evalT] using hval
    | elem k => simpa only [acc, evOf, evalT] using hval
    | spine ko mask s => simpa only [acc, evOf, evalT] using hval
    | subs =>
      have hf := hsub rfl
      simp only [acc, evOf, subsT]
      by_cases hi : c.rule.inqCb = true
      · simp only [hi, if_true]
        exact cbAcc_covers_rd c names rd dv n hwf _ (fun x hx => (List.mem_filter.mp hx).1)
      · have hi' : c.rule.inqCb = false := by cases hq : c.rule.inqCb <;> simp_all
        simp only [firstOk1, hi', Bool.and_false, Bool.false_or, List.isEmpty_iff] at hf
        rw [hf]
        exact Covers.nil _
  | nil =>
    intro m sk n σ _ _ _
    cases m <;> exact Covers.nil _
  | cons e rest ihe ihr =>
    intro m sk n σ hm hq hsub
    have hqe : OkAt c e false := hq.sub (fun h => by simp only [okE, Bool.and_eq_true] at h; exact h.1)
    have hqr : OkAt c rest false := hq.sub (fun h => by simp only [okE, Bool.and_eq_true] at h; exact h.2)
    cases m with
    | subs => exact Covers.nil _
    | val =>
      cases hm
      have h1 := ihe .val false n σ rfl hqe (by intro h; cases h)
      have h2 := ihr .val false (acc c e .val n).2 (evalT ω c.attrs e false σ).st rfl hqr (by intro h; cases h)
      simp only [evOf] at h1 h2 ⊢
      rw [evalT_cons_false]
      simp only [acc]
      exact h1.both h2
    | elem k =>
      obtain ⟨rfl, _⟩ := hm
      have h1 := ihe .val false n σ rfl hqe (by intro h; cases h)
      have h2 := ihr .val false (acc c e .val n).2 (evalT ω c.attrs e false σ).st rfl hqr (by intro h; cases h)
      simp only [evOf] at h1 h2 ⊢
      rw [evalT_cons_false]
      simp only [acc]
      exact h1.both h2
    | spine ko mask s =>
      obtain ⟨rfl, hk⟩ := hm
      cases s with
      | true =>
        have hfirst : firstOk1 c e = true := by simpa only [firstOk] using hq.2 rfl
        simp only [evOf]
        rw [evalT_cons_true]
        simp only [acc, if_true]
        by_cases hs : c.rule.inqSubs = true
        · have h1 := ihe .subs false n σ trivial hqe (fun _ => hfirst)
          have h2 := ihr (.spine ko (mask / 2) false) false (acc c e .subs n).2
            (subsT ω c.attrs e σ).1 ⟨rfl, hk⟩ hqr (by intro h; cases h)
          simp only [evOf] at h1 h2
          simp only [hs, if_true]
          exact h1.both h2
        · rw [subsT_quiet c ω e σ hfirst hs]
          have h2 := ihr (.spine ko (mask / 2) false) false n σ ⟨rfl, hk⟩ hqr (by intro h; cases h)
          simp only [evOf] at h2
          simp only [hs, Bool.false_eq_true, if_false, List.nil_append]
          exact h2
      | false =>
        have h1 := ihe (elemMode (if mask % 2 = 1 then some Kind.readwrite else ko)) false n σ
          (elemMode_ok (headKind_ok mask hk)) hqe (fun h => (elemMode_ne_subs _ h).elim)
        have h2 := ihr (.spine ko (mask / 2) false) false
          (acc c e (elemMode (if mask % 2 = 1 then some Kind.readwrite else ko)) n).2
          (evalT ω c.attrs e false σ).st ⟨rfl, hk⟩ hqr (by intro h; cases h)
        have h1' : Covers w (acc c e (elemMode (if mask % 2 = 1 then some Kind.readwrite else ko)) n).1
            (evalT ω c.attrs e false σ).ev := by
          cases hem : elemMode (if mask % 2 = 1 then some Kind.readwrite else ko) with
          | subs => exact (elemMode_ne_subs _ hem).elim
          | val => rw [hem] at h1; simpa only [evOf] using h1
          | elem k => rw [hem] at h1; simpa only [evOf] using h1
          | spine a b d => cases ko <;> (split at hem <;> simp [elemMode] at hem)
        simp only [evOf] at h2 ⊢
        rw [evalT_cons_false]
        simp only [acc, Bool.false_eq_true, if_false]
        exact h1'.both h2

/-! ## statements -/

/-- every call statement in `s` records as written what its callee may store into: the rule
answers READWRITE for it, or (pure subroutine defined in the same Container, rule uses the
declared intents) exactly the non-INTENT(IN) arguments are READWRITE -/
def okS (c : Ctx) : Stmt → Bool
  | .skip => true
  | .seq a b => okS c a && okS c b
  | .asg _ _ => true
  | .ifThen _ t => okS c t
  | .ite _ t f => okS c t && okS c f
  | .loop _ _ _ _ b => okS c b
  | .while _ b => okS c b
  | .ret => true
  | .opaque _ _ _ _ => true
  | .call p mods _ _ => c.rule.callRW p true || (c.rule.useIntents && p && mods.isSome)
  | .icall k _ _ => c.rule.intrRW (c.attrs k).pure (c.attrs k).inquiry true

/-- side condition on an expression of a statement (`okE`) -/
def okX (c : Ctx) (e : Expr) : Bool := okE c e

/-- side condition for a statement: every CodeBlock (statement or expression) is well-formed for
the rule — its may-read / may-define / designated variables are among the names of its text when
the rule records those, else it mentions no variable at all — and every inquiry intrinsic is
applied to an object whose subscripts the rule visits -/
def okES (c : Ctx) : Stmt → Bool
  | .skip => true
  | .seq a b => okES c a && okES c b
  | .asg l r => okX c l && okX c r
  | .ifThen cnd t => okX c cnd && okES c t
  | .ite cnd t f => okX c cnd && okES c t && okES c f
  | .loop _ lo hi st b => okX c lo && okX c hi && okX c st && okES c b
  | .while cnd b => okX c cnd && okES c b
  | .ret => true
  | .opaque _ names rd wr => cbNode c names (rd ++ wr) none
  | .call _ _ _ args => okX c args
  | .icall k _ args => (!(c.attrs k).inquiry || firstOk c args) && okE c args

theorem okX_at {c : Ctx} {e : Expr} (h : okX c e = true) : OkAt c e false :=
  ⟨h, fun h => by cases h⟩

/-- coverage of an expression visited by `reference_accesses` -/
theorem acc_val (c : Ctx) (ω : Oracle) (hfn : w = true → c.rule.callRW false false = true) (e : Expr)
    (n : Nat) (σ : Store) (hq : okE c e = true) :
    Covers w (acc c e .val n).1 (evalT ω c.attrs e false σ).ev := by
  have := acc_covers c ω hfn e .val false n σ rfl ⟨hq, fun h => by cases h⟩ (by intro h; cases h)
  simpa only [evOf] using this

/-- index accesses of a reference LHS (visited at location 0), its final location and the
number of indices recorded for the target -/
def lhsIdx (c : Ctx) : Expr → List Access × Nat × Nat
  | .var _ => ([], 0, 0)
  | .idx1 _ i => ((acc c i .val 0).1, (acc c i .val 0).2, 1)
  | .idx2 _ i j =>
      ((acc c i .val 0).1 ++ (acc c j .val (acc c i .val 0).2).1, (acc c j .val (acc c i .val 0).2).2, 2)
  | .idxs _ n is => ((acc c is .val 0).1, (acc c is .val 0).2, n)
  | _ => ([], 0, 0)

theorem acc_lhs (c : Ctx) (lhs : Expr) (h : lhs.isRef = true) :
    acc c lhs .val 0 =
      ((lhsIdx c lhs).1 ++ [⟨lhs.refVar, .read, (lhsIdx c lhs).2.1, (lhsIdx c lhs).2.2⟩], (lhsIdx c lhs).2.1) := by
  cases lhs <;> simp [Expr.isRef] at h <;> simp [acc, lhsIdx, Expr.refVar]

theorem project_append (A B : List Access) (x : Nat) : project (A ++ B) x = project A x ++ project B x := by
  simp [project]

/-- `change_read_to_write` succeeds exactly when no index expression of the LHS accesses the
assigned variable; it then turns the target's READ into a WRITE and nothing else -/
theorem changeReadToWrite_ref (I : List Access) (x l k : Nat) (L' : List Access)
    (h : changeReadToWrite (I ++ [⟨x, .read, l, k⟩]) x = some L') :
    L' = I ++ [⟨x, .write, l, k⟩] ∧ ∀ a ∈ I, a.var ≠ x := by
  unfold changeReadToWrite at h
  rw [project_append] at h
  have hp : project [(⟨x, .read, l, k⟩ : Access)] x = [⟨x, .read, l, k⟩] := by simp [project]
  rw [hp] at h
  have hI : project I x = [] := by
    cases hq : project I x with
    | nil => rfl
    | cons b bs =>
      rw [hq] at h
      cases bs <;> simp at h
  have hne : ∀ a ∈ I, a.var ≠ x := by
    intro a ha hv
    have : a ∈ project I x := by simp [project, ha, hv]
    rw [hI] at this
    cases this
  rw [hI] at h
  simp only [List.nil_append, if_true, Option.some.injEq] at h
  refine ⟨?_, hne⟩
  rw [← h, List.map_append]
  congr 1
  · conv => rhs; rw [← List.map_id I]
    apply List.map_congr_left
    intro a ha
    have := hne a ha
    simp [this]
  · simp

theorem changeReadToWrite_ref_iff (I : List Access) (x l k : Nat) :
    (changeReadToWrite (I ++ [⟨x, .read, l, k⟩]) x).isSome = true ↔ ∀ a ∈ I, a.var ≠ x := by
  constructor
  · intro h
    obtain ⟨L', hL⟩ := Option.isSome_iff_exists.mp h
    exact (changeReadToWrite_ref I x l k L' hL).2
  · intro hne
    have hI : project I x = [] := by
      simp only [project, List.filter_eq_nil_iff, beq_iff_eq]
      exact fun a ha => hne a ha
    unfold changeReadToWrite
    rw [project_append, hI]
    simp [project]

/-- the subscripts of the target are covered by the index accesses; the assigned location
belongs to the target variable -/
theorem lhsT_covers (c : Ctx) (ω : Oracle) (hfn : w = true → c.rule.callRW false false = true) (lhs : Expr)
    (hq : okE c lhs = true) (σ : Store) :
    Covers w (lhsIdx c lhs).1 (lhsT ω c.attrs lhs σ).2.1 ∧
      ∀ l, (lhsT ω c.attrs lhs σ).2.2 = some l → l.1 = lhs.refVar := by
  cases lhs with
  | var x => exact ⟨Covers.nil _, fun l h => by simp [lhsT] at h; subst h; rfl⟩
  | idx1 a i =>
    have := acc_val c ω hfn i 0 σ (by simpa only [okE] using hq)
    exact ⟨this, fun l h => by simp [lhsT] at h; subst h; rfl⟩
  | idx2 a i j =>
    refine ⟨?_, fun l h => by simp [lhsT] at h; subst h; rfl⟩
    simp only [okE, Bool.and_eq_true] at hq
    have h1 := acc_val c ω hfn i 0 σ hq.1
    have h2 := acc_val c ω hfn j (acc c i .val 0).2 (evalT ω c.attrs i false σ).st hq.2
    exact h1.both h2
  | idxs a n is =>
    have := acc_val c ω hfn is 0 σ (by simpa only [okE] using hq)
    exact ⟨this, fun l h => by simp [lhsT] at h; subst h; rfl⟩
  | _ => exact ⟨Covers.nil _, fun l h => by simp [lhsT] at h⟩

theorem bumpIf_fst (b : Bool) (r : List Access × Nat) : (bumpIf b r).1 = r.1 := by
  cases b <;> rfl

theorem runItersT_covers {A : List Access} (f : Store → Store × List Event) (v : Nat) (lo step : Int)
    (hf : ∀ σ, Covers w A (f σ).2) (hv : Covers w A [.wr (v, 0, 0)]) :
    ∀ (n : Nat) (k : Int) (q : Store × List Event), Covers w A q.2 →
      Covers w A (runItersT f v lo step n k q).2 := by
  intro n
  induction n with
  | zero => intro k q hq; exact hq.append hv
  | succ n ih =>
    intro k q hq
    simp only [runItersT]
    exact ih _ _ ((hq.append hv).append (hf _))

theorem whileT_covers {A : List Access} (cond : Store → R) (body : Store → Store × List Event)
    (hc : ∀ σ, Covers w A (cond σ).ev) (hb : ∀ σ, Covers w A (body σ).2) :
    ∀ (n : Nat) (q : Store × List Event), Covers w A q.2 → Covers w A (whileT cond body n q).2 := by
  intro n
  induction n with
  | zero => intro q hq; exact hq.append (hc _)
  | succ n ih =>
    intro q hq
    simp only [whileT]
    split
    · exact ih _ ((hq.append (hc _)).append (hb _))
    · exact hq.append (hc _)

/-- **statement coverage**: whenever the real code does not raise, the access list of a
statement covers every read and write event of every execution -/
theorem accS_covers (c : Ctx) (ω : Oracle) (hfn : w = true → c.rule.callRW false false = true) (s : Stmt) :
    ∀ (bump : Bool) (n : Nat) (σ : Store) (r : List Access × Nat), (w = true → okS c s = true) →
      okES c s = true → accS c s bump n = some r → Covers w r.1 (execT ω c.attrs s σ).2 := by
  induction s with
  | skip =>
    intro bump n σ r _ _ h
    simp only [execT]; exact Covers.nil _
  | ret =>
    intro bump n σ r _ _ h
    simp only [execT]; exact Covers.nil _
  | «opaque» f names rd wr =>
    intro bump n σ r _ hq h
    simp only [accS, Option.some.injEq] at h
    cases h
    rw [bumpIf_fst]
    simp only [okES, cbNode, Option.toList_none, List.append_nil, Option.isNone_none, Bool.and_true] at hq
    by_cases hcb : c.rule.cbRW = true
    · simp only [hcb, if_true, List.all_eq_true, List.mem_append, List.contains_iff_mem] at hq ⊢
      simp only [execT]
      refine Covers.append ?_ ?_
      · intro ev hev
        obtain ⟨x, hx, rfl⟩ := List.mem_map.mp hev
        exact ⟨⟨x, .readwrite, n, 0⟩, List.mem_map.mpr ⟨x, hq x (Or.inl hx), rfl⟩, rfl, rfl⟩
      · intro ev hev
        obtain ⟨l, v, rfl, hmem⟩ := applyUpd_events _ _ _ _ ev hev
        obtain ⟨x, hx, hxl⟩ := List.mem_map.mp hmem
        simp only [Prod.mk.injEq, Option.some.injEq] at hxl
        intro _
        refine ⟨⟨x, .readwrite, n, 0⟩, List.mem_map.mpr ⟨x, hq x (Or.inr hx), rfl⟩, ?_, rfl⟩
        rw [← hxl.2]
    · simp only [hcb, Bool.false_eq_true, if_false, List.isEmpty_iff, List.append_eq_nil_iff] at hq ⊢
      obtain ⟨rfl, rfl⟩ := hq
      simp only [execT, List.map_nil, applyUpd, List.append_nil]
      exact Covers.nil _
  | seq a b iha ihb =>
    intro bump n σ r hok hq h
    simp only [okES, Bool.and_eq_true] at hq
    have hoka : w = true → okS c a = true := fun hw => by
      have := hok hw; simp only [okS, Bool.and_eq_true] at this; exact this.1
    have hokb : w = true → okS c b = true := fun hw => by
      have := hok hw; simp only [okS, Bool.and_eq_true] at this; exact this.2
    simp only [accS] at h
    split at h
    · cases h
    · rename_i r1 h1
      split at h
      · cases h
      · rename_i r2 h2
        cases h
        simp only [execT]
        exact (iha false n σ r1 hoka hq.1 h1).both (ihb bump _ _ r2 hokb hq.2 h2)
  | asg lhs rhs =>
    intro bump n σ r _ hq h
    simp only [okES, Bool.and_eq_true] at hq
    simp only [accS] at h
    split at h
    · rename_i href
      rw [acc_lhs c lhs href] at h
      split at h
      · cases h
      · rename_i left' hl
        cases h
        obtain ⟨rfl, -⟩ := changeReadToWrite_ref _ _ _ _ _ hl
        rw [bumpIf_fst]
        obtain ⟨hidx, hloc⟩ := lhsT_covers c ω hfn lhs hq.1 (evalT ω c.attrs rhs false σ).st
        have hrhs := acc_val c ω hfn rhs n σ hq.2
        simp only [execT]
        split
        · rename_i l hl'
          refine (hrhs.both ?_).append (Covers.right ?_)
          · exact Covers.map_shift _ hidx.left
          · apply Covers.map_shift
            exact Covers.wr_single (a := ⟨lhs.refVar, .write, (lhsIdx c lhs).2.1, (lhsIdx c lhs).2.2⟩)
              (by simp) (hloc l hl').symm rfl
        · exact hrhs.both (Covers.map_shift _ hidx.left)
    · cases h
  | ifThen cnd t iht =>
    intro bump n σ r hok hq h
    simp only [okES, Bool.and_eq_true] at hq
    simp only [okS] at hok
    simp only [accS] at h
    split at h
    · cases h
    · rename_i r1 h1
      cases h
      rw [bumpIf_fst]
      have hc := acc_val c ω hfn cnd n σ hq.1
      simp only [execT]
      split
      · exact hc.both (iht false _ _ r1 hok hq.2 h1)
      · exact hc.left
  | ite cnd t f iht ihf =>
    intro bump n σ r hok hq h
    simp only [okES, Bool.and_eq_true] at hq
    have hokt : w = true → okS c t = true := fun hw => by
      have := hok hw; simp only [okS, Bool.and_eq_true] at this; exact this.1
    have hokf : w = true → okS c f = true := fun hw => by
      have := hok hw; simp only [okS, Bool.and_eq_true] at this; exact this.2
    simp only [accS] at h
    split at h
    · cases h
    · rename_i r1 h1
      split at h
      · cases h
      · rename_i r2 h2
        cases h
        rw [bumpIf_fst]
        have hc := acc_val c ω hfn cnd n σ hq.1.1
        simp only [execT]
        split
        · exact (hc.both (iht false _ _ r1 hokt hq.1.2 h1)).left
        · have := ihf false _ (evalT ω c.attrs cnd false σ).st r2 hokf hq.2 h2
          rw [List.append_assoc]
          exact hc.both this.right
  | loop v lo hi st body ih =>
    intro bump n σ r hok hq h
    simp only [okES, Bool.and_eq_true] at hq
    simp only [okS] at hok
    simp only [accS] at h
    split at h
    · cases h
    · rename_i rb hb
      cases h
      rw [bumpIf_fst]
      simp only [execT]
      have h1 := acc_val c ω hfn lo n σ hq.1.1.1
      have h2 := acc_val c ω hfn hi (acc c lo .val n).2 (evalT ω c.attrs lo false σ).st hq.1.1.2
      have h3 := acc_val c ω hfn st (acc c hi .val (acc c lo .val n).2).2
        (evalT ω c.attrs hi false (evalT ω c.attrs lo false σ).st).st hq.1.2
      apply runItersT_covers
      · intro τ
        exact Covers.cons (Covers.cons (Covers.right (ih true _ τ rb hok hq.2 hb)))
      · exact Covers.wr_single (a := ⟨v, .write, n, 0⟩) (by simp) rfl rfl
      · exact Covers.cons (Covers.cons (Covers.left ((h1.both h2).both h3)))
  | «while» cnd b ih =>
    intro bump n σ r hok hq h
    simp only [okES, Bool.and_eq_true] at hq
    simp only [okS] at hok
    simp only [accS] at h
    split at h
    · cases h
    · rename_i r1 h1
      cases h
      rw [bumpIf_fst]
      simp only [execT]
      apply whileT_covers
      · intro τ
        exact (acc_val c ω hfn cnd n τ hq.1).left
      · intro τ
        exact Covers.right (ih false _ τ r1 hok hq.2 h1)
      · exact Covers.nil _
  | call p mods f args =>
    intro bump n σ r hok hq h
    simp only [okES] at hq
    simp only [okS, Bool.or_eq_true, Bool.and_eq_true] at hok
    simp only [accS, Option.some.injEq] at h
    cases h
    rw [bumpIf_fst]
    simp only [execT]
    have hargs := acc_covers c ω hfn args
      (.spine (some (kindOf (c.rule.callRW p true))) (if (c.rule.useIntents && p) = true then mods.getD 0 else 0) false)
      false n σ ⟨rfl, fun k hk => by cases hk; exact kindOf_isRead _⟩ (okX_at hq) (by intro h; cases h)
    simp only [evOf] at hargs
    refine hargs.append ?_
    cases mods with
    | none =>
      simp only
      refine applyUpd_covered c ω _ args false _ (fun hw => ?_) _ n 0 σ _ hq
      rcases hok hw with h | h
      · rw [h]; rfl
      · simp at h
    | some m =>
      simp only
      by_cases hu : (c.rule.useIntents && p) = true
      · simp only [hu, if_true, Option.getD_some]
        exact applyUpdM_covered c ω _ _ args m n 0 σ _ hq
      · refine applyUpdM_covered_all c ω _ args _ (fun hw => ?_) _ m n 0 σ _ hq
        rcases hok hw with h | h
        · rw [h]; rfl
        · exact absurd (by simp only [Bool.and_eq_true]; exact h.1) hu
  | icall k f args =>
    intro bump n σ r hok hq h
    simp only [okES, Bool.and_eq_true, Bool.or_eq_true, Bool.not_eq_true'] at hq
    have hq' : OkAt c args (c.attrs k).inquiry := by
      refine ⟨hq.2, fun hi => ?_⟩
      rcases hq.1 with h' | h'
      · rw [hi] at h'; cases h'
      · exact h'
    simp only [okS] at hok
    simp only [accS, Option.some.injEq] at h
    cases h
    rw [bumpIf_fst]
    simp only [execT]
    by_cases hrw : c.rule.intrRW (c.attrs k).pure (c.attrs k).inquiry true = true
    · simp only [hrw, if_true]
      have := acc_covers c ω hfn args (.spine (some .readwrite) 0 (c.attrs k).inquiry) (c.attrs k).inquiry n σ
        ⟨rfl, fun k hk => by cases hk; rfl⟩ hq' (by intro h; cases h)
      simp only [evOf] at this
      refine this.append ?_
      exact applyUpd_covered c ω _ args _ _ (fun _ => rfl) 0 n 0 σ _ hq.2
    · have hwf : w = false := by
        cases w with
        | false => rfl
        | true => exact absurd (hok rfl) hrw
      subst hwf
      simp only [hrw, Bool.false_eq_true, if_false]
      have := acc_covers c ω hfn args (.spine none 0 (c.attrs k).inquiry) (c.attrs k).inquiry n σ
        ⟨rfl, fun k hk => by cases hk⟩ hq' (by intro h; cases h)
      simp only [evOf] at this
      refine this.append ?_
      intro ev hev
      obtain ⟨l, v, rfl, -⟩ := applyUpd_events _ _ _ _ ev hev
      intro hw; cases hw

/-! ## agreement with MiniF on the common fragment -/

theorem evalT_embE (ω : Oracle) (tb : Nat → IAttr) (e : MiniF.Expr) (σ : Store) :
    (evalT ω tb (embE e) false σ).val = MiniF.eval e σ ∧ (evalT ω tb (embE e) false σ).st = σ := by
  induction e with
  | lit n => exact ⟨rfl, rfl⟩
  | var x => exact ⟨rfl, rfl⟩
  | idx1 a i ih =>
    simp only [embE, evalT, MiniF.eval, ih.1, ih.2, and_self]
  | idx2 a i j ihi ihj =>
    simp only [embE, evalT, MiniF.eval, ihi.1, ihi.2, ihj.1, ihj.2, and_self]
  | un op e ih =>
    simp only [embE, evalT, MiniF.eval, ih.1, ih.2, and_self]
  | bin op a b iha ihb =>
    simp only [embE, evalT, MiniF.eval, iha.1, iha.2, ihb.1, ihb.2, and_self]

theorem runItersT_fst (f : Store → Store × List Event) (g : Store → Store) (hfg : ∀ σ, (f σ).1 = g σ)
    (v : Nat) (lo step : Int) :
    ∀ (n : Nat) (k : Int) (q : Store × List Event),
      (runItersT f v lo step n k q).1 = MiniF.runIters g v lo step n k q.1 := by
  intro n
  induction n with
  | zero => intro k q; rfl
  | succ n ih =>
    intro k q
    simp only [runItersT, MiniF.runIters, ih, hfg]

/-- the store component of the tracing semantics is `MiniF.exec` -/
theorem execT_emb (ω : Oracle) (tb : Nat → IAttr) (s : MiniF.Stmt) :
    ∀ σ : Store, (execT ω tb (emb s) σ).1 = MiniF.exec s σ := by
  induction s with
  | skip => intro σ; rfl
  | seq a b iha ihb => intro σ; simp only [emb, execT, MiniF.exec, iha, ihb]
  | assign x e =>
    intro σ
    simp only [emb, execT, lhsT, MiniF.exec, (evalT_embE ω tb e σ).1, (evalT_embE ω tb e σ).2]
  | store1 a i e =>
    intro σ
    simp only [emb, execT, lhsT, MiniF.exec, (evalT_embE ω tb e σ).1, (evalT_embE ω tb e σ).2,
      (evalT_embE ω tb i σ).1, (evalT_embE ω tb i σ).2]
  | store2 a i j e =>
    intro σ
    simp only [emb, execT, lhsT, MiniF.exec, (evalT_embE ω tb e σ).1, (evalT_embE ω tb e σ).2,
      (evalT_embE ω tb i σ).1, (evalT_embE ω tb i σ).2, (evalT_embE ω tb j σ).1, (evalT_embE ω tb j σ).2]
  | ite cnd t f iht ihf =>
    intro σ
    simp only [emb, execT, MiniF.exec, (evalT_embE ω tb cnd σ).1, (evalT_embE ω tb cnd σ).2]
    split
    · exact iht σ
    · exact ihf σ
  | loop v lo hi st b ih =>
    intro σ
    simp only [emb, execT, MiniF.exec]
    rw [runItersT_fst _ (MiniF.exec b) ih]
    simp only [(evalT_embE ω tb lo σ).1, (evalT_embE ω tb lo σ).2, (evalT_embE ω tb hi σ).1,
      (evalT_embE ω tb hi σ).2, (evalT_embE ω tb st σ).1, (evalT_embE ω tb st σ).2]

/-! ## location numbers are monotone -/

/-- all accesses of `r` lie between the start location `n` and the end location `r.2` -/
def Bnd (n : Nat) (r : List Access × Nat) : Prop := n ≤ r.2 ∧ ∀ a ∈ r.1, n ≤ a.loc ∧ a.loc ≤ r.2

theorem Bnd.nil (n : Nat) : Bnd n ([], n) := ⟨Nat.le_refl _, fun _ h => by cases h⟩

theorem Bnd.append {n : Nat} {r1 r2 : List Access × Nat} (h1 : Bnd n r1) (h2 : Bnd r1.2 r2) :
    Bnd n (r1.1 ++ r2.1, r2.2) := by
  refine ⟨Nat.le_trans h1.1 h2.1, fun a ha => ?_⟩
  rcases List.mem_append.mp ha with h | h
  · exact ⟨(h1.2 a h).1, Nat.le_trans (h1.2 a h).2 h2.1⟩
  · exact ⟨Nat.le_trans h1.1 (h2.2 a h).1, (h2.2 a h).2⟩

theorem Bnd.snoc {n : Nat} {r : List Access × Nat} (h : Bnd n r) (x : Nat) (k : Kind) (i : Nat) :
    Bnd n (r.1 ++ [⟨x, k, r.2, i⟩], r.2) := by
  have := Bnd.append h (r2 := ([⟨x, k, r.2, i⟩], r.2))
    ⟨Nat.le_refl _, fun a ha => by rw [List.mem_singleton] at ha; subst ha; exact ⟨Nat.le_refl _, Nat.le_refl _⟩⟩
  exact this

theorem Bnd.consAt {n : Nat} {r : List Access × Nat} (h : Bnd n r) (x : Nat) (k : Kind) (i : Nat) :
    Bnd n (⟨x, k, n, i⟩ :: r.1, r.2) := by
  refine ⟨h.1, fun a ha => ?_⟩
  rcases List.mem_cons.mp ha with rfl | ha
  · exact ⟨Nat.le_refl _, h.1⟩
  · exact h.2 a ha

theorem Bnd.succ {n : Nat} {r : List Access × Nat} (h : Bnd n r) : Bnd n (r.1, r.2 + 1) :=
  ⟨Nat.le_succ_of_le h.1, fun a ha => ⟨(h.2 a ha).1, Nat.le_succ_of_le (h.2 a ha).2⟩⟩

theorem acc_bnd (c : Ctx) (e : Expr) : ∀ (m : Mode) (n : Nat), Bnd n (acc c e m n) := by
  induction e with
  | lit v => intro m n; cases m <;> exact Bnd.nil n
  | var x =>
    intro m n
    cases m with
    | subs => exact Bnd.nil n
    | val => exact (Bnd.nil n).consAt x _ 0
    | elem k => exact (Bnd.nil n).consAt x _ 0
    | spine ko mask s => exact (Bnd.nil n).consAt x _ 0
  | idx1 a i ih =>
    intro m n
    cases m with
    | val => exact (ih .val n).snoc a .read 1
    | elem k => exact (ih .val n).consAt a k 0
    | subs => exact ih .val n
    | spine ko mask s => exact (ih .val n).snoc a .read 1
  | idx2 a i j ihi ihj =>
    intro m n
    have h := (ihi .val n).append (ihj .val _)
    cases m with
    | val => exact h.snoc a .read 2
    | elem k => exact h.consAt a k 0
    | subs => exact h
    | spine ko mask s => exact h.snoc a .read 2
  | idxs a cnt is ih =>
    intro m n
    cases m with
    | val => exact (ih .val n).snoc a .read cnt
    | elem k => exact (ih .val n).consAt a k 0
    | subs => exact ih .val n
    | spine ko mask s => exact (ih .val n).snoc a .read cnt
  | un op e ih =>
    intro m n
    cases m with
    | subs => exact Bnd.nil n
    | val => exact ih .val n
    | elem k => exact ih .val n
    | spine ko mask s => exact ih .val n
  | bin op a b iha ihb =>
    intro m n
    cases m with
    | subs => exact Bnd.nil n
    | val => exact (iha .val n).append (ihb .val _)
    | elem k => exact (iha .val n).append (ihb .val _)
    | spine ko mask s => exact (iha .val n).append (ihb .val _)
  | intr k args ih =>
    intro m n
    cases m with
    | subs => exact Bnd.nil n
    | val => exact ih _ n
    | elem k => exact ih _ n
    | spine ko mask s => exact ih _ n
  | fcall p f args ih =>
    intro m n
    cases m with
    | subs => exact Bnd.nil n
    | val => exact (ih _ n).succ
    | elem k => exact (ih _ n).succ
    | spine ko mask s => exact (ih _ n).succ
  | nil => intro m n; cases m <;> exact Bnd.nil n
  | cb f names rd dv =>
    intro m n
    have hb : Bnd n (cbAcc c names n, n) := by
      refine ⟨Nat.le_refl _, fun a ha => ?_⟩
      simp only [cbAcc] at ha
      split at ha
      · obtain ⟨x, _, rfl⟩ := List.mem_map.mp ha
        exact ⟨Nat.le_refl _, Nat.le_refl _⟩
      · cases ha
    cases m with
    | subs =>
      simp only [acc]
      split
      · exact hb
      · exact Bnd.nil n
    | val => exact hb
    | elem k => exact hb
    | spine ko mask s => exact hb
  | cons e rest ihe ihr =>
    intro m n
    cases m with
    | subs => exact Bnd.nil n
    | val => exact (ihe .val n).append (ihr .val _)
    | elem k => exact (ihe .val n).append (ihr .val _)
    | spine ko mask s =>
      cases s with
      | true =>
        simp only [acc, if_true]
        by_cases hs : c.rule.inqSubs = true
        · simp only [hs, if_true]
          exact (ihe .subs n).append (ihr _ _)
        · simp only [hs, Bool.false_eq_true, if_false]
          exact (Bnd.nil n).append (ihr _ _)
      | false =>
        simp only [acc, Bool.false_eq_true, if_false]
        exact (ihe _ n).append (ihr _ _)

end C11
