import PsyVerif.Lemmas.Halo
/-! # C22 — step lemmas (placement decisions, exchanges, marks) used by the global induction -/
namespace C22

/-- the defect class of known finding `C22-write-only-kernel-reads-annexed`: a cell-column kernel
whose updates are all `GH_WRITE`, iterating over owned cells, reads a field that is not known to
be discontinuous without a stencil, while annexed dofs are not computed redundantly -/
def writeOnlyPattern (cfg : Cfg) (k : Kern) (b : Bound) (a : Arg) : Bool :=
  !cfg.annexed && !k.dofKernel && k.allWrites && b.lvl == .owned && !a.disc && a.stencil.isNone

/-- bounds that `LFRicLoop.load` and the transformations can produce: `nannexed` only for dof
loops with COMPUTE_ANNEXED_DOFS, `ncolour` only for kernels whose updates are all `GH_WRITE`
(any other kernel on a continuous space iterates into the halo) -/
def Bound.ok (cfg : Cfg) (k : Kern) (b : Bound) : Prop :=
  (b.lvl = .annexed → k.dofKernel = true ∧ cfg.annexed = true) ∧
  (b.coloured = true → b.lvl = .owned → k.allWrites = true) ∧ b.lvl.wf

/-- **Fields without a halo exchange are safe.**  When `_halo_read_access` says that an argument
does not read its halo (so `create_halo_exchanges` never considers it), what the kernel needs
according to the specification holds in every well-formed state — except for the defect class
`writeOnlyPattern` (known finding). -/
theorem noHaloAccess_sound (cfg : Cfg) (H : Nat) (env : Nat → Nat) (cont : Bool) (k : Kern)
    (b : Bound) (a : Arg) (s : FState)
    (hra : haloReadAccess cfg k b a = false)
    (hpat : writeOnlyPattern cfg k b a = false)
    (hb : b.ok cfg k) (hd : a.disc = true → cont = false)
    (hann : cfg.annexed = true → cont = true → s.ann = true) :
    sat s (specNeed H env cont k b a) = true := by
  obtain ⟨lvl, col⟩ := b
  obtain ⟨f, acc, disc, st⟩ := a
  obtain ⟨dof, args⟩ := k
  obtain ⟨ann⟩ := cfg
  obtain ⟨hb1, hb2, hb3⟩ := hb
  obtain ⟨sa, scd⟩ := s
  generalize haw : Kern.allWrites ⟨dof, args⟩ = aw at *
  simp only [Level.wf] at hb3
  cases acc <;> cases st <;> cases lvl <;> cases dof <;>
    simp [haloReadAccess, Level.isHalo, Access.reads] at hra <;>
    simp [specNeed, sat, lvlOf, Access.reads] <;>
    (try simp [writeOnlyPattern, haw] at hpat) <;> (try simp [haw] at hra) <;>
    (try simp at hb1) <;> (try simp at hb2) <;> (try simp at hann) <;> (try simp at hd) <;>
    (cases cont <;> cases disc <;> cases ann <;> cases col <;> cases aw <;> simp_all)

/-- what the previous writer is statically known to leave clean (`gen_mark_halos_clean_dirty`
starting from a dirty halo) -/
def cleanAfter (H : Nat) (w : WriteInfo) : Nat := recAfter H w 0

theorem evalDepths_single (H : Nat) (env : Nat → Nat) (d : HaloDepth) :
    evalDepths H env [d] = evalDepth H env d := by
  simp [evalDepths]

theorem required_sound (cfg : Cfg) (req : List HaloDepth) (w : WriteInfo) (kn : Bool)
    (h : required cfg req (some w) = (false, kn)) :
    (∃ r0, req = [r0] ∧ r0.annexedOnly = true ∧
        (cfg.annexed = true ∨ (w.lit = 1 ∧ w.dirtyOuter = true ∧ w.maxDepth = false))) ∨
    (w.maxDepth = true ∧ w.dirtyOuter = false) ∨
    (∀ H env, evalDepths H env req ≤ cleanAfter H w) := by
  obtain ⟨l, m, d⟩ := w
  rcases req with _ | ⟨r0, _ | ⟨r1, rs⟩⟩
  · -- empty requirement list
    right; right
    intro H env
    simp [evalDepths]
  · obtain ⟨rl, rv, rm, rm1, ra⟩ := r0
    simp only [evalDepths_single]
    cases m <;> cases d <;> cases ra <;> cases rm <;> cases rm1 <;> cases rv <;>
      simp [required] at h <;> (repeat' (split at h)) <;>
      simp_all [evalDepth, cleanAfter, recAfter] <;> (try omega)
  · cases m <;> cases d <;> simp [required] at h <;> (repeat' (split at h)) <;> simp_all

/-- **A halo exchange establishes its depth** whether or not it is guarded by `is_dirty`
(`known` only matters for efficiency): afterwards the halo is clean to the computed depth, the
recorded state is still conservative and the state well formed. -/
theorem hex_establishes (H : Nat) (env : Nat → Nat) (cont : Bool) (f : Nat)
    (ds : List HaloDepth) (chk : Bool) (s s' : RState)
    (hwf : s.recorded ≤ s.act.cd) (hann : s.act.cd = 0 ∨ s.act.ann = true)
    (h : stepF H env cont f s (.hex .sync f ds chk) = .ok s') :
    evalDepths H env ds ≤ s'.act.cd ∧ s'.recorded ≤ s'.act.cd ∧
    (s'.act.cd = 0 ∨ s'.act.ann = true) := by
  obtain ⟨r, ⟨a, cd⟩, infl⟩ := s
  simp only [stepF] at h
  simp at hwf hann
  have h0 : ¬ (cd < r) := by omega
  cases infl <;> simp [h0] at h
  subst h
  by_cases hd : evalDepths H env ds = 0
  · simp [exchanged, hd]
    exact ⟨hwf, hann⟩
  · cases chk <;> simp [exchanged, hd]
    · refine ⟨by omega, by omega⟩
    · by_cases hr : r < evalDepths H env ds
      · simp [hr, hd]; refine ⟨by omega, by omega⟩
      · simp [hr]; refine ⟨by omega, by omega, hann⟩

/-- **The depth of a halo exchange covers every reader it serves** (`HaloReadAccess` +
`_create_depth_list`, any number of readers): for the exchange of field `f` placed in front of
`rest`, every argument `r` that reads `f` before its next writer needs, according to the
specification, at most the depth the exchange is given — for every halo depth `H` and all
extents (provided the requirement of `r` alone fits into the halo, `ReaderOK`). -/
theorem hex_covers_readers (H : Nat) (env : Nat → Nat) (cont : Bool) (f : Nat) (rest : Sched)
    (r : Kern × Bound × Arg) (hr : r ∈ fwdReaders f rest) (hok : ReaderOK r.2.1 r.2.2)
    (hdeep : infoNeed H env (readInfo r.1 r.2.1 r.2.2) ≤ H) :
    (specNeed H env cont r.1 r.2.1 r.2.2).depth ≤ evalDepths H env (hexDepth f rest) := by
  obtain ⟨h1, h2⟩ := readInfo_need H env cont r.1 r.2.1 r.2.2 hok
  refine Nat.le_trans h1 ?_
  unfold hexDepth
  exact depthList_covers H env _ _ (List.mem_map_of_mem hr) h2 hdeep

end C22
