import PsyVerif.Model.AD
import Mathlib.Tactic.Linarith
import Mathlib.Tactic.Ring
/-! # C19: the reversed-loop bound rule of `AdjointVisitor.loop_node`

`do v = hi - MOD(hi - lo, s), lo, -s` visits the values of `do v = lo, hi, s` in reverse
order for every `lo hi s` (positive, negative, non-dividing steps, zero-trip loops) EXCEPT
when the original loop has zero trips and `hi` lies strictly between `lo - s` and `lo`
(`spurious`): then the reversed loop runs once, at `lo`. -/
namespace C19
open MiniF

theorem iterVals_snoc (a d : Int) (n : Nat) : iterVals a d n ++ [a + n * d] = iterVals a d (n + 1) := by
  induction n generalizing a with
  | zero => simp [iterVals]
  | succ n ih =>
    have h := ih (a + d)
    simp only [iterVals, List.cons_append, List.cons.injEq, true_and] at h ⊢
    rw [← h]
    congr 2
    push_cast
    ring

theorem iterVals_reverse (lo s : Int) (n : Nat) :
    (iterVals lo s (n + 1)).reverse = iterVals (lo + n * s) (-s) (n + 1) := by
  induction n generalizing lo with
  | zero => simp [iterVals]
  | succ n ih =>
    have h1 : iterVals lo s (n + 1 + 1) = lo :: iterVals (lo + s) s (n + 1) := rfl
    rw [h1, List.reverse_cons, ih (lo + s), ← iterVals_snoc _ _ (n + 1)]
    have e1 : lo + s + (n : Int) * s = lo + ((n + 1 : Nat) : Int) * s := by push_cast; ring
    have e2 : lo + ((n + 1 : Nat) : Int) * s + ((n + 1 : Nat) : Int) * -s = lo := by ring
    rw [e1, e2]

theorem iterVals_map_neg (lo s : Int) (n : Nat) :
    (iterVals lo s n).map (fun x => -x) = iterVals (-lo) (-s) n := by
  induction n generalizing lo with
  | zero => rfl
  | succ n ih =>
    simp only [iterVals, List.map_cons, ih]
    congr 2
    ring

/-- exact multiples under truncating division by the negated step -/
theorem mul_tdiv_neg (k s : Int) (hs : s ≠ 0) : (k * s).tdiv (-s) = -k := by
  rw [Int.tdiv_neg, Int.mul_tdiv_cancel _ hs]

theorem trip_eq (lo hi s : Int) (hs : s ≠ 0) : trip lo hi s = ((hi - lo + s).tdiv s).toNat := by
  simp [trip, hs]

/-- zero trips for a positive step iff `hi < lo` -/
theorem trip_zero_of_lt {lo hi s : Int} (hs : 0 < s) (h : hi < lo) : trip lo hi s = 0 := by
  rw [trip_eq _ _ _ (by omega), Int.toNat_eq_zero]
  by_cases h0 : 0 ≤ hi - lo + s
  · rw [Int.tdiv_eq_zero_of_lt h0 (by omega)]
  · have h1 : hi - lo + s = -(-(hi - lo + s)) := by ring
    rw [h1, Int.neg_tdiv]
    have := Int.tdiv_nonneg (a := -(hi - lo + s)) (b := s) (by omega) (by omega)
    omega

/-- quotient/remainder facts for `0 ≤ d`, `0 < s` -/
theorem trip_of_le {lo hi s : Int} (hs : 0 < s) (h : lo ≤ hi) :
    trip lo hi s = ((hi - lo) / s).toNat + 1 ∧ (hi - lo).tmod s = (hi - lo) % s ∧ 0 ≤ (hi - lo) / s := by
  have hd : 0 ≤ hi - lo := by omega
  have hq : 0 ≤ (hi - lo) / s := Int.ediv_nonneg hd (by omega)
  refine ⟨?_, Int.tmod_eq_emod_of_nonneg hd, hq⟩
  rw [trip_eq _ _ _ (by omega), Int.tdiv_eq_ediv_of_nonneg (by omega)]
  have key : (hi - lo + s) / s = (hi - lo) / s + 1 ∧ (hi - lo + s) % s = (hi - lo) % s := by
    rw [Int.ediv_emod_unique hs]
    refine ⟨?_, Int.emod_nonneg _ (by omega), Int.emod_lt_of_pos _ hs⟩
    have := Int.emod_add_mul_ediv (hi - lo) s
    linarith
  rw [key.1]
  omega

/-- the loop rule for a positive step -/
theorem iters_rev_pos {lo hi s : Int} (hs : 0 < s) (hsp : spurious lo hi s = false) :
    iters (hi - (hi - lo).tmod s) lo (-s) = (iters lo hi s).reverse := by
  have hs0 : s ≠ 0 := by omega
  by_cases h : lo ≤ hi
  · obtain ⟨ht, hm, hq⟩ := trip_of_le hs h
    have hdiv := Int.emod_add_mul_ediv (hi - lo) s
    have hstart : hi - (hi - lo).tmod s = lo + (((hi - lo) / s).toNat : Int) * s := by
      rw [hm, Int.toNat_of_nonneg hq]; linarith
    have htrip' : trip (hi - (hi - lo).tmod s) lo (-s) = ((hi - lo) / s).toNat + 1 := by
      rw [trip_eq _ _ _ (by omega), hm]
      have e : lo - (hi - (hi - lo) % s) + -s = (-((hi - lo) / s + 1)) * s := by linarith
      rw [e, mul_tdiv_neg _ _ hs0]
      omega
    unfold iters
    rw [htrip', ht, iterVals_reverse, hstart]
  · have hlt : hi < lo := by omega
    have hle : hi ≤ lo - s := by
      simp only [spurious, Bool.or_eq_false_iff, Bool.and_eq_false_iff, decide_eq_false_iff_not] at hsp
      omega
    have ht : trip lo hi s = 0 := trip_zero_of_lt hs hlt
    -- e = lo - hi ≥ s > 0
    have he : 0 ≤ lo - hi := by omega
    have hm : (hi - lo).tmod s = -((lo - hi) % s) := by
      have : hi - lo = -(lo - hi) := by ring
      rw [this, Int.neg_tmod, Int.tmod_eq_emod_of_nonneg he]
    have hdiv := Int.emod_add_mul_ediv (lo - hi) s
    have hq1 : 1 ≤ (lo - hi) / s := Int.le_ediv_of_mul_le hs (by omega)
    have htrip' : trip (hi - (hi - lo).tmod s) lo (-s) = 0 := by
      rw [trip_eq _ _ _ (by omega), hm, Int.toNat_eq_zero]
      have e : lo - (hi - -((lo - hi) % s)) + -s = ((lo - hi) / s - 1) * s := by linarith
      rw [e, mul_tdiv_neg _ _ hs0]
      omega
    unfold iters
    rw [htrip', ht]
    rfl

/-- the spurious case for a positive step: the original loop has no trip, the reversed one runs at `lo` -/
theorem iters_spurious_pos {lo hi s : Int} (hs : 0 < s) (h1 : lo - s < hi) (h2 : hi < lo) :
    iters lo hi s = [] ∧ iters (hi - (hi - lo).tmod s) lo (-s) = [lo] := by
  have hs0 : s ≠ 0 := by omega
  have ht : trip lo hi s = 0 := trip_zero_of_lt hs h2
  have he : 0 ≤ lo - hi := by omega
  have hm : (hi - lo).tmod s = hi - lo := by
    have : hi - lo = -(lo - hi) := by ring
    rw [this, Int.neg_tmod, Int.tmod_eq_emod_of_nonneg he, Int.emod_eq_of_lt he (by omega)]
  have htrip' : trip (hi - (hi - lo).tmod s) lo (-s) = 1 := by
    rw [trip_eq _ _ _ (by omega), hm]
    have e : lo - (hi - (hi - lo)) + -s = (-1) * s := by ring
    rw [e, mul_tdiv_neg _ _ hs0]
    rfl
  refine ⟨by unfold iters; rw [ht]; rfl, ?_⟩
  unfold iters
  rw [htrip', hm]
  simp [iterVals]

/-! ### negative steps by the symmetry `x ↦ -x` -/

theorem trip_neg (lo hi s : Int) : trip (-lo) (-hi) (-s) = trip lo hi s := by
  unfold trip
  by_cases hs : s = 0
  · simp [hs]
  · have hs' : -s ≠ 0 := by omega
    simp only [hs, hs', if_false]
    have e : -hi - -lo + -s = -(hi - lo + s) := by ring
    rw [e, Int.neg_tdiv, Int.tdiv_neg, neg_neg]

theorem iters_neg (lo hi s : Int) : iters (-lo) (-hi) (-s) = (iters lo hi s).map (fun x => -x) := by
  unfold iters
  rw [trip_neg, iterVals_map_neg]

theorem spurious_neg (lo hi s : Int) : spurious (-lo) (-hi) (-s) = spurious lo hi s := by
  unfold spurious
  have a1 : (0 < -s) = (s < 0) := by apply propext; omega
  have a2 : (-lo - -s < -hi) = (hi < lo - s) := by apply propext; omega
  have a3 : (-hi < -lo) = (lo < hi) := by apply propext; omega
  have b1 : (-s < 0) = (0 < s) := by apply propext; omega
  have b2 : (-lo < -hi) = (hi < lo) := by apply propext; omega
  have b3 : (-hi < -lo - -s) = (lo - s < hi) := by apply propext; omega
  simp only [a1, a2, a3, b1, b2, b3]
  cases decide (0 < s) <;> cases decide (lo - s < hi) <;> cases decide (hi < lo) <;>
    cases decide (s < 0) <;> cases decide (lo < hi) <;> cases decide (hi < lo - s) <;> rfl

theorem revStart_neg (lo hi s : Int) : -hi - (-hi - -lo).tmod (-s) = -(hi - (hi - lo).tmod s) := by
  have e : -hi - -lo = -(hi - lo) := by ring
  rw [e, Int.tmod_neg, Int.neg_tmod]
  ring

/-- **The loop rule.**  For every `lo hi s` (any signs, `s = 0` included: no trips at all)
that is not `spurious`, the reversed bounds visit the same values in reverse order. -/
theorem iters_rev (lo hi s : Int) (hsp : spurious lo hi s = false) :
    iters (hi - (hi - lo).tmod s) lo (-s) = (iters lo hi s).reverse := by
  rcases lt_trichotomy s 0 with hs | hs | hs
  · have h := iters_rev_pos (lo := -lo) (hi := -hi) (s := -s) (by omega) (by rw [spurious_neg]; exact hsp)
    rw [revStart_neg, iters_neg lo hi s, neg_neg] at h
    have h2 := iters_neg (hi - (hi - lo).tmod s) lo (-s)
    rw [neg_neg] at h2
    rw [h2, ← List.map_reverse] at h
    have inj : ∀ a b : Int, (fun x : Int => -x) a = (fun x : Int => -x) b → a = b := fun a b hab => by simpa using hab
    exact (List.map_inj_right inj).mp h
  · subst hs
    simp [iters, trip, iterVals]
  · exact iters_rev_pos hs hsp

/-- literal unit steps take the branch without offset -/
theorem iters_rev_unit (lo hi s : Int) (h : s = 1 ∨ s = -1) :
    iters hi lo (-s) = (iters lo hi s).reverse := by
  have hsp : spurious lo hi s = false := by
    rcases h with h | h <;> subst h <;>
      simp only [spurious, Bool.or_eq_false_iff, Bool.and_eq_false_iff, decide_eq_false_iff_not] <;> omega
  have hm : (hi - lo).tmod s = 0 := by
    rcases h with h | h <;> subst h
    · exact Int.tmod_one _
    · rw [Int.tmod_neg]; exact Int.tmod_one _
  have := iters_rev lo hi s hsp
  rwa [hm, sub_zero] at this

/-- **Characterisation of the defect**: exactly in the `spurious` case the original loop has no
trip while the reversed loop of the pinned rule executes once, with `v = lo`. -/
theorem iters_spurious (lo hi s : Int) (hsp : spurious lo hi s = true) :
    iters lo hi s = [] ∧ iters (hi - (hi - lo).tmod s) lo (-s) = [lo] := by
  simp only [spurious, Bool.or_eq_true, Bool.and_eq_true, decide_eq_true_eq] at hsp
  rcases hsp with ⟨⟨h0, h1⟩, h2⟩ | ⟨⟨h0, h1⟩, h2⟩
  · exact iters_spurious_pos h0 h1 h2
  · have h := iters_spurious_pos (lo := -lo) (hi := -hi) (s := -s) (by omega) (by omega) (by omega)
    rw [revStart_neg, iters_neg lo hi s, neg_neg] at h
    have h2' := iters_neg (hi - (hi - lo).tmod s) lo (-s)
    rw [neg_neg] at h2'
    rw [h2'] at h
    obtain ⟨ha, hb⟩ := h
    refine ⟨List.map_eq_nil_iff.mp ha, ?_⟩
    have inj : ∀ a b : Int, (fun x : Int => -x) a = (fun x : Int => -x) b → a = b := fun a b hab => by simpa using hab
    have : List.map (fun x : Int => -x) (iters (hi - (hi - lo).tmod s) lo (-s)) = List.map (fun x => -x) [lo] := by
      simpa using hb
    exact (List.map_inj_right inj).mp this

end C19
