import PsyVerif.Lemmas.HaloStep
/-! # C22 — running lowered schedules: sequencing, marks of other fields, one kernel loop -/
namespace C22

variable (H : Nat) (env : Nat → Nat) (cont : Bool) (f : Nat)

theorem stepsF_append : ∀ (xs ys : List LItem) (s : RState),
    stepsF H env cont f (xs ++ ys) s =
      match stepsF H env cont f xs s with
      | .ok s' => stepsF H env cont f ys s'
      | .error e => .error e
  | [], ys, s => by simp [stepsF]
  | x :: xs, ys, s => by
    simp only [List.cons_append, stepsF]
    cases stepF H env cont f s x with
    | error e => rfl
    | ok s' => exact stepsF_append xs ys s'

theorem runF_append : ∀ (xs ys : List LItem) (s : RState),
    runF H env cont f (xs ++ ys) s =
      match stepsF H env cont f xs s with
      | .ok s' => runF H env cont f ys s'
      | .error e => .error e
  | [], ys, s => by simp [stepsF]
  | x :: xs, ys, s => by
    simp only [List.cons_append, stepsF, runF]
    cases stepF H env cont f s x with
    | error e => rfl
    | ok s' => exact runF_append xs ys s'

theorem runF_cons (x : LItem) (xs : List LItem) (s : RState) :
    runF H env cont f (x :: xs) s =
      match stepF H env cont f s x with
      | .ok s' => runF H env cont f xs s'
      | .error e => .error e := by
  simp only [runF]
  cases stepF H env cont f s x <;> rfl

/-- the marks of an argument on another field do not concern field `f` -/
theorem stepsF_marksOf_other (k : Kern) (b : Bound) (a : Arg) (s : RState) (hne : a.field ≠ f) :
    stepsF H env cont f (marksOf k b a) s = .ok s := by
  unfold marksOf
  generalize writeInfo k b a = w
  obtain ⟨l, m, d⟩ := w
  by_cases hl : l = 0 <;> cases m <;> cases d <;>
    simp [stepsF, stepF, hl, hne] <;>
    (split <;> simp [stepsF, stepF, hne])

theorem marks_go_none (k : Kern) (b : Bound) : ∀ (args : List Arg) (seen : List Nat) (s : RState),
    (∀ a ∈ args, a.field ≠ f) → stepsF H env cont f (marks.go k b seen args) s = .ok s
  | [], seen, s, _ => by simp [marks.go, stepsF]
  | x :: xs, seen, s, h => by
    have hx : x.field ≠ f := h x (by simp)
    have hxs : ∀ a ∈ xs, a.field ≠ f := fun a ha => h a (by simp [ha])
    simp only [marks.go]
    split
    · rw [stepsF_append, stepsF_marksOf_other H env cont f k b x s hx]
      exact marks_go_none k b xs _ s hxs
    · exact marks_go_none k b xs _ s hxs

theorem marks_go_steps (k : Kern) (b : Bound) : ∀ (args : List Arg) (seen : List Nat) (s : RState),
    f ∉ seen → (args.map (·.field)).Nodup →
    stepsF H env cont f (marks.go k b seen args) s =
      match args.find? (fun a => a.field == f) with
      | some a => if a.access != .read then stepsF H env cont f (marksOf k b a) s else .ok s
      | none => .ok s
  | [], seen, s, _, _ => by simp [marks.go, stepsF]
  | x :: xs, seen, s, hs, hn => by
    simp only [List.map_cons, List.nodup_cons] at hn
    obtain ⟨hx, hn'⟩ := hn
    by_cases hf : x.field = f
    · subst hf
      have hxs : ∀ a ∈ xs, a.field ≠ x.field := by
        intro a ha h
        apply hx
        rw [← h]
        exact List.mem_map_of_mem ha
      have hc : seen.contains x.field = false := by simpa using hs
      simp only [marks.go, List.find?_cons, beq_self_eq_true, hc]
      by_cases hr : (x.access != Access.read) = true
      · simp only [hr, Bool.not_false, Bool.and_self, if_true]
        rw [stepsF_append]
        cases h : stepsF H env cont x.field (marksOf k b x) s with
        | error e => rfl
        | ok s' => exact marks_go_none H env cont x.field k b xs _ s' hxs
      · have hr' : (x.access != Access.read) = false := by simpa using hr
        simp only [hr', Bool.false_and]
        exact marks_go_none H env cont x.field k b xs _ s hxs
    · have hb : (x.field == f) = false := by simpa using hf
      simp only [marks.go, List.find?_cons, hb]
      split
      · rw [stepsF_append, stepsF_marksOf_other H env cont f k b x s hf]
        apply marks_go_steps k b xs _ s _ hn'
        intro hmem
        simp at hmem
        rcases hmem with h | h
        · exact hf h.symm
        · exact hs h
      · exact marks_go_steps k b xs _ s hs hn'

theorem argOf_some {k : Kern} {f : Nat} {a : Arg} (h : argOf k f = some a) :
    a ∈ k.args ∧ a.field = f := by
  unfold argOf at h
  refine ⟨List.mem_of_find?_eq_some h, ?_⟩
  have := List.find?_some h
  simpa using this

theorem argOf_none {k : Kern} {f : Nat} (h : argOf k f = none) : ∀ a ∈ k.args, a.field ≠ f := by
  unfold argOf at h
  intro a ha hf
  have := List.find?_eq_none.mp h a ha
  simp [hf] at this

/-- a loop whose kernel has no argument on `f` does not concern `f` -/
theorem loop_step_untouched (k : Kern) (b : Bound) (s : RState) (h : argOf k f = none) :
    stepsF H env cont f (.loop k b :: marks k b) s = .ok s := by
  simp only [stepsF, stepF, h]
  exact marks_go_none H env cont f k b k.args [] s (argOf_none h)

/-- the marks after a loop, seen by field `f` with argument `a` -/
theorem marks_steps (k : Kern) (b : Bound) (a : Arg) (s : RState) (h : argOf k f = some a)
    (hn : (k.args.map (·.field)).Nodup) :
    stepsF H env cont f (marks k b) s =
      if a.access != .read then stepsF H env cont f (marksOf k b a) s else .ok s := by
  have := marks_go_steps H env cont f k b k.args [] s (by simp) hn
  unfold argOf at h
  rw [h] at this
  exact this

theorem loop_step_reader (k : Kern) (b : Bound) (a : Arg) (s : RState) (h : argOf k f = some a)
    (hn : (k.args.map (·.field)).Nodup) (hr : a.access = .read)
    (hsat : sat s.act (specNeed H env cont k b a) = true) :
    stepsF H env cont f (.loop k b :: marks k b) s = .ok s := by
  simp only [stepsF, stepF, h, hsat, hr, Access.writes]
  simp
  rw [marks_steps H env cont f k b a s h hn]
  simp [hr]

theorem loop_step_writer (k : Kern) (b : Bound) (a : Arg) (s : RState) (h : argOf k f = some a)
    (hn : (k.args.map (·.field)).Nodup) (hw : a.access.writes = true)
    (hsat : sat s.act (specNeed H env cont k b a) = true) (hi : s.inflight = none) :
    stepsF H env cont f (.loop k b :: marks k b) s =
      .ok { s with act := specAfter H cont k b a s.act,
                   recorded := recAfter H (writeInfo k b a) s.recorded } := by
  have hf := (argOf_some h).2
  subst hf
  simp only [stepsF, stepF, h, hsat, hw, hi]
  simp
  rw [marks_steps H env cont a.field k b a _ h hn]
  have : (a.access != Access.read) = true := by
    cases ha : a.access <;> simp_all [Access.writes]
  simp only [this, if_true]
  rw [stepsF_marksOf]

end C22
