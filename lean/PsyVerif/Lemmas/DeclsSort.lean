import PsyVerif.Model.Decls
import Mathlib.Data.List.Basic
import Mathlib.Data.List.Perm.Basic
import Mathlib.Data.List.Sort
/-! `Decls.isort` (Python's `sorted()` on names): permutation, sortedness, canonicity. -/
namespace Decls

theorem insertSorted_perm (a : Name) (l : List Name) : (insertSorted a l).Perm (a :: l) := by
  induction l with
  | nil => simp [insertSorted]
  | cons b r ih =>
    simp only [insertSorted]
    split
    · exact List.Perm.refl _
    · exact (List.Perm.cons b ih).trans (List.Perm.swap a b r)

theorem isort_perm (l : List Name) : (isort l).Perm l := by
  induction l with
  | nil => exact List.Perm.refl _
  | cons a r ih => exact (insertSorted_perm a (isort r)).trans (List.Perm.cons a ih)

theorem mem_isort {a : Name} {l : List Name} : a ∈ isort l ↔ a ∈ l := (isort_perm l).mem_iff

theorem length_isort (l : List Name) : (isort l).length = l.length := (isort_perm l).length_eq

theorem insertSorted_sorted (a : Name) {l : List Name} (h : l.Pairwise (· ≤ ·)) :
    (insertSorted a l).Pairwise (· ≤ ·) := by
  induction l with
  | nil => simp [insertSorted]
  | cons b r ih =>
    simp only [insertSorted]
    have hb := List.pairwise_cons.mp h
    split
    · rename_i hab
      refine List.pairwise_cons.mpr ⟨?_, h⟩
      intro x hx
      rcases List.mem_cons.mp hx with rfl | hx
      · exact hab
      · exact Nat.le_trans hab (hb.1 x hx)
    · rename_i hab
      refine List.pairwise_cons.mpr ⟨?_, ih hb.2⟩
      intro x hx
      have := (insertSorted_perm a r).subset hx
      rcases List.mem_cons.mp this with hxa | hx'
      · rw [hxa]; exact Nat.le_of_not_le hab
      · exact hb.1 x hx'

theorem isort_sorted (l : List Name) : (isort l).Pairwise (· ≤ ·) := by
  induction l with
  | nil => simp [isort]
  | cons a r ih => exact insertSorted_sorted a ih

/-- the sorted list depends only on the multiset of names: whatever order the symbols are stored
in (symbol-table order, Python `set` order), the written list is the same -/
theorem isort_eq_of_perm {l₁ l₂ : List Name} (h : l₁.Perm l₂) : isort l₁ = isort l₂ := by
  apply List.Perm.eq_of_pairwise (le := (· ≤ ·)) (l₁ := isort l₁) (l₂ := isort l₂)
  · intro a b _ _ h1 h2; exact Nat.le_antisymm h1 h2
  · exact isort_sorted l₁
  · exact isort_sorted l₂
  · exact ((isort_perm l₁).trans h).trans (isort_perm l₂).symm

theorem isort_idem (l : List Name) : isort (isort l) = isort l := isort_eq_of_perm (isort_perm l)

theorem isort_short {l : List Name} (h : l.length ≤ 1) : isort l = l := by
  match l, h with
  | [], _ => rfl
  | [a], _ => rfl

end Decls
