import PsyVerif.Model.InvokeFile
import PsyVerif.Lemmas.InvokeArgs
/-! Helper lemmas for the file-level part of C24 (invoke ↔ routine matching, routine names). -/
namespace C24

/-- The routine names of the invokes of a file, numbered from `i`. -/
def namesFrom : Nat → List InvokeDecl → List RName
  | _, [] => []
  | i, d :: ds => routineName i d :: namesFrom (i + 1) ds

theorem namesFrom_getElem? : ∀ (ds : List InvokeDecl) (i k : Nat),
    (namesFrom i ds)[k]? = (ds[k]?).map (routineName (i + k))
  | [], _, _ => by simp [namesFrom]
  | d :: ds, i, 0 => by simp [namesFrom]
  | d :: ds, i, k + 1 => by
    simp only [namesFrom, List.getElem?_cons_succ, namesFrom_getElem? ds (i + 1) k]
    congr 2; omega

/-- What an accepted run of `Invokes.__init__` produced. -/
theorem psyInvokes_ok (res : List Name) : ∀ (ds : List InvokeDecl) (i : Nat) (l : List PsyInvoke),
    psyInvokes res i ds = .ok l →
      l.length = ds.length ∧ l.map (·.name) = namesFrom i ds ∧
      ∀ (k : Nat) (d : InvokeDecl), ds[k]? = some d →
        ∃ o, generate res d.body = .ok o ∧ l[k]? = some (PsyInvoke.mk (routineName (i + k) d) o)
  | [], i, l, h => by
    simp only [psyInvokes, ListResult.ok.injEq] at h
    subst h; simp [namesFrom]
  | d :: ds, i, l, h => by
    simp only [psyInvokes] at h
    split at h
    · cases h
    · cases h
    · rename_i o ho
      split at h
      · rename_i rest hrest
        simp only [ListResult.ok.injEq] at h
        subst h
        obtain ⟨hl, hn, hk⟩ := psyInvokes_ok res ds (i + 1) rest hrest
        refine ⟨by simp [hl], by simp [namesFrom, hn], ?_⟩
        intro k d' hd'
        cases k with
        | zero =>
          simp only [List.getElem?_cons_zero, Option.some.injEq] at hd'
          subst hd'
          exact ⟨o, ho, by simp⟩
        | succ k =>
          simp only [List.getElem?_cons_succ] at hd'
          obtain ⟨o', ho', hk'⟩ := hk k d' hd'
          refine ⟨o', ho', ?_⟩
          simp only [List.getElem?_cons_succ, hk']
          congr 3; omega
      · cases h
      · cases h

theorem rewriteCalls_eq (l : List PsyInvoke) : ∀ (m idx : Nat), idx + m ≤ l.length →
    rewriteCalls l m idx = ((l.drop idx).take m).map fun p => (p.name, p.out.actuals)
  | 0, _, _ => by simp [rewriteCalls]
  | m + 1, idx, h => by
    have hlt : idx < l.length := by omega
    simp only [rewriteCalls, List.getElem?_eq_getElem hlt]
    rw [rewriteCalls_eq l m (idx + 1) (by omega), List.drop_eq_getElem_cons hlt]
    simp only [List.take_succ_cons, List.map_cons]

theorem rewriteCalls_all (l : List PsyInvoke) :
    rewriteCalls l l.length 0 = l.map fun p => (p.name, p.out.actuals) := by
  rw [rewriteCalls_eq l l.length 0 (by omega)]; simp

/-- names that can only come from an unnamed invoke with number ≥ `i`, or from a label -/
def nameLow (i : Nat) : RName → Prop
  | .lab _ => True
  | .idx j => i ≤ j
  | .idxKern j _ => i ≤ j
  | .other _ => False

theorem nameLow_mono {i j : Nat} (h : i ≤ j) : ∀ {n : RName}, nameLow j n → nameLow i n
  | .lab _, _ => trivial
  | .idx _, h' => Nat.le_trans h h'
  | .idxKern _ _, h' => Nat.le_trans h h'
  | .other _, h' => h'

theorem labelName_lab {lf : LabelForm} (h : labelReserved lf = false) : ∃ l, labelName lf = .lab l := by
  cases lf <;> simp [labelReserved] at h <;> exact ⟨_, rfl⟩

theorem names_spec : ∀ (ds : List InvokeDecl) (seen : List RName) (i : Nat),
    (∀ n ∈ seen, ∃ l, n = .lab l) → labelsOK seen ds = true →
      (namesFrom i ds).Nodup ∧ ∀ n ∈ namesFrom i ds, n ∉ seen ∧ nameLow i n
  | [], _, _, _, _ => by simp [namesFrom]
  | d :: ds, seen, i, hlab, h => by
    simp only [labelsOK] at h
    cases hl : d.label with
    | none =>
      rw [hl] at h
      obtain ⟨hn, hs⟩ := names_spec ds seen (i + 1) hlab h
      have hname : (∃ k, routineName i d = .idxKern i k) ∨ routineName i d = .idx i := by
        unfold routineName; rw [hl]
        simp only
        split
        · exact Or.inl ⟨_, rfl⟩
        · exact Or.inr rfl
      simp only [namesFrom, List.nodup_cons, List.mem_cons]
      refine ⟨⟨?_, hn⟩, ?_⟩
      · intro hmem
        have := (hs _ hmem).2
        rcases hname with ⟨k, e⟩ | e <;> rw [e] at this <;> simp only [nameLow] at this <;> omega
      · rintro n (e | hm)
        · subst e
          rcases hname with ⟨k, e⟩ | e <;> rw [e]
          · refine ⟨fun hin => ?_, Nat.le_refl _⟩
            obtain ⟨l, hl'⟩ := hlab _ hin
            cases hl'
          · refine ⟨fun hin => ?_, Nat.le_refl _⟩
            obtain ⟨l, hl'⟩ := hlab _ hin
            cases hl'
        · exact ⟨(hs n hm).1, nameLow_mono (Nat.le_succ i) (hs n hm).2⟩
    | some lf =>
      rw [hl] at h
      simp only at h
      split at h
      · cases h
      · rename_i hc
        simp only [Bool.or_eq_true, not_or, Bool.not_eq_true] at hc
        obtain ⟨hres, hseen⟩ := hc
        obtain ⟨l, hlabn⟩ := labelName_lab hres
        have hlab' : ∀ n ∈ labelName lf :: seen, ∃ l, n = .lab l := by
          intro n hn
          rcases List.mem_cons.mp hn with e | hn
          · exact ⟨l, e ▸ hlabn⟩
          · exact hlab n hn
        obtain ⟨hn, hs⟩ := names_spec ds (labelName lf :: seen) (i + 1) hlab' h
        have hname : routineName i d = labelName lf := by unfold routineName; rw [hl]
        simp only [namesFrom, List.nodup_cons, List.mem_cons, hname]
        refine ⟨⟨fun hmem => (hs _ hmem).1 (List.mem_cons_self ..), hn⟩, ?_⟩
        rintro n (e | hm)
        · subst e
          refine ⟨by simpa using hseen, ?_⟩
          rw [hlabn]; trivial
        · exact ⟨fun hin => (hs n hm).1 (List.mem_cons_of_mem _ hin), nameLow_mono (Nat.le_succ i) (hs n hm).2⟩

/-- With plain labels only, the pinned label check and the fixed one coincide. -/
theorem labelsOKPinned_eq : ∀ (ds : List InvokeDecl) (seen : List LabelForm),
    noInvokePrefix ds = true → (∀ lf ∈ seen, ∃ l, lf = .plain l) →
      labelsOKPinned seen ds = labelsOK (seen.map labelName) ds
  | [], _, _, _ => rfl
  | d :: ds, seen, hp, hs => by
    simp only [noInvokePrefix, List.all_cons, Bool.and_eq_true] at hp
    have hp' : noInvokePrefix ds = true := hp.2
    simp only [labelsOKPinned, labelsOK]
    cases hl : d.label with
    | none => exact labelsOKPinned_eq ds seen hp' hs
    | some lf =>
      have hplain : ∃ l, lf = .plain l := by
        have := hp.1; rw [hl] at this
        cases lf <;> simp at this
        exact ⟨_, rfl⟩
      obtain ⟨l, rfl⟩ := hplain
      have hc : seen.contains (LabelForm.plain l) = (seen.map labelName).contains (labelName (.plain l)) := by
        rw [Bool.eq_iff_iff]
        simp only [List.contains_iff_mem, List.mem_map]
        constructor
        · intro h; exact ⟨_, h, rfl⟩
        · rintro ⟨lf', hm, e⟩
          obtain ⟨l', rfl⟩ := hs lf' hm
          simp only [labelName, RName.lab.injEq] at e
          subst e; exact hm
      simp only [labelReserved, Bool.false_or, hc]
      split
      · rfl
      · have := labelsOKPinned_eq ds (.plain l :: seen) hp' (by
          intro lf' hm
          rcases List.mem_cons.mp hm with e | hm
          · exact ⟨l, e⟩
          · exact hs lf' hm)
        simpa using this

/-! ## roots of the names in the table -/

theorem reg_tags {st : SymTab} (q : Text × Root) (k : SymKind) :
    ∀ p ∈ (reg st q k).tags, p ∈ st.tags ∨ (p.1 = q.1 ∧ p.2.1 = q.2) := by
  intro p hp
  unfold reg at hp
  split at hp
  · exact Or.inl hp
  · rcases List.mem_append.mp hp with h | h
    · exact Or.inl h
    · simp only [List.mem_singleton] at h
      subst h
      exact Or.inr ⟨rfl, rfl⟩

theorem regAll_tags : ∀ (l : List ((Text × Root) × Role)) (st st' : SymTab), regAll st l = some st' →
    ∀ p ∈ st'.tags, p ∈ st.tags ∨ ∃ q ∈ l, p.1 = q.1.1 ∧ p.2.1 = q.1.2
  | [], st, st', h, p, hp => by
    simp only [regAll, Option.some.injEq] at h; subst h; exact Or.inl hp
  | q :: rest, st, st', h, p, hp => by
    simp only [regAll] at h
    split at h
    · cases h
    · rename_i st1 h1
      rcases regAll_tags rest st1 st' h p hp with h2 | ⟨q', hq', e⟩
      · rw [regR_some h1] at h2
        rcases reg_tags q.1 _ p h2 with h3 | h3
        · exact Or.inl h3
        · exact Or.inr ⟨q, List.mem_cons_self .., h3⟩
      · exact Or.inr ⟨q', List.mem_cons_of_mem _ hq', e⟩

/-! ## `uniqByAcc` against `uniqAcc` when classes and texts agree -/

theorem mem_uniqByAcc_sub : ∀ (l acc : List (Text × Nat)), ∀ p ∈ uniqByAcc acc l, p ∈ acc ∨ p ∈ l
  | [], _, p, hp => Or.inl hp
  | x :: xs, acc, p, hp => by
    simp only [uniqByAcc] at hp
    split at hp
    · rcases mem_uniqByAcc_sub xs acc p hp with h | h
      · exact Or.inl h
      · exact Or.inr (List.mem_cons_of_mem _ h)
    · rcases mem_uniqByAcc_sub xs (acc ++ [x]) p hp with h | h
      · rcases List.mem_append.mp h with h | h
        · exact Or.inl h
        · simp only [List.mem_singleton] at h; subst h; exact Or.inr (List.mem_cons_self ..)
      · exact Or.inr (List.mem_cons_of_mem _ h)

theorem uniqByAcc_map : ∀ (l acc : List (Text × Nat)),
    (∀ p ∈ acc ++ l, ∀ q ∈ acc ++ l, p.2 = q.2 ↔ p.1 = q.1) →
      (uniqByAcc acc l).map Prod.fst = uniqAcc (acc.map Prod.fst) (l.map Prod.fst)
  | [], _, _ => rfl
  | x :: xs, acc, h => by
    have hx : x ∈ acc ++ x :: xs := by simp
    have hiff : acc.any (fun p => p.2 == x.2) = true ↔ x.1 ∈ acc.map Prod.fst := by
      simp only [List.any_eq_true, beq_iff_eq, List.mem_map]
      constructor
      · rintro ⟨p, hp, e⟩
        exact ⟨p, hp, (h p (List.mem_append_left _ hp) x hx).mp e⟩
      · rintro ⟨p, hp, e⟩
        exact ⟨p, hp, (h p (List.mem_append_left _ hp) x hx).mpr e⟩
    simp only [uniqByAcc, List.map_cons, uniqAcc]
    by_cases hc : acc.any (fun p => p.2 == x.2) = true
    · rw [if_pos hc, if_pos (hiff.mp hc)]
      exact uniqByAcc_map xs acc (fun p hp q hq =>
        h p (by rcases List.mem_append.mp hp with a | a <;> simp [a])
          q (by rcases List.mem_append.mp hq with a | a <;> simp [a]))
    · rw [if_neg hc, if_neg (fun hm => hc (hiff.mpr hm))]
      have e : (acc ++ [x]) ++ xs = acc ++ x :: xs := by simp
      have := uniqByAcc_map xs (acc ++ [x]) (fun p hp q hq => h p (e ▸ hp) q (e ▸ hq))
      rw [this, List.map_append]; rfl

theorem pairsOf_map_fst (ro : Role) (inv : Invoke) : (pairsOf ro inv).map Prod.fst = textsOf ro inv := by
  unfold pairsOf textsOf
  rw [List.map_filterMap]
  congr 1
  funext s
  unfold pairOf textIf varOf
  split
  · cases s.act <;> rfl
  · rfl

end C24
