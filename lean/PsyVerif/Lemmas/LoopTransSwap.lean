import PsyVerif.Model.LoopTrans
import PsyVerif.Lemmas.MiniFSem
import Mathlib.Data.List.Perm.Basic
import Mathlib.Data.List.Nodup
import Mathlib.Data.List.Range
/-! # C05 — loop interchange: a rectangular nest whose body instances commute pairwise
(no carried dependence) computes the same store in row-major and column-major order -/
namespace C05
open MiniF

/-! ## executing a list of iteration instances -/

def seqF {X : Type} (F : Nat × Nat → X → X) : List (Nat × Nat) → X → X
  | [], x => x
  | p :: l, x => seqF F l (F p x)

theorem seqF_append {X : Type} (F : Nat × Nat → X → X) (l1 l2 : List (Nat × Nat)) (x : X) :
    seqF F (l1 ++ l2) x = seqF F l2 (seqF F l1 x) := by
  induction l1 generalizing x with
  | nil => rfl
  | cons p l ih => simp only [List.cons_append, seqF, ih]

theorem seqF_map_swap {X : Type} (F : Nat × Nat → X → X) (l : List (Nat × Nat)) (x : X) :
    seqF (fun p => F p.swap) l x = seqF F (l.map Prod.swap) x := by
  induction l generalizing x with
  | nil => rfl
  | cons p l ih => simp only [List.map_cons, seqF, ih]

section Perm
variable {X : Type} (R : X → X → Prop) (F : Nat × Nat → X → X)

theorem seqF_congr (hrefl : ∀ x, R x x) (hcongr : ∀ p x y, R x y → F p x = F p y)
    (l : List (Nat × Nat)) {x y : X} (h : R x y) : R (seqF F l x) (seqF F l y) := by
  cases l with
  | nil => exact h
  | cons p l => simp only [seqF]; rw [hcongr p x y h]; exact hrefl _

/-- pairwise commuting (up to `R`) instances may be executed in any order -/
theorem seqF_perm (hrefl : ∀ x, R x x) (htrans : ∀ x y z, R x y → R y z → R x z)
    (hcongr : ∀ p x y, R x y → F p x = F p y) {l1 l2 : List (Nat × Nat)} (hp : l1.Perm l2) :
    l1.Nodup → (∀ p ∈ l1, ∀ q ∈ l1, p ≠ q → ∀ x, R (F q (F p x)) (F p (F q x))) →
      ∀ x, R (seqF F l1 x) (seqF F l2 x) := by
  induction hp with
  | nil => intro _ _ x; exact hrefl _
  | cons a _ ih =>
    intro hn hc x
    simp only [seqF]
    exact ih (List.nodup_cons.mp hn).2
      (fun p hp q hq => hc p (List.mem_cons_of_mem _ hp) q (List.mem_cons_of_mem _ hq)) _
  | swap a b l =>
    intro hn hc x
    simp only [seqF]
    apply seqF_congr R F hrefl hcongr
    have hba : b ≠ a := fun h => (List.nodup_cons.mp hn).1 (by simp [h])
    exact hc b (by simp) a (by simp) hba x
  | trans h1 _ ih1 ih2 =>
    intro hn hc x
    exact htrans _ _ _ (ih1 hn hc x)
      (ih2 (h1.nodup_iff.mp hn) (fun p hp q hq => hc p (h1.mem_iff.mpr hp) q (h1.mem_iff.mpr hq)) x)
end Perm

/-! ## row-major and column-major enumerations of a rectangle -/

def rowS (a c m : Nat) : List (Nat × Nat) := (List.range' c m).map (fun b => (a, b))

def rmS (M c n : Nat) : List (Nat × Nat) := (List.range' c n).flatMap (fun a => rowS a 0 M)

theorem mem_rmS {M c n : Nat} {p : Nat × Nat} : p ∈ rmS M c n ↔ (c ≤ p.1 ∧ p.1 < c + n) ∧ p.2 < M := by
  obtain ⟨a, b⟩ := p
  simp only [rmS, rowS, List.mem_flatMap, List.mem_map, List.mem_range'_1, Prod.mk.injEq]
  constructor
  · rintro ⟨a', h1, b', h2, rfl, rfl⟩; omega
  · intro h; exact ⟨a, h.1, b, by omega, rfl, rfl⟩

theorem nodup_rowS (a c m : Nat) : (rowS a c m).Nodup :=
  (List.nodup_range' (s := c) (n := m) (step := 1) (by omega)).map (fun x y h => (Prod.mk.inj h).2)

theorem nodup_rmS (M c n : Nat) : (rmS M c n).Nodup := by
  induction n generalizing c with
  | zero => simp [rmS]
  | succ n ih =>
    have : rmS M c (n + 1) = rowS c 0 M ++ rmS M (c + 1) n := by
      simp [rmS, List.range'_succ]
    rw [this, List.nodup_append]
    refine ⟨nodup_rowS _ _ _, ih _, ?_⟩
    intro p hp q hq
    simp only [rowS, List.mem_map] at hp
    obtain ⟨b, _, rfl⟩ := hp
    have := (mem_rmS.mp hq).1
    intro h; subst h; simp at this; omega

theorem rm_perm (N M : Nat) : (rmS M 0 N).Perm ((rmS N 0 M).map Prod.swap) := by
  rw [List.perm_ext_iff_of_nodup (nodup_rmS M 0 N)
    ((nodup_rmS N 0 M).map (fun x y h => by simpa using congrArg Prod.swap h))]
  intro p
  obtain ⟨a, b⟩ := p
  simp only [mem_rmS, List.mem_map, Prod.exists, Prod.swap_prod_mk, Prod.mk.injEq]
  constructor
  · intro h; exact ⟨b, a, by omega, rfl, rfl⟩
  · rintro ⟨b', a', h, rfl, rfl⟩; omega

/-! ## a rectangular nest executes its instances in row-major order -/

/-- one instance of the body: both loop variables are set, then the body runs -/
def InstG (B : Stmt) (v1 v2 : Nat) (a b : Int) (τ : Store) : Store :=
  exec B ((τ.set (v1, 0, 0) a).set (v2, 0, 0) b)

/-- equality of stores except at the scalar locations of the two loop variables -/
def RR (v1 v2 : Nat) (x y : Store) : Prop :=
  ∀ l : Loc, l ≠ (v1, 0, 0) → l ≠ (v2, 0, 0) → x l = y l

theorem RR.refl (v1 v2 : Nat) (x : Store) : RR v1 v2 x x := fun _ _ _ => rfl
theorem RR.trans {v1 v2 : Nat} {x y z : Store} (h1 : RR v1 v2 x y) (h2 : RR v1 v2 y z) : RR v1 v2 x z :=
  fun l a b => (h1 l a b).trans (h2 l a b)
theorem RR.symm {v1 v2 : Nat} {x y : Store} (h : RR v1 v2 x y) : RR v1 v2 y x := fun l a b => (h l a b).symm
theorem RR.comm {v1 v2 : Nat} {x y : Store} (h : RR v1 v2 x y) : RR v2 v1 x y := fun l a b => h l b a

theorem RR.set_left {v1 v2 : Nat} {x y : Store} (h : RR v1 v2 x y) (l : Loc) (val : Int)
    (hl : l = (v1, 0, 0) ∨ l = (v2, 0, 0)) : RR v1 v2 (x.set l val) y := by
  intro l' h1 h2
  rw [Store.set_apply, if_neg (by rcases hl with hl | hl <;> (rw [hl]; assumption))]
  exact h l' h1 h2

theorem set_self (τ : Store) (l : Loc) : τ.set l (τ l) = τ := by
  apply Store.ext; funext l'
  rw [Store.set_apply]; split
  · rename_i h; rw [h]
  · rfl

theorem InstG_congr (B : Stmt) (v1 v2 : Nat) (a b : Int) {x y : Store} (h : RR v1 v2 x y) :
    InstG B v1 v2 a b x = InstG B v1 v2 a b y := by
  unfold InstG
  congr 1
  apply Store.ext; funext l
  simp only [Store.set_apply]
  split
  · rfl
  · split
    · rfl
    · rename_i h2 h1; exact h l h1 h2

theorem InstG_swap (B : Stmt) {v1 v2 : Nat} (h12 : v1 ≠ v2) (a b : Int) (x : Store) :
    InstG B v2 v1 b a x = InstG B v1 v2 a b x := by
  unfold InstG
  congr 1
  apply Store.ext; funext l
  simp only [Store.set_apply]
  by_cases h1 : l = (v1, 0, 0)
  · have h2 : l ≠ (v2, 0, 0) := fun h => h12 (by rw [h1] at h; exact congrArg Prod.fst h)
    simp [h1]
    intro h; exact absurd h h12
  · simp [h1]

section Nest
variable (B : Stmt) (v1 v2 : Nat) (h12 : v1 ≠ v2) (hw1 : v1 ∉ wvars B)
variable (L1 S1 L2 S2 : Int)

/-- instance number `(a, b)` of the nest -/
def FG (p : Nat × Nat) : Store → Store :=
  InstG B v1 v2 (L1 + (p.1 : Int) * S1) (L2 + (p.2 : Int) * S2)

include h12 hw1 in
theorem inner_iters (a : Nat) : ∀ (m c : Nat) (τ : Store), τ (v1, 0, 0) = L1 + (a : Int) * S1 →
    iters (exec B) v2 L2 S2 m (c : Int) τ = seqF (FG B v1 v2 L1 S1 L2 S2) (rowS a c m) τ := by
  intro m
  induction m with
  | zero => intro c τ _; rfl
  | succ m ih =>
    intro c τ hτ
    have hrow : rowS a c (m + 1) = (a, c) :: rowS a (c + 1) m := by
      simp [rowS, List.range'_succ]
    rw [hrow]
    simp only [iters, seqF]
    have hF : FG B v1 v2 L1 S1 L2 S2 (a, c) τ = exec B (τ.set (v2, 0, 0) (L2 + (c : Int) * S2)) := by
      show exec B ((τ.set (v1, 0, 0) (L1 + (a : Int) * S1)).set (v2, 0, 0) (L2 + (c : Int) * S2)) = _
      rw [← hτ, set_self]
    rw [hF]
    have := ih (c + 1) (exec B (τ.set (v2, 0, 0) (L2 + (c : Int) * S2))) (by
      rw [exec_frame hw1, Store.set_apply, if_neg (fun h => h12 (congrArg Prod.fst h))]
      exact hτ)
    rw [← this]
    push_cast
    rfl

end Nest

/-- everything except the loop variables and what the body writes is as in `σ` -/
def Reach (B : Stmt) (v1 v2 : Nat) (σ τ : Store) : Prop :=
  ∀ x, x ≠ v1 → x ≠ v2 → x ∉ wvars B → ∀ i j, τ (x, i, j) = σ (x, i, j)

theorem Reach.set {B : Stmt} {v1 v2 : Nat} {σ τ : Store} (h : Reach B v1 v2 σ τ) (l : Loc) (val : Int)
    (hl : l.1 = v1 ∨ l.1 = v2) : Reach B v1 v2 σ (τ.set l val) := by
  intro x h1 h2 h3 i j
  rw [Store.set_apply, if_neg]
  · exact h x h1 h2 h3 i j
  · intro he
    have : x = l.1 := congrArg Prod.fst he
    rcases hl with hl | hl
    · exact h1 (this.trans hl)
    · exact h2 (this.trans hl)

theorem Reach.exec {B : Stmt} {v1 v2 : Nat} {σ τ : Store} (h : Reach B v1 v2 σ τ) :
    Reach B v1 v2 σ (exec B τ) := by
  intro x h1 h2 h3 i j
  rw [exec_frame h3]
  exact h x h1 h2 h3 i j

theorem Reach.inst {B : Stmt} {v1 v2 : Nat} {σ τ : Store} (h : Reach B v1 v2 σ τ) (a b : Int) :
    Reach B v1 v2 σ (InstG B v1 v2 a b τ) :=
  ((h.set (v1, 0, 0) a (Or.inl rfl)).set (v2, 0, 0) b (Or.inr rfl)).exec

theorem Reach.seqF {B : Stmt} {v1 v2 : Nat} {σ : Store} (L1 S1 L2 S2 : Int) (l : List (Nat × Nat)) :
    ∀ τ, Reach B v1 v2 σ τ → Reach B v1 v2 σ (seqF (FG B v1 v2 L1 S1 L2 S2) l τ) := by
  induction l with
  | nil => intro τ h; exact h
  | cons p l ih => intro τ h; exact ih _ (h.inst _ _)

theorem Reach.eval {B : Stmt} {v1 v2 : Nat} {σ τ : Store} (h : Reach B v1 v2 σ τ) (e : Expr)
    (he : ∀ x ∈ evars e, x ≠ v1 ∧ x ≠ v2 ∧ x ∉ wvars B) : eval e τ = eval e σ := by
  apply eval_congr (V := fun x => x ∈ evars e) (fun x hx => hx)
  intro x hx i j
  exact h x (he x hx).1 (he x hx).2.1 (he x hx).2.2 i j

/-- **a rectangular nest runs its instances in row-major order** (up to the final values of
the two loop variables) -/
theorem nest_rowmajor (B : Stmt) (v1 v2 : Nat) (h12 : v1 ≠ v2) (hw1 : v1 ∉ wvars B)
    (lo1 hi1 st1 lo2 hi2 st2 : Expr)
    (hst : ∀ x, x ∈ evars lo2 ∨ x ∈ evars hi2 ∨ x ∈ evars st2 → x ≠ v1 ∧ x ≠ v2 ∧ x ∉ wvars B)
    (σ : Store) :
    RR v1 v2 (exec (.loop v1 lo1 hi1 st1 (.loop v2 lo2 hi2 st2 B)) σ)
      (seqF (FG B v1 v2 (eval lo1 σ) (eval st1 σ) (eval lo2 σ) (eval st2 σ))
        (rmS (trip (eval lo2 σ) (eval hi2 σ) (eval st2 σ)) 0 (trip (eval lo1 σ) (eval hi1 σ) (eval st1 σ))) σ) := by
  generalize hL1 : eval lo1 σ = L1
  generalize hS1 : eval st1 σ = S1
  generalize hN : trip L1 (eval hi1 σ) S1 = N
  generalize hL2 : eval lo2 σ = L2
  generalize hH2 : eval hi2 σ = H2
  generalize hS2 : eval st2 σ = S2
  generalize hM : trip L2 H2 S2 = M
  let G := exec (.loop v2 lo2 hi2 st2 B)
  let F := FG B v1 v2 L1 S1 L2 S2
  have hcongr : ∀ p x y, RR v1 v2 x y → F p x = F p y := fun p x y h => InstG_congr B v1 v2 _ _ h
  -- one outer iteration
  have hG : ∀ (a : Nat) (τ : Store), Reach B v1 v2 σ τ → τ (v1, 0, 0) = L1 + (a : Int) * S1 →
      RR v1 v2 (G τ) (seqF F (rowS a 0 M) τ) ∧ Reach B v1 v2 σ (G τ) := by
    intro a τ hr hτ
    have e1 : eval lo2 τ = L2 := by rw [hr.eval lo2 (fun x hx => hst x (Or.inl hx)), hL2]
    have e2 : eval hi2 τ = H2 := by rw [hr.eval hi2 (fun x hx => hst x (Or.inr (Or.inl hx))), hH2]
    have e3 : eval st2 τ = S2 := by rw [hr.eval st2 (fun x hx => hst x (Or.inr (Or.inr hx))), hS2]
    have hGe : G τ = (seqF F (rowS a 0 M) τ).set (v2, 0, 0) (L2 + ((0 : Int) + (M : Nat)) * S2) := by
      show runIters (exec B) v2 (eval lo2 τ) (eval st2 τ) (trip (eval lo2 τ) (eval hi2 τ) (eval st2 τ)) 0 τ = _
      rw [e1, e2, e3, hM, runIters_eq_iters]
      have := inner_iters B v1 v2 h12 hw1 L1 S1 L2 S2 a M 0 τ hτ
      change iters (exec B) v2 L2 S2 M 0 τ = _ at this
      rw [this]
    rw [hGe]
    exact ⟨(RR.refl v1 v2 _).set_left _ _ (Or.inr rfl),
      (Reach.seqF L1 S1 L2 S2 _ τ hr).set _ _ (Or.inr rfl)⟩
  -- all outer iterations
  have key : ∀ (n c : Nat) (τ τ' : Store), Reach B v1 v2 σ τ → RR v1 v2 τ τ' →
      RR v1 v2 (iters G v1 L1 S1 n (c : Int) τ) (seqF F (rmS M c n) τ') := by
    intro n
    induction n with
    | zero => intro c τ τ' _ h; exact h
    | succ n ih =>
      intro c τ τ' hr h
      have hrm : rmS M c (n + 1) = rowS c 0 M ++ rmS M (c + 1) n := by
        simp [rmS, List.range'_succ]
      rw [hrm, seqF_append]
      simp only [iters]
      obtain ⟨g1, g2⟩ := hG c (τ.set (v1, 0, 0) (L1 + (c : Int) * S1)) (hr.set _ _ (Or.inl rfl))
        (Store.set_same _ _ _)
      have h1 : RR v1 v2 (τ.set (v1, 0, 0) (L1 + (c : Int) * S1)) τ' := h.set_left _ _ (Or.inl rfl)
      have h2 := g1.trans (seqF_congr (RR v1 v2) F (RR.refl v1 v2) hcongr (rowS c 0 M) h1)
      have := ih (c + 1) _ _ g2 h2
      push_cast at this
      exact this
  show RR v1 v2 (runIters G v1 (eval lo1 σ) (eval st1 σ) (trip (eval lo1 σ) (eval hi1 σ) (eval st1 σ)) 0 σ) _
  rw [hL1, hS1, hN, runIters_eq_iters]
  have := key N 0 σ σ (fun _ _ _ _ _ _ => rfl) (RR.refl v1 v2 σ)
  change RR v1 v2 (iters G v1 L1 S1 N 0 σ) _ at this
  exact this.set_left _ _ (Or.inl rfl)

/-! ## interchange -/

/-- **no carried dependence** (semantic): two instances of the body with different index
pairs commute on every store, up to the values left in the two loop variables -/
def NoCarriedDep (B : Stmt) (vo vi : Nat) : Prop :=
  ∀ a b a' b' : Int, (a, b) ≠ (a', b') → ∀ x : Store,
    RR vo vi (InstG B vo vi a' b' (InstG B vo vi a b x)) (InstG B vo vi a b (InstG B vo vi a' b' x))

theorem step_ne_of_trip_pos {lo hi s : Int} (h : 0 < trip lo hi s) : s ≠ 0 := by
  intro hs
  unfold trip at h
  rw [if_pos hs] at h
  omega

theorem swap_sound (B : Stmt) (vo vi : Nat) (hne : vo ≠ vi) (hwo : vo ∉ wvars B) (hwi : vi ∉ wvars B)
    (loO hiO stO loI hiI stI : Expr)
    (hstO : ∀ x, x ∈ evars loO ∨ x ∈ evars hiO ∨ x ∈ evars stO → x ≠ vo ∧ x ≠ vi ∧ x ∉ wvars B)
    (hstI : ∀ x, x ∈ evars loI ∨ x ∈ evars hiI ∨ x ∈ evars stI → x ≠ vo ∧ x ≠ vi ∧ x ∉ wvars B)
    (hnc : NoCarriedDep B vo vi) (σ : Store) :
    RR vo vi (exec (.loop vi loI hiI stI (.loop vo loO hiO stO B)) σ)
      (exec (.loop vo loO hiO stO (.loop vi loI hiI stI B)) σ) := by
  have A := nest_rowmajor B vo vi hne hwo loO hiO stO loI hiI stI hstI σ
  have A' := nest_rowmajor B vi vo hne.symm hwi loI hiI stI loO hiO stO
    (fun x hx => ⟨(hstO x hx).2.1, (hstO x hx).1, (hstO x hx).2.2⟩) σ
  generalize hLo : eval loO σ = Lo at A A'
  generalize hSo : eval stO σ = So at A A'
  generalize hN : trip Lo (eval hiO σ) So = N at A A'
  generalize hLi : eval loI σ = Li at A A'
  generalize hSi : eval stI σ = Si at A A'
  generalize hM : trip Li (eval hiI σ) Si = M at A A'
  have hF : FG B vi vo Li Si Lo So = fun p => FG B vo vi Lo So Li Si p.swap := by
    funext p
    obtain ⟨b, a⟩ := p
    funext x
    exact InstG_swap B hne _ _ x
  rw [hF, seqF_map_swap] at A'
  have hcongr : ∀ p x y, RR vo vi x y → FG B vo vi Lo So Li Si p x = FG B vo vi Lo So Li Si p y :=
    fun p x y h => InstG_congr B vo vi _ _ h
  have P := seqF_perm (RR vo vi) (FG B vo vi Lo So Li Si) (RR.refl vo vi) (fun _ _ _ => RR.trans) hcongr
    (rm_perm N M) (nodup_rmS M 0 N)
    (by
      intro p hp q hq hpq x
      have hp' := mem_rmS.mp hp
      have hq' := mem_rmS.mp hq
      have hSo0 : So ≠ 0 := step_ne_of_trip_pos (lo := Lo) (hi := eval hiO σ) (by rw [hN]; omega)
      have hSi0 : Si ≠ 0 := step_ne_of_trip_pos (lo := Li) (hi := eval hiI σ) (by rw [hM]; omega)
      apply hnc
      intro heq
      apply hpq
      have h1 : (p.1 : Int) * So = (q.1 : Int) * So := by
        have := congrArg Prod.fst heq; simp only at this; omega
      have h2 : (p.2 : Int) * Si = (q.2 : Int) * Si := by
        have := congrArg Prod.snd heq; simp only at this; omega
      have h1' : (p.1 : Int) = q.1 := Int.eq_of_mul_eq_mul_right hSo0 h1
      have h2' : (p.2 : Int) = q.2 := Int.eq_of_mul_eq_mul_right hSi0 h2
      exact Prod.ext (by omega) (by omega)) σ
  exact (A'.comm.trans P.symm).trans A.symm

end C05
