import PsyVerif.Model.DepTools
import PsyVerif.Lemmas.MiniFSem
/-! # C08 lemmas — the tracing semantics agrees with `MiniF.exec`; every traced event comes from an access of
the static summary (`stmtAcc`), evaluated in a store that differs from the initial one only on written variables. -/
namespace C08
open MiniF

theorem evars_eq (e : Expr) : C08.evars e = MiniF.evars e := by
  induction e <;> simp_all [C08.evars, MiniF.evars]

theorem rvars_eq (s : Stmt) : C08.rvars s = MiniF.rvars s := by
  induction s <;> simp_all [C08.rvars, MiniF.rvars, evars_eq]

theorem wvars_eq (s : Stmt) : C08.wvars s = MiniF.wvars s := by
  induction s <;> simp_all [C08.wvars, MiniF.wvars]

/-! ## `execT` computes the same store as `exec` -/

theorem runItersT_fst (f : Store → Store × List Ev) (g : Store → Store) (hfg : ∀ σ, (f σ).1 = g σ)
    (v : Nat) (lo step : Int) (n : Nat) (k : Int) (σ : Store) :
    (runItersT f v lo step n k σ).1 = runIters g v lo step n k σ := by
  induction n generalizing k σ with
  | zero => rfl
  | succ n ih => simp only [runItersT, runIters, hfg, ih]

theorem execT_fst (s : Stmt) (σ : Store) : (execT s σ).1 = exec s σ := by
  induction s generalizing σ with
  | skip => rfl
  | seq a b iha ihb => simp only [execT, exec, iha, ihb]
  | assign x e => rfl
  | store1 a i e => rfl
  | store2 a i j e => rfl
  | ite c t f iht ihf =>
    simp only [execT, exec]
    split <;> simp_all
  | loop v lo hi st b ih =>
    simp only [execT, exec]
    exact runItersT_fst _ _ ih _ _ _ _ _ _

/-! ## events come from accesses -/

/-- the location an access touches in store `τ` (missing subscripts read as `0`, as in `MiniF.Loc`) -/
def locOf (a : Access) (τ : Store) : Loc := (a.var, eval (sub a.subs 0) τ, eval (sub a.subs 1) τ)

/-- stores agree on every variable outside `W` -/
def AgreeOff (W : List Nat) (σ τ : Store) : Prop := ∀ x, x ∉ W → ∀ p q, σ (x, p, q) = τ (x, p, q)

theorem AgreeOff.refl (W : List Nat) (σ : Store) : AgreeOff W σ σ := fun _ _ _ _ => rfl

theorem AgreeOff.trans {W : List Nat} {σ τ ρ : Store} (h1 : AgreeOff W σ τ) (h2 : AgreeOff W τ ρ) :
    AgreeOff W σ ρ := fun x hx p q => (h1 x hx p q).trans (h2 x hx p q)

theorem AgreeOff.mono {W W' : List Nat} {σ τ : Store} (h : AgreeOff W σ τ) (hs : ∀ x, x ∈ W → x ∈ W') :
    AgreeOff W' σ τ := fun x hx p q => h x (fun hw => hx (hs x hw)) p q

theorem exec_agreeOff (s : Stmt) (σ : Store) : AgreeOff (C08.wvars s) σ (exec s σ) := by
  intro x hx p q
  rw [wvars_eq] at hx
  exact (exec_frame hx p q).symm

/-- an event `ev` is explained by an access of the list `accs`, evaluated in a store that agrees with `σ`
outside `W` -/
def Explained (accs : List Access) (W : List Nat) (σ : Store) (ev : Ev) : Prop :=
  ∃ a ∈ accs, a.write = ev.1 ∧ ∃ τ, AgreeOff W σ τ ∧ ev.2 = locOf a τ

theorem Explained.mono {accs accs' : List Access} {W W' : List Nat} {σ : Store} {ev : Ev}
    (h : Explained accs W σ ev) (ha : ∀ a, a ∈ accs → a ∈ accs') (hw : ∀ x, x ∈ W → x ∈ W') :
    Explained accs' W' σ ev := by
  obtain ⟨a, hm, hk, τ, hτ, hl⟩ := h
  exact ⟨a, ha a hm, hk, τ, hτ.mono hw, hl⟩

/-- move the reference store backwards along an agreement -/
theorem Explained.rebase {accs : List Access} {W : List Nat} {σ σ' : Store} {ev : Ev}
    (h : Explained accs W σ' ev) (hs : AgreeOff W σ σ') : Explained accs W σ ev := by
  obtain ⟨a, hm, hk, τ, hτ, hl⟩ := h
  exact ⟨a, hm, hk, τ, hs.trans hτ, hl⟩

theorem evalT_explained (c : Bool) (e : Expr) (σ : Store) (W : List Nat) :
    ∀ ev ∈ evalT e σ, Explained (exprAcc c e) W σ ev := by
  induction e with
  | lit n => intro ev h; simp [evalT] at h
  | var x =>
    intro ev h
    simp only [evalT, List.mem_singleton] at h
    subst h
    exact ⟨⟨x, false, [], c⟩, by simp [exprAcc], rfl, σ, AgreeOff.refl _ _, by simp [locOf, sub, eval]⟩
  | idx1 a i ih =>
    intro ev h
    simp only [evalT, List.mem_append, List.mem_singleton] at h
    rcases h with h | h
    · exact (ih ev h).mono (fun _ h => by simp only [exprAcc]; exact List.mem_append_left _ h) (fun _ h => h)
    · subst h
      exact ⟨⟨a, false, [i], c⟩, by simp [exprAcc], rfl, σ, AgreeOff.refl _ _, by simp [locOf, sub, eval]⟩
  | idx2 a i j ihi ihj =>
    intro ev h
    simp only [evalT, List.mem_append, List.mem_singleton] at h
    rcases h with (h | h) | h
    · exact (ihi ev h).mono
        (fun _ h => by simp only [exprAcc]; exact List.mem_append_left _ (List.mem_append_left _ h)) (fun _ h => h)
    · exact (ihj ev h).mono
        (fun _ h => by simp only [exprAcc]; exact List.mem_append_left _ (List.mem_append_right _ h)) (fun _ h => h)
    · subst h
      exact ⟨⟨a, false, [i, j], c⟩, by simp [exprAcc], rfl, σ, AgreeOff.refl _ _, by simp [locOf, sub]⟩
  | un op e ih => intro ev h; exact (ih ev h).mono (fun _ h => by simpa only [exprAcc] using h) (fun _ h => h)
  | bin op a b iha ihb =>
    intro ev h
    simp only [evalT, List.mem_append] at h
    rcases h with h | h
    · exact (iha ev h).mono (fun _ h => by simp only [exprAcc]; exact List.mem_append_left _ h) (fun _ h => h)
    · exact (ihb ev h).mono (fun _ h => by simp only [exprAcc]; exact List.mem_append_right _ h) (fun _ h => h)

theorem agreeOff_set {W : List Nat} {σ τ : Store} (h : AgreeOff W σ τ) {v : Nat} (hv : v ∈ W) (p q val : Int) :
    AgreeOff W σ (τ.set (v, p, q) val) := by
  intro x hx p' q'
  rw [Store.set_apply, if_neg]
  · exact h x hx p' q'
  · intro he
    apply hx
    have : x = v := congrArg Prod.fst he
    exact this ▸ hv

private theorem explained_self (accs : List Access) (W : List Nat) (σ : Store) (a : Access) (ha : a ∈ accs) :
    Explained accs W σ (a.write, locOf a σ) :=
  ⟨a, ha, rfl, σ, AgreeOff.refl _ _, rfl⟩

theorem runItersT_explained (accs : List Access) (W : List Nat) (σ : Store) (b : Stmt) (v : Nat) (c : Bool)
    (hv : v ∈ W) (hW : ∀ x, x ∈ C08.wvars b → x ∈ W)
    (hacc : (⟨v, true, [], c⟩ : Access) ∈ accs)
    (hb : ∀ σ' ev, ev ∈ (execT b σ').2 → Explained accs W σ' ev) (lo st : Int) :
    ∀ (n : Nat) (k : Int) (σ' : Store), AgreeOff W σ σ' →
      ∀ ev ∈ (runItersT (execT b) v lo st n k σ').2, Explained accs W σ ev := by
  have hvar : ∀ τ : Store, Explained accs W σ (true, ((v, 0, 0) : Loc)) := fun τ =>
    ⟨_, hacc, rfl, σ, AgreeOff.refl _ _, by simp [locOf, sub, eval]⟩
  intro n
  induction n with
  | zero =>
    intro k σ' _ ev h
    simp only [runItersT, List.mem_singleton] at h
    subst h
    exact hvar σ
  | succ n ih =>
    intro k σ' hσ ev h
    simp only [runItersT, List.mem_cons, List.mem_append] at h
    have hset : AgreeOff W σ (σ'.set (v, 0, 0) (lo + k * st)) := agreeOff_set hσ hv _ _ _
    rcases h with h | h | h
    · subst h; exact hvar σ
    · exact (hb _ ev h).rebase hset
    · refine ih (k + 1) _ ?_ ev h
      rw [execT_fst]
      exact hset.trans ((exec_agreeOff b _).mono hW)

theorem execT_explained (c : Bool) (s : Stmt) (σ : Store) :
    ∀ ev ∈ (execT s σ).2, Explained (stmtAcc c s) (C08.wvars s) σ ev := by
  induction s generalizing c σ with
  | skip => intro ev h; simp [execT] at h
  | seq a b iha ihb =>
    intro ev h
    simp only [execT, List.mem_append] at h
    rcases h with h | h
    · exact (iha c σ ev h).mono (fun _ h => by simp only [stmtAcc]; exact List.mem_append_left _ h)
        (fun _ h => by simp only [C08.wvars]; exact List.mem_append_left _ h)
    · have := (ihb c _ ev h).mono (accs' := stmtAcc c (.seq a b)) (W' := C08.wvars (.seq a b))
        (fun _ h => by simp only [stmtAcc]; exact List.mem_append_right _ h)
        (fun _ h => by simp only [C08.wvars]; exact List.mem_append_right _ h)
      refine this.rebase ?_
      rw [execT_fst]
      exact (exec_agreeOff a σ).mono (fun _ h => by simp only [C08.wvars]; exact List.mem_append_left _ h)
  | assign x e =>
    intro ev h
    simp only [execT, List.mem_append, List.mem_singleton] at h
    rcases h with h | h
    · exact (evalT_explained c e σ _ ev h).mono (fun _ h => by simp only [stmtAcc]; exact List.mem_append_left _ h)
        (fun _ h => h)
    · subst h
      exact ⟨⟨x, true, [], c⟩, by simp [stmtAcc], rfl, σ, AgreeOff.refl _ _, by simp [locOf, sub, eval]⟩
  | store1 a i e =>
    intro ev h
    simp only [execT, List.mem_append, List.mem_singleton] at h
    rcases h with (h | h) | h
    · exact (evalT_explained c e σ _ ev h).mono
        (fun _ h => by simp only [stmtAcc]; exact List.mem_append_left _ (List.mem_append_left _ h)) (fun _ h => h)
    · exact (evalT_explained c i σ _ ev h).mono
        (fun _ h => by simp only [stmtAcc]; exact List.mem_append_left _ (List.mem_append_right _ h)) (fun _ h => h)
    · subst h
      exact ⟨⟨a, true, [i], c⟩, by simp [stmtAcc], rfl, σ, AgreeOff.refl _ _, by simp [locOf, sub, eval]⟩
  | store2 a i j e =>
    intro ev h
    simp only [execT, List.mem_append, List.mem_singleton] at h
    rcases h with ((h | h) | h) | h
    · exact (evalT_explained c e σ _ ev h).mono
        (fun _ h => by
          simp only [stmtAcc]
          exact List.mem_append_left _ (List.mem_append_left _ (List.mem_append_left _ h))) (fun _ h => h)
    · exact (evalT_explained c i σ _ ev h).mono
        (fun _ h => by
          simp only [stmtAcc]
          exact List.mem_append_left _ (List.mem_append_left _ (List.mem_append_right _ h))) (fun _ h => h)
    · exact (evalT_explained c j σ _ ev h).mono
        (fun _ h => by
          simp only [stmtAcc]
          exact List.mem_append_left _ (List.mem_append_right _ h)) (fun _ h => h)
    · subst h
      exact ⟨⟨a, true, [i, j], c⟩, by simp [stmtAcc], rfl, σ, AgreeOff.refl _ _, by simp [locOf, sub]⟩
  | ite cnd t f iht ihf =>
    intro ev h
    simp only [execT] at h
    split at h
    · simp only [List.mem_append] at h
      rcases h with h | h
      · exact (evalT_explained c cnd σ _ ev h).mono
          (fun _ h => by simp only [stmtAcc]; exact List.mem_append_left _ (List.mem_append_left _ h)) (fun _ h => h)
      · exact (iht true σ ev h).mono
          (fun _ h => by simp only [stmtAcc]; exact List.mem_append_left _ (List.mem_append_right _ h))
          (fun _ h => by simp only [C08.wvars]; exact List.mem_append_left _ h)
    · simp only [List.mem_append] at h
      rcases h with h | h
      · exact (evalT_explained c cnd σ _ ev h).mono
          (fun _ h => by simp only [stmtAcc]; exact List.mem_append_left _ (List.mem_append_left _ h)) (fun _ h => h)
      · exact (ihf true σ ev h).mono
          (fun _ h => by simp only [stmtAcc]; exact List.mem_append_right _ h)
          (fun _ h => by simp only [C08.wvars]; exact List.mem_append_right _ h)
  | loop v lo hi st b ih =>
    intro ev h
    simp only [execT, List.mem_append] at h
    have hsub : ∀ e, (e = lo ∨ e = hi ∨ e = st) → ∀ a, a ∈ exprAcc c e → a ∈ stmtAcc c (.loop v lo hi st b) := by
      intro e he a ha
      simp only [stmtAcc, List.mem_append, List.mem_cons]
      rcases he with rfl | rfl | rfl
      · exact Or.inl (Or.inl (Or.inl (Or.inr ha)))
      · exact Or.inl (Or.inl (Or.inr ha))
      · exact Or.inl (Or.inr ha)
    rcases h with ((h | h) | h) | h
    · exact (evalT_explained c lo σ _ ev h).mono (hsub lo (Or.inl rfl)) (fun _ h => h)
    · exact (evalT_explained c hi σ _ ev h).mono (hsub hi (Or.inr (Or.inl rfl))) (fun _ h => h)
    · exact (evalT_explained c st σ _ ev h).mono (hsub st (Or.inr (Or.inr rfl))) (fun _ h => h)
    · refine runItersT_explained (stmtAcc c (.loop v lo hi st b)) (C08.wvars (.loop v lo hi st b)) σ b v c
        (by simp [C08.wvars]) (fun x hx => by simp [C08.wvars, hx]) (by simp [stmtAcc]) ?_ _ _ _ _ σ
        (AgreeOff.refl _ _) ev h
      intro σ' ev' h'
      exact (ih true σ' ev' h').mono (fun _ h => by simp only [stmtAcc]; exact List.mem_append_right _ h)
        (fun x hx => by simp [C08.wvars, hx])

end C08
