import PsyVerif.Model.Copy
/-! Helper lemmas for C15 (`Model/Copy.lean`): traversals of mapped forests, subtrees found by
identity, the symbol store after a copy, congruence of `view`, edits that do not address a tree. -/
namespace C15

/-! ## traversals of a copied forest -/

theorem ids_map_copy (fx : Bool) (own : List Nat) (no so : Nat) (F : Forest) :
    (F.map (copyNode fx own no so)).ids = F.ids.map (· + no) := by
  induction F with
  | nil => rfl
  | cons n k r ihk ihr => simp [Forest.map, Forest.ids, ihk, ihr, copyNode]

theorem owned_map_copy (fx : Bool) (own : List Nat) (no so : Nat) (F : Forest) :
    (F.map (copyNode fx own no so)).owned = F.owned.map (rho own so) := by
  induction F with
  | nil => rfl
  | cons n k r ihk ihr =>
    simp only [Forest.map, Forest.owned, ihk, ihr, List.map_append]
    congr 1
    cases h : n.table <;> simp [NodeRec.tab, copyNode, h]

theorem syms_map_copy (fx : Bool) (own : List Nat) (no so : Nat) (F : Forest) :
    (F.map (copyNode fx own no so)).syms = F.syms.map (rho own so) := by
  induction F with
  | nil => rfl
  | cons n k r ihk ihr =>
    simp only [Forest.map, Forest.syms, ihk, ihr, List.map_append]
    congr 1
    cases h : n.sym <;> simp [copyNode, h]

theorem attrs_map_copy (fx : Bool) (own : List Nat) (no so : Nat) (F : Forest) :
    (F.map (copyNode fx own no so)).attrs = F.attrs := by
  induction F with
  | nil => rfl
  | cons n k r ihk ihr => simp [Forest.map, Forest.attrs, ihk, ihr, copyNode]

theorem tsyms_map_copy (fx : Bool) (own : List Nat) (no so : Nat) (F : Forest) :
    (F.map (copyNode fx own no so)).tsyms = F.tsyms.map (rhoT fx own so) := by
  induction F with
  | nil => rfl
  | cons n k r ihk ihr =>
    simp only [Forest.map, Forest.tsyms, ihk, ihr, List.map_append]
    congr 1
    cases h : n.tsym <;> simp [copyNode, h]

theorem ids_map_ecopy (fx : Bool) (own : List Nat) (no so : Nat) (F : Forest) :
    (F.map (copyENode fx own no so)).ids = F.ids.map (· + no) := by
  induction F with
  | nil => rfl
  | cons n k r ihk ihr => simp [Forest.map, Forest.ids, ihk, ihr, copyENode]

theorem syms_map_ecopy (fx : Bool) (own : List Nat) (no so : Nat) (F : Forest) :
    (F.map (copyENode fx own no so)).syms = F.syms.map (rhoT fx own so) := by
  induction F with
  | nil => rfl
  | cons n k r ihk ihr =>
    simp only [Forest.map, Forest.syms, ihk, ihr, List.map_append]
    congr 1
    cases h : n.sym <;> simp [copyENode, h]

theorem tsyms_map_ecopy (fx : Bool) (own : List Nat) (no so : Nat) (F : Forest) :
    (F.map (copyENode fx own no so)).tsyms = F.tsyms.map (rhoT fx own so) := by
  induction F with
  | nil => rfl
  | cons n k r ihk ihr =>
    simp only [Forest.map, Forest.tsyms, ihk, ihr, List.map_append]
    congr 1
    cases h : n.tsym <;> simp [copyENode, h]

theorem uses_map_ecopy (fx : Bool) (own : List Nat) (no so : Nat) (F : Forest) :
    (F.map (copyENode fx own no so)).uses = F.uses.map (rhoT fx own so) := by
  simp [Forest.uses, syms_map_ecopy, tsyms_map_ecopy]

theorem rhoT_false (own : List Nat) (off : Nat) : rhoT false own off = id := by
  funext s; simp [rhoT]

/-- the view of an expression forest depends only on the names of the symbols it uses -/
theorem viewE_congr (nm nm' : Nat → Nat) (F : Forest) (h : ∀ d ∈ F.uses, nm' d = nm d) :
    viewE nm' F = viewE nm F := by
  induction F with
  | nil => rfl
  | cons n k r ihk ihr =>
    simp only [Forest.uses, Forest.syms, Forest.tsyms, List.mem_append] at h
    have hk := ihk (fun d hd => h d (by
      simp only [Forest.uses, List.mem_append] at hd
      rcases hd with hd | hd
      · exact Or.inl (Or.inr (Or.inl hd))
      · exact Or.inr (Or.inr (Or.inl hd))))
    have hr := ihr (fun d hd => h d (by
      simp only [Forest.uses, List.mem_append] at hd
      rcases hd with hd | hd
      · exact Or.inl (Or.inr (Or.inr hd))
      · exact Or.inr (Or.inr (Or.inr hd))))
    have hs : n.sym.map nm' = n.sym.map nm := by
      cases hx : n.sym with
      | none => rfl
      | some x => simp [h x (Or.inl (Or.inl (by simp [hx])))]
    have ht : n.tsym.map nm' = n.tsym.map nm := by
      cases hx : n.tsym with
      | none => rfl
      | some x => simp [h x (Or.inr (Or.inl (by simp [hx])))]
    simp only [viewE, hk, hr, hs, ht]

theorem viewE_map_ecopy (nm nm' : Nat → Nat) (fx : Bool) (own : List Nat) (no so : Nat) (F : Forest)
    (h : ∀ d ∈ F.uses, nm' (rhoT fx own so d) = nm d) :
    viewE nm' (F.map (copyENode fx own no so)) = viewE nm F := by
  induction F with
  | nil => rfl
  | cons n k r ihk ihr =>
    simp only [Forest.uses, Forest.syms, Forest.tsyms, List.mem_append] at h
    have hk := ihk (fun d hd => h d (by
      simp only [Forest.uses, List.mem_append] at hd
      rcases hd with hd | hd
      · exact Or.inl (Or.inr (Or.inl hd))
      · exact Or.inr (Or.inr (Or.inl hd))))
    have hr := ihr (fun d hd => h d (by
      simp only [Forest.uses, List.mem_append] at hd
      rcases hd with hd | hd
      · exact Or.inl (Or.inr (Or.inr hd))
      · exact Or.inr (Or.inr (Or.inr hd))))
    have hs : (n.sym.map (rhoT fx own so)).map nm' = n.sym.map nm := by
      cases hx : n.sym with
      | none => rfl
      | some x => simp [h x (Or.inl (Or.inl (by simp [hx])))]
    have ht : (n.tsym.map (rhoT fx own so)).map nm' = n.tsym.map nm := by
      cases hx : n.tsym with
      | none => rfl
      | some x => simp [h x (Or.inr (Or.inl (by simp [hx])))]
    simp only [Forest.map, viewE, copyENode, hk, hr, hs, ht]

/-! ## the subtree found by identity is part of the forest -/

theorem find_cases (r : Nat) (n : NodeRec) (k rest : Forest) :
    (Forest.cons n k rest).find r = .cons n k .nil ∨
    (Forest.cons n k rest).find r = k.find r ∨
    (Forest.cons n k rest).find r = rest.find r := by
  rw [Forest.find]
  split
  · exact Or.inl rfl
  · split
    · exact Or.inr (Or.inr rfl)
    · exact Or.inr (Or.inl rfl)

/-- a property of forests inherited by sub-forests is inherited by the found subtree -/
theorem find_sub (P : Forest → Prop) (hnil : P .nil)
    (hcons : ∀ n k r, P (.cons n k r) → P (.cons n k .nil) ∧ P k ∧ P r) (x : Nat) :
    ∀ F, P F → P (F.find x) := by
  intro F
  induction F with
  | nil => intro _; exact hnil
  | cons n k r ihk ihr =>
    intro h
    obtain ⟨h1, h2, h3⟩ := hcons n k r h
    rcases find_cases x n k r with e | e | e <;> rw [e]
    · exact h1
    · exact ihk h2
    · exact ihr h3

theorem findIn_sub (P : Forest → Prop) (hnil : P .nil)
    (hcons : ∀ n k r, P (.cons n k r) → P (.cons n k .nil) ∧ P k ∧ P r) (x : Nat) :
    ∀ ts : List Forest, (∀ t ∈ ts, P t) → P (findIn x ts) := by
  intro ts
  induction ts with
  | nil => intro _; exact hnil
  | cons t ts ih =>
    intro h
    have ht := find_sub P hnil hcons x t (h t (by simp))
    have hts := ih (fun u hu => h u (by simp [hu]))
    unfold findIn
    split
    · exact hts
    · exact ht

/-- bounds on identities are inherited by the found subtree -/
theorem findIn_ids_lt (x : Nat) (ts : List Forest) (b : Nat)
    (h : ∀ t ∈ ts, ∀ i ∈ t.ids, i < b) : ∀ i ∈ (findIn x ts).ids, i < b := by
  refine findIn_sub (fun F => ∀ i ∈ F.ids, i < b) (by simp [Forest.ids]) ?_ x ts h
  intro n k r h
  simp only [Forest.ids, List.mem_cons, List.mem_append, List.not_mem_nil, or_false] at h ⊢
  exact ⟨fun i hi => h i (by rcases hi with hi | hi; exact Or.inl hi; exact Or.inr (Or.inl hi)),
         fun i hi => h i (Or.inr (Or.inl hi)), fun i hi => h i (Or.inr (Or.inr hi))⟩

theorem findIn_syms_lt (x : Nat) (ts : List Forest) (b : Nat)
    (h : ∀ t ∈ ts, ∀ s ∈ t.syms ++ t.tsyms ++ t.owned, s < b) :
    ∀ s ∈ (findIn x ts).syms ++ (findIn x ts).tsyms ++ (findIn x ts).owned, s < b := by
  refine findIn_sub (fun F => ∀ s ∈ F.syms ++ F.tsyms ++ F.owned, s < b)
    (by simp [Forest.syms, Forest.tsyms, Forest.owned]) ?_ x ts h
  intro n k r h
  simp only [Forest.syms, Forest.tsyms, Forest.owned, List.mem_append, List.append_nil] at h ⊢
  refine ⟨fun s hs => h s ?_, fun s hs => h s ?_, fun s hs => h s ?_⟩
  · rcases hs with (hs | hs) | hs
    · rcases hs with hs | hs
      · exact Or.inl (Or.inl (Or.inl hs))
      · exact Or.inl (Or.inl (Or.inr (Or.inl hs)))
    · rcases hs with hs | hs
      · exact Or.inl (Or.inr (Or.inl hs))
      · exact Or.inl (Or.inr (Or.inr (Or.inl hs)))
    · rcases hs with hs | hs
      · exact Or.inr (Or.inl hs)
      · exact Or.inr (Or.inr (Or.inl hs))
  · rcases hs with (hs | hs) | hs
    · exact Or.inl (Or.inl (Or.inr (Or.inl hs)))
    · exact Or.inl (Or.inr (Or.inr (Or.inl hs)))
    · exact Or.inr (Or.inr (Or.inl hs))
  · rcases hs with (hs | hs) | hs
    · exact Or.inl (Or.inl (Or.inr (Or.inr hs)))
    · exact Or.inl (Or.inr (Or.inr (Or.inr hs)))
    · exact Or.inr (Or.inr (Or.inr hs))

/-! ## the symbol store after a copy -/

theorem isNew_old {own : List Nat} {off x : Nat} (h : x < off) : isNew own off x = false := by
  simp [isNew]; intro h'; omega

theorem isNew_shift {own : List Nat} {off s : Nat} (h : s ∈ own) : isNew own off (s + off) = true := by
  simp [isNew, h]

theorem rho_mem {own : List Nat} {off s : Nat} (h : s ∈ own) : rho own off s = s + off := by
  simp [rho, h]

theorem rho_not_mem {own : List Nat} {off s : Nat} (h : s ∉ own) : rho own off s = s := by
  simp [rho, h]

theorem name_copy_old (m : Mode) (W : World) (r : Nat) {s : Nat} (h : s < W.nsym) :
    (copy m W r).name s = W.name s := by
  simp [copy, isNew_old h]

theorem links_copy_old (m : Mode) (W : World) (r : Nat) {s : Nat} (h : s < W.nsym) :
    (copy m W r).links s = W.links s := by
  simp [copy, isNew_old h]

theorem bounds_copy_old (m : Mode) (W : World) (r : Nat) {s : Nat} (h : s < W.nsym) :
    (copy m W r).bounds s = W.bounds s := by
  simp [copy, isNew_old h]

theorem init_copy_old (m : Mode) (W : World) (r : Nat) {s : Nat} (h : s < W.nsym) :
    (copy m W r).init s = W.init s := by
  simp [copy, isNew_old h]

theorem deps_copy_old (m : Mode) (W : World) (r : Nat) {s : Nat} (h : s < W.nsym) :
    (copy m W r).deps s = W.deps s := by
  simp [World.deps, links_copy_old m W r h, bounds_copy_old m W r h, init_copy_old m W r h]

theorem name_copy_rho (m : Mode) (W : World) (r : Nat) {s : Nat} (h : s < W.nsym) :
    (copy m W r).name (rho (findIn r W.trees).owned W.nsym s) = W.name s := by
  by_cases hm : s ∈ (findIn r W.trees).owned
  · rw [rho_mem hm]; simp [copy, isNew_shift hm]
  · rw [rho_not_mem hm]; exact name_copy_old m W r h

theorem name_copy_rhoT (m : Mode) (fx : Bool) (W : World) (r : Nat) {s : Nat} (h : s < W.nsym) :
    (copy m W r).name (rhoT fx (findIn r W.trees).owned W.nsym s) = W.name s := by
  unfold rhoT
  split
  · exact name_copy_rho m W r h
  · exact name_copy_old m W r h

theorem links_copy_new (m : Mode) (W : World) (r : Nat) {s : Nat}
    (hm : s ∈ (findIn r W.trees).owned) :
    (copy m W r).links (s + W.nsym) = (W.links s).map (rhoT m.dt (findIn r W.trees).owned W.nsym) := by
  simp [copy, isNew_shift hm]

theorem bounds_copy_new (m : Mode) (W : World) (r : Nat) {s : Nat}
    (hm : s ∈ (findIn r W.trees).owned) :
    (copy m W r).bounds (s + W.nsym) =
      if m.dt then (W.bounds s).map (copyENode true (findIn r W.trees).owned W.nnode W.nsym)
      else W.bounds s := by
  simp [copy, isNew_shift hm]

theorem init_copy_new (m : Mode) (W : World) (r : Nat) {s : Nat}
    (hm : s ∈ (findIn r W.trees).owned) :
    (copy m W r).init (s + W.nsym) =
      (W.init s).map (copyENode m.dt (findIn r W.trees).owned W.nnode W.nsym) := by
  simp [copy, isNew_shift hm]

theorem bounds_uses_copy_new (m : Mode) (W : World) (r : Nat) {s : Nat}
    (hm : s ∈ (findIn r W.trees).owned) :
    ((copy m W r).bounds (s + W.nsym)).uses =
      (W.bounds s).uses.map (rhoT m.dt (findIn r W.trees).owned W.nsym) := by
  rw [bounds_copy_new m W r hm]
  cases hdt : m.dt
  · simp [rhoT_false]
  · simp [uses_map_ecopy]

theorem deps_copy_new (m : Mode) (W : World) (r : Nat) {s : Nat}
    (hm : s ∈ (findIn r W.trees).owned) :
    (copy m W r).deps (s + W.nsym) = (W.deps s).map (rhoT m.dt (findIn r W.trees).owned W.nsym) := by
  simp only [World.deps, links_copy_new m W r hm, bounds_uses_copy_new m W r hm, init_copy_new m W r hm,
    uses_map_ecopy, List.map_append]

theorem iface_copy_old (m : Mode) (W : World) (r : Nat) {s : Nat} (h : s < W.nsym) :
    (copy m W r).iface s = W.iface s := by
  simp [copy, isNew_old h]

theorem access_copy_old (m : Mode) (W : World) (r : Nat) {i : Nat} (h : i < W.nif) :
    (copy m W r).access i = W.access i := by
  have : ¬ W.nif ≤ i := by omega
  simp [copy, this]

theorem iface_copy_new (m : Mode) (W : World) (r : Nat) {s : Nat}
    (hm : s ∈ (findIn r W.trees).owned) :
    (copy m W r).iface (s + W.nsym) =
      if ownIface m W s then W.iface s + W.nif else W.iface s := by
  simp [copy, isNew_shift hm]

/-- the copy of a symbol has an interface with the same attributes: its own new object or the
very object of the original -/
theorem access_iface_copy_new (m : Mode) (W : World) (r : Nat) {s : Nat}
    (hm : s ∈ (findIn r W.trees).owned) (hlt : W.iface s < W.nif) :
    (copy m W r).access ((copy m W r).iface (s + W.nsym)) = W.access (W.iface s) := by
  rw [iface_copy_new m W r hm]
  split
  · rename_i hfr
    simp only [copy]
    rw [if_pos (by simp; exact ⟨s, hm, hfr, rfl⟩)]
    simp
  · exact access_copy_old m W r hlt

/-! ## `view` depends only on the names and dependencies it reads -/

theorem view_map_copy (W W' : World) (a b : Nat → Nat) (fx : Bool) (own : List Nat)
    (no so : Nat) (F : Forest)
    (ha : ∀ s, rho own so s = a s) (hb : ∀ s, rhoT fx own so s = b s)
    (h1 : ∀ s ∈ F.syms, W'.name (a s) = W.name s)
    (h2 : ∀ s ∈ F.tsyms, W'.name (b s) = W.name s)
    (h3 : ∀ s ∈ F.owned, W'.name (a s) = W.name s ∧
                          (W'.links (a s)).map W'.name = (W.links s).map W.name ∧
                          viewE W'.name (W'.bounds (a s)) = viewE W.name (W.bounds s) ∧
                          viewE W'.name (W'.init (a s)) = viewE W.name (W.init s) ∧
                          W'.access (W'.iface (a s)) = W.access (W.iface s))
    (h4 : ∀ x ∈ F.attrs, W'.attrVal x = W.attrVal x) :
    view W' (F.map (copyNode fx own no so)) = view W F := by
  induction F with
  | nil => rfl
  | cons n k r ihk ihr =>
    simp only [Forest.syms, Forest.tsyms, Forest.owned, Forest.attrs, List.mem_append] at h1 h2 h3 h4
    simp only [Forest.map, view]
    rw [ihk (fun s hs => h1 s (Or.inr (Or.inl hs))) (fun s hs => h2 s (Or.inr (Or.inl hs)))
          (fun s hs => h3 s (Or.inr (Or.inl hs))) (fun s hs => h4 s (Or.inr (Or.inl hs))),
        ihr (fun s hs => h1 s (Or.inr (Or.inr hs))) (fun s hs => h2 s (Or.inr (Or.inr hs)))
          (fun s hs => h3 s (Or.inr (Or.inr hs))) (fun s hs => h4 s (Or.inr (Or.inr hs)))]
    congr 1
    obtain ⟨id, kind, sym, tsym, table, attr⟩ := n
    simp only [viewNode, copyNode, VNode.mk.injEq, true_and]
    refine ⟨?_, ?_, ?_, ?_⟩
    rotate_left 3
    · cases attr with
      | none => rfl
      | some x => simp [h4 x (Or.inl (by simp))]
    · cases sym with
      | none => rfl
      | some s => simp [ha, h1 s (Or.inl (by simp))]
    · cases tsym with
      | none => rfl
      | some s => simp [hb, h2 s (Or.inl (by simp))]
    · cases table with
      | none => rfl
      | some l =>
        simp only [Option.map_some, Option.some.injEq, List.map_map]
        apply List.map_congr_left
        intro s hs
        have := h3 s (Or.inl (by simp [NodeRec.tab, hs]))
        simp [ha, this.1, this.2.1, this.2.2.1, this.2.2.2.1, this.2.2.2.2]

theorem view_congr (W W' : World) (F : Forest)
    (h1 : ∀ s ∈ F.syms ++ F.tsyms ++ F.owned, W'.name s = W.name s)
    (h3 : ∀ s ∈ F.owned, (W'.links s).map W'.name = (W.links s).map W.name ∧
                          viewE W'.name (W'.bounds s) = viewE W.name (W.bounds s) ∧
                          viewE W'.name (W'.init s) = viewE W.name (W.init s) ∧
                          W'.access (W'.iface s) = W.access (W.iface s))
    (h4 : ∀ x ∈ F.attrs, W'.attrVal x = W.attrVal x) :
    view W' F = view W F := by
  induction F with
  | nil => rfl
  | cons n k r ihk ihr =>
    simp only [Forest.syms, Forest.tsyms, Forest.owned, Forest.attrs, List.mem_append] at h1 h3 h4
    simp only [view]
    rw [ihk (fun s hs => h1 s (by
              simp only [List.mem_append] at hs
              rcases hs with (hs | hs) | hs
              · exact Or.inl (Or.inl (Or.inr (Or.inl hs)))
              · exact Or.inl (Or.inr (Or.inr (Or.inl hs)))
              · exact Or.inr (Or.inr (Or.inl hs))))
          (fun s hs => h3 s (Or.inr (Or.inl hs))) (fun s hs => h4 s (Or.inr (Or.inl hs))),
        ihr (fun s hs => h1 s (by
              simp only [List.mem_append] at hs
              rcases hs with (hs | hs) | hs
              · exact Or.inl (Or.inl (Or.inr (Or.inr hs)))
              · exact Or.inl (Or.inr (Or.inr (Or.inr hs)))
              · exact Or.inr (Or.inr (Or.inr hs))))
          (fun s hs => h3 s (Or.inr (Or.inr hs))) (fun s hs => h4 s (Or.inr (Or.inr hs)))]
    congr 1
    obtain ⟨id, kind, sym, tsym, table, attr⟩ := n
    simp only [viewNode, VNode.mk.injEq, true_and]
    refine ⟨?_, ?_, ?_, ?_⟩
    rotate_left 3
    · cases attr with
      | none => rfl
      | some x => simp [h4 x (Or.inl (by simp))]
    · cases sym with
      | none => rfl
      | some s => simp [h1 s (Or.inl (Or.inl (Or.inl (by simp))))]
    · cases tsym with
      | none => rfl
      | some s => simp [h1 s (Or.inl (Or.inr (Or.inl (by simp))))]
    · cases table with
      | none => rfl
      | some l =>
        simp only [Option.map_some, Option.some.injEq]
        apply List.map_congr_left
        intro s hs
        have hm : s ∈ NodeRec.tab ⟨id, kind, sym, tsym, some l, attr⟩ := by simp [NodeRec.tab, hs]
        simp [h1 s (Or.inr (Or.inl hm)), (h3 s (Or.inl hm)).1, (h3 s (Or.inl hm)).2.1,
          (h3 s (Or.inl hm)).2.2.1, (h3 s (Or.inl hm)).2.2.2]

/-! ## edits that do not address a forest leave it alone -/

theorem map_updNode_of_not_mem (p : Nat) (g : NodeRec → NodeRec) (F : Forest) (h : p ∉ F.ids) :
    F.map (updNode p g) = F := by
  induction F with
  | nil => rfl
  | cons n k r ihk ihr =>
    simp only [Forest.ids, List.mem_cons, List.mem_append, not_or] at h
    simp only [Forest.map, ihk h.2.1, ihr h.2.2]
    congr 1
    simp [updNode, Ne.symm h.1]

theorem remove_of_not_mem (x : Nat) (F : Forest) (h : x ∉ F.ids) : F.remove x = F := by
  induction F with
  | nil => rfl
  | cons n k r ihk ihr =>
    simp only [Forest.ids, List.mem_cons, List.mem_append, not_or] at h
    simp [Forest.remove, Ne.symm h.1, ihk h.2.1, ihr h.2.2]

theorem attach_of_not_mem (p : Nat) (i : Nat) (t : Forest) (F : Forest) (h : p ∉ F.ids) :
    Forest.attach p i t F = F := by
  induction F with
  | nil => rfl
  | cons n k r ihk ihr =>
    simp only [Forest.ids, List.mem_cons, List.mem_append, not_or] at h
    simp [Forest.attach, Ne.symm h.1, ihk h.2.1, ihr h.2.2]

end C15
