import PsyVerif.Lemmas.ExprIORules
/-! How the token lists built by the writer combine (`Good` combinators), and the analysis of
the (fixed) writer's parenthesisation tests against the grammar levels. -/
namespace C02

theorem Good.lit {l x} (h : readLit l = some x) : Good [.lit l] 9 (.lit x) :=
  Good.of_nat (Nat.le_refl _) (fun _ _ _ => rfl) (fun _ _ => Parses.lit h)
    (fun h9 => absurd h9 (by omega))

theorem Good.name {n} : Good [.name n] 9 (.part n .nil .nil) :=
  Good.of_nat (Nat.le_refl _) (fun _ _ _ => rfl) (fun _ hF => Parses.name hF.name)
    (fun h9 => absurd h9 (by omega))

theorem prefixAt_tok (u : UnOp) : prefixAt u.prec u.tok = some u := by cases u <;> rfl

theorem prefixAt_lt (u : UnOp) {j : Nat} (h : j < u.prec) : prefixAt j u.tok = none := by
  cases u <;> simp [prefixAt, UnOp.prec, UnOp.tok, OpTok.prec] at h ⊢ <;> omega

theorem loops_unop (u : UnOp) : loops u.prec = true := by cases u <;> rfl

/-- `u x`: prefix operator, operand of the next level (R706 / R714). -/
theorem Good.unary {ts L nx} (u : UnOp) (h : Good ts L nx) (hL : u.prec + 1 ≤ L) :
    Good (.op u.tok :: ts) u.prec (.un u nx) := by
  have h9 : u.prec < 9 := by cases u <;> decide
  have hB : ∀ R res, Follow (u.prec + 1) R → Parses (.cont u.prec (.un u nx)) R res →
      Parses (.expr u.prec) ((.op u.tok :: ts) ++ R) res := by
    intro R res hF hc
    exact Parses.prefix h9 (prefixAt_tok u) (h.1 (u.prec + 1) R hL hF) hc
  refine Good.of_nat (by omega) ?_ ?_ (fun _ _ => hB)
  · intro j R hj
    simp [prefixTok, prefixAt_lt u hj]
  · intro R hF
    exact hB R _ (hF.mono (by omega)) (Parses.stop hF.stop)

/-- left-associative binary level `p`: `l op r` with `l` of level ≥ p and `r` of level ≥ p+1. -/
theorem Good.binLoop {tl tr Ll Lr nl nr} {b : BinOp} {p : Nat} (hp : b.prec = p)
    (hb : binAt p b.tok = some b) (hl : loops p = true) (h8 : p < 8)
    (gl : Good tl Ll nl) (gr : Good tr Lr nr) (hLl : p ≤ Ll) (hLr : p + 1 ≤ Lr) :
    Good (tl ++ .op b.tok :: tr) p (.bin b nl nr) := by
  have isb : b.tok.isBin = true := by
    cases b <;> simp_all [binAt, BinOp.tok, OpTok.isBin, OpTok.prec]
  have hpt : b.tok.prec = p := hp
  have hr : rhsLevel p = p + 1 := by simp [rhsLevel]; omega
  have hB : ∀ R res, Follow (p + 1) R → Parses (.cont p (.bin b nl nr)) R res →
      Parses (.expr p) ((tl ++ .op b.tok :: tr) ++ R) res := by
    intro R res hF hc
    have e : (tl ++ .op b.tok :: tr) ++ R = tl ++ (.op b.tok :: (tr ++ R)) := by simp
    rw [e]
    refine gl.2.1 p _ res hLl (by omega) hl (Follow.op isb (by omega)) ?_
    refine Parses.binLoop hb hl ?_ hc
    rw [hr]
    exact gr.1 (p + 1) R hLr hF
  refine Good.of_nat (by omega) ?_ ?_ (fun _ _ => hB)
  · intro j R hj
    have e : (tl ++ .op b.tok :: tr) ++ R = tl ++ (.op b.tok :: (tr ++ R)) := by simp
    rw [e]
    exact gl.2.2 j _ (by omega)
  · intro R hF
    exact hB R _ (hF.mono (by omega)) (Parses.stop hF.stop)

/-- rel-op (R712) and `**` (R704): one operator, operands of levels `pl` and `rhsLevel p`. -/
theorem Good.binOnce {tl tr Ll Lr nl nr} {b : BinOp} {p : Nat} (hp : b.prec = p)
    (hb : binAt p b.tok = some b) (hl : loops p = false) (h9 : p < 9)
    (gl : Good tl Ll nl) (gr : Good tr Lr nr) (hLl : p + 1 ≤ Ll) (hLr : rhsLevel p ≤ Lr) :
    Good (tl ++ .op b.tok :: tr) p (.bin b nl nr) := by
  have isb : b.tok.isBin = true := by
    cases b <;> simp_all [binAt, BinOp.tok, OpTok.isBin, OpTok.prec]
  have hpt : b.tok.prec = p := hp
  have hrl : p ≤ rhsLevel p := by simp [rhsLevel]; split <;> omega
  refine Good.of_nat (by omega) ?_ ?_ (fun _ h => by simp [hl] at h)
  · intro j R hj
    have e : (tl ++ .op b.tok :: tr) ++ R = tl ++ (.op b.tok :: (tr ++ R)) := by simp
    rw [e]
    exact gl.2.2 j _ (by omega)
  · intro R hF
    have e : (tl ++ .op b.tok :: tr) ++ R = tl ++ (.op b.tok :: (tr ++ R)) := by simp
    rw [e]
    refine Parses.step h9 (gl.2.2 p _ (by omega))
      (gl.1 (p + 1) _ hLl (Follow.op isb (by omega))) ?_
    exact Parses.binOnce hb hl (gr.1 (rhsLevel p) R hLr (hF.mono hrl))

/-! ### the fixed writer against the grammar levels -/

/-- the unparenthesised text of a node -/
def body (c : Ctx) : Expr → List Tok
  | .lit l => l.sign.toks ++ [.lit l.tok]
  | .un u e => .op u.tok :: render .wide ⟨.un u, none⟩ e
  | .bin b l r =>
    render .wide ⟨.bin b false (decide (l = r)), childGp c⟩ l ++
      .op b.tok :: render .wide ⟨.bin b true true, childGp c⟩ r
  | e => render .wide c e

def wrappedSign (c : Ctx) : Option UnOp → Bool
  | some u => parenSign true u c
  | none => false

def natSign : Option UnOp → Nat
  | some u => u.prec
  | none => 9

/-- does the (fixed) writer put the node in parentheses at position `c` -/
def wrapped (c : Ctx) : Expr → Bool
  | .lit l => wrappedSign c l.sign.unop
  | .un u _ => parenSign true u c
  | .bin b _ _ => parenBin true b c
  | _ => false

/-- grammar level of the unparenthesised text -/
def natLevel : Expr → Nat
  | .lit l => natSign l.sign.unop
  | .un u _ => u.prec
  | .bin b _ _ => b.prec
  | _ => 9

def lvl (c : Ctx) (e : Expr) : Nat := if wrapped c e then 9 else natLevel e

theorem render_eq (c : Ctx) (e : Expr) : render .wide c e = wrap (wrapped c e) (body c e) := by
  cases e with
  | lit l =>
    simp only [render, wrapped, body]
    cases h : l.sign.unop with
    | none =>
      have : l.sign = .none := by cases hs : l.sign <;> simp_all [Sign.unop]
      simp [wrap, this, Sign.toks, wrappedSign]
    | some u => simp [wrappedSign, parenSignM]
  | un u e => simp [render, wrapped, body, parenSignM]
  | bin b l r => simp [render, wrapped, body, WMode.fixedBin]
  | part n a nx => simp [wrapped, body, wrap]
  | call f a => simp [wrapped, body, wrap]
  | nil => simp [wrapped, body, wrap]
  | cons k e r => simp [wrapped, body, wrap]

/-- the grammar level the position `c` requires of its operand -/
def need (c : Ctx) : Nat :=
  match c.par with
  | .none => 0
  | .un u => u.prec + 1
  | .bin b right _ =>
    if b.prec = 8 then (if right then 8 else 9)
    else if b.prec = 4 then 5
    else if right then b.prec + 1 else b.prec

/-- positions that `render` actually creates: the right child always satisfies `==` -/
def Ctx.ok (c : Ctx) : Prop :=
  match c.par with
  | .bin b right eqR => (right = true → eqR = true) ∧ b ≠ .rem
  | _ => True

theorem leaf_sound_bin (p : BinOp) (right eqR : Bool) (gp : Option (BinOp × Bool)) :
    need ⟨.bin p right eqR, gp⟩ ≤ 9 := by
  simp only [need]
  cases p <;> cases right <;> simp [BinOp.prec, BinOp.tok, OpTok.prec]

theorem sign_sound_bin (u : UnOp) (p : BinOp) (right eqR : Bool) (gp : Option (BinOp × Bool))
    (hp : p ≠ .rem) :
    need ⟨.bin p right eqR, gp⟩ ≤ if parenSign true u ⟨.bin p right eqR, gp⟩ then 9 else u.prec := by
  by_cases h : parenSign true u ⟨.bin p right eqR, gp⟩ = true
  · simp only [h, if_true]; exact leaf_sound_bin p right eqR gp
  · simp only [h]
    simp only [parenSign, if_true, Bool.or_eq_true, not_or, Bool.not_eq_true] at h
    obtain ⟨⟨h1, h2⟩, _⟩ := h
    subst h1
    simp only [need]
    cases u <;> cases p <;>
      simp_all [BinOp.prec, UnOp.prec, BinOp.tok, UnOp.tok, OpTok.prec]

def allBin : List BinOp :=
  [.add, .sub, .mul, .div, .rem, .pow, .eq, .ne, .gt, .lt, .ge, .le, .and, .or, .eqv, .neqv]

theorem mem_allBin (b : BinOp) : b ∈ allBin := by cases b <;> decide

def binSoundAt (b p : BinOp) (right eqR : Bool) : Bool :=
  b == .rem || p == .rem || (right && !eqR) ||
    decide (need ⟨.bin p right eqR, none⟩ ≤
      (if parenBin true b ⟨.bin p right eqR, none⟩ then 9 else b.prec))

theorem bin_sound_check :
    (allBin.all fun b => allBin.all fun p => [false, true].all fun right =>
      [false, true].all fun eqR => binSoundAt b p right eqR) = true := by decide

theorem bin_sound_bin (b p : BinOp) (right eqR : Bool) (gp : Option (BinOp × Bool))
    (hb : b ≠ .rem) (hp : p ≠ .rem) (hr : right = true → eqR = true) :
    need ⟨.bin p right eqR, gp⟩ ≤ if parenBin true b ⟨.bin p right eqR, gp⟩ then 9 else b.prec := by
  have h := bin_sound_check
  rw [List.all_eq_true] at h
  have h1 := h b (mem_allBin b)
  rw [List.all_eq_true] at h1
  have h2 := h1 p (mem_allBin p)
  rw [List.all_eq_true] at h2
  have h3 := h2 right (by cases right <;> simp)
  rw [List.all_eq_true] at h3
  have h4 := h3 eqR (by cases eqR <;> simp)
  simp only [binSoundAt, Bool.or_eq_true, beq_iff_eq, Bool.and_eq_true, Bool.not_eq_true',
    decide_eq_true_eq] at h4
  rcases h4 with ((h4 | h4) | h4) | h4
  · exact absurd h4 hb
  · exact absurd h4 hp
  · obtain ⟨r1, r2⟩ := h4
    have := hr r1
    simp_all
  · exact h4

/-- **The parenthesisation tests of the fixed writer are sound for the grammar**: wherever a node
is left without parentheses its own level is at least the level its position requires. -/
theorem need_le_lvl (c : Ctx) (hc : c.ok) (e : Expr) (he : ∀ b l r, e = .bin b l r → b ≠ .rem) :
    need c ≤ lvl c e := by
  obtain ⟨par, gp⟩ := c
  cases par with
  | none => simp [need]
  | un u =>
    have h9 : u.prec + 1 ≤ 9 := by cases u <;> decide
    cases e with
    | lit l =>
      show u.prec + 1 ≤ if wrappedSign ⟨.un u, gp⟩ l.sign.unop then 9 else natSign l.sign.unop
      rcases Option.eq_none_or_eq_some l.sign.unop with h | ⟨v, h⟩ <;> rw [h] <;>
        simp [wrappedSign, natSign, parenSign, h9]
    | un v x => simp [need, lvl, wrapped, parenSign, h9]
    | bin b l r =>
      have := he b l r rfl
      simp only [need, lvl, wrapped, natLevel, parenBin]
      cases u <;> cases b <;> simp_all [BinOp.prec, UnOp.prec, BinOp.tok, UnOp.tok, OpTok.prec]
    | part n a nx => simp [need, lvl, wrapped, natLevel, h9]
    | call f a => simp [need, lvl, wrapped, natLevel, h9]
    | nil => simp [need, lvl, wrapped, natLevel, h9]
    | cons k x r => simp [need, lvl, wrapped, natLevel, h9]
  | bin p right eqR =>
    have hp : p ≠ .rem := hc.2
    have hr : right = true → eqR = true := hc.1
    have h9 := leaf_sound_bin p right eqR gp
    cases e with
    | lit l =>
      show need ⟨.bin p right eqR, gp⟩ ≤
        if wrappedSign ⟨.bin p right eqR, gp⟩ l.sign.unop then 9 else natSign l.sign.unop
      rcases Option.eq_none_or_eq_some l.sign.unop with h | ⟨v, h⟩ <;> rw [h]
      · simpa [wrappedSign, natSign] using h9
      · exact sign_sound_bin v p right eqR gp hp
    | un u x => exact sign_sound_bin u p right eqR gp hp
    | bin b l r => exact bin_sound_bin b p right eqR gp (he b l r rfl) hp hr
    | part n a nx => simpa [lvl, wrapped, natLevel] using h9
    | call f a => simpa [lvl, wrapped, natLevel] using h9
    | nil => simpa [lvl, wrapped, natLevel] using h9
    | cons k x r => simpa [lvl, wrapped, natLevel] using h9

end C02
