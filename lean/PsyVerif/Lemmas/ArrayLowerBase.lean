import PsyVerif.Model.ArrayLower
import PsyVerif.Lemmas.MiniFSem
/-! # C06 base lemmas: substitution, the "hole" lemma, stores that differ on fresh variables -/
namespace C06
open MiniF

theorem vars_eq (e : Expr) : vars e = evars e := by
  induction e with
  | lit n => rfl
  | var x => rfl
  | idx1 a i ih => simp [vars, evars, ih]
  | idx2 a i j ihi ihj => simp [vars, evars, ihi, ihj]
  | un op e ih => simp [vars, evars, ih]
  | bin op a b iha ihb => simp [vars, evars, iha, ihb]

/-- array names used in an expression -/
def arrs : Expr → List Nat
  | .lit _ => []
  | .var _ => []
  | .idx1 a i => a :: arrs i
  | .idx2 a i j => a :: (arrs i ++ arrs j)
  | .un _ e => arrs e
  | .bin _ a b => arrs a ++ arrs b

theorem set_scalar_other (σ : Store) (r a : Nat) (v i j : Int) (h : a ≠ r) :
    (σ.set (r, 0, 0) v) (a, i, j) = σ (a, i, j) := by
  rw [Store.set_apply, if_neg]
  intro hh; exact h (congrArg Prod.fst hh)

/-- substitution lemma: `r` is only used as a scalar in `c` -/
theorem eval_subst (r : Nat) (e c : Expr) (σ : Store) (hr : r ∉ arrs c) :
    eval (subst r e c) σ = eval c (σ.set (r, 0, 0) (eval e σ)) := by
  induction c with
  | lit n => rfl
  | var x =>
    simp only [subst]
    split
    · next h => subst h; simp [eval]
    · next h => simp only [eval]; rw [set_scalar_other _ _ _ _ _ _ h]
  | idx1 a i ih =>
    simp only [arrs, List.mem_cons, not_or] at hr
    simp only [subst, eval, ih hr.2]
    rw [set_scalar_other _ _ _ _ _ _ (Ne.symm hr.1)]
  | idx2 a i j ihi ihj =>
    simp only [arrs, List.mem_cons, List.mem_append, not_or] at hr
    simp only [subst, eval, ihi hr.2.1, ihj hr.2.2]
    rw [set_scalar_other _ _ _ _ _ _ (Ne.symm hr.1)]
  | un op a ih =>
    simp only [arrs] at hr
    simp only [subst, eval, ih hr]
  | bin op a b iha ihb =>
    simp only [arrs, List.mem_append, not_or] at hr
    simp only [subst, eval, iha hr.1, ihb hr.2]

/-- expression locality in terms of `vars` -/
theorem eval_agree {e : Expr} {σ τ : Store} {V : Nat → Prop} (hV : ∀ x ∈ vars e, V x)
    (h : AgreeOn V σ τ) : eval e σ = eval e τ :=
  eval_congr (by rw [← vars_eq]; exact hV) h

theorem Tgt.exec_assign (t : Tgt) (e : Expr) (σ : Store) :
    exec (t.assign e) σ = σ.set (t.loc σ) (eval e σ) := by
  cases t <;> rfl

theorem Tgt.eval_ref (t : Tgt) (σ : Store) : eval t.ref σ = σ (t.loc σ) := by
  cases t <;> rfl

theorem Tgt.loc_fst (t : Tgt) (σ : Store) : (t.loc σ).1 = t.sym := by
  cases t <;> rfl

theorem Tgt.loc_agree {t : Tgt} {σ τ : Store} {V : Nat → Prop} (hV : ∀ x ∈ t.ivars, V x)
    (h : AgreeOn V σ τ) : t.loc σ = t.loc τ := by
  cases t with
  | sc x => rfl
  | e1 a i => simp only [Tgt.loc]; rw [eval_agree (e := i) hV h]
  | e2 a i j =>
    simp only [Tgt.loc]
    rw [eval_agree (e := i) (fun x hx => hV x (by simp [Tgt.ivars, hx])) h,
      eval_agree (e := j) (fun x hx => hV x (by simp [Tgt.ivars, hx])) h]

/-- array names used in the index expressions of a target -/
def Tgt.iarrs : Tgt → List Nat
  | .sc _ => []
  | .e1 _ i => arrs i
  | .e2 _ i j => arrs i ++ arrs j

theorem Tgt.loc_subst (t : Tgt) (r : Nat) (e : Expr) (σ : Store) (hr : r ∉ t.iarrs) :
    (t.subst r e).loc σ = t.loc (σ.set (r, 0, 0) (eval e σ)) := by
  cases t with
  | sc x => rfl
  | e1 a i => simp only [Tgt.subst, Tgt.loc]; rw [eval_subst _ _ _ _ hr]
  | e2 a i j =>
    simp only [Tgt.iarrs, List.mem_append, not_or] at hr
    simp only [Tgt.subst, Tgt.loc]; rw [eval_subst _ _ _ _ hr.1, eval_subst _ _ _ _ hr.2]

/-- assignment executed in two stores that agree on `V ⊇ vars` -/
theorem Asg.exec_agree {s : Asg} {σ τ : Store} {V : Nat → Prop} (hV : ∀ x ∈ s.vars, V x)
    (h : AgreeOn V σ τ) : AgreeOn V (exec s.stmt σ) (exec s.stmt τ) := by
  have hi : ∀ x ∈ s.tgt.ivars, V x := fun x hx => hV x (by simp [Asg.vars, hx])
  have hr : ∀ x ∈ C06.vars s.rhs, V x := fun x hx => hV x (by simp [Asg.vars, hx])
  simp only [Asg.stmt, Tgt.exec_assign]
  rw [Tgt.loc_agree hi h, eval_agree hr h]
  exact h.set _ _

/-- **the hole lemma**: running the assignment `S` (which mentions the fresh scalar `res`)
in a store where `res` holds the value of `I`, equals running `S[res := I]`. -/
theorem hole_lemma (s : Asg) (res : Nat) (I : Expr) (σ : Store)
    (hres : res ∉ s.tgt.iarrs ++ arrs s.rhs) :
    AgreeOn (fun y => y ≠ res) (exec s.stmt (σ.set (res, 0, 0) (eval I σ)))
      (exec (s.subst res I).stmt σ) := by
  simp only [List.mem_append, not_or] at hres
  simp only [Asg.stmt, Asg.subst, Tgt.exec_assign]
  rw [Tgt.loc_subst _ _ _ _ hres.1, eval_subst _ _ _ _ hres.2]
  intro y hy i j
  simp only [Store.set_apply]
  split
  · rfl
  · rw [if_neg]
    intro hh; exact hy (congrArg Prod.fst hh)

end C06

namespace C06
open MiniF

/-- a prefix `P` that leaves the value of `I` in the fresh scalar `res` (touching only
variables in `F`), followed by the assignment `S`, computes `S[res := I]`. -/
theorem prefix_then_asg (P : Stmt) (s : Asg) (res : Nat) (I : Expr) (F : Nat → Prop) (σ : Store)
    (hP : AgreeOn (fun y => ¬ F y) (exec P σ) (σ.set (res, 0, 0) (eval I σ)))
    (hF : ∀ y ∈ s.vars, ¬ F y)
    (hres : res ∉ s.tgt.iarrs ++ arrs s.rhs) :
    AgreeOn (fun y => ¬ F y ∧ y ≠ res) (exec (.seq P s.stmt) σ) (exec (s.subst res I).stmt σ) := by
  have h1 := Asg.exec_agree (s := s) hF hP
  have h2 := hole_lemma s res I σ hres
  intro y hy i j
  simp only [exec]
  rw [h1 y hy.1 i j, h2 y hy.2 i j]

theorem abs_val (v : Int) : (if v > 0 then v else v * -1) = evalUn .abs v := by
  simp only [evalUn]; split <;> split <;> omega

end C06
