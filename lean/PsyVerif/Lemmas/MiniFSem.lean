import PsyVerif.Model.MiniF
/-! # MiniF: static footprints, frame, locality, commutation, loop algebra

Variable-level (whole-array) footprints: `evars e` are the variables an expression may
read, `rvars s` / `wvars s` the variables a statement may read / write (loop variables
are written).  Everything here is proved for all statements, stores and trip counts.
Core Lean only. -/
namespace MiniF

def evars : Expr → List Nat
  | .lit _ => []
  | .var x => [x]
  | .idx1 a i => a :: evars i
  | .idx2 a i j => a :: (evars i ++ evars j)
  | .un _ e => evars e
  | .bin _ a b => evars a ++ evars b

def rvars : Stmt → List Nat
  | .skip => []
  | .seq a b => rvars a ++ rvars b
  | .assign _ e => evars e
  | .store1 _ i e => evars i ++ evars e
  | .store2 _ i j e => evars i ++ evars j ++ evars e
  | .ite c t f => evars c ++ rvars t ++ rvars f
  | .loop _ lo hi st b => evars lo ++ evars hi ++ evars st ++ rvars b

def wvars : Stmt → List Nat
  | .skip => []
  | .seq a b => wvars a ++ wvars b
  | .assign x _ => [x]
  | .store1 a _ _ => [a]
  | .store2 a _ _ _ => [a]
  | .ite _ t f => wvars t ++ wvars f
  | .loop v _ _ _ b => v :: wvars b

/-- two stores agree on every element of every variable satisfying `V` -/
def AgreeOn (V : Nat → Prop) (σ τ : Store) : Prop := ∀ x, V x → ∀ i j, σ (x, i, j) = τ (x, i, j)

theorem AgreeOn.refl (V : Nat → Prop) (σ : Store) : AgreeOn V σ σ := fun _ _ _ _ => rfl

theorem AgreeOn.symm {V : Nat → Prop} {σ τ : Store} (h : AgreeOn V σ τ) : AgreeOn V τ σ :=
  fun x hx i j => (h x hx i j).symm

theorem AgreeOn.trans {V : Nat → Prop} {σ τ ρ : Store} (h1 : AgreeOn V σ τ) (h2 : AgreeOn V τ ρ) :
    AgreeOn V σ ρ := fun x hx i j => (h1 x hx i j).trans (h2 x hx i j)

theorem AgreeOn.mono {V W : Nat → Prop} {σ τ : Store} (h : AgreeOn V σ τ) (hw : ∀ x, W x → V x) :
    AgreeOn W σ τ := fun x hx i j => h x (hw x hx) i j

theorem Store.set_apply (σ : Store) (l l' : Loc) (v : Int) :
    (σ.set l v) l' = if l' = l then v else σ l' := rfl

theorem AgreeOn.set {V : Nat → Prop} {σ τ : Store} (h : AgreeOn V σ τ) (l : Loc) (v : Int) :
    AgreeOn V (σ.set l v) (τ.set l v) := by
  intro x hx i j
  simp only [Store.set_apply]
  split
  · rfl
  · exact h x hx i j

/-- **expression locality** -/
theorem eval_congr {e : Expr} {σ τ : Store} {V : Nat → Prop} (hV : ∀ x ∈ evars e, V x)
    (h : AgreeOn V σ τ) : eval e σ = eval e τ := by
  induction e with
  | lit n => rfl
  | var x => exact h x (hV x (by simp [evars])) 0 0
  | idx1 a i ih =>
    have hi := ih (fun x hx => hV x (by simp [evars, hx]))
    simp only [eval, hi]
    exact h a (hV a (by simp [evars])) _ _
  | idx2 a i j ihi ihj =>
    have hi := ihi (fun x hx => hV x (by simp [evars, hx]))
    have hj := ihj (fun x hx => hV x (by simp [evars, hx]))
    simp only [eval, hi, hj]
    exact h a (hV a (by simp [evars])) _ _
  | un op e ih =>
    simp only [eval, ih (fun x hx => hV x (by simpa [evars] using hx))]
  | bin op a b iha ihb =>
    simp only [eval, iha (fun x hx => hV x (by simp [evars, hx])),
      ihb (fun x hx => hV x (by simp [evars, hx]))]

/-! ## loops: iterations without the final assignment of the loop variable -/

/-- `n` iterations starting at iteration number `k`, without the final update of `v` -/
def iters (f : Store → Store) (v : Nat) (lo step : Int) : Nat → Int → Store → Store
  | 0, _, σ => σ
  | n+1, k, σ => iters f v lo step n (k + 1) (f (σ.set (v, 0, 0) (lo + k * step)))

theorem runIters_eq_iters (f : Store → Store) (v : Nat) (lo step : Int) (n : Nat) (k : Int) (σ : Store) :
    runIters f v lo step n k σ = (iters f v lo step n k σ).set (v, 0, 0) (lo + (k + n) * step) := by
  induction n generalizing k σ with
  | zero => simp [runIters, iters]
  | succ n ih =>
    simp only [runIters, iters, ih]
    rw [show (k + 1 + (n : Int)) = k + ((n + 1 : Nat) : Int) by push_cast; omega]

theorem iters_add (f : Store → Store) (v : Nat) (lo step : Int) (n m : Nat) (k : Int) (σ : Store) :
    iters f v lo step (n + m) k σ = iters f v lo step m (k + n) (iters f v lo step n k σ) := by
  induction n generalizing k σ with
  | zero => simp [iters]
  | succ n ih =>
    have : n + 1 + m = (n + m) + 1 := by omega
    rw [this]
    simp only [iters, ih]
    congr 1
    push_cast
    omega

theorem iters_succ_last (f : Store → Store) (v : Nat) (lo step : Int) (n : Nat) (k : Int) (σ : Store) :
    iters f v lo step (n + 1) k σ
      = f ((iters f v lo step n k σ).set (v, 0, 0) (lo + (k + n) * step)) := by
  rw [iters_add]
  simp [iters]

/-- If `f` preserves an invariant whenever the loop variable has been set, so do the iterations. -/
theorem iters_invariant (P : Store → Prop) (f : Store → Store) (v : Nat) (lo step : Int)
    (hf : ∀ σ val, P σ → P (f (σ.set (v, 0, 0) val))) :
    ∀ n k σ, P σ → P (iters f v lo step n k σ) := by
  intro n
  induction n with
  | zero => intro k σ h; exact h
  | succ n ih => intro k σ h; exact ih _ _ (hf σ _ h)

/-! ## frame: a statement changes only its `wvars` -/

theorem exec_frame {s : Stmt} {σ : Store} {x : Nat} (hx : x ∉ wvars s) (i j : Int) :
    (exec s σ) (x, i, j) = σ (x, i, j) := by
  induction s generalizing σ with
  | skip => rfl
  | seq a b iha ihb =>
    simp only [wvars, List.mem_append, not_or] at hx
    simp only [exec]
    rw [ihb hx.2, iha hx.1]
  | assign y e =>
    simp only [wvars, List.mem_singleton] at hx
    simp only [exec, Store.set_apply]
    rw [if_neg]
    intro h; apply hx; exact congrArg Prod.fst h
  | store1 a i' e =>
    simp only [wvars, List.mem_singleton] at hx
    simp only [exec, Store.set_apply]
    rw [if_neg]
    intro h; apply hx; exact congrArg Prod.fst h
  | store2 a i' j' e =>
    simp only [wvars, List.mem_singleton] at hx
    simp only [exec, Store.set_apply]
    rw [if_neg]
    intro h; apply hx; exact congrArg Prod.fst h
  | ite c t f iht ihf =>
    simp only [wvars, List.mem_append, not_or] at hx
    simp only [exec]
    split
    · exact iht hx.1
    · exact ihf hx.2
  | loop v lo hi st b ih =>
    simp only [wvars, List.mem_cons, not_or] at hx
    simp only [exec, runIters_eq_iters, Store.set_apply]
    rw [if_neg (by intro h; apply hx.1; exact congrArg Prod.fst h)]
    have := iters_invariant (fun τ => τ (x, i, j) = σ (x, i, j)) (exec b) v (eval lo σ) (eval st σ)
      (by
        intro τ val hτ
        show (exec b (τ.set (v, 0, 0) val)) (x, i, j) = σ (x, i, j)
        rw [ih hx.2, Store.set_apply, if_neg (by intro h; apply hx.1; exact congrArg Prod.fst h)]
        exact hτ)
    exact this _ _ σ rfl

/-! ## locality: the result on `V` depends only on the input on `V`, when `rvars s ⊆ V` -/

theorem iters_congr {f : Store → Store} {V : Nat → Prop} (v : Nat) (lo step : Int)
    (hf : ∀ σ τ, AgreeOn V σ τ → AgreeOn V (f σ) (f τ)) :
    ∀ n k σ τ, AgreeOn V σ τ → AgreeOn V (iters f v lo step n k σ) (iters f v lo step n k τ) := by
  intro n
  induction n with
  | zero => intro k σ τ h; exact h
  | succ n ih => intro k σ τ h; exact ih _ _ _ (hf _ _ (h.set _ _))

theorem exec_congr {s : Stmt} {σ τ : Store} {V : Nat → Prop} (hV : ∀ x ∈ rvars s, V x)
    (h : AgreeOn V σ τ) : AgreeOn V (exec s σ) (exec s τ) := by
  induction s generalizing σ τ with
  | skip => exact h
  | seq a b iha ihb =>
    simp only [exec]
    exact ihb (fun x hx => hV x (by simp [rvars, hx])) (iha (fun x hx => hV x (by simp [rvars, hx])) h)
  | assign y e =>
    simp only [exec]
    rw [eval_congr (e := e) (fun x hx => hV x (by simpa [rvars] using hx)) h]
    exact h.set _ _
  | store1 a i e =>
    simp only [exec]
    rw [eval_congr (e := e) (fun x hx => hV x (by simp [rvars, hx])) h,
      eval_congr (e := i) (fun x hx => hV x (by simp [rvars, hx])) h]
    exact h.set _ _
  | store2 a i j e =>
    simp only [exec]
    rw [eval_congr (e := e) (fun x hx => hV x (by simp [rvars, hx])) h,
      eval_congr (e := i) (fun x hx => hV x (by simp [rvars, hx])) h,
      eval_congr (e := j) (fun x hx => hV x (by simp [rvars, hx])) h]
    exact h.set _ _
  | ite c t f iht ihf =>
    simp only [exec]
    rw [eval_congr (e := c) (fun x hx => hV x (by simp [rvars, hx])) h]
    split
    · exact iht (fun x hx => hV x (by simp [rvars, hx])) h
    · exact ihf (fun x hx => hV x (by simp [rvars, hx])) h
  | loop v lo hi st b ih =>
    simp only [exec, runIters_eq_iters]
    rw [eval_congr (e := lo) (fun x hx => hV x (by simp [rvars, hx])) h,
      eval_congr (e := hi) (fun x hx => hV x (by simp [rvars, hx])) h,
      eval_congr (e := st) (fun x hx => hV x (by simp [rvars, hx])) h]
    apply AgreeOn.set
    exact iters_congr v _ _ (fun σ' τ' h' => ih (fun x hx => hV x (by simp [rvars, hx])) h') _ _ _ _ h

/-! ## Bernstein commutation at variable level -/

/-- no variable written by `s₁` is read or written by `s₂` -/
def Indep (s₁ s₂ : Stmt) : Prop := ∀ x ∈ wvars s₁, x ∉ rvars s₂ ∧ x ∉ wvars s₂

instance (s₁ s₂ : Stmt) : Decidable (Indep s₁ s₂) := by unfold Indep; exact inferInstance

/-- **Bernstein**: statements whose write sets are disjoint from each other's read and write
sets commute, on every store. -/
theorem exec_comm {s₁ s₂ : Stmt} (h12 : Indep s₁ s₂) (h21 : Indep s₂ s₁) (σ : Store) :
    exec (.seq s₁ s₂) σ = exec (.seq s₂ s₁) σ := by
  apply Store.ext
  funext ⟨x, i, j⟩
  simp only [exec]
  -- the part of the store outside `wvars s` is unchanged by `s`
  have fr1 : AgreeOn (fun y => y ∉ wvars s₁) σ (exec s₁ σ) := fun y hy i j => (exec_frame hy i j).symm
  have fr2 : AgreeOn (fun y => y ∉ wvars s₂) σ (exec s₂ σ) := fun y hy i j => (exec_frame hy i j).symm
  have r2 : ∀ y ∈ rvars s₂, y ∉ wvars s₁ := fun y hy hw => (h12 y hw).1 hy
  have r1 : ∀ y ∈ rvars s₁, y ∉ wvars s₂ := fun y hy hw => (h21 y hw).1 hy
  have c2 := exec_congr (s := s₂) r2 fr1      -- exec s₂ σ ≈ exec s₂ (exec s₁ σ) outside wvars s₁
  have c1 := exec_congr (s := s₁) r1 fr2
  by_cases hx1 : x ∈ wvars s₁
  · have hx2 : x ∉ wvars s₂ := (h12 x hx1).2
    rw [exec_frame hx2]
    exact c1 x hx2 i j
  · rw [← c2 x hx1 i j, exec_frame (s := s₁) hx1]

/-- a statement that does not write `x` and an assignment-free context: `exec` of a
statement is insensitive to the value of a variable it neither reads nor writes -/
theorem exec_set_irrelevant {s : Stmt} {x : Nat} (hr : x ∉ rvars s) (hw : x ∉ wvars s)
    (σ : Store) (i j : Int) (val : Int) :
    AgreeOn (fun y => y ≠ x) (exec s (σ.set (x, i, j) val)) (exec s σ) := by
  apply exec_congr (V := fun y => y ≠ x)
  · intro y hy h; subst h; exact hr hy
  · intro y hy i' j'
    rw [Store.set_apply, if_neg]
    intro h; exact hy (congrArg Prod.fst h)

end MiniF
