import PsyVerif.Model.AtomicSkel

/-! C26 — a safe skeleton is atomic under every interpretation whose nested transformations are atomic. -/
namespace C26.Skel

variable {S : Type}

def NeverRefuses (p : Prog S) : Prop := ∀ s, (run p s).2 = .accepted

/-- started with the tree untouched: a refusal leaves it untouched, and if the analysis says the program ends
    clean (`q = false`) the tree is untouched in every case -/
def CleanOK (p : Prog S) (q : Bool) : Prop :=
  ∀ s, ((run p s).2 = .refused → (run p s).1 = s) ∧ (q = false → (run p s).1 = s)

theorem cleanOK_weaken {p : Prog S} {q : Bool} (h : CleanOK p q) : CleanOK p true :=
  fun s => ⟨(h s).1, fun h' => by cases h'⟩

theorem run_call (g : S → Prog S) (k : Prog S) (s : S) :
    run (.call g k) s = (match run (g s) s with
      | (s', .accepted) => run k s'
      | (s', .refused) => (s', .refused)) := rfl

theorem neverRefuses_call (g : S → Prog S) (k : Prog S)
    (hg : ∀ s, NeverRefuses (g s)) (hk : NeverRefuses k) : NeverRefuses (.call g k) := by
  intro s
  rw [run_call]
  have := hg s s
  cases h : run (g s) s with
  | mk s' o =>
    rw [h] at this
    simp only at this
    subst this
    exact hk s'

/-- clean prefix (ends clean), then anything that is fine from clean -/
theorem cleanOK_call_clean (g : S → Prog S) (k : Prog S) (q : Bool)
    (hg : ∀ s, CleanOK (g s) false) (hk : CleanOK k q) : CleanOK (.call g k) q := by
  intro s
  rw [run_call]
  have h1 := hg s s
  cases h : run (g s) s with
  | mk s' o =>
    rw [h] at h1
    have e : s' = s := h1.2 rfl
    subst e
    cases o with
    | accepted => exact hk s'
    | refused => exact ⟨fun _ => rfl, fun _ => rfl⟩

/-- prefix that may end dirty, then something that never refuses -/
theorem cleanOK_call_dirty (g : S → Prog S) (k : Prog S)
    (hg : ∀ s, CleanOK (g s) true) (hk : NeverRefuses k) : CleanOK (.call g k) true := by
  intro s
  rw [run_call]
  have h1 := hg s s
  cases h : run (g s) s with
  | mk s' o =>
    rw [h] at h1
    cases o with
    | accepted =>
      refine ⟨fun hr => ?_, fun h' => by cases h'⟩
      rw [hk s'] at hr
      cases hr
    | refused => exact ⟨fun _ => h1.1 rfl, fun h' => by cases h'⟩

theorem neverRefuses_iter (p : Prog S) (hp : NeverRefuses p) : ∀ n, NeverRefuses (iter n p)
  | 0 => fun _ => rfl
  | n + 1 => neverRefuses_call _ _ (fun _ => hp) (neverRefuses_iter p hp n)

theorem cleanOK_iter_clean (p : Prog S) (hp : CleanOK p false) : ∀ n, CleanOK (iter n p) false
  | 0 => fun _ => ⟨fun _ => rfl, fun _ => rfl⟩
  | n + 1 => cleanOK_call_clean _ _ _ (fun _ => hp) (cleanOK_iter_clean p hp n)

theorem cleanOK_iter_dirty (p : Prog S) (hp : CleanOK p true) (hd : NeverRefuses p) : ∀ n, CleanOK (iter n p) true
  | 0 => fun _ => ⟨fun _ => rfl, fun h => by cases h⟩
  | n + 1 => cleanOK_call_dirty _ _ (fun _ => hp) (neverRefuses_iter p hd n)

theorem after_dirty (sk : Skel) : ∀ q, after sk true = some q → q = true := by
  induction sk with
  | nil => intro q h; simp [after] at h; exact h
  | atom a rest ih =>
    intro q h
    cases a with
    | check i => simp [after] at h
    | mutate i => exact ih q (by simpa [after] using h)
    | nested i => simp [after] at h
  | alt i l r rest ihl ihr ihrest =>
    intro q h
    simp only [after] at h
    cases hl : after l true with
    | none => simp [hl] at h
    | some a =>
      cases hr : after r true with
      | none => simp [hl, hr] at h
      | some b =>
        have ea := ihl a hl
        subst ea
        simp only [hl, hr, Bool.true_or] at h
        exact ihrest q h
  | loop i body rest ihb ihrest =>
    intro q h
    simp only [after] at h
    cases hb : after body true with
    | none => simp [hb] at h
    | some d1 =>
      have e1 := ihb d1 hb
      subst e1
      simp only [hb] at h
      exact ihrest q h

/-- From a possibly touched tree, a program whose skeleton passes the analysis never raises. -/
theorem dirty_sound (e : Env S) (sk : Skel) : ∀ q, after sk true = some q → NeverRefuses (interp e sk) := by
  induction sk with
  | nil => intro q _ s; rfl
  | atom a rest ih =>
    intro q h
    cases a with
    | check i => simp [after] at h
    | mutate i =>
      have := ih q (by simpa [after] using h)
      intro s
      exact this (e.mutf i s)
    | nested i => simp [after] at h
  | alt i l r rest ihl ihr ihrest =>
    intro q h
    simp only [after] at h
    cases hl : after l true with
    | none => simp [hl] at h
    | some a =>
      cases hr : after r true with
      | none => simp [hl, hr] at h
      | some b =>
        have ea := after_dirty l a hl
        subst ea
        simp only [hl, hr, Bool.true_or] at h
        refine neverRefuses_call _ _ (fun s => ?_) (ihrest q h)
        by_cases hc : e.cond i s = true
        · simp only [hc, if_true]; exact ihl _ hl
        · simp only [hc]; exact ihr _ hr
  | loop i body rest ihb ihrest =>
    intro q h
    simp only [after] at h
    cases hb : after body true with
    | none => simp [hb] at h
    | some d1 =>
      have e1 := after_dirty body d1 hb
      subst e1
      simp only [hb] at h
      exact neverRefuses_call _ _ (fun s => neverRefuses_iter _ (ihb _ hb) _) (ihrest q h)

/-- From an untouched tree: a refusal leaves it untouched; if the analysis ends clean it is untouched anyway. -/
theorem clean_sound (e : Env S) (hn : ∀ i, Atomic (e.nest i)) (sk : Skel) :
    ∀ q, after sk false = some q → CleanOK (interp e sk) q := by
  induction sk with
  | nil =>
    intro q h
    simp [after] at h
    subst h
    exact fun s => ⟨fun _ => rfl, fun _ => rfl⟩
  | atom a rest ih =>
    intro q h
    cases a with
    | check i =>
      have hr := ih q (by simpa [after] using h)
      intro s
      simp only [interp, run]
      by_cases hc : e.chk i s = true
      · simp only [hc, if_true]; exact hr s
      · simp only [hc]; exact ⟨fun _ => rfl, fun _ => rfl⟩
    | mutate i =>
      have h' : after rest true = some q := by simpa [after] using h
      have hq := after_dirty rest q h'
      subst hq
      have hnr := dirty_sound e rest _ h'
      intro s
      simp only [interp, run]
      refine ⟨fun hr => ?_, fun h'' => by cases h''⟩
      rw [hnr (e.mutf i s)] at hr
      cases hr
    | nested i =>
      have h' : after rest true = some q := by simpa [after] using h
      have hq := after_dirty rest q h'
      subst hq
      have hnr := dirty_sound e rest _ h'
      exact cleanOK_call_dirty _ _ (fun _ s => ⟨hn i s, fun h'' => by cases h''⟩) hnr
  | alt i l r rest ihl ihr ihrest =>
    intro q h
    simp only [after] at h
    cases hl : after l false with
    | none => simp [hl] at h
    | some a =>
      cases hr : after r false with
      | none => simp [hl, hr] at h
      | some b =>
        simp only [hl, hr] at h
        have hL := ihl a hl
        have hR := ihr b hr
        cases hab : (a || b) with
        | false =>
          have ha : a = false := by cases a <;> simp_all
          have hb : b = false := by cases b <;> simp_all
          subst ha; subst hb
          rw [hab] at h
          refine cleanOK_call_clean _ _ _ (fun s => ?_) (ihrest q h)
          by_cases hc : e.cond i s = true
          · simp only [hc, if_true]; exact hL
          · simp only [hc]; exact hR
        | true =>
          rw [hab] at h
          have hq := after_dirty rest q h
          subst hq
          refine cleanOK_call_dirty _ _ (fun s => ?_) (dirty_sound e rest _ h)
          by_cases hc : e.cond i s = true
          · simp only [hc, if_true]; exact cleanOK_weaken hL
          · simp only [hc]; exact cleanOK_weaken hR
  | loop i body rest ihb ihrest =>
    intro q h
    simp only [after] at h
    cases hb : after body false with
    | none => simp [hb] at h
    | some d1 =>
      simp only [hb] at h
      have hB := ihb d1 hb
      cases d1 with
      | false =>
        simp only [hb] at h
        exact cleanOK_call_clean _ _ _ (fun s => cleanOK_iter_clean _ hB _) (ihrest q h)
      | true =>
        cases hb2 : after body true with
        | none => simp [hb2] at h
        | some d2 =>
          have e2 := after_dirty body d2 hb2
          subst e2
          simp only [hb2] at h
          have hq := after_dirty rest q h
          subst hq
          exact cleanOK_call_dirty _ _
            (fun s => cleanOK_iter_dirty _ hB (dirty_sound e body _ hb2) _) (dirty_sound e rest _ h)

/-- **Safe skeleton ⇒ atomic**, for every meaning of the checks, mutations, conditions and loop counts, provided the
    nested transformations are themselves atomic. -/
theorem safe_atomic (sk : Skel) (h : safe sk = true) (e : Env S) (hn : ∀ i, Atomic (e.nest i)) :
    Atomic (interp e sk) := by
  unfold safe at h
  cases hq : after sk false with
  | none => simp [hq] at h
  | some q => exact fun s => (clean_sound e hn sk q hq s).1

end C26.Skel
