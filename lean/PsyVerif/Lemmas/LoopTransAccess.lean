import PsyVerif.Model.LoopTrans
/-! # C05 — facts about the access lists (`sAcc`, `accOf`, `countWrites`) used to derive the
side conditions of the soundness theorems from the `…Validate` functions.  Core Lean only. -/
namespace C05
open MiniF

theorem sAcc_seqs : ∀ l : List Stmt, sAcc (seqs l) = l.flatMap sAcc
  | [] => rfl
  | [a] => by simp [seqs]
  | a :: b :: l => by
    have := sAcc_seqs (b :: l)
    simp only [seqs, sAcc, List.flatMap_cons] at this ⊢
    rw [this]

theorem wVars_seqs : ∀ l : List Stmt, wVars (seqs l) = l.flatMap wVars
  | [] => rfl
  | [a] => by simp [seqs]
  | a :: b :: l => by
    have := wVars_seqs (b :: l)
    simp only [seqs, wVars, List.flatMap_cons] at this ⊢
    rw [this]

theorem rVars_seqs : ∀ l : List Stmt, rVars (seqs l) = l.flatMap rVars
  | [] => rfl
  | [a] => by simp [seqs]
  | a :: b :: l => by
    have := rVars_seqs (b :: l)
    simp only [seqs, rVars, List.flatMap_cons] at this ⊢
    rw [this]

theorem accOf_append (x : Nat) (l1 l2 : List Acc) : accOf x (l1 ++ l2) = accOf x l1 ++ accOf x l2 := by
  simp [accOf]

theorem countWrites_append (x : Nat) (l1 l2 : List Acc) :
    countWrites x (l1 ++ l2) = countWrites x l1 + countWrites x l2 := by
  simp [countWrites]

theorem countWrites_le_accOf (x : Nat) (l : List Acc) : countWrites x l ≤ (accOf x l).length := by
  induction l with
  | nil => simp [countWrites, accOf]
  | cons a l ih =>
    simp only [countWrites, accOf, List.filter_cons] at ih ⊢
    by_cases h1 : a.x == x <;> by_cases h2 : a.write <;> simp [h1, h2] <;> omega

/-- every variable of an expression has an access entry -/
theorem accOf_pos_of_eVars {y : Nat} {e : Expr} (h : y ∈ eVars e) : 0 < (accOf y (eAcc e)).length := by
  induction e with
  | lit n => simp [eVars] at h
  | var z => simp only [eVars, List.mem_singleton] at h; subst h; simp [eAcc, accOf]
  | idx1 a i ih =>
    simp only [eVars, List.mem_cons] at h
    simp only [eAcc, accOf_append, List.length_append]
    rcases h with h | h
    · subst h; simp [accOf]
    · have := ih h; omega
  | idx2 a i j ihi ihj =>
    simp only [eVars, List.mem_cons, List.mem_append] at h
    simp only [eAcc, accOf_append, List.length_append]
    rcases h with h | h | h
    · subst h; simp [accOf]
    · have := ihi h; omega
    · have := ihj h; omega
  | un op e ih => exact ih h
  | bin op a b iha ihb =>
    simp only [eVars, List.mem_append] at h
    simp only [eAcc, accOf_append, List.length_append]
    rcases h with h | h
    · have := iha h; omega
    · have := ihb h; omega

theorem countWrites_eAcc (y : Nat) (e : Expr) : countWrites y (eAcc e) = 0 := by
  induction e with
  | lit n => rfl
  | var z => simp [eAcc, countWrites]
  | idx1 a i ih => simp only [eAcc, countWrites_append, ih]; simp [countWrites]
  | idx2 a i j ihi ihj => simp only [eAcc, countWrites_append, ihi, ihj]; simp [countWrites]
  | un op e ih => exact ih
  | bin op a b iha ihb => simp [eAcc, countWrites_append, iha, ihb]

/-- every written variable of a statement has a WRITE entry -/
theorem countWrites_pos_of_wVars {y : Nat} {s : Stmt} (h : y ∈ wVars s) : 0 < countWrites y (sAcc s) := by
  induction s with
  | skip => simp [wVars] at h
  | seq a b iha ihb =>
    simp only [wVars, List.mem_append] at h
    simp only [sAcc, countWrites_append]
    rcases h with h | h
    · have := iha h; omega
    · have := ihb h; omega
  | assign x e =>
    simp only [wVars, List.mem_singleton] at h; subst h
    simp [sAcc, countWrites_append, countWrites]
  | store1 a i e =>
    simp only [wVars, List.mem_singleton] at h; subst h
    simp only [sAcc, countWrites_append]
    have : countWrites y [(⟨y, true, [i]⟩ : Acc)] = 1 := by simp [countWrites]
    omega
  | store2 a i j e =>
    simp only [wVars, List.mem_singleton] at h; subst h
    simp only [sAcc, countWrites_append]
    have : countWrites y [(⟨y, true, [i, j]⟩ : Acc)] = 1 := by simp [countWrites]
    omega
  | ite c t f iht ihf =>
    simp only [wVars, List.mem_append] at h
    simp only [sAcc, countWrites_append]
    rcases h with h | h
    · have := iht h; omega
    · have := ihf h; omega
  | loop v lo hi st b ih =>
    simp only [wVars, List.mem_cons] at h
    simp only [sAcc, countWrites_append]
    rcases h with h | h
    · subst h; simp [countWrites]; omega
    · have := ih h; omega

theorem accOf_pos_of_wVars {y : Nat} {s : Stmt} (h : y ∈ wVars s) : 0 < (accOf y (sAcc s)).length :=
  Nat.lt_of_lt_of_le (countWrites_pos_of_wVars h) (countWrites_le_accOf y _)

/-- every read variable of a statement has an access entry -/
theorem accOf_pos_of_rVars {y : Nat} {s : Stmt} (h : y ∈ rVars s) : 0 < (accOf y (sAcc s)).length := by
  induction s with
  | skip => simp [rVars] at h
  | seq a b iha ihb =>
    simp only [rVars, List.mem_append] at h
    simp only [sAcc, accOf_append, List.length_append]
    rcases h with h | h
    · have := iha h; omega
    · have := ihb h; omega
  | assign x e =>
    simp only [rVars] at h
    simp only [sAcc, accOf_append, List.length_append]
    have := accOf_pos_of_eVars h; omega
  | store1 a i e =>
    simp only [rVars, List.mem_append] at h
    simp only [sAcc, accOf_append, List.length_append]
    rcases h with h | h
    · have := accOf_pos_of_eVars h; omega
    · have := accOf_pos_of_eVars h; omega
  | store2 a i j e =>
    simp only [rVars, List.mem_append] at h
    simp only [sAcc, accOf_append, List.length_append]
    rcases h with (h | h) | h
    · have := accOf_pos_of_eVars h; omega
    · have := accOf_pos_of_eVars h; omega
    · have := accOf_pos_of_eVars h; omega
  | ite c t f iht ihf =>
    simp only [rVars, List.mem_append] at h
    simp only [sAcc, accOf_append, List.length_append]
    rcases h with (h | h) | h
    · have := accOf_pos_of_eVars h; omega
    · have := iht h; omega
    · have := ihf h; omega
  | loop v lo hi st b ih =>
    simp only [rVars, List.mem_append] at h
    simp only [sAcc, accOf_append, List.length_append]
    rcases h with ((h | h) | h) | h
    · have := accOf_pos_of_eVars h; omega
    · have := accOf_pos_of_eVars h; omega
    · have := accOf_pos_of_eVars h; omega
    · have := ih h; omega

/-- no access entry: neither read nor written -/
theorem not_mem_of_accOf_nil {y : Nat} {s : Stmt} (h : (accOf y (sAcc s)).length = 0) :
    y ∉ rVars s ∧ y ∉ wVars s :=
  ⟨fun hr => by have := accOf_pos_of_rVars hr; omega, fun hw => by have := accOf_pos_of_wVars hw; omega⟩

theorem mem_wVars_seqs_append {y : Nat} {l1 l2 : List Stmt} :
    y ∈ wVars (seqs (l1 ++ l2)) ↔ y ∈ wVars (seqs l1) ∨ y ∈ wVars (seqs l2) := by
  simp only [wVars_seqs, List.flatMap_append, List.mem_append]

theorem mem_wVars_seqs_cons {y : Nat} {s : Stmt} {l : List Stmt} :
    y ∈ wVars (seqs (s :: l)) ↔ y ∈ wVars s ∨ y ∈ wVars (seqs l) := by
  simp only [wVars_seqs, List.flatMap_cons, List.mem_append]

end C05
