import PsyVerif.Model.ExprIOCanon
/-! Lemmas about the reader's canonicalisation of MINVAL/MAXVAL/SUM arguments
(`Model/ExprIOCanon.lean`). -/
namespace C02

theorem numNamed_of_allNamed : ∀ e, allNamed e = true → numNamed e = argsLen e := by
  intro e
  induction e with
  | cons kw x r _ ihr =>
    intro h
    simp only [allNamed, Bool.and_eq_true] at h
    simp [numNamed, argsLen, h.1, ihr h.2, Nat.add_comm]
  | _ => intro _; rfl

theorem orderOk_of_allNamed : ∀ e, allNamed e = true → orderOk e = true := by
  intro e h
  cases e with
  | cons kw x r =>
    cases kw with
    | some k => simpa [orderOk] using h
    | none => simp [allNamed] at h
  | _ => rfl

theorem orderOk_of_canonical {a : Expr} (h : mmsArgsCanonical a = true) : orderOk a = true := by
  match a, h with
  | .cons none _ rest, h => simpa [orderOk] using orderOk_of_allNamed rest h

/-- **Named optional arguments in any order are left alone**: one positional argument followed by
any number of named ones (any names, any order) is a fixed point of the canonicalisation. -/
theorem canonMMS_canonical_id (cfg : IntrCfg) {a : Expr} (h : mmsArgsCanonical a = true) :
    canonMMS cfg a = .ok a := by
  have ho := orderOk_of_canonical h
  match a, h with
  | .cons none x rest, h =>
    have hn : numNamed rest = argsLen rest := numNamed_of_allNamed rest h
    simp only [canonMMS, ho, if_true, canonMMSCore, argsLen, numNamed, Option.isSome_none, hn]
    rw [if_neg (by simp; omega), if_neg (by simp; omega)]

theorem canonTree_canonical_id (cfg : IntrCfg) :
    ∀ e, mmsCanonical cfg e = true → canonTree cfg e = some e := by
  intro e
  induction e with
  | lit l => intro _; rfl
  | un u x ih => intro h; simp only [mmsCanonical] at h; simp [canonTree, ih h]
  | bin b l r ihl ihr =>
    intro h; simp only [mmsCanonical, Bool.and_eq_true] at h; simp [canonTree, ihl h.1, ihr h.2]
  | part n a nx iha ihn =>
    intro h; simp only [mmsCanonical, Bool.and_eq_true] at h; simp [canonTree, iha h.1, ihn h.2]
  | call f a ih =>
    intro h
    simp only [mmsCanonical, Bool.and_eq_true, Bool.or_eq_true, Bool.not_eq_true'] at h
    simp only [canonTree, ih h.2]
    by_cases hf : cfg.mms.contains f = true
    · have hc : mmsArgsCanonical a = true := by
        rcases h.1 with h1 | h1
        · rw [hf] at h1; cases h1
        · exact h1
      rw [if_pos hf, canonMMS_canonical_id cfg hc]
    · rw [if_neg hf]
  | nil => intro _; rfl
  | cons k x r ihx ihr =>
    intro h; simp only [mmsCanonical, Bool.and_eq_true] at h; simp [canonTree, ihx h.1, ihr h.2]

/-! ### argument lists given as Lean lists: every predicate is an `all`/`any`, hence invariant
under permutation -/

theorem allNamed_ofArgs (l : List (Option Nat × Expr)) :
    allNamed (ofArgs l) = l.all (fun p => p.1.isSome) := by
  induction l with
  | nil => rfl
  | cons p r ih => obtain ⟨k, e⟩ := p; simp [ofArgs, allNamed, ih]

theorem wf_ofArgs (l : List (Option Nat × Expr)) :
    wf .args (ofArgs l) = l.all (fun p => wf .expr p.2) := by
  induction l with
  | nil => rfl
  | cons p r ih => obtain ⟨k, e⟩ := p; simp [ofArgs, wf, ih]

theorem exposed_ofArgs (l : List (Option Nat × Expr)) :
    exposed .top (ofArgs l) = l.any (fun p => exposed .top p.2) := by
  induction l with
  | nil => rfl
  | cons p r ih => obtain ⟨k, e⟩ := p; simp [ofArgs, exposed, ih]

theorem litsCanonical_ofArgs (l : List (Option Nat × Expr)) :
    litsCanonical (ofArgs l) = l.all (fun p => litsCanonical p.2) := by
  induction l with
  | nil => rfl
  | cons p r ih => obtain ⟨k, e⟩ := p; simp [ofArgs, litsCanonical, ih]

theorem mmsCanonical_ofArgs (cfg : IntrCfg) (l : List (Option Nat × Expr)) :
    mmsCanonical cfg (ofArgs l) = l.all (fun p => mmsCanonical cfg p.2) := by
  induction l with
  | nil => rfl
  | cons p r ih => obtain ⟨k, e⟩ := p; simp [ofArgs, mmsCanonical, ih]

theorem argsOrdered_of_allNamed : ∀ e s, allNamed e = true → argsOrdered s e = true := by
  intro e
  induction e with
  | cons kw x r _ ihr =>
    intro s h
    simp only [allNamed, Bool.and_eq_true] at h
    cases kw with
    | none => simp at h
    | some k => simp [argsOrdered, ihr _ h.2]
  | _ => intro _ _; rfl

/-! ### literal tokens -/

/-- `literal_node` writes the exponent letter `d` only for `Precision.DOUBLE`, which has no kind suffix. -/
theorem Lit.tok_std (l : Lit) : l.tok.std = true := by
  cases l with
  | int s d p => rfl
  | real s d dot ex p =>
    cases p <;> cases ex <;> simp [Lit.tok, LitTok.std, Prec.suffix]
  | bool b p => rfl
  | char t q p => rfl

theorem litToksStd_append (a b : List Tok) : litToksStd (a ++ b) = (litToksStd a && litToksStd b) := by
  induction a with
  | nil => simp [litToksStd]
  | cons t r ih => cases t <;> simp [litToksStd, ih, Bool.and_assoc]

theorem litToksStd_wrap (p : Bool) (ts : List Tok) : litToksStd (wrap p ts) = litToksStd ts := by
  cases p <;> simp [wrap, litToksStd, litToksStd_append]

theorem litToksStd_signToks (s : Sign) : litToksStd s.toks = true := by
  cases s <;> rfl

theorem litToksStd_render (m : WMode) : ∀ e c, litToksStd (render m c e) = true := by
  intro e
  induction e with
  | lit l =>
    intro c
    simp only [render]
    split
    · simp [litToksStd, Lit.tok_std]
    · simp [litToksStd_wrap, litToksStd_append, litToksStd_signToks, litToksStd, Lit.tok_std]
  | un u x ih => intro c; simp [render, litToksStd_wrap, litToksStd, ih]
  | bin b l r ihl ihr =>
    intro c; simp [render, litToksStd_wrap, litToksStd_append, litToksStd, ihl, ihr]
  | part n a nx iha ihn =>
    intro c
    simp only [render, litToksStd, litToksStd_append]
    cases a <;> cases nx <;> simp [litToksStd, litToksStd_append, iha, ihn]
  | call f a ih => intro c; simp [render, litToksStd, litToksStd_append, ih]
  | nil => intro c; rfl
  | cons k x r ihx ihr =>
    intro c
    simp only [render, litToksStd_append]
    cases k <;> cases r <;> simp [litToksStd, litToksStd_append, ihx, ihr]

/-! ### the canonical form the reader produces -/

/-- popping a keyword from an all-named list leaves an all-named list -/
theorem popKw_allNamed (k : Nat) : ∀ e x rest, allNamed e = true → popKw k e = some (x, rest) →
    allNamed rest = true := by
  intro e
  induction e with
  | cons kw y r _ ihr =>
    intro x rest h hp
    simp only [allNamed, Bool.and_eq_true] at h
    simp only [popKw] at hp
    split at hp
    · cases hp; exact h.2
    · split at hp
      · rename_i x' rest' heq
        cases hp
        simp [allNamed, h.1, ihr _ _ h.2 heq]
      · cases hp
  | _ => intro x rest _ hp; simp [popKw] at hp

/-- For at most three arguments (MINVAL/MAXVAL/SUM take `array`, `dim`, `mask`) whatever the
canonicalisation accepts comes out in PSyIR canonical form. -/
theorem canonMMS_ok_canonical (cfg : IntrCfg) {a a' : Expr} (hl : argsLen a ≤ 3)
    (h : canonMMS cfg a = .ok a') : mmsArgsCanonical a' = true := by
  unfold canonMMS at h
  split at h
  case isFalse => cases h
  case isTrue ho =>
  match a, hl, ho, h with
  | .cons (some k) x r, _, ho, h =>
    have hall : allNamed (.cons (some k) x r) = true := by simpa [orderOk] using ho
    simp only [canonMMSCore] at h
    split at h
    · rename_i y rest heq
      cases h
      simpa [mmsArgsCanonical] using popKw_allNamed _ _ _ _ hall heq
    · cases h
  | .cons none x .nil, _, _, h =>
    simp [canonMMSCore, argsLen, numNamed] at h; cases h; rfl
  | .cons none x (.cons k2 y .nil), _, ho, h =>
    cases k2 with
    | none => simp [canonMMSCore, argsLen, numNamed] at h
    | some k => simp [canonMMSCore, argsLen, numNamed] at h; cases h; rfl
  | .cons none x (.cons k2 y (.cons k3 z .nil)), _, ho, h =>
    cases k2 <;> cases k3 <;> simp [canonMMSCore, argsLen, numNamed, orderOk, allNamed] at h ho <;>
      (cases h; rfl)
  | .cons none x (.cons k2 y (.cons k3 z (.cons k4 w r))), hl, _, _ =>
    simp [argsLen] at hl
  | .cons none x (.cons k2 y (.cons k3 z (.lit _))), _, ho, h
  | .cons none x (.cons k2 y (.cons k3 z (.un _ _))), _, ho, h
  | .cons none x (.cons k2 y (.cons k3 z (.bin _ _ _))), _, ho, h
  | .cons none x (.cons k2 y (.cons k3 z (.part _ _ _))), _, ho, h
  | .cons none x (.cons k2 y (.cons k3 z (.call _ _))), _, ho, h =>
    cases k2 <;> cases k3 <;> simp [canonMMSCore, argsLen, numNamed, orderOk, allNamed] at h ho <;>
      (cases h; rfl)
  | .cons none x (.cons k2 y (.lit _)), _, ho, h
  | .cons none x (.cons k2 y (.un _ _)), _, ho, h
  | .cons none x (.cons k2 y (.bin _ _ _)), _, ho, h
  | .cons none x (.cons k2 y (.part _ _ _)), _, ho, h
  | .cons none x (.cons k2 y (.call _ _)), _, ho, h =>
    cases k2 with
    | none => simp [canonMMSCore, argsLen, numNamed] at h
    | some k => simp [canonMMSCore, argsLen, numNamed] at h; cases h; rfl
  | .cons none x (.lit _), _, _, h
  | .cons none x (.un _ _), _, _, h
  | .cons none x (.bin _ _ _), _, _, h
  | .cons none x (.part _ _ _), _, _, h
  | .cons none x (.call _ _), _, _, h =>
    simp [canonMMSCore, argsLen, numNamed] at h; cases h; rfl
  | .lit _, _, _, h | .un _ _, _, _, h | .bin _ _ _, _, _, h | .part _ _ _, _, _, h
  | .call _ _, _, _, h | .nil, _, _, h => simp [canonMMSCore] at h

/-- The canonicalisation is idempotent on up to three arguments: reading what was written from a
tree that was read gives the same tree. -/
theorem canonMMS_idempotent (cfg : IntrCfg) {a a' : Expr} (hl : argsLen a ≤ 3)
    (h : canonMMS cfg a = .ok a') : canonMMS cfg a' = .ok a' :=
  canonMMS_canonical_id cfg (canonMMS_ok_canonical cfg hl h)

end C02
