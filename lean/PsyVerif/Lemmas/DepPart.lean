import PsyVerif.Lemmas.DepNorm
/-! # C08 lemmas — `_partition` keeps track of the loop variables of every subscript it groups, and a
successful `_is_loop_carried_dependency` test (`indepPair = true`) names one subscript position that separates
the two accesses. -/
namespace C08
open MiniF

theorem mem_union {a b : List Nat} {x : Nat} : x ∈ union a b ↔ x ∈ a ∨ x ∈ b := by
  simp only [union, List.mem_append, List.mem_filter, Bool.not_eq_eq_eq_not, Bool.not_true, decide_eq_false_iff_not]
  constructor
  · rintro (h | h)
    · exact Or.inl h
    · exact Or.inr h.1
  · rintro (h | h)
    · exact Or.inl h
    · by_cases hx : x ∈ a
      · exact Or.inl hx
      · exact Or.inr ⟨h, hx⟩

theorem mem_lvOf {lvars : List Nat} {e : Expr} {u : Nat} : u ∈ lvOf lvars e ↔ u ∈ lvars ∧ u ∈ C08.evars e := by
  simp [lvOf]

/-- every grouped position is a position of both accesses, and the group's variable set contains every loop
variable used by the two subscripts at that position -/
def PartInv (lvars : List Nat) (w o : List Expr) (pt : Part) : Prop :=
  ∀ p ∈ pt.2, p < w.length ∧ p < o.length ∧
    ∀ u ∈ lvars, (u ∈ C08.evars (sub w p) ∨ u ∈ C08.evars (sub o p)) → u ∈ pt.1

theorem PartInv.merge {lvars : List Nat} {w o : List Expr} {a q : Part}
    (ha : PartInv lvars w o a) (hq : PartInv lvars w o q) : PartInv lvars w o (union a.1 q.1, a.2 ++ q.2) := by
  intro p hp
  simp only [List.mem_append] at hp
  rcases hp with hp | hp
  · obtain ⟨h1, h2, h3⟩ := ha p hp
    exact ⟨h1, h2, fun u hu hm => mem_union.mpr (Or.inl (h3 u hu hm))⟩
  · obtain ⟨h1, h2, h3⟩ := hq p hp
    exact ⟨h1, h2, fun u hu hm => mem_union.mpr (Or.inr (h3 u hu hm))⟩

theorem sub_cons_succ (e : Expr) (es : List Expr) (k : Nat) : sub (e :: es) (k + 1) = sub es k := by
  simp [sub]

theorem initParts_spec (lvars : List Nat) :
    ∀ (ws os : List Expr) (p0 : Nat) (pt : Part), pt ∈ initParts lvars ws os p0 →
      ∃ k, pt.2 = [p0 + k] ∧ k < ws.length ∧ k < os.length ∧
        pt.1 = union (lvOf lvars (sub ws k)) (lvOf lvars (sub os k)) := by
  intro ws
  induction ws with
  | nil => intro os p0 pt h; simp [initParts] at h
  | cons w ws ih =>
    intro os p0 pt h
    cases os with
    | nil => simp [initParts] at h
    | cons o os =>
      simp only [initParts, List.mem_cons] at h
      rcases h with h | h
      · exact ⟨0, by simp [h], by simp, by simp, by simp [h, sub]⟩
      · obtain ⟨k, h1, h2, h3, h4⟩ := ih os (p0 + 1) pt h
        refine ⟨k + 1, ?_, by simp; omega, by simp; omega, ?_⟩
        · rw [h1]; congr 1; omega
        · rw [h4, sub_cons_succ, sub_cons_succ]

theorem initParts_inv (lvars : List Nat) (w o : List Expr) :
    ∀ pt ∈ initParts lvars w o 0, PartInv lvars w o pt := by
  intro pt hpt p hp
  obtain ⟨k, h1, h2, h3, h4⟩ := initParts_spec lvars w o 0 pt hpt
  rw [h1] at hp
  simp only [Nat.zero_add, List.mem_singleton] at hp
  subst hp
  refine ⟨h2, h3, ?_⟩
  intro u hu hm
  rw [h4]
  rcases hm with hm | hm
  · exact mem_union.mpr (Or.inl (mem_lvOf.mpr ⟨hu, hm⟩))
  · exact mem_union.mpr (Or.inr (mem_lvOf.mpr ⟨hu, hm⟩))

theorem absorb_inv (lvars : List Nat) (w o : List Expr) (v : Nat) :
    ∀ (rest : List Part) (acc : Part), PartInv lvars w o acc → (∀ q ∈ rest, PartInv lvars w o q) →
      PartInv lvars w o (absorb v rest acc).1 ∧ ∀ q ∈ (absorb v rest acc).2, PartInv lvars w o q := by
  intro rest
  induction rest with
  | nil => intro acc ha _; exact ⟨ha, by simp [absorb]⟩
  | cons q rest ih =>
    intro acc ha hr
    have hq := hr q (by simp)
    have hrest : ∀ q' ∈ rest, PartInv lvars w o q' := fun q' h => hr q' (List.mem_cons_of_mem _ h)
    simp only [absorb]
    split
    · exact ih _ (ha.merge hq) hrest
    · obtain ⟨h1, h2⟩ := ih acc ha hrest
      refine ⟨h1, ?_⟩
      intro q' hq'
      simp only [List.mem_cons] at hq'
      rcases hq' with rfl | hq'
      · exact hq
      · exact h2 q' hq'

theorem mergeVar_inv (lvars : List Nat) (w o : List Expr) (v : Nat) :
    ∀ ps : List Part, (∀ q ∈ ps, PartInv lvars w o q) → ∀ q ∈ mergeVar v ps, PartInv lvars w o q := by
  intro ps
  induction ps with
  | nil => intro _ q h; simp [mergeVar] at h
  | cons q0 rest ih =>
    intro hr q hq
    have hq0 := hr q0 (by simp)
    have hrest : ∀ q' ∈ rest, PartInv lvars w o q' := fun q' h => hr q' (List.mem_cons_of_mem _ h)
    simp only [mergeVar] at hq
    split at hq
    · obtain ⟨h1, h2⟩ := absorb_inv lvars w o v rest q0 hq0 hrest
      simp only [List.mem_cons] at hq
      rcases hq with rfl | hq
      · exact h1
      · exact h2 q hq
    · simp only [List.mem_cons] at hq
      rcases hq with rfl | hq
      · exact hq0
      · exact ih hrest q hq

theorem foldl_mergeVar_inv (lvars : List Nat) (w o : List Expr) :
    ∀ (vs : List Nat) (ps : List Part), (∀ q ∈ ps, PartInv lvars w o q) →
      ∀ q ∈ vs.foldl (fun ps v => mergeVar v ps) ps, PartInv lvars w o q := by
  intro vs
  induction vs with
  | nil => intro ps h; exact h
  | cons v vs ih => intro ps h; exact ih _ (mergeVar_inv lvars w o v ps h)

theorem partition_inv (lvars : List Nat) (w o : List Expr) :
    ∀ q ∈ partition lvars w o, PartInv lvars w o q :=
  foldl_mergeVar_inv lvars w o lvars _ (initParts_inv lvars w o)

/-- what a successful test establishes: a position, and either a never-equal pair of subscripts free of loop
variables, or a dependency distance of exactly zero between subscripts that use no loop variable but `i` -/
def Separates (lvars : List Nat) (i : Nat) (dn : List (Nat × Nat)) (w o : List Expr) (p : Nat) : Prop :=
  p < w.length ∧ p < o.length ∧
    ((independent0 (sub w p) (sub o p) = true ∧
        ∀ u ∈ lvars, u ∉ C08.evars (sub w p) ∧ u ∉ C08.evars (sub o p)) ∨
      (depDistance i dn (sub w p) (sub o p) = some 0 ∧
        ∀ u ∈ lvars, u ≠ i → u ∉ C08.evars (sub w p) ∧ u ∉ C08.evars (sub o p)))

theorem decideParts_sound (lvars : List Nat) (i : Nat) (hi : i ∈ lvars) (dn : List (Nat × Nat)) (w o : List Expr) :
    ∀ parts : List Part, (∀ q ∈ parts, PartInv lvars w o q) → decideParts lvars i dn w o parts = true →
      ∃ p, Separates lvars i dn w o p := by
  intro parts
  induction parts with
  | nil => intro _ h; simp [decideParts] at h
  | cons q rest ih =>
    intro hinv h
    have hq := hinv q (by simp)
    have hrest : ∀ q' ∈ rest, PartInv lvars w o q' := fun q' h => hinv q' (List.mem_cons_of_mem _ h)
    obtain ⟨vs, ps⟩ := q
    have multi : (ps.any (fun p => onlyVar lvars i (sub w p) (sub o p) &&
        depDistance i dn (sub w p) (sub o p) == some 0)) = true → ∃ p, Separates lvars i dn w o p := by
      intro hany
      simp only [List.any_eq_true, Bool.and_eq_true, beq_iff_eq] at hany
      obtain ⟨p, hp, hov, hd⟩ := hany
      obtain ⟨h1, h2, _⟩ := hq p hp
      refine ⟨p, h1, h2, Or.inr ⟨hd, ?_⟩⟩
      intro u hu hne
      simp only [onlyVar, List.all_eq_true, Bool.or_eq_true, beq_iff_eq, Bool.and_eq_true,
        Bool.not_eq_eq_eq_not, Bool.not_true, decide_eq_false_iff_not] at hov
      rcases hov u hu with he | hh
      · exact absurd he hne
      · exact hh
    match ps, hq, multi, h with
    | [], _, multi, h =>
      simp only [decideParts] at h
      split at h
      · exact multi (by assumption)
      · exact ih hrest h
    | [p], hq, _, h =>
      simp only [decideParts] at h
      obtain ⟨h1, h2, h3⟩ := hq p (by simp)
      split at h
      · rename_i hlen
        have hvs : vs = [] := List.eq_nil_of_length_eq_zero hlen
        split at h
        · rename_i hind
          refine ⟨p, h1, h2, Or.inl ⟨hind, ?_⟩⟩
          intro u hu
          constructor
          · intro hm; have := h3 u hu (Or.inl hm); simp [hvs] at this
          · intro hm; have := h3 u hu (Or.inr hm); simp [hvs] at this
        · exact ih hrest h
      · split at h
        · rename_i hlen1
          split at h
          · rename_i hd
            have hd' : depDistance i dn (sub w p) (sub o p) = some 0 := by simpa using hd
            refine ⟨p, h1, h2, Or.inr ⟨hd', ?_⟩⟩
            -- the only loop variable of the group is `i`
            obtain ⟨_, _, hmem, _⟩ := depDistance_zero_spec hd'
            have hiv : i ∈ vs := h3 i hi (by simpa [List.mem_append] using hmem)
            obtain ⟨a, ha⟩ := List.length_eq_one_iff.mp hlen1
            have hia : i = a := by simpa [ha] using hiv
            intro u hu hne
            constructor
            · intro hm
              have := h3 u hu (Or.inl hm)
              rw [ha, List.mem_singleton] at this
              exact hne (this.trans hia.symm)
            · intro hm
              have := h3 u hu (Or.inr hm)
              rw [ha, List.mem_singleton] at this
              exact hne (this.trans hia.symm)
          · exact ih hrest h
        · exact absurd h (by simp)
    | p1 :: p2 :: ps', _, multi, h =>
      simp only [decideParts] at h
      split at h
      · exact multi (by assumption)
      · exact ih hrest h

theorem indepPair_separates {v : Nat} {inner : List Nat} {dn : List (Nat × Nat)} {w o : List Expr}
    (h : indepPair (v :: inner) dn w o = true) : ∃ p, Separates (v :: inner) v dn w o p :=
  decideParts_sound (v :: inner) v (by simp) dn w o _ (partition_inv (v :: inner) w o) (by simpa [indepPair] using h)

end C08
