import PsyVerif.Lemmas.ExprIO
/-! `Parses`: the parser returns a result for every sufficiently large fuel; grammar rules
derived from the unfolding equations and fuel monotonicity; follow sets; level descent. -/
namespace C02

theorem P_mono_le {f f' : Nat} {m ts r} (h : P f m ts = some r) (hle : f ≤ f') :
    P f' m ts = some r := by
  induction hle with
  | refl => exact h
  | step _ ih => exact P_mono _ _ _ _ ih

/-- `Parses m ts r`: run with enough fuel, the parser returns `r` (and then for every larger fuel,
`P_mono_le`). -/
def Parses (m : Mode) (ts : List Tok) (r : Expr × List Tok) : Prop := ∃ f, P f m ts = some r

theorem Parses.all_fuel {m ts r} (h : Parses m ts r) : ∃ f0, ∀ f, f0 ≤ f → P f m ts = some r := by
  obtain ⟨f0, h0⟩ := h
  exact ⟨f0, fun f hf => P_mono_le h0 hf⟩

theorem Parses.lit {l x R} (h : readLit l = some x) :
    Parses (.expr 9) (.lit l :: R) (.lit x, R) :=
  ⟨1, by rw [P_expr]; simp [h]⟩

theorem Parses.paren {ts e R} (h : Parses (.expr 0) ts (e, .rp :: R)) :
    Parses (.expr 9) (.lp :: ts) (e, R) := by
  obtain ⟨f, hf⟩ := h
  exact ⟨f + 1, by rw [P_expr]; simp [hf]⟩

theorem Parses.name {n R} (h : ∀ t r, R = t :: r → t ≠ .lp ∧ t ≠ .pct) :
    Parses (.expr 9) (.name n :: R) (.part n .nil .nil, R) := by
  refine ⟨2, ?_⟩
  rw [P_expr]
  simp only [ge_iff_le, Nat.le_refl, if_true]
  rw [P_parts]
  match R, h with
  | [], _ => rfl
  | t :: r, h =>
    have := h t r rfl
    cases t <;> simp_all

theorem Parses.step {k ts x R res} (hk : k < 9) (hp : prefixTok k ts = none)
    (h1 : Parses (.expr (k + 1)) ts (x, R)) (h2 : Parses (.cont k x) R res) :
    Parses (.expr k) ts res := by
  obtain ⟨f1, h1⟩ := h1
  obtain ⟨f2, h2⟩ := h2
  refine ⟨max f1 f2 + 1, ?_⟩
  rw [P_expr, if_neg (by omega), hp]
  simp only [P_mono_le h1 (Nat.le_max_left _ _), P_mono_le h2 (Nat.le_max_right _ _)]

theorem Parses.prefix {k o u ts x R res} (hk : k < 9) (hp : prefixAt k o = some u)
    (h1 : Parses (.expr (k + 1)) ts (x, R)) (h2 : Parses (.cont k (.un u x)) R res) :
    Parses (.expr k) (.op o :: ts) res := by
  obtain ⟨f1, h1⟩ := h1
  obtain ⟨f2, h2⟩ := h2
  refine ⟨max f1 f2 + 1, ?_⟩
  have : prefixTok k (.op o :: ts) = some (u, ts) := by simp [prefixTok, hp]
  rw [P_expr, if_neg (by omega), this]
  simp only [P_mono_le h1 (Nat.le_max_left _ _), P_mono_le h2 (Nat.le_max_right _ _)]

theorem Parses.stop {k x R} (h : ∀ o r, R = .op o :: r → binAt k o = none) :
    Parses (.cont k x) R (x, R) := by
  refine ⟨1, ?_⟩
  rw [P_cont]
  match R, h with
  | [], _ => rfl
  | .op o :: r, h => simp [h o r rfl]
  | .lp :: _, _ | .rp :: _, _ | .comma :: _, _ | .pct :: _, _ | .name _ :: _, _ | .fn _ :: _, _
  | .kw _ :: _, _ | .lit _ :: _, _ => rfl

theorem Parses.binLoop {k o b x ts y R res} (hb : binAt k o = some b) (hl : loops k = true)
    (h1 : Parses (.expr (rhsLevel k)) ts (y, R)) (h2 : Parses (.cont k (.bin b x y)) R res) :
    Parses (.cont k x) (.op o :: ts) res := by
  obtain ⟨f1, h1⟩ := h1
  obtain ⟨f2, h2⟩ := h2
  refine ⟨max f1 f2 + 1, ?_⟩
  rw [P_cont]
  simp only [hb, P_mono_le h1 (Nat.le_max_left _ _), hl, if_true,
    P_mono_le h2 (Nat.le_max_right _ _)]

theorem Parses.binOnce {k o b x ts y R} (hb : binAt k o = some b) (hl : loops k = false)
    (h1 : Parses (.expr (rhsLevel k)) ts (y, R)) :
    Parses (.cont k x) (.op o :: ts) (.bin b x y, R) := by
  obtain ⟨f1, h1⟩ := h1
  refine ⟨f1 + 1, ?_⟩
  rw [P_cont]
  simp [hb, h1, hl]

/-! ### follow sets -/

def OpTok.isBin (o : OpTok) : Bool := o != .not && o != .bad

/-- `Follow k R`: the remaining input `R` cannot continue an expression of level `k`:
it is empty, or starts with `)`/`,`, or with a binary operator of lower level. -/
def Follow (k : Nat) : List Tok → Prop
  | [] => True
  | .rp :: _ => True
  | .comma :: _ => True
  | .op o :: _ => o.isBin = true ∧ o.prec < k
  | _ => False

theorem Follow.mono {k k' R} (h : Follow k R) (hk : k ≤ k') : Follow k' R := by
  match R, h with
  | [], _ => trivial
  | .rp :: _, _ => trivial
  | .comma :: _, _ => trivial
  | .op o :: _, h => exact ⟨h.1, Nat.lt_of_lt_of_le h.2 hk⟩

theorem Follow.stop {k R} (h : Follow k R) : ∀ o r, R = .op o :: r → binAt k o = none := by
  intro o r hR
  subst hR
  have : o.prec ≠ k := Nat.ne_of_lt h.2
  simp [binAt, this]

theorem Follow.name {k R} (h : Follow k R) : ∀ t r, R = t :: r → t ≠ .lp ∧ t ≠ .pct := by
  intro t r hR
  subst hR
  cases t <;> simp_all [Follow]

theorem Follow.op {k o R} (hb : o.isBin = true) (hp : o.prec < k) : Follow k (.op o :: R) := ⟨hb, hp⟩

/-! ### descending through the levels -/

theorem down_A {ts : List Tok} {ne R} : ∀ (d k p : Nat), k + d = p → p ≤ 9 →
    (∀ j, k ≤ j → j < p → prefixTok j ts = none) → Follow k R →
    Parses (.expr p) ts (ne, R) → Parses (.expr k) ts (ne, R) := by
  intro d
  induction d with
  | zero => intro k p hkp _ _ _ h; have : k = p := by omega
            subst this; exact h
  | succ d ih =>
    intro k p hkp hp np hF h
    have h1 := ih (k + 1) p (by omega) hp (fun j hj hjp => np j (by omega) hjp) (hF.mono (by omega)) h
    exact Parses.step (by omega) (np k (Nat.le_refl _) (by omega)) h1 (Parses.stop hF.stop)

theorem down_B {ts : List Tok} {ne R res} {k p : Nat} (hkp : k < p) (hp : p ≤ 9)
    (np : ∀ j, k ≤ j → j < p → prefixTok j ts = none) (hF : Follow (k + 1) R)
    (h : Parses (.expr p) ts (ne, R)) (hc : Parses (.cont k ne) R res) :
    Parses (.expr k) ts res :=
  Parses.step (by omega) (np k (Nat.le_refl _) hkp)
    (down_A (p - (k + 1)) (k + 1) p (by omega) hp (fun j hj hjp => np j (by omega) hjp) hF h) hc

/-! ### `Good ts L ne`: the token list `ts` denotes `ne` as an expression of level `L` -/

def Good (ts : List Tok) (L : Nat) (ne : Expr) : Prop :=
  (∀ k R, k ≤ L → Follow k R → Parses (.expr k) (ts ++ R) (ne, R)) ∧
  (∀ k R res, k ≤ L → k < 9 → loops k = true → Follow (k + 1) R →
    Parses (.cont k ne) R res → Parses (.expr k) (ts ++ R) res) ∧
  (∀ j R, j < L → prefixTok j (ts ++ R) = none)

theorem Good.of_nat {ts L ne} (hL : L ≤ 9)
    (np : ∀ j R, j < L → prefixTok j (ts ++ R) = none)
    (hA : ∀ R, Follow L R → Parses (.expr L) (ts ++ R) (ne, R))
    (hB : L < 9 → loops L = true → ∀ R res, Follow (L + 1) R → Parses (.cont L ne) R res →
      Parses (.expr L) (ts ++ R) res) : Good ts L ne := by
  refine ⟨?_, ?_, np⟩
  · intro k R hk hF
    by_cases hkl : k = L
    · subst hkl; exact hA R hF
    · exact down_A (L - k) k L (by omega) hL (fun j _ hj => np j R hj) hF
        (hA R (hF.mono hk))
  · intro k R res hk hk9 hl hF hc
    by_cases hkl : k = L
    · subst hkl; exact hB hk9 hl R res hF hc
    · exact down_B (by omega) hL (fun j _ hj => np j R hj) hF (hA R (hF.mono (by omega))) hc

theorem Good.mono {ts L L' ne} (h : Good ts L ne) (hl : L' ≤ L) : Good ts L' ne :=
  ⟨fun k R hk => h.1 k R (by omega), fun k R res hk => h.2.1 k R res (by omega),
   fun j R hj => h.2.2 j R (by omega)⟩

theorem Good.wrap {ts L ne} (h : Good ts L ne) : Good (.lp :: ts ++ [.rp]) 9 ne := by
  refine Good.of_nat (Nat.le_refl _) (fun j R _ => rfl) ?_ (fun h9 => absurd h9 (by omega))
  intro R _
  have := h.1 0 (.rp :: R) (Nat.zero_le _) trivial
  have e : (Tok.lp :: ts ++ [Tok.rp]) ++ R = .lp :: (ts ++ .rp :: R) := by simp
  rw [e]
  exact Parses.paren this

end C02
