import PsyVerif.Model.LoopTrans
import PsyVerif.Lemmas.MiniFSem
import PsyVerif.Lemmas.LoopTransFuse
/-! # C05 — element-level fusion: two loop bodies that access every shared written array only at
`loop variable + a fixed offset` (dependence distance 0) can be fused -/
namespace C05
open MiniF

/-- offset table: arrays under the access discipline and their constant subscript offset -/
abbrev OffTab := List (Nat × Int)

/-- the subscript forms `v`, `v + c`, `v - c` -/
def offsetOf (v : Nat) : Expr → Option Int
  | .var y => if y = v then some 0 else none
  | .bin .add (.var y) (.lit c) => if y = v then some c else none
  | .bin .sub (.var y) (.lit c) => if y = v then some (-c) else none
  | _ => none

theorem eval_offsetOf {v : Nat} {i : Expr} {c : Int} (h : offsetOf v i = some c) (τ : Store) :
    eval i τ = τ (v, 0, 0) + c := by
  unfold offsetOf at h
  split at h
  · split at h
    · rename_i hy; subst hy; cases h; simp [eval]
    · cases h
  · split at h
    · rename_i hy; subst hy; cases h; simp [eval, evalBin]
    · cases h
  · split at h
    · rename_i hy; subst hy; cases h; simp [eval, evalBin]; omega
    · cases h
  · cases h

/-- the subscript of an access to array `a` obeys the table -/
def subOk (A : OffTab) (v a : Nat) (i : Expr) : Bool :=
  match A.lookup a with
  | some c => offsetOf v i == some c
  | none => true

/-- access discipline for expressions: arrays of the table only as `a(v + offset)` -/
def DiscE (A : OffTab) (v : Nat) : Expr → Bool
  | .lit _ => true
  | .var y => (A.lookup y).isNone
  | .idx1 a i => DiscE A v i && subOk A v a i
  | .idx2 a i j => DiscE A v i && DiscE A v j && (A.lookup a).isNone
  | .un _ e => DiscE A v e
  | .bin _ a b => DiscE A v a && DiscE A v b

def DiscS (A : OffTab) (v : Nat) : Stmt → Bool
  | .skip => true
  | .seq a b => DiscS A v a && DiscS A v b
  | .assign y e => (A.lookup y).isNone && DiscE A v e
  | .store1 a i e => DiscE A v i && DiscE A v e && subOk A v a i
  | .store2 a i j e => DiscE A v i && DiscE A v j && DiscE A v e && (A.lookup a).isNone
  | .ite c t f => DiscE A v c && DiscS A v t && DiscS A v f
  | .loop w lo hi st b => (A.lookup w).isNone && DiscE A v lo && DiscE A v hi && DiscE A v st && DiscS A v b

/-- agreement on the variables in `U` and on the cells `a(c + offset)` of the table -/
def AgreeD (A : OffTab) (U : Nat → Prop) (c : Int) (τ τ' : Store) : Prop :=
  AgreeOn U τ τ' ∧ ∀ a off, A.lookup a = some off → τ (a, c + off, 0) = τ' (a, c + off, 0)

theorem AgreeD.set {A : OffTab} {U : Nat → Prop} {c : Int} {τ τ' : Store} (h : AgreeD A U c τ τ')
    (l : Loc) (val : Int) : AgreeD A U c (τ.set l val) (τ'.set l val) := by
  refine ⟨h.1.set l val, fun a off ha => ?_⟩
  simp only [Store.set_apply]
  split
  · rfl
  · exact h.2 a off ha

section Disc
variable (A : OffTab) (U : Nat → Prop) (v : Nat) (c : Int)

theorem evalD (hUv : U v) {e : Expr} (hd : DiscE A v e = true)
    (hU : ∀ y ∈ evars e, A.lookup y = none → U y) {τ τ' : Store} (hv : τ (v, 0, 0) = c)
    (h : AgreeD A U c τ τ') : eval e τ = eval e τ' := by
  have hv' : τ' (v, 0, 0) = c := by rw [← h.1 v hUv 0 0]; exact hv
  induction e with
  | lit n => rfl
  | var y =>
    simp only [DiscE, Option.isNone_iff_eq_none] at hd
    exact h.1 y (hU y (by simp [evars]) hd) 0 0
  | idx1 a i ih =>
    simp only [DiscE, Bool.and_eq_true] at hd
    have hi := ih hd.1 (fun y hy => hU y (by simp [evars, hy]))
    simp only [eval]
    cases hl : A.lookup a with
    | none =>
      rw [hi]
      exact h.1 a (hU a (by simp [evars]) hl) _ _
    | some off =>
      have ho : offsetOf v i = some off := by
        have := hd.2; simp only [subOk, hl, beq_iff_eq] at this; exact this
      rw [eval_offsetOf ho τ, eval_offsetOf ho τ', hv, hv']
      exact h.2 a off hl
  | idx2 a i j ihi ihj =>
    simp only [DiscE, Bool.and_eq_true, Option.isNone_iff_eq_none] at hd
    have hi := ihi hd.1.1 (fun y hy => hU y (by simp [evars, hy]))
    have hj := ihj hd.1.2 (fun y hy => hU y (by simp [evars, hy]))
    simp only [eval, hi, hj]
    exact h.1 a (hU a (by simp [evars]) hd.2) _ _
  | un op e ih =>
    simp only [DiscE] at hd
    simp only [eval, ih hd (fun y hy => hU y (by simpa [evars] using hy))]
  | bin op a b iha ihb =>
    simp only [DiscE, Bool.and_eq_true] at hd
    simp only [eval, iha hd.1 (fun y hy => hU y (by simp [evars, hy])),
      ihb hd.2 (fun y hy => hU y (by simp [evars, hy]))]

/-- the loop variable keeps its value through a statement that does not assign it -/
theorem v_const {s : Stmt} (hvw : v ∉ wvars s) (τ : Store) : (exec s τ) (v, 0, 0) = τ (v, 0, 0) :=
  exec_frame hvw 0 0

theorem iters_agreeD {F : Store → Store} (w : Nat) (hwv : w ≠ v) (lo st : Int)
    (hF : ∀ τ τ', τ (v, 0, 0) = c → AgreeD A U c τ τ' → AgreeD A U c (F τ) (F τ') ∧ (F τ) (v, 0, 0) = c) :
    ∀ n k τ τ', τ (v, 0, 0) = c → AgreeD A U c τ τ' →
      AgreeD A U c (iters F w lo st n k τ) (iters F w lo st n k τ') ∧ (iters F w lo st n k τ) (v, 0, 0) = c := by
  intro n
  induction n with
  | zero => intro k τ τ' hv h; exact ⟨h, hv⟩
  | succ n ih =>
    intro k τ τ' hv h
    simp only [iters]
    have hv1 : (τ.set (w, 0, 0) (lo + k * st)) (v, 0, 0) = c := by
      rw [Store.set_apply, if_neg (fun hh => hwv (congrArg Prod.fst hh).symm)]; exact hv
    obtain ⟨g1, g2⟩ := hF _ _ hv1 (h.set (w, 0, 0) (lo + k * st))
    exact ih _ _ _ g2 g1

/-- **disciplined congruence**: the result on `U` and on the cells `a(c + offset)` depends only on
the input there -/
theorem congrD (hUv : U v) (s : Stmt) (hd : DiscS A v s = true) (hvw : v ∉ wvars s)
    (hU : ∀ y ∈ rvars s, A.lookup y = none → U y) :
    ∀ τ τ', τ (v, 0, 0) = c → AgreeD A U c τ τ' → AgreeD A U c (exec s τ) (exec s τ') := by
  induction s with
  | skip => intro τ τ' _ h; exact h
  | seq a b iha ihb =>
    simp only [DiscS, Bool.and_eq_true] at hd
    simp only [wvars, List.mem_append, not_or] at hvw
    intro τ τ' hv h
    simp only [exec]
    exact ihb hd.2 hvw.2 (fun y hy => hU y (by simp [rvars, hy])) _ _
      (by rw [v_const v hvw.1]; exact hv)
      (iha hd.1 hvw.1 (fun y hy => hU y (by simp [rvars, hy])) _ _ hv h)
  | assign y e =>
    simp only [DiscS, Bool.and_eq_true] at hd
    intro τ τ' hv h
    simp only [exec]
    rw [evalD A U v c hUv hd.2 (fun z hz => hU z (by simpa [rvars] using hz)) hv h]
    exact h.set _ _
  | store1 a i e =>
    simp only [DiscS, Bool.and_eq_true] at hd
    intro τ τ' hv h
    simp only [exec]
    rw [evalD A U v c hUv hd.1.1 (fun z hz => hU z (by simp [rvars, hz])) hv h,
      evalD A U v c hUv hd.1.2 (fun z hz => hU z (by simp [rvars, hz])) hv h]
    exact h.set _ _
  | store2 a i j e =>
    simp only [DiscS, Bool.and_eq_true] at hd
    intro τ τ' hv h
    simp only [exec]
    rw [evalD A U v c hUv hd.1.1.1 (fun z hz => hU z (by simp [rvars, hz])) hv h,
      evalD A U v c hUv hd.1.1.2 (fun z hz => hU z (by simp [rvars, hz])) hv h,
      evalD A U v c hUv hd.1.2 (fun z hz => hU z (by simp [rvars, hz])) hv h]
    exact h.set _ _
  | ite cnd t f iht ihf =>
    simp only [DiscS, Bool.and_eq_true] at hd
    simp only [wvars, List.mem_append, not_or] at hvw
    intro τ τ' hv h
    simp only [exec]
    rw [evalD A U v c hUv hd.1.1 (fun z hz => hU z (by simp [rvars, hz])) hv h]
    split
    · exact iht hd.1.2 hvw.1 (fun y hy => hU y (by simp [rvars, hy])) _ _ hv h
    · exact ihf hd.2 hvw.2 (fun y hy => hU y (by simp [rvars, hy])) _ _ hv h
  | loop w lo hi st b ih =>
    simp only [DiscS, Bool.and_eq_true] at hd
    simp only [wvars, List.mem_cons, not_or] at hvw
    intro τ τ' hv h
    simp only [exec, runIters_eq_iters]
    rw [evalD A U v c hUv hd.1.1.1.2 (fun z hz => hU z (by simp [rvars, hz])) hv h,
      evalD A U v c hUv hd.1.1.2 (fun z hz => hU z (by simp [rvars, hz])) hv h,
      evalD A U v c hUv hd.1.2 (fun z hz => hU z (by simp [rvars, hz])) hv h]
    apply AgreeD.set
    exact (iters_agreeD A U v c w (fun hh => hvw.1 hh.symm) _ _
      (fun ρ ρ' hρ hh => ⟨ih hd.2 hvw.2 (fun y hy => hU y (by simp [rvars, hy])) ρ ρ' hρ hh,
        by rw [v_const v hvw.2]; exact hρ⟩) _ _ _ _ hv h).1

/-- **disciplined frame**: an array of the table is only changed at the cell `a(v + offset)` -/
theorem frameD (s : Stmt) (hd : DiscS A v s = true) (hvw : v ∉ wvars s) {a : Nat} {off : Int}
    (ha : A.lookup a = some off) :
    ∀ (τ : Store) (i j : Int), (i ≠ τ (v, 0, 0) + off ∨ j ≠ 0) → (exec s τ) (a, i, j) = τ (a, i, j) := by
  induction s with
  | skip => intro τ i j _; rfl
  | seq p q ihp ihq =>
    simp only [DiscS, Bool.and_eq_true] at hd
    simp only [wvars, List.mem_append, not_or] at hvw
    intro τ i j hij
    simp only [exec]
    rw [ihq hd.2 hvw.2 _ i j (by rw [v_const v hvw.1]; exact hij), ihp hd.1 hvw.1 τ i j hij]
  | assign y e =>
    simp only [DiscS, Bool.and_eq_true, Option.isNone_iff_eq_none] at hd
    intro τ i j _
    simp only [exec]
    rw [Store.set_apply, if_neg]
    intro hh
    have : a = y := congrArg Prod.fst hh
    rw [this, hd.1] at ha; cases ha
  | store1 b idx e =>
    simp only [DiscS, Bool.and_eq_true] at hd
    intro τ i j hij
    simp only [exec]
    rw [Store.set_apply, if_neg]
    intro hh
    have hab : a = b := congrArg Prod.fst hh
    subst hab
    have ho : offsetOf v idx = some off := by
      have := hd.2; simp only [subOk, ha, beq_iff_eq] at this; exact this
    have h2 := congrArg (fun l : Loc => l.2) hh
    simp only at h2
    rw [eval_offsetOf ho τ] at h2
    rcases hij with hij | hij
    · exact hij (congrArg Prod.fst h2)
    · exact hij (congrArg Prod.snd h2)
  | store2 b idx jdx e =>
    simp only [DiscS, Bool.and_eq_true, Option.isNone_iff_eq_none] at hd
    intro τ i j _
    simp only [exec]
    rw [Store.set_apply, if_neg]
    intro hh
    have : a = b := congrArg Prod.fst hh
    rw [this, hd.2] at ha; cases ha
  | ite cnd t f iht ihf =>
    simp only [DiscS, Bool.and_eq_true] at hd
    simp only [wvars, List.mem_append, not_or] at hvw
    intro τ i j hij
    simp only [exec]
    split
    · exact iht hd.1.2 hvw.1 τ i j hij
    · exact ihf hd.2 hvw.2 τ i j hij
  | loop w lo hi st b ih =>
    simp only [DiscS, Bool.and_eq_true, Option.isNone_iff_eq_none] at hd
    simp only [wvars, List.mem_cons, not_or] at hvw
    intro τ i j hij
    have haw : a ≠ w := fun hh => by rw [hh, hd.1.1.1.1] at ha; cases ha
    have hvw' : v ≠ w := hvw.1
    simp only [exec, runIters_eq_iters]
    rw [Store.set_apply, if_neg (fun hh => haw (congrArg Prod.fst hh))]
    have := iters_invariant (fun ρ => ρ (a, i, j) = τ (a, i, j) ∧ ρ (v, 0, 0) = τ (v, 0, 0)) (exec b) w
      (eval lo τ) (eval st τ)
      (by
        intro ρ val hρ
        show (exec b (ρ.set (w, 0, 0) val)) (a, i, j) = τ (a, i, j) ∧ (exec b (ρ.set (w, 0, 0) val)) (v, 0, 0) = τ (v, 0, 0)
        have hv1 : (ρ.set (w, 0, 0) val) (v, 0, 0) = τ (v, 0, 0) := by
          rw [Store.set_apply, if_neg (fun hh => hvw' (congrArg Prod.fst hh))]; exact hρ.2
        refine ⟨?_, by rw [v_const v hvw.2]; exact hv1⟩
        rw [ih hd.2 hvw.2 _ i j (by rw [hv1]; exact hij), Store.set_apply,
          if_neg (fun hh => haw (congrArg Prod.fst hh))]
        exact hρ.1)
    exact (this _ _ τ ⟨rfl, rfl⟩).1

end Disc

/-! ## instances of the two bodies commute when their loop-variable values differ -/

/-- equality of stores except at the scalar location of the loop variable -/
def RV (v : Nat) (x y : Store) : Prop := ∀ l : Loc, l ≠ (v, 0, 0) → x l = y l

theorem RV.refl (v : Nat) (x : Store) : RV v x x := fun _ _ => rfl
theorem RV.symm {v : Nat} {x y : Store} (h : RV v x y) : RV v y x := fun l hl => (h l hl).symm
theorem RV.trans {v : Nat} {x y z : Store} (h1 : RV v x y) (h2 : RV v y z) : RV v x z :=
  fun l hl => (h1 l hl).trans (h2 l hl)

/-- one iteration instance of a body: set the loop variable, run the body -/
def Inst1 (b : Stmt) (v : Nat) (c : Int) (τ : Store) : Store := exec b (τ.set (v, 0, 0) c)

theorem Inst1_congr (b : Stmt) (v : Nat) (c : Int) {x y : Store} (h : RV v x y) :
    Inst1 b v c x = Inst1 b v c y := by
  unfold Inst1
  congr 1
  apply Store.ext; funext l
  simp only [Store.set_apply]
  split
  · rfl
  · rename_i hl; exact h l hl

/-- separation of the non-table variables: what one body writes the other does not touch -/
def Separated (A : OffTab) (b1 b2 : Stmt) : Prop :=
  ∀ y ∈ wvars b1, A.lookup y = none → y ∉ rvars b2 ∧ y ∉ wvars b2

section Commute
variable (A : OffTab) (v : Nat) (b1 b2 : Stmt)
variable (hAv : A.lookup v = none) (hd1 : DiscS A v b1 = true) (hd2 : DiscS A v b2 = true)
variable (hv1 : v ∉ wvars b1) (hv2 : v ∉ wvars b2)
variable (hs12 : Separated A b1 b2) (hs21 : Separated A b2 b1)

include hAv hd2 hv2 in
/-- frame of an instance of `b2` -/
theorem inst_frame (c : Int) (x : Store) (y : Nat) (i j : Int) (hl : ((y, i, j) : Loc) ≠ (v, 0, 0))
    (h : (A.lookup y = none ∧ y ∉ wvars b2) ∨ (∃ off, A.lookup y = some off ∧ (i ≠ c + off ∨ j ≠ 0))) :
    (Inst1 b2 v c x) (y, i, j) = x (y, i, j) := by
  unfold Inst1
  rcases h with ⟨_, hw⟩ | ⟨off, ho, hij⟩
  · rw [exec_frame hw, Store.set_apply, if_neg hl]
  · rw [frameD A v b2 hd2 hv2 ho _ i j (by rw [Store.set_same]; exact hij), Store.set_apply, if_neg hl]

include hAv hd1 hd2 hv1 hv2 hs12 hs21 in
/-- running an instance of `b2` with a different loop-variable value first does not change what an
instance of `b1` computes on its own footprint -/
theorem inst_congr_after (c c' : Int) (hcc : c ≠ c') (x : Store) :
    AgreeD A (fun y => A.lookup y = none ∧ y ∉ wvars b2) c'
      (Inst1 b1 v c' (Inst1 b2 v c x)) (Inst1 b1 v c' x) := by
  unfold Inst1
  apply congrD A _ v c' ⟨hAv, hv2⟩ b1 hd1 hv1
  · intro y hy hl
    exact ⟨hl, fun hw => (hs21 y hw hl).1 hy⟩
  · exact Store.set_same _ _ _
  · constructor
    · intro y hy i j
      simp only [Store.set_apply]
      split
      · rfl
      · rename_i hne
        exact inst_frame A v b2 hAv hd2 hv2 c x y i j hne (Or.inl hy)
    · intro a off ha
      have hav : a ≠ v := fun hh => by rw [hh, hAv] at ha; cases ha
      have hne : ((a, c' + off, 0) : Loc) ≠ (v, 0, 0) := fun hh => hav (congrArg Prod.fst hh)
      rw [Store.set_apply, if_neg hne, Store.set_apply, if_neg hne]
      exact inst_frame A v b2 hAv hd2 hv2 c x a _ 0 hne (Or.inr ⟨off, ha, Or.inl (by omega)⟩)

end Commute

/-- **commutation**: an instance of `b1` at value `c'` and an instance of `b2` at value `c ≠ c'` commute
(up to the loop variable) -/
theorem inst_commute (A : OffTab) (v : Nat) (b1 b2 : Stmt) (hAv : A.lookup v = none)
    (hd1 : DiscS A v b1 = true) (hd2 : DiscS A v b2 = true) (hv1 : v ∉ wvars b1) (hv2 : v ∉ wvars b2)
    (hs12 : Separated A b1 b2) (hs21 : Separated A b2 b1) (c c' : Int) (hcc : c ≠ c') (x : Store) :
    RV v (Inst1 b1 v c' (Inst1 b2 v c x)) (Inst1 b2 v c (Inst1 b1 v c' x)) := by
  have C1 := inst_congr_after A v b1 b2 hAv hd1 hd2 hv1 hv2 hs12 hs21 c c' hcc x
  have C2 := inst_congr_after A v b2 b1 hAv hd2 hd1 hv2 hv1 hs21 hs12 c' c (Ne.symm hcc) x
  intro l hl
  obtain ⟨y, i, j⟩ := l
  cases hly : A.lookup y with
  | some off =>
    by_cases h1 : i = c' + off ∧ j = 0
    · -- the cell of the `b1` instance
      obtain ⟨rfl, rfl⟩ := h1
      rw [C1.2 y off hly]
      exact (inst_frame A v b2 hAv hd2 hv2 c _ y _ 0 hl (Or.inr ⟨off, hly, Or.inl (by omega)⟩)).symm
    · by_cases h2 : i = c + off ∧ j = 0
      · obtain ⟨rfl, rfl⟩ := h2
        rw [C2.2 y off hly]
        exact inst_frame A v b1 hAv hd1 hv1 c' _ y _ 0 hl (Or.inr ⟨off, hly, Or.inl (by omega)⟩)
      · have n1 : i ≠ c' + off ∨ j ≠ 0 := by by_cases hj : j = 0 <;> simp_all
        have n2 : i ≠ c + off ∨ j ≠ 0 := by by_cases hj : j = 0 <;> simp_all
        rw [inst_frame A v b1 hAv hd1 hv1 c' _ y i j hl (Or.inr ⟨off, hly, n1⟩),
          inst_frame A v b2 hAv hd2 hv2 c _ y i j hl (Or.inr ⟨off, hly, n2⟩),
          inst_frame A v b2 hAv hd2 hv2 c _ y i j hl (Or.inr ⟨off, hly, n2⟩),
          inst_frame A v b1 hAv hd1 hv1 c' _ y i j hl (Or.inr ⟨off, hly, n1⟩)]
  | none =>
    by_cases hw1 : y ∈ wvars b1
    · have hnw2 : y ∉ wvars b2 := (hs12 y hw1 hly).2
      rw [C1.1 y ⟨hly, hnw2⟩ i j]
      exact (inst_frame A v b2 hAv hd2 hv2 c _ y i j hl (Or.inl ⟨hly, hnw2⟩)).symm
    · by_cases hw2 : y ∈ wvars b2
      · rw [C2.1 y ⟨hly, hw1⟩ i j]
        exact inst_frame A v b1 hAv hd1 hv1 c' _ y i j hl (Or.inl ⟨hly, hw1⟩)
      · rw [inst_frame A v b1 hAv hd1 hv1 c' _ y i j hl (Or.inl ⟨hly, hw1⟩),
          inst_frame A v b2 hAv hd2 hv2 c _ y i j hl (Or.inl ⟨hly, hw2⟩),
          inst_frame A v b2 hAv hd2 hv2 c _ y i j hl (Or.inl ⟨hly, hw2⟩),
          inst_frame A v b1 hAv hd1 hv1 c' _ y i j hl (Or.inl ⟨hly, hw1⟩)]

/-! ## interleaving two runs -/

/-- `runN A n x = A (n-1) (… (A 0 x))` -/
def runN {X : Type} (A : Nat → X → X) : Nat → X → X
  | 0, x => x
  | n + 1, x => A n (runN A n x)

section Interleave
variable {X : Type} (R : X → X → Prop) (A B : Nat → X → X)
variable (hrefl : ∀ x, R x x) (htrans : ∀ x y z, R x y → R y z → R x z)
variable (hA : ∀ k x y, R x y → A k x = A k y) (hB : ∀ k x y, R x y → B k x = B k y)

include hrefl hB in
theorem runN_congr (n : Nat) {x y : X} (h : R x y) : R (runN B n x) (runN B n y) := by
  cases n with
  | zero => exact h
  | succ n =>
    simp only [runN]
    have : ∀ m, R (runN B m x) (runN B m y) := by
      intro m
      induction m with
      | zero => exact h
      | succ m ih => simp only [runN]; rw [hB m _ _ ih]; exact hrefl _
    rw [hB n _ _ (this n)]
    exact hrefl _

include hrefl htrans hA hB in
/-- if instance `k` of the first run commutes with every earlier instance `j < k` of the second
run, running all of `A` and then all of `B` is the same as alternating them -/
theorem interleave (n : Nat)
    (hcomm : ∀ j k, j < k → k < n → ∀ x, R (B j (A k x)) (A k (B j x))) (x : X) :
    R (runN B n (runN A n x)) (runN (fun k y => B k (A k y)) n x) := by
  -- moving one `A k` past the first `m ≤ k` instances of `B`
  have move : ∀ k, k < n → ∀ m, m ≤ k → ∀ y, R (runN B m (A k y)) (A k (runN B m y)) := by
    intro k hk m
    induction m with
    | zero => intro _ y; exact hrefl _
    | succ m ih =>
      intro hm y
      simp only [runN]
      have h1 := ih (by omega) y
      rw [hB m _ _ h1]
      exact hcomm m k (by omega) hk _
  induction n with
  | zero => exact hrefl _
  | succ n ih =>
    have ih' := ih (fun j k hjk hk => hcomm j k hjk (by omega))
      (fun k hk => move k (by omega))
    simp only [runN]
    have h1 := move n (by omega) n (Nat.le_refl n) (runN A n x)
    rw [hB n _ _ h1, hA n _ _ ih']
    exact hrefl _
end Interleave

/-! ## the loops as runs of instances -/

theorem iters_eq_runN (f : Store → Store) (v : Nat) (lo s : Int) (n : Nat) (σ : Store) :
    iters f v lo s n 0 σ = runN (fun k ρ => f (ρ.set (v, 0, 0) (lo + (k : Int) * s))) n σ := by
  induction n with
  | zero => rfl
  | succ n ih =>
    rw [iters_succ_last, ih]
    simp only [runN, Int.zero_add]

theorem set_self' (τ : Store) (l : Loc) (val : Int) (h : τ l = val) : τ.set l val = τ := by
  apply Store.ext; funext l'
  rw [Store.set_apply]; split
  · rename_i hh; rw [hh, h]
  · rfl

/-- **element-level fusion**: same header, header variables stable, loop variable not assigned in
the bodies, both bodies under the access discipline of the table `A`, non-table variables
separated: the fused loop computes exactly the store of the two loops in sequence -/
theorem fuse_elem_sound (A : OffTab) (v : Nat) (lo hi st : Expr) (b1 b2 : Stmt)
    (hAv : A.lookup v = none) (hd1 : DiscS A v b1 = true) (hd2 : DiscS A v b2 = true)
    (hv1 : v ∉ wvars b1) (hv2 : v ∉ wvars b2)
    (hs12 : Separated A b1 b2) (hs21 : Separated A b2 b1)
    (hb : ∀ x, x ∈ evars lo ∨ x ∈ evars hi ∨ x ∈ evars st → x ≠ v ∧ x ∉ wvars b1) (σ : Store) :
    exec (.loop v lo hi st (.seq b1 b2)) σ = exec (.seq (.loop v lo hi st b1) (.loop v lo hi st b2)) σ := by
  generalize hlo0 : eval lo σ = lo0
  generalize hhi0 : eval hi σ = hi0
  generalize hs0 : eval st σ = s0
  generalize hn : trip lo0 hi0 s0 = n
  have hL1 : exec (.loop v lo hi st b1) σ
      = (iters (exec b1) v lo0 s0 n 0 σ).set (v, 0, 0) (lo0 + ((0 : Int) + (n : Nat)) * s0) := by
    simp only [exec, runIters_eq_iters, hlo0, hhi0, hs0, hn]
  generalize hσ1 : exec (.loop v lo hi st b1) σ = σ1 at hL1
  have hσ1σ : ∀ x i j, x ∉ wvars b1 → ((x, i, j) : Loc) ≠ (v, 0, 0) → σ1 (x, i, j) = σ (x, i, j) := by
    intro x i j hx hl
    rw [hL1, Store.set_other _ _ hl]
    exact iters_frame_loc i j hl hx lo0 s0 _ _ σ
  have hbounds : ∀ e : Expr, (∀ x ∈ evars e, x ≠ v ∧ x ∉ wvars b1) → eval e σ1 = eval e σ := by
    intro e he
    apply eval_congr (V := fun x => x ∈ evars e) (fun x hx => hx)
    intro x hx i j
    exact hσ1σ x i j (he x hx).2 (fun h => (he x hx).1 (congrArg Prod.fst h))
  have e1 : eval lo σ1 = lo0 := by rw [hbounds lo (fun x hx => hb x (Or.inl hx)), hlo0]
  have e2 : eval hi σ1 = hi0 := by rw [hbounds hi (fun x hx => hb x (Or.inr (Or.inl hx))), hhi0]
  have e3 : eval st σ1 = s0 := by rw [hbounds st (fun x hx => hb x (Or.inr (Or.inr hx))), hs0]
  have hO : exec (.seq (.loop v lo hi st b1) (.loop v lo hi st b2)) σ
      = (iters (exec b2) v lo0 s0 n 0 σ1).set (v, 0, 0) (lo0 + ((0 : Int) + (n : Nat)) * s0) := by
    show exec (.loop v lo hi st b2) (exec (.loop v lo hi st b1) σ) = _
    rw [hσ1]
    simp only [exec, runIters_eq_iters, e1, e2, e3, hn]
  have hF : exec (.loop v lo hi st (.seq b1 b2)) σ
      = (iters (exec (.seq b1 b2)) v lo0 s0 n 0 σ).set (v, 0, 0) (lo0 + ((0 : Int) + (n : Nat)) * s0) := by
    show runIters (exec (.seq b1 b2)) v (eval lo σ) (eval st σ) (trip (eval lo σ) (eval hi σ) (eval st σ)) 0 σ = _
    rw [runIters_eq_iters, hlo0, hhi0, hs0, hn]
  rw [hF, hO, iters_eq_runN, iters_eq_runN]
  -- the instances
  let IA : Nat → Store → Store := fun k => Inst1 b1 v (lo0 + (k : Int) * s0)
  let IB : Nat → Store → Store := fun k => Inst1 b2 v (lo0 + (k : Int) * s0)
  have hfused : (fun (k : Nat) ρ => exec (.seq b1 b2) (ρ.set (v, 0, 0) (lo0 + (k : Int) * s0)))
      = fun k y => IB k (IA k y) := by
    funext k ρ
    show exec b2 (exec b1 (ρ.set (v, 0, 0) (lo0 + (k : Int) * s0))) = exec b2 ((exec b1 (ρ.set (v, 0, 0) (lo0 + (k : Int) * s0))).set (v, 0, 0) (lo0 + (k : Int) * s0))
    have hself : (exec b1 (ρ.set (v, 0, 0) (lo0 + (k : Int) * s0))).set (v, 0, 0) (lo0 + (k : Int) * s0)
        = exec b1 (ρ.set (v, 0, 0) (lo0 + (k : Int) * s0)) :=
      set_self' _ _ _ (by rw [exec_frame hv1, Store.set_same])
    rw [hself]
  rw [hfused]
  have hs0ne : 0 < n → s0 ≠ 0 := by
    intro hpos hz
    rw [← hn] at hpos
    unfold trip at hpos
    rw [if_pos hz] at hpos
    omega
  have key := interleave (RV v) IA IB (RV.refl v) (fun _ _ _ => RV.trans)
    (fun k x y h => Inst1_congr b1 v _ h) (fun k x y h => Inst1_congr b2 v _ h) n
    (by
      intro j k hjk hk x
      apply inst_commute A v b2 b1 hAv hd2 hd1 hv2 hv1 hs21 hs12
      intro heq
      have h1 : (k : Int) * s0 = (j : Int) * s0 := by omega
      have := Int.eq_of_mul_eq_mul_right (hs0ne (by omega)) h1
      omega) σ
  -- the second loop starts from σ1, which differs from the result of the first run only at v
  have hσ1R : RV v σ1 (runN IA n σ) := by
    intro l hl
    rw [hL1, Store.set_other _ _ hl, iters_eq_runN]
    rfl
  have k2 := runN_congr (RV v) IB (RV.refl v) (fun k x y h => Inst1_congr b2 v _ h) n hσ1R
  have final := (k2.trans key).symm
  apply Store.ext
  funext l
  simp only [Store.set_apply]
  split
  · rfl
  · rename_i hl
    exact final l hl

/-! ## relation to `LoopFuseTrans._validate_written_array` -/

theorem mem_eVars_of_offsetOf {v : Nat} {i : Expr} {c : Int} (h : offsetOf v i = some c) : v ∈ eVars i := by
  unfold offsetOf at h
  split at h
  · split at h
    · rename_i hy; subst hy; simp [eVars]
    · cases h
  · split at h
    · rename_i hy; subst hy; simp [eVars]
    · cases h
  · split at h
    · rename_i hy; subst hy; simp [eVars]
    · cases h
  · cases h

/-- every access entry of a table array in a disciplined expression has the single subscript
`v + offset` -/
theorem eAcc_disc {A : OffTab} {v : Nat} {e : Expr} (hd : DiscE A v e = true) :
    ∀ acc ∈ eAcc e, ∀ off, A.lookup acc.x = some off → ∃ i, acc.subs = [i] ∧ offsetOf v i = some off := by
  induction e with
  | lit n => intro acc h; simp [eAcc] at h
  | var y =>
    intro acc h off ho
    simp only [eAcc, List.mem_singleton] at h; subst h
    simp only [DiscE, Option.isNone_iff_eq_none] at hd
    rw [hd] at ho; cases ho
  | idx1 a i ih =>
    simp only [DiscE, Bool.and_eq_true] at hd
    intro acc h off ho
    simp only [eAcc, List.mem_append, List.mem_singleton] at h
    rcases h with h | h
    · exact ih hd.1 acc h off ho
    · subst h
      have := hd.2; simp only [subOk, ho, beq_iff_eq] at this
      exact ⟨i, rfl, this⟩
  | idx2 a i j ihi ihj =>
    simp only [DiscE, Bool.and_eq_true, Option.isNone_iff_eq_none] at hd
    intro acc h off ho
    simp only [eAcc, List.mem_append, List.mem_singleton] at h
    rcases h with (h | h) | h
    · exact ihi hd.1.1 acc h off ho
    · exact ihj hd.1.2 acc h off ho
    · subst h; rw [hd.2] at ho; cases ho
  | un op e ih => simp only [DiscE] at hd; exact ih hd
  | bin op a b iha ihb =>
    simp only [DiscE, Bool.and_eq_true] at hd
    intro acc h off ho
    simp only [eAcc, List.mem_append] at h
    rcases h with h | h
    · exact iha hd.1 acc h off ho
    · exact ihb hd.2 acc h off ho

theorem sAcc_disc {A : OffTab} {v : Nat} {s : Stmt} (hd : DiscS A v s = true) :
    ∀ acc ∈ sAcc s, ∀ off, A.lookup acc.x = some off → ∃ i, acc.subs = [i] ∧ offsetOf v i = some off := by
  induction s with
  | skip => intro acc h; simp [sAcc] at h
  | seq a b iha ihb =>
    simp only [DiscS, Bool.and_eq_true] at hd
    intro acc h off ho
    simp only [sAcc, List.mem_append] at h
    rcases h with h | h
    · exact iha hd.1 acc h off ho
    · exact ihb hd.2 acc h off ho
  | assign y e =>
    simp only [DiscS, Bool.and_eq_true, Option.isNone_iff_eq_none] at hd
    intro acc h off ho
    simp only [sAcc, List.mem_append, List.mem_singleton] at h
    rcases h with h | h
    · exact eAcc_disc hd.2 acc h off ho
    · subst h; rw [hd.1] at ho; cases ho
  | store1 a i e =>
    simp only [DiscS, Bool.and_eq_true] at hd
    intro acc h off ho
    simp only [sAcc, List.mem_append, List.mem_singleton] at h
    rcases h with (h | h) | h
    · exact eAcc_disc hd.1.2 acc h off ho
    · exact eAcc_disc hd.1.1 acc h off ho
    · subst h
      have := hd.2; simp only [subOk, ho, beq_iff_eq] at this
      exact ⟨i, rfl, this⟩
  | store2 a i j e =>
    simp only [DiscS, Bool.and_eq_true, Option.isNone_iff_eq_none] at hd
    intro acc h off ho
    simp only [sAcc, List.mem_append, List.mem_singleton] at h
    rcases h with ((h | h) | h) | h
    · exact eAcc_disc hd.1.2 acc h off ho
    · exact eAcc_disc hd.1.1.1 acc h off ho
    · exact eAcc_disc hd.1.1.2 acc h off ho
    · subst h; rw [hd.2] at ho; cases ho
  | ite c t f iht ihf =>
    simp only [DiscS, Bool.and_eq_true] at hd
    intro acc h off ho
    simp only [sAcc, List.mem_append] at h
    rcases h with (h | h) | h
    · exact eAcc_disc hd.1.1 acc h off ho
    · exact iht hd.1.2 acc h off ho
    · exact ihf hd.2 acc h off ho
  | loop w lo hi st b ih =>
    simp only [DiscS, Bool.and_eq_true, Option.isNone_iff_eq_none] at hd
    intro acc h off ho
    simp only [sAcc, List.mem_append, List.mem_cons, List.mem_nil_iff, or_false] at h
    rcases h with (((h | h) | h) | h) | h
    · rcases h with h | h <;> (subst h; rw [hd.1.1.1.1] at ho; cases ho)
    · exact eAcc_disc hd.1.1.1.2 acc h off ho
    · exact eAcc_disc hd.1.1.2 acc h off ho
    · exact eAcc_disc hd.1.2 acc h off ho
    · exact ih hd.2 acc h off ho

/-- the model of `_validate_written_array` accepts every list of accesses that all have one
subscript of the form `v + constant`: the access discipline is a strengthening of what the code
tests (the POSITION of the loop variable) by what it does not test (the DISTANCE) -/
theorem fuseArrayCheck_of_offsets (v : Nat) (all : List Acc)
    (h : ∀ acc ∈ all, ∃ i c, acc.subs = [i] ∧ offsetOf v i = some c) : fuseArrayCheck v all = .ok () := by
  unfold fuseArrayCheck
  cases all with
  | nil => rfl
  | cons first rest =>
    simp only
    obtain ⟨i0, c0, hs0, ho0⟩ := h first (by simp)
    have hv0 := mem_eVars_of_offsetOf ho0
    obtain ⟨fx, fw, fsubs⟩ := first
    simp only at hs0
    subst hs0
    suffices H : ∀ (l : List Acc), (∀ acc ∈ l, ∃ i c, acc.subs = [i] ∧ offsetOf v i = some c) →
        List.foldl (fun (r : Except Refusal Unit) (other : Acc) =>
          match r with
          | .error e => .error e
          | .ok () =>
            let n := (([i0].zip other.subs).filter
              (fun p => decide (v ∈ eVars p.1) || decide (v ∈ eVars p.2))).length
            if n = 0 then .error .arrayNoLoopVar
            else if n > 1 then .error .arrayIndexDep
            else .ok ()) (.ok ()) l = .ok () from H _ h
    intro l
    induction l with
    | nil => intro _; rfl
    | cons a l ih =>
      intro hl
      obtain ⟨i, c, hs, _⟩ := hl a (by simp)
      simp only [List.foldl_cons, hs, List.zip_cons_cons, List.zip_nil_right, List.filter_cons,
        hv0, decide_true, Bool.true_or, if_true, List.filter_nil, List.length_singleton]
      simp only [Nat.succ_ne_zero, if_false, Nat.lt_irrefl]
      exact ih (fun acc hacc => hl acc (List.mem_cons_of_mem _ hacc))

end C05
