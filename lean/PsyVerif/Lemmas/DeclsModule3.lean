import PsyVerif.Lemmas.DeclsModule2
/-! C03, module scope: the canonical table of a clean module text has distinct names (derived from
the well-formedness of the original table, so it need not be assumed). -/
namespace Decls

variable {u : Unit} {ds : List Sym} {items : List Item}

theorem cleanFold_nodup {outer : List Name} : ∀ (l tab : List Sym), cleanFold outer tab l = true →
    (names tab).Nodup → (names (tab ++ l)).Nodup := by
  intro l
  induction l with
  | nil => intro tab _ h; simpa using h
  | cons s r ih =>
    intro tab hc hnd
    simp only [cleanFold, Bool.and_eq_true, Bool.not_eq_true'] at hc
    have hnew : s.name ∉ names tab := by
      intro hin
      have : (names tab).contains s.name = true := List.contains_iff_mem.mpr hin
      rw [hc.1.2] at this; cases this
    have h1 : (names (tab ++ [s])).Nodup := by
      simp only [names, List.map_append, List.map_cons, List.map_nil]
      exact List.Nodup.append hnd (by simp) (by
        intro x hx hx2
        rw [List.mem_singleton.mp hx2] at hx
        exact hnew hx)
    have := ih (tab ++ [s]) hc.2 h1
    simpa using this

/-- names of the `use` symbols: each is the name of a container of the list or of a symbol imported
from one of them; they are distinct -/
theorem useBlocks_nodup (w : Wf u) (v : Name → Bool) :
    ∀ cs : List Sym, (names cs).Nodup → (∀ c ∈ cs, c ∈ u.syms ∧ isContainer c = true) →
      (names (cs.flatMap (blk v fun c => isort (names (u.syms.filter fun s => s.cls == .imported c.name))))).Nodup ∧
      ∀ n ∈ names (cs.flatMap (blk v fun c => isort (names (u.syms.filter fun s => s.cls == .imported c.name)))),
        ∃ s ∈ u.syms, s.name = n ∧ (s ∈ cs ∨ ∃ c ∈ cs, s.cls = .imported c.name) := by
  intro cs
  induction cs with
  | nil => intro _ _; simp [names]
  | cons c r ih =>
    intro hnd hcs
    simp only [names, List.map_cons, List.nodup_cons] at hnd
    obtain ⟨ih1, ih2⟩ := ih hnd.2 (fun x hx => hcs x (List.mem_cons_of_mem _ hx))
    obtain ⟨hcu, hcc⟩ := hcs c (by simp)
    have hccls : ∀ c', c.cls ≠ .imported c' := by
      intro c' hc; simp [isContainer, hc] at hcc
    -- members of the import list of `c`
    have hL : ∀ n, n ∈ isort (names (u.syms.filter fun s => s.cls == .imported c.name)) →
        ∃ s ∈ u.syms, s.name = n ∧ s.cls = .imported c.name := by
      intro n hn
      rw [mem_isort] at hn
      obtain ⟨s, hsf, hsn⟩ := List.mem_map.mp hn
      obtain ⟨hs, hcl⟩ := List.mem_filter.mp hsf
      exact ⟨s, hs, hsn, by simpa using hcl⟩
    have hLnd : (isort (names (u.syms.filter fun s => s.cls == .imported c.name))).Nodup :=
      (isort_perm _).nodup_iff.mpr (names_filter_nodup w.nodup _)
    have hnames : names ((c :: r).flatMap (blk v fun c => isort (names (u.syms.filter fun s => s.cls == .imported c.name))))
        = c.name :: (isort (names (u.syms.filter fun s => s.cls == .imported c.name))
          ++ names (r.flatMap (blk v fun c => isort (names (u.syms.filter fun s => s.cls == .imported c.name))))) := by
      have hi := names_impSyms v c.name
        (isort (names (u.syms.filter fun s => s.cls == .imported c.name)))
      simp only [names] at hi
      simp only [List.flatMap_cons, blk, names, List.map_append, List.map_cons, headSym, hi,
        List.cons_append]
    rw [hnames]
    refine ⟨?_, ?_⟩
    · refine List.nodup_cons.mpr ⟨?_, List.Nodup.append hLnd ih1 ?_⟩
      · intro hin
        rcases List.mem_append.mp hin with h1 | h1
        · obtain ⟨s, hs, hsn, hcl⟩ := hL _ h1
          have := eq_of_name_eq w.nodup hs hcu hsn
          rw [this] at hcl; exact hccls _ hcl
        · obtain ⟨s, hs, hsn, hor⟩ := ih2 _ h1
          have hsc := eq_of_name_eq w.nodup hs hcu hsn
          rcases hor with h2 | ⟨c', _, hcl⟩
          · rw [hsc] at h2; exact hnd.1 (List.mem_map.mpr ⟨c, h2, rfl⟩)
          · rw [hsc] at hcl; exact hccls _ hcl
      · intro n h1 h2
        obtain ⟨s, hs, hsn, hcl⟩ := hL _ h1
        obtain ⟨s', hs', hsn', hor⟩ := ih2 _ h2
        have hss := eq_of_name_eq w.nodup hs' hs (hsn'.trans hsn.symm)
        rcases hor with h3 | ⟨c', hc', hcl'⟩
        · rw [hss] at h3
          have := (hcs s (List.mem_cons_of_mem _ h3)).2
          simp [isContainer, hcl] at this
        · rw [hss, hcl] at hcl'
          have : c.name = c'.name := by injection hcl'
          exact hnd.1 (this ▸ List.mem_map.mpr ⟨c', hc', rfl⟩)
    · intro n hn
      rcases List.mem_cons.mp hn with rfl | hn
      · exact ⟨c, hcu, rfl, Or.inl (by simp)⟩
      · rcases List.mem_append.mp hn with h1 | h1
        · obtain ⟨s, hs, hsn, hcl⟩ := hL _ h1
          exact ⟨s, hs, hsn, Or.inr ⟨c, by simp, hcl⟩⟩
        · obtain ⟨s, hs, hsn, hor⟩ := ih2 _ h1
          rcases hor with h2 | ⟨c', hc', hcl⟩
          · exact ⟨s, hs, hsn, Or.inl (List.mem_cons_of_mem _ h2)⟩
          · exact ⟨s, hs, hsn, Or.inr ⟨c', List.mem_cons_of_mem _ hc', hcl⟩⟩

/-- the routine and `use` symbols of a module text have distinct names -/
theorem routine_use_nodup (w : Wf u) (mc : ModuleCanon u) :
    (names (routineTab items u.routines ++ useTab u items)).Nodup := by
  obtain ⟨h1, h2⟩ := useBlocks_nodup w (visOf items) (u.syms.filter isContainer)
    (names_filter_nodup w.nodup isContainer) (fun c hc => List.mem_filter.mp hc)
  have hT : names (routineTab items u.routines) = u.routines := by
    simp [names, routineTab, List.map_map, Function.comp_def]
  simp only [names, List.map_append] at *
  show (List.map (·.name) (routineTab items u.routines) ++ List.map (·.name) (useTab u items)).Nodup
  have hT' : List.map (·.name) (routineTab items u.routines) = u.routines := hT
  rw [hT']
  refine List.Nodup.append mc.routinesNodup h1 ?_
  intro n hn1 hn2
  obtain ⟨s0, hs0, hsn0, hsk, _⟩ := mc.routinesHave n hn1
  obtain ⟨s, hs, hsn, hor⟩ := h2 n hn2
  have hss := eq_of_name_eq w.nodup hs hs0 (hsn.trans hsn0.symm)
  rcases hor with h3 | ⟨c, _, hcl⟩
  · have := (List.mem_filter.mp h3).2
    rw [hss] at this
    simp [isContainer, hsk] at this
  · rw [hss, hsk] at hcl; cases hcl

/-- **the canonical table of a clean module text has distinct names** -/
theorem canon_nodup (w : Wf u) (mc : ModuleCanon u) (h : ModText u ds items)
    (hclean : cleanText u.outer u.args items = true) : (names (canonSyms items)).Nodup := by
  unfold cleanText at hclean
  simp only [Bool.and_eq_true] at hclean
  obtain ⟨⟨⟨⟨_, hc1⟩, hc2⟩, _⟩, _⟩ := hclean
  have ht1 : ((routinesOf items).map fun n => ({ name := n, cls := .skipped, routine := true, pub := visOf items n } : Sym))
      ++ useSyms items items = routineTab items u.routines ++ useTab u items := by
    unfold routineTab useTab; rw [h.routines, h.uses]
  rw [ht1] at hc1 hc2
  have n1 := cleanFold_nodup _ _ hc1 (routine_use_nodup w mc)
  have n2 := cleanFold_nodup _ _ hc2 n1
  have : canonSyms items = routineTab items u.routines ++ useTab u items ++ (declsOf items).filter isDtype
      ++ (declsOf items).filter (fun s => !isDtype s) := by
    unfold canonSyms; rw [ht1]
  rw [this]; exact n2

end Decls
