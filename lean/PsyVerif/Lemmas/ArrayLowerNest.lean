import PsyVerif.Lemmas.ArrayLowerRed
/-! # C06 lemmas: loop nests (MATMUL, rank-2 array assignment), sliced DOT_PRODUCT, ArrayAccess2Loop -/
namespace C06
open MiniF

/-- generic loop lemma: if every iteration `p` takes a store that agrees (on `V`, which excludes the loop
variable) with `W p` to one that agrees with `W (p+1)`, then `n` iterations take `W 0` to `W n`. -/
theorem loop_steps (body : Stmt) (v : Nat) (lo : Int) (V : Nat → Prop) (W : Nat → Store)
    (hstep : ∀ (p : Nat) (τ : Store), AgreeOn V τ (W p) →
      AgreeOn V (exec body (τ.set (v, 0, 0) (lo + p * 1))) (W (p + 1))) (σ : Store) (h0 : AgreeOn V σ (W 0)) :
    ∀ n, AgreeOn V (iters (exec body) v lo 1 n 0 σ) (W n) := by
  intro n
  induction n with
  | zero => exact h0
  | succ n ih =>
    rw [iters_succ_last]
    simp only [Int.zero_add]
    exact hstep n _ ih

theorem exec_loop_lit (v : Nat) (lo hi : Int) (body : Stmt) (σ : Store) :
    exec (.loop v (.lit lo) (.lit hi) (.lit 1) body) σ
      = (iters (exec body) v lo 1 (trip lo hi 1) 0 σ).set (v, 0, 0) (lo + (0 + (trip lo hi 1 : Nat)) * 1) := by
  simp only [exec, eval, runIters_eq_iters]

/-! ## ArrayAccess2LoopTrans -/

theorem trip_single (e : Int) : trip e e 1 = 1 := by
  simp [trip]

theorem arrayaccess2loop_sound (idx : Nat) (a : AccIn) (hidx : idx ∉ a.arr :: (vars a.index ++ vars a.rhs))
    (hhole : a.hole ∉ arrs a.rhs) (σ : Store) :
    AgreeOn (fun y => y ≠ idx) (exec (applyAcc idx a) σ) (exec (accOrig a) σ) := by
  simp only [List.mem_cons, List.mem_append, not_or] at hidx
  intro y hy i j
  simp only [applyAcc, accOrig, exec, eval, runIters_eq_iters, trip_single, iters, Int.zero_mul, Int.add_zero]
  rw [Store.set_other _ _ (loc_ne i j hy)]
  simp only [Store.set_same]
  rw [eval_subst _ _ _ _ hhole, eval_subst _ _ _ _ hhole]
  simp only [eval, Store.set_same]
  have hag : AgreeOn (fun y => y ≠ idx) ((σ.set (idx, 0, 0) (eval a.index σ)).set (a.hole, 0, 0) (eval a.index σ))
      (σ.set (a.hole, 0, 0) (eval a.index σ)) := by
    apply AgreeOn.set
    intro y hy i j
    rw [Store.set_other _ _ (loc_ne i j hy)]
  rw [eval_agree (e := a.rhs) (V := fun y => y ≠ idx) (fun x hx (h : x = idx) => hidx.2.2 (h ▸ hx)) hag]
  simp only [Store.set_apply]
  split
  · rfl
  · rw [if_neg (loc_ne i j hy)]

/-! ## Reference2ArrayRangeTrans -/

theorem ref2range_sound (v : Vec) (σ : Store) :
    (ref2range v).count σ = v.count ∧ ∀ k : Int, (ref2range v).at σ k = v.at σ k := by
  constructor
  · rfl
  · intro k; simp [ref2range, Sec.at, Sec.loc, Vec.at, eval]


/-- the reduction that the DOT_PRODUCT loop is an instance of -/
def dotRed (s1 s2 : Sec) : RedIn :=
  ⟨.sum, .bin .mul (.sec s1) (.sec s2), none, false, .sc 0, 0, .var 0, 0⟩

theorem dotCodeS_eq (res i : Nat) (s1 s2 : Sec) (h1 : s1.st = .lit 1) (h2 : s2.st = .lit 1) (hlo : s2.lo = s1.lo) :
    dotCodeS res i s1 s2
      = .seq ((Tgt.sc res).assign ((dotRed s1 s2).kind.init (dotRed s1 s2).huge)) (redLoop i (dotRed s1 s2) s1 (.sc res)) := by
  simp [dotCodeS, dotRed, redLoop, RedKind.init, RedKind.op, Tgt.assign, Tgt.ref, AExpr.lower, idxExpr, h1, h2, hlo]

theorem redVal_dotRed (s1 s2 : Sec) (σ : Store) : redVal (dotRed s1 s2) s1 σ = dotValS s1 s2 σ := by
  simp only [redVal, dotValS, dotRed, RedKind.op, RedKind.initVal, AExpr.evalAt, evalBin]
  rfl

/-- **DOT_PRODUCT with sliced operands (partial)**: sound when both operands start at the same lower bound -/
theorem dotS_sound_partial (res i : Nat) (s1 s2 : Sec) (s : Asg)
    (h1 : s1.st = .lit 1) (h2 : s2.st = .lit 1) (hlo : s2.lo = s1.lo)
    (hres : res ∉ s1.arr :: s2.arr :: (s1.svars ++ s2.svars)) (hri : res ≠ i)
    (hi : i ∉ s1.arr :: s2.arr :: (s1.svars ++ s2.svars)) (his : i ∉ s.vars) (σ : Store) :
    AgreeOn (fun y => y ≠ i) (exec (dot2codeS res i s1 s2 s) σ) (execDotOrigS res s1 s2 s σ) := by
  simp only [List.mem_cons, List.mem_append, not_or] at hres hi
  simp only [dot2codeS, execDotOrigS]
  rw [show ∀ a b, exec (Stmt.seq a b) σ = exec b (exec a σ) from fun _ _ => rfl]
  apply Asg.exec_agree (V := fun y => y ≠ i) (fun y hy h => his (h ▸ hy))
  rw [dotCodeS_eq res i s1 s2 h1 h2 hlo, ← redVal_dotRed]
  have := red_core i (dotRed s1 s2) s1 (.sc res) σ (by simp [dotRed, AExpr.secs])
    (by intro s hs; simp only [dotRed, AExpr.secs, List.cons_append, List.nil_append, List.mem_cons, List.mem_nil_iff, or_false] at hs
        rcases hs with h | h <;> subst h <;> simp [h1, h2])
    (by intro s hs; simp [dotRed, maskSecs] at hs)
    (by simp only [dotRed, AExpr.allvars, maskVars, Tgt.sym, Tgt.ivars, List.append_nil, List.mem_append, List.mem_cons, not_or]
        exact ⟨⟨hres.1, fun h => by simp only [Sec.svars] at h; exact hres.2.2.1 h⟩, hres.2.1, fun h => hres.2.2.2 h⟩)
    hri
    (by simp only [dotRed, AExpr.allvars, maskVars, Tgt.ivars, List.append_nil, List.mem_append, List.mem_cons, not_or]
        exact ⟨⟨hi.1, fun h => hi.2.2.1 h⟩, hi.2.1, fun h => hi.2.2.2 h⟩)
  exact this


theorem trip_one (lo hi : Int) : trip lo hi 1 = (hi - lo + 1).toNat := by
  simp [trip, Int.tdiv_one]

def mvSecA (i : Nat) (a : Mat) : Sec := ⟨a.arr, .col (.var i), .lit a.lb2, .lit a.ub2, .lit 1⟩
def mvSecX (x : Vec) : Sec := ⟨x.arr, .r1, .lit x.lb, .lit x.ub, .lit 1⟩
def mvRed (i : Nat) (a : Mat) (x : Vec) : RedIn :=
  ⟨.sum, .bin .mul (.sec (mvSecA i a)) (.sec (mvSecX x)), none, false, .sc 0, 0, .var 0, 0⟩

theorem matvecCode_eq (i j : Nat) (r : Vec) (a : Mat) (x : Vec) (hx : x.lb = a.lb2) :
    matvecCode i j r a x = .loop i (.lit a.lb1) (.lit a.ub1) (.lit 1)
      (.seq ((Tgt.e1 r.arr (.var i)).assign ((mvRed i a x).kind.init (mvRed i a x).huge))
        (redLoop j (mvRed i a x) (mvSecX x) (.e1 r.arr (.var i)))) := by
  simp [matvecCode, mvRed, mvSecA, mvSecX, redLoop, RedKind.init, RedKind.op, Tgt.assign, Tgt.ref, AExpr.lower,
    idxExpr, Sec.ref, hx]

theorem matvec_sound_partial (i j : Nat) (r : Vec) (a : Mat) (x : Vec) (hal : matvecAligned r a x = true)
    (hij : i ≠ j) (hr : r.arr ≠ a.arr ∧ r.arr ≠ x.arr)
    (hi : i ≠ r.arr ∧ i ≠ a.arr ∧ i ≠ x.arr) (hj : j ≠ r.arr ∧ j ≠ a.arr ∧ j ≠ x.arr) (σ : Store) :
    AgreeOn (fun y => y ≠ i ∧ y ≠ j) (exec (matvecCode i j r a x) σ) (execMatvec r a x σ) := by
  simp only [matvecAligned, Bool.and_eq_true, decide_eq_true_eq] at hal
  obtain ⟨⟨hrl, hxl⟩, hext⟩ := hal
  rw [matvecCode_eq i j r a x hxl, exec_loop_lit]
  intro y hy b c
  rw [Store.set_other _ _ (loc_ne b c hy.1)]
  refine loop_steps _ i a.lb1 (fun y => y ≠ i ∧ y ≠ j)
    (fun p => writeVals (fun p => (r.arr, r.lb + p, 0)) (fun p => matvecVal a x σ p) p σ) ?_ σ (AgreeOn.refl _ _) _ y hy b c
  intro p τ hτ
  generalize hτ' : τ.set (i, 0, 0) (a.lb1 + p * 1) = τ'
  have hτi : τ' (i, 0, 0) = a.lb1 + p := by rw [← hτ', Store.set_same]; omega
  have hτ'W : AgreeOn (fun y => y ≠ i ∧ y ≠ j) τ'
      (writeVals (fun p => (r.arr, r.lb + p, 0)) (fun p => matvecVal a x σ p) p σ) := by
    intro y hy b c
    rw [← hτ', Store.set_other _ _ (loc_ne b c hy.1)]; exact hτ y hy b c
  have hσ : ∀ (z : Nat) (b c : Int), z ≠ i → z ≠ j → z ≠ r.arr → τ' (z, b, c) = σ (z, b, c) := by
    intro z b c h1 h2 h3
    rw [hτ'W z ⟨h1, h2⟩ b c]
    apply writeVals_other
    intro k _ h; exact h3 (congrArg Prod.fst h).symm
  have hcore := red_core j (mvRed i a x) (mvSecX x) (.e1 r.arr (.var i)) τ'
    (by simp [mvRed, AExpr.secs])
    (by intro s hs; simp only [mvRed, AExpr.secs, List.cons_append, List.nil_append, List.mem_cons, List.mem_nil_iff, or_false] at hs
        rcases hs with h | h <;> subst h <;> simp [mvSecA, mvSecX])
    (by intro s hs; simp [mvRed, maskSecs] at hs)
    (by simp [mvRed, mvSecA, mvSecX, AExpr.allvars, Sec.svars, Fix.vars, vars, maskVars, Tgt.sym, Tgt.ivars,
          hr.1, hr.2, Ne.symm hi.1])
    (Ne.symm hj.1)
    (by simp [mvRed, mvSecA, mvSecX, AExpr.allvars, Sec.svars, Fix.vars, vars, maskVars, Tgt.ivars,
          hj.2.1, hj.2.2, Ne.symm hij])
  have hval : redVal (mvRed i a x) (mvSecX x) τ' = matvecVal a x σ p := by
    simp only [redVal, matvecVal, mvRed, mvSecA, mvSecX, RedKind.op, RedKind.initVal, AExpr.evalAt, evalBin,
      Sec.at, Sec.loc, Sec.count, eval, hτi, trip_one]
    have hn : (x.ub - x.lb + 1).toNat = (a.ub2 - a.lb2 + 1).toNat := by rw [hext]
    rw [hn]
    congr 1
    funext k
    rw [hσ a.arr _ _ (Ne.symm hi.2.1) (Ne.symm hj.2.1) (Ne.symm hr.1),
      hσ x.arr _ _ (Ne.symm hi.2.2) (Ne.symm hj.2.2) (Ne.symm hr.2)]
    simp [Int.mul_one, hxl]
  have hloc : (Tgt.e1 r.arr (.var i)).loc τ' = (r.arr, r.lb + p, 0) := by
    simp only [Tgt.loc, eval, hτi, hrl]
  rw [hval, hloc] at hcore
  intro y hy b c
  rw [hcore y hy.2 b c]
  simp only [writeVals, Store.set_apply]
  split
  · rfl
  · exact hτ'W y hy b c


theorem writeVals_agree (f : Int → Loc) (g : Int → Int) (V : Nat → Prop) (σ τ : Store) (h : AgreeOn V σ τ) (n : Nat) :
    AgreeOn V (writeVals f g n σ) (writeVals f g n τ) := by
  induction n with
  | zero => exact h
  | succ n ih => exact ih.set _ _

theorem matmatCols_other (r a b : Mat) (σ : Store) (q : Nat) (z : Nat) (c d : Int) (hz : z ≠ r.arr) :
    matmatCols r a b σ q (z, c, d) = σ (z, c, d) := by
  induction q with
  | zero => rfl
  | succ q ih =>
    simp only [matmatCols]
    rw [writeVals_other]
    · exact ih
    · intro k _ h; exact hz (congrArg Prod.fst h).symm

def mmSecA (i : Nat) (a : Mat) : Sec := ⟨a.arr, .col (.var i), .lit a.lb2, .lit a.ub2, .lit 1⟩
def mmSecB (j : Nat) (b : Mat) : Sec := ⟨b.arr, .row (.var j), .lit b.lb1, .lit b.ub1, .lit 1⟩
def mmRed (i j : Nat) (a b : Mat) : RedIn :=
  ⟨.sum, .bin .mul (.sec (mmSecA i a)) (.sec (mmSecB j b)), none, false, .sc 0, 0, .var 0, 0⟩

/-- the `i` loop with its body -/
def mmColLoop (i j ii : Nat) (r a b : Mat) : Stmt :=
  .loop i (.lit a.lb1) (.lit a.ub1) (.lit 1)
    (.seq ((Tgt.e2 r.arr (.var i) (.var j)).assign ((mmRed i j a b).kind.init (mmRed i j a b).huge))
      (redLoop ii (mmRed i j a b) (mmSecA i a) (.e2 r.arr (.var i) (.var j))))

theorem matmatCode_eq (i j ii : Nat) (r a b : Mat) (hb : b.lb1 = a.lb2) :
    matmatCode i j ii r a b = .loop j (.lit b.lb2) (.lit b.ub2) (.lit 1) (mmColLoop i j ii r a b) := by
  simp [matmatCode, mmColLoop, mmRed, mmSecA, mmSecB, redLoop, RedKind.init, RedKind.op, Tgt.assign, Tgt.ref,
    AExpr.lower, idxExpr, Sec.ref, hb]

/-- one column: the `i` loop started in a store `τ2` whose `j` is column `q` writes column `q` of the result -/
theorem matmat_col (i j ii : Nat) (r a b : Mat) (hrl1 : r.lb1 = a.lb1) (hrl2 : r.lb2 = b.lb2)
    (hne : i ≠ j ∧ i ≠ ii ∧ j ≠ ii) (hr : r.arr ≠ a.arr ∧ r.arr ≠ b.arr)
    (hi : i ≠ r.arr ∧ i ≠ a.arr ∧ i ≠ b.arr) (hj : j ≠ r.arr ∧ j ≠ a.arr ∧ j ≠ b.arr)
    (hii : ii ≠ r.arr ∧ ii ≠ a.arr ∧ ii ≠ b.arr) (σ τ2 : Store) (q : Nat)
    (hτ2j : τ2 (j, 0, 0) = b.lb2 + q)
    (hτ2 : ∀ z c d, z ≠ r.arr → z ≠ i → z ≠ j → z ≠ ii → τ2 (z, c, d) = σ (z, c, d)) :
    AgreeOn (fun y => y ≠ i ∧ y ≠ ii) (exec (mmColLoop i j ii r a b) τ2)
      (writeVals (fun p => (r.arr, r.lb1 + p, r.lb2 + q)) (fun p => matmatVal a b σ p q) (trip a.lb1 a.ub1 1) τ2) := by
  simp only [mmColLoop]
  rw [exec_loop_lit]
  intro y hy c d
  rw [Store.set_other _ _ (loc_ne c d hy.1)]
  refine loop_steps _ i a.lb1 (fun y => y ≠ i ∧ y ≠ ii)
    (fun p => writeVals (fun p => (r.arr, r.lb1 + p, r.lb2 + q)) (fun p => matmatVal a b σ p q) p τ2) ?_ τ2
    (AgreeOn.refl _ _) _ y hy c d
  intro p τ hτ
  generalize hτ' : τ.set (i, 0, 0) (a.lb1 + p * 1) = τ'
  have hτi : τ' (i, 0, 0) = a.lb1 + p := by rw [← hτ', Store.set_same]; omega
  have hτ'W : AgreeOn (fun y => y ≠ i ∧ y ≠ ii) τ'
      (writeVals (fun p => (r.arr, r.lb1 + p, r.lb2 + q)) (fun p => matmatVal a b σ p q) p τ2) := by
    intro y hy c d
    rw [← hτ', Store.set_other _ _ (loc_ne c d hy.1)]; exact hτ y hy c d
  have hnotr : ∀ (z : Nat) (c d : Int), z ≠ i → z ≠ ii → z ≠ r.arr → τ' (z, c, d) = τ2 (z, c, d) := by
    intro z c d h1 h2 h3
    rw [hτ'W z ⟨h1, h2⟩ c d]
    apply writeVals_other
    intro k _ h; exact h3 (congrArg Prod.fst h).symm
  have hτj : τ' (j, 0, 0) = b.lb2 + q := by
    rw [hnotr j 0 0 (Ne.symm hne.1) hne.2.2 hj.1, hτ2j]
  have hcore := red_core ii (mmRed i j a b) (mmSecA i a) (.e2 r.arr (.var i) (.var j)) τ'
    (by simp [mmRed, AExpr.secs])
    (by intro s hs; simp only [mmRed, AExpr.secs, List.cons_append, List.nil_append, List.mem_cons, List.mem_nil_iff, or_false] at hs
        rcases hs with h | h <;> subst h <;> simp [mmSecA, mmSecB])
    (by intro s hs; simp [mmRed, maskSecs] at hs)
    (by simp [mmRed, mmSecA, mmSecB, AExpr.allvars, Sec.svars, Fix.vars, vars, maskVars, Tgt.sym, Tgt.ivars,
          hr.1, hr.2, Ne.symm hi.1, Ne.symm hj.1])
    (Ne.symm hii.1)
    (by simp [mmRed, mmSecA, mmSecB, AExpr.allvars, Sec.svars, Fix.vars, vars, maskVars, Tgt.ivars,
          hii.2.1, hii.2.2, Ne.symm hne.2.1, Ne.symm hne.2.2])
  have hval : redVal (mmRed i j a b) (mmSecA i a) τ' = matmatVal a b σ p q := by
    simp only [redVal, matmatVal, mmRed, mmSecA, mmSecB, RedKind.op, RedKind.initVal, AExpr.evalAt, evalBin,
      Sec.at, Sec.loc, Sec.count, eval, hτi, hτj]
    congr 1
    funext k
    rw [hnotr a.arr _ _ (Ne.symm hi.2.1) (Ne.symm hii.2.1) (Ne.symm hr.1),
      hnotr b.arr _ _ (Ne.symm hi.2.2) (Ne.symm hii.2.2) (Ne.symm hr.2),
      hτ2 a.arr _ _ (Ne.symm hr.1) (Ne.symm hi.2.1) (Ne.symm hj.2.1) (Ne.symm hii.2.1),
      hτ2 b.arr _ _ (Ne.symm hr.2) (Ne.symm hi.2.2) (Ne.symm hj.2.2) (Ne.symm hii.2.2)]
    simp [Int.mul_one]
  have hloc : (Tgt.e2 r.arr (.var i) (.var j)).loc τ' = (r.arr, r.lb1 + p, r.lb2 + q) := by
    simp only [Tgt.loc, eval, hτi, hτj, hrl1, hrl2]
  rw [hval, hloc] at hcore
  intro y hy c d
  rw [hcore y hy.2 c d]
  simp only [writeVals, Store.set_apply]
  split
  · rfl
  · exact hτ'W y hy c d

theorem matmat_sound_partial (i j ii : Nat) (r a b : Mat) (hal : matmatAligned r a b = true)
    (hne : i ≠ j ∧ i ≠ ii ∧ j ≠ ii) (hr : r.arr ≠ a.arr ∧ r.arr ≠ b.arr)
    (hi : i ≠ r.arr ∧ i ≠ a.arr ∧ i ≠ b.arr) (hj : j ≠ r.arr ∧ j ≠ a.arr ∧ j ≠ b.arr)
    (hii : ii ≠ r.arr ∧ ii ≠ a.arr ∧ ii ≠ b.arr) (σ : Store) :
    AgreeOn (fun y => y ≠ i ∧ y ≠ j ∧ y ≠ ii) (exec (matmatCode i j ii r a b) σ) (execMatmat r a b σ) := by
  simp only [matmatAligned, Bool.and_eq_true, decide_eq_true_eq] at hal
  obtain ⟨⟨⟨hrl1, hrl2⟩, hbl⟩, _⟩ := hal
  rw [matmatCode_eq i j ii r a b hbl, exec_loop_lit]
  intro y hy c d
  rw [Store.set_other _ _ (loc_ne c d hy.2.1)]
  refine loop_steps _ j b.lb2 (fun y => y ≠ i ∧ y ≠ j ∧ y ≠ ii) (fun q => matmatCols r a b σ q) ?_ σ
    (AgreeOn.refl _ _) _ y hy c d
  intro q τ hτ
  generalize hτ2 : τ.set (j, 0, 0) (b.lb2 + q * 1) = τ2
  have hj2 : τ2 (j, 0, 0) = b.lb2 + q := by rw [← hτ2, Store.set_same]; omega
  have hτ2W : AgreeOn (fun y => y ≠ i ∧ y ≠ j ∧ y ≠ ii) τ2 (matmatCols r a b σ q) := by
    intro y hy c d
    rw [← hτ2, Store.set_other _ _ (loc_ne c d hy.2.1)]; exact hτ y hy c d
  have hcol := matmat_col i j ii r a b hrl1 hrl2 hne hr hi hj hii σ τ2 q hj2
    (by intro z c d h1 h2 h3 h4
        rw [hτ2W z ⟨h2, h3, h4⟩ c d, matmatCols_other _ _ _ _ _ _ _ _ h1])
  intro y hy c d
  rw [hcol y ⟨hy.1, hy.2.2⟩ c d]
  simp only [matmatCols]
  exact writeVals_agree _ _ _ _ _ hτ2W _ y hy c d

theorem loop_steps' (body : Stmt) (v : Nat) (lo st : Int) (V : Nat → Prop) (W : Nat → Store)
    (hstep : ∀ (p : Nat) (τ : Store), AgreeOn V τ (W p) →
      AgreeOn V (exec body (τ.set (v, 0, 0) (lo + p * st))) (W (p + 1))) (σ : Store) (h0 : AgreeOn V σ (W 0)) :
    ∀ n, AgreeOn V (iters (exec body) v lo st n 0 σ) (W n) := by
  intro n
  induction n with
  | zero => exact h0
  | succ n ih =>
    rw [iters_succ_last]
    simp only [Int.zero_add]
    exact hstep n _ ih

theorem validateAA_ok (a : AAIn) (hv : validateAA a = none) (hno : a.allowOverlap = false) :
    (∀ s ∈ a.rhs.secs, s.st = a.lhs.st) ∧
    (∀ s ∈ a.rhs.secs, s.arr = a.lhs.arr → s.fix.kind = a.lhs.fix.kind ∧ s.lo = a.lhs.lo) ∧
    a.lhs.arr ∉ a.rhs.svars ++ a.lhs.svars := by
  unfold validateAA at hv
  split at hv; · simp at hv
  split at hv; · simp at hv
  split at hv; · simp at hv
  rename_i h1 h2 h3
  simp only [hno, Bool.not_false, Bool.true_and, Bool.not_eq_true', Bool.not_eq_false] at h3
  simp only [Bool.not_eq_true', Bool.not_eq_false, strideOK, List.all_eq_true, decide_eq_true_eq] at h2
  simp only [overlapOK, Bool.and_eq_true, List.all_eq_true, Bool.or_eq_true, bne_iff_ne, ne_eq,
    Bool.not_eq_true', List.contains_eq_mem, decide_eq_false_iff_not] at h3
  refine ⟨h2, ?_, h3.2⟩
  intro s hs harr
  rcases h3.1 s hs with h | h
  · exact absurd harr h
  · simp only [sameRanges, Bool.and_eq_true, beq_iff_eq, decide_eq_true_eq] at h
    exact ⟨h.1.1.1, h.1.1.2⟩

/-- rank-1 array assignment (the statement of `C06_arrayassign_sound`, available to the loop-nest proofs) -/
theorem arrayassign_sound_core (idx : Nat) (a : AAIn) (hv : validateAA a = none)
    (hno : a.allowOverlap = false) (hidx : idx ∉ a.lhs.arr :: (a.lhs.svars ++ a.rhs.allvars))
    (σ : Store) : AgreeOn (fun y => y ≠ idx) (exec (applyAA idx a) σ) (execAA a σ) := by
  obtain ⟨hstride, hsame, hsc⟩ := validateAA_ok a hv hno
  intro y hy i j
  simp only [applyAA, exec, runIters_eq_iters, execAA, Sec.count]
  rw [Store.set_other _ _ (loc_ne i j hy)]
  by_cases hst : eval a.lhs.st σ = 0
  · simp [trip, hst, iters, writeVals]
  · exact applyAA_iters idx a σ hstride hsame hsc hidx hst _ y hy i j


theorem arrayassign_sound_props (idx : Nat) (a : AAIn)
    (hstride : ∀ s ∈ a.rhs.secs, s.st = a.lhs.st)
    (hsame : ∀ s ∈ a.rhs.secs, s.arr = a.lhs.arr → s.fix.kind = a.lhs.fix.kind ∧ s.lo = a.lhs.lo)
    (hsc : a.lhs.arr ∉ a.rhs.svars ++ a.lhs.svars)
    (hidx : idx ∉ a.lhs.arr :: (a.lhs.svars ++ a.rhs.allvars))
    (σ : Store) : AgreeOn (fun y => y ≠ idx) (exec (applyAA idx a) σ) (execAA a σ) := by
  intro y hy i j
  simp only [applyAA, exec, runIters_eq_iters, execAA, Sec.count]
  rw [Store.set_other _ _ (loc_ne i j hy)]
  by_cases hst : eval a.lhs.st σ = 0
  · simp [trip, hst, iters, writeVals]
  · exact applyAA_iters idx a σ hstride hsame hsc hidx hst _ y hy i j

theorem validateAA2_ok (a : AAIn2) (hv : validateAA2 a = none) :
    (∀ s ∈ a.rhs.secs, s.st1 = a.lhs.st1 ∧ s.st2 = a.lhs.st2) ∧
    (∀ s ∈ a.rhs.secs, s.arr = a.lhs.arr → s.lo1 = a.lhs.lo1 ∧ s.lo2 = a.lhs.lo2) ∧
    a.lhs.arr ∉ a.rhs.svars ++ a.lhs.svars := by
  unfold validateAA2 at hv
  split at hv; · simp at hv
  split at hv; · simp at hv
  rename_i h2 h3
  simp only [Bool.not_eq_true', Bool.not_eq_false, strideOK2, List.all_eq_true, Bool.and_eq_true,
    decide_eq_true_eq] at h2
  simp only [Bool.not_eq_true', Bool.not_eq_false, overlapOK2, Bool.and_eq_true, List.all_eq_true, Bool.or_eq_true,
    bne_iff_ne, ne_eq, List.contains_eq_mem, decide_eq_false_iff_not, decide_eq_true_eq] at h3
  refine ⟨h2, ?_, by simpa using h3.2⟩
  intro s hs harr
  rcases h3.1 s hs with h | h
  · exact absurd harr h
  · simp only [sameRanges2, Bool.and_eq_true, decide_eq_true_eq] at h
    exact ⟨h.1.1.1.1.1, h.1.1.2⟩

theorem AExpr2.rows_secs (e : AExpr2) (idx2 : Nat) (l : Sec2) :
    (e.rows idx2 l).secs = e.secs.map (fun s => s.row idx2 l) := by
  induction e with
  | sc x => rfl
  | sec s => rfl
  | un op a ih => simpa [AExpr2.rows, AExpr.secs, AExpr2.secs] using ih
  | bin op a b iha ihb => simp [AExpr2.rows, AExpr.secs, AExpr2.secs, iha, ihb]

theorem vars_idxExpr' (idx : Nat) (llo lst slo sst : Expr) (x : Nat) (hx : x ∈ vars (idxExpr' idx llo lst slo sst)) :
    x = idx ∨ x ∈ vars slo ∨ x ∈ vars llo := by
  unfold idxExpr' at hx
  split at hx
  · simp [vars] at hx; exact Or.inl hx
  · simp only [vars, List.mem_append, List.mem_cons, List.not_mem_nil, or_false] at hx
    rcases hx with h | h | h
    · exact Or.inl h
    · exact Or.inr (Or.inl h)
    · exact Or.inr (Or.inr h)

theorem Sec2.row_svars (s l : Sec2) (idx2 : Nat) (x : Nat) (hx : x ∈ (s.row idx2 l).svars) :
    x = idx2 ∨ x ∈ s.svars ∨ x ∈ l.svars := by
  simp only [Sec2.row, Sec.svars, Fix.vars, List.mem_append] at hx
  rcases hx with h | h | h | h
  · rcases vars_idxExpr' _ _ _ _ _ _ h with h | h | h
    · exact Or.inl h
    · exact Or.inr (Or.inl (by simp [Sec2.svars, h]))
    · exact Or.inr (Or.inr (by simp [Sec2.svars, h]))
  · exact Or.inr (Or.inl (by simp [Sec2.svars, h]))
  · exact Or.inr (Or.inl (by simp [Sec2.svars, h]))
  · exact Or.inr (Or.inl (by simp [Sec2.svars, h]))

theorem AExpr2.rows_svars (e : AExpr2) (l : Sec2) (idx2 : Nat) (x : Nat) (hx : x ∈ (e.rows idx2 l).svars) :
    x = idx2 ∨ x ∈ e.svars ∨ x ∈ l.svars := by
  induction e with
  | sc y => exact Or.inr (Or.inl hx)
  | sec s => exact Sec2.row_svars s l idx2 x hx
  | un op a ih => exact ih hx
  | bin op a b iha ihb =>
    simp only [AExpr2.rows, AExpr.svars, AExpr2.svars, List.mem_append] at hx ⊢
    rcases hx with h | h
    · rcases iha h with h | h | h
      · exact Or.inl h
      · exact Or.inr (Or.inl (Or.inl h))
      · exact Or.inr (Or.inr h)
    · rcases ihb h with h | h | h
      · exact Or.inl h
      · exact Or.inr (Or.inl (Or.inr h))
      · exact Or.inr (Or.inr h)

theorem AExpr2.rows_allvars (e : AExpr2) (l : Sec2) (idx2 : Nat) (x : Nat) (hx : x ∈ (e.rows idx2 l).allvars) :
    x = idx2 ∨ x ∈ e.allvars ∨ x ∈ l.svars := by
  induction e with
  | sc y => exact Or.inr (Or.inl hx)
  | sec s =>
    simp only [AExpr2.rows, AExpr.allvars, List.mem_cons] at hx
    rcases hx with h | h
    · exact Or.inr (Or.inl (by simp [AExpr2.allvars, Sec2.row, h]))
    · rcases Sec2.row_svars s l idx2 x h with h | h | h
      · exact Or.inl h
      · exact Or.inr (Or.inl (by simp [AExpr2.allvars, h]))
      · exact Or.inr (Or.inr h)
  | un op a ih => exact ih hx
  | bin op a b iha ihb =>
    simp only [AExpr2.rows, AExpr.allvars, AExpr2.allvars, List.mem_append] at hx ⊢
    rcases hx with h | h
    · rcases iha h with h | h | h
      · exact Or.inl h
      · exact Or.inr (Or.inl (Or.inl h))
      · exact Or.inr (Or.inr h)
    · rcases ihb h with h | h | h
      · exact Or.inl h
      · exact Or.inr (Or.inl (Or.inr h))
      · exact Or.inr (Or.inr h)

theorem AExpr2.svars_sub_allvars (e : AExpr2) (x : Nat) (hx : x ∈ e.svars) : x ∈ e.allvars := by
  induction e with
  | sc e => exact hx
  | sec s => simp only [AExpr2.svars] at hx; simp [AExpr2.allvars, hx]
  | un op e ih => exact ih hx
  | bin op p q ihp ihq =>
    simp only [AExpr2.svars, AExpr2.allvars, List.mem_append] at hx ⊢
    rcases hx with h | h
    · exact Or.inl (ihp h)
    · exact Or.inr (ihq h)

theorem AExpr2.secs_allvars (e : AExpr2) (s : Sec2) (hs : s ∈ e.secs) (x : Nat) (hx : x ∈ s.arr :: s.svars) :
    x ∈ e.allvars := by
  induction e with
  | sc e => simp [AExpr2.secs] at hs
  | sec s' => simp only [AExpr2.secs, List.mem_singleton] at hs; subst hs; exact hx
  | un op e ih => exact ih hs
  | bin op p q ihp ihq =>
    simp only [AExpr2.secs, AExpr2.allvars, List.mem_append] at hs ⊢
    rcases hs with h | h
    · exact Or.inl (ihp h)
    · exact Or.inr (ihq h)

/-- the rows of the rank-2 expression, evaluated in the store of outer iteration `q`, are column `q` -/
theorem rows_evalAt (e : AExpr2) (l : Sec2) (idx2 : Nat) (σ τ : Store) (q : Nat) (p : Int) (V : Nat → Prop)
    (hstride : ∀ s ∈ e.secs, s.st2 = l.st2)
    (hidx : τ (idx2, 0, 0) = eval l.lo2 σ + q * eval l.st2 σ)
    (hV : ∀ x ∈ e.svars ++ l.svars, V x) (hag : AgreeOn V τ σ)
    (hsec : ∀ s ∈ e.secs, ∀ c d, τ (s.arr, c, d) = σ (s.arr, c, d) ∨
        (d = eval s.lo2 σ + q * eval s.st2 σ → τ (s.arr, c, d) = σ (s.arr, c, d))) :
    (e.rows idx2 l).evalAt τ p = e.evalAt σ p q := by
  induction e with
  | sc x =>
    simp only [AExpr2.rows, AExpr.evalAt, AExpr2.evalAt]
    exact eval_agree (fun y hy => hV y (by simp [AExpr2.svars, hy])) hag
  | sec s =>
    have hst : s.st2 = l.st2 := hstride s (by simp [AExpr2.secs])
    have hev : ∀ (e' : Expr), (∀ y ∈ vars e', y ∈ s.svars ∨ y ∈ l.svars) → eval e' τ = eval e' σ := by
      intro e' he'
      apply eval_agree _ hag
      intro y hy
      rcases he' y hy with h | h
      · exact hV y (by simp [AExpr2.svars, h])
      · exact hV y (by simp [h])
    have hlo1 := hev s.lo1 (fun y hy => Or.inl (by simp [Sec2.svars, hy]))
    have hst1 := hev s.st1 (fun y hy => Or.inl (by simp [Sec2.svars, hy]))
    have hlo2 := hev s.lo2 (fun y hy => Or.inl (by simp [Sec2.svars, hy]))
    have hllo2 := hev l.lo2 (fun y hy => Or.inr (by simp [Sec2.svars, hy]))
    have hi : eval (idxExpr' idx2 l.lo2 l.st2 s.lo2 s.st2) τ = eval s.lo2 σ + q * eval s.st2 σ := by
      unfold idxExpr'
      split
      · next h => simp only [eval, hidx, h.1, hst]
      · simp only [eval, evalBin, hidx, hlo2, hllo2, hst]; omega
    simp only [AExpr2.rows, AExpr.evalAt, AExpr2.evalAt, Sec.at, Sec2.at, Sec2.row, Sec.loc, hi, hlo1, hst1]
    rcases hsec s (by simp [AExpr2.secs]) (eval s.lo1 σ + p * eval s.st1 σ) (eval s.lo2 σ + q * eval s.st2 σ) with h | h
    · exact h
    · exact h rfl
  | un op a ih =>
    simp only [AExpr2.rows, AExpr.evalAt, AExpr2.evalAt]
    rw [ih (fun s hs => hstride s (by simpa [AExpr2.secs] using hs))
      (fun y hy => hV y (by simpa [AExpr2.svars] using hy))
      (fun s hs => hsec s (by simpa [AExpr2.secs] using hs))]
  | bin op a b iha ihb =>
    simp only [AExpr2.rows, AExpr.evalAt, AExpr2.evalAt]
    rw [iha (fun s hs => hstride s (by simp [AExpr2.secs, hs]))
      (fun y hy => hV y (by simp only [AExpr2.svars, List.mem_append] at hy ⊢; rcases hy with h | h <;> simp [h]))
      (fun s hs => hsec s (by simp [AExpr2.secs, hs])),
      ihb (fun s hs => hstride s (by simp [AExpr2.secs, hs]))
      (fun y hy => hV y (by simp only [AExpr2.svars, List.mem_append] at hy ⊢; rcases hy with h | h <;> simp [h]))
      (fun s hs => hsec s (by simp [AExpr2.secs, hs]))]


theorem aa2Cols_other (a : AAIn2) (σ : Store) (q : Nat) (l : Loc)
    (h : ∀ q' : Nat, q' < q → ∀ p : Nat,
      ((a.lhs.arr, eval a.lhs.lo1 σ + p * eval a.lhs.st1 σ, eval a.lhs.lo2 σ + q' * eval a.lhs.st2 σ) : Loc) ≠ l) :
    aa2Cols a σ q l = σ l := by
  induction q with
  | zero => rfl
  | succ q ih =>
    simp only [aa2Cols]
    rw [writeVals_other]
    · exact ih (fun q' hq' p => h q' (by omega) p)
    · intro k _; exact h q (by omega) k

theorem arrayassign2_sound (idx2 idx1 : Nat) (a : AAIn2) (hv : validateAA2 a = none) (hne : idx2 ≠ idx1)
    (h2 : idx2 ∉ a.lhs.arr :: (a.lhs.svars ++ a.rhs.allvars))
    (h1 : idx1 ∉ a.lhs.arr :: (a.lhs.svars ++ a.rhs.allvars)) (σ : Store) :
    AgreeOn (fun y => y ≠ idx2 ∧ y ≠ idx1) (exec (applyAA2 idx2 idx1 a) σ) (execAA2 a σ) := by
  obtain ⟨hstride, hsame, hsc⟩ := validateAA2_ok a hv
  simp only [List.mem_cons, List.mem_append, not_or] at h2 h1 hsc
  intro y hy c d
  simp only [applyAA2, exec, runIters_eq_iters, execAA2]
  rw [Store.set_other _ _ (loc_ne c d hy.1)]
  by_cases hst2 : eval a.lhs.st2 σ = 0
  · simp [trip, hst2, iters, aa2Cols]
  refine loop_steps' _ idx2 _ _ (fun y => y ≠ idx2 ∧ y ≠ idx1) (fun q => aa2Cols a σ q) ?_ σ (AgreeOn.refl _ _) _ y hy c d
  intro q τ hτ
  generalize hτ2 : τ.set (idx2, 0, 0) (eval a.lhs.lo2 σ + q * eval a.lhs.st2 σ) = τ2
  have hτ2i : τ2 (idx2, 0, 0) = eval a.lhs.lo2 σ + q * eval a.lhs.st2 σ := by rw [← hτ2, Store.set_same]
  have hτ2W : AgreeOn (fun y => y ≠ idx2 ∧ y ≠ idx1) τ2 (aa2Cols a σ q) := by
    intro y hy c d
    rw [← hτ2, Store.set_other _ _ (loc_ne c d hy.1)]; exact hτ y hy c d
  have hnotA : ∀ (z : Nat) (c d : Int), z ≠ idx2 → z ≠ idx1 → z ≠ a.lhs.arr → τ2 (z, c, d) = σ (z, c, d) := by
    intro z c d z1 z2 z3
    rw [hτ2W z ⟨z1, z2⟩ c d]
    apply aa2Cols_other
    intro q' _ p h; exact z3 (congrArg Prod.fst h).symm
  have hag : AgreeOn (fun y => y ≠ idx2 ∧ y ≠ idx1 ∧ y ≠ a.lhs.arr) τ2 σ :=
    fun z hz c d => hnotA z c d hz.1 hz.2.1 hz.2.2
  -- scalar parts evaluate as in σ
  have hVl : ∀ x ∈ a.lhs.svars, x ≠ idx2 ∧ x ≠ idx1 ∧ x ≠ a.lhs.arr := fun x hx =>
    ⟨fun h => h2.2.1 (h ▸ hx), fun h => h1.2.1 (h ▸ hx), fun h => hsc.2 (h ▸ hx)⟩
  have hVr : ∀ x ∈ a.rhs.svars, x ≠ idx2 ∧ x ≠ idx1 ∧ x ≠ a.lhs.arr := fun x hx =>
    ⟨fun h => h2.2.2 (AExpr2.svars_sub_allvars _ _ (h ▸ hx)), fun h => h1.2.2 (AExpr2.svars_sub_allvars _ _ (h ▸ hx)),
      fun h => hsc.1 (h ▸ hx)⟩
  have hel : ∀ (e : Expr), (∀ x ∈ vars e, x ∈ a.lhs.svars) → eval e τ2 = eval e σ :=
    fun e he => eval_agree (fun x hx => hVl x (he x hx)) hag
  have hlo1 := hel a.lhs.lo1 (fun x hx => by simp [Sec2.svars, hx])
  have hhi1 := hel a.lhs.hi1 (fun x hx => by simp [Sec2.svars, hx])
  have hst1 := hel a.lhs.st1 (fun x hx => by simp [Sec2.svars, hx])
  -- the inner rank-1 assignment is sound in τ2
  have hinner := arrayassign_sound_props idx1 (a.inner idx2)
    (by intro s hs
        simp only [AAIn2.inner, AExpr2.rows_secs, List.mem_map] at hs
        obtain ⟨s0, hs0, rfl⟩ := hs
        simp [Sec2.row, AAIn2.inner, (hstride s0 hs0).1])
    (by intro s hs harr
        simp only [AAIn2.inner, AExpr2.rows_secs, List.mem_map] at hs
        obtain ⟨s0, hs0, rfl⟩ := hs
        simp only [AAIn2.inner, Sec2.row] at harr
        simp [Sec2.row, AAIn2.inner, Fix.kind, (hsame s0 hs0 harr).1])
    (by simp only [AAIn2.inner, List.mem_append, not_or]
        constructor
        · intro h
          rcases AExpr2.rows_svars _ _ _ _ h with h | h | h
          · exact h2.1 h.symm
          · exact hsc.1 h
          · exact hsc.2 h
        · intro h
          rcases Sec2.row_svars _ _ _ _ h with h | h | h
          · exact h2.1 h.symm
          · exact hsc.2 h
          · exact hsc.2 h)
    (by simp only [AAIn2.inner, List.mem_cons, List.mem_append, not_or]
        refine ⟨h1.1, ?_, ?_⟩
        · intro h
          rcases Sec2.row_svars _ _ _ _ h with h | h | h
          · exact hne h.symm
          · exact h1.2.1 h
          · exact h1.2.1 h
        · intro h
          rcases AExpr2.rows_allvars _ _ _ _ h with h | h | h
          · exact hne h.symm
          · exact h1.2.2 h
          · exact h1.2.1 h) τ2
  -- its Fortran semantics in τ2 is "store column q"
  have hidxl : eval (idxExpr' idx2 a.lhs.lo2 a.lhs.st2 a.lhs.lo2 a.lhs.st2) τ2
      = eval a.lhs.lo2 σ + q * eval a.lhs.st2 σ := by simp [idxExpr', eval, hτ2i]
  have hexec : execAA (a.inner idx2) τ2
      = writeVals (fun p => (a.lhs.arr, eval a.lhs.lo1 σ + p * eval a.lhs.st1 σ, eval a.lhs.lo2 σ + q * eval a.lhs.st2 σ))
          (fun p => a.rhs.evalAt σ p q) (trip (eval a.lhs.lo1 σ) (eval a.lhs.hi1 σ) (eval a.lhs.st1 σ)) τ2 := by
    simp only [execAA, AAIn2.inner, Sec2.row, Sec.loc, Sec.count, hidxl, hlo1, hhi1, hst1]
    congr 1
    funext p
    apply rows_evalAt a.rhs a.lhs idx2 σ τ2 q p (fun y => y ≠ idx2 ∧ y ≠ idx1 ∧ y ≠ a.lhs.arr)
      (fun s hs => (hstride s hs).2) hτ2i
      (by intro x hx
          simp only [List.mem_append] at hx
          rcases hx with hx | hx
          · exact hVr x hx
          · exact hVl x hx) hag
    intro s hs c d
    by_cases hA : s.arr = a.lhs.arr
    · right
      intro hd
      have hs1 : s.arr ≠ idx2 := fun h => h2.2.2 (AExpr2.secs_allvars _ s hs _ (by simp [h]))
      have hs2 : s.arr ≠ idx1 := fun h => h1.2.2 (AExpr2.secs_allvars _ s hs _ (by simp [h]))
      rw [hτ2W s.arr ⟨hs1, hs2⟩ c d]
      apply aa2Cols_other
      intro q' hq' p h
      have h3 : eval a.lhs.lo2 σ + (q' : Int) * eval a.lhs.st2 σ = d := congrArg (fun l : Loc => l.2.2) h
      rw [hd, (hsame s hs hA).2, (hstride s hs).2] at h3
      have h' : ((q' : Int) - q) * eval a.lhs.st2 σ = 0 := by rw [Int.sub_mul]; omega
      rcases Int.mul_eq_zero.mp h' with h0 | h0
      · omega
      · exact hst2 h0
    · left
      have hs1 : s.arr ≠ idx2 := fun h => h2.2.2 (AExpr2.secs_allvars _ s hs _ (by simp [h]))
      have hs2 : s.arr ≠ idx1 := fun h => h1.2.2 (AExpr2.secs_allvars _ s hs _ (by simp [h]))
      exact hnotA s.arr c d hs1 hs2 hA
  intro y hy c d
  show (exec (applyAA idx1 (a.inner idx2)) τ2) (y, c, d) = _
  rw [hinner y hy.2 c d, hexec]
  simp only [aa2Cols]
  exact writeVals_agree _ _ _ _ _ hτ2W _ y hy c d

end C06
