import PsyVerif.Model.DepTools
/-! # C08 lemmas — the literal `while` loop of `_partition` terminates within `len + 1` steps and computes
`mergeVar` (the structurally recursive model used by the soundness proofs). -/
namespace C08

/-- state `first_use = some f`: everything before position `k = pre.length` is processed, `pre[f]` is the
partition that absorbs the later ones -/
theorem partWhile_some (v : Nat) :
    ∀ (suf pre : List Part) (f : Nat) (hf : f < pre.length) (fuel : Nat), suf.length < fuel →
      partWhile v fuel (pre ++ suf) pre.length (some f)
        = some (pre.set f (absorb v suf pre[f]).1 ++ (absorb v suf pre[f]).2) := by
  intro suf
  induction suf with
  | nil =>
    intro pre f hf fuel hfuel
    cases fuel with
    | zero => exact absurd hfuel (Nat.not_lt_zero _)
    | succ fuel =>
      simp [partWhile, absorb]
  | cons q rest ih =>
    intro pre f hf fuel hfuel
    cases fuel with
    | zero => exact absurd hfuel (Nat.not_lt_zero _)
    | succ fuel =>
      have hk : pre.length < (pre ++ q :: rest).length := by simp
      have hq : (pre ++ q :: rest)[pre.length] = q := by simp
      have hlen : rest.length < fuel := by simp at hfuel; omega
      simp only [partWhile, hk, dite_true, hq]
      by_cases hv : v ∈ q.1
      · simp only [hv, if_true, absorb]
        have hget : (pre ++ q :: rest).getD f ([], []) = pre[f] := by
          simp [List.getD_eq_getElem?_getD, List.getElem?_append_left hf, List.getElem?_eq_getElem hf]
        rw [hget]
        have hset : ((pre ++ q :: rest).set f (union pre[f].1 q.1, pre[f].2 ++ q.2)).eraseIdx pre.length
            = pre.set f (union pre[f].1 q.1, pre[f].2 ++ q.2) ++ rest := by
          rw [List.set_append_left _ _ hf]
          have : pre.length = (pre.set f (union pre[f].1 q.1, pre[f].2 ++ q.2)).length := by simp
          rw [this, List.eraseIdx_append_of_length_le (Nat.le_refl _)]
          simp
        rw [hset]
        have := ih (pre.set f (union pre[f].1 q.1, pre[f].2 ++ q.2)) f (by simpa using hf) fuel hlen
        simp only [List.length_set] at this
        rw [this]
        simp [List.set_set]
      · simp only [hv, if_false, absorb]
        have happ : pre ++ q :: rest = (pre ++ [q]) ++ rest := by simp
        have hl : pre.length + 1 = (pre ++ [q]).length := by simp
        rw [happ, hl, ih (pre ++ [q]) f (by simp; omega) fuel hlen]
        have hgf : (pre ++ [q])[f]'(by simp; omega) = pre[f] := List.getElem_append_left hf
        rw [hgf, List.set_append_left _ _ hf]
        simp

/-- state `first_use = None` -/
theorem partWhile_none (v : Nat) :
    ∀ (suf pre : List Part) (fuel : Nat), suf.length < fuel →
      partWhile v fuel (pre ++ suf) pre.length none = some (pre ++ mergeVar v suf) := by
  intro suf
  induction suf with
  | nil =>
    intro pre fuel hfuel
    cases fuel with
    | zero => exact absurd hfuel (Nat.not_lt_zero _)
    | succ fuel => simp [partWhile, mergeVar]
  | cons q rest ih =>
    intro pre fuel hfuel
    cases fuel with
    | zero => exact absurd hfuel (Nat.not_lt_zero _)
    | succ fuel =>
      have hk : pre.length < (pre ++ q :: rest).length := by simp
      have hq : (pre ++ q :: rest)[pre.length] = q := by simp
      have hlen : rest.length < fuel := by simp at hfuel; omega
      have happ : pre ++ q :: rest = (pre ++ [q]) ++ rest := by simp
      have hl : pre.length + 1 = (pre ++ [q]).length := by simp
      simp only [partWhile, hk, dite_true, hq]
      by_cases hv : v ∈ q.1
      · simp only [hv, if_true, mergeVar]
        rw [happ, hl, partWhile_some v rest (pre ++ [q]) pre.length (by simp) fuel hlen]
        simp
      · simp only [hv, if_false, mergeVar]
        rw [happ, hl, ih (pre ++ [q]) fuel hlen]
        simp

/-- **`_partition`'s while loop terminates**: `len + 1` iterations always suffice, and it computes `mergeVar` -/
theorem partWhile_eq (v : Nat) (ps : List Part) : partWhile v (ps.length + 1) ps 0 none = some (mergeVar v ps) := by
  have := partWhile_none v ps [] (ps.length + 1) (Nat.lt_succ_self _)
  simpa using this

theorem partitionW_fold (vs : List Nat) :
    ∀ ps : List Part, vs.foldlM (fun ps v => partWhile v (ps.length + 1) ps 0 none) ps
      = some (vs.foldl (fun ps v => mergeVar v ps) ps) := by
  induction vs with
  | nil => intro ps; rfl
  | cons v vs ih =>
    intro ps
    rw [List.foldlM_cons, List.foldl_cons, partWhile_eq]
    exact ih _

end C08
