import PsyVerif.Model.Tree
/-! Helper lemmas for C14: fields of updated heaps, the validation loop, and the master
lemma `wf_edit` (any edit that removes `rem` from and adds `add` to one children list,
with the links updated accordingly, preserves well-formedness). -/
namespace C14

/-- **Well-formedness** of the parent/children links.
* `link`  : a listed child points back to the node listing it and is fully connected;
* `nodup` : no node is listed twice by the same parent (with `link`: nor by two parents);
* `back`  : a node whose parent link is established is listed by that parent;
* `valid` : every child is of a kind valid at its position (`_validate_child`). -/
structure WF (K : Kinds) (h : Heap) : Prop where
  link : ∀ p c, c ∈ h.children p → h.parent c = some p ∧ h.ctor c = false
  nodup : ∀ p, (h.children p).Nodup
  back : ∀ c p, h.parent c = some p → h.ctor c = false → c ∈ h.children p
  valid : ∀ p i c, (h.children p)[i]? = some c → validAt K h p i c = true

/-! ## fields of updated heaps -/

@[simp] theorem setKids_children (h : Heap) (p : Id) (l : List Id) (q : Id) :
    (h.setKids p l).children q = if q = p then l else h.children q := rfl
@[simp] theorem setKids_parent (h : Heap) (p : Id) (l : List Id) : (h.setKids p l).parent = h.parent := rfl
@[simp] theorem setKids_ctor (h : Heap) (p : Id) (l : List Id) : (h.setKids p l).ctor = h.ctor := rfl
@[simp] theorem setKids_kind (h : Heap) (p : Id) (l : List Id) : (h.setKids p l).kind = h.kind := rfl
@[simp] theorem setKids_size (h : Heap) (p : Id) (l : List Id) : (h.setKids p l).size = h.size := rfl

@[simp] theorem link_children (h : Heap) (c p : Id) : (h.link c p).children = h.children := rfl
@[simp] theorem link_kind (h : Heap) (c p : Id) : (h.link c p).kind = h.kind := rfl
@[simp] theorem link_size (h : Heap) (c p : Id) : (h.link c p).size = h.size := rfl
@[simp] theorem link_parent (h : Heap) (c p x : Id) :
    (h.link c p).parent x = if x = c then some p else h.parent x := rfl
@[simp] theorem link_ctor (h : Heap) (c p x : Id) :
    (h.link c p).ctor x = if x = c then false else h.ctor x := rfl

@[simp] theorem unlink_children (h : Heap) (c : Id) : (h.unlink c).children = h.children := rfl
@[simp] theorem unlink_kind (h : Heap) (c : Id) : (h.unlink c).kind = h.kind := rfl
@[simp] theorem unlink_size (h : Heap) (c : Id) : (h.unlink c).size = h.size := rfl
@[simp] theorem unlink_parent (h : Heap) (c x : Id) :
    (h.unlink c).parent x = if x = c then none else h.parent x := rfl
@[simp] theorem unlink_ctor (h : Heap) (c x : Id) :
    (h.unlink c).ctor x = if x = c then false else h.ctor x := rfl

theorem linkAll_fields (xs : List Id) (p : Id) (h : Heap) :
    (h.linkAll xs p).children = h.children ∧ (h.linkAll xs p).kind = h.kind ∧
    (h.linkAll xs p).size = h.size ∧
    (∀ x, (h.linkAll xs p).parent x = if x ∈ xs then some p else h.parent x) ∧
    (∀ x, (h.linkAll xs p).ctor x = if x ∈ xs then false else h.ctor x) := by
  induction xs generalizing h with
  | nil => simp [Heap.linkAll]
  | cons a xs ih =>
    have := ih (h.link a p)
    simp only [Heap.linkAll, List.foldl_cons] at this ⊢
    obtain ⟨h1, h2, h3, h4, h5⟩ := this
    refine ⟨by rw [h1]; rfl, by rw [h2]; rfl, by rw [h3]; rfl, ?_, ?_⟩
    · intro x; rw [h4]; simp only [link_parent, List.mem_cons]
      by_cases hx : x ∈ xs <;> by_cases hxa : x = a <;> simp [hx, hxa]
    · intro x; rw [h5]; simp only [link_ctor, List.mem_cons]
      by_cases hx : x ∈ xs <;> by_cases hxa : x = a <;> simp [hx, hxa]

theorem unlinkAll_fields (xs : List Id) (h : Heap) :
    (h.unlinkAll xs).children = h.children ∧ (h.unlinkAll xs).kind = h.kind ∧
    (h.unlinkAll xs).size = h.size ∧
    (∀ x, (h.unlinkAll xs).parent x = if x ∈ xs then none else h.parent x) ∧
    (∀ x, (h.unlinkAll xs).ctor x = if x ∈ xs then false else h.ctor x) := by
  induction xs generalizing h with
  | nil => simp [Heap.unlinkAll]
  | cons a xs ih =>
    have := ih (h.unlink a)
    simp only [Heap.unlinkAll, List.foldl_cons] at this ⊢
    obtain ⟨h1, h2, h3, h4, h5⟩ := this
    refine ⟨by rw [h1]; rfl, by rw [h2]; rfl, by rw [h3]; rfl, ?_, ?_⟩
    · intro x; rw [h4]; simp only [unlink_parent, List.mem_cons]
      by_cases hx : x ∈ xs <;> by_cases hxa : x = a <;> simp [hx, hxa]
    · intro x; rw [h5]; simp only [unlink_ctor, List.mem_cons]
      by_cases hx : x ∈ xs <;> by_cases hxa : x = a <;> simp [hx, hxa]

/-! ## the validation loop -/

theorem validAt_congr {K : Kinds} {h h' : Heap} (hk : h'.kind = h.kind) (p pos x) :
    validAt K h' p pos x = validAt K h p pos x := by simp [validAt, hk]

theorem validFrom_congr {K : Kinds} {h h' : Heap} (hk : h'.kind = h.kind) (p : Id) (xs : List Id)
    (pos : Nat) : validFrom K h' p xs pos = validFrom K h p xs pos := by
  induction xs generalizing pos with
  | nil => rfl
  | cons x xs ih => simp [validFrom, ih, validAt_congr hk]

theorem validFrom_iff {K : Kinds} {h : Heap} {p : Id} {xs : List Id} {pos : Nat} :
    validFrom K h p xs pos = true ↔ ∀ j x, xs[j]? = some x → validAt K h p (pos + j) x = true := by
  induction xs generalizing pos with
  | nil => simp [validFrom]
  | cons a xs ih =>
    simp only [validFrom, Bool.and_eq_true, ih]
    constructor
    · rintro ⟨h0, hs⟩ j x hj
      cases j with
      | zero => simp at hj; subst hj; simpa using h0
      | succ j =>
        have := hs j x (by simpa using hj)
        rwa [show pos + 1 + j = pos + (j + 1) by omega] at this
    · intro hall
      refine ⟨by simpa using hall 0 a (by simp), fun j x hj => ?_⟩
      have := hall (j + 1) x (by simpa using hj)
      rwa [show pos + (j + 1) = pos + 1 + j by omega] at this

theorem nodupB_iff {xs : List Id} : nodupB xs = true ↔ xs.Nodup := by
  induction xs with
  | nil => simp [nodupB]
  | cons a xs ih => simp [nodupB, ih]

/-! ## the executable test implies `WF` -/

theorem ofList_out (rs : List Rec) : ∀ i, rs.length ≤ i →
    (Heap.ofList rs).children i = [] ∧ (Heap.ofList rs).parent i = none := by
  intro i hi
  have : rs[i]? = none := List.getElem?_eq_none hi
  simp [Heap.ofList, this]

theorem wf_of_check {K : Kinds} (h : Heap) (n : Nat)
    (hout : ∀ i, n ≤ i → h.children i = [] ∧ h.parent i = none)
    (hc : wfCheck K h n = true) : WF K h := by
  simp only [wfCheck, List.all_eq_true, List.mem_range, Bool.and_eq_true] at hc
  refine ⟨?_, ?_, ?_, ?_⟩
  · intro p c hcp
    by_cases hp : p < n
    · have := (hc p hp).1.1.1 c hcp
      simpa using this
    · rw [(hout p (Nat.le_of_not_lt hp)).1] at hcp; simp at hcp
  · intro p
    by_cases hp : p < n
    · exact nodupB_iff.mp (hc p hp).1.1.2
    · rw [(hout p (Nat.le_of_not_lt hp)).1]; simp
  · intro c p hp hct
    by_cases hcn : c < n
    · have := (hc c hcn).2
      rw [hp] at this
      simpa [hct] using this
    · rw [(hout c (Nat.le_of_not_lt hcn)).2] at hp; simp at hp
  · intro p i c hic
    by_cases hp : p < n
    · have := validFrom_iff.mp (hc p hp).1.2 i c hic
      simpa using this
    · rw [(hout p (Nat.le_of_not_lt hp)).1] at hic; simp at hic

/-! ## the master lemma -/

/-- A node that has no parent, or only a constructor parent, is listed nowhere. -/
theorem unlisted_of_orphanOk {K : Kinds} {h : Heap} (wf : WF K h) {p x : Id}
    (ho : orphanOk h p x = true) : ∀ q, x ∉ h.children q := by
  intro q hq
  obtain ⟨hp, hc⟩ := wf.link q x hq
  simp [orphanOk, hp, hc] at ho

/-- Removing the nodes `rem` from the children of `p`, adding the (unlisted) nodes `add`,
in any resulting order `l'` that has been validated, and updating the parent links
accordingly, preserves well-formedness. -/
theorem wf_edit {K : Kinds} {h : Heap} (wf : WF K h) (p : Id) (l' rem add : List Id)
    (hnd : l'.Nodup)
    (hmem : ∀ c, c ∈ l' ↔ (c ∈ h.children p ∧ c ∉ rem) ∨ c ∈ add)
    (hrem : ∀ c ∈ rem, c ∈ h.children p)
    (hadd : ∀ x ∈ add, ∀ q, x ∉ h.children q)
    (hval : ∀ i c, l'[i]? = some c → validAt K h p i c = true) :
    WF K (((h.unlinkAll rem).setKids p l').linkAll add p) := by
  obtain ⟨u1, u2, _, u4, u5⟩ := unlinkAll_fields rem h
  obtain ⟨k1, k2, _, k4, k5⟩ := linkAll_fields add p ((h.unlinkAll rem).setKids p l')
  have hch : ∀ q, (((h.unlinkAll rem).setKids p l').linkAll add p).children q =
      if q = p then l' else h.children q := by
    intro q; rw [k1]; simp [u1]
  have hkind : (((h.unlinkAll rem).setKids p l').linkAll add p).kind = h.kind := by
    rw [k2]; simp [u2]
  have hpar : ∀ c, (((h.unlinkAll rem).setKids p l').linkAll add p).parent c =
      if c ∈ add then some p else if c ∈ rem then none else h.parent c := by
    intro c; rw [k4]; simp [u4]
  have hct : ∀ c, (((h.unlinkAll rem).setKids p l').linkAll add p).ctor c =
      if c ∈ add then false else if c ∈ rem then false else h.ctor c := by
    intro c; rw [k5]; simp [u5]
  -- a node listed by some q ≠ p is neither added nor removed
  have other : ∀ q c, q ≠ p → c ∈ h.children q → c ∉ add ∧ c ∉ rem := by
    intro q c hq hc
    refine ⟨fun ha => hadd c ha q hc, fun hr => ?_⟩
    have h1 := (wf.link q c hc).1
    have h2 := (wf.link p c (hrem c hr)).1
    rw [h1] at h2; exact hq (by simpa using h2)
  refine ⟨?_, ?_, ?_, ?_⟩
  · intro q c hc
    rw [hch] at hc
    rw [hpar, hct]
    by_cases hq : q = p
    · subst hq
      simp only [if_true] at hc
      rcases (hmem c).1 hc with ⟨hcl, hcr⟩ | hca
      · have hna : c ∉ add := fun ha => hadd c ha q hcl
        simp only [hna, hcr, if_false]
        exact wf.link q c hcl
      · simp [hca]
    · simp only [hq, if_false] at hc
      obtain ⟨hna, hnr⟩ := other q c hq hc
      simp only [hna, hnr, if_false]
      exact wf.link q c hc
  · intro q
    rw [hch]
    by_cases hq : q = p
    · simp [hq, hnd]
    · simp only [hq, if_false]; exact wf.nodup q
  · intro c q hp hc
    rw [hpar] at hp
    rw [hct] at hc
    rw [hch]
    by_cases hca : c ∈ add
    · simp only [hca, if_true] at hp
      have : q = p := by simpa using hp.symm
      subst this
      simp only [if_true]
      exact (hmem c).2 (Or.inr hca)
    · simp only [hca, if_false] at hp hc
      by_cases hcr : c ∈ rem
      · simp [hcr] at hp
      · simp only [hcr, if_false] at hp hc
        have hin := wf.back c q hp hc
        by_cases hq : q = p
        · subst hq
          simp only [if_true]
          exact (hmem c).2 (Or.inl ⟨hin, hcr⟩)
        · simp only [hq, if_false]; exact hin
  · intro q i c hc
    rw [hch] at hc
    rw [validAt_congr hkind]
    by_cases hq : q = p
    · subst hq
      simp only [if_true] at hc
      exact hval i c hc
    · simp only [hq, if_false] at hc
      exact wf.valid q i c hc

end C14
