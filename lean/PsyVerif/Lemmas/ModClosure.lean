import PsyVerif.Model.ModClosure
import Mathlib.Data.List.Basic
import Mathlib.Data.List.Perm.Basic
import Mathlib.Data.List.Nodup
/-! Invariant, termination measure and specification lemmas for the model of
`ModuleManager.get_all_dependencies_recursively` (`Model/ModClosure.lean`). -/
namespace C27

/-! ### small list facts -/

theorem mem_addAll {todo new : List Name} {x : Name} :
    x ∈ addAll todo new ↔ x ∈ todo ∨ x ∈ new := by
  induction new generalizing todo with
  | nil => simp [addAll]
  | cons d ds ih =>
    simp only [addAll]
    split
    · rename_i h
      have hd : d ∈ todo := by simpa using h
      rw [ih]; constructor
      · rintro (h | h); exact .inl h; exact .inr (List.mem_cons_of_mem _ h)
      · rintro (h | h); exact .inl h
        rcases List.mem_cons.mp h with rfl | h
        · exact .inl hd
        · exact .inr h
    · rw [ih]; simp only [List.mem_append, List.mem_cons]; tauto

theorem nodup_addAll {todo new : List Name} (h : todo.Nodup) : (addAll todo new).Nodup := by
  induction new generalizing todo with
  | nil => simpa [addAll]
  | cons d ds ih =>
    simp only [addAll]
    split
    · exact ih h
    · rename_i hc
      have hd : d ∉ todo := by simpa using hc
      apply ih
      rw [List.nodup_append]
      refine ⟨h, by simp, ?_⟩
      intro a ha b hb
      simp at hb; subst hb
      intro hab; subst hab; exact hd ha

theorem length_addAll_le {todo new : List Name} :
    (addAll todo new).length ≤ todo.length + new.length := by
  induction new generalizing todo with
  | nil => simp [addAll]
  | cons d ds ih =>
    simp only [addAll]
    split
    · have := ih (todo := todo); simp; omega
    · have := ih (todo := todo ++ [d]); simp at this ⊢; omega

theorem keys_dictSet_new {g : Graph} {k : Name} {v : List Name} (h : k ∉ keys g) :
    keys (dictSet g k v) = keys g ++ [k] := by
  unfold dictSet
  rw [if_neg (by simpa using h)]
  simp [keys]

theorem dictSet_new {g : Graph} {k : Name} {v : List Name} (h : k ∉ keys g) :
    dictSet g k v = g ++ [(k, v)] := by
  unfold dictSet
  rw [if_neg (by simpa using h)]

theorem info_mem {w : World} {m : Name} {u : List Name} (h : w.info m = some u) :
    (m, u) ∈ w.files := by
  unfold World.info at h
  split at h
  · rename_i e he
    cases h
    have h1 := List.mem_of_find?_eq_some he
    have h2 := List.find?_some he
    have : e.1 = m := by simpa using h2
    rw [← this]; exact h1
  · cases h

theorem getD_eraseIdx_perm {l : List Name} {k : Nat} {d : Name} (h : k < l.length) :
    l.Perm (l.getD k d :: l.eraseIdx k) := by
  induction l generalizing k with
  | nil => simp at h
  | cons a l ih =>
    cases k with
    | zero => simp
    | succ k =>
      have hk : k < l.length := by simpa using h
      have := ih (k := k) hk
      simp only [List.getD_cons_succ, List.eraseIdx_cons_succ]
      exact (List.Perm.cons a this).trans (List.Perm.swap _ _ _)

theorem length_filter_lt_of_imp {l : List Name} {p q : Name → Bool}
    (hpq : ∀ x, q x = true → p x = true) {m : Name} (hm : m ∈ l) (hp : p m = true) (hq : q m = false) :
    (l.filter q).length < (l.filter p).length := by
  induction l with
  | nil => simp at hm
  | cons a l ih =>
    have hle : ∀ l' : List Name, (l'.filter q).length ≤ (l'.filter p).length := by
      intro l'
      induction l' with
      | nil => simp
      | cons b l' ih' =>
        simp only [List.filter_cons]
        by_cases hqb : q b = true
        · have hpb := hpq b hqb
          simp [hqb, hpb]; exact ih'
        · have hqb' : q b = false := by simpa using hqb
          by_cases hpb : p b = true
          · simp [hqb', hpb]; omega
          · have hpb' : p b = false := by simpa using hpb
            simp [hqb', hpb']; exact ih'
    rcases List.mem_cons.mp hm with rfl | hm'
    · simp only [List.filter_cons, hp, hq]
      have := hle l
      simp; omega
    · have := ih hm'
      simp only [List.filter_cons]
      by_cases hqa : q a = true
      · have hpa := hpq a hqa
        simp [hqa, hpa]; exact this
      · have hqa' : q a = false := by simpa using hqa
        by_cases hpa : p a = true
        · simp [hqa', hpa]; omega
        · have hpa' : p a = false := by simpa using hpa
          simp [hqa', hpa']; exact this

/-! ### reachability and the invariant -/

/-- modules the traversal can discover: the initial ones, and those used by a discovered
module that is found and not ignored -/
inductive Reach (w : World) (init : List Name) : Name → Prop
  | init {m : Name} : m ∈ init → Reach w init m
  | use {m d : Name} {u : List Name} : Reach w init m → w.info m = some u → m ∉ w.ignores →
      d ∈ u → Reach w init d

structure Inv (w : World) (init : List Name) (s : St) : Prop where
  todoNodup : s.todo.Nodup
  keysNodup : (keys s.deps).Nodup
  todoU : ∀ m ∈ s.todo, m ∈ allNames w init
  todoKeys : ∀ m ∈ s.todo, m ∉ keys s.deps
  todoNF : ∀ m ∈ s.todo, m ∉ s.notFound
  entry : ∀ m ds, (m, ds) ∈ s.deps → ∃ u, w.info m = some u ∧ m ∉ w.ignores ∧
            ds = u.filter (fun d => !s.notFound.contains d)
  closed : ∀ m ds d, (m, ds) ∈ s.deps → d ∈ ds → d ∈ keys s.deps ∨ d ∈ s.todo ∨ d ∈ w.ignores
  initC : ∀ m ∈ init, m ∈ s.todo ∨ m ∈ keys s.deps ∨ m ∈ s.notFound ∨ m ∈ w.ignores
  sound : ∀ m, (m ∈ s.todo ∨ m ∈ keys s.deps ∨ m ∈ s.notFound) → Reach w init m
  nf : ∀ m ∈ s.notFound, w.info m = none ∧ m ∉ w.ignores

theorem inv_init (w : World) (init : List Name) (h : init.Nodup) :
    Inv w init { deps := [], todo := init, notFound := [] } where
  todoNodup := h
  keysNodup := by simp [keys]
  todoU := by intro m hm; simp [allNames]; exact .inl hm
  todoKeys := by simp [keys]
  todoNF := by simp
  entry := by simp
  closed := by simp
  initC := by intro m hm; exact .inl hm
  sound := by
    intro m hm
    rcases hm with hm | hm | hm
    · exact .init hm
    · simp [keys] at hm
    · simp at hm
  nf := by simp

theorem used_mem_universe {w : World} {init : List Name} {m d : Name} {u : List Name}
    (h : w.info m = some u) (hd : d ∈ u) : d ∈ allNames w init := by
  have := info_mem h
  simp only [allNames, List.mem_append, List.mem_flatten, List.mem_map]
  exact .inl (.inr ⟨u, ⟨(m, u), this, rfl⟩, hd⟩)

/-! ### one visit preserves the invariant -/

section visit
variable {w : World} {init : List Name} {deps : Graph} {m : Name} {rest nf : List Name}

theorem inv_ignored (h : Inv w init { deps := deps, todo := m :: rest, notFound := nf })
    (hig : m ∈ w.ignores) : Inv w init { deps := deps, todo := rest, notFound := nf } where
  todoNodup := (List.nodup_cons.mp h.todoNodup).2
  keysNodup := h.keysNodup
  todoU := fun x hx => h.todoU x (List.mem_cons_of_mem _ hx)
  todoKeys := fun x hx => h.todoKeys x (List.mem_cons_of_mem _ hx)
  todoNF := fun x hx => h.todoNF x (List.mem_cons_of_mem _ hx)
  entry := h.entry
  closed := by
    intro k ds d hk hd
    rcases h.closed k ds d hk hd with h1 | h1 | h1
    · exact .inl h1
    · rcases List.mem_cons.mp h1 with rfl | h1
      · exact .inr (.inr hig)
      · exact .inr (.inl h1)
    · exact .inr (.inr h1)
  initC := by
    intro x hx
    rcases h.initC x hx with h1 | h1 | h1 | h1
    · rcases List.mem_cons.mp h1 with rfl | h1
      · exact .inr (.inr (.inr hig))
      · exact .inl h1
    · exact .inr (.inl h1)
    · exact .inr (.inr (.inl h1))
    · exact .inr (.inr (.inr h1))
  sound := by
    intro x hx
    apply h.sound
    rcases hx with h1 | h1 | h1
    · exact .inl (List.mem_cons_of_mem _ h1)
    · exact .inr (.inl h1)
    · exact .inr (.inr h1)
  nf := h.nf

theorem keys_map_filter (g : Graph) (f : List Name → List Name) :
    keys (g.map (fun e => (e.1, f e.2))) = keys g := by
  simp [keys, List.map_map, Function.comp_def]

theorem inv_notfound (h : Inv w init { deps := deps, todo := m :: rest, notFound := nf })
    (hig : m ∉ w.ignores) (hinfo : w.info m = none) :
    Inv w init { deps := deps.map (fun e => (e.1, e.2.filter (· != m))), todo := rest,
                 notFound := m :: nf } where
  todoNodup := (List.nodup_cons.mp h.todoNodup).2
  keysNodup := by rw [keys_map_filter]; exact h.keysNodup
  todoU := fun x hx => h.todoU x (List.mem_cons_of_mem _ hx)
  todoKeys := by
    intro x hx; rw [keys_map_filter]; exact h.todoKeys x (List.mem_cons_of_mem _ hx)
  todoNF := by
    intro x hx hmem
    rcases List.mem_cons.mp hmem with rfl | hmem
    · exact (List.nodup_cons.mp h.todoNodup).1 hx
    · exact h.todoNF x (List.mem_cons_of_mem _ hx) hmem
  entry := by
    intro k ds hk
    obtain ⟨⟨k', ds'⟩, hmem, heq⟩ := List.mem_map.mp hk
    simp only [Prod.mk.injEq] at heq
    obtain ⟨rfl, rfl⟩ := heq
    obtain ⟨u, hu, hki, hds⟩ := h.entry k' ds' hmem
    refine ⟨u, hu, hki, ?_⟩
    simp only at hds
    rw [hds, List.filter_filter]
    apply List.filter_congr
    intro d _
    simp only [List.contains_cons]
    cases hdm : (d == m) <;> simp [bne, hdm]
  closed := by
    intro k ds d hk hd
    obtain ⟨⟨k', ds'⟩, hmem, heq⟩ := List.mem_map.mp hk
    simp only [Prod.mk.injEq] at heq
    obtain ⟨rfl, rfl⟩ := heq
    rw [keys_map_filter]
    have hd' := List.mem_filter.mp hd
    have hne : d ≠ m := by simpa using hd'.2
    rcases h.closed k' ds' d hmem hd'.1 with h1 | h1 | h1
    · exact .inl h1
    · rcases List.mem_cons.mp h1 with rfl | h1
      · exact absurd rfl hne
      · exact .inr (.inl h1)
    · exact .inr (.inr h1)
  initC := by
    intro x hx
    rw [keys_map_filter]
    rcases h.initC x hx with h1 | h1 | h1 | h1
    · rcases List.mem_cons.mp h1 with rfl | h1
      · exact .inr (.inr (.inl (List.mem_cons_self)))
      · exact .inl h1
    · exact .inr (.inl h1)
    · exact .inr (.inr (.inl (List.mem_cons_of_mem _ h1)))
    · exact .inr (.inr (.inr h1))
  sound := by
    intro x hx
    rw [keys_map_filter] at hx
    apply h.sound
    rcases hx with h1 | h1 | h1
    · exact .inl (List.mem_cons_of_mem _ h1)
    · exact .inr (.inl h1)
    · rcases List.mem_cons.mp h1 with rfl | h1
      · exact .inl List.mem_cons_self
      · exact .inr (.inr h1)
  nf := by
    intro x hx
    rcases List.mem_cons.mp hx with rfl | hx
    · exact ⟨hinfo, hig⟩
    · exact h.nf x hx

theorem inv_found {u : List Name} (h : Inv w init { deps := deps, todo := m :: rest, notFound := nf })
    (hig : m ∉ w.ignores) (hinfo : w.info m = some u) :
    Inv w init
      { deps := deps ++ [(m, u.filter (fun d => !nf.contains d))],
        todo := addAll rest ((u.filter (fun d => !nf.contains d)).filter
                  (fun d => !(keys deps ++ [m]).contains d)),
        notFound := nf } := by
  have hmk : m ∉ keys deps := h.todoKeys m List.mem_cons_self
  have hnd := List.nodup_cons.mp h.todoNodup
  have hkeys : keys (deps ++ [(m, u.filter (fun d => !nf.contains d))]) = keys deps ++ [m] := by
    simp [keys]
  refine { todoNodup := nodup_addAll hnd.2, keysNodup := ?_, todoU := ?_, todoKeys := ?_,
           todoNF := ?_, entry := ?_, closed := ?_, initC := ?_, sound := ?_, nf := h.nf }
  · rw [hkeys, List.nodup_append]
    refine ⟨h.keysNodup, by simp, ?_⟩
    intro a ha b hb
    simp at hb; subst hb
    intro hab; subst hab; exact hmk ha
  · intro x hx
    rcases mem_addAll.mp hx with h1 | h1
    · exact h.todoU x (List.mem_cons_of_mem _ h1)
    · exact used_mem_universe hinfo (List.mem_filter.mp (List.mem_filter.mp h1).1).1
  · intro x hx
    rw [hkeys]
    rcases mem_addAll.mp hx with h1 | h1
    · intro hk
      rcases List.mem_append.mp hk with hk | hk
      · exact h.todoKeys x (List.mem_cons_of_mem _ h1) hk
      · simp at hk; subst hk; exact hnd.1 h1
    · simpa using (List.mem_filter.mp h1).2
  · intro x hx
    rcases mem_addAll.mp hx with h1 | h1
    · exact h.todoNF x (List.mem_cons_of_mem _ h1)
    · simpa using (List.mem_filter.mp (List.mem_filter.mp h1).1).2
  · intro k ds hk
    rcases List.mem_append.mp hk with hk | hk
    · exact h.entry k ds hk
    · simp only [List.mem_singleton, Prod.mk.injEq] at hk
      obtain ⟨rfl, rfl⟩ := hk
      exact ⟨u, hinfo, hig, rfl⟩
  · intro k ds d hk hd
    rw [hkeys]
    have key : ∀ d, d ∈ keys deps ∨ d ∈ m :: rest ∨ d ∈ w.ignores →
        d ∈ keys deps ++ [m] ∨ d ∈ addAll rest ((u.filter (fun d => !nf.contains d)).filter
                  (fun d => !(keys deps ++ [m]).contains d)) ∨ d ∈ w.ignores := by
      intro d hd
      rcases hd with h1 | h1 | h1
      · exact .inl (List.mem_append_left _ h1)
      · rcases List.mem_cons.mp h1 with rfl | h1
        · exact .inl (by simp)
        · exact .inr (.inl (mem_addAll.mpr (.inl h1)))
      · exact .inr (.inr h1)
    rcases List.mem_append.mp hk with hk | hk
    · exact key d (h.closed k ds d hk hd)
    · simp only [List.mem_singleton, Prod.mk.injEq] at hk
      obtain ⟨rfl, rfl⟩ := hk
      by_cases hdk : d ∈ keys deps ++ [k]
      · exact .inl hdk
      · refine .inr (.inl (mem_addAll.mpr (.inr ?_)))
        exact List.mem_filter.mpr ⟨hd, by simpa using hdk⟩
  · intro x hx
    rw [hkeys]
    rcases h.initC x hx with h1 | h1 | h1 | h1
    · rcases List.mem_cons.mp h1 with rfl | h1
      · exact .inr (.inl (by simp))
      · exact .inl (mem_addAll.mpr (.inl h1))
    · exact .inr (.inl (List.mem_append_left _ h1))
    · exact .inr (.inr (.inl h1))
    · exact .inr (.inr (.inr h1))
  · intro x hx
    rw [hkeys] at hx
    have hm : Reach w init m := h.sound m (.inl List.mem_cons_self)
    rcases hx with h1 | h1 | h1
    · rcases mem_addAll.mp h1 with h1 | h1
      · exact h.sound x (.inl (List.mem_cons_of_mem _ h1))
      · exact .use hm hinfo hig (List.mem_filter.mp (List.mem_filter.mp h1).1).1
    · rcases List.mem_append.mp h1 with h1 | h1
      · exact h.sound x (.inr (.inl h1))
      · simp at h1; subst h1; exact hm
    · exact h.sound x (.inr (.inr h1))

theorem visit_ignored (s : St) (hig : m ∈ w.ignores) : visit w s m = s := by
  have : w.ignores.contains m = true := by simpa using hig
  unfold visit
  rw [if_pos this]

theorem visit_notfound (s : St) (hig : m ∉ w.ignores) (hinfo : w.info m = none)
    (hnf : m ∉ s.notFound) :
    visit w s m = { deps := s.deps.map (fun e => (e.1, e.2.filter (· != m))), todo := s.todo,
                    notFound := m :: s.notFound } := by
  have h1 : w.ignores.contains m = false := by simpa using hig
  have h2 : s.notFound.contains m = false := by simpa using hnf
  simp only [visit, h1, hinfo, h2]
  rfl

theorem visit_found {u : List Name} (s : St) (hig : m ∉ w.ignores) (hinfo : w.info m = some u)
    (hmk : m ∉ keys s.deps) :
    visit w s m =
      { deps := s.deps ++ [(m, u.filter (fun d => !s.notFound.contains d))],
        todo := addAll s.todo ((u.filter (fun d => !s.notFound.contains d)).filter
                  (fun d => !(keys s.deps ++ [m]).contains d)),
        notFound := s.notFound } := by
  have h1 : w.ignores.contains m = false := by simpa using hig
  have hkeys : keys (s.deps ++ [(m, u.filter (fun d => !s.notFound.contains d))]) =
      keys s.deps ++ [m] := by simp [keys]
  simp only [visit, h1, hinfo, dictSet_new hmk, hkeys]
  rfl

/-- the loop body preserves the invariant -/
theorem visit_inv (h : Inv w init { deps := deps, todo := m :: rest, notFound := nf }) :
    Inv w init (visit w { deps := deps, todo := rest, notFound := nf } m) := by
  by_cases hig : m ∈ w.ignores
  · rw [visit_ignored _ hig]; exact inv_ignored h hig
  · cases hinfo : w.info m with
    | none =>
      rw [visit_notfound { deps := deps, todo := rest, notFound := nf } hig hinfo
        (h.todoNF m List.mem_cons_self)]
      exact inv_notfound h hig hinfo
    | some u =>
      rw [visit_found { deps := deps, todo := rest, notFound := nf } hig hinfo
        (h.todoKeys m List.mem_cons_self)]
      exact inv_found h hig hinfo

end visit

/-! ### termination measure -/

def undoneP (s : St) (x : Name) : Bool := !(keys s.deps).contains x && !s.notFound.contains x

def mu (w : World) (init : List Name) (s : St) : Nat :=
  ((allNames w init).filter (undoneP s)).length * ((allNames w init).length + 1) + s.todo.length

theorem todo_length_le {w : World} {init : List Name} {s : St} (h : Inv w init s) :
    s.todo.length ≤ (allNames w init).length :=
  List.Nodup.length_le_of_subset h.todoNodup (fun x hx => h.todoU x hx)

theorem filter_length_le (l : List Name) (p : Name → Bool) : (l.filter p).length ≤ l.length :=
  List.length_filter_le p l

section mu
variable {w : World} {init : List Name} {deps : Graph} {m : Name} {rest nf : List Name}

theorem mu_drop (s' : St) (hinv : Inv w init s')
    (hlt : ((allNames w init).filter (undoneP s')).length <
      ((allNames w init).filter (undoneP { deps := deps, todo := m :: rest, notFound := nf })).length) :
    mu w init s' < mu w init { deps := deps, todo := m :: rest, notFound := nf } := by
  unfold mu
  have h1 := todo_length_le hinv
  generalize ((allNames w init).filter (undoneP s')).length = a' at *
  generalize ((allNames w init).filter
    (undoneP { deps := deps, todo := m :: rest, notFound := nf })).length = a at *
  generalize (allNames w init).length = N at *
  have : (a' + 1) * (N + 1) ≤ a * (N + 1) := Nat.mul_le_mul_right _ hlt
  rw [Nat.succ_mul] at this
  omega

theorem visit_mu (h : Inv w init { deps := deps, todo := m :: rest, notFound := nf }) :
    mu w init (visit w { deps := deps, todo := rest, notFound := nf } m) <
      mu w init { deps := deps, todo := m :: rest, notFound := nf } := by
  have hinv := visit_inv h
  have hmU : m ∈ allNames w init := h.todoU m List.mem_cons_self
  have hmk : m ∉ keys deps := h.todoKeys m List.mem_cons_self
  have hmnf : m ∉ nf := h.todoNF m List.mem_cons_self
  have hold : undoneP { deps := deps, todo := m :: rest, notFound := nf } m = true := by
    simp [undoneP, hmk, hmnf]
  by_cases hig : m ∈ w.ignores
  · rw [visit_ignored _ hig]
    have : undoneP { deps := deps, todo := rest, notFound := nf } =
        undoneP { deps := deps, todo := m :: rest, notFound := nf } := rfl
    simp [mu, this]
  · cases hinfo : w.info m with
    | none =>
      rw [visit_notfound { deps := deps, todo := rest, notFound := nf } hig hinfo hmnf] at hinv ⊢
      apply mu_drop _ hinv
      apply length_filter_lt_of_imp (m := m) _ hmU hold
      · simp [undoneP]
      · intro x hx
        simp only [undoneP, keys_map_filter, Bool.and_eq_true, Bool.not_eq_eq_eq_not, Bool.not_true,
          List.contains_eq_mem, decide_eq_false_iff_not, List.mem_cons, not_or] at hx ⊢
        exact ⟨hx.1, hx.2.2⟩
    | some u =>
      rw [visit_found { deps := deps, todo := rest, notFound := nf } hig hinfo hmk] at hinv ⊢
      apply mu_drop _ hinv
      apply length_filter_lt_of_imp (m := m) _ hmU hold
      · simp [undoneP, keys]
      · intro x hx
        simp only [undoneP, Bool.and_eq_true, Bool.not_eq_eq_eq_not, Bool.not_true,
          List.contains_eq_mem, decide_eq_false_iff_not] at hx ⊢
        refine ⟨fun hk => hx.1 ?_, hx.2⟩
        simp only [keys, List.map_append, List.mem_append] at hk ⊢
        exact Or.inl hk

end mu

/-! ### the loop -/

theorem inv_perm {w : World} {init : List Name} {deps : Graph} {t t' nf : List Name}
    (h : Inv w init { deps := deps, todo := t, notFound := nf }) (hp : t.Perm t') :
    Inv w init { deps := deps, todo := t', notFound := nf } where
  todoNodup := hp.nodup_iff.mp h.todoNodup
  keysNodup := h.keysNodup
  todoU := fun x hx => h.todoU x (hp.mem_iff.mpr hx)
  todoKeys := fun x hx => h.todoKeys x (hp.mem_iff.mpr hx)
  todoNF := fun x hx => h.todoNF x (hp.mem_iff.mpr hx)
  entry := h.entry
  closed := by
    intro k ds d hk hd
    rcases h.closed k ds d hk hd with h1 | h1 | h1
    · exact .inl h1
    · exact .inr (.inl (hp.mem_iff.mp h1))
    · exact .inr (.inr h1)
  initC := by
    intro x hx
    rcases h.initC x hx with h1 | h1
    · exact .inl (hp.mem_iff.mp h1)
    · exact .inr h1
  sound := by
    intro x hx
    apply h.sound
    rcases hx with h1 | h1
    · exact .inl (hp.mem_iff.mpr h1)
    · exact .inr h1
  nf := h.nf

theorem mu_perm {w : World} {init : List Name} {deps : Graph} {t t' nf : List Name}
    (hp : t.Perm t') :
    mu w init { deps := deps, todo := t, notFound := nf } =
      mu w init { deps := deps, todo := t', notFound := nf } := by
  have : undoneP { deps := deps, todo := t, notFound := nf } =
      undoneP { deps := deps, todo := t', notFound := nf } := rfl
  simp [mu, this, hp.length_eq]

theorem stepC_spec {w : World} {init : List Name} {s : St} (i : Nat) (h : Inv w init s)
    (hne : s.todo ≠ []) : Inv w init (stepC w s i) ∧ mu w init (stepC w s i) < mu w init s := by
  obtain ⟨deps, todo, nf⟩ := s
  cases todo with
  | nil => exact absurd rfl hne
  | cons t ts =>
    have hk : i % (t :: ts).length < (t :: ts).length := Nat.mod_lt _ (by simp)
    have hp := getD_eraseIdx_perm (d := t) hk
    have h' := inv_perm h hp
    simp only [stepC]
    refine ⟨visit_inv h', ?_⟩
    have := visit_mu h'
    rw [← mu_perm hp] at this
    exact this

theorem runC_spec {w : World} {init : List Name} :
    ∀ (fuel : Nat) (o : List Nat) (s : St), Inv w init s → mu w init s ≤ fuel →
      Inv w init (runC w fuel o s) ∧ (runC w fuel o s).todo = [] := by
  intro fuel
  induction fuel with
  | zero =>
    intro o s h hmu
    refine ⟨h, ?_⟩
    have : s.todo.length = 0 := by unfold mu at hmu; omega
    simpa [runC] using this
  | succ fuel ih =>
    intro o s h hmu
    simp only [runC]
    split
    · rename_i heq; exact ⟨h, heq⟩
    · rename_i t ts heq
      have hne : s.todo ≠ [] := by rw [heq]; simp
      have := stepC_spec (o.headD 0) h hne
      exact ih _ _ this.1 (by omega)

theorem mu_init_le (w : World) (init : List Name) :
    mu w init { deps := [], todo := init, notFound := [] } ≤ fuelBound w init := by
  unfold mu fuelBound
  have h1 := filter_length_le (allNames w init)
    (undoneP { deps := [], todo := init, notFound := [] })
  have h2 : init.length ≤ (allNames w init).length := by simp [allNames]
  simp only at h2 ⊢
  generalize ((allNames w init).filter _).length = a at *
  generalize (allNames w init).length = N at *
  have : a * (N + 1) ≤ N * (N + 1) := Nat.mul_le_mul_right _ h1
  rw [Nat.succ_mul]
  omega

/-- the closure loop terminates within `fuelBound` iterations, for every pop order, and the
final state satisfies the invariant -/
theorem closureSt_spec (w : World) (init : List Name) (o : List Nat) (h : init.Nodup) :
    Inv w init (closureSt w init o) ∧ (closureSt w init o).todo = [] :=
  runC_spec _ _ _ (inv_init w init h) (mu_init_le w init)

end C27
