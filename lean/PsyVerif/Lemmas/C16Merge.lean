import PsyVerif.Lemmas.C16Base
/-! C16: correctness of `merge` after `check_for_clashes` has passed (model with
fixes/C16-defer-specialise.patch): under the side conditions that exclude the known findings 2–4 the
container phase and the symbol phase cannot raise, and every non-skipped symbol of the merged table ends
up in the receiving table exactly once or is absorbed by an equal entry.

Layer 0: the primitives seen through `getKey` / `ids` / `keys`. -/
set_option linter.unusedSectionVars false
namespace C16

/-! ### views of association lists -/

theorem getKey_mem_iff {e : Ents} (hn : (keys e).Nodup) {k : Name} {s : Sym} :
    getKey e k = some s ↔ (k, s) ∈ e := by
  constructor
  · exact getKey_some_mem
  · intro h
    cases hg : getKey e k with
    | none => exact absurd (List.mem_map.mpr ⟨_, h, rfl⟩) (getKey_none_iff.mp hg)
    | some s' => rw [unique_of_nodup hn (getKey_some_mem hg) h]

theorem getKey_some_key {e : Ents} {k : Name} {s : Sym} (h : getKey e k = some s) : k ∈ keys e :=
  List.mem_map.mpr ⟨_, getKey_some_mem h, rfl⟩

theorem getKey_some_id {e : Ents} {k : Name} {s : Sym} (h : getKey e k = some s) : s.id ∈ ids e :=
  List.mem_map.mpr ⟨_, getKey_some_mem h, rfl⟩

theorem mem_ids_iff {e : Ents} {j : Nat} : j ∈ ids e ↔ ∃ p ∈ e, p.2.id = j := by
  simp [ids]

theorem getId_of_mem {e : Ents} (hn : (ids e).Nodup) {k : Name} {s : Sym} (h : (k, s) ∈ e) :
    getId e s.id = some s := by
  induction e with
  | nil => simp at h
  | cons p r ih =>
    obtain ⟨a, s'⟩ := p
    simp only [ids, List.map_cons, List.nodup_cons] at hn
    simp only [getId]
    rcases List.mem_cons.mp h with h | h
    · injection h with _ h2; subst h2; simp
    · split
      · rename_i hid
        exfalso; apply hn.1
        simp at hid
        exact List.mem_map.mpr ⟨_, h, by simp [hid]⟩
      · exact ih hn.2 h

/-- two entries with the same identity are the same entry -/
theorem key_eq_of_id_eq {e : Ents} (hn : (ids e).Nodup) {k1 k2 : Name} {a b : Sym}
    (ha : (k1, a) ∈ e) (hb : (k2, b) ∈ e) (hid : a.id = b.id) : k1 = k2 ∧ a = b := by
  induction e with
  | nil => simp at ha
  | cons p r ih =>
    simp only [ids, List.map_cons, List.nodup_cons] at hn
    rcases List.mem_cons.mp ha with ha | ha <;> rcases List.mem_cons.mp hb with hb | hb
    · rw [← ha] at hb; injection hb with h1 h2; exact ⟨h1.symm, h2.symm⟩
    · exfalso; apply hn.1; rw [← ha]; exact List.mem_map.mpr ⟨_, hb, by simp [hid]⟩
    · exfalso; apply hn.1; rw [← hb]; exact List.mem_map.mpr ⟨_, ha, by simp [hid]⟩
    · exact ih hn.2 ha hb

theorem getKey_delKey_ne (e : Ents) {k k' : Name} (h : k' ≠ k) : getKey (delKey e k) k' = getKey e k' := by
  induction e with
  | nil => simp [delKey, getKey]
  | cons p r ih =>
    obtain ⟨a, s⟩ := p
    simp only [delKey]
    split
    · rename_i hak; simp at hak; subst hak
      simp only [getKey]
      have : (a == k') = false := by simpa using fun h' => h h'.symm
      rw [this]; rfl
    · simp only [getKey]; rw [ih]

theorem getKey_delKey_self {e : Ents} (hn : (keys e).Nodup) (k : Name) : getKey (delKey e k) k = none :=
  getKey_none_iff.mpr (not_mem_keys_delKey hn k)

theorem getKey_snoc (e : Ents) (k1 : Name) (s : Sym) (k : Name) :
    getKey (e ++ [(k1, s)]) k = match getKey e k with
      | some x => some x
      | none => if k1 = k then some s else none := by
  rw [getKey_append]
  cases getKey e k with
  | some x => rfl
  | none => simp only [getKey]; by_cases h : k1 = k <;> simp [h]

theorem getKey_updKey (e : Ents) (k0 : Name) (f : Sym → Sym) (k : Name) :
    getKey (updKey e k0 f) k = if k0 = k then (getKey e k).map f else getKey e k := by
  induction e with
  | nil => simp [updKey, getKey]
  | cons p r ih =>
    obtain ⟨a, s⟩ := p
    by_cases ha : a = k0 <;> by_cases hk : a = k
    · subst ha; subst hk; simp [updKey, getKey]
    · subst ha; simp [updKey, getKey, hk]
    · subst hk
      have h2 : ¬ k0 = a := fun h => ha h.symm
      simp [updKey, getKey, ha, h2]
    · simp only [updKey, getKey, beq_iff_eq, ha, hk, if_false]; exact ih

theorem mem_keys_delKey {e : Ents} {k k' : Name} (h : k' ∈ keys e) (hne : k' ≠ k) : k' ∈ keys (delKey e k) := by
  simp only [keys, List.mem_map] at h ⊢
  obtain ⟨p, hp, rfl⟩ := h
  exact ⟨p, mem_delKey_of_ne hp hne, rfl⟩

theorem ids_delKey_sublist (e : Ents) (k : Name) : (ids (delKey e k)).Sublist (ids e) := by
  induction e with
  | nil => simp [delKey, ids]
  | cons q r ih =>
    obtain ⟨a, s⟩ := q
    simp only [delKey]
    split
    · simp [ids]
    · simp only [ids, List.map_cons]; exact List.Sublist.cons_cons _ ih

theorem ids_delKey_mem {e : Ents} {k : Name} {j : Nat} (h : j ∈ ids (delKey e k)) : j ∈ ids e :=
  (ids_delKey_sublist e k).subset h

/-- deleting the entry of `s` removes its identity (identities are distinct) -/
theorem id_not_mem_delKey {e : Ents} (hk : (keys e).Nodup) (hi : (ids e).Nodup) {k : Name} {s : Sym}
    (hs : (k, s) ∈ e) : s.id ∉ ids (delKey e k) := by
  intro h
  obtain ⟨p, hp, hpid⟩ := mem_ids_iff.mp h
  have hp' := mem_delKey hp
  have := key_eq_of_id_eq hi hp' hs hpid
  have hk' : p.1 ∈ keys (delKey e k) := List.mem_map.mpr ⟨_, hp, rfl⟩
  rw [this.1] at hk'
  exact not_mem_keys_delKey hk k hk'


/-! ### Layer 1: the primitives in closed form -/

theorem addSym_none_ok {t : Table} {s : Sym} (hk : lower s.name ∉ keys t.ents) :
    addSym t [] s none = .ok { t with ents := t.ents ++ [(lower s.name, s)] } := by
  unfold addSym
  have : hasKey t.ents (lower s.name) = false := hasKey_false_iff.mpr hk
  simp [this]

theorem addSym_none_err {t : Table} {s : Sym} (hk : lower s.name ∈ keys t.ents) :
    addSym t [] s none = .error .key := by
  unfold addSym
  have : hasKey t.ents (lower s.name) = true := hasKey_iff.mpr hk
  simp [this]

/-- the table after `add(s)` -/
def added (t : Table) (s : Sym) : Table := { t with ents := t.ents ++ [(lower s.name, s)] }

/-- the table after `rename_symbol(s, nn)` where `s` is stored under key `k` -/
def renamed (t : Table) (k : Name) (s : Sym) (nn : Name) : Table :=
  { t with ents := delKey t.ents k ++ [(lower nn, { s with name := nn })] }

theorem renameSym_ok {t : Table} {s : Sym} {k nn : Name} (hi : TInv t) (hn : (ids t.ents).Nodup)
    (hs : getKey t.ents k = some s) (hr : renamable s = true) (hf : lower nn ∉ keys t.ents) :
    renameSym t s.id nn false = .ok (renamed t k s nn) := by
  have hmem := getKey_some_mem hs
  have hk : k = lower s.name := hi.keyName _ hmem
  unfold renameSym
  rw [getId_of_mem hn hmem]
  have : hasKey t.ents (lower nn) = false := hasKey_false_iff.mpr hf
  simp [hr, this, renamed, hk]

theorem renameSym_not_renamable {t : Table} {s : Sym} {k nn : Name} {dry : Bool} (hn : (ids t.ents).Nodup)
    (hs : getKey t.ents k = some s) (hr : renamable s = false) :
    renameSym t s.id nn dry = .error .symbol := by
  unfold renameSym
  rw [getId_of_mem hn (getKey_some_mem hs)]
  simp [hr]

section renamedFacts
variable {t : Table} {s : Sym} {k nn : Name} (hi : TInv t) (hn : (ids t.ents).Nodup)
  (hs : getKey t.ents k = some s) (hf : lower nn ∉ keys t.ents)
include hi hn hs hf

theorem renamed_inv : TInv (renamed t k s nn) := by
  have hmem := getKey_some_mem hs
  have hk : k = lower s.name := hi.keyName _ hmem
  refine ⟨?_, ?_, ?_⟩
  · intro p hp
    rcases List.mem_append.mp hp with hp | hp
    · exact hi.keyName p (mem_delKey hp)
    · simp at hp; subst hp; rfl
  · show (keys (delKey t.ents k ++ [(lower nn, _)])).Nodup
    simp only [keys, List.map_append, List.map_cons, List.map_nil]
    apply List.Nodup.append ((keys_delKey_sublist _ _).nodup hi.nodup) (by simp)
    intro a ha hb; simp at hb; subst hb
    exact hf ((keys_delKey_sublist _ _).subset ha)
  · intro g hg
    have := ids_after_rename hi.keyName hi.nodup hmem (lower nn, { s with name := nn }) rfl _ (hi.tags g hg)
    rw [hk]; exact this

theorem renamed_ids_nodup : (ids (renamed t k s nn).ents).Nodup := by
  show (ids (delKey t.ents k ++ [(lower nn, _)])).Nodup
  simp only [ids, List.map_append, List.map_cons, List.map_nil]
  apply List.Nodup.append ((ids_delKey_sublist _ _).nodup hn) (by simp)
  intro a ha hb; simp at hb; subst hb
  exact id_not_mem_delKey hi.nodup hn (getKey_some_mem hs) ha

theorem renamed_ids_iff (j : Nat) : j ∈ ids (renamed t k s nn).ents ↔ j ∈ ids t.ents := by
  have hmem := getKey_some_mem hs
  show j ∈ ids (delKey t.ents k ++ [(lower nn, _)]) ↔ _
  simp only [ids, List.map_append, List.map_cons, List.map_nil, List.mem_append, List.mem_singleton]
  constructor
  · rintro (h | h)
    · exact ids_delKey_mem h
    · rw [h]; exact List.mem_map.mpr ⟨_, hmem, rfl⟩
  · intro h
    obtain ⟨p, hp, hpid⟩ := mem_ids_iff.mp h
    by_cases hpk : p.1 = k
    · right
      have : p.2 = s := unique_of_nodup hi.nodup (by rw [← hpk]; exact hp) hmem
      rw [← hpid, this]
    · left; exact List.mem_map.mpr ⟨p, mem_delKey_of_ne hp hpk, hpid⟩

theorem renamed_getKey_ne {k' : Name} (h1 : k' ≠ k) (h2 : k' ≠ lower nn) :
    getKey (renamed t k s nn).ents k' = getKey t.ents k' := by
  show getKey (delKey t.ents k ++ [(lower nn, _)]) k' = _
  rw [getKey_snoc, getKey_delKey_ne _ h1]
  cases getKey t.ents k' with
  | some x => rfl
  | none => simp only; rw [if_neg (fun h => h2 h.symm)]

theorem renamed_getKey_old : getKey (renamed t k s nn).ents k = none := by
  show getKey (delKey t.ents k ++ [(lower nn, _)]) k = _
  rw [getKey_snoc, getKey_delKey_self hi.nodup]
  have : lower nn ≠ k := fun h => hf (h ▸ getKey_some_key hs)
  simp [this]

theorem renamed_keys_iff (k' : Name) :
    k' ∈ keys (renamed t k s nn).ents ↔ (k' ∈ keys t.ents ∧ k' ≠ k) ∨ k' = lower nn := by
  show k' ∈ keys (delKey t.ents k ++ [(lower nn, _)]) ↔ _
  simp only [keys, List.map_append, List.map_cons, List.map_nil, List.mem_append, List.mem_singleton]
  constructor
  · rintro (h | h)
    · left
      refine ⟨(keys_delKey_sublist _ _).subset h, ?_⟩
      intro hk; subst hk; exact not_mem_keys_delKey hi.nodup _ h
    · right; exact h
  · rintro (⟨h1, h2⟩ | h)
    · left; exact mem_keys_delKey h1 h2
    · right; exact h

end renamedFacts

section addedFacts
variable {t : Table} {s : Sym} (hi : TInv t) (hk : lower s.name ∉ keys t.ents)
include hi hk

theorem added_inv : TInv (added t s) := addSym_inv hi (addSym_none_ok hk)

theorem added_getKey (k' : Name) : getKey (added t s).ents k' =
    match getKey t.ents k' with
    | some x => some x
    | none => if lower s.name = k' then some s else none := getKey_snoc _ _ _ _

omit hi hk in
theorem added_ids : ids (added t s).ents = ids t.ents ++ [s.id] := by simp [added, ids]

omit hi hk in
theorem added_keys : keys (added t s).ents = keys t.ents ++ [lower s.name] := by simp [added, keys]

omit hi hk in
theorem added_ids_nodup (hn : (ids t.ents).Nodup) (hid : s.id ∉ ids t.ents) : (ids (added t s).ents).Nodup := by
  rw [added_ids]
  apply List.Nodup.append hn (by simp)
  intro a ha hb; simp at hb; subst hb; exact hid ha

end addedFacts

theorem getKey_chain_self (e : Ents) (anc : List Ents) {k : Name} {s : Sym} (h : getKey e k = some s) :
    getKey (mergeDicts [] (e :: anc)) k = some s := by
  rw [getKey_mergeDicts]; simp [getKey, firstHit, h]

theorem keys_sub_chain (e : Ents) (anc : List Ents) {k : Name} (h : k ∈ keys e) :
    k ∈ keys (mergeDicts [] (e :: anc)) := by
  by_contra hc
  exact keys_mergeDicts_nil hc e (by simp) h

theorem fresh_self (cx : MergeCtx) (self other : Table) (root : Name) :
    lower (nextName (existingNames cx self other) root) ∉ keys self.ents := by
  intro h
  apply nextName_fresh (existingNames cx self other) root
  unfold existingNames
  exact List.mem_append.mpr (Or.inl (keys_sub_chain _ _ h))

theorem fresh_other (cx : MergeCtx) (self other : Table) (root : Name) :
    lower (nextName (existingNames cx self other) root) ∉ keys other.ents := by
  intro h
  apply nextName_fresh (existingNames cx self other) root
  unfold existingNames
  exact List.mem_append.mpr (Or.inr h)


/-! ### Layer 2: the symbol phase (`_add_symbols_from_table`) -/

/-- what `check_for_clashes` establishes for a clashing pair -/
def PairOK (this o : Sym) : Prop :=
  (this.kind = .container ∧ o.kind = .container) ∨ (this.iface.isImport = true ∧ o.iface.isImport = true) ∨
  (this.iface = .unresolved ∧ o.iface = .unresolved) ∨ renamable this = true ∨ renamable o = true

/-- the import has been re-pointed to a container entry of the receiving table, and whatever the receiving
table holds under the import's own name is itself imported -/
def Resolved (self : Table) (i : Sym) : Prop :=
  (∀ cid cname orig, i.iface = .imp cid cname orig →
     ∃ sc, getKey self.ents (lower cname) = some sc ∧ sc.id = cid ∧ sc.kind = .container) ∧
  (∀ this, getKey self.ents (lower i.name) = some this → this.iface.isImport = true)

/-- entries that cannot be renamed stay where they are (same identity, class and interface) -/
def Persist (a b : Table) : Prop :=
  ∀ k q, getKey a.ents k = some q → renamable q = false →
    ∃ q', getKey b.ents k = some q' ∧ q'.id = q.id ∧ q'.kind = q.kind ∧ q'.iface = q.iface

theorem Persist.refl (a : Table) : Persist a a := fun _ q h _ => ⟨q, h, rfl, rfl, rfl⟩

theorem renamable_congr {q q' : Sym} (hk : q'.kind = q.kind) (hi : q'.iface = q.iface) :
    renamable q' = renamable q := by simp [renamable, hk, hi]

theorem Persist.trans {a b c : Table} (h1 : Persist a b) (h2 : Persist b c) : Persist a c := by
  intro k q hq hr
  obtain ⟨q', hq', e1, e2, e3⟩ := h1 k q hq hr
  obtain ⟨q'', hq'', f1, f2, f3⟩ := h2 k q' hq' (by rw [renamable_congr e2 e3]; exact hr)
  exact ⟨q'', hq'', by rw [f1, e1], by rw [f2, e2], by rw [f3, e3]⟩

theorem Persist_added (t : Table) (s : Sym) : Persist t (added t s) := by
  intro k q hq _
  refine ⟨q, ?_, rfl, rfl, rfl⟩
  show getKey (t.ents ++ [(lower s.name, s)]) k = some q
  rw [getKey_snoc, hq]

theorem Persist_renamed {t : Table} {s : Sym} {k nn : Name} (hi : TInv t) (hn : (ids t.ents).Nodup)
    (hs : getKey t.ents k = some s) (hf : lower nn ∉ keys t.ents) (hr : renamable s = true) :
    Persist t (renamed t k s nn) := by
  intro k' q hq hrq
  refine ⟨q, ?_, rfl, rfl, rfl⟩
  rw [renamed_getKey_ne hi hn hs hf]
  · exact hq
  · intro hk; subst hk; rw [hs] at hq; cases hq; rw [hr] at hrq; cases hrq
  · intro hk; subst hk; exact hf (getKey_some_key hq)

theorem Resolved_of_persist {a b : Table} {i : Sym} (hp : Persist a b)
    (hget : getKey b.ents (lower i.name) = getKey a.ents (lower i.name)) (h : Resolved a i) : Resolved b i := by
  refine ⟨?_, ?_⟩
  · intro cid cname orig hif
    obtain ⟨sc, h1, h2, h3⟩ := h.1 cid cname orig hif
    obtain ⟨q', hq', e1, e2, _⟩ := hp _ sc h1 (by simp [renamable, h3])
    exact ⟨q', hq', by rw [e1, h2], by rw [e2, h3]⟩
  · intro this ht; rw [hget] at ht; exact h.2 this ht

/-- the invariant of the symbol phase; `L` = the symbols of the merged table still to be processed -/
structure I2 (cx : MergeCtx) (S O : Table) (L : List Sym) : Prop where
  si : TInv S
  oi : TInv O
  sn : (ids S.ents).Nodup
  on : (ids O.ents).Nodup
  val : ∀ o ∈ L, getKey O.ents (lower o.name) = some o
  lnd : (L.map fun o => lower o.name).Nodup
  dj : ∀ o ∈ L, o.kind ≠ .container → o.id ∉ ids S.ents
  pr : ∀ o ∈ L, o.id ∉ cx.skip → o.kind ≠ .container → o.iface.isImport = false →
        ∀ this, getKey S.ents (lower o.name) = some this → PairOK this o
  ir : ∀ o ∈ L, o.iface.isImport = true → Resolved S o

theorem I2_tail_same {cx : MergeCtx} {self other : Table} {o : Sym} {r : List Sym} (h : I2 cx self other (o :: r)) :
    I2 cx self other r :=
  ⟨h.si, h.oi, h.sn, h.on, fun x hx => h.val x (List.mem_cons_of_mem _ hx),
   (List.nodup_cons.mp (by simpa using h.lnd)).2,
   fun x hx => h.dj x (List.mem_cons_of_mem _ hx), fun x hx => h.pr x (List.mem_cons_of_mem _ hx),
   fun x hx => h.ir x (List.mem_cons_of_mem _ hx)⟩

theorem I2_head_key_ne {cx : MergeCtx} {self other : Table} {o : Sym} {r : List Sym} (h : I2 cx self other (o :: r))
    {x : Sym} (hx : x ∈ r) : lower x.name ≠ lower o.name := by
  have := List.nodup_cons.mp (by simpa using h.lnd : (lower o.name :: r.map fun o => lower o.name).Nodup)
  intro he; apply this.1; rw [← he]; exact List.mem_map.mpr ⟨x, hx, rfl⟩

/-- generic preservation: the new tables agree with the old ones on everything the remaining symbols see -/
theorem I2_step {cx : MergeCtx} {self other s' o' : Table} {o : Sym} {r : List Sym}
    (h : I2 cx self other (o :: r)) (hsi : TInv s') (hsn : (ids s'.ents).Nodup) (hoi : TInv o')
    (hon : (ids o'.ents).Nodup)
    (hval : ∀ x ∈ r, getKey o'.ents (lower x.name) = getKey other.ents (lower x.name))
    (hids : ∀ j, j ∈ ids s'.ents → j ∈ ids self.ents ∨ j = o.id)
    (hget : ∀ x ∈ r, getKey s'.ents (lower x.name) = getKey self.ents (lower x.name))
    (hpers : Persist self s') : I2 cx s' o' r := by
  refine ⟨hsi, hoi, hsn, hon, ?_, (List.nodup_cons.mp (by simpa using h.lnd)).2, ?_, ?_, ?_⟩
  · intro x hx; rw [hval x hx]; exact h.val x (List.mem_cons_of_mem _ hx)
  · intro x hx hxc hmem
    rcases hids _ hmem with hm | hm
    · exact h.dj x (List.mem_cons_of_mem _ hx) hxc hm
    · have h1 := getKey_some_mem (h.val x (List.mem_cons_of_mem _ hx))
      have h2 := getKey_some_mem (h.val o List.mem_cons_self)
      exact I2_head_key_ne h hx (key_eq_of_id_eq h.on h1 h2 hm).1
  · intro x hx h1 h2 h3 this ht
    rw [hget x hx] at ht
    exact h.pr x (List.mem_cons_of_mem _ hx) h1 h2 h3 this ht
  · intro x hx hxi
    exact Resolved_of_persist hpers (hget x hx) (h.ir x (List.mem_cons_of_mem _ hx) hxi)

/-- the symbol absorbed by an entry of the same name that is also imported / also unresolved -/
def Absorbed (S : Table) (o : Sym) : Prop :=
  ∃ q, getKey S.ents (lower o.name) = some q ∧ q.id ≠ o.id ∧
    ((q.iface.isImport = true ∧ o.iface.isImport = true) ∨ (q.iface = .unresolved ∧ o.iface = .unresolved))

theorem Absorbed_of_persist {a b : Table} {o : Sym} (hp : Persist a b) (h : Absorbed a o) : Absorbed b o := by
  obtain ⟨q, hq, hne, hc⟩ := h
  have hr : renamable q = false := by
    rcases hc with ⟨h1, _⟩ | ⟨h1, _⟩ <;> simp [renamable, h1]
  obtain ⟨q', hq', e1, _, e3⟩ := hp _ q hq hr
  exact ⟨q', hq', by rw [e1]; exact hne, by rw [e3]; exact hc⟩

/-- one iteration of the loop of `_add_symbols_from_table` -/
def symStep (cx : MergeCtx) (self other : Table) (o : Sym) : MR :=
  if o.id ∈ cx.skip || o.kind == .container then ⟨none, self, other⟩
  else
    match addSym self [] o none with
    | .ok self' => ⟨none, self', other⟩
    | .error _ => handleClash cx self other o

theorem symbolLoop_cons (cx : MergeCtx) (o : Sym) (r : List Sym) (self other : Table) :
    symbolLoop cx (o :: r) self other =
      match symStep cx self other o with
      | ⟨none, s', o'⟩ => symbolLoop cx r s' o'
      | res => res := by
  simp only [symbolLoop, symStep]
  split
  · rfl
  · split
    · rename_i heq; rw [heq]
    · rename_i heq; rw [heq]; rfl

theorem symStep_ok {cx : MergeCtx} {self other : Table} {o : Sym} {r : List Sym} (h : I2 cx self other (o :: r)) :
    ∃ s' o', symStep cx self other o = ⟨none, s', o'⟩ ∧ I2 cx s' o' r ∧ Persist self s' ∧
      (∀ j ∈ ids self.ents, j ∈ ids s'.ents) ∧
      (o.id ∉ cx.skip → o.kind ≠ .container → o.id ∈ ids s'.ents ∨ Absorbed s' o) := by
  have hoval := h.val o List.mem_cons_self
  unfold symStep
  by_cases hskip : (decide (o.id ∈ cx.skip) || o.kind == .container) = true
  · rw [if_pos hskip]
    refine ⟨self, other, rfl, I2_tail_same h, Persist.refl _, fun j hj => hj, ?_⟩
    intro h1 h2; exfalso
    simp only [Bool.or_eq_true, decide_eq_true_eq, beq_iff_eq] at hskip
    rcases hskip with hh | hh
    · exact h1 hh
    · exact h2 hh
  · rw [if_neg hskip]
    have hns : o.id ∉ cx.skip := by intro hh; apply hskip; simp [hh]
    have hnc : o.kind ≠ .container := by intro hh; apply hskip; simp [hh]
    have hdj := h.dj o List.mem_cons_self hnc
    by_cases hk : lower o.name ∈ keys self.ents
    · -- name clash: `_handle_symbol_clash`
      rw [addSym_none_err hk]
      dsimp only
      obtain ⟨ss, hss⟩ : ∃ ss, getKey self.ents (lower o.name) = some ss := by
        cases hg : getKey self.ents (lower o.name) with
        | none => exact absurd hk (getKey_none_iff.mp hg)
        | some ss => exact ⟨ss, rfl⟩
      have hssne : ss.id ≠ o.id := fun he => hdj (he ▸ getKey_some_id hss)
      unfold handleClash
      split
      · -- imported symbol: already re-pointed to a container of this table
        rename_i cid cname orig hif
        have hres := h.ir o List.mem_cons_self (by simp [hif, Iface.isImport])
        obtain ⟨sc, hsc, hscid, _⟩ := hres.1 cid cname orig hif
        rw [getKey_chain_self _ _ hsc]
        dsimp only
        rw [if_pos (by simp [hscid])]
        refine ⟨self, other, rfl, I2_tail_same h, Persist.refl _, fun j hj => hj, ?_⟩
        intro _ _; right
        exact ⟨ss, hss, hssne, Or.inl ⟨hres.2 ss hss, by simp [hif, Iface.isImport]⟩⟩
      · rename_i hnimp
        have hni : o.iface.isImport = false := by
          cases hif : o.iface <;> simp [Iface.isImport]
          exact hnimp _ _ _ hif
        rw [hss]
        dsimp only
        by_cases hun : (o.iface == .unresolved && ss.iface == .unresolved) = true
        · rw [if_pos hun]
          refine ⟨self, other, rfl, I2_tail_same h, Persist.refl _, fun j hj => hj, ?_⟩
          intro _ _; right
          simp only [Bool.and_eq_true, beq_iff_eq] at hun
          exact ⟨ss, hss, hssne, Or.inr ⟨hun.2, hun.1⟩⟩
        · rw [if_neg hun]
          have hf1 := fresh_self cx self other o.name
          have hf2 := fresh_other cx self other o.name
          generalize nextName (existingNames cx self other) o.name = nn at hf1 hf2 ⊢
          have hkeys_tail : ∀ x ∈ r, lower x.name ≠ lower o.name ∧ lower x.name ≠ lower nn := by
            intro x hx
            refine ⟨I2_head_key_ne h hx, ?_⟩
            intro he; apply hf2; rw [← he]
            exact getKey_some_key (h.val x (List.mem_cons_of_mem _ hx))
          by_cases hro : renamable o = true
          · -- the incoming symbol is renamed (in the merged table) and added
            rw [renameSym_ok h.oi h.on hoval hro hf2]
            dsimp only
            have hk' : lower ({ o with name := nn } : Sym).name ∉ keys self.ents := hf1
            rw [addSym_none_ok hk']
            dsimp only
            refine ⟨added self { o with name := nn }, renamed other (lower o.name) o nn, rfl, ?_,
              Persist_added _ _, ?_, ?_⟩
            · apply I2_step h (added_inv h.si hk') (added_ids_nodup h.sn hdj)
                (renamed_inv h.oi h.on hoval hf2) (renamed_ids_nodup h.oi h.on hoval hf2)
              · intro x hx
                exact renamed_getKey_ne h.oi h.on hoval hf2 (hkeys_tail x hx).1 (hkeys_tail x hx).2
              · intro j hj; rw [added_ids] at hj; simpa using hj
              · intro x hx
                rw [added_getKey h.si hk']
                have := (hkeys_tail x hx).2
                cases getKey self.ents (lower x.name) with
                | some y => rfl
                | none => simp only; rw [if_neg (fun he => this he.symm)]
              · exact Persist_added _ _
            · intro j hj; rw [added_ids]; simp [hj]
            · intro _ _; left; rw [added_ids]; simp
          · -- the incoming symbol cannot be renamed: the symbol of this table is
            have hro' : renamable o = false := by simpa using hro
            rw [renameSym_not_renamable h.on hoval hro']
            dsimp only
            have hpair := h.pr o List.mem_cons_self hns hnc hni ss hss
            have hrs : renamable ss = true := by
              rcases hpair with ⟨_, h2⟩ | ⟨_, h2⟩ | ⟨h1, h2⟩ | h1 | h1
              · exact absurd h2 hnc
              · rw [hni] at h2; cases h2
              · exfalso; apply hun; simp [h1, h2]
              · exact h1
              · rw [hro'] at h1; cases h1
            rw [renameSym_ok h.si h.sn hss hrs hf1]
            dsimp only
            have hne : lower nn ≠ lower o.name := fun he => hf1 (he ▸ hk)
            have hk' : lower o.name ∉ keys (renamed self (lower o.name) ss nn).ents := by
              rw [renamed_keys_iff h.si h.sn hss hf1]
              rintro (⟨_, h2⟩ | h2)
              · exact h2 rfl
              · exact hne h2.symm
            rw [addSym_none_ok hk']
            dsimp only
            have hri := renamed_inv h.si h.sn hss hf1
            have hrn := renamed_ids_nodup h.si h.sn hss hf1
            have hdj' : o.id ∉ ids (renamed self (lower o.name) ss nn).ents := by
              rw [renamed_ids_iff h.si h.sn hss hf1]; exact hdj
            refine ⟨added (renamed self (lower o.name) ss nn) o, other, rfl, ?_,
              (Persist_renamed h.si h.sn hss hf1 hrs).trans (Persist_added _ _), ?_, ?_⟩
            · apply I2_step h (added_inv hri hk') (added_ids_nodup hrn hdj') h.oi h.on (fun _ _ => rfl)
              · intro j hj; rw [added_ids] at hj
                rcases List.mem_append.mp hj with hj | hj
                · left; exact (renamed_ids_iff h.si h.sn hss hf1 j).mp hj
                · right; simpa using hj
              · intro x hx
                rw [added_getKey hri hk',
                  renamed_getKey_ne h.si h.sn hss hf1 (hkeys_tail x hx).1 (hkeys_tail x hx).2]
                have := (hkeys_tail x hx).1
                cases getKey self.ents (lower x.name) with
                | some y => rfl
                | none => simp only; rw [if_neg (fun he => this he.symm)]
              · exact (Persist_renamed h.si h.sn hss hf1 hrs).trans (Persist_added _ _)
            · intro j hj; rw [added_ids]
              exact List.mem_append.mpr (Or.inl ((renamed_ids_iff h.si h.sn hss hf1 j).mpr hj))
            · intro _ _; left; rw [added_ids]; simp
    · -- no clash: plain `add`
      rw [addSym_none_ok hk]
      dsimp only
      refine ⟨added self o, other, rfl, ?_, Persist_added _ _, ?_, ?_⟩
      · apply I2_step h (added_inv h.si hk) (added_ids_nodup h.sn hdj) h.oi h.on (fun _ _ => rfl)
        · intro j hj; rw [added_ids] at hj; simpa using hj
        · intro x hx
          rw [added_getKey h.si hk]
          have := I2_head_key_ne h hx
          cases getKey self.ents (lower x.name) with
          | some y => rfl
          | none => simp only; rw [if_neg (fun he => this he.symm)]
        · exact Persist_added _ _
      · intro j hj; rw [added_ids]; simp [hj]
      · intro _ _; left; rw [added_ids]; simp

/-- the symbol phase cannot raise, and every symbol it is asked to add ends up in the receiving table or is
absorbed by an imported / unresolved entry of the same name -/
theorem symbolLoop_ok {cx : MergeCtx} : ∀ (L : List Sym) {self other : Table}, I2 cx self other L →
    (symbolLoop cx L self other).err = none ∧ TInv (symbolLoop cx L self other).self ∧
    (ids (symbolLoop cx L self other).self.ents).Nodup ∧ Persist self (symbolLoop cx L self other).self ∧
    (∀ j ∈ ids self.ents, j ∈ ids (symbolLoop cx L self other).self.ents) ∧
    (∀ o ∈ L, o.id ∉ cx.skip → o.kind ≠ .container →
      o.id ∈ ids (symbolLoop cx L self other).self.ents ∨ Absorbed (symbolLoop cx L self other).self o) := by
  intro L; induction L with
  | nil =>
    intro self other h
    exact ⟨rfl, h.si, h.sn, Persist.refl _, fun j hj => hj, fun o ho => by simp at ho⟩
  | cons o r ih =>
    intro self other h
    obtain ⟨s', o', hstep, hI, hp, hm, ho⟩ := symStep_ok h
    rw [symbolLoop_cons, hstep]
    dsimp only
    obtain ⟨e1, e2, e3, e4, e5, e6⟩ := ih hI
    refine ⟨e1, e2, e3, hp.trans e4, fun j hj => e5 j (hm j hj), ?_⟩
    intro x hx h1 h2
    rcases List.mem_cons.mp hx with rfl | hx
    · rcases ho h1 h2 with h3 | h3
      · left; exact e5 _ h3
      · right; exact Absorbed_of_persist e4 h3
    · exact e6 x hx h1 h2

/-! ### Layer 3: the container phase (`_add_container_symbols_from_table`) -/

/-- side conditions on a symbol of the merged table: a skipped symbol is neither a ContainerSymbol nor
imported (excludes finding 2); a ContainerSymbol is neither imported nor unresolved (its interface is a
`FortranModuleInterface`) -/
def SymOK (skip : List Nat) (s : Sym) : Prop :=
  (s.id ∈ skip → s.kind ≠ .container ∧ s.iface.isImport = false) ∧
  (s.kind = .container → s.iface.isImport = false ∧ s.iface ≠ .unresolved)

/-- first half of the body of the loop over the container symbols: make `c` (or an existing container of
that name) available in this table -/
def conStep1 (cx : MergeCtx) (self other : Table) (c : Sym) : Except Err Table :=
  match getKey self.ents (lower c.name) with
  | some sc =>
    if sc.kind != .container then
      match renameFresh cx self other sc.id c.name with
      | .error e => .error e
      | .ok s' => addSym s' [] c none
    else if c.wild then .ok { self with ents := updKey self.ents (lower c.name) fun s => { s with wild := true } }
    else .ok self
  | none => addSym self [] c none

theorem containerLoop_cons (cx : MergeCtx) (c : Sym) (r : List Sym) (self other : Table) :
    containerLoop cx (c :: r) self other =
      match conStep1 cx self other c with
      | .error e => ⟨some e, self, other⟩
      | .ok self' =>
        match importLoop cx c (importedFrom other.ents c.id) self' other with
        | ⟨none, s', o'⟩ => containerLoop cx r s' o'
        | res => res := rfl

/-- body of the loop over the symbols imported from `c` -/
def impStep (cx : MergeCtx) (c : Sym) (self other : Table) (i : Sym) : MR :=
  let step1 : Except Err Table :=
    match getKey self.ents (lower i.name) with
    | some os => if !os.iface.isImport then renameFresh cx self other os.id os.name else .ok self
    | none => .ok self
  match step1 with
  | .error e => ⟨some e, self, other⟩
  | .ok self' =>
    match getKey (mergeDicts [] (self'.ents :: cx.selfAnc)) (lower c.name) with
    | none => ⟨some .key, self', other⟩
    | some sc =>
      let orig := match i.iface with | .imp _ _ o => o | _ => none
      ⟨none, self', { other with ents := updKey other.ents (lower i.name) fun s => { s with iface := .imp sc.id sc.name orig } }⟩

theorem importLoop_cons (cx : MergeCtx) (c i : Sym) (r : List Sym) (self other : Table) :
    importLoop cx c (i :: r) self other =
      match impStep cx c self other i with
      | ⟨none, s', o'⟩ => importLoop cx c r s' o'
      | res => res := by
  simp only [importLoop, impStep]
  cases getKey self.ents (lower i.name) with
  | none =>
    dsimp only
    cases getKey (mergeDicts [] (self.ents :: cx.selfAnc)) (lower c.name) <;> rfl
  | some os =>
    dsimp only
    by_cases hb : (!os.iface.isImport) = true
    · simp only [hb, if_true]
      cases renameFresh cx self other os.id os.name with
      | error e => rfl
      | ok s' =>
        dsimp only
        cases getKey (mergeDicts [] (s'.ents :: cx.selfAnc)) (lower c.name) <;> rfl
    · have hb' : (!os.iface.isImport) = false := by simpa using hb
      simp only [hb', Bool.false_eq_true, if_false]
      cases getKey (mergeDicts [] (self.ents :: cx.selfAnc)) (lower c.name) <;> rfl

/-- `P o`: the symbol `o` of the merged table is still to be dealt with (a remaining container, or any
non-container, which the symbol phase will add) -/
def Pending (C : List Sym) (o : Sym) : Prop := o.kind ≠ .container ∨ o ∈ C

/-- invariant of the loop over the symbols imported from container `c`; `R` = those still to be re-pointed -/
structure J (cx : MergeCtx) (S O : Table) (C : List Sym) (c : Sym) (R : List Sym) : Prop where
  si : TInv S
  oi : TInv O
  sn : (ids S.ents).Nodup
  on : (ids O.ents).Nodup
  cval : ∀ c' ∈ C, getKey O.ents (lower c'.name) = some c' ∧ c'.kind = .container
  cnd : (C.map fun c => lower c.name).Nodup
  wf : ∀ k o, getKey O.ents k = some o → SymOK cx.skip o
  dj : ∀ k o, getKey O.ents k = some o → Pending C o → o.id ∉ ids S.ents
  pr : ∀ k o, getKey O.ents k = some o → Pending C o → o.id ∉ cx.skip →
         ∀ this, getKey S.ents k = some this → PairOK this o
  ir : ∀ k i, getKey O.ents k = some i → i.iface.isImport = true →
         Resolved S i ∨ (∃ c' ∈ C, ∃ cn og, i.iface = .imp c'.id cn og) ∨ i ∈ R
  hc : ∃ sc, getKey S.ents (lower c.name) = some sc ∧ sc.kind = .container
  cin : getKey O.ents (lower c.name) = some c ∧ c.kind = .container
  rval : ∀ i ∈ R, getKey O.ents (lower i.name) = some i ∧ ∃ cn og, i.iface = .imp c.id cn og
  rnd : (R.map fun i => lower i.name).Nodup

/-- invariant of the loop over the container symbols; `C` = those still to be processed -/
structure I1 (cx : MergeCtx) (S O : Table) (C : List Sym) : Prop where
  si : TInv S
  oi : TInv O
  sn : (ids S.ents).Nodup
  on : (ids O.ents).Nodup
  cval : ∀ c' ∈ C, getKey O.ents (lower c'.name) = some c' ∧ c'.kind = .container
  cnd : (C.map fun c => lower c.name).Nodup
  wf : ∀ k o, getKey O.ents k = some o → SymOK cx.skip o
  dj : ∀ k o, getKey O.ents k = some o → Pending C o → o.id ∉ ids S.ents
  pr : ∀ k o, getKey O.ents k = some o → Pending C o → o.id ∉ cx.skip →
         ∀ this, getKey S.ents k = some this → PairOK this o
  ir : ∀ k i, getKey O.ents k = some i → i.iface.isImport = true →
         Resolved S i ∨ (∃ c' ∈ C, ∃ cn og, i.iface = .imp c'.id cn og)

theorem key_of_getKey {t : Table} (hi : TInv t) {k : Name} {s : Sym} (h : getKey t.ents k = some s) :
    k = lower s.name := hi.keyName _ (getKey_some_mem h)

/-- two entries of a table with nodup identities: equal identity → equal key -/
theorem key_eq_of_getKey_id {t : Table} (hn : (ids t.ents).Nodup) {k1 k2 : Name} {a b : Sym}
    (ha : getKey t.ents k1 = some a) (hb : getKey t.ents k2 = some b) (hid : a.id = b.id) : k1 = k2 :=
  (key_eq_of_id_eq hn (getKey_some_mem ha) (getKey_some_mem hb) hid).1

theorem SymOK_import {skip : List Nat} {i : Sym} (h : SymOK skip i) (hi : i.iface.isImport = true) :
    i.id ∉ skip ∧ i.kind ≠ .container := by
  constructor
  · intro hs; have := (h.1 hs).2; rw [hi] at this; cases this
  · intro hc; have := (h.2 hc).1; rw [hi] at this; cases this

/-- generic preservation of `J` by one iteration of the loop over the imported symbols -/
theorem J_step {cx : MergeCtx} {S O S' : Table} {C : List Sym} {c i : Sym} {R : List Sym}
    (h : J cx S O C c (i :: R)) (sc : Sym) (orig : Option Name)
    (hsi : TInv S') (hsn : (ids S'.ents).Nodup) (hids : ∀ j, j ∈ ids S'.ents ↔ j ∈ ids S.ents)
    (hpers : Persist S S')
    (hget : ∀ k, k ∈ keys O.ents → k ≠ lower i.name → getKey S'.ents k = getKey S.ents k)
    (hown : ∀ this, getKey S'.ents (lower i.name) = some this → this.iface.isImport = true)
    (hsc : getKey S'.ents (lower c.name) = some sc) (hsck : sc.kind = .container) :
    J cx S' { O with ents := updKey O.ents (lower i.name) fun s => { s with iface := .imp sc.id sc.name orig } }
      C c R := by
  have hiv := (h.rval i List.mem_cons_self).1
  obtain ⟨cn, og, hif⟩ := (h.rval i List.mem_cons_self).2
  have hii : i.iface.isImport = true := by simp [hif, Iface.isImport]
  obtain ⟨hins, hinc⟩ := SymOK_import (h.wf _ _ hiv) hii
  -- the entries of the updated merged table
  have hO' : ∀ k o', getKey (updKey O.ents (lower i.name) fun s => { s with iface := .imp sc.id sc.name orig }) k = some o' →
      (k ≠ lower i.name ∧ getKey O.ents k = some o') ∨
      (k = lower i.name ∧ o' = { i with iface := .imp sc.id sc.name orig }) := by
    intro k o' ho'
    rw [getKey_updKey] at ho'
    by_cases hk : lower i.name = k
    · rw [if_pos hk, ← hk, hiv] at ho'
      right; exact ⟨hk.symm, by simpa using ho'.symm⟩
    · rw [if_neg hk] at ho'
      left; exact ⟨fun e => hk e.symm, ho'⟩
  have hOsame : ∀ k, k ≠ lower i.name →
      getKey (updKey O.ents (lower i.name) fun s => { s with iface := .imp sc.id sc.name orig }) k = getKey O.ents k := by
    intro k hk; rw [getKey_updKey, if_neg (fun e => hk e.symm)]
  -- a container entry is not stored under the key of the import
  have hcont_ne : ∀ c', getKey O.ents (lower c'.name) = some c' → c'.kind = .container → lower c'.name ≠ lower i.name := by
    intro c' h1 h2 he
    rw [he, hiv] at h1
    cases h1; exact hinc h2
  refine ⟨hsi, updKey_inv h.oi (fun _ => ⟨rfl, rfl⟩), hsn, ?_, ?_, h.cnd, ?_, ?_, ?_, ?_,
    ⟨sc, hsc, hsck⟩, ?_, ?_, (List.nodup_cons.mp (by simpa using h.rnd)).2⟩
  · show (ids (updKey O.ents _ _)).Nodup
    rw [ids_updKey O.ents (lower i.name) (fun s => { s with iface := .imp sc.id sc.name orig }) (fun _ => rfl)]
    exact h.on
  · intro c' hc'
    obtain ⟨h1, h2⟩ := h.cval c' hc'
    exact ⟨by show getKey (updKey O.ents _ _) _ = _; rw [hOsame _ (hcont_ne c' h1 h2)]; exact h1, h2⟩
  · intro k o' ho'
    rcases hO' k o' ho' with ⟨_, h1⟩ | ⟨_, rfl⟩
    · exact h.wf _ _ h1
    · exact ⟨fun hs => absurd hs hins, fun hc => absurd hc hinc⟩
  · intro k o' ho' hp
    rw [hids]
    rcases hO' k o' ho' with ⟨_, h1⟩ | ⟨_, rfl⟩
    · exact h.dj _ _ h1 hp
    · exact (h.dj _ i hiv (Or.inl hinc) : i.id ∉ ids S.ents)
  · intro k o' ho' hp hsk this ht
    rcases hO' k o' ho' with ⟨hk, h1⟩ | ⟨hk, rfl⟩
    · rw [hget k (getKey_some_key h1) hk] at ht
      exact h.pr _ _ h1 hp hsk this ht
    · subst hk
      exact Or.inr (Or.inl ⟨hown this ht, by simp [Iface.isImport]⟩)
  · intro k j hj hji
    rcases hO' k j hj with ⟨hk, h1⟩ | ⟨hk, rfl⟩
    · have hkj : k = lower j.name := key_of_getKey h.oi h1
      rcases h.ir _ _ h1 hji with h2 | h2 | h2
      · left
        refine Resolved_of_persist hpers ?_ h2
        rw [← hkj]; exact hget k (getKey_some_key h1) hk
      · right; left; exact h2
      · rcases List.mem_cons.mp h2 with rfl | h2
        · exact absurd hkj hk
        · right; right; exact h2
    · left
      refine ⟨?_, ?_⟩
      · intro cid cname orig' hif'
        simp only [Iface.imp.injEq] at hif'
        obtain ⟨rfl, rfl, _⟩ := hif'
        refine ⟨sc, ?_, rfl, hsck⟩
        rw [← key_of_getKey hsi hsc]; exact hsc
      · exact hown
  · obtain ⟨h1, h2⟩ := h.cin
    exact ⟨by show getKey (updKey O.ents _ _) _ = _; rw [hOsame _ (hcont_ne c h1 h2)]; exact h1, h2⟩
  · intro j hj
    obtain ⟨h1, h2⟩ := h.rval j (List.mem_cons_of_mem _ hj)
    refine ⟨?_, h2⟩
    show getKey (updKey O.ents _ _) _ = _
    rw [hOsame]; exact h1
    intro he
    have := List.nodup_cons.mp (by simpa using h.rnd : (lower i.name :: R.map fun i => lower i.name).Nodup)
    apply this.1; rw [← he]; exact List.mem_map.mpr ⟨j, hj, rfl⟩

/-- the entries of the merged table keep their key, identity, name and class; only the interface of an
imported symbol may be re-pointed -/
def Corr (O O' : Table) : Prop :=
  ∀ k p, getKey O.ents k = some p → ∃ p', getKey O'.ents k = some p' ∧ p'.id = p.id ∧ p'.name = p.name ∧
    p'.kind = p.kind ∧ p'.iface.isImport = p.iface.isImport ∧ (p.iface.isImport = false → p'.iface = p.iface)

theorem Corr.refl (O : Table) : Corr O O := fun _ p h => ⟨p, h, rfl, rfl, rfl, rfl, fun _ => rfl⟩

theorem Corr.trans {a b c : Table} (h1 : Corr a b) (h2 : Corr b c) : Corr a c := by
  intro k p hp
  obtain ⟨p', hp', e1, e2, e3, e4, e5⟩ := h1 k p hp
  obtain ⟨p'', hp'', f1, f2, f3, f4, f5⟩ := h2 k p' hp'
  refine ⟨p'', hp'', by rw [f1, e1], by rw [f2, e2], by rw [f3, e3], by rw [f4, e4], ?_⟩
  intro hni; rw [f5 (by rw [e4]; exact hni), e5 hni]

theorem Corr_updKey_import {O : Table} {ki : Name} {i : Sym} (hiv : getKey O.ents ki = some i)
    (hii : i.iface.isImport = true) (a : Nat) (b : Name) (c : Option Name) :
    Corr O { O with ents := updKey O.ents ki fun s => { s with iface := .imp a b c } } := by
  intro k p hp
  show ∃ p', getKey (updKey O.ents ki _) k = some p' ∧ _
  rw [getKey_updKey]
  by_cases hk : ki = k
  · rw [if_pos hk, hp]
    subst hk; rw [hiv] at hp; cases hp
    exact ⟨_, rfl, rfl, rfl, rfl, by rw [hii]; rfl, fun h => by rw [hii] at h; cases h⟩
  · rw [if_neg hk]; exact ⟨p, hp, rfl, rfl, rfl, rfl, fun _ => rfl⟩

theorem impStep_ok {cx : MergeCtx} {S O : Table} {C : List Sym} {c i : Sym} {R : List Sym}
    (h : J cx S O C c (i :: R)) :
    ∃ S' O', impStep cx c S O i = ⟨none, S', O'⟩ ∧ J cx S' O' C c R ∧ Persist S S' ∧
      (∀ j, j ∈ ids S'.ents ↔ j ∈ ids S.ents) ∧ Corr O O' := by
  have hiv := (h.rval i List.mem_cons_self).1
  obtain ⟨cn, og, hif⟩ := (h.rval i List.mem_cons_self).2
  have hii : i.iface.isImport = true := by simp [hif, Iface.isImport]
  obtain ⟨hins, hinc⟩ := SymOK_import (h.wf _ _ hiv) hii
  obtain ⟨sc, hsc, hsck⟩ := h.hc
  have hkne : lower c.name ≠ lower i.name := by
    intro he
    have h1 := h.cin.1
    rw [he, hiv] at h1
    cases h1; exact hinc h.cin.2
  unfold impStep
  cases hos : getKey S.ents (lower i.name) with
  | none =>
    dsimp only
    rw [getKey_chain_self _ _ hsc]
    dsimp only
    exact ⟨S, _, rfl, J_step h sc _ h.si h.sn (fun _ => Iff.rfl) (Persist.refl _) (fun _ _ _ => rfl)
      (by intro this ht; rw [hos] at ht; cases ht) hsc hsck, Persist.refl _, fun _ => Iff.rfl,
      Corr_updKey_import hiv hii _ _ _⟩
  | some os =>
    dsimp only
    by_cases hoi : os.iface.isImport = true
    · have hb : (!os.iface.isImport) = false := by simp [hoi]
      simp only [hb, Bool.false_eq_true, if_false]
      rw [getKey_chain_self _ _ hsc]
      dsimp only
      exact ⟨S, _, rfl, J_step h sc _ h.si h.sn (fun _ => Iff.rfl) (Persist.refl _) (fun _ _ _ => rfl)
        (by intro this ht; rw [hos] at ht; cases ht; exact hoi) hsc hsck, Persist.refl _, fun _ => Iff.rfl,
        Corr_updKey_import hiv hii _ _ _⟩
    · have hoi' : os.iface.isImport = false := by simpa using hoi
      have hb : (!os.iface.isImport) = true := by simp [hoi']
      simp only [hb, if_true]
      have hpair := h.pr _ _ hiv (Or.inl hinc) hins os hos
      have hrs : renamable os = true := by
        rcases hpair with ⟨_, h2⟩ | ⟨h1, _⟩ | ⟨_, h2⟩ | h1 | h1
        · exact absurd h2 hinc
        · rw [hoi'] at h1; cases h1
        · rw [hif] at h2; cases h2
        · exact h1
        · simp [renamable, hii] at h1
      unfold renameFresh
      have hf1 := fresh_self cx S O os.name
      have hf2 := fresh_other cx S O os.name
      generalize nextName (existingNames cx S O) os.name = nn at hf1 hf2 ⊢
      rw [renameSym_ok h.si h.sn hos hrs hf1]
      dsimp only
      have hsc' : getKey (renamed S (lower i.name) os nn).ents (lower c.name) = some sc := by
        rw [renamed_getKey_ne h.si h.sn hos hf1 hkne (fun he => hf1 (he ▸ getKey_some_key hsc))]
        exact hsc
      rw [getKey_chain_self _ _ hsc']
      dsimp only
      refine ⟨renamed S (lower i.name) os nn, _, rfl,
        J_step h sc _ (renamed_inv h.si h.sn hos hf1) (renamed_ids_nodup h.si h.sn hos hf1)
          (renamed_ids_iff h.si h.sn hos hf1) (Persist_renamed h.si h.sn hos hf1 hrs) ?_ ?_ hsc' hsck,
        Persist_renamed h.si h.sn hos hf1 hrs, renamed_ids_iff h.si h.sn hos hf1, Corr_updKey_import hiv hii _ _ _⟩
      · intro k hk hkne'
        exact renamed_getKey_ne h.si h.sn hos hf1 hkne' (fun he => hf2 (he ▸ hk))
      · intro this ht
        rw [renamed_getKey_old h.si h.sn hos hf1] at ht; cases ht

/-- invariant at the end of the loop over the imports of `c` = invariant of the outer loop -/
theorem J_nil_I1 {cx : MergeCtx} {S O : Table} {C : List Sym} {c : Sym} (h : J cx S O C c []) : I1 cx S O C :=
  ⟨h.si, h.oi, h.sn, h.on, h.cval, h.cnd, h.wf, h.dj, h.pr, fun k i hi hii => by
    rcases h.ir k i hi hii with h1 | h1 | h1
    · exact Or.inl h1
    · exact Or.inr h1
    · simp at h1⟩

theorem importLoop_ok {cx : MergeCtx} {C : List Sym} {c : Sym} : ∀ (R : List Sym) {S O : Table}, J cx S O C c R →
    ∃ S' O', importLoop cx c R S O = ⟨none, S', O'⟩ ∧ I1 cx S' O' C ∧ Persist S S' ∧
      (∀ j, j ∈ ids S'.ents ↔ j ∈ ids S.ents) ∧ Corr O O' := by
  intro R; induction R with
  | nil => intro S O h; exact ⟨S, O, rfl, J_nil_I1 h, Persist.refl _, fun _ => Iff.rfl, Corr.refl _⟩
  | cons i r ih =>
    intro S O h
    obtain ⟨S1, O1, hstep, hJ, hp, hi, hc1⟩ := impStep_ok h
    obtain ⟨S2, O2, hl, hI, hp2, hi2, hc2⟩ := ih hJ
    refine ⟨S2, O2, ?_, hI, hp.trans hp2, fun j => (hi2 j).trans (hi j), hc1.trans hc2⟩
    rw [importLoop_cons, hstep]; exact hl

theorem mem_importedFrom {e : Ents} {cid : Nat} {s : Sym} :
    s ∈ importedFrom e cid ↔ (∃ k, (k, s) ∈ e) ∧ ∃ cn og, s.iface = .imp cid cn og := by
  unfold importedFrom
  simp only [List.mem_filter, List.mem_map]
  constructor
  · rintro ⟨⟨p, hp, rfl⟩, hq⟩
    refine ⟨⟨p.1, hp⟩, ?_⟩
    cases hif : p.2.iface <;> simp [hif] at hq
    subst hq; exact ⟨_, _, rfl⟩
  · rintro ⟨⟨k, hk⟩, cn, og, hif⟩
    exact ⟨⟨(k, s), hk, rfl⟩, by simp [hif]⟩

theorem importedFrom_keys_nodup {t : Table} (hi : TInv t) (cid : Nat) :
    ((importedFrom t.ents cid).map fun i => lower i.name).Nodup := by
  unfold importedFrom
  have h1 : ((t.ents.map Prod.snd).map fun i => lower i.name) = keys t.ents := by
    rw [List.map_map]
    apply List.map_congr_left
    intro p hp; exact (hi.keyName p hp).symm
  have h2 := (List.filter_sublist (l := t.ents.map Prod.snd)
    (p := fun s => match s.iface with | .imp c _ _ => c == cid | _ => false)).map (fun i => lower i.name)
  rw [h1] at h2
  exact h2.nodup hi.nodup

theorem Persist_updKey (t : Table) (k0 : Name) (f : Sym → Sym)
    (hf : ∀ s, (f s).id = s.id ∧ (f s).kind = s.kind ∧ (f s).iface = s.iface) :
    Persist t { t with ents := updKey t.ents k0 f } := by
  intro k q hq _
  show ∃ q', getKey (updKey t.ents k0 f) k = some q' ∧ _
  rw [getKey_updKey]
  by_cases hk : k0 = k
  · rw [if_pos hk, hq]; exact ⟨f q, rfl, (hf q).1, (hf q).2.1, (hf q).2.2⟩
  · rw [if_neg hk]; exact ⟨q, hq, rfl, rfl, rfl⟩

/-- the invariant of the inner loop holds once `c` (or an existing container of that name) is in place -/
theorem J_init {cx : MergeCtx} {S O S1 : Table} {c : Sym} {C : List Sym} (h : I1 cx S O (c :: C))
    (hsi : TInv S1) (hsn : (ids S1.ents).Nodup)
    (hids : ∀ j, j ∈ ids S1.ents → j ∈ ids S.ents ∨ j = c.id)
    (hpers : Persist S S1)
    (hget : ∀ k, k ∈ keys O.ents → k ≠ lower c.name → getKey S1.ents k = getKey S.ents k)
    (hc : ∃ sc, getKey S1.ents (lower c.name) = some sc ∧ sc.kind = .container) :
    J cx S1 O C c (importedFrom O.ents c.id) := by
  obtain ⟨hcv, hck⟩ := h.cval c List.mem_cons_self
  have hcnd := List.nodup_cons.mp (by simpa using h.cnd : (lower c.name :: C.map fun c => lower c.name).Nodup)
  have hpend : ∀ o, Pending C o → Pending (c :: C) o := by
    intro o ho; rcases ho with ho | ho
    · exact Or.inl ho
    · exact Or.inr (List.mem_cons_of_mem _ ho)
  have hnotc : ∀ k o, getKey O.ents k = some o → Pending C o → k ≠ lower c.name := by
    intro k o ho hp hk
    rw [hk, hcv] at ho; cases ho
    rcases hp with hp | hp
    · exact hp hck
    · exact hcnd.1 (List.mem_map.mpr ⟨_, hp, rfl⟩)
  refine ⟨hsi, h.oi, hsn, h.on, fun c' hc' => h.cval c' (List.mem_cons_of_mem _ hc'), hcnd.2, h.wf, ?_, ?_, ?_,
    hc, ⟨hcv, hck⟩, ?_, importedFrom_keys_nodup h.oi c.id⟩
  · intro k o ho hp hmem
    rcases hids _ hmem with hm | hm
    · exact h.dj k o ho (hpend o hp) hm
    · exact hnotc k o ho hp (key_eq_of_getKey_id h.on ho hcv hm)
  · intro k o ho hp hsk this ht
    rw [hget k (getKey_some_key ho) (hnotc k o ho hp)] at ht
    exact h.pr k o ho (hpend o hp) hsk this ht
  · intro k j hj hji
    rcases h.ir k j hj hji with h1 | ⟨c', hc', cn, og, hif⟩
    · left
      have hkj : k = lower j.name := key_of_getKey h.oi hj
      refine Resolved_of_persist hpers ?_ h1
      rw [← hkj]
      apply hget k (getKey_some_key hj)
      intro hk; rw [hk, hcv] at hj; cases hj
      exact (SymOK_import (h.wf _ _ hcv) hji).2 hck
    · rcases List.mem_cons.mp hc' with rfl | hc'
      · right; right
        exact mem_importedFrom.mpr ⟨⟨k, getKey_some_mem hj⟩, cn, og, hif⟩
      · right; left; exact ⟨c', hc', cn, og, hif⟩
  · intro i hi
    obtain ⟨⟨k, hk⟩, hif⟩ := mem_importedFrom.mp hi
    have : k = lower i.name := h.oi.keyName _ hk
    exact ⟨by rw [← this]; exact (getKey_mem_iff h.oi.nodup).mpr hk, hif⟩

theorem conStep1_ok {cx : MergeCtx} {S O : Table} {c : Sym} {C : List Sym} (h : I1 cx S O (c :: C)) :
    ∃ S1, conStep1 cx S O c = .ok S1 ∧ J cx S1 O C c (importedFrom O.ents c.id) ∧ Persist S S1 ∧
      (∀ j ∈ ids S.ents, j ∈ ids S1.ents) ∧
      (c.id ∈ ids S1.ents ∨ ∃ q, getKey S1.ents (lower c.name) = some q ∧ q.id ≠ c.id ∧ q.kind = .container) := by
  obtain ⟨hcv, hck⟩ := h.cval c List.mem_cons_self
  have hcwf := h.wf _ _ hcv
  have hcns : c.id ∉ cx.skip := fun hs => (hcwf.1 hs).1 hck
  have hcdj := h.dj _ _ hcv (Or.inr List.mem_cons_self)
  unfold conStep1
  cases hsc : getKey S.ents (lower c.name) with
  | none =>
    dsimp only
    have hk : lower c.name ∉ keys S.ents := getKey_none_iff.mp hsc
    rw [addSym_none_ok hk]
    have hgc : getKey (added S c).ents (lower c.name) = some c := by
      rw [added_getKey h.si hk, hsc]; simp
    refine ⟨added S c, rfl, J_init h (added_inv h.si hk) (added_ids_nodup h.sn hcdj) ?_ (Persist_added _ _) ?_
      ⟨c, hgc, hck⟩, Persist_added _ _, ?_, Or.inl ?_⟩
    · intro j hj; rw [added_ids] at hj; simpa using hj
    · intro k _ hkne
      rw [added_getKey h.si hk]
      cases getKey S.ents k with
      | some y => rfl
      | none => simp only; rw [if_neg (fun he => hkne he.symm)]
    · intro j hj; rw [added_ids]; simp [hj]
    · rw [added_ids]; simp
  | some sc =>
    dsimp only
    have hscne : sc.id ≠ c.id := fun he => hcdj (he ▸ getKey_some_id hsc)
    by_cases hkc : sc.kind = .container
    · have hb : (sc.kind != Kind.container) = false := by simp [hkc]
      simp only [hb, Bool.false_eq_true, if_false]
      by_cases hw : c.wild = true
      · rw [if_pos hw]
        have hg : ∀ k, getKey (updKey S.ents (lower c.name) fun s => { s with wild := true }) k =
            if lower c.name = k then (getKey S.ents k).map (fun s => { s with wild := true }) else getKey S.ents k :=
          fun k => getKey_updKey _ _ _ _
        have hpers := Persist_updKey S (lower c.name) (fun s => { s with wild := true }) (fun _ => ⟨rfl, rfl, rfl⟩)
        have hq : getKey (updKey S.ents (lower c.name) fun s => { s with wild := true }) (lower c.name)
            = some { sc with wild := true } := by rw [hg, if_pos rfl, hsc]; rfl
        refine ⟨_, rfl, J_init h (updKey_inv h.si (fun _ => ⟨rfl, rfl⟩)) ?_ ?_ hpers ?_ ⟨_, hq, hkc⟩, hpers, ?_,
          Or.inr ⟨_, hq, hscne, hkc⟩⟩
        · show (ids (updKey S.ents _ _)).Nodup
          rw [ids_updKey S.ents (lower c.name) (fun s => { s with wild := true }) (fun _ => rfl)]; exact h.sn
        · intro j hj
          left
          have : ids (updKey S.ents (lower c.name) fun s => { s with wild := true }) = ids S.ents :=
            ids_updKey S.ents (lower c.name) (fun s => { s with wild := true }) (fun _ => rfl)
          rw [← this]; exact hj
        · intro k _ hkne
          show getKey (updKey S.ents _ _) k = _
          rw [hg, if_neg (fun he => hkne he.symm)]
        · intro j hj
          show j ∈ ids (updKey S.ents _ _)
          rw [ids_updKey S.ents (lower c.name) (fun s => { s with wild := true }) (fun _ => rfl)]; exact hj
      · rw [if_neg hw]
        exact ⟨S, rfl, J_init h h.si h.sn (fun j hj => Or.inl hj) (Persist.refl _) (fun _ _ _ => rfl) ⟨sc, hsc, hkc⟩,
          Persist.refl _, fun j hj => hj, Or.inr ⟨sc, hsc, hscne, hkc⟩⟩
    · have hb : (sc.kind != Kind.container) = true := by simpa using hkc
      simp only [hb, if_true]
      have hpair := h.pr _ _ hcv (Or.inr List.mem_cons_self) hcns sc hsc
      have hrs : renamable sc = true := by
        rcases hpair with ⟨h1, _⟩ | ⟨_, h2⟩ | ⟨_, h2⟩ | h1 | h1
        · exact absurd h1 hkc
        · rw [(hcwf.2 hck).1] at h2; cases h2
        · exact absurd h2 (hcwf.2 hck).2
        · exact h1
        · simp [renamable, hck] at h1
      unfold renameFresh
      have hf1 := fresh_self cx S O c.name
      have hf2 := fresh_other cx S O c.name
      generalize nextName (existingNames cx S O) c.name = nn at hf1 hf2 ⊢
      rw [renameSym_ok h.si h.sn hsc hrs hf1]
      dsimp only
      have hne : lower nn ≠ lower c.name := fun he => hf1 (he ▸ getKey_some_key hsc)
      have hk' : lower c.name ∉ keys (renamed S (lower c.name) sc nn).ents := by
        rw [renamed_keys_iff h.si h.sn hsc hf1]
        rintro (⟨_, h2⟩ | h2)
        · exact h2 rfl
        · exact hne h2.symm
      rw [addSym_none_ok hk']
      have hri := renamed_inv h.si h.sn hsc hf1
      have hrn := renamed_ids_nodup h.si h.sn hsc hf1
      have hdj' : c.id ∉ ids (renamed S (lower c.name) sc nn).ents := by
        rw [renamed_ids_iff h.si h.sn hsc hf1]; exact hcdj
      have hpers := (Persist_renamed h.si h.sn hsc hf1 hrs).trans (Persist_added (renamed S (lower c.name) sc nn) c)
      have hgc : getKey (added (renamed S (lower c.name) sc nn) c).ents (lower c.name) = some c := by
        rw [added_getKey hri hk', renamed_getKey_old h.si h.sn hsc hf1]; simp
      refine ⟨added (renamed S (lower c.name) sc nn) c, rfl,
        J_init h (added_inv hri hk') (added_ids_nodup hrn hdj') ?_ hpers ?_ ⟨c, hgc, hck⟩, hpers, ?_, Or.inl ?_⟩
      · intro j hj; rw [added_ids] at hj
        rcases List.mem_append.mp hj with hj | hj
        · left; exact (renamed_ids_iff h.si h.sn hsc hf1 j).mp hj
        · right; simpa using hj
      · intro k hk hkne
        rw [added_getKey hri hk', renamed_getKey_ne h.si h.sn hsc hf1 hkne (fun he => hf2 (he ▸ hk))]
        cases getKey S.ents k with
        | some y => rfl
        | none => simp only; rw [if_neg (fun he => hkne he.symm)]
      · intro j hj; rw [added_ids]
        exact List.mem_append.mpr (Or.inl ((renamed_ids_iff h.si h.sn hsc hf1 j).mpr hj))
      · rw [added_ids]; simp

/-- the symbol was absorbed by a ContainerSymbol of the same name -/
def AbsorbedC (S : Table) (c : Sym) : Prop :=
  ∃ q, getKey S.ents (lower c.name) = some q ∧ q.id ≠ c.id ∧ q.kind = .container

theorem AbsorbedC_of_persist {a b : Table} {c : Sym} (hp : Persist a b) (h : AbsorbedC a c) : AbsorbedC b c := by
  obtain ⟨q, hq, hne, hk⟩ := h
  obtain ⟨q', hq', e1, e2, _⟩ := hp _ q hq (by simp [renamable, hk])
  exact ⟨q', hq', by rw [e1]; exact hne, by rw [e2]; exact hk⟩

/-- the container phase cannot raise; every container symbol is added or absorbed by a container -/
theorem containerLoop_ok {cx : MergeCtx} : ∀ (C : List Sym) {S O : Table}, I1 cx S O C →
    ∃ S' O', containerLoop cx C S O = ⟨none, S', O'⟩ ∧ I1 cx S' O' [] ∧ Persist S S' ∧
      (∀ j ∈ ids S.ents, j ∈ ids S'.ents) ∧ Corr O O' ∧
      (∀ c ∈ C, c.id ∈ ids S'.ents ∨ AbsorbedC S' c) := by
  intro C; induction C with
  | nil => intro S O h; exact ⟨S, O, rfl, h, Persist.refl _, fun _ hj => hj, Corr.refl _, fun c hc => by simp at hc⟩
  | cons c r ih =>
    intro S O h
    obtain ⟨S1, hs1, hJ, hp1, hm1, hc1⟩ := conStep1_ok h
    obtain ⟨S2, O2, hl, hI, hp2, hi2, hcorr2⟩ := importLoop_ok _ hJ
    obtain ⟨S3, O3, hl3, hI3, hp3, hm3, hcorr3, hall⟩ := ih hI
    refine ⟨S3, O3, ?_, hI3, (hp1.trans hp2).trans hp3, fun j hj => hm3 j ((hi2 j).mpr (hm1 j hj)),
      hcorr2.trans hcorr3, ?_⟩
    · rw [containerLoop_cons, hs1]; dsimp only; rw [hl]; exact hl3
    · intro x hx
      rcases List.mem_cons.mp hx with rfl | hx
      · rcases hc1 with h1 | h1
        · left; exact hm3 _ ((hi2 _).mpr h1)
        · right; exact AbsorbedC_of_persist (hp2.trans hp3) h1
      · exact hall x hx

theorem map_snd_keys {t : Table} (hi : TInv t) :
    ((t.ents.map Prod.snd).map fun i => lower i.name) = keys t.ents := by
  rw [List.map_map]
  apply List.map_congr_left
  intro p hp; exact (hi.keyName p hp).symm

theorem getKey_of_mem_snd {t : Table} (hi : TInv t) {o : Sym} (ho : o ∈ t.ents.map Prod.snd) :
    getKey t.ents (lower o.name) = some o := by
  obtain ⟨p, hp, rfl⟩ := List.mem_map.mp ho
  have : p.1 = lower p.2.name := hi.keyName p hp
  rw [← this]; exact (getKey_mem_iff hi.nodup).mpr hp

theorem mem_snd_of_getKey {t : Table} {k : Name} {o : Sym} (h : getKey t.ents k = some o) :
    o ∈ t.ents.map Prod.snd := List.mem_map.mpr ⟨_, getKey_some_mem h, rfl⟩

/-- at the end of the container phase the invariant of the symbol phase holds -/
theorem I2_of_I1 {cx : MergeCtx} {S O : Table} (h : I1 cx S O []) : I2 cx S O (O.ents.map Prod.snd) := by
  have hp : ∀ o : Sym, o.kind ≠ .container → Pending [] o := fun o ho => Or.inl ho
  refine ⟨h.si, h.oi, h.sn, h.on, fun o ho => getKey_of_mem_snd h.oi ho, ?_, ?_, ?_, ?_⟩
  · rw [map_snd_keys h.oi]; exact h.oi.nodup
  · intro o ho hk
    exact h.dj _ _ (getKey_of_mem_snd h.oi ho) (hp o hk)
  · intro o ho hs hk _ this ht
    exact h.pr _ _ (getKey_of_mem_snd h.oi ho) (hp o hk) hs this ht
  · intro o ho hi
    rcases h.ir _ _ (getKey_of_mem_snd h.oi ho) hi with h1 | ⟨c', hc', _⟩
    · exact h1
    · simp at hc'

theorem mem_containersOf {e : Ents} {c : Sym} : c ∈ containersOf e ↔ c ∈ e.map Prod.snd ∧ c.kind = .container := by
  simp [containersOf]

/-- **after the check, `merge` cannot fail**: if the invariant `I1` holds for the tables that leave
`check_for_clashes`, the container phase and the symbol phase both succeed; the receiving table keeps its
invariant and its identities, and every non-skipped symbol of the merged table is an entry of the result or
was absorbed by a container / an imported / an unresolved entry of the same name. -/
theorem phases_ok {cx : MergeCtx} {S O : Table} (h : I1 cx S O (containersOf O.ents)) :
    ∃ S2 O2, containerLoop cx (containersOf O.ents) S O = ⟨none, S2, O2⟩ ∧
      (symbolLoop cx (O2.ents.map Prod.snd) S2 O2).err = none ∧
      TInv (symbolLoop cx (O2.ents.map Prod.snd) S2 O2).self ∧
      (ids (symbolLoop cx (O2.ents.map Prod.snd) S2 O2).self.ents).Nodup ∧
      Persist S (symbolLoop cx (O2.ents.map Prod.snd) S2 O2).self ∧
      (∀ j ∈ ids S.ents, j ∈ ids (symbolLoop cx (O2.ents.map Prod.snd) S2 O2).self.ents) ∧
      ∀ k p, getKey O.ents k = some p → p.id ∉ cx.skip →
        p.id ∈ ids (symbolLoop cx (O2.ents.map Prod.snd) S2 O2).self.ents ∨
        (p.kind = .container ∧ AbsorbedC (symbolLoop cx (O2.ents.map Prod.snd) S2 O2).self p) ∨
        Absorbed (symbolLoop cx (O2.ents.map Prod.snd) S2 O2).self p := by
  obtain ⟨S2, O2, hl, hI, hp, hm, hcorr, hall⟩ := containerLoop_ok _ h
  obtain ⟨e1, e2, e3, e4, e5, e6⟩ := symbolLoop_ok (O2.ents.map Prod.snd) (I2_of_I1 hI)
  refine ⟨S2, O2, hl, e1, e2, e3, hp.trans e4, fun j hj => e5 j (hm j hj), ?_⟩
  intro k p hpk hps
  by_cases hk : p.kind = .container
  · rcases hall p (mem_containersOf.mpr ⟨mem_snd_of_getKey hpk, hk⟩) with h1 | h1
    · left; exact e5 _ h1
    · right; left; exact ⟨hk, AbsorbedC_of_persist e4 h1⟩
  · obtain ⟨p', hp', f1, f2, f3, f4, f5⟩ := hcorr k p hpk
    rcases e6 p' (mem_snd_of_getKey hp') (by rw [f1]; exact hps) (by rw [f3]; exact hk) with h1 | h1
    · left; rw [← f1]; exact h1
    · right; right
      obtain ⟨q, hq, hne, hc⟩ := h1
      refine ⟨q, by rw [← f2]; exact hq, by rw [← f1]; exact hne, ?_⟩
      rcases hc with ⟨h2, h3⟩ | ⟨h2, h3⟩
      · left; exact ⟨h2, by rw [← f4]; exact h3⟩
      · right
        have hni : p.iface.isImport = false := by
          rw [← f4, h3]; rfl
        exact ⟨h2, by rw [← f5 hni]; exact h3⟩

/-! ### Layer 4: what `check_for_clashes` establishes -/

theorem checkOne_spec {cx : MergeCtx} {self other : Table} {o : Sym} (h : checkOne cx self other o = .spec) :
    ∃ this, getKey self.ents (lower o.name) = some this ∧ o.iface = .unresolved ∧ this.iface = .unresolved := by
  unfold checkOne at h
  dsimp only at h
  split at h
  · cases h
  · rename_i this hget
    refine ⟨this, hget, ?_⟩
    repeat' split at h
    all_goals first
      | (cases h; done)
      | simp_all

/-- a pair that `check_for_clashes` does not reject satisfies `PairOK` -/
theorem checkOne_pair {cx : MergeCtx} {self other : Table} {o this : Sym}
    (hsn : (ids self.ents).Nodup) (hon : (ids other.ents).Nodup)
    (hov : getKey other.ents (lower o.name) = some o) (hget : getKey self.ents (lower o.name) = some this)
    (hskip : o.id ∉ cx.skip)
    (hiu1 : this.kind = .intrinsic → this.iface = .unresolved) (hiu2 : o.kind = .intrinsic → o.iface = .unresolved)
    (hnf : ∀ e, checkOne cx self other o ≠ .fail e) : PairOK this o := by
  by_contra hnp
  unfold PairOK at hnp
  simp only [not_or] at hnp
  obtain ⟨n1, n2, n3, n4, n5⟩ := hnp
  have b1 : ¬ (this.kind == Kind.container && o.kind == Kind.container) = true := by
    simpa using fun a b => n1 ⟨a, b⟩
  have b2 : ¬ (this.kind == Kind.intrinsic && o.kind == Kind.intrinsic) = true := by
    simp only [Bool.and_eq_true, beq_iff_eq, not_and]
    intro a b; exact n3 ⟨hiu1 a, hiu2 b⟩
  have b3 : ¬ (o.iface.isImport && this.iface.isImport) = true := by
    simp only [Bool.and_eq_true, not_and]
    intro a b; exact n2 ⟨b, a⟩
  have b4 : ¬ (o.iface == Iface.unresolved && this.iface == Iface.unresolved) = true := by
    simp only [Bool.and_eq_true, beq_iff_eq, not_and]
    intro a b; exact n3 ⟨b, a⟩
  have r1 : renamable this = false := by simpa using n4
  have r2 : renamable o = false := by simpa using n5
  apply hnf .symbol
  unfold checkOne
  dsimp only
  rw [hget]
  dsimp only
  rw [if_neg hskip, if_neg b1, if_neg b2, if_neg b3, if_neg b4,
    renameSym_not_renamable hsn hget r1]
  dsimp only
  rw [renameSym_not_renamable hon hov r2]

theorem checkLoop_all {cx : MergeCtx} {self other : Table} : ∀ (L : List Sym) {ks : List Name},
    checkLoop cx self other L = .ok ks →
    (∀ o ∈ L, ∀ e, checkOne cx self other o ≠ .fail e) ∧
    (∀ k ∈ ks, ∃ o ∈ L, lower o.name = k ∧ checkOne cx self other o = .spec) := by
  intro L; induction L with
  | nil => intro ks h; simp only [checkLoop] at h; cases h; exact ⟨by simp, by simp⟩
  | cons a r ih =>
    intro ks h
    simp only [checkLoop] at h
    cases hc : checkOne cx self other a with
    | fail e => rw [hc] at h; cases h
    | pass =>
      rw [hc] at h
      obtain ⟨h1, h2⟩ := ih h
      refine ⟨?_, fun k hk => ?_⟩
      · intro o ho e
        rcases List.mem_cons.mp ho with rfl | ho
        · rw [hc]; simp
        · exact h1 o ho e
      · obtain ⟨o, ho, e1, e2⟩ := h2 k hk
        exact ⟨o, List.mem_cons_of_mem _ ho, e1, e2⟩
    | spec =>
      rw [hc] at h
      dsimp only at h
      cases hr : checkLoop cx self other r with
      | error e => rw [hr] at h; cases h
      | ok ks' =>
        rw [hr] at h; cases h
        obtain ⟨h1, h2⟩ := ih hr
        refine ⟨?_, fun k hk => ?_⟩
        · intro o ho e
          rcases List.mem_cons.mp ho with rfl | ho
          · rw [hc]; simp
          · exact h1 o ho e
        · rcases List.mem_cons.mp hk with rfl | hk
          · exact ⟨a, List.mem_cons_self, rfl, hc⟩
          · obtain ⟨o, ho, e1, e2⟩ := h2 k hk
            exact ⟨o, List.mem_cons_of_mem _ ho, e1, e2⟩

/-- the deferred specialisation, entry by entry -/
def specF (ks : List Name) (k : Name) (s : Sym) : Sym := if k ∈ ks then { s with kind := .intrinsic } else s

theorem getKey_specAll : ∀ (ks : List Name) (t : Table) (k : Name),
    getKey (specAll t ks).ents k = (getKey t.ents k).map (specF ks k) := by
  intro ks; induction ks with
  | nil =>
    intro t k
    have : specF [] k = id := by funext s; simp [specF]
    rw [this]; simp [specAll]
  | cons k0 r ih =>
    intro t k
    simp only [specAll]
    rw [ih]
    show Option.map (specF r k) (getKey (updKey t.ents k0 _) k) = _
    rw [getKey_updKey]
    by_cases hk : k0 = k
    · subst hk
      rw [if_pos rfl]
      cases getKey t.ents k0 with
      | none => rfl
      | some s =>
        simp only [Option.map, specF, List.mem_cons, true_or, if_true]
        split <;> rfl
    · rw [if_neg hk]
      cases getKey t.ents k with
      | none => rfl
      | some s =>
        simp only [Option.map, specF, List.mem_cons]
        have : ¬ k = k0 := fun e => hk e.symm
        simp [this]

theorem ids_specAll : ∀ (ks : List Name) (t : Table), ids (specAll t ks).ents = ids t.ents := by
  intro ks; induction ks with
  | nil => intro t; rfl
  | cons k0 r ih =>
    intro t
    simp only [specAll]
    rw [ih]
    exact ids_updKey t.ents k0 (fun s => { s with kind := .intrinsic }) (fun _ => rfl)

theorem keys_specAll : ∀ (ks : List Name) (t : Table), keys (specAll t ks).ents = keys t.ents := by
  intro ks; induction ks with
  | nil => intro t; rfl
  | cons k0 r ih =>
    intro t
    simp only [specAll]
    rw [ih]
    exact keys_updKey t.ents k0 _

theorem containersOf_keys_nodup {t : Table} (hi : TInv t) :
    ((containersOf t.ents).map fun c => lower c.name).Nodup := by
  unfold containersOf
  have h2 := (List.filter_sublist (l := t.ents.map Prod.snd) (p := fun s => s.kind == .container)).map
    (fun i => lower i.name)
  rw [map_snd_keys hi] at h2
  exact h2.nodup hi.nodup

theorem specF_id (ks : List Name) (k : Name) (s : Sym) : (specF ks k s).id = s.id := by
  unfold specF; split <;> rfl
theorem specF_name (ks : List Name) (k : Name) (s : Sym) : (specF ks k s).name = s.name := by
  unfold specF; split <;> rfl
theorem specF_iface (ks : List Name) (k : Name) (s : Sym) : (specF ks k s).iface = s.iface := by
  unfold specF; split <;> rfl
theorem specF_not_mem {ks : List Name} {k : Name} (h : k ∉ ks) (s : Sym) : specF ks k s = s := by
  unfold specF; rw [if_neg h]
theorem specF_kind_mem {ks : List Name} {k : Name} (h : k ∈ ks) (s : Sym) : (specF ks k s).kind = .intrinsic := by
  unfold specF; rw [if_pos h]

theorem SymOK_specF {skip : List Nat} {o : Sym} (h : SymOK skip o) (ks : List Name) (k : Name) :
    SymOK skip (specF ks k o) := by
  by_cases hk : k ∈ ks
  · refine ⟨fun hs => ?_, fun hc => ?_⟩
    · rw [specF_id] at hs
      exact ⟨by rw [specF_kind_mem hk]; simp, by rw [specF_iface]; exact (h.1 hs).2⟩
    · rw [specF_kind_mem hk] at hc; cases hc
  · rw [specF_not_mem hk]; exact h

/-- `symbols imported into the merged table come from containers of the merged table` (excludes findings 3, 4) -/
def closedImports (other : Table) : Bool :=
  other.ents.all fun p => match p.2.iface with
    | .imp cid _ _ => other.ents.any fun q => q.2.id == cid && q.2.kind == .container
    | _ => true

/-- the side conditions of the merge theorems, on the two tables as they are when `merge` is called -/
structure MergeSide (cx : MergeCtx) (S O : Table) : Prop where
  si : TInv S
  oi : TInv O
  /-- a symbol object occurs once per table and not in both tables (ownership) -/
  sn : (ids S.ents).Nodup
  on : (ids O.ents).Nodup
  dj : ∀ j ∈ ids O.ents, j ∉ ids S.ents
  /-- skipped symbols are neither containers nor imports (finding 2); containers are neither imported nor unresolved -/
  wf : ∀ p ∈ O.ents, SymOK cx.skip p.2
  /-- findings 3 and 4 -/
  closed : closedImports O = true
  /-- IntrinsicSymbols carry an UnresolvedInterface -/
  iu1 : ∀ p ∈ S.ents, p.2.kind = .intrinsic → p.2.iface = .unresolved
  iu2 : ∀ p ∈ O.ents, p.2.kind = .intrinsic → p.2.iface = .unresolved

theorem closedImports_spec {O : Table} (h : closedImports O = true) {p : Name × Sym} (hp : p ∈ O.ents)
    {cid : Nat} {cn : Name} {og : Option Name} (hif : p.2.iface = .imp cid cn og) :
    ∃ q ∈ O.ents, q.2.id = cid ∧ q.2.kind = .container := by
  unfold closedImports at h
  rw [List.all_eq_true] at h
  have := h p hp
  rw [hif] at this
  simp only [List.any_eq_true, Bool.and_eq_true, beq_iff_eq] at this
  exact this

theorem getKey_map_some {e : Ents} {k : Name} {f : Sym → Sym} {s' : Sym}
    (h : (getKey e k).map f = some s') : ∃ s, getKey e k = some s ∧ s' = f s := by
  cases hg : getKey e k with
  | none => rw [hg] at h; cases h
  | some s => rw [hg] at h; exact ⟨s, rfl, by simpa using h.symm⟩

/-- the tables that leave `check_for_clashes` satisfy the invariant of the container phase -/
theorem I1_of_check {cx : MergeCtx} {S O : Table} {ks : List Name} (H : MergeSide cx S O)
    (hc : checkLoop cx S O (O.ents.map Prod.snd) = .ok ks) :
    I1 cx (specAll S ks) (specAll O ks) (containersOf (specAll O ks).ents) := by
  obtain ⟨hnf, hks⟩ := checkLoop_all _ hc
  have hspec : ∀ k ∈ ks, ∀ o this, getKey O.ents k = some o → getKey S.ents k = some this →
      o.iface = .unresolved ∧ this.iface = .unresolved := by
    intro k hk o this ho ht
    obtain ⟨o2, ho2, e1, e2⟩ := hks k hk
    obtain ⟨this2, ht2, u1, u2⟩ := checkOne_spec e2
    have h1 := getKey_of_mem_snd H.oi ho2
    rw [e1] at h1 ht2
    rw [ho] at h1; cases h1
    rw [ht] at ht2; cases ht2
    exact ⟨u1, u2⟩
  have hspecO : ∀ k ∈ ks, ∀ o, getKey O.ents k = some o → o.iface = .unresolved := by
    intro k hk o ho
    obtain ⟨o2, ho2, e1, e2⟩ := hks k hk
    obtain ⟨this2, ht2, u1, u2⟩ := checkOne_spec e2
    have h1 := getKey_of_mem_snd H.oi ho2
    rw [e1] at h1
    rw [ho] at h1; cases h1
    exact u1
  have hO : ∀ k o', getKey (specAll O ks).ents k = some o' → ∃ o, getKey O.ents k = some o ∧ o' = specF ks k o := by
    intro k o' h; rw [getKey_specAll] at h; exact getKey_map_some h
  have hS : ∀ k o', getKey (specAll S ks).ents k = some o' → ∃ o, getKey S.ents k = some o ∧ o' = specF ks k o := by
    intro k o' h; rw [getKey_specAll] at h; exact getKey_map_some h
  have hoi := specAll_inv ks H.oi
  refine ⟨specAll_inv ks H.si, hoi, by rw [ids_specAll]; exact H.sn, by rw [ids_specAll]; exact H.on, ?_,
    containersOf_keys_nodup hoi, ?_, ?_, ?_, ?_⟩
  · intro c hc'
    obtain ⟨h1, h2⟩ := mem_containersOf.mp hc'
    exact ⟨getKey_of_mem_snd hoi h1, h2⟩
  · intro k o' ho'
    obtain ⟨o, ho, rfl⟩ := hO k o' ho'
    exact SymOK_specF (H.wf _ (getKey_some_mem ho)) ks k
  · intro k o' ho' _
    obtain ⟨o, ho, rfl⟩ := hO k o' ho'
    rw [ids_specAll, specF_id]
    exact H.dj _ (getKey_some_id ho)
  · intro k o' ho' _ hsk this' ht'
    obtain ⟨o, ho, rfl⟩ := hO k o' ho'
    obtain ⟨this, ht, rfl⟩ := hS k this' ht'
    by_cases hk : k ∈ ks
    · obtain ⟨u1, u2⟩ := hspec k hk o this ho ht
      exact Or.inr (Or.inr (Or.inl ⟨by rw [specF_iface]; exact u2, by rw [specF_iface]; exact u1⟩))
    · rw [specF_not_mem hk, specF_not_mem hk]
      rw [specF_id] at hsk
      have hko : k = lower o.name := key_of_getKey H.oi ho
      subst hko
      exact checkOne_pair H.sn H.on ho ht hsk (H.iu1 _ (getKey_some_mem ht)) (H.iu2 _ (getKey_some_mem ho))
        (hnf o (mem_snd_of_getKey ho))
  · intro k i' hi' hii
    obtain ⟨i, hi, rfl⟩ := hO k i' hi'
    rw [specF_iface] at hii
    right
    cases hif : i.iface with
    | imp cid cn og =>
      obtain ⟨q, hq, hqid, hqk⟩ := closedImports_spec H.closed (getKey_some_mem hi) hif
      have hgq : getKey O.ents q.1 = some q.2 := (getKey_mem_iff H.oi.nodup).mpr hq
      have hnk : q.1 ∉ ks := by
        intro hk
        have := hspecO q.1 hk q.2 hgq
        exact ((H.wf q hq).2 hqk).2 this
      have hgq' : getKey (specAll O ks).ents q.1 = some q.2 := by
        rw [getKey_specAll, hgq]; simp [specF_not_mem hnk]
      exact ⟨q.2, mem_containersOf.mpr ⟨mem_snd_of_getKey hgq', hqk⟩, cn, og, by rw [specF_iface, hif, hqid]⟩
    | _ => rw [hif] at hii; cases hii

/-- **merge under the side conditions**: it is either rejected by `check_for_clashes` with both tables
untouched, or it succeeds — and then the result keeps the invariant, distinct identities and all the
identities of the receiving table, and every non-skipped symbol of the merged table is an entry of the
result or was absorbed. -/
theorem mergeTables_after_check {cx : MergeCtx} {S O : Table} (H : MergeSide cx S O) :
    (∃ e, mergeTables cx S O = (⟨some e, S, O⟩, 0)) ∨
    (∃ F O3, mergeTables cx S O = (⟨none, F, O3⟩, 3) ∧ TInv F ∧ (ids F.ents).Nodup ∧
      (∀ j ∈ ids S.ents, j ∈ ids F.ents) ∧
      ∀ p ∈ O.ents, p.2.id ∉ cx.skip →
        p.2.id ∈ ids F.ents ∨ (p.2.kind = .container ∧ AbsorbedC F p.2) ∨ Absorbed F p.2) := by
  unfold mergeTables
  cases hc : checkLoop cx S O (O.ents.map Prod.snd) with
  | error e => left; exact ⟨e, rfl⟩
  | ok ks =>
    right
    obtain ⟨S2, O2, hl, e1, e2, e3, _, e5, e6⟩ := phases_ok (I1_of_check H hc)
    dsimp only
    rw [hl]
    dsimp only
    generalize symbolLoop cx (O2.ents.map Prod.snd) S2 O2 = r3 at e1 e2 e3 e5 e6
    obtain ⟨err3, s3, o3⟩ := r3
    simp only at e1 e2 e3 e5 e6
    subst e1
    refine ⟨s3, o3, rfl, e2, e3, ?_, ?_⟩
    · intro j hj; apply e5; rw [ids_specAll]; exact hj
    · intro p hp hps
      have hg : getKey O.ents p.1 = some p.2 := (getKey_mem_iff H.oi.nodup).mpr hp
      have hg' : getKey (specAll O ks).ents p.1 = some (specF ks p.1 p.2) := by
        rw [getKey_specAll, hg]; rfl
      rcases e6 _ _ hg' (by rw [specF_id]; exact hps) with h1 | ⟨h1, h2⟩ | h1
      · left; rw [specF_id] at h1; exact h1
      · right; left
        have hnk : p.1 ∉ ks := by
          intro hk; rw [specF_kind_mem hk] at h1; cases h1
        rw [specF_not_mem hnk] at h1 h2; exact ⟨h1, h2⟩
      · right; right
        obtain ⟨q, hq, hne, hcc⟩ := h1
        rw [specF_name] at hq; rw [specF_id] at hne; rw [specF_iface] at hcc
        exact ⟨q, hq, hne, hcc⟩
end C16
