import PsyVerif.Lemmas.ExprIORules
/-! Grammar rules (`Parses`) for designators (R611 data-ref: `part {% part}`, `part := name [(args)]`),
argument lists (R1222 actual-arg-spec `[keyword =] expr`) and function references (R1219). -/
namespace C02

/-- the remaining input does not continue a part-ref -/
def NoLpPct : List Tok → Prop
  | .lp :: _ => False
  | .pct :: _ => False
  | _ => True

def NoPct : List Tok → Prop
  | .pct :: _ => False
  | _ => True

def NoComma : List Tok → Prop
  | .comma :: _ => False
  | _ => True

def NoKw : List Tok → Prop
  | .kw _ :: _ => False
  | _ => True

theorem Follow.noLpPct {k R} (h : Follow k R) : NoLpPct R := by
  match R, h with
  | [], _ => trivial
  | .rp :: _, _ => trivial
  | .comma :: _, _ => trivial
  | .op _ :: _, _ => trivial

theorem Parses.partsLeaf {n R} (h : NoLpPct R) :
    Parses .parts (.name n :: R) (.part n .nil .nil, R) := by
  refine ⟨1, ?_⟩
  rw [P_parts]
  match R, h with
  | [], _ => rfl
  | .rp :: _, _ | .comma :: _, _ | .op _ :: _, _ | .name _ :: _, _ | .fn _ :: _, _ | .kw _ :: _, _
  | .lit _ :: _, _ => rfl

theorem Parses.partsMem {n ts nx R} (h : Parses .parts ts (nx, R)) :
    Parses .parts (.name n :: .pct :: ts) (.part n .nil nx, R) := by
  obtain ⟨f, hf⟩ := h
  refine ⟨f + 1, ?_⟩
  rw [P_parts]
  simp [hf]

theorem Parses.partsIdx {n ts as R} (h : Parses .args ts (as, .rp :: R)) (hR : NoPct R) :
    Parses .parts (.name n :: .lp :: ts) (.part n as .nil, R) := by
  obtain ⟨f, hf⟩ := h
  refine ⟨f + 1, ?_⟩
  rw [P_parts]
  simp only [hf]
  match R, hR with
  | [], _ => rfl
  | .rp :: _, _ | .comma :: _, _ | .op _ :: _, _ | .name _ :: _, _ | .fn _ :: _, _ | .kw _ :: _, _
  | .lit _ :: _, _ | .lp :: _, _ => rfl

theorem Parses.partsIdxMem {n ts as ts2 nx R} (h : Parses .args ts (as, .rp :: .pct :: ts2))
    (h2 : Parses .parts ts2 (nx, R)) :
    Parses .parts (.name n :: .lp :: ts) (.part n as nx, R) := by
  obtain ⟨f1, h1⟩ := h
  obtain ⟨f2, h2⟩ := h2
  refine ⟨max f1 f2 + 1, ?_⟩
  rw [P_parts]
  simp only [P_mono_le h1 (Nat.le_max_left _ _), P_mono_le h2 (Nat.le_max_right _ _)]

theorem Parses.exprParts {n ts r} (h : Parses .parts (.name n :: ts) r) :
    Parses (.expr 9) (.name n :: ts) r := by
  obtain ⟨f, hf⟩ := h
  refine ⟨f + 1, ?_⟩
  rw [P_expr]
  simp only [ge_iff_le, Nat.le_refl, if_true]
  exact hf

theorem Parses.call {fn ts as R} (h : Parses .args ts (as, .rp :: R)) :
    Parses (.expr 9) (.fn fn :: .lp :: ts) (.call fn as, R) := by
  obtain ⟨f, hf⟩ := h
  refine ⟨f + 1, ?_⟩
  rw [P_expr]
  simp [hf]

theorem noKw_strip : ∀ (ts : List Tok), NoKw ts → stripKw ts = ts
  | [], _ => rfl
  | .kw _ :: _, h => absurd h (by simp [NoKw])
  | .rp :: _, _ | .comma :: _, _ | .op _ :: _, _ | .name _ :: _, _ | .fn _ :: _, _ | .pct :: _, _
  | .lit _ :: _, _ | .lp :: _, _ => rfl

theorem noKw_none : ∀ (ts : List Tok), NoKw ts → kwOf ts = none
  | [], _ => rfl
  | .kw _ :: _, h => absurd h (by simp [NoKw])
  | .rp :: _, _ | .comma :: _, _ | .op _ :: _, _ | .name _ :: _, _ | .fn _ :: _, _ | .pct :: _, _
  | .lit _ :: _, _ | .lp :: _, _ => rfl

theorem Parses.argsLast {ts e R} (hk : NoKw ts) (h : Parses (.expr 0) ts (e, R)) (hR : NoComma R) :
    Parses .args ts (.cons none e .nil, R) := by
  obtain ⟨f, hf⟩ := h
  refine ⟨f + 1, ?_⟩
  rw [P_args]
  have e1 := noKw_strip ts hk
  have e2 := noKw_none ts hk
  rw [e1, e2, hf]
  match R, hR with
  | [], _ => rfl
  | .rp :: _, _ | .kw _ :: _, _ | .op _ :: _, _ | .name _ :: _, _ | .fn _ :: _, _ | .pct :: _, _
  | .lit _ :: _, _ | .lp :: _, _ => rfl

theorem Parses.argsMore {ts e ts2 rest R} (hk : NoKw ts) (h : Parses (.expr 0) ts (e, .comma :: ts2))
    (h2 : Parses .args ts2 (rest, R)) :
    Parses .args ts (.cons none e rest, R) := by
  obtain ⟨f1, h1⟩ := h
  obtain ⟨f2, h2⟩ := h2
  refine ⟨max f1 f2 + 1, ?_⟩
  rw [P_args]
  have e1 := noKw_strip ts hk
  have e2 := noKw_none ts hk
  rw [e1, e2]
  simp only [P_mono_le h1 (Nat.le_max_left _ _), P_mono_le h2 (Nat.le_max_right _ _)]

theorem Parses.argsLastKw {k ts e R} (h : Parses (.expr 0) ts (e, R)) (hR : NoComma R) :
    Parses .args (.kw k :: ts) (.cons (some k) e .nil, R) := by
  obtain ⟨f, hf⟩ := h
  refine ⟨f + 1, ?_⟩
  rw [P_args]
  simp only [stripKw, kwOf, hf]
  match R, hR with
  | [], _ => rfl
  | .rp :: _, _ | .kw _ :: _, _ | .op _ :: _, _ | .name _ :: _, _ | .fn _ :: _, _ | .pct :: _, _
  | .lit _ :: _, _ | .lp :: _, _ => rfl

theorem Parses.argsMoreKw {k ts e ts2 rest R} (h : Parses (.expr 0) ts (e, .comma :: ts2))
    (h2 : Parses .args ts2 (rest, R)) :
    Parses .args (.kw k :: ts) (.cons (some k) e rest, R) := by
  obtain ⟨f1, h1⟩ := h
  obtain ⟨f2, h2⟩ := h2
  refine ⟨max f1 f2 + 1, ?_⟩
  rw [P_args]
  simp only [stripKw, kwOf, P_mono_le h1 (Nat.le_max_left _ _), P_mono_le h2 (Nat.le_max_right _ _)]

end C02
