import PsyVerif.Lemmas.ADLoop
import Mathlib.Algebra.BigOperators.Group.Finset.Basic
import Mathlib.Algebra.BigOperators.Group.Finset.Piecewise
/-! # C19: inner products, adjoint pairs, and the adjoint of one assignment -/
namespace C19
open MiniF

/-- inner product of two active states over a finite set of locations -/
def ip (S : Finset Loc) (x y : Store) : Int := ∑ l ∈ S, x l * y l

/-- `g` is the transpose of `f` w.r.t. the inner product over `S` -/
def IsAdj (S : Finset Loc) (f g : Store → Store) : Prop := ∀ x y, ip S (f x) y = ip S x (g y)

variable {S : Finset Loc}

theorem IsAdj.id : IsAdj S (fun a => a) (fun a => a) := fun _ _ => rfl

/-- `(g ∘ f)ᵀ = fᵀ ∘ gᵀ` -/
theorem IsAdj.comp {f f' g g' : Store → Store} (h1 : IsAdj S f f') (h2 : IsAdj S g g') :
    IsAdj S (fun a => g (f a)) (fun a => f' (g' a)) := fun x y => by
  rw [h2 (f x) y, h1 x (g' y)]

/-- a composition of steps transposes to the reversed composition of the transposed steps -/
theorem IsAdj.foldl {ι : Type} (F G : ι → Store → Store) (L : List ι)
    (h : ∀ i ∈ L, IsAdj S (F i) (G i)) :
    IsAdj S (fun a => L.foldl (fun a i => F i a) a) (fun a => L.reverse.foldl (fun a i => G i a) a) := by
  induction L with
  | nil => exact IsAdj.id
  | cons i L ih =>
    have h1 := h i (by simp)
    have h2 := ih (fun j hj => h j (by simp [hj]))
    intro x y
    simp only [List.foldl_cons, List.reverse_cons, List.foldl_append, List.foldl_nil]
    rw [h2 (F i x) y, h1]

theorem set_apply (σ : Store) (l l' : Loc) (v : Int) : (σ.set l v) l' = if l' = l then v else σ l' := rfl

theorem set_set (σ : Store) (l : Loc) (v w : Int) : (σ.set l v).set l w = σ.set l w := by
  apply Store.ext; funext l'; simp only [Store.set]; split <;> rfl

theorem set_self (σ : Store) (l : Loc) : σ.set l (σ l) = σ := by
  apply Store.ext; funext l'; simp only [Store.set]; split
  · next h => rw [h]
  · rfl

theorem ip_set_left (x y : Store) {l : Loc} (hl : l ∈ S) (v : Int) :
    ip S (x.set l v) y = ip S x y + (v - x l) * y l := by
  unfold ip
  have : ∀ s ∈ S, (x.set l v) s * y s = x s * y s + (if s = l then (v - x l) * y l else 0) := by
    intro s _
    rw [set_apply]
    split
    · next h => subst h; ring
    · ring
  rw [Finset.sum_congr rfl this, Finset.sum_add_distrib, Finset.sum_ite_eq' S l, if_pos hl]

theorem ip_set_right (x y : Store) {l : Loc} (hl : l ∈ S) (v : Int) :
    ip S x (y.set l v) = ip S x y + x l * (v - y l) := by
  unfold ip
  have : ∀ s ∈ S, x s * (y.set l v) s = x s * y s + (if s = l then x l * (v - y l) else 0) := by
    intro s _
    rw [set_apply]
    split
    · next h => subst h; ring
    · ring
  rw [Finset.sum_congr rfl this, Finset.sum_add_distrib, Finset.sum_ite_eq' S l, if_pos hl]

/-- `x_l := x_l + k·x_m` -/
def addmul (l m : Loc) (k : Int) (x : Store) : Store := x.set l (x l + k * x m)
/-- `x_l := c·x_l` -/
def scale (l : Loc) (c : Int) (x : Store) : Store := x.set l (c * x l)

/-- the transpose of `x_l += k·x_m` is `y_m += k·y_l` (also when `l = m`) -/
theorem isAdj_addmul {l m : Loc} (hl : l ∈ S) (hm : m ∈ S) (k : Int) :
    IsAdj S (addmul l m k) (addmul m l k) := fun x y => by
  unfold addmul
  rw [ip_set_left x y hl, ip_set_right x y hm]
  ring

theorem isAdj_scale {l : Loc} (hl : l ∈ S) (c : Int) : IsAdj S (scale l c) (scale l c) := fun x y => by
  unfold scale
  rw [ip_set_left x y hl, ip_set_right x y hl]
  ring

/-! ## right-hand sides -/

theorem rhsVal_append (L1 L2 : List Term) (ρ a : Store) :
    rhsVal (L1 ++ L2) ρ a = rhsVal L1 ρ a + rhsVal L2 ρ a := by
  induction L1 with
  | nil => simp [rhsVal]
  | cons t L ih => simp only [List.cons_append, rhsVal, ih]; ring

theorem rhsVal_reverse (L : List Term) (ρ a : Store) : rhsVal L.reverse ρ a = rhsVal L ρ a := by
  induction L with
  | nil => rfl
  | cons t L ih => simp only [List.reverse_cons, rhsVal_append, rhsVal, ih]; ring

/-- a right-hand side none of whose references is `l` does not see an update of `l` -/
theorem rhsVal_set_of_ne (L : List Term) (ρ a : Store) (l : Loc) (v : Int)
    (h : ∀ t ∈ L, t.ref.loc ρ ≠ l) : rhsVal L ρ (a.set l v) = rhsVal L ρ a := by
  induction L with
  | nil => rfl
  | cons t L ih =>
    simp only [rhsVal, Term.val]
    rw [ih (fun u hu => h u (by simp [hu])), Store.set_other _ _ (h t (by simp))]

/-- sum of the signed coefficients -/
def ksum : List Term → Store → Int
  | [], _ => 0
  | t :: ts, ρ => t.k ρ + ksum ts ρ

theorem isInc_eq {lhs : ARef} {t : Term} (h : isInc lhs t = true) : t.ref = lhs := by
  simpa [isInc] using h

/-- splitting a right-hand side into its increment terms and the others -/
theorem rhsVal_split (lhs : ARef) (ts : List Term) (ρ a : Store) :
    rhsVal ts ρ a = ksum (ts.filter (isInc lhs)) ρ * a (lhs.loc ρ)
      + rhsVal (ts.filter (fun t => !isInc lhs t)) ρ a := by
  induction ts with
  | nil => simp [rhsVal, ksum]
  | cons t ts ih =>
    by_cases h : isInc lhs t = true
    · simp only [List.filter_cons, h, if_true, Bool.not_true, Bool.false_eq_true, if_false, rhsVal, ksum, ih,
        Term.val, isInc_eq h]
      ring
    · have h' : isInc lhs t = false := by simpa using h
      simp only [List.filter_cons, h', Bool.false_eq_true, if_false, Bool.not_false, if_true, rhsVal, ih]
      ring

/-- folding the elementary updates `x_l += k_t·x_{m_t}` over terms that do not reference `l` -/
theorem foldl_addmul (L : List Term) (ρ a : Store) (l : Loc) (h : ∀ t ∈ L, t.ref.loc ρ ≠ l) :
    L.foldl (fun a t => addmul l (t.ref.loc ρ) (t.k ρ) a) a = a.set l (a l + rhsVal L ρ a) := by
  induction L generalizing a with
  | nil => simp [rhsVal, set_self]
  | cons t L ih =>
    have hne := h t (by simp)
    have hL : ∀ u ∈ L, u.ref.loc ρ ≠ l := fun u hu => h u (by simp [hu])
    simp only [List.foldl_cons]
    rw [ih _ hL]
    unfold addmul
    rw [set_set, rhsVal_set_of_ne L ρ a l _ hL, Store.set_same]
    simp only [rhsVal, Term.val]
    congr 1
    ring

/-- **the TL assignment as a composition**: first scale `x_l` by the sum of the increment
coefficients, then add the other terms one at a time (in reversed source order) -/
theorem sem_assign_decomp (lhs : ARef) (ts : List Term) (ρ x : Store)
    (h : noHiddenAlias lhs ts ρ = true) :
    sem (.assign lhs ts) ρ x =
      (ts.filter (fun t => !isInc lhs t)).reverse.foldl
        (fun a t => addmul (lhs.loc ρ) (t.ref.loc ρ) (t.k ρ) a)
        (scale (lhs.loc ρ) (ksum (ts.filter (isInc lhs)) ρ) x) := by
  have hne : ∀ t ∈ (ts.filter (fun t => !isInc lhs t)).reverse, t.ref.loc ρ ≠ lhs.loc ρ := by
    intro t ht
    rw [List.mem_reverse, List.mem_filter] at ht
    have h1 := (List.all_eq_true.mp h) t ht.1
    have h2 : isInc lhs t = false := by simpa using ht.2
    simp only [isInc] at h2
    simpa [h2] using h1
  rw [foldl_addmul _ ρ _ _ hne]
  unfold scale
  rw [set_set, Store.set_same, rhsVal_set_of_ne _ ρ x _ _ hne, rhsVal_reverse]
  simp only [sem]
  rw [rhsVal_split lhs ts ρ x]

/-! ## the emitted adjoint statements -/

theorem sem_seqs (L : List Stmt) (ρ a : Store) : sem (seqs L) ρ a = L.foldl (fun a s => sem s ρ a) a := by
  induction L generalizing a with
  | nil => rfl
  | cons s L ih => simp only [seqs, sem, List.foldl_cons, ih]

theorem sem_adjTerm (lhs : ARef) (t : Term) (ρ a : Store) :
    sem (adjTerm lhs t) ρ a = addmul (t.ref.loc ρ) (lhs.loc ρ) (t.k ρ) a := by
  simp only [adjTerm, sem, rhsVal, Term.val, Term.k, addmul, eval]
  congr 1
  simp

theorem rhsVal_all_lhs (lhs : ARef) (L : List Term) (ρ a : Store) :
    rhsVal (L.map (fun u => (⟨u.neg, u.coef, lhs⟩ : Term))) ρ a = ksum L ρ * a (lhs.loc ρ) := by
  induction L with
  | nil => simp [rhsVal, ksum]
  | cons t L ih => simp only [List.map_cons, rhsVal, ksum, ih, Term.val, Term.k]; ring

theorem rhsVal_deferred (lhs : ARef) (L : List Term) (ρ a : Store) :
    rhsVal (deferredTerms lhs L) ρ a = ksum L ρ * a (lhs.loc ρ) := by
  cases L with
  | nil => simp [deferredTerms, rhsVal, ksum]
  | cons t L =>
    simp only [deferredTerms, rhsVal, ksum, rhsVal_all_lhs, Term.val, Term.k]
    cases t.neg <;> simp [eval, evalUn] <;> ring

/-- the last statement(s) emitted by `AssignmentTrans.apply` scale `y_l` by the sum of the
increment coefficients -/
theorem sem_tail (lhs : ARef) (incs : List Term) (ρ y : Store) :
    sem (seqs (adjTail lhs incs)) ρ y = scale (lhs.loc ρ) (ksum incs ρ) y := by
  unfold scale adjTail
  match incs with
  | [] => simp [seqs, sem, rhsVal, ksum]
  | [t] =>
    by_cases hb : (isBareRef t && !t.neg) = true
    · simp only [hb, if_true, seqs, sem]
      simp only [Bool.and_eq_true, Bool.not_eq_true', isBareRef, beq_iff_eq] at hb
      simp only [ksum, Term.k, hb.1, hb.2, eval]
      simp [set_self]
    · simp only [hb, Bool.false_eq_true, if_false, seqs, sem, rhsVal_deferred]
  | t :: u :: L => simp only [seqs, sem, rhsVal_deferred]

/-- **the adjoint of one assignment as a function** -/
theorem sem_adjAssign (lhs : ARef) (ts : List Term) (ρ y : Store) :
    sem (seqs (adjAssign lhs ts)) ρ y =
      scale (lhs.loc ρ) (ksum (ts.filter (isInc lhs)) ρ)
        ((ts.filter (fun t => !isInc lhs t)).foldl
          (fun a t => addmul (t.ref.loc ρ) (lhs.loc ρ) (t.k ρ) a) y) := by
  simp only [adjAssign]
  rw [sem_seqs, List.foldl_append, List.foldl_map, ← sem_seqs, sem_tail]
  simp only [sem_adjTerm]

/-- **Single-assignment lemma**: with no hidden alias, the statements emitted for
`x = Σ ± c_k·y_k` compute the transpose, whatever terms repeat a variable or reference `x`. -/
theorem isAdj_assign (lhs : ARef) (ts : List Term) (ρ : Store)
    (h : noHiddenAlias lhs ts ρ = true) (hl : lhs.loc ρ ∈ S) (hts : ∀ t ∈ ts, t.ref.loc ρ ∈ S) :
    IsAdj S (sem (.assign lhs ts) ρ) (sem (seqs (adjAssign lhs ts)) ρ) := by
  have e1 : sem (.assign lhs ts) ρ = fun x => (ts.filter (fun t => !isInc lhs t)).reverse.foldl
        (fun a t => addmul (lhs.loc ρ) (t.ref.loc ρ) (t.k ρ) a)
        (scale (lhs.loc ρ) (ksum (ts.filter (isInc lhs)) ρ) x) := by
    funext x; exact sem_assign_decomp lhs ts ρ x h
  have e2 : sem (seqs (adjAssign lhs ts)) ρ = fun y =>
      scale (lhs.loc ρ) (ksum (ts.filter (isInc lhs)) ρ)
        ((ts.filter (fun t => !isInc lhs t)).foldl
          (fun a t => addmul (t.ref.loc ρ) (lhs.loc ρ) (t.k ρ) a) y) := by
    funext y; exact sem_adjAssign lhs ts ρ y
  rw [e1, e2]
  have hf := IsAdj.foldl (S := S)
    (fun (t : Term) => addmul (lhs.loc ρ) (t.ref.loc ρ) (t.k ρ))
    (fun (t : Term) => addmul (t.ref.loc ρ) (lhs.loc ρ) (t.k ρ))
    (ts.filter (fun t => !isInc lhs t)).reverse
    (fun t ht => isAdj_addmul hl (hts t (by
      rw [List.mem_reverse, List.mem_filter] at ht; exact ht.1)) _)
  rw [List.reverse_reverse] at hf
  exact IsAdj.comp (isAdj_scale hl _) hf

end C19
