import PsyVerif.Lemmas.HaloSem
/-! # C22 — global safety of validly placed schedules (induction over the schedule) -/
namespace C22

/-! ## Static facts about the dependence scans -/

theorem bwdDep_writer {f : Nat} : ∀ {pre : Sched} {k : Kern} {b : Bound} {a : Arg},
    bwdDep f pre = .writer k b a →
    bwdWriter f pre = some (writeInfo k b a) ∧ argOf k f = some a ∧ a.access.writes = true
  | [], _, _, _, h => by simp [bwdDep] at h
  | .hex kind g :: pre, k, b, a, h => by
    simp only [bwdDep] at h
    split at h
    · cases h
    · simpa [bwdWriter] using bwdDep_writer h
  | .loop k' b' :: pre, k, b, a, h => by
    simp only [bwdDep] at h
    simp only [bwdWriter]
    cases ha : argOf k' f with
    | none => simp only [ha] at h ⊢; exact bwdDep_writer h
    | some a' =>
      simp only [ha] at h ⊢
      by_cases hw : a'.access.writes = true
      · simp only [hw, if_true] at h ⊢
        cases h
        exact ⟨rfl, ha, hw⟩
      · simp only [hw] at h ⊢
        exact bwdDep_writer h

theorem bwdDep_none {f : Nat} : ∀ {pre : Sched}, bwdDep f pre = .none → bwdWriter f pre = none
  | [], _ => rfl
  | .hex kind g :: pre, h => by
    simp only [bwdDep] at h
    split at h
    · cases h
    · simpa [bwdWriter] using bwdDep_none h
  | .loop k' b' :: pre, h => by
    simp only [bwdDep] at h
    simp only [bwdWriter]
    cases ha : argOf k' f with
    | none => simp only [ha] at h ⊢; exact bwdDep_none h
    | some a' =>
      simp only [ha] at h ⊢
      by_cases hw : a'.access.writes = true
      · simp only [hw, if_true] at h; cases h
      · simp only [hw] at h ⊢
        exact bwdDep_none h

theorem fwdReaders_mem {f : Nat} : ∀ {rest : Sched} {r : Kern × Bound × Arg},
    r ∈ fwdReaders f rest →
    Item.loop r.1 r.2.1 ∈ rest ∧ argOf r.1 f = some r.2.2 ∧ r.2.2.access.reads = true
  | [], _, h => by simp [fwdReaders] at h
  | .hex kind g :: rest, r, h => by
    simp only [fwdReaders] at h
    split at h
    · simp at h
    · have := fwdReaders_mem h
      exact ⟨by simp [this.1], this.2⟩
  | .loop k b :: rest, r, h => by
    simp only [fwdReaders] at h
    cases ha : argOf k f with
    | none =>
      simp only [ha] at h
      have := fwdReaders_mem h
      exact ⟨by simp [this.1], this.2⟩
    | some a =>
      simp only [ha] at h
      by_cases hr : a.access.reads = true
      · simp only [hr, if_true] at h
        simp only [List.mem_cons] at h
        rcases h with rfl | h
        · exact ⟨by simp, ha, hr⟩
        · split at h
          · simp at h
          · have := fwdReaders_mem h
            exact ⟨by simp [this.1], this.2⟩
      · simp [hr] at h

/-! ## Side conditions -/

/-- LFRic metadata rules for one argument -/
structure ArgOK (a : Arg) : Prop where
  acc : a.accOK
  sten : a.stencil.isSome = true → a.access = .read
  ext : a.extOK

/-- static conditions on one kernel loop: a field occurs once among the arguments, the metadata
rules hold, the bound is one `LFRicLoop.load` / the transformations produce for this kernel
(`Bound.ok`; a dof loop that writes goes at least to the annexed dofs with COMPUTE_ANNEXED_DOFS;
a cell loop that increments a field not known to be discontinuous goes into the halo), no stencil
in a loop to the maximum depth, and the loop is outside the defect class `writeOnlyPattern`. -/
structure LoopOK (cfg : Cfg) (k : Kern) (b : Bound) : Prop where
  nodup : (k.args.map (·.field)).Nodup
  args : ∀ a ∈ k.args, ArgOK a ∧ (b.lvl = .haloMax → a.stencil = none) ∧
    writeOnlyPattern cfg k b a = false
  bound : b.ok cfg k
  wdof : ∀ a ∈ k.args, a.access.writes = true → k.dofKernel = true → cfg.annexed = true →
    b.lvl ≠ .owned
  wcell : ∀ a ∈ k.args, a.access.writes = true → k.dofKernel = false → a.disc = false →
    a.access ≠ .write → b.lvl.isHalo = true

/-- run-time conditions on the argument of a loop on field `f`: the metadata is consistent with
the actual continuity, the depth PSyclone computes for this access fits into the halo, the
loop is outside the defect class `incMaxPattern` unless the halo is at least 2 deep, and the loop
does not iterate beyond the halo. -/
def SemOK (H : Nat) (env : Nat → Nat) (cont : Bool) (f : Nat) (k : Kern) (b : Bound) : Prop :=
  ∀ a, argOf k f = some a →
    (a.disc = true → cont = false) ∧ infoNeed H env (readInfo k b a) ≤ H ∧
    (incMaxPattern k b a = true → 2 ≤ H) ∧ lvlOf H b.lvl ≤ H

/-- all side conditions on one loop, for field `f` -/
def POK (cfg : Cfg) (H : Nat) (env : Nat → Nat) (cont : Bool) (f : Nat) (k : Kern) (b : Bound) :
    Prop := LoopOK cfg k b ∧ SemOK H env cont f k b

theorem LoopOK.readerOK {cfg : Cfg} {k : Kern} {b : Bound} (h : LoopOK cfg k b) {a : Arg}
    (ha : a ∈ k.args) : ReaderOK b a :=
  ⟨(h.args a ha).1.sten, h.bound.2.2, (h.args a ha).2.1⟩

/-! ## Valid placement -/

abbrev Reader := Kern × Bound × Arg

def infoOf (r : Reader) : ReadInfo := readInfo r.1 r.2.1 r.2.2

/-- what the previous writer `w` leaves is enough for the aggregated requirement `req`
(the three outcomes of `required_sound`, at the halo depth and extents of the run) -/
def Suff (cfg : Cfg) (H : Nat) (env : Nat → Nat) (req : List HaloDepth) (w : WriteInfo) : Prop :=
  (∃ r0, req = [r0] ∧ r0.annexedOnly = true ∧ (cfg.annexed = true ∨ w.dirtyOuter = true)) ∨
  (w.maxDepth = true ∧ w.dirtyOuter = false) ∨
  evalDepths H env req ≤ cleanAfter H w

/-- same when the field has not been written before in the invoke -/
def SuffO (cfg : Cfg) (H : Nat) (env : Nat → Nat) (req : List HaloDepth) :
    Option WriteInfo → Prop
  | none => cfg.annexed = true ∧ ∃ r0, req = [r0] ∧ r0.annexedOnly = true
  | some w => Suff cfg H env req w

/-- a list of readers of `f` as `required()` aggregates it: it starts with a reader that is
considered for an exchange (a reader that also writes ends the list) and consists of loops that
satisfy the side conditions -/
structure GoodList (cfg : Cfg) (H : Nat) (env : Nat → Nat) (cont : Bool) (f : Nat)
    (L : List Reader) : Prop where
  head : ∃ r1 rs, L = r1 :: rs ∧ haloReadAccess cfg r1.1 r1.2.1 r1.2.2 = true ∧
    (r1.2.2.access.writes = true → rs = [])
  facts : ∀ x ∈ L, POK cfg H env cont f x.1 x.2.1 ∧ argOf x.1 f = some x.2.2

/-- the placement decision for a reader `(k, b, a)` of field `f` that PSyclone considers for a
halo exchange: either an exchange of `f` is the previous write dependence, or the previous
writer leaves enough for an aggregated list of readers that contains this reader -/
def ReadOK (cfg : Cfg) (H : Nat) (env : Nat → Nat) (cont : Bool) (f : Nat) (pre : Sched)
    (k : Kern) (b : Bound) (a : Arg) : Prop :=
  bwdDep f pre = .hex ∨
  ∃ L : List Reader, (k, b, a) ∈ L ∧ GoodList cfg H env cont f L ∧
    SuffO cfg H env (depthList (L.map infoOf)) (bwdWriter f pre)

/-- the first reader served by an exchange is one PSyclone considers for an exchange -/
def headHra (cfg : Cfg) : List Reader → Prop
  | [] => True
  | r :: _ => haloReadAccess cfg r.1 r.2.1 r.2.2 = true

/-- validity of the placement of exchanges for field `f` (zipper: reversed prefix, suffix) -/
def ValidFrom (cfg : Cfg) (H : Nat) (env : Nat → Nat) (cont : Bool) (f : Nat) :
    Sched → Sched → Prop
  | _, [] => True
  | pre, .hex kind g :: rest =>
    (g = f → kind = .sync ∧ headHra cfg (fwdReaders f rest)) ∧
    ValidFrom cfg H env cont f (.hex kind g :: pre) rest
  | pre, .loop k b :: rest =>
    (∀ a, argOf k f = some a → haloReadAccess cfg k b a = true →
      ReadOK cfg H env cont f pre k b a) ∧
    ValidFrom cfg H env cont f (.loop k b :: pre) rest

/-! ## The invariant -/

/-- what is known about the state of `f` after its last writer -/
structure WFact (cfg : Cfg) (H : Nat) (cont : Bool) (f : Nat) (k : Kern) (b : Bound) (a : Arg)
    (act : FState) : Prop where
  ok : LoopOK cfg k b
  arg : argOf k f = some a
  w : a.access.writes = true
  disc : a.disc = true → cont = false
  st : ∃ old, act = specAfter H cont k b a old

structure Inv (cfg : Cfg) (H : Nat) (env : Nat → Nat) (cont : Bool) (f : Nat) (pre rest : Sched)
    (s : RState) : Prop where
  rec_le : s.recorded ≤ s.act.cd
  annwf : s.act.cd = 0 ∨ s.act.ann = true
  mode : cfg.annexed = true → cont = true → s.act.ann = true
  infl : s.inflight = none
  hexp : bwdDep f pre = .hex → ∀ r ∈ fwdReaders f rest,
    sat s.act (specNeed H env cont r.1 r.2.1 r.2.2) = true
  wr : ∀ k b a, bwdDep f pre = .writer k b a → WFact cfg H cont f k b a s.act

theorem sat_iff (s : FState) (n : Need) :
    sat s n = true ↔ n.depth ≤ s.cd ∧ (n.annexed = true → s.ann = true) := by
  unfold sat
  cases n.annexed <;> cases s.ann <;> simp

theorem specNeed_annexed (H : Nat) (env : Nat → Nat) (cont : Bool) (k : Kern) (b : Bound) (a : Arg)
    (h : (specNeed H env cont k b a).annexed = true) : cont = true := by
  unfold specNeed at h
  split at h
  · simp at h
  · split at h
    · split at h <;> simp_all
    · split at h
      · simpa using h
      · split at h <;> simpa using h

/-! ## Step lemmas -/

/-- positivity and coverage of the aggregated depth for a list that starts with a reader PSyclone
considers for an exchange -/
theorem agg_head (cfg : Cfg) (H : Nat) (env : Nat → Nat) (cont : Bool) (k : Kern) (b : Bound)
    (a : Arg) (rs : List (Kern × Bound × Arg)) (hH : 1 ≤ H) (henv : ExtOK env)
    (hok : LoopOK cfg k b) (ha : a ∈ k.args)
    (hra : haloReadAccess cfg k b a = true)
    (hdeep : infoNeed H env (readInfo k b a) ≤ H) (hmax : incMaxPattern k b a = true → 2 ≤ H)
    (hrs : a.access.writes = true → rs = []) :
    1 ≤ evalDepths H env (depthList (((k, b, a) :: rs).map infoOf)) ∧
    (specNeed H env cont k b a).depth ≤ evalDepths H env (depthList (((k, b, a) :: rs).map infoOf)) := by
  have hrok := hok.readerOK ha
  obtain ⟨hn1, hn2⟩ := readInfo_need H env cont k b a hrok
  constructor
  · simp only [List.map_cons, infoOf]
    apply depthList_head_pos
    rcases hra_cases cfg H env k b a hra hrok (hok.args a ha).1.ext henv hH hmax hok.bound with
      ⟨h1, h2, h3⟩ | h1
    · left
      exact ⟨h1, h2, by simp [hrs h3]⟩
    · right
      exact ⟨h1, hn2, hdeep⟩
  · refine Nat.le_trans hn1 ?_
    exact depthList_covers H env _ _ (by simp [infoOf]) hn2 hdeep

/-- `required()` answering "not required" yields `Suff` -/
theorem suff_of_required (cfg : Cfg) (H : Nat) (env : Nat → Nat) (req : List HaloDepth)
    (w : Option WriteInfo) (h : (required cfg req w).1 = false) : SuffO cfg H env req w := by
  generalize hq : required cfg req w = q at h
  obtain ⟨q1, q2⟩ := q
  simp only at h
  subst h
  cases w with
  | none => exact required_none cfg req q2 hq
  | some w =>
    rcases required_sound cfg req w q2 hq with ⟨r0, h1, h2, h3⟩ | h | h
    · refine Or.inl ⟨r0, h1, h2, ?_⟩
      rcases h3 with h3 | ⟨_, h3, _⟩
      · exact Or.inl h3
      · exact Or.inr h3
    · exact Or.inr (Or.inl h)
    · exact Or.inr (Or.inr (h H env))

/-- a member of a good list finds what it needs in the state the writer `(kw, bw, aw)` leaves,
when that writer is sufficient for the aggregated requirement of the list -/
theorem reader_sat_suff (cfg : Cfg) (H : Nat) (env : Nat → Nat) (cont : Bool) (f : Nat)
    (kw : Kern) (bw : Bound) (aw : Arg) (act : FState) (L : List Reader) (r : Reader)
    (hH : 1 ≤ H) (henv : ExtOK env)
    (hw : WFact cfg H cont f kw bw aw act)
    (hmode : cfg.annexed = true → cont = true → act.ann = true)
    (hr : r ∈ L) (hgood : GoodList cfg H env cont f L)
    (hs : Suff cfg H env (depthList (L.map infoOf)) (writeInfo kw bw aw)) :
    sat act (specNeed H env cont r.1 r.2.1 r.2.2) = true := by
  obtain ⟨r1, rs, rfl, hra1, hrs⟩ := hgood.head
  obtain ⟨k1, b1, a1⟩ := r1
  obtain ⟨⟨hok1, hsem1⟩, harg1⟩ := hgood.facts (k1, b1, a1) (by simp)
  obtain ⟨_, hdeep1, hmax1, _⟩ := hsem1 a1 harg1
  have hpos := (agg_head cfg H env cont k1 b1 a1 rs hH henv hok1 (argOf_some harg1).1 hra1
    hdeep1 hmax1 hrs).1
  obtain ⟨k, b, a⟩ := r
  obtain ⟨⟨hok, hsem⟩, harg⟩ := hgood.facts (k, b, a) hr
  obtain ⟨_, hdeep0, _, _⟩ := hsem a harg
  have hdeep : infoNeed H env (readInfo k b a) ≤ H := hdeep0
  have hrok := hok.readerOK (argOf_some harg).1
  obtain ⟨hn1, hn2⟩ := readInfo_need H env cont k b a hrok
  have hmemi : infoOf (k, b, a) ∈ ((k1, b1, a1) :: rs).map infoOf := List.mem_map_of_mem hr
  have hcov : (specNeed H env cont k b a).depth ≤
      evalDepths H env (depthList (((k1, b1, a1) :: rs).map infoOf)) :=
    Nat.le_trans hn1 (depthList_covers H env _ _ hmemi hn2 hdeep)
  obtain ⟨old, rfl⟩ := hw.st
  have haw := (argOf_some hw.arg).1
  have hwb : bw.lvl.wf := hw.ok.bound.2.2
  have hacc : aw.accOK := (hw.ok.args aw haw).1.acc
  obtain ⟨hcl, hwf⟩ := recAfter_le_specAfter H cont kw bw aw 0 old hH hwb hw.disc hacc hw.w
    (Nat.zero_le _)
  show sat (specAfter H cont kw bw aw old) (specNeed H env cont k b a) = true
  rw [sat_iff]
  rcases hs with ⟨r0, hr0, han, hcase⟩ | ⟨hm, hd⟩ | hall
  · have hty : annexedType (readInfo k b a) := depthList_annexed _ r0 hr0 han _ hmemi
    have hz := annexedType_need H env cont k b a hrok hty
    refine ⟨by omega, ?_⟩
    intro hann
    have hc := specNeed_annexed H env cont k b a hann
    subst hc
    rcases hcase with hcfg | hdo
    · exact hmode hcfg rfl
    · exact specAfter_dirty_ann H kw bw aw old hH hwb hdo
  · obtain ⟨h1, h2⟩ := specAfter_whole H cont kw bw aw old hwb hw.disc hacc hw.w hm hd
    exact ⟨by omega, fun _ => h2⟩
  · unfold cleanAfter at hall
    refine ⟨by omega, fun _ => ?_⟩
    rcases hwf with h0 | h1
    · omega
    · exact h1

/-- same without any previous writer in the invoke -/
theorem reader_sat_suff_none (cfg : Cfg) (H : Nat) (env : Nat → Nat) (cont : Bool) (f : Nat)
    (act : FState) (L : List Reader) (r : Reader)
    (hmode : cfg.annexed = true → cont = true → act.ann = true)
    (hr : r ∈ L) (hgood : GoodList cfg H env cont f L)
    (hs : SuffO cfg H env (depthList (L.map infoOf)) none) :
    sat act (specNeed H env cont r.1 r.2.1 r.2.2) = true := by
  obtain ⟨hcfg, r0, hr0, han⟩ := hs
  obtain ⟨k, b, a⟩ := r
  obtain ⟨⟨hok, _⟩, harg⟩ := hgood.facts (k, b, a) hr
  have hrok := hok.readerOK (argOf_some harg).1
  have hty : annexedType (readInfo k b a) :=
    depthList_annexed _ r0 hr0 han _ (List.mem_map_of_mem hr)
  have hz := annexedType_need H env cont k b a hrok hty
  show sat act (specNeed H env cont k b a) = true
  rw [sat_iff]
  exact ⟨by omega, fun hann => hmode hcfg (specNeed_annexed H env cont k b a hann)⟩

/-- executing a synchronous exchange of `f` -/
theorem hex_step (H : Nat) (env : Nat → Nat) (cont : Bool) (f : Nat) (ds : List HaloDepth)
    (chk : Bool) (s : RState) (hle : s.recorded ≤ s.act.cd)
    (hann : s.act.cd = 0 ∨ s.act.ann = true) (hi : s.inflight = none) :
    ∃ s', stepF H env cont f s (.hex .sync f ds chk) = .ok s' ∧
      evalDepths H env ds ≤ s'.act.cd ∧ s'.recorded ≤ s'.act.cd ∧
      (s'.act.cd = 0 ∨ s'.act.ann = true) ∧ s'.inflight = none ∧
      (s.act.ann = true → s'.act.ann = true) := by
  have hnot : ¬ (s.recorded > s.act.cd) := by omega
  have hstep : stepF H env cont f s (.hex .sync f ds chk) =
      .ok (if (!chk || decide (s.recorded < evalDepths H env ds)) = true
            then exchanged s (evalDepths H env ds) else s) := by
    simp [stepF, hnot, hi]
  refine ⟨_, hstep, ?_⟩
  obtain ⟨h1, h2, h3⟩ := hex_establishes H env cont f ds chk s _ hle hann hstep
  refine ⟨h1, h2, h3, ?_, ?_⟩
  · split
    · unfold exchanged; split <;> simp [hi]
    · exact hi
  · intro ha
    split
    · unfold exchanged; split <;> simp [ha]
    · exact ha

/-! ## The induction -/

theorem lowerFrom_hex (cfg : Cfg) (pre : Sched) (g : Nat) (rest : Sched) :
    lowerFrom cfg pre (.hex .sync g :: rest) =
      .hex .sync g (hexDepth g rest) (!(hexRequired cfg g pre rest).2) ::
        lowerFrom cfg (.hex .sync g :: pre) rest := rfl

theorem lowerFrom_hex_any (cfg : Cfg) (pre : Sched) (kind : HexKind) (g : Nat) (rest : Sched) :
    lowerFrom cfg pre (.hex kind g :: rest) =
      .hex kind g (hexInfo cfg kind g pre rest).1 (hexInfo cfg kind g pre rest).2 ::
        lowerFrom cfg (.hex kind g :: pre) rest := rfl

theorem lowerFrom_loop (cfg : Cfg) (pre : Sched) (k : Kern) (b : Bound) (rest : Sched) :
    lowerFrom cfg pre (.loop k b :: rest) =
      (.loop k b :: marks k b) ++ lowerFrom cfg (.loop k b :: pre) rest := rfl

theorem fwdReaders_head_writes {f : Nat} : ∀ {rest : Sched} {r : Kern × Bound × Arg}
    {tl : List (Kern × Bound × Arg)},
    fwdReaders f rest = r :: tl → r.2.2.access.writes = true → tl = []
  | [], _, _, h, _ => by simp [fwdReaders] at h
  | .hex kind g :: rest, r, tl, h, hw => by
    simp only [fwdReaders] at h
    split at h
    · simp at h
    · exact fwdReaders_head_writes h hw
  | .loop k b :: rest, r, tl, h, hw => by
    simp only [fwdReaders] at h
    cases ha : argOf k f with
    | none => simp only [ha] at h; exact fwdReaders_head_writes h hw
    | some a =>
      simp only [ha] at h
      by_cases hr : a.access.reads = true
      · simp only [hr, if_true] at h
        simp only [List.cons.injEq] at h
        obtain ⟨rfl, h2⟩ := h
        simp only at hw
        simp [hw] at h2
        exact h2
      · simp [hr] at h

theorem hexDepth_eq (f : Nat) (rest : Sched) :
    hexDepth f rest = depthList ((fwdReaders f rest).map infoOf) := rfl

theorem valid_run (cfg : Cfg) (H : Nat) (env : Nat → Nat) (cont : Bool) (f : Nat) (hH : 1 ≤ H)
    (henv : ExtOK env) : ∀ (rest pre : Sched) (s : RState),
    ValidFrom cfg H env cont f pre rest →
    (∀ k b, Item.loop k b ∈ rest → POK cfg H env cont f k b) →
    Inv cfg H env cont f pre rest s →
    ∃ s', runF H env cont f (lowerFrom cfg pre rest) s = .ok s'
  | [], pre, s, _, _, hinv => by
    refine ⟨s, ?_⟩
    have := hinv.rec_le
    have hnot : ¬ (s.recorded > s.act.cd) := by omega
    simp [lowerFrom, runF, hinv.infl, hnot]
  | .hex kind g :: rest, pre, s, hv, hall, hinv => by
    obtain ⟨hhex, hv'⟩ := hv
    have hall' : ∀ k b, Item.loop k b ∈ rest → POK cfg H env cont f k b :=
      fun k b h => hall k b (by simp [h])
    by_cases hg : g = f
    · subst hg
      obtain ⟨rfl, hhead⟩ := hhex rfl
      rw [lowerFrom_hex, runF_cons]
      obtain ⟨s', hstep, hd, hle, hann, hi, hkeep⟩ :=
        hex_step H env cont g (hexDepth g rest) (!(hexRequired cfg g pre rest).2) s
          hinv.rec_le hinv.annwf hinv.infl
      rw [hstep]
      apply valid_run cfg H env cont g hH henv rest _ s' hv' hall'
      refine ⟨hle, hann, fun h1 h2 => hkeep (hinv.mode h1 h2), hi, ?_, ?_⟩
      · intro _ r hr
        obtain ⟨hloop, harg, _⟩ := fwdReaders_mem hr
        obtain ⟨hok, hsem⟩ := hall' _ _ hloop
        obtain ⟨_, hdeep, _, _⟩ := hsem _ harg
        have hcov := hex_covers_readers H env cont g rest r hr
          (hok.readerOK (argOf_some harg).1) hdeep
        have hpos : 1 ≤ evalDepths H env (hexDepth g rest) := by
          cases hfr : fwdReaders g rest with
          | nil => rw [hfr] at hr; simp at hr
          | cons r1 tl =>
            have hr1 : r1 ∈ fwdReaders g rest := by rw [hfr]; simp
            obtain ⟨hloop1, harg1, _⟩ := fwdReaders_mem hr1
            obtain ⟨hok1, hsem1⟩ := hall' _ _ hloop1
            obtain ⟨_, hdeep1, hmax1, _⟩ := hsem1 _ harg1
            have hh := hhead
            rw [hfr] at hh
            rw [hexDepth_eq, hfr]
            obtain ⟨k1, b1, a1⟩ := r1
            exact (agg_head cfg H env cont k1 b1 a1 tl hH henv hok1 (argOf_some harg1).1 hh
              hdeep1 hmax1 (fun hw => fwdReaders_head_writes hfr hw)).1
        rw [sat_iff]
        refine ⟨by omega, fun _ => ?_⟩
        rcases hann with h0 | h1
        · omega
        · exact h1
      · intro k b a hb
        simp [bwdDep] at hb
    · rw [lowerFrom_hex_any, runF_cons]
      have hgb : (g != f) = true := by simpa using hg
      have hstep : stepF H env cont f s
          (.hex kind g (hexInfo cfg kind g pre rest).1 (hexInfo cfg kind g pre rest).2) = .ok s := by
        simp [stepF, hgb]
      rw [hstep]
      apply valid_run cfg H env cont f hH henv rest _ s hv' hall'
      have hgf : (g == f) = false := by simpa using hg
      have hb : bwdDep f (.hex kind g :: pre) = bwdDep f pre := by simp [bwdDep, hgf]
      have hfw : fwdReaders f (.hex kind g :: rest) = fwdReaders f rest := by
        simp [fwdReaders, hgf]
      refine ⟨hinv.rec_le, hinv.annwf, hinv.mode, hinv.infl, ?_, ?_⟩
      · intro hx r hr
        exact hinv.hexp (hb ▸ hx) r (hfw ▸ hr)
      · intro k b a hx
        exact hinv.wr k b a (hb ▸ hx)
  | .loop k b :: rest, pre, s, hv, hall, hinv => by
    obtain ⟨hread, hv'⟩ := hv
    obtain ⟨hok, hsem⟩ := hall k b (by simp)
    have hall' : ∀ k b, Item.loop k b ∈ rest → POK cfg H env cont f k b :=
      fun k b h => hall k b (by simp [h])
    rw [lowerFrom_loop, runF_append]
    cases harg : argOf k f with
    | none =>
      rw [loop_step_untouched H env cont f k b s harg]
      apply valid_run cfg H env cont f hH henv rest _ s hv' hall'
      have hb : bwdDep f (.loop k b :: pre) = bwdDep f pre := by simp [bwdDep, harg]
      have hfw : fwdReaders f (.loop k b :: rest) = fwdReaders f rest := by
        simp [fwdReaders, harg]
      refine ⟨hinv.rec_le, hinv.annwf, hinv.mode, hinv.infl, ?_, ?_⟩
      · intro hx r hr
        exact hinv.hexp (hb ▸ hx) r (hfw ▸ hr)
      · intro k' b' a' hx
        exact hinv.wr k' b' a' (hb ▸ hx)
    | some a =>
      obtain ⟨hamem, haf⟩ := argOf_some harg
      obtain ⟨hdisc, hdeep, hmax, _⟩ := hsem a harg
      have hsat : sat s.act (specNeed H env cont k b a) = true := by
        by_cases hr : a.access.reads = true
        · have hmemr : (k, b, a) ∈ fwdReaders f (.loop k b :: rest) := by
            simp [fwdReaders, harg, hr]
          by_cases hra : haloReadAccess cfg k b a = true
          · cases hb : bwdDep f pre with
            | hex => exact hinv.hexp hb (k, b, a) hmemr
            | none =>
              rcases hread a harg hra with hhex | ⟨L, hL, hgood, hs⟩
              · rw [hb] at hhex; cases hhex
              · rw [bwdDep_none hb] at hs
                exact reader_sat_suff_none cfg H env cont f s.act L (k, b, a) hinv.mode hL hgood hs
            | writer kw bw aw =>
              rcases hread a harg hra with hhex | ⟨L, hL, hgood, hs⟩
              · rw [hb] at hhex; cases hhex
              · rw [(bwdDep_writer hb).1] at hs
                exact reader_sat_suff cfg H env cont f kw bw aw s.act L (k, b, a) hH henv
                  (hinv.wr kw bw aw hb) hinv.mode hL hgood hs
          · have hra' : haloReadAccess cfg k b a = false := by simpa using hra
            exact noHaloAccess_sound cfg H env cont k b a s.act hra' (hok.args a hamem).2.2
              hok.bound hdisc hinv.mode
        · have hr' : a.access.reads = false := by simpa using hr
          simp [specNeed, hr', sat]
      by_cases hw : a.access.writes = true
      · rw [loop_step_writer H env cont f k b a s harg hok.nodup hw hsat hinv.infl]
        apply valid_run cfg H env cont f hH henv rest _ _ hv' hall'
        obtain ⟨h1, h2⟩ := recAfter_le_specAfter H cont k b a s.recorded s.act hH hok.bound.2.2
          hdisc (hok.args a hamem).1.acc hw hinv.rec_le
        have hb : bwdDep f (.loop k b :: pre) = .writer k b a := by simp [bwdDep, harg, hw]
        refine ⟨h1, h2, ?_, hinv.infl, ?_, ?_⟩
        · intro hc hcont
          subst hcont
          have hnd : a.disc = false := by
            cases hd : a.disc
            · rfl
            · have := hdisc hd; cases this
          exact specAfter_mode H k b a s.act hH hok.bound.2.2 hnd
            (fun hd => hok.wdof a hamem hw hd hc)
            (fun hd hne => hok.wcell a hamem hw hd hnd hne)
        · intro hx
          rw [hb] at hx
          cases hx
        · intro k' b' a' hx
          rw [hb] at hx
          cases hx
          exact ⟨hok, harg, hw, hdisc, ⟨s.act, rfl⟩⟩
      · have hr : a.access = .read := by
          cases hacc : a.access <;> simp_all [Access.writes]
        rw [loop_step_reader H env cont f k b a s harg hok.nodup hr hsat]
        apply valid_run cfg H env cont f hH henv rest _ s hv' hall'
        have hw' : a.access.writes = false := by simpa using hw
        have hb : bwdDep f (.loop k b :: pre) = bwdDep f pre := by simp [bwdDep, harg, hw']
        have hfw : fwdReaders f (.loop k b :: rest) = (k, b, a) :: fwdReaders f rest := by
          simp [fwdReaders, harg, hr, Access.reads, Access.writes]
        refine ⟨hinv.rec_le, hinv.annwf, hinv.mode, hinv.infl, ?_, ?_⟩
        · intro hx r hr'
          exact hinv.hexp (hb ▸ hx) r (by rw [hfw]; simp [hr'])
        · intro k' b' a' hx
          exact hinv.wr k' b' a' (hb ▸ hx)

end C22
