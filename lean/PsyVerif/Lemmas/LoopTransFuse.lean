import PsyVerif.Model.LoopTrans
import PsyVerif.Lemmas.MiniFSem
import PsyVerif.Lemmas.LoopTransChunk
/-! # C05 — lemmas for LoopFuseTrans (fusion of two loops over the same iteration space whose
bodies touch disjoint written variables) and HoistTrans -/
namespace C05
open MiniF

/-- iterations change only the scalar location of the loop variable and what the body writes -/
theorem iters_frame_loc {body : Stmt} {v x : Nat} (i j : Int) (hl : ((x, i, j) : Loc) ≠ (v, 0, 0))
    (hx : x ∉ wvars body) (lo s : Int) :
    ∀ (n : Nat) (k : Int) (σ : Store), (iters (exec body) v lo s n k σ) (x, i, j) = σ (x, i, j) := by
  intro n k σ
  have := iters_invariant (fun τ => τ (x, i, j) = σ (x, i, j)) (exec body) v lo s
    (by
      intro τ val hτ
      show (exec body (τ.set (v, 0, 0) val)) (x, i, j) = σ (x, i, j)
      rw [exec_frame hx, Store.set_apply, if_neg hl]
      exact hτ)
  exact this n k σ rfl

/-- projection of the fused loop on everything the second body does not write -/
theorem fused_proj1 {b1 b2 : Stmt} (v : Nat) (lo s : Int)
    (h1 : ∀ x ∈ rvars b1, x ∉ wvars b2) :
    ∀ n k ρ ρ', AgreeOn (fun x => x ∉ wvars b2) ρ ρ' →
      AgreeOn (fun x => x ∉ wvars b2) (iters (exec (.seq b1 b2)) v lo s n k ρ) (iters (exec b1) v lo s n k ρ') := by
  intro n
  induction n with
  | zero => intro k ρ ρ' h; exact h
  | succ n ih =>
    intro k ρ ρ' h
    simp only [iters]
    apply ih
    have hc := exec_congr (s := b1) (V := fun x => x ∉ wvars b2) h1 (h.set (v, 0, 0) (lo + k * s))
    intro x hx i j
    show (exec b2 (exec b1 _)) (x, i, j) = _
    rw [exec_frame hx]
    exact hc x hx i j

/-- projection of the fused loop on everything the first body does not write -/
theorem fused_proj2 {b1 b2 : Stmt} (v : Nat) (lo s : Int)
    (h2 : ∀ x ∈ rvars b2, x ∉ wvars b1) :
    ∀ n k ρ ρ', AgreeOn (fun x => x ∉ wvars b1) ρ ρ' →
      AgreeOn (fun x => x ∉ wvars b1) (iters (exec (.seq b1 b2)) v lo s n k ρ) (iters (exec b2) v lo s n k ρ') := by
  intro n
  induction n with
  | zero => intro k ρ ρ' h; exact h
  | succ n ih =>
    intro k ρ ρ' h
    simp only [iters]
    apply ih
    show AgreeOn _ (exec b2 (exec b1 _)) _
    apply exec_congr (s := b2) (V := fun x => x ∉ wvars b1) h2
    intro x hx i j
    rw [exec_frame hx]
    exact h.set (v, 0, 0) (lo + k * s) x hx i j

/-- **fusion of independent loops**: same header, loop variable and header variables not written
by the bodies, and no variable written by one body is read or written by the other -/
theorem fuse_indep_sound (v : Nat) (lo hi st : Expr) (b1 b2 : Stmt)
    (hv2 : v ∉ wvars b2)
    (hb : ∀ x, x ∈ evars lo ∨ x ∈ evars hi ∨ x ∈ evars st → x ≠ v ∧ x ∉ wvars b1)
    (h12 : ∀ x ∈ wvars b1, x ∉ rvars b2 ∧ x ∉ wvars b2)
    (h21 : ∀ x ∈ wvars b2, x ∉ rvars b1 ∧ x ∉ wvars b1) (σ : Store) :
    exec (.loop v lo hi st (.seq b1 b2)) σ = exec (.seq (.loop v lo hi st b1) (.loop v lo hi st b2)) σ := by
  have r1 : ∀ x ∈ rvars b1, x ∉ wvars b2 := fun x hx hw => (h21 x hw).1 hx
  have r2 : ∀ x ∈ rvars b2, x ∉ wvars b1 := fun x hx hw => (h12 x hw).1 hx
  generalize hlo0 : eval lo σ = lo0
  generalize hhi0 : eval hi σ = hi0
  generalize hs0 : eval st σ = s0
  -- the first loop alone
  have hL1 : exec (.loop v lo hi st b1) σ
      = (iters (exec b1) v lo0 s0 (trip lo0 hi0 s0) 0 σ).set (v, 0, 0) (lo0 + ((0 : Int) + (trip lo0 hi0 s0 : Nat)) * s0) := by
    simp only [exec, runIters_eq_iters, hlo0, hhi0, hs0]
  generalize hσ1 : exec (.loop v lo hi st b1) σ = σ1 at hL1
  -- σ1 agrees with σ outside wvars b1 and the scalar location of v
  have hσ1σ : ∀ x i j, x ∉ wvars b1 → ((x, i, j) : Loc) ≠ (v, 0, 0) → σ1 (x, i, j) = σ (x, i, j) := by
    intro x i j hx hl
    rw [hL1, Store.set_other _ _ hl]
    exact iters_frame_loc i j hl hx lo0 s0 _ _ σ
  have hbounds : ∀ e : Expr, (∀ x ∈ evars e, x ≠ v ∧ x ∉ wvars b1) → eval e σ1 = eval e σ := by
    intro e he
    apply eval_congr (V := fun x => x ∈ evars e) (fun x hx => hx)
    intro x hx i j
    exact hσ1σ x i j (he x hx).2 (fun h => (he x hx).1 (congrArg Prod.fst h))
  have e1 : eval lo σ1 = lo0 := by rw [hbounds lo (fun x hx => hb x (Or.inl hx)), hlo0]
  have e2 : eval hi σ1 = hi0 := by rw [hbounds hi (fun x hx => hb x (Or.inr (Or.inl hx))), hhi0]
  have e3 : eval st σ1 = s0 := by rw [hbounds st (fun x hx => hb x (Or.inr (Or.inr hx))), hs0]
  have hO : exec (.seq (.loop v lo hi st b1) (.loop v lo hi st b2)) σ
      = (iters (exec b2) v lo0 s0 (trip lo0 hi0 s0) 0 σ1).set (v, 0, 0) (lo0 + ((0 : Int) + (trip lo0 hi0 s0 : Nat)) * s0) := by
    show exec (.loop v lo hi st b2) (exec (.loop v lo hi st b1) σ) = _
    rw [hσ1]
    simp only [exec, runIters_eq_iters, e1, e2, e3]
  have hF : exec (.loop v lo hi st (.seq b1 b2)) σ
      = (iters (exec (.seq b1 b2)) v lo0 s0 (trip lo0 hi0 s0) 0 σ).set (v, 0, 0) (lo0 + ((0 : Int) + (trip lo0 hi0 s0 : Nat)) * s0) := by
    show runIters (exec (.seq b1 b2)) v (eval lo σ) (eval st σ) (trip (eval lo σ) (eval hi σ) (eval st σ)) 0 σ = _
    rw [runIters_eq_iters, hlo0, hhi0, hs0]
  rw [hF, hO]
  generalize trip lo0 hi0 s0 = n at hL1 ⊢
  apply Store.ext
  funext ⟨x, i, j⟩
  simp only [Store.set_apply]
  split
  · rfl
  · rename_i hl
    by_cases hx2 : x ∈ wvars b2
    · -- written by the second body: determined by the second loop alone
      have hx1 : x ∉ wvars b1 := (h21 x hx2).2
      have hxv : x ≠ v := fun h => hv2 (h ▸ hx2)
      rw [fused_proj2 v lo0 s0 r2 n 0 σ σ (AgreeOn.refl _ σ) x hx1 i j]
      have hU : ∀ σ τ, AgreeOn (fun x => x ∉ wvars b1) σ τ →
          AgreeOn (fun x => x ∉ wvars b1) (exec b2 σ) (exec b2 τ) :=
        fun σ τ h => exec_congr (s := b2) r2 h
      have hexc : AgreeExc (fun x => x ∉ wvars b1) v σ σ1 :=
        fun x i j hx hl => (hσ1σ x i j hx hl).symm
      exact iters_congr_exc v lo0 s0 hU n 0 σ σ1 hexc x i j hx1 hl
    · -- not written by the second body: determined by the first loop alone
      rw [fused_proj1 v lo0 s0 r1 n 0 σ σ (AgreeOn.refl _ σ) x hx2 i j]
      rw [iters_frame_loc i j hl hx2 lo0 s0 n 0 σ1, hL1, Store.set_other _ _ hl]

end C05
