import PsyVerif.Model.OMP
import PsyVerif.Lemmas.OMPSem
import PsyVerif.Lemmas.MiniFSem
/-! # The static checks `staticIndepB` / `staticUncondB` imply the semantic hypotheses
`IterIndep` / `ScalarsUnconditional` at EVERY store.  Core Lean only. -/
namespace C09
open MiniF

/-- the subscript of a location at position 0 / 1 -/
def comp (p : Nat) (l : Loc) : Int := if p = 0 then l.2.1 else l.2.2

/-- a read location is good: if its variable is an array of `spec`, the distinguished subscript is `val + c` -/
def RGood (spec : Spec) (val : Int) (l : Loc) : Prop :=
  ∀ p c, spec.lookup l.1 = some (p, c) → comp p l = val + c

/-- a written location is good: a privatised variable, or an array of `spec` at subscript `val + c` -/
def WGood (privs : List Nat) (spec : Spec) (val : Int) (l : Loc) : Prop :=
  l.1 ∈ privs ∨ ∃ p c, spec.lookup l.1 = some (p, c) ∧ comp p l = val + c

def FpGood (privs : List Nat) (spec : Spec) (val : Int) (g : Fp) : Prop :=
  (∀ l ∈ g.1, RGood spec val l) ∧ (∀ l ∈ g.2, WGood privs spec val l)

theorem FpGood.seq {privs : List Nat} {spec : Spec} {val : Int} {a b : Fp}
    (ha : FpGood privs spec val a) (hb : FpGood privs spec val b) : FpGood privs spec val (fpSeq a b) := by
  constructor
  · intro l hl
    rcases mem_fpSeq_reads.mp hl with h | h
    · exact ha.1 l h
    · exact hb.1 l h.1
  · intro l hl
    rcases mem_fpSeq_writes.mp hl with h | h
    · exact ha.2 l h
    · exact hb.2 l h

theorem affOff_eval {v : Nat} {e : Expr} {c : Int} (h : affOff v e = some c) {τ : Store} {val : Int}
    (hv : τ (v, 0, 0) = val) : eval e τ = val + c := by
  unfold affOff at h
  split at h
  all_goals (first | (split at h <;> simp at h) | simp at h)
  all_goals (subst_vars; simp [eval, evalBin] <;> omega)

/-- an access `a(i[, j])` accepted by `subOK` touches a good location -/
theorem subOK_good {v : Nat} {spec : Spec} {a : Nat} {i : Expr} {j : Option Expr} {τ : Store} {val : Int}
    (hv : τ (v, 0, 0) = val) (jv : Int) (hj : ∀ e, j = some e → jv = eval e τ)
    {p : Nat} {c : Int} (hl : spec.lookup a = some (p, c)) (h : subOK v spec a i j = some true) :
    comp p (a, eval i τ, jv) = val + c := by
  simp only [subOK, hl] at h
  by_cases hp : p = 0
  · simp only [hp, if_true, Option.some.injEq, beq_iff_eq] at h
    simp only [comp, hp, if_true]
    exact affOff_eval h hv
  · simp only [hp, if_false] at h
    cases j with
    | none => simp at h
    | some e =>
      simp only [Option.some.injEq, beq_iff_eq] at h
      simp only [comp, hp, if_false]
      rw [hj e rfl]
      exact affOff_eval h hv

theorem erd_good {v : Nat} {spec : Spec} {e : Expr} (h : okExpr v spec e = true) {τ : Store} {val : Int}
    (hv : τ (v, 0, 0) = val) : ∀ l ∈ erd e τ, RGood spec val l := by
  induction e with
  | lit n => intro l hl; simp [erd] at hl
  | var x =>
    intro l hl p c hlk
    simp only [erd, List.mem_singleton] at hl
    subst hl
    simp only [okExpr, Option.isNone_iff_eq_none] at h
    rw [h] at hlk; cases hlk
  | idx1 a i ih =>
    simp only [okExpr, Bool.and_eq_true] at h
    intro l hl
    simp only [erd, List.mem_cons] at hl
    rcases hl with hl | hl
    · subst hl
      intro p c hlk
      have hs : subOK v spec a i none = some true := by
        cases hso : subOK v spec a i none with
        | none => simp [subOK, hlk] at hso; split at hso <;> simp at hso
        | some b => rw [hso] at h; simp at h; rw [h.2]
      exact subOK_good hv 0 (fun e he => by cases he) hlk hs
    · exact ih h.1 l hl
  | idx2 a i j ihi ihj =>
    simp only [okExpr, Bool.and_eq_true] at h
    intro l hl
    simp only [erd, List.mem_cons, List.mem_append] at hl
    rcases hl with hl | hl | hl
    · subst hl
      intro p c hlk
      have hs : subOK v spec a i (some j) = some true := by
        cases hso : subOK v spec a i (some j) with
        | none => simp [subOK, hlk] at hso; split at hso <;> simp at hso
        | some b => rw [hso] at h; simp at h; rw [h.2]
      exact subOK_good hv (eval j τ) (fun e he => by cases he; rfl) hlk hs
    · exact ihi h.1.1 l hl
    · exact ihj h.1.2 l hl
  | un op e ih => exact ih (by simpa [okExpr] using h)
  | bin op a b iha ihb =>
    simp only [okExpr, Bool.and_eq_true] at h
    intro l hl
    simp only [erd, List.mem_append] at hl
    rcases hl with hl | hl
    · exact iha h.1 l hl
    · exact ihb h.2 l hl

theorem okStmt_v_not_written {v : Nat} {privs : List Nat} {spec : Spec} {s : Stmt}
    (h : okStmt v privs spec s = true) : v ∉ wvars s := by
  induction s with
  | skip => simp [wvars]
  | seq a b iha ihb =>
    simp only [okStmt, Bool.and_eq_true] at h
    simp only [wvars, List.mem_append, not_or]
    exact ⟨iha h.1, ihb h.2⟩
  | assign x e =>
    simp only [okStmt, Bool.and_eq_true, bne_iff_ne] at h
    simp only [wvars, List.mem_singleton]
    exact fun e => h.1.1 e.symm
  | store1 a i e =>
    simp only [okStmt, Bool.and_eq_true, bne_iff_ne] at h
    simp only [wvars, List.mem_singleton]
    exact fun e => h.1.1.1 e.symm
  | store2 a i j e =>
    simp only [okStmt, Bool.and_eq_true, bne_iff_ne] at h
    simp only [wvars, List.mem_singleton]
    exact fun e => h.1.1.1.1 e.symm
  | ite c t f iht ihf =>
    simp only [okStmt, Bool.and_eq_true] at h
    simp only [wvars, List.mem_append, not_or]
    exact ⟨iht h.1.2, ihf h.2⟩
  | loop w lo hi st b ih =>
    simp only [okStmt, Bool.and_eq_true, bne_iff_ne] at h
    simp only [wvars, List.mem_cons, not_or]
    exact ⟨fun e => h.1.1.1.1.1 e.symm, ih h.2⟩

theorem subOK_write {v : Nat} {spec : Spec} {a : Nat} {i : Expr} {j : Option Expr}
    (h : (subOK v spec a i j).getD false = true) :
    subOK v spec a i j = some true ∧ ∃ p c, spec.lookup a = some (p, c) := by
  cases hs : subOK v spec a i j with
  | none => rw [hs] at h; simp at h
  | some b =>
    rw [hs] at h
    simp only [Option.getD_some] at h
    subst h
    refine ⟨rfl, ?_⟩
    cases hl : spec.lookup a with
    | none => simp [subOK, hl] at hs
    | some pc => exact ⟨pc.1, pc.2, rfl⟩

theorem fpGood_reads {privs : List Nat} {spec : Spec} {val : Int} {R : List Loc}
    (h : ∀ l ∈ R, RGood spec val l) : FpGood privs spec val (R, []) :=
  ⟨h, fun l hl => by simp at hl⟩

theorem fpIters_good {v w : Nat} {privs : List Nat} {spec : Spec} {b : Stmt} {val : Int}
    (hwv : w ≠ v) (hwp : w ∈ privs) (hvb : v ∉ wvars b)
    (ih : ∀ τ : Store, τ (v, 0, 0) = val → FpGood privs spec val (fp b τ)) (lo st : Int) :
    ∀ n k (τ : Store), τ (v, 0, 0) = val →
      FpGood privs spec val (fpIters (exec b) (fp b) w lo st n k τ) := by
  have hset : FpGood privs spec val ([], [(w, 0, 0)]) :=
    ⟨fun l hl => by simp at hl, fun l hl => by
      simp only [List.mem_singleton] at hl; subst hl; exact Or.inl hwp⟩
  intro n
  induction n with
  | zero => intro k τ _; exact hset
  | succ n ihn =>
    intro k τ hτ
    have hne : ((v, 0, 0) : Loc) ≠ (w, 0, 0) := fun e => hwv (congrArg Prod.fst e).symm
    have h1 : (τ.set (w, 0, 0) (lo + k * st)) (v, 0, 0) = val := by
      rw [set_apply, if_neg hne]; exact hτ
    have h2 : (exec b (τ.set (w, 0, 0) (lo + k * st))) (v, 0, 0) = val := by
      rw [exec_frame hvb]; exact h1
    exact hset.seq ((ih _ h1).seq (ihn (k + 1) _ h2))

theorem fp_good {v : Nat} {privs : List Nat} {spec : Spec} {s : Stmt}
    (h : okStmt v privs spec s = true) {val : Int} :
    ∀ τ : Store, τ (v, 0, 0) = val → FpGood privs spec val (fp s τ) := by
  induction s with
  | skip => intro τ _; exact ⟨fun l hl => by simp [fp] at hl, fun l hl => by simp [fp] at hl⟩
  | seq a b iha ihb =>
    simp only [okStmt, Bool.and_eq_true] at h
    intro τ hτ
    have hb : (exec a τ) (v, 0, 0) = val := by rw [exec_frame (okStmt_v_not_written h.1)]; exact hτ
    exact (iha h.1 τ hτ).seq (ihb h.2 _ hb)
  | assign x e =>
    simp only [okStmt, Bool.and_eq_true, List.contains_eq_mem, decide_eq_true_eq] at h
    intro τ hτ
    refine ⟨erd_good h.2 hτ, fun l hl => ?_⟩
    simp only [fp, List.mem_singleton] at hl
    subst hl
    exact Or.inl h.1.2
  | store1 a i e =>
    simp only [okStmt, Bool.and_eq_true] at h
    intro τ hτ
    obtain ⟨hs, p, c, hl⟩ := subOK_write h.2
    refine ⟨fun l hl' => ?_, fun l hl' => ?_⟩
    · simp only [fp, List.mem_append] at hl'
      rcases hl' with hl' | hl'
      · exact erd_good h.1.1.2 hτ l hl'
      · exact erd_good h.1.2 hτ l hl'
    · simp only [fp, List.mem_singleton] at hl'
      subst hl'
      exact Or.inr ⟨p, c, hl, subOK_good hτ 0 (fun e he => by cases he) hl hs⟩
  | store2 a i j e =>
    simp only [okStmt, Bool.and_eq_true] at h
    intro τ hτ
    obtain ⟨hs, p, c, hl⟩ := subOK_write h.2
    refine ⟨fun l hl' => ?_, fun l hl' => ?_⟩
    · simp only [fp, List.mem_append] at hl'
      rcases hl' with (hl' | hl') | hl'
      · exact erd_good h.1.1.1.2 hτ l hl'
      · exact erd_good h.1.1.2 hτ l hl'
      · exact erd_good h.1.2 hτ l hl'
    · simp only [fp, List.mem_singleton] at hl'
      subst hl'
      exact Or.inr ⟨p, c, hl, subOK_good hτ (eval j τ) (fun e he => by cases he; rfl) hl hs⟩
  | ite c t f iht ihf =>
    simp only [okStmt, Bool.and_eq_true] at h
    intro τ hτ
    simp only [fp]
    refine (fpGood_reads (erd_good h.1.1 hτ)).seq ?_
    split
    · exact iht h.1.2 τ hτ
    · exact ihf h.2 τ hτ
  | loop w lo hi st b ih =>
    simp only [okStmt, Bool.and_eq_true, bne_iff_ne, List.contains_eq_mem, decide_eq_true_eq] at h
    intro τ hτ
    simp only [fp]
    refine (fpGood_reads (fun l hl => ?_)).seq
      (fpIters_good h.1.1.1.1.1 h.1.1.1.1.2 (okStmt_v_not_written h.2) (ih h.2) _ _ _ _ τ hτ)
    simp only [List.mem_append] at hl
    rcases hl with (hl | hl) | hl
    · exact erd_good h.1.1.1.2 hτ l hl
    · exact erd_good h.1.1.2 hτ l hl
    · exact erd_good h.1.2 hτ l hl

/-- **static independence ⇒ Bernstein independence of the iterations, at every store** -/
theorem iterIndep_of_static (P : ParDo) (h : staticIndepB P = true) (σ : Store) : IterIndep P σ := by
  intro k hk k' hk' hne l hw hp
  have hst : eval P.step σ ≠ 0 := by
    intro h0
    simp [ParDo.trips, trip, h0] at hk
  have gk : FpGood P.privs (specOfStmt P.v P.body) (eval P.lo σ + (k : Int) * eval P.step σ) (P.iterFp σ k) :=
    fp_good h _ (by simp [ParDo.iterStore])
  have gk' : FpGood P.privs (specOfStmt P.v P.body) (eval P.lo σ + (k' : Int) * eval P.step σ) (P.iterFp σ k') :=
    fp_good h _ (by simp [ParDo.iterStore])
  have hvals : eval P.lo σ + (k : Int) * eval P.step σ ≠ eval P.lo σ + (k' : Int) * eval P.step σ := by
    intro e
    have e' : (k : Int) * eval P.step σ = (k' : Int) * eval P.step σ := by omega
    have := Int.eq_of_mul_eq_mul_right hst e'
    exact hne (by omega)
  rcases gk.2 l hw with hpr | ⟨p, c, hl, hc⟩
  · exact absurd hpr hp
  · constructor
    · intro hr
      have := gk'.1 l hr p c hl
      rw [hc] at this
      exact hvals (by omega)
    · intro hw'
      rcases gk'.2 l hw' with hpr | ⟨p', c', hl', hc'⟩
      · exact hp hpr
      · rw [hl] at hl'
        cases hl'
        rw [hc] at hc'
        exact hvals (by omega)

/-! ## definite assignment ⇒ write-before-read -/

theorem erd_readsOK {X D : List Nat} {e : Expr} (h : readsOK X D e = true) (τ : Store) :
    ∀ l ∈ erd e τ, l.1 ∈ X → l.1 ∈ D ∧ l.2 = (0, 0) := by
  induction e with
  | lit n => intro l hl; simp [erd] at hl
  | var x =>
    intro l hl hx
    simp only [erd, List.mem_singleton] at hl
    subst hl
    simp only [readsOK, Bool.or_eq_true, Bool.not_eq_true', List.contains_eq_mem, decide_eq_false_iff_not,
      decide_eq_true_eq] at h
    rcases h with h | h
    · exact absurd hx h
    · exact ⟨h, rfl⟩
  | idx1 a i ih =>
    simp only [readsOK, Bool.and_eq_true, Bool.not_eq_true', List.contains_eq_mem, decide_eq_false_iff_not] at h
    intro l hl hx
    simp only [erd, List.mem_cons] at hl
    rcases hl with hl | hl
    · subst hl; exact absurd hx h.1
    · exact ih h.2 l hl hx
  | idx2 a i j ihi ihj =>
    simp only [readsOK, Bool.and_eq_true, Bool.not_eq_true', List.contains_eq_mem, decide_eq_false_iff_not] at h
    intro l hl hx
    simp only [erd, List.mem_cons, List.mem_append] at hl
    rcases hl with hl | hl | hl
    · subst hl; exact absurd hx h.1.1
    · exact ihi h.1.2 l hl hx
    · exact ihj h.2 l hl hx
  | un op e ih => exact ih (by simpa [readsOK] using h)
  | bin op a b iha ihb =>
    simp only [readsOK, Bool.and_eq_true] at h
    intro l hl hx
    simp only [erd, List.mem_append] at hl
    rcases hl with hl | hl
    · exact iha h.1 l hl hx
    · exact ihb h.2 l hl hx

/-- what `defAssign X s D = some D'` means for the footprint of `s` at any store -/
def DAGood (X D D' : List Nat) (g : Fp) : Prop :=
  (∀ l ∈ g.1, l.1 ∈ X → l.1 ∈ D ∧ l.2 = (0, 0)) ∧ (∀ x ∈ D', x ∈ D ∨ ((x, 0, 0) : Loc) ∈ g.2)

theorem DAGood.seq {X D D₁ D₂ : List Nat} {a b : Fp} (ha : DAGood X D D₁ a) (hb : DAGood X D₁ D₂ b) :
    DAGood X D D₂ (fpSeq a b) := by
  constructor
  · intro l hl hx
    rcases mem_fpSeq_reads.mp hl with h | ⟨h, hnw⟩
    · exact ha.1 l h hx
    · obtain ⟨h1, h2⟩ := hb.1 l h hx
      refine ⟨?_, h2⟩
      rcases ha.2 l.1 h1 with h' | h'
      · exact h'
      · exfalso; apply hnw
        have : l = (l.1, 0, 0) := by
          obtain ⟨x, ij⟩ := l
          simp only at h2; subst h2; rfl
        rw [this]; exact h'
  · intro x hx
    rcases hb.2 x hx with h | h
    · rcases ha.2 x h with h' | h'
      · exact Or.inl h'
      · exact Or.inr (mem_fpSeq_writes.mpr (Or.inl h'))
    · exact Or.inr (mem_fpSeq_writes.mpr (Or.inr h))

theorem DAGood.reads {X D : List Nat} {R : List Loc}
    (h : ∀ l ∈ R, l.1 ∈ X → l.1 ∈ D ∧ l.2 = (0, 0)) : DAGood X D D (R, []) :=
  ⟨h, fun _ hx => Or.inl hx⟩

theorem fpIters_da {X D Db : List Nat} {w : Nat} {b : Stmt}
    (ih : ∀ τ : Store, DAGood X (w :: D) Db (fp b τ)) (lo st : Int) :
    ∀ n k (τ : Store), DAGood X D (w :: D) (fpIters (exec b) (fp b) w lo st n k τ) := by
  intro n
  induction n with
  | zero =>
    intro k τ
    exact ⟨fun l hl => by simp [fpIters] at hl, fun x hx => by
      simp only [List.mem_cons] at hx
      rcases hx with hx | hx
      · subst hx; exact Or.inr (by simp [fpIters])
      · exact Or.inl hx⟩
  | succ n ihn =>
    intro k τ
    constructor
    · intro l hl hx
      simp only [fpIters, mem_fpSeq_reads, List.mem_singleton] at hl
      rcases hl with hl | ⟨hl, hnw⟩
      · simp at hl
      · rcases hl with hl | ⟨hl, _⟩
        · obtain ⟨h1, h2⟩ := (ih _).1 l hl hx
          refine ⟨?_, h2⟩
          simp only [List.mem_cons] at h1
          rcases h1 with h1 | h1
          · exfalso; apply hnw
            obtain ⟨x, ij⟩ := l
            simp only at h2 h1; subst h2; subst h1; rfl
          · exact h1
        · exact (ihn (k + 1) _).1 l hl hx
    · intro x hx
      simp only [List.mem_cons] at hx
      rcases hx with hx | hx
      · subst hx
        refine Or.inr ?_
        simp only [fpIters, mem_fpSeq_writes, List.mem_singleton]
        exact Or.inl trivial
      · exact Or.inl hx

theorem defAssign_sound {X : List Nat} {s : Stmt} {D D' : List Nat} (h : defAssign X s D = some D') :
    ∀ τ : Store, DAGood X D D' (fp s τ) := by
  induction s generalizing D D' with
  | skip =>
    simp only [defAssign, Option.some.injEq] at h; subst h
    intro τ; exact ⟨fun l hl => by simp [fp] at hl, fun _ hx => Or.inl hx⟩
  | seq a b iha ihb =>
    simp only [defAssign] at h
    cases ha : defAssign X a D with
    | none => rw [ha] at h; simp at h
    | some D₁ =>
      rw [ha] at h
      simp only [Option.bind_some] at h
      intro τ
      exact (iha ha τ).seq (ihb h _)
  | assign x e =>
    simp only [defAssign] at h
    split at h
    · rename_i hr
      simp only [Option.some.injEq] at h; subst h
      intro τ
      refine ⟨erd_readsOK hr τ, fun y hy => ?_⟩
      simp only [List.mem_cons] at hy
      rcases hy with hy | hy
      · subst hy; exact Or.inr (by simp [fp])
      · exact Or.inl hy
    · cases h
  | store1 a i e =>
    simp only [defAssign] at h
    split at h
    · rename_i hr
      simp only [Bool.and_eq_true] at hr
      simp only [Option.some.injEq] at h; subst h
      intro τ
      refine ⟨fun l hl hx => ?_, fun _ hx => Or.inl hx⟩
      simp only [fp, List.mem_append] at hl
      rcases hl with hl | hl
      · exact erd_readsOK hr.1 τ l hl hx
      · exact erd_readsOK hr.2 τ l hl hx
    · cases h
  | store2 a i j e =>
    simp only [defAssign] at h
    split at h
    · rename_i hr
      simp only [Bool.and_eq_true] at hr
      simp only [Option.some.injEq] at h; subst h
      intro τ
      refine ⟨fun l hl hx => ?_, fun _ hx => Or.inl hx⟩
      simp only [fp, List.mem_append] at hl
      rcases hl with (hl | hl) | hl
      · exact erd_readsOK hr.1.1 τ l hl hx
      · exact erd_readsOK hr.1.2 τ l hl hx
      · exact erd_readsOK hr.2 τ l hl hx
    · cases h
  | ite c t f iht ihf =>
    simp only [defAssign] at h
    split at h
    · rename_i hr
      cases ht : defAssign X t D with
      | none => rw [ht] at h; simp at h
      | some Dt =>
        cases hf : defAssign X f D with
        | none => rw [ht, hf] at h; simp at h
        | some Df =>
          rw [ht, hf] at h
          simp only [Option.some.injEq] at h; subst h
          intro τ
          simp only [fp]
          have hc := DAGood.reads (D := D) (erd_readsOK hr τ)
          split
          · have := hc.seq (iht ht τ)
            exact ⟨this.1, fun x hx => this.2 x (List.mem_filter.mp hx).1⟩
          · have := hc.seq (ihf hf τ)
            exact ⟨this.1, fun x hx => this.2 x (by simpa using (List.mem_filter.mp hx).2)⟩
    · cases h
  | loop w lo hi st b ih =>
    simp only [defAssign] at h
    split at h
    · rename_i hr
      simp only [Bool.and_eq_true] at hr
      cases hb : defAssign X b (w :: D) with
      | none => rw [hb] at h; simp at h
      | some Db =>
        rw [hb] at h
        simp only [Option.some.injEq] at h; subst h
        intro τ
        simp only [fp]
        refine (DAGood.reads (fun l hl hx => ?_)).seq (fpIters_da (ih hb) _ _ _ _ τ)
        simp only [List.mem_append] at hl
        rcases hl with (hl | hl) | hl
        · exact erd_readsOK hr.1.1 τ l hl hx
        · exact erd_readsOK hr.1.2 τ l hl hx
        · exact erd_readsOK hr.2 τ l hl hx
    · cases h

/-- **static write-before-read ⇒ `ScalarsUnconditional`, at every store** -/
theorem scalarsUncond_of_static (P : ParDo) (h : staticUncondB P = true) (σ : Store) :
    ScalarsUnconditional P σ := by
  intro k _ l hl
  simp only [staticUncondB, Option.isSome_iff_exists] at h
  obtain ⟨D', hD⟩ := h
  by_cases hp : l.1 ∈ P.privs
  · obtain ⟨h1, h2⟩ := (defAssign_sound hD (P.iterStore σ k)).1 l hl hp
    refine Or.inl ?_
    obtain ⟨x, ij⟩ := l
    simp only [List.mem_singleton] at h1
    simp only at h2
    subst h1; subst h2; rfl
  · exact Or.inr hp

end C09
