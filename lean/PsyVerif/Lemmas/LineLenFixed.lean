import PsyVerif.Lemmas.LineLenJoin
import PsyVerif.Model.LineLenFixed
/-! Lemmas about the FIXED-mode model of C18 (`Model/LineLenFixed.lean`): shape of the output of `loopF`,
`coreF`, `processLineF` as a rendering of a segmentation, and the state machine of `logical` on it. -/
namespace C18

/-! ## table facts -/
theorem maxAffix_eq : maxAffix = 9 := by decide

theorem ce_le (t : Nat) : (Gen.contEnd t).length ≤ 2 := by
  match t with
  | 0 | 1 | 2 | 3 => decide
  | (n + 4) => simp [Gen.contEnd]

theorem cs_le (t : Nat) : (Gen.contStart t).length ≤ 7 := by
  match t with
  | 0 | 1 | 2 | 3 => decide
  | (n + 4) => simp [Gen.contStart]

/-! ## rfindF, findBreakF, breakPt -/

theorem rfindF_spec (key : Line) (start stop : Nat) (l : Line) (i j : Nat)
    (h : rfindF key start stop l i = some j) :
    i ≤ j ∧ start ≤ j ∧ j + key.length ≤ stop ∧
      ∃ a b, l = a ++ key ++ b ∧ a.length = j - i ∧ okAt key (key ++ b) = true := by
  induction l generalizing i with
  | nil => simp [rfindF] at h
  | cons c cs ih =>
    simp only [rfindF] at h
    split at h
    · rename_i j' hj
      cases h
      obtain ⟨h1, h2, h3, a, b, hab, hlen, hok⟩ := ih _ hj
      refine ⟨by omega, h2, h3, c :: a, b, by simp [hab], by simp [hlen]; omega, hok⟩
    · split at h
      · rename_i hc
        cases h
        simp only [Bool.and_eq_true, decide_eq_true_eq] at hc
        obtain ⟨⟨⟨h1, h2⟩, h3⟩, h4⟩ := hc
        obtain ⟨t, ht⟩ := (isPrefix_iff _ _).mp h3
        exact ⟨Nat.le_refl _, h1, h2, [], t, by simp [ht], by simp, by rw [← ht]; exact h4⟩
      · cases h

theorem rfindF_complete (key : Line) (hk : key ≠ []) (start stop : Nat) (l : Line) (i d : Nat)
    (h1 : start ≤ i + d) (h2 : i + d + key.length ≤ stop) (h3 : isPrefix key (l.drop d) = true)
    (h4 : okAt key (l.drop d) = true) :
    ∃ j, rfindF key start stop l i = some j := by
  induction l generalizing i d with
  | nil =>
    cases key with
    | nil => exact absurd rfl hk
    | cons a as => simp [isPrefix] at h3
  | cons c cs ih =>
    simp only [rfindF]
    cases d with
    | zero =>
      cases hr : rfindF key start stop cs (i + 1) with
      | some j => exact ⟨j, rfl⟩
      | none =>
        simp only [List.drop_zero] at h3 h4
        have : (decide (start ≤ i) && decide (i + key.length ≤ stop) && isPrefix key (c :: cs) &&
            okAt key (c :: cs)) = true := by
          simp [h3, h4]; omega
        simp [this]
    | succ d =>
      obtain ⟨j, hj⟩ := ih (i + 1) d (by omega) (by omega) (by simpa using h3) (by simpa using h4)
      exact ⟨j, by simp [hj]⟩

theorem findBreakF_spec (l : Line) (m : Nat) (keys : List Line) (bp : Nat)
    (h : findBreakF l m keys = some bp) :
    ∃ key ∈ keys, fnw l + 1 + key.length ≤ bp ∧ bp ≤ m ∧ bp ≤ l.length ∧ key <:+ l.take bp ∧
      okAt key (key ++ l.drop bp) = true := by
  induction keys with
  | nil => simp [findBreakF] at h
  | cons key keys ih =>
    simp only [findBreakF] at h
    split at h
    · rename_i idx hidx
      cases h
      obtain ⟨_, h2, h3, a, b, hab, hlen, hok⟩ := rfindF_spec _ _ _ _ _ _ hidx
      have e : idx + key.length = (a ++ key).length := by simp; omega
      refine ⟨key, List.mem_cons_self, by omega, h3, ?_, ?_, ?_⟩
      · subst hab; simp; omega
      · subst hab
        rw [e, List.take_left' rfl]; exact List.suffix_append a key
      · subst hab
        rw [e, List.drop_left' rfl]; exact hok
    · obtain ⟨k, hk, rest⟩ := ih h
      exact ⟨k, List.mem_cons_of_mem _ hk, rest⟩

theorem findBreakF_some_of_rfindF (l : Line) (m : Nat) (keys : List Line) (key : Line) (hk : key ∈ keys)
    (h : ∃ j, rfindF key (fnw l + 1) m l 0 = some j) : ∃ bp, findBreakF l m keys = some bp := by
  induction keys with
  | nil => cases hk
  | cons k ks ih =>
    simp only [findBreakF]
    cases hr : rfindF k (fnw l + 1) m l 0 with
    | some idx => exact ⟨_, rfl⟩
    | none =>
      rcases List.mem_cons.mp hk with rfl | hk'
      · obtain ⟨j, hj⟩ := h; rw [hj] at hr; cases hr
      · exact ih hk'

/-- what `_break_point` guarantees: a key position, or (not for directives) the end of the window -/
def BreakAt (t : Nat) (keys : List Line) (l : Line) (m bp : Nat) : Prop :=
  (∃ key ∈ keys, fnw l + 1 + key.length ≤ bp ∧ bp ≤ m ∧ bp ≤ l.length ∧ key <:+ l.take bp ∧
      okAt key (key ++ l.drop bp) = true) ∨ (isDirT t = false ∧ bp = m)

theorem breakPt_spec (t : Nat) (l : Line) (m : Nat) (keys : List Line) (bp : Nat)
    (h : breakPt t l m keys = some bp) : BreakAt t keys l m bp := by
  unfold breakPt at h
  split at h
  · rename_i bp' hbp; cases h; exact Or.inl (findBreakF_spec _ _ _ _ hbp)
  · split at h
    · cases h
    · rename_i hd; cases h; exact Or.inr ⟨by simpa using hd, rfl⟩

/-! ## segmentations -/

/-- the clause a break adds: the segment ends with a key that may be followed by the rest, or the line is not
a directive -/
def KeyEnd (t : Nat) (keys : List Line) (q rest : Line) : Prop :=
  (∃ key ∈ keys, key <:+ q ∧ okAt key (key ++ rest) = true) ∨ isDirT t = false

def SegsF (t : Nat) (cs ce : Line) (keys : List Line) (L : Nat) : List Line → Prop
  | [] => True
  | [q] => q ≠ [] ∧ (cs ++ q).length ≤ L
  | q :: q' :: qs => q ≠ [] ∧ (cs ++ q ++ ce).length ≤ L ∧ KeyEnd t keys q (q' :: qs).flatten ∧
      SegsF t cs ce keys L (q' :: qs)

theorem loopF_shape (t : Nat) (cs ce : Line) (keys : List Line) (L : Nat) (hL : cs.length + ce.length < L)
    (n : Nat) (r : Line) (ps : List Line)
    (h : loopF t cs ce keys L n r = .ok ps) :
    ∃ qs, r = qs.flatten ∧ ps = render cs ce qs ∧ SegsF t cs ce keys L qs ∧ (r ≠ [] → qs ≠ []) := by
  induction n generalizing r ps with
  | zero => simp [loopF] at h
  | succ n ih =>
    simp only [loopF] at h
    split at h
    · rename_i hlong
      split at h
      · cases h
      · rename_i bp hbp
        split at h
        · rename_i ps' hps
          cases h
          obtain ⟨qs, hr, hps', hseg, hne⟩ := ih _ _ hps
          have hb := breakPt_spec _ _ _ _ _ hbp
          have hbnd : 1 ≤ bp ∧ bp ≤ L - ce.length - cs.length ∧ bp < r.length := by
            rcases hb with ⟨key, _, h1, h2, h3, _⟩ | ⟨_, rfl⟩
            · omega
            · omega
          have hdrop : r.drop bp ≠ [] := by
            intro h0
            have : r.length ≤ bp := by simpa using List.drop_eq_nil_iff.mp h0
            omega
          have hqs := hne hdrop
          cases qs with
          | nil => exact absurd rfl hqs
          | cons q' qs =>
            refine ⟨r.take bp :: q' :: qs, ?_, ?_, ?_, by simp⟩
            · rw [List.flatten_cons, ← hr, List.take_append_drop]
            · simp [render, hps']
            · refine ⟨?_, ?_, ?_, hseg⟩
              · intro h0
                have : bp = 0 ∨ r = [] := by simpa using List.take_eq_nil_iff.mp h0
                rcases this with h | h
                · omega
                · subst h; simp at hbnd
              · simp [List.length_take]; omega
              · rcases hb with ⟨key, hkey, _, _, _, h4, h5⟩ | ⟨hd, _⟩
                · exact Or.inl ⟨key, hkey, h4, by rw [← hr]; exact h5⟩
                · exact Or.inr hd
        · cases h
    · split at h
      · rename_i he
        cases h
        have : r = [] := by simpa using he
        subst this
        exact ⟨[], by simp, by simp [render], trivial, by simp⟩
      · rename_i he
        cases h
        have hr : r ≠ [] := by simpa using he
        refine ⟨[r], by simp, by simp [render], ⟨hr, ?_⟩, by simp⟩
        simp; omega

theorem renderF_length (t : Nat) (cs ce : Line) (keys : List Line) (L : Nat) (qs : List Line)
    (h : SegsF t cs ce keys L qs) : ∀ p ∈ render cs ce qs, p.length ≤ L := by
  induction qs with
  | nil => simp [render]
  | cons q qs ih =>
    cases qs with
    | nil => simp only [render, SegsF] at *; intro p hp; simp at hp; subst hp; exact h.2
    | cons q' qs =>
      simp only [render, SegsF] at *
      intro p hp
      rcases List.mem_cons.mp hp with rfl | hp
      · exact h.2.1
      · exact ih h.2.2.2 p hp

theorem SegsF_nonempty (t : Nat) (cs ce : Line) (keys : List Line) (L : Nat) (qs : List Line)
    (h : SegsF t cs ce keys L qs) : ∀ x ∈ qs, x ≠ [] := by
  induction qs with
  | nil => simp
  | cons q qs ih =>
    cases qs with
    | nil => simp only [SegsF] at h; intro x hx; simp at hx; subst hx; exact h.1
    | cons q' qs =>
      simp only [SegsF] at h
      intro x hx
      rcases List.mem_cons.mp hx with rfl | hx
      · exact h.1
      · exact ih h.2.2.2 x hx

/-- Shape of the output for a line of type `t` that was actually split (repaired code). -/
def SplitShapeF (L : Nat) (t : Nat) (l' : Line) (ps : List Line) : Prop :=
  ∃ q1 qs, l' = q1 ++ qs.flatten ∧
    ps = (q1 ++ Gen.contEnd t) :: render (Gen.contStart t) (Gen.contEnd t) qs ∧
    fnw l' + 2 ≤ q1.length ∧
    (KeyEnd t (Gen.keyList t) q1 qs.flatten) ∧
    (isDirT t = true ∨ fnw l' + 3 ≤ q1.length ∨ ∃ key ∈ Gen.keyList t, key <:+ q1) ∧
    (q1 ++ Gen.contEnd t).length ≤ L ∧
    SegsF t (Gen.contStart t) (Gen.contEnd t) (Gen.keyList t) L qs ∧
    (qs = [] → Gen.contEnd t = [])

theorem piecesF_shape (L t : Nat) (hL : 9 < L) (l : Line) (bp : Nat) (ps : List Line) (hl : L ≤ l.length)
    (hb : (∃ key ∈ Gen.keyList t, fnw l + 1 + key.length ≤ bp ∧ bp ≤ L - (Gen.contEnd t).length ∧ bp ≤ l.length ∧
        key <:+ l.take bp ∧ okAt key (key ++ l.drop bp) = true) ∨
      (isDirT t = false ∧ bp = L - (Gen.contEnd t).length ∧ fnw l = 0))
    (h : piecesF t (Gen.contStart t) (Gen.contEnd t) (Gen.keyList t) L l bp = .ok ps) :
    SplitShapeF L t l ps := by
  have hce := ce_le t
  have hcs := cs_le t
  unfold piecesF at h
  split at h
  · rename_i ps' hps
    cases h
    obtain ⟨qs, hr, hps', hseg, hne⟩ := loopF_shape _ _ _ _ _ (by omega) _ _ _ hps
    have hkne : ∀ key ∈ Gen.keyList t, 0 < key.length := by
      intro key hk
      have : ∀ t, ∀ key ∈ Gen.keyList t, key ≠ [] := by
        intro t
        match t with
        | 0 | 1 | 2 | 3 => decide
        | (n + 4) => simp [Gen.keyList]
      exact List.length_pos_iff.mpr (this t key hk)
    have hbnd : fnw l + 2 ≤ bp ∧ bp ≤ L - (Gen.contEnd t).length ∧ bp ≤ l.length := by
      rcases hb with ⟨key, hk, h1, h2, h3, _⟩ | ⟨hd, rfl, hz⟩
      · have := hkne key hk; omega
      · omega
    refine ⟨l.take bp, qs, ?_, by rw [hps'], ?_, ?_, ?_, ?_, hseg, ?_⟩
    · rw [← hr, List.take_append_drop]
    · simp [List.length_take]; omega
    · rcases hb with ⟨key, hkey, _, _, _, h4, h5⟩ | ⟨hd, _⟩
      · exact Or.inl ⟨key, hkey, h4, by rw [← hr]; exact h5⟩
      · exact Or.inr hd
    · rcases hb with ⟨key, hkey, _, _, _, h4, _⟩ | ⟨hd, rfl, hz⟩
      · exact Or.inr (Or.inr ⟨key, hkey, h4⟩)
      · right; left; simp [List.length_take]; omega
    · simp [List.length_take]; omega
    · intro hq
      subst hq
      have : l.drop bp = [] := by simpa using hr
      have : l.length ≤ bp := by simpa using List.drop_eq_nil_iff.mp this
      have : (Gen.contEnd t).length = 0 := by omega
      exact List.length_eq_zero_iff.mp this
  · cases h

theorem coreF_shape (L t : Nat) (hL : 9 < L) (l : Line) (ps : List Line) (hlong : L < l.length)
    (h : coreF L t l = .ok ps) :
    ((lstrip l).length < L ∧ ps = [lstrip l]) ∨ SplitShapeF L t l ps ∨ SplitShapeF L t (lstrip l) ps := by
  unfold coreF at h
  simp only at h
  split at h
  · rename_i bp hbp
    right; left
    exact piecesF_shape L t hL l bp ps (by omega) (Or.inl (findBreakF_spec _ _ _ _ hbp)) h
  · split at h
    · rename_i hshort
      cases h
      left; exact ⟨hshort, rfl⟩
    · rename_i hnshort
      split at h
      · rename_i bp hbp
        right; right
        refine piecesF_shape L t hL _ bp ps (by omega) ?_ h
        rcases breakPt_spec _ _ _ _ _ hbp with hk | ⟨hd, rfl⟩
        · exact Or.inl hk
        · exact Or.inr ⟨hd, rfl, fnw_lstrip l⟩
      · cases h


theorem SplitShapeF_length (L t : Nat) (l' : Line) (ps : List Line) (hs : SplitShapeF L t l' ps) :
    ∀ p ∈ ps, p.length ≤ L := by
  intro p hp
  obtain ⟨q1, qs, _, hps, _, _, _, hlen, hseg, _⟩ := hs
  subst hps
  rcases List.mem_cons.mp hp with rfl | hp
  · exact hlen
  · exact renderF_length _ _ _ _ _ _ hseg p hp

theorem rstrip_of_lastNonWs (l : Line) (h : lastNonWs l = true) : rstrip l = l := by
  unfold rstrip
  unfold lastNonWs at h
  cases hr : l.reverse with
  | nil => simpa using hr
  | cons c cs =>
    have hl : l = (c :: cs).reverse := by rw [← hr, List.reverse_reverse]
    rw [hl] at h
    simp at h
    simp [List.dropWhile, h, hl]


theorem processLineF_shape (L : Nat) (hL : 9 < L) (l : Line) (ps : List Line) (h : processLineF L l = .ok ps) :
    (l.length ≤ L ∧ ps = [l]) ∨
    (L < l.length ∧ (wrapped l).length ≤ L ∧ ps = [wrapped l]) ∨
    (L < l.length ∧ L < (wrapped l).length ∧
      (((lstrip (wrapped l)).length < L ∧ ps = [lstrip (wrapped l)]) ∨
        SplitShapeF L (lineType l) (wrapped l) ps ∨ SplitShapeF L (lineType l) (lstrip (wrapped l)) ps)) := by
  unfold processLineF at h
  split at h
  · rename_i hlong
    right
    simp only at h
    unfold wrapped
    split at h
    · rename_i hw
      rw [if_pos hw]
      split at h
      · rename_i hs; cases h; left; exact ⟨hlong, hs, rfl⟩
      · rename_i hs; right; exact ⟨hlong, by omega, coreF_shape L _ hL _ ps (by omega) h⟩
    · rename_i hw
      rw [if_neg hw]
      right; exact ⟨hlong, hlong, coreF_shape L _ hL _ ps hlong h⟩
  · cases h; left; exact ⟨by omega, rfl⟩

theorem processLineF_length (L : Nat) (hL : 9 < L) (l : Line) (ps : List Line) (h : processLineF L l = .ok ps) :
    ∀ p ∈ ps, p.length ≤ L := by
  rcases processLineF_shape L hL l ps h with ⟨h1, rfl⟩ | ⟨_, h2, rfl⟩ | ⟨_, _, ⟨h3, rfl⟩ | hs | hs⟩
  · simpa using h1
  · simpa using h2
  · simp; omega
  · exact SplitShapeF_length _ _ _ _ hs
  · exact SplitShapeF_length _ _ _ _ hs

/-! ## the state machine of `logical` on the pieces -/

theorem Segs_dirF (k : Nat) (hk : k = 1 ∨ k = 2) (cs ce : Line) (L : Nat) (qs : List Line)
    (h : SegsF k cs ce (Gen.keyList k) L qs) : DirSegs qs := by
  induction qs with
  | nil => trivial
  | cons q rest ih =>
    cases rest with
    | nil => trivial
    | cons q' rest' =>
      simp only [SegsF] at h
      obtain ⟨_, _, hke, hrest⟩ := h
      have hd : isDirT k = true := by rcases hk with rfl | rfl <;> rfl
      rcases hke with ⟨key, hkey, hsuf, hok⟩ | hnd
      · obtain ⟨p, k0, hq, hk0⟩ := key_dir k hk key q hkey hsuf
        refine ⟨⟨p, k0, hq, hk0, ?_⟩, ih hrest⟩
        intro c r hc h61
        subst h61
        have hkeyeq : key = [61] := by
          have : key = [32] ∨ key = [44] ∨ key = [41] ∨ key = [61] := by
            rcases hk with rfl | rfl <;> simpa [Gen.keyList] using hkey
          obtain ⟨pp, hpp⟩ := hsuf
          rw [hq] at hpp
          rcases this with rfl | rfl | rfl | rfl
          · have := List.append_inj_right' hpp rfl; simp at this
          · have := List.append_inj_right' hpp rfl; simp at this
          · have := List.append_inj_right' hpp rfl; simp at this
          · rfl
        subst hkeyeq
        have hfl : (q' :: rest').flatten = c :: (r ++ rest'.flatten) := by simp [hc]
        rw [hfl] at hok
        simp [okAt] at hok
        omega
      · rw [hd] at hnd; cases hnd

theorem run_splitF (L : Nat) (st : St) (l l' : Line) (ps : List Line) (hl' : l' = l ∨ l' = lstrip l)
    (hs : SplitShapeF L (lineType l) l' ps)
    (hsafe0 : safeLineF st l = true) : run st ps = step st l := by
  have hsafe : (match classify l with
      | 0 => true
      | 1 | 2 => (cutBang ((lstrip l).drop 5)).2.isNone && lastNonWs l
      | 3 => true
      | _ => (scan (stmtQ st) (content st l)).2.1.isNone && lastNonWs l) = true := by
    unfold safeLineF at hsafe0
    simp only [Bool.and_eq_true] at hsafe0
    exact hsafe0.2
  obtain ⟨q1, qs, hl'eq, hps, hq1, hke, hq3, _, hseg, hqs0⟩ := hs
  have hstrip : lstrip l' = lstrip l := by rcases hl' with rfl | rfl; rfl; exact lstrip_idem l
  have hstep : step st l' = step st l := by rcases hl' with rfl | rfl; rfl; exact step_lstrip st l
  have hclseq : classify l' = classify l := by rw [classify_eq, classify_eq, hstrip]
  have hcont : content st l' = content st l := by unfold content; rw [hstrip]
  have hsegne := SegsF_nonempty _ _ _ _ _ _ hseg
  have hlen2 : 2 ≤ (lstrip l).length := by
    rw [← hstrip, lstrip_length]
    have : q1.length ≤ l'.length := by rw [hl'eq]; simp
    omega
  have hlast' : lastNonWs l = true → lastNonWs l' = true := by
    intro h
    rcases hl' with rfl | rfl
    · exact h
    · obtain ⟨w, hw⟩ := lstrip_suffix l
      rw [hw, lastNonWs_append _ _ (by intro h0; rw [h0] at hlen2; simp at hlen2)] at h
      exact h
  rw [← hstep]
  cases hlr : lstrip l with
  | nil => rw [hlr] at hlen2; simp at hlen2
  | cons c r =>
    by_cases hc : c = 33
    · subst hc
      have hlt := lineType_of_bang l r hlr
      have hcl : classify l = classifyS (33 :: r) := by rw [classify_eq, hlr]
      have dirCase : ∀ k, (k = 1 ∨ k = 2) → classifyS (33 :: r) = k → run st ps = step st l' := by
        intro k hk h1
        rw [h1] at hlt hcl
        rw [hlt] at hps hke hseg hqs0
        have hd : isDirT k = true := by rcases hk with rfl | rfl <;> rfl
        have hqs : qs ≠ [] := fun h0 => by
          have := hqs0 h0
          rcases hk with rfl | rfl <;> simp [Gen.contEnd] at this
        have hsafe' : (cutBang ((lstrip l).drop 5)).2 = none ∧ lastNonWs l = true := by
          rcases hk with rfl | rfl <;>
            simpa [hcl, Bool.and_eq_true, Option.isNone_iff_eq_none] using hsafe
        obtain ⟨hbang, hlast⟩ := hsafe'
        rcases hke with ⟨key, hkey, hksuf, hok⟩ | hnd
        · obtain ⟨p, k0, hpk, hk0⟩ := key_dir k hk key q1 hkey hksuf
          rw [hps]
          have e : Gen.contStart k = sent k ++ [38, 32] ∧ Gen.contEnd k = [32, 38] := by
            rcases hk with rfl | rfl <;> exact ⟨rfl, rfl⟩
          rw [e.1, e.2]
          apply run_dir_line st k hk l' q1 p k0 qs hl'eq hq1 (by rw [hclseq, hcl]) hpk hk0 _ hqs hsegne
            (Segs_dirF k hk _ _ _ _ hseg) (by rw [hstrip]; exact hbang) (hlast' hlast)
          intro c r hcr h61
          subst h61
          have hkeyeq : key = [61] := by
            have : key = [32] ∨ key = [44] ∨ key = [41] ∨ key = [61] := by
              rcases hk with rfl | rfl <;> simpa [Gen.keyList] using hkey
            obtain ⟨pp, hpp⟩ := hksuf
            rw [hpk] at hpp
            rcases this with rfl | rfl | rfl | rfl
            · have := List.append_inj_right' hpp rfl; simp at this
            · have := List.append_inj_right' hpp rfl; simp at this
            · have := List.append_inj_right' hpp rfl; simp at this
            · rfl
          subst hkeyeq
          rw [hcr] at hok
          simp [okAt] at hok
          omega
        · rw [hd] at hnd; cases hnd
      rcases classifyS_vals r with h1 | h1 | h1
      · exact dirCase 1 (Or.inl rfl) h1
      · exact dirCase 2 (Or.inr rfl) h1
      · -- comment
        rw [h1] at hlt hcl
        rw [hlt] at hps hq3
        rw [hps]
        have e1 : Gen.contStart 3 = [33, 38, 32] := rfl
        have e2 : Gen.contEnd 3 = [] := rfl
        rw [e1, e2, List.append_nil]
        apply run_comment_line st l' q1 qs hl'eq hq1 (by rw [hclseq, hcl])
        intro h0
        rcases hq3 with hd | h3 | ⟨key, hkey, hksuf⟩
        · cases hd
        · obtain ⟨hlen, _⟩ := lstrip_first_seg l' q1 qs.flatten 3 hl'eq h3 (by omega)
          rw [h0] at hlen; simp at hlen
        · obtain ⟨w, hw⟩ := lstrip_suffix q1
          obtain ⟨pk, hpk⟩ := hksuf
          have hk3 : key = [32] ∨ key = [46] ∨ key = [44] := by simpa [Gen.keyList] using hkey
          rw [h0] at hw
          rw [hw] at hpk
          have hpk' : pk ++ key = (w ++ [33]) ++ [38] := by rw [hpk]; simp
          rcases hk3 with rfl | rfl | rfl <;>
            · have := List.append_inj_right' hpk' rfl
              simp at this
    · -- statement / unknown
      have hcl : classify l = 4 := classify_code l c r hlr hc
      have ht : Gen.contStart (lineType l) = [38] ∧ Gen.contEnd (lineType l) = [38] := by
        rcases lineType_of_code l c r hlr hc with h | h <;> rw [h] <;> exact ⟨rfl, rfl⟩
      rw [ht.1, ht.2] at hps
      rw [ht.2] at hqs0
      have hqs : qs ≠ [] := fun h0 => by have := hqs0 h0; simp at this
      simp only [hcl, Bool.and_eq_true, Option.isNone_iff_eq_none] at hsafe
      rw [hps]
      exact run_code_line st l' q1 qs hl'eq hq1 (by rw [hclseq, hcl]) hqs hsegne (by rw [hcont]; exact hsafe.1)
        (hlast' hsafe.2)

end C18
